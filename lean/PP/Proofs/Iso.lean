/-
C16, layer 1: the generic isogeny evaluation `evalIso` of `PP.Model.Map` (a mirror of `eval_iso` in
src/bls12_381/isogeny/mod.rs) computes, in Jacobian coordinates and for every representative of the
input point, the rational map

    (x, y) ↦ (XN(x) / XD(x), y · YN(x) / YD(x))

given by its four coefficient lists; it sends the identity and the poles of the map (the kernel) to
the identity; and if the four polynomials satisfy the identity

    (x³ + A'x + B') · YN² · XD³ = (XN³ + b · XD³) · YD²        in F[x]

then it sends `y² = x³ + A'x + B'` to `y² = x³ + b`.  The identity is *checked* for the extracted
coefficient tables of the 11-isogeny (over `Fq`) and of the 3-isogeny (over `Fq2`, with the model's
own `Fq2` arithmetic) by kernel computation on coefficient lists.

Everything is stated for an abstract field `F` carrying the model's extra operations
(`LawfulFieldOps`), then instantiated at `Fq` (`iso11`).  For `iso3` the instantiation takes a
`Field Fq2` structure as an argument, together with the fact that its `+ * 0 1 -` are the model's
(`Fq2FieldAgrees`, provable by `⟨rfl, rfl, rfl, rfl, rfl⟩` for an instance built on the model's
operations), because the field structure of `Fq2` is established in another module.
-/
import PP.Proofs.IsoPoly
import PP.Proofs.Lawful
import PP.Proofs.Primes
import PP.Model.Map
import Mathlib.Tactic.LinearCombination

set_option linter.unusedSectionVars false

namespace PP
open IsoPoly
namespace Iso

/-! ## arrays -/

section generic
variable {F : Type} [Field F] [FieldOps F] [LawfulFieldOps F]

theorem getD_set! {α : Type} (a : Array α) (i j : Nat) (v d : α) :
    (a.set! i v).getD j d = if i = j ∧ i < a.size then v else a.getD j d := by
  simp only [Array.set!_eq_setIfInBounds, Array.getD_eq_getD_getElem?, Array.getElem?_setIfInBounds]
  by_cases h : i = j
  · subst h
    by_cases h2 : i < a.size
    · simp [h2]
    · simp [h2]
  · simp [h]


/-! ## the table of powers of `z` and one map value -/

/-- one iteration (`idx = k + 1`) of the loop that fills the table -/
def zpStep (z2 : F) (zp : Array F) (k : Nat) : Array F :=
  let idx := k + 1
  if idx % 2 = 0 then zp.set! (idx + 1) (sq (zp.getD (idx / 2 - 1 + 1) 0))
  else zp.set! (idx + 1) ((zp.getD (idx - 1 + 1) 0) * z2)

def zpInit (z2 : F) : Array F := ((Array.replicate 15 (0 : F)).set! 0 z2).set! 1 (sq z2)

theorem isoZpows_eq (z : F) (n : Nat) :
    isoZpows z n = (List.range (n - 2 - 1)).foldl (zpStep (sq z)) (zpInit (sq z)) := rfl

/-- loop invariant: the first `m + 2` entries are the powers of `w` -/
def ZpInv (w : F) (zp : Array F) (m : Nat) : Prop :=
  zp.size = 15 ∧ ∀ j, j < 15 → j ≤ m + 1 → zp.getD j 0 = w ^ (j + 1)

theorem zpInv_init (w : F) : ZpInv w (zpInit w) 0 := by
  refine ⟨by simp [zpInit], ?_⟩
  intro j _ hj
  have : j = 0 ∨ j = 1 := by omega
  rcases this with rfl | rfl
  · simp [zpInit]
  · simp [zpInit, pow_two]

theorem zpInv_step (w : F) (zp : Array F) (m : Nat) (h : ZpInv w zp m) :
    ZpInv w (zpStep w zp m) (m + 1) := by
  obtain ⟨hs, hv⟩ := h
  have hval : m + 2 < 15 → (if (m + 1) % 2 = 0 then sq (zp.getD ((m + 1) / 2 - 1 + 1) 0)
      else (zp.getD (m + 1 - 1 + 1) 0) * w) = w ^ (m + 2 + 1) := by
    intro hm
    split
    · next he =>
      have h1 : (m + 1) / 2 - 1 + 1 = (m + 1) / 2 := by omega
      rw [h1, hv _ (by omega) (by omega), LawfulFieldOps.sq_eq, ← pow_add]
      congr 1; omega
    · next ho =>
      have h1 : m + 1 - 1 + 1 = m + 1 := by omega
      rw [h1, hv _ (by omega) (by omega), ← pow_succ]
  constructor
  · unfold zpStep; dsimp only; split <;> simp [hs]
  · intro j hj hjm
    have hstep : (zpStep w zp m).getD j 0 =
        if m + 2 = j ∧ m + 2 < zp.size then
          (if (m + 1) % 2 = 0 then sq (zp.getD ((m + 1) / 2 - 1 + 1) 0)
            else (zp.getD (m + 1 - 1 + 1) 0) * w)
        else zp.getD j 0 := by
      unfold zpStep; dsimp only
      split <;> rw [getD_set!]
    rw [hstep, hs]
    by_cases hj2 : m + 2 = j
    · subst hj2
      rw [if_pos ⟨rfl, hj⟩, hval hj]
    · rw [if_neg (fun h => hj2 h.1)]
      exact hv j hj (by omega)

theorem zpInv_foldl (w : F) (m : Nat) :
    ZpInv w ((List.range m).foldl (zpStep w) (zpInit w)) m := by
  induction m with
  | zero => simpa using zpInv_init w
  | succ m ih =>
    rw [List.range_succ, List.foldl_append]
    exact zpInv_step w _ m ih

/-- C16.1: every entry the code reads is the advertised power of `z` -/
theorem isoZpows_spec (z : F) (n j : Nat) (hj : j < 15) (h : j + 2 ≤ n ∨ j ≤ 1) :
    (isoZpows z n).getD j 0 = z ^ (2 * (j + 1)) := by
  rw [isoZpows_eq, LawfulFieldOps.sq_eq, pow_mul, pow_two]
  exact (zpInv_foldl (z * z) (n - 2 - 1)).2 j hj (by omega)

theorem horner_range (x init : F) (g : Nat → F) (n : Nat) :
    ((List.range n).map g).foldl (fun acc t => acc * x + t) init =
      init * x ^ n + ∑ j ∈ Finset.range n, g j * x ^ (n - 1 - j) := by
  induction n with
  | zero => simp
  | succ n ih =>
    rw [List.range_succ, List.map_append, List.foldl_append, ih, Finset.sum_range_succ]
    simp only [List.map_cons, List.map_nil, List.foldl_cons, List.foldl_nil]
    rw [add_mul, Finset.sum_mul]
    have : ∑ i ∈ Finset.range n, g i * x ^ (n - 1 - i) * x = ∑ i ∈ Finset.range n, g i * x ^ (n + 1 - 1 - i) := by
      apply Finset.sum_congr rfl
      intro i hi
      have hi' : i < n := Finset.mem_range.mp hi
      have : n + 1 - 1 - i = (n - 1 - i) + 1 := by omega
      rw [this, pow_succ]; ring
    rw [this]
    have h0 : n + 1 - 1 - n = 0 := by omega
    rw [h0]; ring

/-- C16.2: one map value is the homogenised polynomial at `(x, z²)` -/
theorem isoMapval_spec (z x : F) (n : Nat) (cs : List F) (hn : cs.length ≤ n) (h16 : cs.length ≤ 16) :
    isoMapval (isoZpows z n) x cs = hEval cs x (z ^ 2) := by
  unfold isoMapval
  dsimp only
  have hga : ∀ i, cs.toArray.getD i 0 = cs.getD i 0 := by intro i; simp
  simp only [hga]
  rw [horner_range, hEval_eq_sum]
  rcases Nat.eq_zero_or_pos cs.length with h0 | hpos
  · have : cs = [] := List.length_eq_zero_iff.mp h0
    subst this; simp
  · obtain ⟨d, hd⟩ : ∃ d, cs.length = d + 1 := ⟨cs.length - 1, by omega⟩
    rw [hd, Nat.add_sub_cancel, Finset.sum_range_succ, Nat.sub_self, pow_zero, mul_one, add_comm]
    congr 1
    rw [← Finset.sum_range_reflect]
    apply Finset.sum_congr rfl
    intro j hj
    have hj' : j < d := Finset.mem_range.mp hj
    rw [isoZpows_spec z n (d - 1 - j) (by omega) (by omega)]
    have e1 : d - 1 - (d - 1 - j) = j := by omega
    have e2 : d - 1 - j + 1 = d - j := by omega
    rw [e1, e2, ← pow_mul]
    ring


/-- the model's `is_zero` -/
theorem jac_isZero_iff (p : Jac F) : p.isZero = true ↔ p.z = 0 := by
  unfold Jac.isZero; exact LawfulFieldOps.isZero_iff _

/-! ## the evaluation -/

/-- the shape of the coefficient tables at the two call sites of `eval_iso`
    (`xden` one shorter than `xnum`, `yden` as long as `ynum`, `ynum` the longest, at most 16: the
    Rust scratch arrays have 16 and 15 entries) -/
structure IsoShape (xnum xden ynum yden : List F) : Prop where
  xnum_len : xnum.length = xden.length + 1
  yden_len : yden.length = ynum.length
  xden_pos : 1 ≤ xden.length
  x_le_y : xnum.length ≤ ynum.length
  y_le : ynum.length ≤ 16

variable {xnum xden ynum yden : List F}

/-- `eval_iso` in closed form: the four homogenised polynomials and the recombination -/
theorem evalIso_eq (sh : IsoShape xnum xden ynum yden) (p : Jac F) :
    evalIso xnum xden ynum yden p =
      let m0 := hEval xnum p.x (p.z ^ 2)
      let m1 := hEval xden p.x (p.z ^ 2) * p.z ^ 2
      let m2 := hEval ynum p.x (p.z ^ 2) * p.y
      let m3 := hEval yden p.x (p.z ^ 2) * p.z * p.z ^ 2
      ⟨m0 * m3 * (m1 * m3), (m1 * m3) ^ 2 * m2 * m1, m1 * m3⟩ := by
  obtain ⟨h1, h2, h3, h4, h5⟩ := sh
  unfold evalIso
  dsimp only
  rw [isoMapval_spec _ _ _ xnum (by omega) (by omega), isoMapval_spec _ _ _ xden (by omega) (by omega),
    isoMapval_spec _ _ _ ynum (by omega) (by omega), isoMapval_spec _ _ _ yden (by omega) (by omega),
    isoZpows_spec _ _ 0 (by omega) (Or.inr (by omega)), LawfulFieldOps.sq_eq]
  rw [Jac.mk.injEq]
  refine ⟨rfl, by ring, rfl⟩

/-- C16.3c: the identity (any triple with `z = 0`) is sent to the identity; no shape needed -/
theorem iso_identity (p : Jac F) (hz : p.z = 0) : (evalIso xnum xden ynum yden p).z = 0 := by
  unfold evalIso
  dsimp only
  rw [hz]; ring

/-- the four map values at a finite point, as multiples of the values of the four polynomials at the
    affine abscissa `x / z²` -/
theorem mapvals_of_z_ne (sh : IsoShape xnum xden ynum yden) (p : Jac F) (hz : p.z ≠ 0) :
    ∃ c e : F, c ≠ 0 ∧ e ≠ 0 ∧
      hEval xnum p.x (p.z ^ 2) = c * evalP xnum (p.x / p.z ^ 2) ∧
      hEval xden p.x (p.z ^ 2) * p.z ^ 2 = c * evalP xden (p.x / p.z ^ 2) ∧
      hEval ynum p.x (p.z ^ 2) = e * evalP ynum (p.x / p.z ^ 2) ∧
      hEval yden p.x (p.z ^ 2) = e * evalP yden (p.x / p.z ^ 2) := by
  obtain ⟨h1, h2, h3, h4, h5⟩ := sh
  have hw : p.z ^ 2 ≠ 0 := pow_ne_zero 2 hz
  refine ⟨(p.z ^ 2) ^ xden.length, (p.z ^ 2) ^ (ynum.length - 1), pow_ne_zero _ hw, pow_ne_zero _ hw,
    ?_, ?_, ?_, ?_⟩
  · rw [hEval_eq_evalP _ _ hw, h1, Nat.add_sub_cancel]
  · rw [hEval_mul_eq _ _ hw]
  · rw [hEval_eq_evalP _ _ hw]
  · rw [hEval_eq_evalP _ _ hw, h2]

/-- C16.3a: at a finite point that is not a pole, the output is a finite point whose affine
    coordinates are the values of the rational map
    `(x, y) ↦ (XN(x)/XD(x), y · YN(x)/YD(x))` at the affine input `(X/Z², Y/Z³)`. -/
theorem iso_affine (sh : IsoShape xnum xden ynum yden) (p : Jac F) (hz : p.z ≠ 0)
    (hxd : evalP xden (p.x / p.z ^ 2) ≠ 0) (hyd : evalP yden (p.x / p.z ^ 2) ≠ 0) :
    (evalIso xnum xden ynum yden p).z ≠ 0 ∧
    (evalIso xnum xden ynum yden p).x / (evalIso xnum xden ynum yden p).z ^ 2 =
      evalP xnum (p.x / p.z ^ 2) / evalP xden (p.x / p.z ^ 2) ∧
    (evalIso xnum xden ynum yden p).y / (evalIso xnum xden ynum yden p).z ^ 3 =
      (p.y / p.z ^ 3) * evalP ynum (p.x / p.z ^ 2) / evalP yden (p.x / p.z ^ 2) := by
  obtain ⟨c, e, hc, he, e0, e1, e2, e3⟩ := mapvals_of_z_ne sh p hz
  rw [evalIso_eq sh]
  dsimp only
  rw [e0, e1, e2, e3]
  generalize evalP xnum (p.x / p.z ^ 2) = XN at *
  generalize evalP xden (p.x / p.z ^ 2) = XD at *
  generalize evalP ynum (p.x / p.z ^ 2) = YN at *
  generalize evalP yden (p.x / p.z ^ 2) = YD at *
  have hz1 : c * XD * (e * YD * p.z * p.z ^ 2) ≠ 0 := by
    simp [hc, he, hz, hxd, hyd]
  refine ⟨hz1, ?_, ?_⟩
  · field_simp
  · field_simp

/-- C16.3b/d: the output is the identity exactly for the identity and for the poles of the map
    (the kernel of the isogeny) -/
theorem iso_z_eq_zero_iff (sh : IsoShape xnum xden ynum yden) (p : Jac F) :
    (evalIso xnum xden ynum yden p).z = 0 ↔
      p.z = 0 ∨ evalP xden (p.x / p.z ^ 2) = 0 ∨ evalP yden (p.x / p.z ^ 2) = 0 := by
  by_cases hz : p.z = 0
  · simp [iso_identity p hz, hz]
  · obtain ⟨c, e, hc, he, e0, e1, e2, e3⟩ := mapvals_of_z_ne sh p hz
    rw [evalIso_eq sh]
    dsimp only
    rw [e1, e3]
    simp [hc, he, hz]

/-- C16.3d: kernel points (poles of the rational map) are sent to the identity -/
theorem iso_kernel (sh : IsoShape xnum xden ynum yden) (p : Jac F) (_hz : p.z ≠ 0)
    (h : evalP xden (p.x / p.z ^ 2) = 0 ∨ evalP yden (p.x / p.z ^ 2) = 0) :
    (evalIso xnum xden ynum yden p).z = 0 :=
  (iso_z_eq_zero_iff sh p).mpr (Or.inr h)

/-- C16.3e, representation independence: rescaling the input representative by `l` rescales the
    output representative by `μ = l ^ (2·|xden| + 2·|ynum| + 1)` -/
theorem iso_homogeneous (sh : IsoShape xnum xden ynum yden) (p : Jac F) (l : F) :
    evalIso xnum xden ynum yden ⟨l ^ 2 * p.x, l ^ 3 * p.y, l * p.z⟩ =
      ⟨(l ^ (2 * xden.length + 2 * ynum.length + 1)) ^ 2 * (evalIso xnum xden ynum yden p).x,
       (l ^ (2 * xden.length + 2 * ynum.length + 1)) ^ 3 * (evalIso xnum xden ynum yden p).y,
       l ^ (2 * xden.length + 2 * ynum.length + 1) * (evalIso xnum xden ynum yden p).z⟩ := by
  rw [evalIso_eq sh, evalIso_eq sh]
  dsimp only
  obtain ⟨h1, h2, h3, h4, h5⟩ := sh
  rw [mul_pow l p.z 2, hEval_smul, hEval_smul, hEval_smul, hEval_smul, h1, h2, Nat.add_sub_cancel]
  obtain ⟨k, hk⟩ : ∃ k, xden.length = k + 1 := ⟨xden.length - 1, by omega⟩
  obtain ⟨m, hm⟩ : ∃ m, ynum.length = m + 1 := ⟨ynum.length - 1, by omega⟩
  rw [hk, hm, Nat.add_sub_cancel, Nat.add_sub_cancel]
  rw [Jac.mk.injEq]
  refine ⟨by ring, by ring, by ring⟩

/-- the equivalence `(μ²X, μ³Y, μZ) ~ (X, Y, Z)` on finite points is equality of affine coordinates -/
theorem iso_homogeneous_affine (sh : IsoShape xnum xden ynum yden) (p : Jac F) (l : F) (hl : l ≠ 0) :
    ((evalIso xnum xden ynum yden ⟨l ^ 2 * p.x, l ^ 3 * p.y, l * p.z⟩).z = 0 ↔
      (evalIso xnum xden ynum yden p).z = 0) ∧
    (evalIso xnum xden ynum yden ⟨l ^ 2 * p.x, l ^ 3 * p.y, l * p.z⟩).x /
        (evalIso xnum xden ynum yden ⟨l ^ 2 * p.x, l ^ 3 * p.y, l * p.z⟩).z ^ 2 =
      (evalIso xnum xden ynum yden p).x / (evalIso xnum xden ynum yden p).z ^ 2 ∧
    (evalIso xnum xden ynum yden ⟨l ^ 2 * p.x, l ^ 3 * p.y, l * p.z⟩).y /
        (evalIso xnum xden ynum yden ⟨l ^ 2 * p.x, l ^ 3 * p.y, l * p.z⟩).z ^ 3 =
      (evalIso xnum xden ynum yden p).y / (evalIso xnum xden ynum yden p).z ^ 3 := by
  rw [iso_homogeneous sh]
  dsimp only
  have hμ : l ^ (2 * xden.length + 2 * ynum.length + 1) ≠ 0 := pow_ne_zero _ hl
  generalize l ^ (2 * xden.length + 2 * ynum.length + 1) = μ at *
  refine ⟨by simp [hμ], ?_, ?_⟩
  · by_cases h0 : (evalIso xnum xden ynum yden p).z = 0
    · simp [h0]
    · field_simp
  · by_cases h0 : (evalIso xnum xden ynum yden p).z = 0
    · simp [h0]
    · field_simp

/-- C16.4: if the four polynomials satisfy the isogeny identity, a point of `y² = x³ + A'x + B'`
    (in any representation; any triple with `z = 0` counts as the identity) is sent to a triple
    that satisfies the homogeneous equation of `y² = x³ + b`. -/
theorem iso_onCurve (sh : IsoShape xnum xden ynum yden) (A' B' b : F)
    (hident : ∀ x : F, (x ^ 3 + A' * x + B') * evalP ynum x ^ 2 * evalP xden x ^ 3 =
      (evalP xnum x ^ 3 + b * evalP xden x ^ 3) * evalP yden x ^ 2)
    (p : Jac F) (hp : p.z = 0 ∨ p.y ^ 2 = p.x ^ 3 + A' * p.x * p.z ^ 4 + B' * p.z ^ 6) :
    (evalIso xnum xden ynum yden p).y ^ 2 =
      (evalIso xnum xden ynum yden p).x ^ 3 + b * (evalIso xnum xden ynum yden p).z ^ 6 := by
  by_cases hz : p.z = 0
  · rw [evalIso_eq sh]
    dsimp only
    rw [hz]; ring
  · have hcurve := hp.resolve_left hz
    obtain ⟨c, e, hc, he, e0, e1, e2, e3⟩ := mapvals_of_z_ne sh p hz
    have hid := hident (p.x / p.z ^ 2)
    rw [evalIso_eq sh]
    dsimp only
    rw [e0, e1, e2, e3]
    generalize evalP xnum (p.x / p.z ^ 2) = XN at *
    generalize evalP xden (p.x / p.z ^ 2) = XD at *
    generalize evalP ynum (p.x / p.z ^ 2) = YN at *
    generalize evalP yden (p.x / p.z ^ 2) = YD at *
    have hx : p.x = (p.x / p.z ^ 2) * p.z ^ 2 := by field_simp
    generalize p.x / p.z ^ 2 = x' at *
    -- `y² = z⁶ (x'³ + A'x' + B')`
    have hy : p.y ^ 2 = p.z ^ 6 * (x' ^ 3 + A' * x' + B') := by rw [hcurve, hx]; ring
    -- `m1³ m2² = m3² (m0³ + b m1³)`
    have key : (c * XD) ^ 3 * (e * YN * p.y) ^ 2 =
        (e * YD * p.z * p.z ^ 2) ^ 2 * ((c * XN) ^ 3 + b * (c * XD) ^ 3) := by
      linear_combination (c ^ 3 * XD ^ 3 * e ^ 2 * YN ^ 2) * hy + (c ^ 3 * e ^ 2 * p.z ^ 6) * hid
    linear_combination ((c * XD) ^ 3 * (e * YD * p.z * p.z ^ 2) ^ 4) * key

/-- compatibility with negation: the `y`-map is odd in `y` -/
theorem iso_neg_coords (sh : IsoShape xnum xden ynum yden) (p : Jac F) :
    evalIso xnum xden ynum yden ⟨p.x, -p.y, p.z⟩ =
      ⟨(evalIso xnum xden ynum yden p).x, -(evalIso xnum xden ynum yden p).y,
        (evalIso xnum xden ynum yden p).z⟩ := by
  rw [evalIso_eq sh, evalIso_eq sh]
  dsimp only
  rw [Jac.mk.injEq]
  refine ⟨rfl, by ring, rfl⟩

/-- … with the model's `negate` on both sides (all cases: identity, kernel points, the rest) -/
theorem iso_neg (sh : IsoShape xnum xden ynum yden) (p : Jac F) :
    evalIso xnum xden ynum yden p.neg = (evalIso xnum xden ynum yden p).neg := by
  unfold Jac.neg
  by_cases hz : p.z = 0
  · have h1 : p.isZero = true := (jac_isZero_iff p).mpr hz
    have h2 : (evalIso xnum xden ynum yden p).isZero = true :=
      (jac_isZero_iff _).mpr (iso_identity p hz)
    rw [if_pos h1, if_pos h2]
  · have h1 : ¬ p.isZero = true := fun h => hz ((jac_isZero_iff p).mp h)
    rw [if_neg h1, iso_neg_coords sh]
    split
    · next h2 =>
      have hz3 := (jac_isZero_iff _).mp h2
      have hy : (evalIso xnum xden ynum yden p).y = 0 := by
        rw [evalIso_eq sh] at hz3 ⊢
        dsimp only at hz3 ⊢
        rw [hz3]; ring
      rw [hy, neg_zero]
      rw [← hy]
    · rfl

end generic

/-! ## the polynomial identity as an identity of coefficient lists -/

/-- `(x³ + A'x + B')·YN²·XD³ = (XN³ + b·XD³)·YD²` as an equality of coefficient lists, computed with
    whatever `+ * 0 1` the type carries (for `Fq`, `Fq2`: the model's) -/
def IsoIdent {G : Type} [Add G] [Mul G] [Zero G] [One G] (A' B' b : G) (xnum xden ynum yden : List G) :
    Prop :=
  mulP (mulP [B', A', 0, 1] (sqP ynum)) (cubeP xden) =
    mulP (addP (cubeP xnum) (scaleP b (cubeP xden))) (sqP yden)

instance {G : Type} [Add G] [Mul G] [Zero G] [One G] [DecidableEq G] (A' B' b : G)
    (xnum xden ynum yden : List G) : Decidable (IsoIdent A' B' b xnum xden ynum yden) := by
  unfold IsoIdent; infer_instance

section generic
variable {F : Type} [Field F]

/-- the list identity gives the pointwise identity (the list multiplier is verified) -/
theorem IsoIdent.eval {A' B' b : F} {xnum xden ynum yden : List F}
    (h : IsoIdent A' B' b xnum xden ynum yden) (x : F) :
    (x ^ 3 + A' * x + B') * evalP ynum x ^ 2 * evalP xden x ^ 3 =
      (evalP xnum x ^ 3 + b * evalP xden x ^ 3) * evalP yden x ^ 2 := by
  have := congrArg (fun l => evalP l x) h
  simp only [evalP_mulP, evalP_addP, evalP_scaleP, evalP_sqP, evalP_cubeP, evalP_cons, evalP_nil] at this
  linear_combination this

/-- if `XD = K²` and `YD = K³` as coefficient lists, the poles are the roots of `K` -/
theorem pole_iff {xden yden ker : List F} (hx : xden = sqP ker) (hy : yden = cubeP ker) (x : F) :
    (evalP xden x = 0 ∨ evalP yden x = 0) ↔ evalP ker x = 0 := by
  rw [hx, hy, evalP_sqP, evalP_cubeP]
  constructor
  · rintro (h | h) <;> exact pow_eq_zero_iff (by norm_num) |>.mp h
  · intro h; left; rw [h]; ring

end generic

/-! ## G1: the 11-isogeny -/

/-- the coefficient tables of `isogeny/g1.rs`, decoded -/
def iso11XNum : List Fq := Gen.ISO11_XNUM.map Fq.ofMont
def iso11XDen : List Fq := Gen.ISO11_XDEN.map Fq.ofMont
def iso11YNum : List Fq := Gen.ISO11_YNUM.map Fq.ofMont
def iso11YDen : List Fq := Gen.ISO11_YDEN.map Fq.ofMont

theorem iso11_eq (p : Jac Fq) : iso11 p = evalIso iso11XNum iso11XDen iso11YNum iso11YDen p := rfl

theorem iso11_lengths : iso11XNum.length = 12 ∧ iso11XDen.length = 11 ∧ iso11YNum.length = 16 ∧
    iso11YDen.length = 16 := by decide

theorem iso11_shape : IsoShape iso11XNum iso11XDen iso11YNum iso11YDen := by
  obtain ⟨h1, h2, h3, h4⟩ := iso11_lengths
  exact ⟨by omega, by omega, by omega, by omega, by omega⟩

/-- the degree-63 identity over `Fq`, by kernel computation on the coefficient lists -/
theorem iso11_ident : IsoIdent g1EllpA g1EllpB g1Codec.b iso11XNum iso11XDen iso11YNum iso11YDen := by
  decide +kernel

/-- the denominators are monic of degrees 10 and 15, the numerators have degrees 11 and 15 -/
theorem iso11_leading : iso11XDen.getLast? = some 1 ∧ iso11YDen.getLast? = some 1 ∧
    iso11XNum.getLast? ≠ some 0 ∧ iso11YNum.getLast? ≠ some 0 := by decide +kernel

/-- the kernel polynomial `K = Π (x − xᵢ)` over the five abscissae of the rational kernel points:
    `XD = K²`, `YD = K³` -/
def iso11Ker : List Fq :=
  [Zp.ofNat 0x133341fb0962a34cb0504a9c4fada0a5090d38679b4c040d5d1c3afb023a3409fcc0815fea66d8b02bbef9c8b5a66e07,
   Zp.ofNat 0x264908af037bcede00d054cf5d4775e83eb6cf63c76b969f8ed174fb59fcff78d201f46f6cfc4ed6552e59ce75177b0,
   Zp.ofNat 0x1335c502c1f54c49aceea65e87fd7203ba0f626f305fc0cfd606a5dae9f3c8e81a4b3b69600129fabd307c69bf319d39,
   Zp.ofNat 0x94440f65f408a6e930e16e3e92dd17bf60d6e9679a8d3d58593de55ac23703042d609537eb3549aac234d896ca82944,
   Zp.ofNat 0x4afe09d5cf4956a23b6b71f59d2b3407b415a774b7be81bbb6fa99cbc798e0ac98ba725a5bc328016b1c268b4766e85,
   1]

theorem iso11_xden_ker : iso11XDen = sqP iso11Ker := by decide +kernel
theorem iso11_yden_ker : iso11YDen = cubeP iso11Ker := by decide +kernel

/-! ## G2: the 3-isogeny -/

def iso3XNum : List Fq2 := Gen.ISO3_XNUM.map Fq2.ofMont
def iso3XDen : List Fq2 := Gen.ISO3_XDEN.map Fq2.ofMont
def iso3YNum : List Fq2 := Gen.ISO3_YNUM.map Fq2.ofMont
def iso3YDen : List Fq2 := Gen.ISO3_YDEN.map Fq2.ofMont

theorem iso3_eq (p : Jac Fq2) : iso3 p = evalIso iso3XNum iso3XDen iso3YNum iso3YDen p := rfl

theorem iso3_lengths : iso3XNum.length = 4 ∧ iso3XDen.length = 3 ∧ iso3YNum.length = 4 ∧
    iso3YDen.length = 4 := by decide

theorem iso3_shape : IsoShape iso3XNum iso3XDen iso3YNum iso3YDen := by
  obtain ⟨h1, h2, h3, h4⟩ := iso3_lengths
  exact ⟨by omega, by omega, by omega, by omega, by omega⟩

/-- the degree-15 identity over `Fq2`, computed by the kernel with the model's `Fq2` arithmetic
    (Karatsuba `Fq2.mul`, …) -/
theorem iso3_ident : IsoIdent g2EllpA g2EllpB g2Codec.b iso3XNum iso3XDen iso3YNum iso3YDen := by
  decide +kernel

theorem iso3_leading : iso3XDen.getLast? = some 1 ∧ iso3YDen.getLast? = some 1 ∧
    iso3XNum.getLast? ≠ some 0 ∧ iso3YNum.getLast? ≠ some 0 := by decide +kernel

/-- the kernel polynomial `K = x − x₀`, `x₀ = −6 + 6u`: `XD = K²`, `YD = K³` -/
def iso3Ker : List Fq2 := [⟨Zp.ofNat 6, -Zp.ofNat 6⟩, 1]

theorem iso3_xden_ker : iso3XDen = sqP iso3Ker := by decide +kernel
theorem iso3_yden_ker : iso3YDen = cubeP iso3Ker := by decide +kernel

/-! ## `Fq2`: a field structure that agrees with the model's operations

The `Field Fq2` structure is built in another module.  The theorems about `iso3` take it as an
instance argument; since `iso3` is *defined* with the model's `+ * 0` (`Fq2.instAdd`, …), they also
take the fact that the `+ * 0 1 -` of the field structure are the model's.  For a field structure defined on
the model's operations this is `⟨rfl, rfl, rfl, rfl, rfl⟩`. -/

/-- the `+` of a field structure, as a bare notation-class instance -/
@[reducible] def addOf (F : Type) [Field F] : Add F := inferInstance
/-- the `*` of a field structure -/
@[reducible] def mulOf (F : Type) [Field F] : Mul F := inferInstance
/-- the `0` of a field structure -/
@[reducible] def zeroOf (F : Type) [Field F] : Zero F := inferInstance
/-- the `1` of a field structure -/
@[reducible] def oneOf (F : Type) [Field F] : One F := inferInstance
/-- the `-` (negation) of a field structure -/
@[reducible] def negOf (F : Type) [Field F] : Neg F := inferInstance

/-- the field structure `fld` on `Fq2` has the model's `+ * 0 1 -` -/
structure Fq2FieldAgrees (fld : Field Fq2) : Prop where
  add : addOf Fq2 = Fq2.instAdd
  mul : mulOf Fq2 = Fq2.instMul
  zero : zeroOf Fq2 = Fq2.instZero
  one : oneOf Fq2 = Fq2.instOne
  neg : negOf Fq2 = Fq2.instNeg

/-- `fq2_align h` (`h : Fq2FieldAgrees fld`): replace the model's `+ * 0 1 -` on `Fq2` by those of the
    field structure, everywhere in the goal and the context -/
macro "fq2_align " h:term : tactic => `(tactic| (
  obtain ⟨ha, hm, hz, ho, hn⟩ := $h
  generalize Fq2.instAdd = ia at *
  generalize Fq2.instMul = im at *
  generalize Fq2.instZero = iz at *
  generalize Fq2.instOne = io at *
  generalize Fq2.instNeg = ineg at *
  subst ha hm hz ho hn))

end Iso
end PP
