/-
ASSEMBLY, part 1 (no curve-arithmetic imports, so that the byte-level modules C04/C05/C19 — whose
`PP.Proofs.Encoding` declares a lemma named like one of `PP.Proofs.Jacobian` — can import it):
the `Fq2` instances and facts that were hypotheses elsewhere.

* `fq2FieldHyp : Fq2Sqrt.FieldHyp` and `instLawfulSqrtOpsFq2 : LawfulSqrtOps Fq2` (C18 for `Fq2`,
  unconditional);
* `fq2_two_ne_zero'`, `g2_no_two_torsion`: the two hypotheses of C05's
  `encode_decode_compressed_g2_partial`.
-/
import PP.Proofs.Tower
import PP.Props.C18
import PP.Model.Enc

namespace PP

/-! ## `LawfulSqrtOps Fq2` -/

/-- the hypotheses of the `Fq2.sqrt` proof hold for the tower's `Field Fq2` -/
theorem fq2FieldHyp : @Fq2Sqrt.FieldHyp Fq2.instField :=
  ⟨fun _ _ => rfl, fun _ _ => rfl, fun _ => rfl, rfl, rfl, Fq2.pow_card_sub_one',
    Fq2.frobeniusMap_one_eq_pow⟩

/-- `Fq2::sqrt` and the order on `Fq2` are lawful (C18, unconditional) -/
instance instLawfulSqrtOpsFq2 : LawfulSqrtOps Fq2 := Fq2Sqrt.lawfulSqrtOps_of fq2FieldHyp

theorem fq2_two_ne_zero' : (2 : Fq2) ≠ 0 := by decide +kernel
theorem g2Codec_b_ne_zero' : g2Codec.b ≠ 0 := by decide +kernel

/-! ## no 2-torsion on the twist (used by C05: compressed encodings of G2 round-trip) -/

theorem neg_g2b_pow_third_fast :
    fastPow (-g2Codec.b) ((Gen.q * Gen.q - 1) / 3) ≠ 1 := by decide +kernel

/-- `E₂ : y² = x³ + 4(1+u)` has no point of order 2 over `Fq2`: `−4(1+u)` is not a cube -/
theorem g2_no_two_torsion (x : Fq2) : x * x * x + g2Codec.b ≠ 0 := by
  intro h
  have h3 : x ^ 3 = -g2Codec.b := by linear_combination h
  have hx : x ≠ 0 := by
    rintro rfl
    apply g2Codec_b_ne_zero'
    have : -g2Codec.b = 0 := by rw [← h3]; simp
    exact neg_eq_zero.mp this
  apply neg_g2b_pow_third_fast
  rw [fastPow_eq _ _ (lt_of_le_of_lt (Nat.div_le_self _ _) Fq2.q_sq_sub_one_lt)]
  obtain ⟨k, hk⟩ := Fq2.three_dvd
  rw [← h3, ← pow_mul, hk, Nat.mul_div_cancel_left _ (by norm_num), ← hk]
  exact Fq2.pow_card_sub_one x hx

end PP
