/-
Windowed-NAF scalar multiplication (src/wnaf.rs as modelled in `PP.Model.Mul`): `wnaf_form`
terminates and produces a correct signed-digit expansion, `wnaf_table` holds the odd multiples,
`wnaf_exp` evaluates the expansion, the reusable context is history independent, and the
recommended windows lie in `2..=22`.  Everything is relative to a `GroupModel`.
-/
import Mathlib.Tactic.Module
import Mathlib.Tactic.Ring
import Mathlib.Tactic.Linarith
import PP.Proofs.ScalarMul

namespace PP

variable {F : Type} [Field F] [DecidableEq F] [FieldOps F] {G : Type} [AddCommGroup G]
  (M : GroupModel F G)

/-- value of a little-endian signed-digit string, `Σ dᵢ 2^i` -/
def wnafVal : List ℤ → ℤ
  | [] => 0
  | d :: ds => d + 2 * wnafVal ds

/-- a wNAF digit for window `w`: zero, or odd of absolute value below `2^w` -/
def WnafDigit (w : ℕ) (d : ℤ) : Prop := d = 0 ∨ (d % 2 = 1 ∧ d.natAbs < 2 ^ w)

theorem wnafStep_even (c w : ℕ) (h : c % 2 = 0) : wnafStep c w = (0, c / 2) := by
  unfold wnafStep; rw [if_neg (by omega)]

theorem wnafStep_spec (c w : ℕ) (hw1 : 1 ≤ w) (hw : w ≤ 63) (hc : c + 2 ^ w ≤ 2 ^ 256) :
    (c : ℤ) = (wnafStep c w).1 + 2 * ((wnafStep c w).2 : ℤ) ∧
    WnafDigit w (wnafStep c w).1 ∧
    2 * (wnafStep c w).2 < c + 2 ^ w ∧
    (c ≤ 2 ^ w → 2 * (wnafStep c w).2 ≤ c ∧ (c % 2 = 1 → (wnafStep c w).2 = 0)) := by
  have hWpos : 0 < 2 ^ w := Nat.pos_of_ne_zero (by positivity)
  rcases Nat.mod_two_eq_zero_or_one c with h | h
  · rw [wnafStep_even c w h]
    refine ⟨by simp only; omega, Or.inl rfl, by simp only; omega, fun _ => ⟨by simp only; omega, by omega⟩⟩
  · have hdvd : 2 ^ (w + 1) ∣ 2 ^ 64 := pow_dvd_pow 2 (by omega)
    have hmm : c % 2 ^ 64 % 2 ^ (w + 1) = c % 2 ^ (w + 1) := Nat.mod_mod_of_dvd c hdvd
    have hr2 : c % 2 ^ (w + 1) % 2 = c % 2 := Nat.mod_mod_of_dvd c (Dvd.intro_left (2 ^ w) rfl)
    have hrlt : c % 2 ^ (w + 1) < 2 ^ (w + 1) := Nat.mod_lt _ (by positivity)
    have hdm := Nat.div_add_mod c (2 ^ (w + 1))
    have hWeven : 2 ^ w % 2 = 0 := by
      obtain ⟨v, rfl⟩ := Nat.exists_eq_add_of_le hw1; rw [Nat.add_comm, pow_succ]; omega
    have hZ : ((2 : ℤ) ^ (w + 1)) = 2 * ((2 ^ w : ℕ) : ℤ) := by push_cast; ring
    have hZ' : ((2 : ℤ) ^ w) = ((2 ^ w : ℕ) : ℤ) := by push_cast; rfl
    have hdm' : c = 2 * (2 ^ w * (c / 2 ^ (w + 1))) + c % 2 ^ (w + 1) := by
      rw [← Nat.mul_assoc, Nat.mul_comm 2, ← pow_succ]; exact hdm.symm
    have hrlt' : c % 2 ^ (w + 1) < 2 * 2 ^ w := by rw [Nat.mul_comm, ← pow_succ]; exact hrlt
    have hQ : 2 ^ w * (c / 2 ^ (w + 1)) = 0 ∨ 2 ^ w ≤ 2 ^ w * (c / 2 ^ (w + 1)) := by
      rcases Nat.eq_zero_or_pos (c / 2 ^ (w + 1)) with h0 | h0
      · left; rw [h0]; rfl
      · right; exact Nat.le_mul_of_pos_right _ h0
    unfold wnafStep
    rw [if_pos h, hmm]
    simp only [WnafDigit, hZ, hZ']
    clear hdm hrlt hmm hdvd hZ hZ'
    generalize c % 2 ^ (w + 1) = r at *
    generalize 2 ^ w * (c / 2 ^ (w + 1)) = Q at *
    generalize 2 ^ w = W at *
    by_cases hrW : W < r
    · have e1 : (if (r : ℤ) > (W : ℤ) then (r : ℤ) - 2 * (W : ℤ) else (r : ℤ)) = (r : ℤ) - 2 * W :=
        if_pos (by omega)
      have e3 : (-((r : ℤ) - 2 * (W : ℤ))).toNat = 2 * W - r := by omega
      simp only [e1]
      rw [if_neg (by omega), e3]
      omega
    · have e1 : (if (r : ℤ) > (W : ℤ) then (r : ℤ) - 2 * (W : ℤ) else (r : ℤ)) = (r : ℤ) :=
        if_neg (by omega)
      simp only [e1]
      rw [if_pos (by omega), Int.toNat_natCast]
      omega

theorem wnafFormLoop_zero (w fuel : ℕ) (acc : List ℤ) :
    wnafFormLoop w fuel 0 acc = some acc.reverse := by
  cases fuel <;> simp [wnafFormLoop]

theorem wnafFormLoop_step (w fuel c : ℕ) (acc : List ℤ) (hc : c ≠ 0) :
    wnafFormLoop w (fuel + 1) c acc
      = wnafFormLoop w fuel (wnafStep c w).2 ((wnafStep c w).1 :: acc) := by
  rw [wnafFormLoop, if_neg hc]

/-- what the digit loop returns: the accumulated digits followed by a correct wNAF of `c` -/
def WnafLoopOK (w fuel c : ℕ) (acc : List ℤ) : Prop :=
  ∃ ds, wnafFormLoop w fuel c acc = some (acc.reverse ++ ds) ∧ wnafVal ds = c ∧
    ∀ d ∈ ds, WnafDigit w d

theorem WnafLoopOK.zero (w fuel : ℕ) (acc : List ℤ) : WnafLoopOK w fuel 0 acc :=
  ⟨[], by simp [wnafFormLoop_zero], rfl, by simp⟩

theorem WnafLoopOK.step {w fuel c : ℕ} {acc : List ℤ} (hw1 : 1 ≤ w) (hw : w ≤ 63)
    (hc : c + 2 ^ w ≤ 2 ^ 256) (hc0 : c ≠ 0)
    (h : WnafLoopOK w fuel (wnafStep c w).2 ((wnafStep c w).1 :: acc)) :
    WnafLoopOK w (fuel + 1) c acc := by
  obtain ⟨ds, hds, hval, hdig⟩ := h
  obtain ⟨h1, h2, -, -⟩ := wnafStep_spec c w hw1 hw hc
  refine ⟨(wnafStep c w).1 :: ds, ?_, ?_, ?_⟩
  · rw [wnafFormLoop_step w fuel c acc hc0, hds]; simp
  · rw [wnafVal, hval]; exact h1.symm
  · intro d hd
    rcases List.mem_cons.mp hd with rfl | hd
    · exact h2
    · exact hdig d hd

/-- phase B: once `c ≤ 2^m ≤ 2^w`, at most `m + 1` more iterations -/
theorem wnafFormLoop_small (w : ℕ) (hw1 : 1 ≤ w) (hw : w ≤ 63) :
    ∀ (m fuel c : ℕ) (acc : List ℤ), c ≤ 2 ^ m → m ≤ w → m + 1 ≤ fuel →
      WnafLoopOK w fuel c acc := by
  intro m
  induction m with
  | zero =>
    intro fuel c acc hc _ hf
    obtain ⟨fuel, rfl⟩ : ∃ f, fuel = f + 1 := ⟨fuel - 1, by omega⟩
    rcases Nat.eq_zero_or_pos c with rfl | hpos
    · exact WnafLoopOK.zero ..
    · have hc1 : c = 1 := by simp at hc; omega
      have h2w : 1 ≤ 2 ^ w := Nat.one_le_two_pow
      have h2w' : 2 ^ w ≤ 2 ^ 63 := Nat.pow_le_pow_right (by decide) hw
      have hcw : c + 2 ^ w ≤ 2 ^ 256 := by omega
      obtain ⟨-, -, -, h4⟩ := wnafStep_spec c w hw1 hw hcw
      have := (h4 (by omega)).2 (by omega)
      apply WnafLoopOK.step hw1 hw hcw (by omega)
      rw [this]; exact WnafLoopOK.zero ..
  | succ m ih =>
    intro fuel c acc hc hm hf
    obtain ⟨fuel, rfl⟩ : ∃ f, fuel = f + 1 := ⟨fuel - 1, by omega⟩
    rcases Nat.eq_zero_or_pos c with rfl | hpos
    · exact WnafLoopOK.zero ..
    · have h2m : 2 ^ (m + 1) ≤ 2 ^ w := Nat.pow_le_pow_right (by decide) hm
      have h2w' : 2 ^ w ≤ 2 ^ 63 := Nat.pow_le_pow_right (by decide) hw
      have hcw : c + 2 ^ w ≤ 2 ^ 256 := by omega
      obtain ⟨-, -, -, h4⟩ := wnafStep_spec c w hw1 hw hcw
      have h5 := (h4 (by omega)).1
      apply WnafLoopOK.step hw1 hw hcw (by omega)
      apply ih _ _ _ _ (by omega) (by omega)
      rw [pow_succ] at hc; omega

/-- phase A: while `c < 2^n + 2^w` the bound halves -/
theorem wnafFormLoop_big (w : ℕ) (hw1 : 1 ≤ w) (hw : w ≤ 63) :
    ∀ (n fuel c : ℕ) (acc : List ℤ), c < 2 ^ n + 2 ^ w → n ≤ 255 → n + w + 1 ≤ fuel →
      WnafLoopOK w fuel c acc := by
  intro n
  induction n with
  | zero =>
    intro fuel c acc hc _ hf
    exact wnafFormLoop_small w hw1 hw w fuel c acc (by simp at hc; omega) (le_refl _) (by omega)
  | succ n ih =>
    intro fuel c acc hc hn hf
    obtain ⟨fuel, rfl⟩ : ∃ f, fuel = f + 1 := ⟨fuel - 1, by omega⟩
    rcases Nat.eq_zero_or_pos c with rfl | hpos
    · exact WnafLoopOK.zero ..
    · have h2n : 2 ^ (n + 1) ≤ 2 ^ 255 := Nat.pow_le_pow_right (by decide) hn
      have h2w' : 2 ^ w ≤ 2 ^ 63 := Nat.pow_le_pow_right (by decide) hw
      have hcw : c + 2 ^ w ≤ 2 ^ 256 := by omega
      obtain ⟨-, -, h3, -⟩ := wnafStep_spec c w hw1 hw hcw
      apply WnafLoopOK.step hw1 hw hcw (by omega)
      apply ih _ _ _ _ (by omega) (by omega)
      rw [pow_succ] at hc; omega

/-- `wnaf_form` terminates within its 300 iterations and returns a correct wNAF, for every
    scalar with `k + 2^w ≤ 2^256` (in particular every `k < 2^255`) and every window `1 ≤ w ≤ 43` -/
theorem wnafForm_spec (old : List ℤ) (k w : ℕ) (hw1 : 1 ≤ w) (hw : w ≤ 43)
    (hk : k + 2 ^ w ≤ 2 ^ 256) :
    ∃ ds, wnafForm old k w = some ds ∧ wnafVal ds = k ∧ ∀ d ∈ ds, WnafDigit w d := by
  have hpos : 0 < 2 ^ w := Nat.pos_of_ne_zero (by positivity)
  have hk' : k % 2 ^ 256 = k := Nat.mod_eq_of_lt (by omega)
  have : WnafLoopOK w 300 k [] := by
    rcases Nat.eq_zero_or_pos k with rfl | hkpos
    · exact WnafLoopOK.zero ..
    · obtain ⟨-, -, h3, -⟩ := wnafStep_spec k w hw1 (by omega) hk
      apply WnafLoopOK.step hw1 (by omega) hk (by omega)
      apply wnafFormLoop_big w hw1 (by omega) 255 _ _ _ (by omega) (le_refl _) (by omega)
  obtain ⟨ds, hds, hval, hdig⟩ := this
  exact ⟨ds, by rw [wnafForm, hk', hds]; simp, hval, hdig⟩

theorem wnafForm_spec_lt (old : List ℤ) (k w : ℕ) (hw1 : 1 ≤ w) (hw : w ≤ 43) (hk : k < 2 ^ 255) :
    ∃ ds, wnafForm old k w = some ds ∧ wnafVal ds = k ∧ ∀ d ∈ ds, WnafDigit w d := by
  have h2w' : 2 ^ w ≤ 2 ^ 43 := Nat.pow_le_pow_right (by decide) hw
  exact wnafForm_spec old k w hw1 hw (by omega)

/-! ## the table of odd multiples -/

theorem wnafTableLoop_acc (dbl : Jac F) (n : ℕ) (base : Jac F) (acc : List (Jac F)) :
    wnafTableLoop dbl n base acc = acc.reverse ++ wnafTableLoop dbl n base [] := by
  induction n generalizing base acc with
  | zero => simp [wnafTableLoop]
  | succ n ih =>
    rw [wnafTableLoop, ih, wnafTableLoop, ih (base.add dbl) [base]]
    simp

theorem wnafTableLoop_succ (dbl : Jac F) (n : ℕ) (base : Jac F) :
    wnafTableLoop dbl (n + 1) base [] = base :: wnafTableLoop dbl n (base.add dbl) [] := by
  rw [wnafTableLoop, wnafTableLoop_acc]; rfl

theorem wnafTableLoop_spec (g : G) (dbl : Jac F) (hdbl : IsMulJ M g dbl 2) (n : ℕ) (base : Jac F)
    (b : ℕ) (hbase : IsMulJ M g base b) :
    (wnafTableLoop dbl n base []).length = n ∧
      ∀ j < n, ∃ e, (wnafTableLoop dbl n base [])[j]? = some e ∧ IsMulJ M g e (b + 2 * j) := by
  induction n generalizing base b with
  | zero => exact ⟨rfl, fun j hj => absurd hj (Nat.not_lt_zero j)⟩
  | succ n ih =>
    rw [wnafTableLoop_succ]
    obtain ⟨hl, he⟩ := ih (base.add dbl) (b + 2) (hbase.add hdbl)
    refine ⟨by simp [hl], ?_⟩
    intro j hj
    cases j with
    | zero => exact ⟨base, rfl, hbase⟩
    | succ j =>
      obtain ⟨e, hej, hm⟩ := he j (by omega)
      exact ⟨e, by simpa using hej, hm.cast (by ring)⟩

/-- `wnaf_table` ignores the previous contents of the buffer -/
theorem wnafTable_old (old : List (Jac F)) (P : Jac F) (w : ℕ) :
    wnafTable old P w = wnafTable [] P w := by
  simp [wnafTable]

/-- `wnaf_table(base, w)` has `2^(w-1)` entries, entry `j` is `(2j+1)·base` -/
theorem wnafTable_spec (old : List (Jac F)) (P : Jac F) (hP : M.ValidJ P) (w : ℕ) :
    (wnafTable old P w).length = 2 ^ (w - 1) ∧
      ∀ j < 2 ^ (w - 1), ∃ e, (wnafTable old P w)[j]? = some e ∧
        IsMulJ M (M.absJ P) e (2 * j + 1) := by
  have h := wnafTableLoop_spec M (M.absJ P) P.double ((IsMulJ.self M hP).double) (2 ^ (w - 1)) P 1
    (IsMulJ.self M hP)
  have e : wnafTable old P w = wnafTableLoop P.double (2 ^ (w - 1)) P [] := by simp [wnafTable]
  rw [e]
  refine ⟨h.1, fun j hj => ?_⟩
  obtain ⟨e, he, hm⟩ := h.2 j hj
  exact ⟨e, he, hm.cast (by ring)⟩

/-! ## `wnaf_exp` -/

theorem wnafVal_reverse_foldl (ds : List ℤ) (z : ℤ) :
    ds.reverse.foldl (fun a d => 2 * a + d) z = 2 ^ ds.length * z + wnafVal ds := by
  induction ds with
  | nil => simp [wnafVal]
  | cons d ds ih =>
    rw [List.reverse_cons, List.foldl_append, List.foldl_cons, List.foldl_nil, ih, wnafVal,
      List.length_cons, pow_succ]
    ring

theorem wnafExpLoop_spec (g : G) (tbl : Array (Jac F)) (w : ℕ) (hw1 : 1 ≤ w)
    (htbl : ∀ j < 2 ^ (w - 1), ∃ e, tbl[j]? = some e ∧ IsMulJ M g e (2 * j + 1))
    (ns : List ℤ) (hns : ∀ d ∈ ns, WnafDigit w d) (res : Jac F) (found : Bool) (z : ℤ)
    (hv : M.ValidJ res) (ha : M.absJ res = z • g) (hf : found = false → z = 0) :
    ∃ R, wnafExpLoop tbl ns (res, found) = some R ∧ M.ValidJ R ∧
      M.absJ R = (ns.foldl (fun a d => 2 * a + d) z) • g := by
  induction ns generalizing res found z with
  | nil => exact ⟨res, rfl, hv, ha⟩
  | cons n ns ih =>
    have h2w : 2 ^ w = 2 * 2 ^ (w - 1) := by
      obtain ⟨v, rfl⟩ := Nat.exists_eq_add_of_le hw1
      rw [Nat.add_comm, pow_succ, Nat.add_sub_cancel]; ring
    -- the conditional doubling
    have hv1 : M.ValidJ (if found then res.double else res) := by
      cases found
      · exact hv
      · exact M.double_valid _ hv
    have ha1 : M.absJ (if found then res.double else res) = (2 * z) • g := by
      cases found
      · rw [hf rfl] at ha ⊢; simpa using ha
      · simp only [if_true]; rw [M.double_abs _ hv, ha]; module
    rw [wnafExpLoop, List.foldl_cons]
    simp only [bind, Option.bind]
    rcases hns n (by simp) with rfl | ⟨hodd, hlt⟩
    · -- zero digit
      rw [if_neg (by simp)]
      exact ih (fun d hd => hns d (by simp [hd])) _ _ _ hv1 (by rw [ha1]; simp)
        (fun h => by rw [hf h]; rfl)
    · have hn0 : n ≠ 0 := by omega
      rw [if_pos hn0]
      by_cases hpos : n > 0
      · rw [if_pos hpos]
        have hj : (n / 2).toNat < 2 ^ (w - 1) := by omega
        obtain ⟨e, he, hme⟩ := htbl _ hj
        rw [he]
        refine ih (fun d hd => hns d (by simp [hd])) _ _ _ (M.add_valid _ _ hv1 hme.1) ?_
          (fun h => by simp at h)
        rw [M.add_abs _ _ hv1 hme.1, ha1, hme.2]
        generalize hjd : (n / 2).toNat = j at *
        have : (n : ℤ) = ((2 * j + 1 : ℕ) : ℤ) := by omega
        rw [this]; module
      · rw [if_neg hpos]
        have hj : ((-n) / 2).toNat < 2 ^ (w - 1) := by omega
        obtain ⟨e, he, hme⟩ := htbl _ hj
        rw [he]
        refine ih (fun d hd => hns d (by simp [hd])) _ _ _
          (M.add_valid _ _ hv1 (M.neg_valid _ hme.1)) ?_ (fun h => by simp at h)
        rw [Jac.sub, M.add_abs _ _ hv1 (M.neg_valid _ hme.1), M.neg_abs _ hme.1, ha1, hme.2]
        generalize hjd : ((-n) / 2).toNat = j at *
        have : (n : ℤ) = -((2 * j + 1 : ℕ) : ℤ) := by omega
        rw [this]; module

/-- `wnaf_exp(table, wnaf)` computes `[Σ dᵢ 2^i] P` and never indexes out of range -/
theorem wnafExp_correct (g : G) (table : List (Jac F)) (w : ℕ) (hw1 : 1 ≤ w)
    (htbl : ∀ j < 2 ^ (w - 1), ∃ e, table[j]? = some e ∧ IsMulJ M g e (2 * j + 1))
    (ds : List ℤ) (hds : ∀ d ∈ ds, WnafDigit w d) :
    ∃ R, wnafExp table ds = some R ∧ M.ValidJ R ∧ M.absJ R = wnafVal ds • g := by
  have := wnafExpLoop_spec M g table.toArray w hw1 (by simpa using htbl) ds.reverse
    (fun d hd => hds d (by simpa using hd)) Jac.zero false 0 M.zero_valid
    (by rw [M.zero_abs, zero_zsmul]) (fun _ => rfl)
  rw [wnafVal_reverse_foldl] at this
  simpa [wnafExp] using this

/-! ## wNAF multiplication -/

/-- windowed-NAF multiplication `wnaf_exp(wnaf_table(P, w), wnaf_form(k, w))` returns `[k]P`,
    without panicking, for every window `1 ≤ w ≤ 43` and every `k` with `k + 2^w ≤ 2^256`;
    the previous contents `oldT`, `oldS` of the reused buffers are irrelevant -/
theorem wnaf_correct' (oldT : List (Jac F)) (oldS : List ℤ) (P : Jac F) (hP : M.ValidJ P)
    (k w : ℕ) (hw1 : 1 ≤ w) (hw : w ≤ 43) (hk : k + 2 ^ w ≤ 2 ^ 256) :
    ∃ R, (do let f ← wnafForm oldS k w; wnafExp (wnafTable oldT P w) f) = some R ∧
      M.ValidJ R ∧ M.absJ R = k • M.absJ P := by
  obtain ⟨ds, hds, hval, hdig⟩ := wnafForm_spec oldS k w hw1 hw hk
  obtain ⟨R, hR, hv, ha⟩ := wnafExp_correct M (M.absJ P) (wnafTable oldT P w) w hw1
    (wnafTable_spec M oldT P hP w).2 ds hdig
  refine ⟨R, by simp only [hds, bind, Option.bind]; exact hR, hv, ?_⟩
  rw [ha, hval, natCast_zsmul]

theorem wnaf_correct (P : Jac F) (hP : M.ValidJ P) (k w : ℕ) (hw2 : 2 ≤ w) (hw : w ≤ 22)
    (hk : k < 2 ^ 255) :
    ∃ R, (do let f ← wnafForm [] k w; wnafExp (wnafTable [] P w) f) = some R ∧
      M.ValidJ R ∧ M.absJ R = k • M.absJ P := by
  have h2w' : 2 ^ w ≤ 2 ^ 22 := Nat.pow_le_pow_right (by decide) hw
  exact wnaf_correct' M [] [] P hP k w (by omega) (by omega) (by omega)

/-- the bound on `k` cannot be dropped: for `k = 2^256 - 1`, `w = 2` the 256-bit arithmetic of
    `wnaf_form` wraps around and the digits `[-1]` represent `-1`, not `k` -/
theorem wnafForm_wraps_example :
    wnafForm [] (2 ^ 256 - 1) 2 = some [-1] ∧ wnafVal [-1] ≠ ((2 ^ 256 - 1 : ℕ) : ℤ) ∧
      2 ^ 256 - 2 ^ 2 ≤ 2 ^ 256 - 1 := by
  refine ⟨by decide +kernel, by decide +kernel, by decide⟩

/-! ## the reusable context -/

/-- `wnaf_form` ignores the previous contents of the buffer -/
theorem wnafForm_old (old : List ℤ) (k w : ℕ) : wnafForm old k w = wnafForm [] k w := by
  simp [wnafForm]

/-- history independence: the result of `base(b, n).scalar(k)` on a used context is the result
    on a fresh one -/
theorem baseThenScalar_ctx (rc : WnafRec) (ctx : WnafCtx F) (b : Jac F) (n k : ℕ) :
    WnafCtx.baseThenScalar rc ctx b n k = WnafCtx.baseThenScalar rc WnafCtx.new b n k := by
  simp only [WnafCtx.baseThenScalar, WnafCtx.new]
  rw [wnafTable_old, wnafForm_old]

theorem scalarThenBase_ctx (rc : WnafRec) (ctx : WnafCtx F) (k : ℕ) (b : Jac F) :
    WnafCtx.scalarThenBase rc ctx k b = WnafCtx.scalarThenBase rc WnafCtx.new k b := by
  simp only [WnafCtx.scalarThenBase, WnafCtx.new]
  rw [wnafTable_old, wnafForm_old]

/-- a call on a wNAF context -/
inductive WnafCall (F : Type) where
  | baseScalar (b : Jac F) (numScalars k : ℕ)
  | scalarBase (k : ℕ) (b : Jac F)

/-- run one call: result and new context -/
def WnafCall.run (rc : WnafRec) (ctx : WnafCtx F) : WnafCall F → Option (Jac F × WnafCtx F)
  | .baseScalar b n k => WnafCtx.baseThenScalar rc ctx b n k
  | .scalarBase k b => WnafCtx.scalarThenBase rc ctx k b

/-- run a sequence of calls on the same context, threading it through; `none` if any call panics -/
def WnafCall.runAll (rc : WnafRec) : WnafCtx F → List (WnafCall F) → Option (List (Jac F))
  | _, [] => some []
  | ctx, c :: cs => do
    let (r, ctx') ← c.run rc ctx
    let rs ← WnafCall.runAll rc ctx' cs
    pure (r :: rs)

theorem WnafCall.run_ctx (rc : WnafRec) (ctx : WnafCtx F) (c : WnafCall F) :
    c.run rc ctx = c.run rc WnafCtx.new := by
  cases c with
  | baseScalar b n k => exact baseThenScalar_ctx rc ctx b n k
  | scalarBase k b => exact scalarThenBase_ctx rc ctx k b

/-- any history of calls on one reused context returns what fresh contexts would return -/
theorem WnafCall.runAll_fresh (rc : WnafRec) (ctx : WnafCtx F) (cs : List (WnafCall F)) :
    WnafCall.runAll rc ctx cs
      = cs.mapM (fun c => (c.run rc WnafCtx.new).map Prod.fst) := by
  induction cs generalizing ctx with
  | nil => rfl
  | cons c cs ih =>
    rw [WnafCall.runAll, List.mapM_cons, WnafCall.run_ctx rc ctx c]
    cases h : c.run rc WnafCtx.new with
    | none => rfl
    | some p =>
      obtain ⟨r, ctx'⟩ := p
      simp only [bind, Option.bind, Option.map, ih ctx']

/-! ## recommended windows -/

theorem recommendForScalar_mem (ladder : List (ℕ × ℕ)) (dflt k : ℕ) :
    recommendForScalar ladder dflt k = dflt ∨
      recommendForScalar ladder dflt k ∈ ladder.map Prod.snd := by
  unfold recommendForScalar
  simp only
  split
  · rename_i t w h
    exact Or.inr (List.mem_map.mpr ⟨(t, w), List.mem_of_find?_eq_some h, rfl⟩)
  · exact Or.inl rfl

theorem recommendForNumScalars_range (tbl : List ℕ) (base n : ℕ) :
    base ≤ recommendForNumScalars tbl base n ∧
      recommendForNumScalars tbl base n ≤ base + tbl.length := by
  unfold recommendForNumScalars
  have := (List.takeWhile_sublist (l := tbl) (fun r => decide (n > r))).length_le
  omega

/-- every window recommended from a scalar lies in `2..=22` (G1 and G2 tables) -/
theorem recommendForScalar_range (k : ℕ) :
    (2 ≤ recommendForScalar g1Rec.ladder g1Rec.dflt k ∧
      recommendForScalar g1Rec.ladder g1Rec.dflt k ≤ 22) ∧
    (2 ≤ recommendForScalar g2Rec.ladder g2Rec.dflt k ∧
      recommendForScalar g2Rec.ladder g2Rec.dflt k ≤ 22) := by
  have h1 : ∀ x ∈ g1Rec.dflt :: g1Rec.ladder.map Prod.snd, 2 ≤ x ∧ x ≤ 22 := by decide
  have h2 : ∀ x ∈ g2Rec.dflt :: g2Rec.ladder.map Prod.snd, 2 ≤ x ∧ x ≤ 22 := by decide
  constructor
  · apply h1
    rcases recommendForScalar_mem g1Rec.ladder g1Rec.dflt k with h | h
    · rw [h]; exact List.mem_cons_self ..
    · exact List.mem_cons_of_mem _ h
  · apply h2
    rcases recommendForScalar_mem g2Rec.ladder g2Rec.dflt k with h | h
    · rw [h]; exact List.mem_cons_self ..
    · exact List.mem_cons_of_mem _ h

/-- every window recommended from a number of scalars lies in `2..=22` (G1 and G2 tables) -/
theorem recommendForNumScalars_range' (n : ℕ) :
    (2 ≤ recommendForNumScalars g1Rec.tbl g1Rec.base n ∧
      recommendForNumScalars g1Rec.tbl g1Rec.base n ≤ 22) ∧
    (2 ≤ recommendForNumScalars g2Rec.tbl g2Rec.base n ∧
      recommendForNumScalars g2Rec.tbl g2Rec.base n ≤ 22) := by
  have h1 := recommendForNumScalars_range g1Rec.tbl g1Rec.base n
  have h2 := recommendForNumScalars_range g2Rec.tbl g2Rec.base n
  have e1 : g1Rec.base = 4 ∧ g1Rec.tbl.length = 12 := by decide
  have e2 : g2Rec.base = 4 ∧ g2Rec.tbl.length = 11 := by decide
  omega

/-- a table set whose recommendations are all in the documented range -/
def WnafRec.InRange (rc : WnafRec) : Prop :=
  (∀ k, 2 ≤ recommendForScalar rc.ladder rc.dflt k ∧ recommendForScalar rc.ladder rc.dflt k ≤ 22) ∧
  (∀ n, 2 ≤ recommendForNumScalars rc.tbl rc.base n ∧ recommendForNumScalars rc.tbl rc.base n ≤ 22)

theorem g1Rec_inRange : g1Rec.InRange :=
  ⟨fun k => (recommendForScalar_range k).1, fun n => (recommendForNumScalars_range' n).1⟩

theorem g2Rec_inRange : g2Rec.InRange :=
  ⟨fun k => (recommendForScalar_range k).2, fun n => (recommendForNumScalars_range' n).2⟩

/-- `wnaf.base(b, n).scalar(k)` on any (used) context returns `[k]b` -/
theorem baseThenScalar_correct (rc : WnafRec) (hrc : rc.InRange) (ctx : WnafCtx F) (b : Jac F)
    (hb : M.ValidJ b) (n k : ℕ) (hk : k < 2 ^ 255) :
    ∃ R ctx', WnafCtx.baseThenScalar rc ctx b n k = some (R, ctx') ∧
      M.ValidJ R ∧ M.absJ R = k • M.absJ b := by
  obtain ⟨h2, h22⟩ := hrc.2 n
  obtain ⟨R, hR, hv, ha⟩ := wnaf_correct' M ctx.base ctx.scalar b hb k
    (recommendForNumScalars rc.tbl rc.base n) (by omega) (by omega)
    (by
      have : 2 ^ recommendForNumScalars rc.tbl rc.base n ≤ 2 ^ 22 :=
        Nat.pow_le_pow_right (by decide) h22
      omega)
  simp only [bind, Option.bind] at hR
  cases hf : wnafForm ctx.scalar k (recommendForNumScalars rc.tbl rc.base n) with
  | none => rw [hf] at hR; cases hR
  | some sc =>
    rw [hf] at hR
    have hR' : wnafExp (wnafTable ctx.base b (recommendForNumScalars rc.tbl rc.base n)) sc = some R := hR
    exact ⟨R, ⟨_, sc⟩, by simp only [WnafCtx.baseThenScalar, hf, hR', bind, Option.bind, pure]; rfl, hv, ha⟩

/-- `wnaf.scalar(k).base(b)` on any (used) context returns `[k]b` -/
theorem scalarThenBase_correct (rc : WnafRec) (hrc : rc.InRange) (ctx : WnafCtx F) (b : Jac F)
    (hb : M.ValidJ b) (k : ℕ) (hk : k < 2 ^ 255) :
    ∃ R ctx', WnafCtx.scalarThenBase rc ctx k b = some (R, ctx') ∧
      M.ValidJ R ∧ M.absJ R = k • M.absJ b := by
  obtain ⟨h2, h22⟩ := hrc.1 (k % 2 ^ 256)
  obtain ⟨R, hR, hv, ha⟩ := wnaf_correct' M ctx.base ctx.scalar b hb k
    (recommendForScalar rc.ladder rc.dflt (k % 2 ^ 256)) (by omega) (by omega)
    (by
      have : 2 ^ recommendForScalar rc.ladder rc.dflt (k % 2 ^ 256) ≤ 2 ^ 22 :=
        Nat.pow_le_pow_right (by decide) h22
      omega)
  simp only [bind, Option.bind] at hR
  cases hf : wnafForm ctx.scalar k (recommendForScalar rc.ladder rc.dflt (k % 2 ^ 256)) with
  | none => rw [hf] at hR; cases hR
  | some sc =>
    rw [hf] at hR
    have hR' : wnafExp (wnafTable ctx.base b (recommendForScalar rc.ladder rc.dflt (k % 2 ^ 256))) sc = some R := hR
    exact ⟨R, ⟨_, sc⟩, by simp only [WnafCtx.scalarThenBase, hf, hR', bind, Option.bind, pure]; rfl, hv, ha⟩
end PP
