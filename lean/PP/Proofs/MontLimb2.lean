/-
Limb-level Montgomery multiplication, part 2: the unrolled `mont_reduce` (`genMontReduceProg n`)
computes the integer-level `Mont.montReduce`, for every limb count and ALL `u64` inputs; hence
`mul_assign` computes `Mont.mul`.
-/
import PP.Proofs.MontLimb
import PP.Proofs.Mont

namespace PP.MontLimb
open PP PP.Mont PP.Limbs

/-! ## 1. arithmetic facts -/

theorem wsum_modLimb {P : Params} (h : P.WF) : wsum (modLimb P) P.limbs = P.p := by
  have e : modLimb P = limbFn (limbsOf P.limbs P.p) := rfl
  have hl := limbsOf_length P.limbs P.p
  have := wsum_limbFn (limbsOf P.limbs P.p)
  rw [hl] at this
  rw [e, this, limbsToNat_limbsOf_of_lt]
  exact h.p_lt_W

/-- the low word of `x + k·p` vanishes for `k = x·INV mod 2^64` -/
theorem redc_lo_zero {P : Params} (h : P.WF) (x m0 M1 : Nat) (hp : P.p = m0 + 2 ^ 64 * M1) :
    (x + (x * (P.INV % 2 ^ 64) % 2 ^ 64) * m0) % 2 ^ 64 = 0 := by
  have h1 : x * (P.INV % 2 ^ 64) % 2 ^ 64 ≡ x * P.INV [MOD 2 ^ 64] :=
    (Nat.mod_modEq _ _).trans (Nat.ModEq.mul_left _ (Nat.mod_modEq _ _))
  have hm : m0 ≡ P.p [MOD 2 ^ 64] := by
    rw [hp]; unfold Nat.ModEq; rw [Nat.add_mul_mod_self_left]
  have h2 : x + (x * (P.INV % 2 ^ 64) % 2 ^ 64) * m0 ≡ x + x * P.INV * P.p [MOD 2 ^ 64] :=
    Nat.ModEq.add_left _ (h1.mul hm)
  have h3 : x + x * P.INV * P.p = x * (P.INV * P.p + 1) := by ring
  have h4 : x * (P.INV * P.p + 1) ≡ x * 0 [MOD 2 ^ 64] := Nat.ModEq.mul_left _ h.inv_spec
  rw [h3] at h2
  have h5 := h2.trans h4
  unfold Nat.ModEq at h5
  simpa using h5

theorem wsum_mask (f : Nat → Nat) (i b : Nat) :
    wsum (fun j => if j < i then 0 else f j) (i + b) = 2 ^ (64 * i) * wsum (fun j => f (i + j)) b := by
  rw [wsum_add]
  have h1 : wsum (fun j => if j < i then 0 else f j) i = 0 := by
    have : wsum (fun j => if j < i then 0 else f j) i = wsum (fun _ => 0) i :=
      wsum_congr (fun j hj => if_pos hj)
    rw [this, wsum_zero_fun]
  have h2 : wsum (fun j => if i + j < i then 0 else f (i + j)) b = wsum (fun j => f (i + j)) b := by
    apply wsum_congr; intro j _; rw [if_neg (by omega)]
  rw [h1, h2, Nat.zero_add]

/-! ## 2. one reduction round -/

/-- the double-width integer held by `r_i … r_{2n-1}` and the pending carry after `i` rounds -/
def val (n i : Nat) (s : State) : Nat :=
  wsum (fun j => if j < i then 0 else s.r j) (2 * n) + (if i = 0 then 0 else s.carry) * 2 ^ (64 * (n + i))

theorem val_zero (n : Nat) (s : State) : val n 0 s = wsum s.r (2 * n) := by
  unfold val; simp

/-- `val n i s = 2^(64 i) · (window + 2^(64(n+1)) · tail)`, `n = i + 1 + d` -/
theorem val_split (i d : Nat) (s : State) :
    val (i + 1 + d) i s = 2 ^ (64 * i) *
      (wsum (fun j => s.r (i + j)) (i + 1 + d + 1) + 2 ^ (64 * (i + 1 + d)) * (if i = 0 then 0 else s.carry)
        + 2 ^ (64 * (i + 1 + d + 1)) * wsum (fun j => s.r (i + (i + 1 + d + 1) + j)) d) := by
  unfold val
  rw [show 2 * (i + 1 + d) = i + ((i + 1 + d + 1) + d) by omega, wsum_mask, wsum_add]
  have e : ∀ j, i + (i + 1 + d + 1 + j) = i + (i + 1 + d + 1) + j := fun j => by omega
  simp only [e]
  rw [show 64 * (i + 1 + d + i) = 64 * i + 64 * (i + 1 + d) by ring, pow_add]
  ring

theorem val_split_succ (i d : Nat) (s : State) :
    val (i + 1 + d) (i + 1) s = 2 ^ (64 * i) *
      (2 ^ 64 * wsum (fun j => s.r (i + 1 + j)) (i + 1 + d) + 2 ^ (64 * (i + 1 + d + 1)) * s.carry
        + 2 ^ (64 * (i + 1 + d + 1)) * wsum (fun j => s.r (i + (i + 1 + d + 1) + j)) d) := by
  unfold val
  rw [show 2 * (i + 1 + d) = (i + 1) + ((i + 1 + d) + d) by omega, wsum_mask, wsum_add, if_neg (by omega)]
  have e : ∀ j, i + 1 + (i + 1 + d + j) = i + (i + 1 + d + 1) + j := fun j => by omega
  simp only [e]
  rw [show 64 * (i + 1 + d + (i + 1)) = 64 * i + 64 * (i + 1 + d + 1) by ring, pow_add,
    show 64 * (i + 1) = 64 * i + 64 by ring, pow_add,
    show 64 * (i + 1 + d + 1) = 64 * (i + 1 + d) + 64 by ring, pow_add]
  ring

/-- the quotient digit is computed from the right word -/
theorem val_digit (i d : Nat) (s : State) (hs : s.OK) :
    (val (i + 1 + d) i s >>> (64 * i)) % 2 ^ 64 = s.r i := by
  rw [val_split, Nat.shiftRight_eq_div_pow, Nat.mul_div_cancel_left _ (by positivity)]
  rw [show i + 1 + d + 1 = (i + 1 + d) + 1 by rfl, wsum_succ',
    show 64 * (i + 1 + d) = 64 + 64 * (i + d) by ring, pow_add,
    show 64 * (i + 1 + d + 1) = 64 + 64 * (i + 1 + d) by ring, pow_add]
  have : ∀ a b c e f g : Nat, a + 2 ^ 64 * b + 2 ^ 64 * c * e + 2 ^ 64 * f * g
      = a + 2 ^ 64 * (b + c * e + f * g) := by intros; ring
  rw [Nat.add_zero, this, Nat.add_mul_mod_self_left, Nat.mod_eq_of_lt (hs.r i)]

/-- Round `i < n` of `mont_reduce`: `T ↦ T + k·p·2^(64 i)` with the quotient digit `k` of
    `Mont.redcRounds`. -/
theorem redcRound {P : Params} (h : P.WF) (i d : Nat) (hn : P.limbs = i + 1 + d) (s : State) (hs : s.OK)
    (hc2 : i ≠ 0 → s.carry2 = s.carry) :
    ∃ s', runBody P (genRedcRound P.limbs i) s = s' ∧ s'.OK ∧
      (d ≠ 0 → s'.carry2 = s'.carry) ∧
      val P.limbs (i + 1) s' = val P.limbs i s +
        ((((val P.limbs i s) >>> (64 * i)) % W64) * P.INV) % W64 * P.p * 2 ^ (64 * i) := by
  refine ⟨_, rfl, ?_⟩
  rw [hn, W64_eq_pow, val_digit i d s hs]
  set n := i + 1 + d with hndef
  -- the modulus limbs
  have hp : P.p = modLimb P 0 + 2 ^ 64 * wsum (fun j => modLimb P (1 + j)) (i + d) := by
    rw [← wsum_succ', ← wsum_modLimb h, hn, hndef]; congr 1; omega
  unfold genRedcRound
  rw [show n - 1 = i + d by omega]
  simp only [runBody_append, runBody_cons, runBody_nil]
  -- `k`, `carry = 0`, the discarded `mac`
  set k := s.r i * (P.INV % 2 ^ 64) % 2 ^ 64 with hk
  have hklt : k < 2 ^ 64 := Nat.mod_lt _ (by norm_num)
  have hkk : s.r i * P.INV % 2 ^ 64 = k := by rw [hk, Nat.mul_mod_mod]
  rw [hkk]
  have ok0 : (step P (.mov .carry (.lit 0)) (step P (.wmul .k (rr i) .inv) s)).OK :=
    step_ok P _ (step_ok P _ hs)
  have ok1 := step_ok P (.mac none (rr i) (.reg .k) (.modL 0)) ok0
  have hs1 : step P (.mac none (rr i) (.reg .k) (.modL 0))
      (step P (.mov .carry (.lit 0)) (step P (.wmul .k (rr i) .inv) s))
      = { s with k := k, carry := (s.r i + k * modLimb P 0) / 2 ^ 64 } := by
    have ar := mac_arith (hs.r i) hklt (modLimb_lt P 0) (by norm_num : (0 : Nat) < 2 ^ 64)
    have lo := redc_lo_zero h (s.r i) _ _ hp
    rw [← hk] at lo
    simp only [Nat.add_zero] at ar
    have hcar : (s.r i + k * modLimb P 0) % 2 ^ 128 / 2 ^ 64 % 2 ^ 64 = (s.r i + k * modLimb P 0) / 2 ^ 64 := by
      generalize s.r i + k * modLimb P 0 = t at ar lo ⊢
      omega
    have hs0 : step P (.mov .carry (.lit 0)) (step P (.wmul .k (rr i) .inv) s)
        = { s with k := k, carry := 0 } := by
      simp [step, State.set, evalOpd, State.get, rr, hk]
    rw [hs0]
    simp only [step, evalOpd, State.get, rr, W64_eq_pow, Nat.add_zero]
    rw [hcar]
  rw [hs1] at ok1 ⊢
  set s1 : State := { s with k := k, carry := (s.r i + k * modLimb P 0) / 2 ^ 64 } with hs1def
  have e0 : 2 ^ 64 * s1.carry = s.r i + k * modLimb P 0 := by
    have lo := redc_lo_zero h (s.r i) _ _ hp
    rw [← hk] at lo
    show 2 ^ 64 * ((s.r i + k * modLimb P 0) / 2 ^ 64) = _
    generalize s.r i + k * modLimb P 0 = t at lo ⊢
    omega
  -- the row of `mac`s
  obtain ⟨ok2, env2, fr2, sum2⟩ := macChain P (i + 1) False (.reg .k) (fun j => .modL (j + 1))
    (stable_k P) (fun j => stable_modL P (j + 1)) s1 ok1 (i + d)
  simp only [if_false] at ok2 env2 fr2 sum2
  generalize runBody P ((List.range (i + d)).map (fun j =>
      Instr.mac (some (.r (i + 1 + j))) (rr (i + 1 + j)) (.reg .k) (.modL (j + 1)))) s1 = s2
    at ok2 env2 fr2 sum2
  have hx : evalOpd P s1 (.reg .k) = k := rfl
  have hcj : (fun j => evalOpd P s1 (.modL (j + 1))) = fun j => modLimb P (1 + j) := by
    funext j; show modLimb P (j + 1) = _; rw [Nat.add_comm]
  rw [hx, hcj] at sum2
  have hs1r : s1.r = s.r := rfl
  rw [hs1r] at sum2 fr2
  -- the `adc`
  set c2 := evalOpd P s2 (if i = 0 then .lit 0 else .reg .carry2) with hc2def
  have hc2val : c2 = if i = 0 then 0 else s.carry := by
    rw [hc2def]
    split_ifs with hi
    · rfl
    · show s2.carry2 = _; rw [env2.2.1]; exact hc2 hi
  have hc2lt : c2 < 2 ^ 64 := evalOpd_lt P ok2 _
  have hrin : s2.r (i + n) = s.r (i + n) := fr2 _ (Or.inr (by omega))
  have ar := adc_arith (ok2.r (i + n)) hc2lt ok2.carry
  set s3 := step P (.adc (.r (i + n)) (rr (i + n)) (if i = 0 then .lit 0 else .reg .carry2)) s2 with hs3
  have ok3 : s3.OK := step_ok P _ ok2
  have s3r : ∀ j, s3.r j = if j = i + n then (s2.r (i + n) + c2 + s2.carry) % 2 ^ 128 % 2 ^ 64 else s2.r j :=
    fun j => rfl
  have s3c : s3.carry = (s2.r (i + n) + c2 + s2.carry) % 2 ^ 128 / 2 ^ 64 % 2 ^ 64 := rfl
  -- the key identity for `s3`
  have key : val n (i + 1) s3 = val n i s + k * P.p * 2 ^ (64 * i) := by
    rw [hndef, val_split_succ, val_split]
    have w1 : wsum (fun j => s3.r (i + 1 + j)) (i + 1 + d)
        = wsum (fun j => s2.r (i + 1 + j)) (i + d) + s3.r (i + n) * 2 ^ (64 * (i + d)) := by
      rw [show i + 1 + d = (i + d) + 1 by omega, wsum_succ]
      have e1 : i + 1 + (i + d) = i + n := by omega
      rw [e1]
      congr 1
      apply wsum_congr; intro j hj; rw [s3r, if_neg (by omega)]
    have w2 : wsum (fun j => s3.r (i + (i + 1 + d + 1) + j)) d
        = wsum (fun j => s.r (i + (i + 1 + d + 1) + j)) d := by
      apply wsum_congr; intro j hj
      rw [s3r, if_neg (by omega)]
      exact fr2 _ (Or.inr (by omega))
    have w3 : wsum (fun j => s.r (i + j)) (i + 1 + d + 1)
        = s.r i + 2 ^ 64 * (wsum (fun j => s.r (i + 1 + j)) (i + d) + s.r (i + n) * 2 ^ (64 * (i + d))) := by
      rw [wsum_succ', show i + 1 + d = (i + d) + 1 by omega, wsum_succ]
      have e : ∀ j, i + (1 + j) = i + 1 + j := fun j => by omega
      have e1 : i + 1 + (i + d) = i + n := by omega
      simp only [e, e1, Nat.add_zero]
    rw [w1, w2, w3, s3r, if_pos rfl, s3c, ← hc2val, hp]
    rw [hrin] at ar
    rw [hrin]
    linear_combination (2 ^ (64 * i) * 2 ^ 64 * 2 ^ (64 * (i + d))) * ar
      + (2 ^ (64 * i) * 2 ^ 64) * sum2 + (2 ^ (64 * i)) * e0
  -- the optional `let carry2 = carry`
  by_cases hd : i + 1 < n
  · rw [if_pos (by omega)]
    simp only [runBody_cons, runBody_nil]
    refine ⟨step_ok P _ ok3, fun _ => rfl, ?_⟩
    rw [← key]; rfl
  · rw [if_neg (by omega)]
    simp only [runBody_nil]
    exact ⟨ok3, fun hd0 => absurd (by omega) hd, key⟩

/-! ## 3. all rounds -/

theorem redcRounds_run {P : Params} (h : P.WF) : ∀ (m i : Nat) (s : State), s.OK → i + m ≤ P.limbs →
    (m ≠ 0 → i ≠ 0 → s.carry2 = s.carry) →
    ∃ s', runBody P ((List.range' i m).flatMap (genRedcRound P.limbs)) s = s' ∧ s'.OK ∧
      val P.limbs (i + m) s' = redcRounds P m i (val P.limbs i s) := by
  intro m
  induction m with
  | zero => intro i s hs _ _; exact ⟨s, rfl, hs, rfl⟩
  | succ m ih =>
    intro i s hs him hc2
    obtain ⟨s1, e1, ok1, c1, v1⟩ := redcRound h i (P.limbs - i - 1) (by omega) s hs (hc2 (by omega))
    obtain ⟨s2, e2, ok2, v2⟩ := ih (i + 1) s1 ok1 (by omega) (fun hm _ => c1 (by omega))
    refine ⟨s2, ?_, ok2, ?_⟩
    · rw [List.range'_succ, List.flatMap_cons, runBody_append, e1, e2]
    · rw [show i + (m + 1) = i + 1 + m by omega, v2, v1]
      rfl

/-! ## 4. storing the result and the final conditional subtraction -/

theorem stores_run (P : Params) (n : Nat) (s : State) (t : Nat) :
    ∃ s', runBody P ((List.range t).map (fun i => Instr.store i (.r (n + i)))) s = s' ∧
      s'.r = s.r ∧ (∀ j, s'.self j = if j < t then s.r (n + j) else s.self j) := by
  induction t with
  | zero => exact ⟨s, rfl, rfl, fun j => by simp⟩
  | succ t ih =>
    obtain ⟨s1, e1, r1, self1⟩ := ih
    refine ⟨_, rfl, ?_, ?_⟩
    · rw [List.range_succ, List.map_append, runBody_append, e1]
      exact r1
    · intro j
      rw [List.range_succ, List.map_append, runBody_append, e1]
      show (if j = t then s1.r (n + t) else s1.self j) = _
      rw [self1, r1]
      by_cases hj : j = t
      · subst hj; simp
      · rw [if_neg hj]
        by_cases h2 : j < t
        · rw [if_pos h2, if_pos (by omega)]
        · rw [if_neg h2, if_neg (by omega)]

theorem reduceLimbs_spec {P : Params} (h : P.WF) {ls : List Nat} (hok : LimbsOK ls)
    (hl : ls.length = P.limbs) :
    limbsToNat (reduceLimbs P ls) = Mont.reduce P (limbsToNat ls) ∧
      (reduceLimbs P ls).length = P.limbs := by
  have hm : limbsToNat (limbsOf P.limbs P.p) = P.p := limbsToNat_limbsOf_of_lt h.p_lt_W
  have hmok := limbsOf_ok P.limbs P.p
  have hml : ls.length = (limbsOf P.limbs P.p).length := by rw [hl, limbsOf_length]
  have hiff := cmp_eq_neg_one_iff hok hmok hml
  rw [hm] at hiff
  unfold reduceLimbs Mont.reduce
  simp only
  by_cases hlt : limbsToNat ls < P.p
  · rw [if_pos (hiff.2 hlt), if_pos hlt]
    exact ⟨rfl, hl⟩
  · rw [if_neg (fun hc => hlt (hiff.1 hc)), if_neg hlt]
    rw [limbsToNat_subNoborrow hok hmok hml, hm, hl, subNoborrow_length 0 hml]
    exact ⟨rfl, hl⟩

/-- `mont_reduce(r_0, …, r_{2n-1})` computes `Mont.montReduce` of the double-width integer held by its
    arguments -- for all `u64` argument values. -/
theorem genMontReduce_run {P : Params} (h : P.WF) (s : State) (hs : s.OK) :
    limbsToNat ((runBody P (genMontReduceProg P.limbs) s).out P)
      = Mont.montReduce P (wsum s.r (2 * P.limbs)) := by
  have hn := h.limbs_pos
  obtain ⟨s1, e1, ok1, v1⟩ := redcRounds_run h P.limbs 0 s hs (by omega) (fun _ h0 => absurd rfl h0)
  obtain ⟨s2, e2, r2, self2⟩ := stores_run P P.limbs s1 P.limbs
  unfold genMontReduceProg
  rw [runBody_append, runBody_append, List.range_eq_range', e1, ← List.range_eq_range', e2, runBody_singleton]
  -- the limbs handed to `reduce`
  have hls : (List.range P.limbs).map s2.self = (List.range P.limbs).map (fun j => s1.r (P.limbs + j)) := by
    apply List.map_congr_left
    intro j hj
    rw [self2, if_pos (List.mem_range.1 hj)]
  have hlsok : LimbsOK ((List.range P.limbs).map (fun j => s1.r (P.limbs + j))) := by
    intro l hl; simp only [List.mem_map] at hl; obtain ⟨i, _, rfl⟩ := hl; exact ok1.r _
  have hlslen : ((List.range P.limbs).map (fun j => s1.r (P.limbs + j))).length = P.limbs := by simp
  obtain ⟨red1, red2⟩ := reduceLimbs_spec h hlsok hlslen
  show limbsToNat ((List.range P.limbs).map (limbFn (reduceLimbs P ((List.range P.limbs).map s2.self)))) = _
  rw [hls]
  have hmr := map_range_limbFn (reduceLimbs P ((List.range P.limbs).map (fun j => s1.r (P.limbs + j))))
  rw [red2] at hmr
  rw [hmr, red1, limbsToNat_map_range]
  -- the integer side
  rw [Nat.zero_add, val_zero] at v1
  unfold Mont.montReduce
  rw [← v1]
  have hv : val P.limbs P.limbs s1
      = P.W * (wsum (fun j => s1.r (P.limbs + j)) P.limbs + s1.carry * P.W) := by
    unfold val Params.W
    rw [show 2 * P.limbs = P.limbs + P.limbs by omega, wsum_mask, if_neg (by omega),
      show 64 * (P.limbs + P.limbs) = 64 * P.limbs + 64 * P.limbs by ring, pow_add]
    ring
  have hlt : wsum (fun j => s1.r (P.limbs + j)) P.limbs < P.W :=
    wsum_lt (fun j _ => ok1.r _)
  rw [hv, Nat.mul_div_cancel_left _ (W_pos P), Nat.add_mul_mod_self_right, Nat.mod_eq_of_lt hlt]

/-! ## 5. `mont_reduce` and `mul_assign` on limb lists -/

theorem limbFn_nil (i : Nat) : limbFn [] i = 0 := by simp [limbFn]

theorem initState_ok {a b : List Nat} (ha : LimbsOK a) (hb : LimbsOK b) : (initState a b).OK :=
  ⟨fun _ => by show (0 : Nat) < _; norm_num, by show (0 : Nat) < _; norm_num,
   by show (0 : Nat) < _; norm_num, by show (0 : Nat) < _; norm_num,
   fun i => limbFn_lt ha i, fun i => limbFn_lt hb i⟩

theorem genMontReduce_correct {P : Params} (h : P.WF) {rs : List Nat} (hrs : LimbsOK rs)
    (hl : rs.length = 2 * P.limbs) :
    limbsToNat (runMontReduce P (genMontReduceProg P.limbs) rs) = Mont.montReduce P (limbsToNat rs) := by
  unfold runMontReduce
  have ok : ({ initState [] [] with r := limbFn rs } : State).OK := by
    have h0 := initState_ok (a := []) (b := []) (by simp) (by simp)
    exact ⟨fun i => limbFn_lt hrs i, h0.k, h0.carry, h0.carry2, h0.self, h0.other⟩
  rw [genMontReduce_run h _ ok]
  show Mont.montReduce P (wsum (limbFn rs) (2 * P.limbs)) = _
  rw [← hl, wsum_limbFn]

theorem genMul_correct {P : Params} (h : P.WF) {a b : List Nat} (ha : LimbsOK a) (hb : LimbsOK b)
    (la : a.length = P.limbs) (lb : b.length = P.limbs) :
    limbsToNat (runMul P (genMulProg P.limbs) (genMontReduceProg P.limbs) a b)
      = Mont.mul P (limbsToNat a) (limbsToNat b) := by
  unfold runMul
  obtain ⟨s1, ok1, e1, sum1⟩ := genMul_run P P.limbs (genMontReduceProg P.limbs) (initState a b)
    (initState_ok ha hb) h.limbs_pos
  rw [e1, genMontReduce_run h s1 ok1, sum1]
  show Mont.montReduce P (wsum (limbFn a) P.limbs * wsum (limbFn b) P.limbs) = _
  conv_lhs => rw [← la]
  rw [wsum_limbFn, la, ← lb, wsum_limbFn]
  rfl

end PP.MontLimb
