/-
C07, lemmas: the prime-order subgroup.

* the points killed by `n` form a subgroup of any abelian group (closure under everything the group
  offers: `+`, `-`, `k •`, finite sums) — `killedBy`;
* the double-and-add loop `Aff.mulBits` of the model computes `[value of the bits] A` on every curve
  point (for every bit string), hence `Aff.mul k = [k mod 2^256]`, `Aff.mul r = [r]`;
* the executable subgroup test `Aff.inSubgroup` decides "identity, or on the curve and killed by `r`"
  on ALL coordinate records, on or off the curve;
* the invariant `InSub` ("curve equation and `r • P = 0`") and its preservation by every operation
  of the model's curve API;
* multiplication by a cofactor lands in the subgroup, conditionally on the group order.

Generic in the field `F` (lawful model operations) and in `b` (`ShortW b`).
-/
import Mathlib.GroupTheory.OrderOfElement
import Mathlib.Algebra.BigOperators.Group.Finset.Basic
import PP.Proofs.GroupModelInst
import PP.Proofs.Bits

set_option linter.unusedSectionVars false

namespace PP

open WeierstrassCurve.Affine

/-! ## abstract: the `n`-torsion of an abelian group -/

section abstract
variable {G : Type} [AddCommGroup G]

/-- the elements killed by `n`, as a subgroup -/
def killedBy (G : Type) [AddCommGroup G] (n : ℕ) : AddSubgroup G where
  carrier := {g | n • g = 0}
  zero_mem' := nsmul_zero n
  add_mem' := fun {a c} (ha : n • a = 0) (hc : n • c = 0) =>
    show n • (a + c) = 0 by rw [nsmul_add, ha, hc, add_zero]
  neg_mem' := fun {a} (ha : n • a = 0) =>
    show n • (-a) = 0 by rw [smul_neg, ha, neg_zero]

@[simp] theorem mem_killedBy {n : ℕ} {g : G} : g ∈ killedBy G n ↔ n • g = 0 := Iff.rfl

theorem killed_add {n : ℕ} {g h : G} (hg : n • g = 0) (hh : n • h = 0) : n • (g + h) = 0 :=
  (killedBy G n).add_mem hg hh

theorem killed_neg {n : ℕ} {g : G} (hg : n • g = 0) : n • (-g) = 0 :=
  (killedBy G n).neg_mem hg

theorem killed_sub {n : ℕ} {g h : G} (hg : n • g = 0) (hh : n • h = 0) : n • (g - h) = 0 :=
  (killedBy G n).sub_mem hg hh

theorem killed_nsmul {n : ℕ} {g : G} (hg : n • g = 0) (k : ℕ) : n • (k • g) = 0 :=
  (killedBy G n).nsmul_mem hg k

theorem killed_zsmul {n : ℕ} {g : G} (hg : n • g = 0) (k : ℤ) : n • (k • g) = 0 :=
  (killedBy G n).zsmul_mem hg k

/-- a linear combination (as the MSM theorems state their result: a list of (point, scalar) pairs)
    of elements killed by `n` is killed by `n` -/
theorem killed_list_sum {α : Type} {n : ℕ} (f : α → G) (l : List (α × ℕ))
    (h : ∀ pk ∈ l, n • f pk.1 = 0) : n • (l.map (fun pk => pk.2 • f pk.1)).sum = 0 := by
  refine (killedBy G n).list_sum_mem ?_
  intro x hx
  obtain ⟨pk, hpk, rfl⟩ := List.mem_map.mp hx
  exact killed_nsmul (h pk hpk) pk.2

/-- the same for a `Finset` sum `Σ kᵢ • Pᵢ` -/
theorem killed_finset_sum {ι : Type} {n : ℕ} (s : Finset ι) (k : ι → ℕ) (P : ι → G)
    (h : ∀ i ∈ s, n • P i = 0) : n • (∑ i ∈ s, k i • P i) = 0 :=
  (killedBy G n).sum_mem fun i hi => killed_nsmul (h i hi) (k i)

/-- an element killed by two coprime numbers is the identity -/
theorem eq_zero_of_coprime_nsmul {g : G} {m n : ℕ} (hm : m • g = 0) (hn : n • g = 0)
    (hc : Nat.Coprime m n) : g = 0 := by
  have h1 : addOrderOf g ∣ Nat.gcd m n :=
    Nat.dvd_gcd (addOrderOf_dvd_of_nsmul_eq_zero hm) (addOrderOf_dvd_of_nsmul_eq_zero hn)
  rw [hc.gcd_eq_one, Nat.dvd_one] at h1
  exact AddMonoid.addOrderOf_eq_one_iff.mp h1

/-- a non-identity element killed by a prime has exactly that order -/
theorem addOrderOf_eq_of_prime {g : G} {p : ℕ} (hp : p.Prime) (h : p • g = 0) (hne : g ≠ 0) :
    addOrderOf g = p :=
  haveI := Fact.mk hp
  addOrderOf_eq_prime h hne

/-- multiplying by the cofactor lands in the `n`-torsion when `cof * n` kills the group -/
theorem killed_cofactor_nsmul {cof n : ℕ} (hord : ∀ g : G, (cof * n) • g = 0) (g : G) :
    n • (cof • g) = 0 := by
  rw [← mul_nsmul, hord]

end abstract

/-! ## the double-and-add loop -/

section curve
variable {F : Type} [Field F] [DecidableEq F] [FieldOps F] [LawfulFieldOps F]
variable {b : F} [ShortW b]

/-- the loop body of `mul_bits`, from any accumulator denoting `m • A` -/
theorem Aff.mulBits_fold_spec {A : Aff F} (hA : Aff.OnCurve b A) (bits : List Bool) (acc : Jac F)
    (m : ℕ) (hacc : Jac.OnCurve b acc) (habs : Jac.abs b acc = m • Aff.abs b A) :
    Jac.OnCurve b
        (bits.foldl (fun res i => let res := res.double; if i then res.addMixed A else res) acc) ∧
      Jac.abs b
        (bits.foldl (fun res i => let res := res.double; if i then res.addMixed A else res) acc)
        = ofBitsMSBAux m bits • Aff.abs b A := by
  induction bits generalizing acc m with
  | nil => exact ⟨hacc, habs⟩
  | cons i bs ih =>
    rw [List.foldl_cons, ofBitsMSBAux_cons]
    have hd := Jac.double_spec hacc
    cases i with
    | false =>
      refine ih acc.double (2 * m + false.toNat) (by simpa using hd.1) ?_
      rw [hd.2, habs]
      simp [two_mul, add_nsmul]
    | true =>
      have hm := Jac.addMixed_spec hd.1 hA
      refine ih (acc.double.addMixed A) (2 * m + true.toNat) (by simpa using hm.1) ?_
      rw [hm.2, hd.2, habs]
      simp [two_mul, add_nsmul]

/-- `mul_bits` over ANY MSB-first bit string computes `[value of the bits] A`, for every curve
    point `A` (identity and small-order points included) -/
theorem Aff.mulBits_spec {A : Aff F} (hA : Aff.OnCurve b A) (bits : List Bool) :
    Jac.OnCurve b (A.mulBits bits) ∧
      Jac.abs b (A.mulBits bits) = ofBitsMSB bits • Aff.abs b A :=
  Aff.mulBits_fold_spec hA bits Jac.zero 0 (Jac.onCurve_zero b) (by rw [Jac.abs_zero, zero_nsmul])

/-- `mul_bits` with the `n` limbs of `k` computes `[k mod 2^(64 n)]` -/
theorem Aff.mulBits_limbs_spec {A : Aff F} (hA : Aff.OnCurve b A) (n k : ℕ) :
    Jac.OnCurve b (A.mulBits (bitsMSB (limbsOf n k))) ∧
      Jac.abs b (A.mulBits (bitsMSB (limbsOf n k))) = (k % 2 ^ (64 * n)) • Aff.abs b A := by
  have h := Aff.mulBits_spec hA (bitsMSB (limbsOf n k))
  rwa [ofBitsMSB_bitsMSB_limbsOf] at h

/-- affine `mul` by a 4-limb scalar: `[k mod 2^256] A` -/
theorem Aff.mul_spec {A : Aff F} (hA : Aff.OnCurve b A) (k : ℕ) :
    Jac.OnCurve b (A.mul k) ∧ Jac.abs b (A.mul k) = (k % 2 ^ 256) • Aff.abs b A :=
  Aff.mulBits_limbs_spec hA 4 k

theorem r_lt_two_pow_256 : Gen.r < 2 ^ 256 := by decide +kernel

/-- `self.mul(Fr::char())` is `[r] A` -/
theorem Aff.mul_r_spec {A : Aff F} (hA : Aff.OnCurve b A) :
    Jac.OnCurve b (A.mul Gen.r) ∧ Jac.abs b (A.mul Gen.r) = Gen.r • Aff.abs b A := by
  have h := Aff.mul_spec hA Gen.r
  rwa [Nat.mod_eq_of_lt r_lt_two_pow_256] at h

/-! ## the subgroup test -/

/-- `is_in_correct_subgroup_assuming_on_curve` on a curve point: "killed by `r`" -/
theorem Aff.inSubgroupAssumingOnCurve_iff {A : Aff F} (hA : Aff.OnCurve b A) :
    A.inSubgroupAssumingOnCurve = true ↔ Gen.r • Aff.abs b A = 0 := by
  have h := Aff.mul_r_spec hA
  unfold Aff.inSubgroupAssumingOnCurve
  rw [C01.isZero_iff h.1, h.2]

/-- `in_subgroup`, for every coordinate record whatsoever: on the curve and killed by `r` -/
theorem Aff.inSubgroup_iff_onCurve (A : Aff F) :
    Aff.inSubgroup b A = true ↔ Aff.OnCurve b A ∧ Gen.r • Aff.abs b A = 0 := by
  unfold Aff.inSubgroup
  rw [Bool.and_eq_true, Aff.isOnCurve_iff]
  constructor
  · rintro ⟨hA, h⟩; exact ⟨hA, (Aff.inSubgroupAssumingOnCurve_iff hA).mp h⟩
  · rintro ⟨hA, h⟩; exact ⟨hA, (Aff.inSubgroupAssumingOnCurve_iff hA).mpr h⟩

/-- `in_subgroup`, for every coordinate record `(x, y, infinity)` whatsoever: the identity (flag set,
    `x`, `y` ignored — exactly the short-circuits of the code), or `(x, y)` satisfies the curve
    equation and `r` times the point is the identity -/
theorem Aff.inSubgroup_iff (A : Aff F) :
    Aff.inSubgroup b A = true ↔
      A.infinity = true ∨ (A.y ^ 2 = A.x ^ 3 + b ∧ Gen.r • Aff.abs b A = 0) := by
  rw [Aff.inSubgroup_iff_onCurve]
  constructor
  · rintro ⟨hA, h⟩
    rcases hA with hi | he
    · exact Or.inl hi
    · exact Or.inr ⟨he, h⟩
  · rintro (hi | ⟨he, h⟩)
    · exact ⟨Or.inl hi, by rw [Aff.abs_of_infinity hi, nsmul_zero]⟩
    · exact ⟨Or.inr he, h⟩

/-- an off-curve pair is rejected -/
theorem Aff.inSubgroup_eq_false_of_not_onCurve {A : Aff F} (hi : A.infinity = false)
    (he : A.y ^ 2 ≠ A.x ^ 3 + b) : Aff.inSubgroup b A = false := by
  rw [← Bool.not_eq_true, Aff.inSubgroup_iff]
  rintro (h | ⟨h, -⟩)
  · rw [hi] at h; cases h
  · exact he h

/-- a point of a different curve `y² = x³ + b'` (a twist, for instance) is rejected -/
theorem Aff.inSubgroup_eq_false_of_twist {A : Aff F} {b' : F} (hi : A.infinity = false)
    (he : A.y ^ 2 = A.x ^ 3 + b') (hb : b' ≠ b) : Aff.inSubgroup b A = false := by
  apply Aff.inSubgroup_eq_false_of_not_onCurve hi
  rw [he]
  intro h
  exact hb (add_left_cancel h)

/-- a non-identity curve point killed by a number coprime to `r` is rejected -/
theorem Aff.inSubgroup_eq_false_of_coprime {A : Aff F} {n : ℕ} (hn : n • Aff.abs b A = 0)
    (hc : Nat.Coprime n Gen.r) (hne : Aff.abs b A ≠ 0) : Aff.inSubgroup b A = false := by
  rw [← Bool.not_eq_true, Aff.inSubgroup_iff_onCurve]
  rintro ⟨-, h⟩
  exact hne (eq_zero_of_coprime_nsmul hn h hc)

/-- … in particular a non-identity point whose order divides a cofactor coprime to `r` -/
theorem Aff.inSubgroup_eq_false_of_dvd_cofactor {A : Aff F} {n cof : ℕ}
    (hn : n • Aff.abs b A = 0) (hd : n ∣ cof) (hc : Nat.Coprime cof Gen.r)
    (hne : Aff.abs b A ≠ 0) : Aff.inSubgroup b A = false :=
  Aff.inSubgroup_eq_false_of_coprime hn (Nat.Coprime.coprime_dvd_left hd hc) hne

theorem g1_cofactor_coprime : Nat.Coprime Gen.G1_COFACTOR Gen.r := by decide +kernel
theorem g2_cofactor_coprime : Nat.Coprime Gen.G2_COFACTOR Gen.r := by decide +kernel

/-! ## the invariant "curve equation and killed by `r`" -/

/-- a projective triple denotes a point of the order-`r` subgroup -/
def Jac.InSub (b : F) (P : Jac F) : Prop := Jac.OnCurve b P ∧ Gen.r • Jac.abs b P = 0

/-- an affine record denotes a point of the order-`r` subgroup -/
def Aff.InSub (b : F) (A : Aff F) : Prop := Aff.OnCurve b A ∧ Gen.r • Aff.abs b A = 0

/-- the executable test decides the invariant -/
theorem Aff.inSubgroup_iff_inSub (A : Aff F) : Aff.inSubgroup b A = true ↔ Aff.InSub b A :=
  Aff.inSubgroup_iff_onCurve A

theorem Jac.InSub.zero : Jac.InSub b (Jac.zero : Jac F) :=
  ⟨Jac.onCurve_zero b, by rw [Jac.abs_zero, nsmul_zero]⟩

theorem Aff.InSub.zero : Aff.InSub b (Aff.zero : Aff F) :=
  ⟨Aff.onCurve_zero b, by rw [Aff.abs_zero, nsmul_zero]⟩

theorem Jac.InSub.double {P : Jac F} (h : Jac.InSub b P) : Jac.InSub b P.double :=
  ⟨(Jac.double_spec h.1).1, by rw [(Jac.double_spec h.1).2]; exact killed_add h.2 h.2⟩

theorem Jac.InSub.add {P Q : Jac F} (hP : Jac.InSub b P) (hQ : Jac.InSub b Q) :
    Jac.InSub b (P.add Q) :=
  ⟨(Jac.add_spec hP.1 hQ.1).1, by rw [(Jac.add_spec hP.1 hQ.1).2]; exact killed_add hP.2 hQ.2⟩

theorem Jac.InSub.neg {P : Jac F} (h : Jac.InSub b P) : Jac.InSub b P.neg :=
  ⟨(Jac.neg_spec h.1).1, by rw [(Jac.neg_spec h.1).2]; exact killed_neg h.2⟩

theorem Jac.InSub.sub {P Q : Jac F} (hP : Jac.InSub b P) (hQ : Jac.InSub b Q) :
    Jac.InSub b (P.sub Q) :=
  ⟨(Jac.sub_spec hP.1 hQ.1).1, by rw [(Jac.sub_spec hP.1 hQ.1).2]; exact killed_sub hP.2 hQ.2⟩

theorem Jac.InSub.addMixed {P : Jac F} {A : Aff F} (hP : Jac.InSub b P) (hA : Aff.InSub b A) :
    Jac.InSub b (P.addMixed A) :=
  ⟨(Jac.addMixed_spec hP.1 hA.1).1, by
    rw [(Jac.addMixed_spec hP.1 hA.1).2]; exact killed_add hP.2 hA.2⟩

theorem Jac.InSub.subMixed {P : Jac F} {A : Aff F} (hP : Jac.InSub b P) (hA : Aff.InSub b A) :
    Jac.InSub b (P.subMixed A) :=
  ⟨(Jac.subMixed_spec hP.1 hA.1).1, by
    rw [(Jac.subMixed_spec hP.1 hA.1).2]; exact killed_sub hP.2 hA.2⟩

theorem Aff.InSub.neg {A : Aff F} (h : Aff.InSub b A) : Aff.InSub b A.neg :=
  ⟨(Aff.neg_spec h.1).1, by rw [(Aff.neg_spec h.1).2]; exact killed_neg h.2⟩

theorem Aff.InSub.toJac {A : Aff F} (h : Aff.InSub b A) : Jac.InSub b A.toJac :=
  ⟨(Aff.toJac_spec h.1).1, by rw [(Aff.toJac_spec h.1).2]; exact h.2⟩

/-- projective → affine never panics on a subgroup point and stays in the subgroup -/
theorem Jac.InSub.toAffine {P : Jac F} (h : Jac.InSub b P) :
    ∃ A, P.toAffine = some A ∧ Aff.InSub b A ∧ Aff.abs b A = Jac.abs b P := by
  obtain ⟨A, hA, hoc, habs⟩ := Jac.toAffine_spec h.1
  exact ⟨A, hA, ⟨hoc, by rw [habs]; exact h.2⟩, habs⟩

/-- the affine result of `toAffine` passes the executable subgroup test -/
theorem Jac.InSub.toAffine_inSubgroup {P : Jac F} (h : Jac.InSub b P) :
    ∃ A, P.toAffine = some A ∧ Aff.inSubgroup b A = true := by
  obtain ⟨A, hA, hs, -⟩ := h.toAffine
  exact ⟨A, hA, (Aff.inSubgroup_iff_inSub A).mpr hs⟩

/-- scalar multiples: `mul_bits` with any bit string -/
theorem Aff.InSub.mulBits {A : Aff F} (h : Aff.InSub b A) (bits : List Bool) :
    Jac.InSub b (A.mulBits bits) :=
  ⟨(Aff.mulBits_spec h.1 bits).1, by
    rw [(Aff.mulBits_spec h.1 bits).2]; exact killed_nsmul h.2 _⟩

/-- scalar multiples: affine `mul` by any scalar -/
theorem Aff.InSub.mul {A : Aff F} (h : Aff.InSub b A) (k : ℕ) : Jac.InSub b (A.mul k) :=
  h.mulBits _

/-- the loop of the projective `mul_assign` keeps the invariant (for any bit string and flag) -/
theorem Jac.InSub.mulLoop {P : Jac F} (hP : Jac.InSub b P) (bits : List Bool) (res : Jac F)
    (found : Bool) (hres : Jac.InSub b res) : Jac.InSub b (Jac.mulLoop P bits (res, found)).1 := by
  induction bits generalizing res found with
  | nil => exact hres
  | cons i bs ih =>
    rw [Jac.mulLoop]
    apply ih
    have h1 : Jac.InSub b (if found = true then res.double else res) := by
      split
      · exact hres.double
      · exact hres
    split
    · exact h1.add hP
    · exact h1

/-- scalar multiples: projective `mul_assign` by any scalar -/
theorem Jac.InSub.mulAssign {P : Jac F} (hP : Jac.InSub b P) (k : ℕ) :
    Jac.InSub b (P.mulAssign k) :=
  hP.mulLoop _ _ _ Jac.InSub.zero

/-- batch normalisation never panics on subgroup points and keeps every entry in the subgroup -/
theorem Jac.InSub.batchNormalize (v : List (Jac F)) (hv : ∀ P ∈ v, Jac.InSub b P) :
    ∃ out, Jac.batchNormalize v = some out ∧ out.length = v.length ∧
      ∀ Q ∈ out, Jac.InSub b Q := by
  obtain ⟨out, ho, hl, hall⟩ := Jac.batchNormalize_spec (b := b) v (fun P hP => (hv P hP).1)
  refine ⟨out, ho, hl, ?_⟩
  intro Q hQ
  obtain ⟨i, hi, rfl⟩ := List.getElem_of_mem hQ
  have hi' : i < v.length := hl ▸ hi
  obtain ⟨hoc, habs, -, -⟩ := hall i hi hi'
  exact ⟨hoc, by rw [habs]; exact (hv _ (List.getElem_mem hi')).2⟩

/-! ### whole programs of curve operations (the register machine of C01) -/

theorem killed_getD {n : ℕ} {regs : List (W b).Point} (h : ∀ g ∈ regs, n • g = 0) (i : ℕ) :
    n • regs.getD i 0 = 0 := by
  by_cases hi : i < regs.length
  · rw [List.getD_eq_getElem _ _ hi]; exact h _ (List.getElem_mem hi)
  · rw [List.getD_eq_default _ _ (Nat.le_of_not_lt hi), nsmul_zero]

theorem killed_set {n : ℕ} {regs : List (W b).Point} (h : ∀ g ∈ regs, n • g = 0) (i : ℕ)
    {v : (W b).Point} (hv : n • v = 0) : ∀ g ∈ regs.set i v, n • g = 0 := by
  intro g hg
  rcases List.mem_or_eq_of_mem_set hg with h' | h'
  · exact h g h'
  · exact h' ▸ hv

/-- one abstract instruction keeps all registers killed by `n` -/
theorem C01.stepP_killed {n : ℕ} {regs : List (W b).Point} (h : ∀ g ∈ regs, n • g = 0)
    (ins : C01.Instr) : ∀ g ∈ C01.stepP regs ins, n • g = 0 := by
  cases ins with
  | add i j => exact killed_set h i (killed_add (killed_getD h i) (killed_getD h j))
  | sub i j => exact killed_set h i (killed_sub (killed_getD h i) (killed_getD h j))
  | dbl i => exact killed_set h i (killed_add (killed_getD h i) (killed_getD h i))
  | neg i => exact killed_set h i (killed_neg (killed_getD h i))
  | addm i j => exact killed_set h i (killed_add (killed_getD h i) (killed_getD h j))
  | subm i j => exact killed_set h i (killed_sub (killed_getD h i) (killed_getD h j))
  | aff i => exact h
  | norm => exact h
  | cp i j => exact killed_set h i (killed_getD h j)

theorem C01.runP_killed {n : ℕ} (prog : List C01.Instr) {regs : List (W b).Point}
    (h : ∀ g ∈ regs, n • g = 0) : ∀ g ∈ C01.runP prog regs, n • g = 0 := by
  induction prog generalizing regs with
  | nil => exact h
  | cons ins rest ih => exact ih (C01.stepP_killed h ins)

/-- **Any sequence of curve operations** (add, sub, double, negate, mixed add/sub, affine round
    trip, batch normalisation, copy) started on subgroup points runs without panic and ends on
    subgroup points. -/
theorem C01.runJ_inSub (prog : List C01.Instr) {regs : List (Jac F)}
    (h : ∀ P ∈ regs, Jac.InSub b P) :
    ∃ regs', C01.runJ prog regs = some regs' ∧ ∀ P ∈ regs', Jac.InSub b P := by
  obtain ⟨regs', hr, hoc, habs⟩ := C01.runJ_refines (b := b) prog (fun P hP => (h P hP).1)
  refine ⟨regs', hr, fun P hP => ⟨hoc P hP, ?_⟩⟩
  have hk : ∀ g ∈ C01.runP prog (regs.map (Jac.abs b)), Gen.r • g = 0 := by
    apply C01.runP_killed
    intro g hg
    obtain ⟨Q, hQ, rfl⟩ := List.mem_map.mp hg
    exact (h Q hQ).2
  rw [← habs] at hk
  exact hk _ (List.mem_map.mpr ⟨P, hP, rfl⟩)

/-! ## cofactor multiplication, `random` -/

/-- `mul_bits` with the `n` limbs of a cofactor `cof < 2^(64 n)` computes `[cof] A` … -/
theorem Aff.scaleByCofactor_spec {A : Aff F} (hA : Aff.OnCurve b A) {n cof : ℕ}
    (hcof : cof < 2 ^ (64 * n)) :
    Jac.OnCurve b (A.mulBits (bitsMSB (limbsOf n cof))) ∧
      Jac.abs b (A.mulBits (bitsMSB (limbsOf n cof))) = cof • Aff.abs b A := by
  have h := Aff.mulBits_limbs_spec hA n cof
  rwa [Nat.mod_eq_of_lt hcof] at h

/-- … which lies in the order-`r` subgroup IF `cof * r` kills the group of the curve
    (the curve order is kept as an explicit hypothesis) -/
theorem Aff.scaleByCofactor_inSub {A : Aff F} (hA : Aff.OnCurve b A) {n cof : ℕ}
    (hcof : cof < 2 ^ (64 * n)) (hord : ∀ g : (W b).Point, (cof * Gen.r) • g = 0) :
    Jac.InSub b (A.mulBits (bitsMSB (limbsOf n cof))) :=
  ⟨(Aff.scaleByCofactor_spec hA hcof).1, by
    rw [(Aff.scaleByCofactor_spec hA hcof).2]; exact killed_cofactor_nsmul hord _⟩

theorem g1_cofactor_lt : Gen.G1_COFACTOR < 2 ^ (64 * Gen.G1_COFACTOR_LIMBS) := by decide +kernel
theorem g2_cofactor_lt : Gen.G2_COFACTOR < 2 ^ (64 * Gen.G2_COFACTOR_LIMBS) := by decide +kernel

/-- `get_point_from_x` returns a finite point of the curve with the requested abscissa -/
theorem Aff.getPointFromX_spec [SqrtOps F] [LawfulSqrtOps F] {x : F} {greatest : Bool} {p : Aff F}
    (h : Aff.getPointFromX b x greatest = some p) :
    Aff.OnCurve b p ∧ p.infinity = false ∧ p.x = x := by
  unfold Aff.getPointFromX at h
  simp only [LawfulFieldOps.sq_eq] at h
  split at h
  · cases h
  · next y hy =>
    have hyy : y * y = x * x * x + b := LawfulSqrtOps.sqrt_sound _ _ hy
    simp only [Option.some.injEq] at h
    subst h
    refine ⟨Or.inr ?_, rfl, rfl⟩
    simp only
    split
    · rw [← show y * y = y ^ 2 by ring, hyy]; ring
    · rw [neg_sq, ← show y * y = y ^ 2 by ring, hyy]; ring

end curve

end PP
