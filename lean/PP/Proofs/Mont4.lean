/-
C08, bridge: the Montgomery-level model (`PP.Mont`, raw values) refines the canonical-level model
`Zp p` (`PP.Model.Fp`, integers modulo `p`): decoding `toZp` commutes with every operation.
-/
import PP.Proofs.ZpField
import PP.Proofs.Mont2

namespace PP.Mont

theorem Zp_ext {p : ℕ} {a b : Zp p} (h : a.v = b.v) : a = b := by
  cases a; cases b; simp_all

section bridge
variable {P : Params} [PosNat P.p]

/-- the canonical-level element denoted by a raw Montgomery value -/
def toZp (P : Params) [PosNat P.p] (a : ℕ) : Zp P.p := Zp.ofNat (dec P a)

theorem toZp_v (h : P.WF) (a : ℕ) : (toZp P a).v = dec P a := by
  simp [toZp, Zp.ofNat, Nat.mod_eq_of_lt (dec_lt h a)]

theorem toZp_zero : toZp P 0 = 0 := by
  show Zp.ofNat (dec P 0) = Zp.ofNat 0; rw [dec_zero]

/-- `Fq::one()` is the raw constant `R` -/
theorem toZp_R (h : P.WF) : toZp P P.R = 1 := by
  show Zp.ofNat (dec P P.R) = Zp.ofNat 1
  have : dec P P.R = 1 % P.p := by
    have := dec_enc h 1
    unfold enc at this
    rw [one_mul, ← h.R_spec] at this
    exact this
  rw [this]; apply Zp_ext; simp [Zp.ofNat]

theorem toZp_inj (h : P.WF) {a b : ℕ} (ha : a < P.p) (hb : b < P.p) (hab : toZp P a = toZp P b) :
    a = b := by
  have := congrArg Zp.v hab
  rw [toZp_v h, toZp_v h] at this
  exact dec_inj h ha hb this

theorem toZp_surj (h : P.WF) (z : Zp P.p) : ∃ a, a < P.p ∧ toZp P a = z := by
  refine ⟨enc P z.v, enc_lt h _, ?_⟩
  apply Zp_ext
  rw [toZp_v h, dec_enc h, Nat.mod_eq_of_lt z.h]

theorem toZp_add (h : P.WF) {a b : ℕ} (ha : a < P.p) (hb : b < P.p) :
    toZp P (add P a b) = toZp P a + toZp P b := by
  show Zp.ofNat (dec P (add P a b)) = Zp.ofNat ((toZp P a).v + (toZp P b).v)
  rw [toZp_v h, toZp_v h, dec_add h ha hb]; apply Zp_ext; simp [Zp.ofNat]

theorem toZp_double (h : P.WF) {a : ℕ} (ha : a < P.p) :
    toZp P (double P a) = dbl (toZp P a) := by
  show Zp.ofNat (dec P (double P a)) = Zp.ofNat ((toZp P a).v + (toZp P a).v)
  rw [toZp_v h, dec_double h ha, two_mul]; apply Zp_ext; simp [Zp.ofNat]

theorem toZp_sub (h : P.WF) {a b : ℕ} (ha : a < P.p) (hb : b < P.p) :
    toZp P (sub P a b) = toZp P a - toZp P b := by
  show Zp.ofNat (dec P (sub P a b)) = Zp.ofNat ((toZp P a).v + (P.p - (toZp P b).v))
  have := dec_lt h b
  rw [toZp_v h, toZp_v h, dec_sub h ha hb, show dec P a + P.p - dec P b = dec P a + (P.p - dec P b) by omega]
  apply Zp_ext; simp [Zp.ofNat]

theorem toZp_neg (h : P.WF) {a : ℕ} (ha : a < P.p) :
    toZp P (neg P a) = - toZp P a := by
  show Zp.ofNat (dec P (neg P a)) = Zp.ofNat (P.p - (toZp P a).v)
  rw [toZp_v h, dec_neg h ha]; apply Zp_ext; simp [Zp.ofNat]

theorem toZp_mul (h : P.WF) {a b : ℕ} (ha : a < P.p) (hb : b < P.p) :
    toZp P (mul P a b) = toZp P a * toZp P b := by
  show Zp.ofNat (dec P (mul P a b)) = Zp.ofNat ((toZp P a).v * (toZp P b).v)
  rw [toZp_v h, toZp_v h, dec_mul h ha hb]; apply Zp_ext; simp [Zp.ofNat]

theorem toZp_square (h : P.WF) {a : ℕ} (ha : a < P.p) :
    toZp P (square P a) = sq (toZp P a) := toZp_mul h ha ha

theorem toZp_pow (h : P.WF) {a : ℕ} (ha : a < P.p) (ls : List ℕ) (hok : ∀ l ∈ ls, l < 2 ^ 64) :
    toZp P (pow P a ls) = toZp P a ^ limbsToNat ls := by
  show Zp.ofNat (dec P (pow P a ls)) = Zp.ofNat ((toZp P a).v ^ limbsToNat ls)
  rw [toZp_v h, (pow_spec h ha ls hok).2]; apply Zp_ext; simp [Zp.ofNat]

theorem toZp_fromRepr (h : P.WF) {x a : ℕ} (hx : fromRepr P x = some a) :
    toZp P a = Zp.ofNat x ∧ (toZp P a).v = x := by
  obtain ⟨h1, _, _, h4⟩ := fromRepr_spec h hx
  refine ⟨by unfold toZp; rw [h4], by rw [toZp_v h, h4]⟩

theorem intoRepr_eq_v (h : P.WF) {a : ℕ} (ha : a < P.p) : intoRepr P a = (toZp P a).v := by
  rw [toZp_v h, (intoRepr_spec h ha).2.2]

/-- `is_zero` on the raw value is the canonical zero test -/
theorem toZp_isZero (h : P.WF) {a : ℕ} (ha : a < P.p) :
    Zp.isZero (toZp P a) = decide (a = 0) := by
  unfold Zp.isZero
  rw [toZp_v h]
  by_cases h0 : a = 0
  · subst h0; simp [dec_zero]
  · have : dec P a ≠ 0 := fun hd => h0 ((eq_zero_iff_dec_eq_zero h ha).mpr hd)
    simp [h0, this]

/-- `Ord`: comparing `into_repr()` values is comparing canonical integers -/
theorem toZp_lt (h : P.WF) {a b : ℕ} (ha : a < P.p) (hb : b < P.p) :
    Zp.lt (toZp P a) (toZp P b) = decide (intoRepr P a < intoRepr P b) := by
  unfold Zp.lt
  rw [intoRepr_eq_v h ha, intoRepr_eq_v h hb]

/-- `inverse` never runs out of fuel and agrees with the canonical-level `Zp.inv`
    (`none` exactly for zero) -/
theorem toZp_inverse (h : P.WF) (hp : Nat.Prime P.p) {a : ℕ} (ha : a < P.p) :
    ∃ o, inverse P a = some o ∧ o.map (toZp P) = Zp.inv (toZp P a) ∧ ∀ b ∈ o, b < P.p := by
  have : Fact P.p.Prime := ⟨hp⟩
  by_cases h0 : a = 0
  · subst h0
    refine ⟨none, (inverse_eq_some_none_iff P 0).mpr rfl, ?_, by simp⟩
    unfold Zp.inv
    rw [toZp_v h, dec_zero]; simp
  · obtain ⟨b, hb1, hb2, hb3⟩ := inverse_spec h hp ha h0
    refine ⟨some b, hb1, ?_, by simpa using hb2⟩
    have hd : dec P a ≠ 0 := fun hd => h0 ((eq_zero_iff_dec_eq_zero h ha).mpr hd)
    have hv : (toZp P a).v ≠ 0 := by rw [toZp_v h]; exact hd
    unfold Zp.inv
    simp only [hv, if_false, Option.map_some, Option.some.injEq]
    apply Zp.toZ_injective
    rw [Zp.toZ_inv_some _ hv]
    have e1 : Zp.toZ (toZp P a) = (dec P a : ZMod P.p) := by simp [Zp.toZ, toZp_v h]
    have e2 : Zp.toZ (toZp P b) = (dec P b : ZMod P.p) := by simp [Zp.toZ, toZp_v h]
    rw [e1, e2]
    have hc : ((dec P a * dec P b % P.p : ℕ) : ZMod P.p) = ((1 : ℕ) : ZMod P.p) := by rw [hb3]
    rw [ZMod.natCast_mod] at hc
    push_cast at hc
    exact eq_inv_of_mul_eq_one_right hc

end bridge

end PP.Mont
