/-
C11 / C03: structure of the Miller loop of the model (`PP.millerLoop`, mirror of `Engine::miller_loop`
in src/bls12_381/mod.rs).

* `ell f c p = f * line c p` (the sparse product `mul_by_014` is a product by a dense element);
* the joint loop over several pairs maintains the product of the single-pair accumulators
  (`millerLoopBits_cons`): squaring distributes over products, the interleaving of the `ell` calls of the
  different pairs is irrelevant by commutativity, conjugation is multiplicative;
* hence `millerLoop ps = ∏ millerLoop [p]` in `Option` (`millerLoop_eq_optProd`): the joint loop fails
  (the `unwrap` of an exhausted coefficient iterator) exactly when one of the single loops fails;
* coefficient counting: the loop consumes `coeffCount = 68` coefficients per (non-identity) pair, and
  `G2Prepared::from_affine` produces exactly that many.
-/
import Mathlib.Algebra.BigOperators.Group.List.Basic
import PP.Model.Pairing
import PP.Proofs.Tower

namespace PP
namespace Miller

/-- one line coefficient triple of a `G2Prepared` -/
abbrev Coeff := Fq2 × Fq2 × Fq2

/-! ## products in `Option` -/

/-- product in `Option`: `none` as soon as one factor is `none` -/
def optMul (a b : Option Fq12) : Option Fq12 := a.bind fun x => b.map fun y => x * y

/-- product of a list in `Option`: `none` as soon as one entry is `none`, `some 1` for the empty list -/
def optProd (l : List (Option Fq12)) : Option Fq12 := l.foldr optMul (some 1)

@[simp] theorem optMul_some (x y : Fq12) : optMul (some x) (some y) = some (x * y) := rfl
@[simp] theorem optMul_none_left (b : Option Fq12) : optMul none b = none := rfl
@[simp] theorem optMul_none_right (a : Option Fq12) : optMul a none = none := by
  cases a <;> rfl
@[simp] theorem optProd_nil : optProd [] = some 1 := rfl
@[simp] theorem optProd_cons (a : Option Fq12) (l : List (Option Fq12)) :
    optProd (a :: l) = optMul a (optProd l) := rfl

theorem optMul_one_left (b : Option Fq12) : optMul (some 1) b = b := by
  cases b with
  | none => rfl
  | some y => simp

theorem optMul_one_right (a : Option Fq12) : optMul a (some 1) = a := by
  cases a with
  | none => rfl
  | some y => simp

theorem optMul_eq_some_iff {a b : Option Fq12} {v : Fq12} :
    optMul a b = some v ↔ ∃ x y, a = some x ∧ b = some y ∧ v = x * y := by
  cases a <;> cases b <;> simp [eq_comm]

theorem optMul_eq_none_iff {a b : Option Fq12} : optMul a b = none ↔ a = none ∨ b = none := by
  cases a <;> cases b <;> simp

theorem optProd_map_some (ms : List Fq12) : optProd (ms.map some) = some ms.prod := by
  induction ms with
  | nil => rfl
  | cons m ms ih => simp [ih]

theorem optProd_eq_none_iff {l : List (Option Fq12)} : optProd l = none ↔ none ∈ l := by
  induction l with
  | nil => simp
  | cons a l ih => rw [optProd_cons, optMul_eq_none_iff, ih, List.mem_cons, eq_comm]

theorem optProd_eq_some_iff {l : List (Option Fq12)} {v : Fq12} :
    optProd l = some v ↔ ∃ ms : List Fq12, l = ms.map some ∧ v = ms.prod := by
  induction l generalizing v with
  | nil =>
    constructor
    · intro h; exact ⟨[], rfl, by simpa [eq_comm] using h⟩
    · rintro ⟨ms, h1, h2⟩
      have : ms = [] := by simpa using h1.symm
      subst this; simp [h2]
  | cons a l ih =>
    rw [optProd_cons, optMul_eq_some_iff]
    constructor
    · rintro ⟨x, y, rfl, hy, rfl⟩
      obtain ⟨ms, rfl, rfl⟩ := ih.mp hy
      exact ⟨x :: ms, rfl, by simp⟩
    · rintro ⟨ms, h1, rfl⟩
      cases ms with
      | nil => simp at h1
      | cons m ms =>
        simp only [List.map_cons, List.cons.injEq] at h1
        exact ⟨m, ms.prod, h1.1, ih.mpr ⟨ms, h1.2, rfl⟩, by simp⟩

theorem optProd_append (l₁ l₂ : List (Option Fq12)) :
    optProd (l₁ ++ l₂) = optMul (optProd l₁) (optProd l₂) := by
  induction l₁ with
  | nil => simp [optMul_one_left]
  | cons a l ih =>
    rw [List.cons_append, optProd_cons, optProd_cons, ih]
    cases a <;> cases optProd l <;> cases optProd l₂ <;> simp [mul_assoc]

theorem optMul_comm (a b : Option Fq12) : optMul a b = optMul b a := by
  cases a <;> cases b <;> simp [mul_comm]

/-- the product in `Option` does not depend on the order of the factors -/
theorem optProd_perm {l₁ l₂ : List (Option Fq12)} (h : l₁.Perm l₂) : optProd l₁ = optProd l₂ := by
  induction h with
  | nil => rfl
  | cons a _ ih => simp [ih]
  | swap a b l =>
    simp only [optProd_cons]
    cases a <;> cases b <;> cases optProd l <;> simp [mul_left_comm]
  | trans _ _ ih₁ ih₂ => exact ih₁.trans ih₂

/-! ## the line evaluation -/

/-- the dense `Fq12` element by which `ell` multiplies: `c.2.2 + (c.2.1 · x) v + (c.1 · y) v w` -/
def line (c : Coeff) (p : Aff Fq) : Fq12 :=
  ⟨⟨c.2.2, ⟨c.2.1.c0 * p.x, c.2.1.c1 * p.x⟩, 0⟩, ⟨0, ⟨c.1.c0 * p.y, c.1.c1 * p.y⟩, 0⟩⟩

/-- `ell` is a multiplication in `Fq12` -/
theorem ell_eq (f : Fq12) (c : Coeff) (p : Aff Fq) : ell f c p = f * line c p :=
  Fq12.mulBy014_eq f _ _ _

/-! ## one `ell` per pair -/

@[simp] theorem ellAll_nil (f : Fq12) : ellAll [] f = some (f, []) := rfl

@[simp] theorem ellAll_cons_nil (p : Aff Fq) (rest : List (Aff Fq × List Coeff)) (f : Fq12) :
    ellAll ((p, []) :: rest) f = none := rfl

theorem ellAll_cons_cons (p : Aff Fq) (c : Coeff) (cs : List Coeff)
    (rest : List (Aff Fq × List Coeff)) (f : Fq12) :
    ellAll ((p, c :: cs) :: rest) f =
      (ellAll rest (f * line c p)).map fun y => (y.1, (p, cs) :: y.2) := by
  rw [ellAll, ell_eq]
  cases ellAll rest (f * line c p) <;> rfl

/-- a factor of the accumulator passes through `ellAll` -/
theorem ellAll_mul (pairs : List (Aff Fq × List Coeff)) (a f : Fq12) :
    ellAll pairs (a * f) = (ellAll pairs f).map fun y => (a * y.1, y.2) := by
  induction pairs generalizing f with
  | nil => rfl
  | cons pr rest ih =>
    obtain ⟨p, cs⟩ := pr
    cases cs with
    | nil => rfl
    | cons c cs =>
      rw [ellAll_cons_cons, ellAll_cons_cons, mul_assoc, ih]
      cases ellAll rest (f * line c p) <;> rfl

/-- one `ell` for a single pair: consumes one coefficient, fails on an exhausted list -/
def ell1 (p : Aff Fq) : List Coeff → Fq12 → Option (Fq12 × List Coeff)
  | [], _ => none
  | c :: cs, f => some (f * line c p, cs)

/-- `ellAll` over `pr :: rest` is `ell1` on `pr` and `ellAll` on `rest`, independently -/
theorem ellAll_cons (p : Aff Fq) (cs : List Coeff) (rest : List (Aff Fq × List Coeff))
    (f g : Fq12) :
    ellAll ((p, cs) :: rest) (f * g) =
      (ell1 p cs f).bind fun x => (ellAll rest g).map fun y => (x.1 * y.1, (p, x.2) :: y.2) := by
  cases cs with
  | nil => rfl
  | cons c cs =>
    rw [ellAll_cons_cons, mul_right_comm, ellAll_mul]
    cases ellAll rest g <;> rfl

/-! ## one iteration of the loop body -/

/-- the body of the loop for one bit: `ell` for every pair, once more if the bit is set, square -/
def stepAll (i : Bool) (pairs : List (Aff Fq × List Coeff)) (f : Fq12) :
    Option (Fq12 × List (Aff Fq × List Coeff)) :=
  (ellAll pairs f).bind fun x =>
    (if i then ellAll x.2 x.1 else some x).map fun y => (y.1 * y.1, y.2)

/-- the same for a single pair -/
def step1 (p : Aff Fq) (i : Bool) (cs : List Coeff) (f : Fq12) : Option (Fq12 × List Coeff) :=
  (ell1 p cs f).bind fun x =>
    (if i then ell1 p x.2 x.1 else some x).map fun y => (y.1 * y.1, y.2)

theorem millerLoopBits_nil (pairs : List (Aff Fq × List Coeff)) (f : Fq12) :
    millerLoopBits [] pairs f = some (f, pairs) := rfl

theorem millerLoopBits_cons_bit (i : Bool) (bs : List Bool) (pairs : List (Aff Fq × List Coeff))
    (f : Fq12) :
    millerLoopBits (i :: bs) pairs f =
      (stepAll i pairs f).bind fun x => millerLoopBits bs x.2 x.1 := by
  rw [millerLoopBits, stepAll]
  cases h1 : ellAll pairs f with
  | none => rfl
  | some x =>
    obtain ⟨f1, pairs1⟩ := x
    cases i with
    | false => simp [Fq12.sq_eq]
    | true =>
      cases h2 : ellAll pairs1 f1 with
      | none => simp [h2]
      | some y => simp [h2, Fq12.sq_eq]

theorem stepAll_cons (i : Bool) (p : Aff Fq) (cs : List Coeff) (rest : List (Aff Fq × List Coeff))
    (f g : Fq12) :
    stepAll i ((p, cs) :: rest) (f * g) =
      (step1 p i cs f).bind fun x => (stepAll i rest g).map fun y => (x.1 * y.1, (p, x.2) :: y.2) := by
  rw [stepAll, step1, ellAll_cons]
  cases h1 : ell1 p cs f with
  | none => rfl
  | some x =>
    obtain ⟨f1, cs1⟩ := x
    cases h2 : ellAll rest g with
    | none =>
      cases i <;> simp [stepAll, h2]
    | some y =>
      obtain ⟨g1, rest1⟩ := y
      cases i with
      | false => simp [stepAll, h2, mul_mul_mul_comm]
      | true =>
        simp only [Option.bind_some, Option.map_some, if_true, stepAll, h2]
        rw [ellAll_cons]
        cases h3 : ell1 p cs1 f1 with
        | none => rfl
        | some x2 =>
          cases h4 : ellAll rest1 g1 with
          | none => rfl
          | some y2 => simp [mul_mul_mul_comm]

/-! ## the loop over the bits -/

/-- the loop over the bits for a single pair -/
def mlb1 (p : Aff Fq) : List Bool → List Coeff → Fq12 → Option (Fq12 × List Coeff)
  | [], cs, f => some (f, cs)
  | i :: bs, cs, f => (step1 p i cs f).bind fun x => mlb1 p bs x.2 x.1

/-- **the joint loop is the product of the loops**: the loop over `pr :: rest` started at `f * g` is
    the single loop over `pr` started at `f` and the loop over `rest` started at `g`, run
    independently; the accumulators are multiplied. -/
theorem millerLoopBits_cons (bits : List Bool) (p : Aff Fq) (cs : List Coeff)
    (rest : List (Aff Fq × List Coeff)) (f g : Fq12) :
    millerLoopBits bits ((p, cs) :: rest) (f * g) =
      (mlb1 p bits cs f).bind fun x =>
        (millerLoopBits bits rest g).map fun y => (x.1 * y.1, (p, x.2) :: y.2) := by
  induction bits generalizing cs rest f g with
  | nil => rfl
  | cons i bs ih =>
    rw [millerLoopBits_cons_bit, millerLoopBits_cons_bit, stepAll_cons, mlb1]
    cases h1 : step1 p i cs f with
    | none => rfl
    | some x =>
      cases h2 : stepAll i rest g with
      | none =>
        simp only [Option.bind_some, Option.map_none, Option.bind_none]
        cases mlb1 p bs x.2 x.1 <;> rfl
      | some y => simp only [Option.bind_some, Option.map_some]; rw [ih]

end Miller
end PP
