/-
C11 / C03: structure of the Miller loop of the model (`PP.millerLoop`, mirror of `Engine::miller_loop`
in src/bls12_381/mod.rs).

* `ell f c p = f * line c p` (the sparse product `mul_by_014` is a product by a dense element);
* the joint loop over several pairs maintains the product of the single-pair accumulators
  (`millerLoopBits_cons`): squaring distributes over products, the interleaving of the `ell` calls of the
  different pairs is irrelevant by commutativity, conjugation is multiplicative;
* hence `millerLoop ps = ∏ millerLoop [p]` in `Option` (`millerLoop_eq_optProd`): the joint loop fails
  (the `unwrap` of an exhausted coefficient iterator) exactly when one of the single loops fails;
* coefficient counting: the loop consumes `coeffCount = 68` coefficients per (non-identity) pair, and
  `G2Prepared::from_affine` produces exactly that many.
-/
import Mathlib.Algebra.BigOperators.Group.List.Basic
import PP.Model.Pairing
import PP.Proofs.Tower
import PP.Proofs.FinalExp

namespace PP
namespace Miller

/-- one line coefficient triple of a `G2Prepared` -/
abbrev Coeff := Fq2 × Fq2 × Fq2

/-! ## products in `Option` -/

/-- product in `Option`: `none` as soon as one factor is `none` -/
def optMul (a b : Option Fq12) : Option Fq12 := a.bind fun x => b.map fun y => x * y

/-- product of a list in `Option`: `none` as soon as one entry is `none`, `some 1` for the empty list -/
def optProd (l : List (Option Fq12)) : Option Fq12 := l.foldr optMul (some 1)

@[simp] theorem optMul_some (x y : Fq12) : optMul (some x) (some y) = some (x * y) := rfl
@[simp] theorem optMul_none_left (b : Option Fq12) : optMul none b = none := rfl
@[simp] theorem optMul_none_right (a : Option Fq12) : optMul a none = none := by
  cases a <;> rfl
@[simp] theorem optProd_nil : optProd [] = some 1 := rfl
@[simp] theorem optProd_cons (a : Option Fq12) (l : List (Option Fq12)) :
    optProd (a :: l) = optMul a (optProd l) := rfl

theorem optMul_one_left (b : Option Fq12) : optMul (some 1) b = b := by
  cases b with
  | none => rfl
  | some y => simp

theorem optMul_one_right (a : Option Fq12) : optMul a (some 1) = a := by
  cases a with
  | none => rfl
  | some y => simp

theorem optMul_eq_some_iff {a b : Option Fq12} {v : Fq12} :
    optMul a b = some v ↔ ∃ x y, a = some x ∧ b = some y ∧ v = x * y := by
  cases a <;> cases b <;> simp [eq_comm]

theorem optMul_eq_none_iff {a b : Option Fq12} : optMul a b = none ↔ a = none ∨ b = none := by
  cases a <;> cases b <;> simp

theorem optProd_map_some (ms : List Fq12) : optProd (ms.map some) = some ms.prod := by
  induction ms with
  | nil => rfl
  | cons m ms ih => simp [ih]

theorem optProd_eq_none_iff {l : List (Option Fq12)} : optProd l = none ↔ none ∈ l := by
  induction l with
  | nil => simp
  | cons a l ih => rw [optProd_cons, optMul_eq_none_iff, ih, List.mem_cons, eq_comm]

theorem optProd_eq_some_iff {l : List (Option Fq12)} {v : Fq12} :
    optProd l = some v ↔ ∃ ms : List Fq12, l = ms.map some ∧ v = ms.prod := by
  induction l generalizing v with
  | nil =>
    constructor
    · intro h; exact ⟨[], rfl, by simpa [eq_comm] using h⟩
    · rintro ⟨ms, h1, h2⟩
      have : ms = [] := by simpa using h1.symm
      subst this; simp [h2]
  | cons a l ih =>
    rw [optProd_cons, optMul_eq_some_iff]
    constructor
    · rintro ⟨x, y, rfl, hy, rfl⟩
      obtain ⟨ms, rfl, rfl⟩ := ih.mp hy
      exact ⟨x :: ms, rfl, by simp⟩
    · rintro ⟨ms, h1, rfl⟩
      cases ms with
      | nil => simp at h1
      | cons m ms =>
        simp only [List.map_cons, List.cons.injEq] at h1
        exact ⟨m, ms.prod, h1.1, ih.mpr ⟨ms, h1.2, rfl⟩, by simp⟩

theorem optProd_append (l₁ l₂ : List (Option Fq12)) :
    optProd (l₁ ++ l₂) = optMul (optProd l₁) (optProd l₂) := by
  induction l₁ with
  | nil => simp [optMul_one_left]
  | cons a l ih =>
    rw [List.cons_append, optProd_cons, optProd_cons, ih]
    cases a <;> cases optProd l <;> cases optProd l₂ <;> simp [mul_assoc]

theorem optMul_comm (a b : Option Fq12) : optMul a b = optMul b a := by
  cases a <;> cases b <;> simp [mul_comm]

/-- the product in `Option` does not depend on the order of the factors -/
theorem optProd_perm {l₁ l₂ : List (Option Fq12)} (h : l₁.Perm l₂) : optProd l₁ = optProd l₂ := by
  induction h with
  | nil => rfl
  | cons a _ ih => simp [ih]
  | swap a b l =>
    simp only [optProd_cons]
    cases a <;> cases b <;> cases optProd l <;> simp [mul_left_comm]
  | trans _ _ ih₁ ih₂ => exact ih₁.trans ih₂

/-! ## the line evaluation -/

/-- the dense `Fq12` element by which `ell` multiplies: `c.2.2 + (c.2.1 · x) v + (c.1 · y) v w` -/
def line (c : Coeff) (p : Aff Fq) : Fq12 :=
  ⟨⟨c.2.2, ⟨c.2.1.c0 * p.x, c.2.1.c1 * p.x⟩, 0⟩, ⟨0, ⟨c.1.c0 * p.y, c.1.c1 * p.y⟩, 0⟩⟩

/-- `ell` is a multiplication in `Fq12` -/
theorem ell_eq (f : Fq12) (c : Coeff) (p : Aff Fq) : ell f c p = f * line c p :=
  Fq12.mulBy014_eq f _ _ _

/-! ## one `ell` per pair -/

@[simp] theorem ellAll_nil (f : Fq12) : ellAll [] f = some (f, []) := rfl

@[simp] theorem ellAll_cons_nil (p : Aff Fq) (rest : List (Aff Fq × List Coeff)) (f : Fq12) :
    ellAll ((p, []) :: rest) f = none := rfl

theorem ellAll_cons_cons (p : Aff Fq) (c : Coeff) (cs : List Coeff)
    (rest : List (Aff Fq × List Coeff)) (f : Fq12) :
    ellAll ((p, c :: cs) :: rest) f =
      (ellAll rest (f * line c p)).map fun y => (y.1, (p, cs) :: y.2) := by
  rw [ellAll, ell_eq]
  cases ellAll rest (f * line c p) <;> rfl

/-- a factor of the accumulator passes through `ellAll` -/
theorem ellAll_mul (pairs : List (Aff Fq × List Coeff)) (a f : Fq12) :
    ellAll pairs (a * f) = (ellAll pairs f).map fun y => (a * y.1, y.2) := by
  induction pairs generalizing f with
  | nil => rfl
  | cons pr rest ih =>
    obtain ⟨p, cs⟩ := pr
    cases cs with
    | nil => rfl
    | cons c cs =>
      rw [ellAll_cons_cons, ellAll_cons_cons, mul_assoc, ih]
      cases ellAll rest (f * line c p) <;> rfl

/-- one `ell` for a single pair: consumes one coefficient, fails on an exhausted list -/
def ell1 (p : Aff Fq) : List Coeff → Fq12 → Option (Fq12 × List Coeff)
  | [], _ => none
  | c :: cs, f => some (f * line c p, cs)

/-- `ellAll` over `pr :: rest` is `ell1` on `pr` and `ellAll` on `rest`, independently -/
theorem ellAll_cons (p : Aff Fq) (cs : List Coeff) (rest : List (Aff Fq × List Coeff))
    (f g : Fq12) :
    ellAll ((p, cs) :: rest) (f * g) =
      (ell1 p cs f).bind fun x => (ellAll rest g).map fun y => (x.1 * y.1, (p, x.2) :: y.2) := by
  cases cs with
  | nil => rfl
  | cons c cs =>
    rw [ellAll_cons_cons, mul_right_comm, ellAll_mul]
    cases ellAll rest g <;> rfl

/-! ## one iteration of the loop body -/

/-- the body of the loop for one bit: `ell` for every pair, once more if the bit is set, square -/
def stepAll (i : Bool) (pairs : List (Aff Fq × List Coeff)) (f : Fq12) :
    Option (Fq12 × List (Aff Fq × List Coeff)) :=
  (ellAll pairs f).bind fun x =>
    (if i then ellAll x.2 x.1 else some x).map fun y => (y.1 * y.1, y.2)

/-- the same for a single pair -/
def step1 (p : Aff Fq) (i : Bool) (cs : List Coeff) (f : Fq12) : Option (Fq12 × List Coeff) :=
  (ell1 p cs f).bind fun x =>
    (if i then ell1 p x.2 x.1 else some x).map fun y => (y.1 * y.1, y.2)

theorem millerLoopBits_nil (pairs : List (Aff Fq × List Coeff)) (f : Fq12) :
    millerLoopBits [] pairs f = some (f, pairs) := rfl

theorem millerLoopBits_cons_bit (i : Bool) (bs : List Bool) (pairs : List (Aff Fq × List Coeff))
    (f : Fq12) :
    millerLoopBits (i :: bs) pairs f =
      (stepAll i pairs f).bind fun x => millerLoopBits bs x.2 x.1 := by
  rw [millerLoopBits, stepAll]
  cases h1 : ellAll pairs f with
  | none => rfl
  | some x =>
    obtain ⟨f1, pairs1⟩ := x
    cases i with
    | false => simp
    | true =>
      cases h2 : ellAll pairs1 f1 with
      | none => simp [h2]
      | some y => simp [h2]

theorem stepAll_cons (i : Bool) (p : Aff Fq) (cs : List Coeff) (rest : List (Aff Fq × List Coeff))
    (f g : Fq12) :
    stepAll i ((p, cs) :: rest) (f * g) =
      (step1 p i cs f).bind fun x => (stepAll i rest g).map fun y => (x.1 * y.1, (p, x.2) :: y.2) := by
  rw [stepAll, step1, ellAll_cons]
  cases h1 : ell1 p cs f with
  | none => rfl
  | some x =>
    obtain ⟨f1, cs1⟩ := x
    cases h2 : ellAll rest g with
    | none =>
      cases i <;> simp [stepAll, h2]
    | some y =>
      obtain ⟨g1, rest1⟩ := y
      cases i with
      | false => simp [stepAll, h2, mul_mul_mul_comm]
      | true =>
        simp only [Option.bind_some, Option.map_some, if_true, stepAll, h2]
        rw [ellAll_cons]
        cases h3 : ell1 p cs1 f1 with
        | none => rfl
        | some x2 =>
          cases h4 : ellAll rest1 g1 with
          | none => rfl
          | some y2 => simp [mul_mul_mul_comm]

/-! ## the loop over the bits -/

/-- the loop over the bits for a single pair -/
def mlb1 (p : Aff Fq) : List Bool → List Coeff → Fq12 → Option (Fq12 × List Coeff)
  | [], cs, f => some (f, cs)
  | i :: bs, cs, f => (step1 p i cs f).bind fun x => mlb1 p bs x.2 x.1

/-- **the joint loop is the product of the loops**: the loop over `pr :: rest` started at `f * g` is
    the single loop over `pr` started at `f` and the loop over `rest` started at `g`, run
    independently; the accumulators are multiplied. -/
theorem millerLoopBits_cons (bits : List Bool) (p : Aff Fq) (cs : List Coeff)
    (rest : List (Aff Fq × List Coeff)) (f g : Fq12) :
    millerLoopBits bits ((p, cs) :: rest) (f * g) =
      (mlb1 p bits cs f).bind fun x =>
        (millerLoopBits bits rest g).map fun y => (x.1 * y.1, (p, x.2) :: y.2) := by
  induction bits generalizing cs rest f g with
  | nil => rfl
  | cons i bs ih =>
    rw [millerLoopBits_cons_bit, millerLoopBits_cons_bit, stepAll_cons, mlb1]
    cases h1 : step1 p i cs f with
    | none => rfl
    | some x =>
      cases h2 : stepAll i rest g with
      | none =>
        simp only [Option.bind_some, Option.map_none, Option.bind_none]
        cases mlb1 p bs x.2 x.1 <;> rfl
      | some y => simp only [Option.bind_some, Option.map_some]; rw [ih]

theorem millerLoopBits_empty (bits : List Bool) : millerLoopBits bits [] 1 = some (1, []) := by
  induction bits with
  | nil => rfl
  | cons i bs ih =>
    rw [millerLoopBits_cons_bit]
    cases i <;> simpa [stepAll] using ih

/-- the model's loop on a one-element list is the single-pair loop -/
theorem millerLoopBits_single (bits : List Bool) (p : Aff Fq) (cs : List Coeff) (f : Fq12) :
    millerLoopBits bits [(p, cs)] f = (mlb1 p bits cs f).map fun x => (x.1, [(p, x.2)]) := by
  have h := millerLoopBits_cons bits p cs [] f 1
  rw [mul_one, millerLoopBits_empty] at h
  rw [h]
  cases mlb1 p bits cs f <;> simp

/-! ## the whole Miller loop on filtered pairs -/

/-- the Miller loop after the filtering of the identity pairs: the loop over the bits, the last `ell`,
    the conjugation (`BLS_X_IS_NEGATIVE`) -/
def core (pairs : List (Aff Fq × List Coeff)) : Option Fq12 :=
  (millerLoopBits blsXBits pairs 1).bind fun x => (ellAll x.2 x.1).map fun y => y.1.conjugate

/-- the same for a single pair -/
def core1 (p : Aff Fq) (cs : List Coeff) : Option Fq12 :=
  (mlb1 p blsXBits cs 1).bind fun x => (ell1 p x.2 x.1).map fun y => y.1.conjugate

/-- the pairs that survive the filter of `miller_loop` -/
def live (ps : List (Aff Fq × G2Prepared)) : List (Aff Fq × List Coeff) :=
  (ps.filter fun pq => !pq.1.infinity && !pq.2.infinity).map fun pq => (pq.1, pq.2.coeffs)

theorem millerLoop_eq_core (ps : List (Aff Fq × G2Prepared)) : millerLoop ps = core (live ps) := by
  unfold millerLoop core live
  have hneg : Gen.BLS_X_IS_NEGATIVE = true := rfl
  simp only [hneg, if_true]
  generalize millerLoopBits blsXBits _ 1 = o
  cases o with
  | none => rfl
  | some x =>
    show (ellAll x.2 x.1 >>= fun y => pure y.1.conjugate) =
      Option.map (fun y => y.1.conjugate) (ellAll x.2 x.1)
    cases ellAll x.2 x.1 <;> rfl

theorem core_nil : core [] = some 1 := by
  unfold core
  rw [millerLoopBits_empty]
  simp [Fq12.conjugate_one]

theorem core_cons (p : Aff Fq) (cs : List Coeff) (rest : List (Aff Fq × List Coeff)) :
    core ((p, cs) :: rest) = optMul (core1 p cs) (core rest) := by
  have h := millerLoopBits_cons blsXBits p cs rest 1 1
  rw [one_mul] at h
  unfold core core1
  rw [h]
  cases h1 : mlb1 p blsXBits cs 1 with
  | none => rfl
  | some x =>
    cases h2 : millerLoopBits blsXBits rest 1 with
    | none => simp
    | some y =>
      simp only [Option.bind_some, Option.map_some]
      rw [ellAll_cons]
      cases h3 : ell1 p x.2 x.1 with
      | none => rfl
      | some x2 =>
        cases h4 : ellAll y.2 y.1 with
        | none => simp
        | some y2 => simp [Fq12.conjugate_mul]

theorem core_single (p : Aff Fq) (cs : List Coeff) : core [(p, cs)] = core1 p cs := by
  rw [core_cons, core_nil, optMul_one_right]

/-- the contribution of one prepared pair: `1` if a member is the identity -/
def single (pq : Aff Fq × G2Prepared) : Option Fq12 :=
  if pq.1.infinity || pq.2.infinity then some 1 else core1 pq.1 pq.2.coeffs

theorem live_cons (pq : Aff Fq × G2Prepared) (ps : List (Aff Fq × G2Prepared)) :
    live (pq :: ps) =
      if pq.1.infinity || pq.2.infinity then live ps else (pq.1, pq.2.coeffs) :: live ps := by
  unfold live
  rw [List.filter_cons]
  cases pq.1.infinity <;> cases pq.2.infinity <;> simp

theorem millerLoop_single (pq : Aff Fq × G2Prepared) : millerLoop [pq] = single pq := by
  rw [millerLoop_eq_core, live_cons, single]
  split
  · exact core_nil
  · exact core_single _ _

theorem millerLoop_nil : millerLoop [] = some 1 := by
  rw [millerLoop_eq_core]; exact core_nil

theorem millerLoop_cons (pq : Aff Fq × G2Prepared) (ps : List (Aff Fq × G2Prepared)) :
    millerLoop (pq :: ps) = optMul (millerLoop [pq]) (millerLoop ps) := by
  rw [millerLoop_single, millerLoop_eq_core, millerLoop_eq_core, live_cons, single]
  split
  · rw [optMul_one_left]
  · rw [core_cons]

/-- **the joint Miller loop is the product of the individual Miller loops**, in `Option`: it fails
    exactly when one of them fails -/
theorem millerLoop_eq_optProd (ps : List (Aff Fq × G2Prepared)) :
    millerLoop ps = optProd (ps.map fun pq => millerLoop [pq]) := by
  induction ps with
  | nil => exact millerLoop_nil
  | cons pq ps ih => rw [millerLoop_cons, ih]; rfl

/-! ## counting coefficients -/

/-- the number of coefficients consumed by the loop over `bits`: one per bit, one more per set bit -/
def need (bits : List Bool) : Nat := bits.length + bits.count true

theorem need_nil : need [] = 0 := rfl
theorem need_cons_false (bs : List Bool) : need (false :: bs) = need bs + 1 := by
  simp [need]; omega
theorem need_cons_true (bs : List Bool) : need (true :: bs) = need bs + 2 := by
  simp [need]; omega

theorem blsXBits_length : blsXBits.length = 62 := by decide
theorem blsXBits_count : blsXBits.count true = 5 := by decide

/-- the number of coefficients consumed per pair by the whole Miller loop -/
def coeffCount : Nat := need blsXBits + 1

theorem coeffCount_eq : coeffCount = 68 := by
  unfold coeffCount need; rw [blsXBits_length, blsXBits_count]

theorem ell1_eq_none_iff (p : Aff Fq) (cs : List Coeff) (f : Fq12) :
    ell1 p cs f = none ↔ cs.length < 1 := by
  cases cs <;> simp [ell1]

theorem ell1_eq_some (p : Aff Fq) (cs : List Coeff) (f : Fq12) (x : Fq12 × List Coeff)
    (h : ell1 p cs f = some x) : x.2 = cs.drop 1 := by
  cases cs with
  | nil => simp [ell1] at h
  | cons c cs => simp only [ell1, Option.some.injEq] at h; subst h; rfl

theorem step1_eq_none_iff (p : Aff Fq) (i : Bool) (cs : List Coeff) (f : Fq12) :
    step1 p i cs f = none ↔ cs.length < need [i] := by
  cases i with
  | false => cases cs <;> simp [step1, ell1, need]
  | true =>
    cases cs with
    | nil => simp [step1, ell1, need]
    | cons c cs => cases cs <;> simp [step1, ell1, need]

theorem step1_eq_some (p : Aff Fq) (i : Bool) (cs : List Coeff) (f : Fq12) (x : Fq12 × List Coeff)
    (h : step1 p i cs f = some x) : x.2 = cs.drop (need [i]) := by
  cases i with
  | false =>
    cases cs with
    | nil => simp [step1, ell1] at h
    | cons c cs => simp [step1, ell1] at h; subst h; simp [need]
  | true =>
    cases cs with
    | nil => simp [step1, ell1] at h
    | cons c cs =>
      cases cs with
      | nil => simp [step1, ell1] at h
      | cons c' cs => simp [step1, ell1] at h; subst h; simp [need]

theorem need_cons (i : Bool) (bs : List Bool) : need (i :: bs) = need [i] + need bs := by
  cases i <;> simp [need] <;> omega

/-- the single loop fails exactly when the coefficient list is too short … -/
theorem mlb1_eq_none_iff (p : Aff Fq) (bits : List Bool) (cs : List Coeff) (f : Fq12) :
    mlb1 p bits cs f = none ↔ cs.length < need bits := by
  induction bits generalizing cs f with
  | nil => simp [mlb1, need]
  | cons i bs ih =>
    rw [mlb1, need_cons]
    cases h : step1 p i cs f with
    | none =>
      have := (step1_eq_none_iff p i cs f).mp h
      simp; omega
    | some x =>
      have h1 : ¬ cs.length < need [i] := by
        rw [← step1_eq_none_iff p i cs f, h]; simp
      have h2 := step1_eq_some p i cs f x h
      rw [Option.bind_some, ih, h2, List.length_drop]
      omega

/-- … and otherwise leaves the remaining coefficients -/
theorem mlb1_eq_some (p : Aff Fq) (bits : List Bool) (cs : List Coeff) (f : Fq12)
    (x : Fq12 × List Coeff) (h : mlb1 p bits cs f = some x) : x.2 = cs.drop (need bits) := by
  induction bits generalizing cs f with
  | nil => simp only [mlb1, Option.some.injEq] at h; subst h; simp [need]
  | cons i bs ih =>
    rw [mlb1] at h
    cases h1 : step1 p i cs f with
    | none => rw [h1] at h; simp at h
    | some y =>
      rw [h1, Option.bind_some] at h
      rw [ih _ _ h, step1_eq_some p i cs f y h1, List.drop_drop, need_cons i bs]

/-- the Miller loop of one pair fails exactly when there are fewer than `coeffCount = 68`
    coefficients -/
theorem core1_eq_none_iff (p : Aff Fq) (cs : List Coeff) :
    core1 p cs = none ↔ cs.length < coeffCount := by
  unfold core1 coeffCount
  cases h : mlb1 p blsXBits cs 1 with
  | none =>
    have := (mlb1_eq_none_iff p blsXBits cs 1).mp h
    simp; omega
  | some x =>
    have h1 : ¬ cs.length < need blsXBits := by
      rw [← mlb1_eq_none_iff p blsXBits cs 1, h]; simp
    have h2 := mlb1_eq_some p blsXBits cs 1 x h
    rw [Option.bind_some, Option.map_eq_none_iff, ell1_eq_none_iff, h2, List.length_drop]
    omega

theorem single_eq_none_iff (pq : Aff Fq × G2Prepared) :
    single pq = none ↔
      pq.1.infinity = false ∧ pq.2.infinity = false ∧ pq.2.coeffs.length < coeffCount := by
  unfold single
  cases pq.1.infinity <;> cases pq.2.infinity <;> simp [core1_eq_none_iff]

/-- **exactly when the Miller loop panics**: some pair without an identity member has fewer than 68
    coefficients -/
theorem millerLoop_eq_none_iff (ps : List (Aff Fq × G2Prepared)) :
    millerLoop ps = none ↔
      ∃ pq ∈ ps, pq.1.infinity = false ∧ pq.2.infinity = false ∧
        pq.2.coeffs.length < coeffCount := by
  rw [millerLoop_eq_optProd, optProd_eq_none_iff, List.mem_map]
  constructor
  · rintro ⟨pq, hm, h⟩
    rw [millerLoop_single] at h
    exact ⟨pq, hm, (single_eq_none_iff pq).mp h⟩
  · rintro ⟨pq, hm, h⟩
    exact ⟨pq, hm, by rw [millerLoop_single]; exact (single_eq_none_iff pq).mpr h⟩

/-! ## `G2Prepared::from_affine` produces exactly `coeffCount` coefficients -/

theorem prepareLoop_length (q : Aff Fq2) (bits : List Bool) (r : Jac Fq2) (acc : List Coeff) :
    (prepareLoop q bits r acc).2.length = acc.length + need bits := by
  induction bits generalizing r acc with
  | nil => simp [prepareLoop, need]
  | cons i bs ih =>
    cases i with
    | false =>
      simp only [prepareLoop, Bool.false_eq_true, if_false]
      rw [ih, need_cons_false]; simp; omega
    | true =>
      simp only [prepareLoop, if_true]
      rw [ih, need_cons_true]; simp; omega

theorem fromAffine_infinity (q : Aff Fq2) : (G2Prepared.fromAffine q).infinity = q.infinity := by
  unfold G2Prepared.fromAffine
  cases q.infinity <;> simp

theorem fromAffine_length (q : Aff Fq2) (h : q.infinity = false) :
    (G2Prepared.fromAffine q).coeffs.length = coeffCount := by
  unfold G2Prepared.fromAffine coeffCount
  simp only [h]
  simp [prepareLoop_length]

theorem fromAffine_length_infinity (q : Aff Fq2) (h : q.infinity = true) :
    (G2Prepared.fromAffine q).coeffs = [] := by
  unfold G2Prepared.fromAffine
  simp [h]

/-! ## Miller loops of pairs prepared by `G2Prepared::from_affine` never panic -/

theorem single_fromAffine_ne_none (p : Aff Fq) (q : Aff Fq2) :
    single (p, G2Prepared.fromAffine q) ≠ none := by
  rw [Ne, single_eq_none_iff]
  rintro ⟨-, h2, h3⟩
  rw [fromAffine_infinity] at h2
  rw [fromAffine_length q h2] at h3
  exact lt_irrefl _ h3

theorem millerLoop_zip_fromAffine_ne_none (ps : List (Aff Fq)) (qs : List (Aff Fq2)) :
    millerLoop (List.zip ps (qs.map G2Prepared.fromAffine)) ≠ none := by
  rw [Ne, millerLoop_eq_none_iff]
  rintro ⟨⟨p, q'⟩, hm, -, h2, h3⟩
  obtain ⟨q, -, rfl⟩ := List.mem_map.mp (List.of_mem_zip hm).2
  rw [fromAffine_infinity] at h2
  rw [fromAffine_length q h2] at h3
  exact lt_irrefl _ h3

/-! ## final exponentiation of products -/

/-- the final exponentiation is multiplicative in `Option` -/
theorem fe_optMul (a b : Option Fq12) :
    (optMul a b).bind finalExponentiation =
      optMul (a.bind finalExponentiation) (b.bind finalExponentiation) := by
  cases a with
  | none => simp only [optMul_none_left, Option.bind_none]
  | some x =>
    cases b with
    | none => simp only [optMul_none_right, Option.bind_none]
    | some y =>
      simp only [optMul_some, Option.bind_some]
      rw [FinalExp.fe_mul_all]
      cases finalExponentiation x <;> cases finalExponentiation y <;> rfl

theorem fe_optProd (l : List (Option Fq12)) :
    (optProd l).bind finalExponentiation =
      optProd (l.map fun a => a.bind finalExponentiation) := by
  induction l with
  | nil =>
    rw [optProd_nil, Option.bind_some, List.map_nil, optProd_nil]
    exact FinalExp.fe_one
  | cons a l ih => rw [optProd_cons, fe_optMul, ih]; rfl

theorem pairing_eq (p : Aff Fq) (q : Aff Fq2) :
    pairing p q = (millerLoop [(p, G2Prepared.fromAffine q)]).bind finalExponentiation := rfl

theorem pairingProduct_eq (p1 : Aff Fq) (q1 : Aff Fq2) (p2 : Aff Fq) (q2 : Aff Fq2) :
    pairingProduct p1 q1 p2 q2 =
      (millerLoop [(p1, G2Prepared.fromAffine q1), (p2, G2Prepared.fromAffine q2)]).bind
        finalExponentiation := rfl

theorem pairingMultiProduct_eq (ps : List (Aff Fq)) (qs : List (Aff Fq2))
    (h : ¬ qs.length < ps.length) :
    pairingMultiProduct ps qs =
      (millerLoop (List.zip ps (qs.map G2Prepared.fromAffine))).bind finalExponentiation := by
  unfold pairingMultiProduct
  rw [if_neg h]; rfl

/-- final exponentiation of a joint Miller loop = product of the final exponentiations of the
    individual Miller loops, in `Option` -/
theorem fe_millerLoop (ps : List (Aff Fq × G2Prepared)) :
    (millerLoop ps).bind finalExponentiation =
      optProd (ps.map fun pq => (millerLoop [pq]).bind finalExponentiation) := by
  rw [millerLoop_eq_optProd, fe_optProd, List.map_map]; rfl

end Miller
end PP
