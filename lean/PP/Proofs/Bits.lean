/-
Pure `Nat` / bit lemmas behind the scalar-multiplication proofs (C02, C10):
the `BitIterator` order (`bitsMSB`), limbs, and the "digit column" identities used by the
interleaved table-driven multiplications.
-/
import Mathlib.Data.Nat.Bitwise
import Mathlib.Tactic.Ring
import Mathlib.Tactic.Linarith
import PP.Model.Mul

namespace PP

/-! ## MSB-first bit lists -/

/-- value of an MSB-first bit list, starting from the accumulator `acc` (`acc ↦ 2*acc + b`) -/
def ofBitsMSBAux (acc : Nat) (bits : List Bool) : Nat :=
  bits.foldl (fun a b => 2 * a + b.toNat) acc

/-- value of an MSB-first bit list -/
def ofBitsMSB (bits : List Bool) : Nat := ofBitsMSBAux 0 bits

@[simp] theorem ofBitsMSBAux_nil (acc : Nat) : ofBitsMSBAux acc [] = acc := rfl

@[simp] theorem ofBitsMSBAux_cons (acc : Nat) (b : Bool) (l : List Bool) :
    ofBitsMSBAux acc (b :: l) = ofBitsMSBAux (2 * acc + b.toNat) l := rfl

theorem ofBitsMSBAux_append (acc : Nat) (a b : List Bool) :
    ofBitsMSBAux acc (a ++ b) = ofBitsMSBAux (ofBitsMSBAux acc a) b := by
  simp [ofBitsMSBAux, List.foldl_append]

theorem ofBitsMSBAux_eq (acc : Nat) (bits : List Bool) :
    ofBitsMSBAux acc bits = acc * 2 ^ bits.length + ofBitsMSB bits := by
  induction bits generalizing acc with
  | nil => simp [ofBitsMSB]
  | cons b l ih =>
    simp only [ofBitsMSB, ofBitsMSBAux_cons, List.length_cons]
    rw [ih, ih (2 * 0 + b.toNat)]
    ring

@[simp] theorem ofBitsMSB_nil : ofBitsMSB [] = 0 := rfl

theorem ofBitsMSB_cons (b : Bool) (l : List Bool) :
    ofBitsMSB (b :: l) = b.toNat * 2 ^ l.length + ofBitsMSB l := by
  show ofBitsMSBAux (2 * 0 + b.toNat) l = _
  rw [ofBitsMSBAux_eq]; simp

theorem ofBitsMSB_append (a b : List Bool) :
    ofBitsMSB (a ++ b) = ofBitsMSB a * 2 ^ b.length + ofBitsMSB b := by
  show ofBitsMSBAux 0 (a ++ b) = _
  rw [ofBitsMSBAux_append, ofBitsMSBAux_eq]; rfl

theorem ofBitsMSB_lt (l : List Bool) : ofBitsMSB l < 2 ^ l.length := by
  induction l with
  | nil => simp
  | cons b l ih =>
    rw [ofBitsMSB_cons, List.length_cons, pow_succ]
    have : b.toNat ≤ 1 := Bool.toNat_le b
    nlinarith

theorem mod_two_pow_succ' (x i : Nat) :
    x % 2 ^ (i + 1) = x % 2 ^ i + 2 ^ i * (x.testBit i).toNat := by
  rw [Nat.mod_pow_succ, Nat.toNat_testBit]

@[simp] theorem length_wordBitsMSB (w n : Nat) : (wordBitsMSB w n).length = n := by
  induction n with
  | zero => rfl
  | succ n ih => simp [wordBitsMSB, ih]

theorem ofBitsMSB_wordBitsMSB (w n : Nat) : ofBitsMSB (wordBitsMSB w n) = w % 2 ^ n := by
  induction n with
  | zero => simp [wordBitsMSB, Nat.mod_one]
  | succ n ih =>
    rw [wordBitsMSB, ofBitsMSB_cons, ih, length_wordBitsMSB, mod_two_pow_succ']
    ring

theorem wordBitsMSB_getElem? (w n i : Nat) :
    (wordBitsMSB w n)[i]? = if i < n then some (w.testBit (n - 1 - i)) else none := by
  induction n generalizing i with
  | zero => simp [wordBitsMSB]
  | succ n ih =>
    cases i with
    | zero => simp [wordBitsMSB]
    | succ i =>
      simp only [wordBitsMSB, List.getElem?_cons_succ, ih, Nat.add_lt_add_iff_right]
      congr 3
      omega

theorem wordBitsMSB_congr {w w' : Nat} (n : Nat) (h : ∀ i < n, w.testBit i = w'.testBit i) :
    wordBitsMSB w n = wordBitsMSB w' n := by
  induction n with
  | zero => rfl
  | succ n ih =>
    simp only [wordBitsMSB]
    rw [h n (Nat.lt_succ_self n), ih (fun i hi => h i (Nat.lt_succ_of_lt hi))]

theorem wordBitsMSB_add (w a b : Nat) :
    wordBitsMSB w (a + b) = wordBitsMSB (w >>> b) a ++ wordBitsMSB w b := by
  induction a with
  | zero => simp [wordBitsMSB]
  | succ a ih =>
    rw [Nat.add_right_comm, wordBitsMSB, wordBitsMSB, ih, Nat.testBit_shiftRight,
      Nat.add_comm b a]
    rfl

@[simp] theorem length_limbsOf (n k : Nat) : (limbsOf n k).length = n := by
  induction n generalizing k with
  | zero => rfl
  | succ n ih => simp [limbsOf, ih]

/-- `BitIterator` over the `n` limbs of `k` yields bits `64n-1 … 0` of `k`, most significant first. -/
theorem bitsMSB_limbsOf (n k : Nat) : bitsMSB (limbsOf n k) = wordBitsMSB k (64 * n) := by
  induction n generalizing k with
  | zero => rfl
  | succ n ih =>
    rw [limbsOf, bitsMSB, ih, Nat.mul_succ, wordBitsMSB_add, Nat.shiftRight_eq_div_pow]
    congr 1
    apply wordBitsMSB_congr
    intro i hi
    rw [Nat.testBit_mod_two_pow]; simp [hi]

theorem length_bitsMSB_limbsOf (n k : Nat) : (bitsMSB (limbsOf n k)).length = 64 * n := by
  rw [bitsMSB_limbsOf, length_wordBitsMSB]

/-- the `i`-th item of the iterator is bit `64n-1-i` of `k` -/
theorem bitsMSB_limbsOf_getElem? (n k i : Nat) (hi : i < 64 * n) :
    (bitsMSB (limbsOf n k))[i]? = some (k.testBit (64 * n - 1 - i)) := by
  rw [bitsMSB_limbsOf, wordBitsMSB_getElem?, if_pos hi]

theorem ofBitsMSB_bitsMSB_limbsOf (n k : Nat) :
    ofBitsMSB (bitsMSB (limbsOf n k)) = k % 2 ^ (64 * n) := by
  rw [bitsMSB_limbsOf, ofBitsMSB_wordBitsMSB]

theorem ofBitsMSB_bitsMSB_limbsOf4 (k : Nat) :
    ofBitsMSB (bitsMSB (limbsOf 4 k)) = k % 2 ^ 256 :=
  ofBitsMSB_bitsMSB_limbsOf 4 k

/-! ## limbs -/

theorem limb_lt (k j : Nat) : limb k j < 2 ^ 64 := Nat.mod_lt _ (by decide)

theorem limb_testBit (k j i : Nat) :
    (limb k j).testBit i = (decide (i < 64) && k.testBit (64 * j + i)) := by
  rw [limb, Nat.testBit_mod_two_pow, Nat.testBit_shiftRight]

theorem limbsOf_eq_limbs_aux (n k j : Nat) :
    limbsOf n (k >>> (64 * j)) = (List.range n).map (fun i => limb k (j + i)) := by
  induction n generalizing j with
  | zero => rfl
  | succ n ih =>
    rw [limbsOf, List.range_succ_eq_map, List.map_cons, List.map_map]
    congr 1
    have : (k >>> (64 * j)) / 2 ^ 64 = k >>> (64 * (j + 1)) := by
      rw [← Nat.shiftRight_eq_div_pow, ← Nat.shiftRight_add]; congr 1
    rw [this, ih]
    apply List.map_congr_left
    intro i _
    simp [Nat.add_assoc, Nat.add_comm 1 i]

theorem limbsOf4 (k : Nat) : limbsOf 4 k = [limb k 0, limb k 1, limb k 2, limb k 3] := by
  have := limbsOf_eq_limbs_aux 4 k 0
  simpa [List.range_succ] using this

theorem getD_limbsOf4 (k j : Nat) (hj : j < 4) : (limbsOf 4 k).getD j 0 = limb k j := by
  rw [limbsOf4]
  rcases j with _ | _ | _ | _ | j <;> first | rfl | omega

theorem limbsToNat_limbsOf (n k : Nat) : limbsToNat (limbsOf n k) = k % 2 ^ (64 * n) := by
  induction n generalizing k with
  | zero => simp [limbsOf, limbsToNat, Nat.mod_one]
  | succ n ih =>
    rw [limbsOf, limbsToNat, ih, Nat.mul_succ, Nat.pow_add, Nat.mul_comm (2 ^ (64 * n)),
      Nat.mod_mul]

theorem limbs_sum (k : Nat) :
    limb k 0 + 2 ^ 64 * limb k 1 + 2 ^ 128 * limb k 2 + 2 ^ 192 * limb k 3 = k % 2 ^ 256 := by
  have h := limbsToNat_limbsOf 4 k
  rw [limbsOf4] at h
  simp only [limbsToNat] at h
  rw [← h]; ring

/-! ## digit columns

`cs` is a list of "pieces" of a scalar (piece `p` has weight `2^(s·p)`).  The interleaved
multiplications read, for `i` from the top down, the column `colBits cs i` (bit `i` of every piece)
and use it to index a table whose entry `n` holds `spread s m n` times the base. -/

/-- the number whose bit `p` is bit `i` of piece `p` -/
def colBits : List Nat → Nat → Nat
  | [], _ => 0
  | c :: cs, i => (c.testBit i).toNat + 2 * colBits cs i

/-- `Σ_p 2^(s p) · (c_p mod 2^i)` -/
def colVal (s : Nat) : List Nat → Nat → Nat
  | [], _ => 0
  | c :: cs, i => c % 2 ^ i + 2 ^ s * colVal s cs i

/-- replace base 2 by base `2^s` in the `m` low binary digits of `n`:
    `spread s m n = Σ_{b<m} bit_b(n) · 2^(s b)` -/
def spread (s : Nat) : Nat → Nat → Nat
  | 0, _ => 0
  | m + 1, n => n % 2 + 2 ^ s * spread s m (n / 2)

theorem colBits_lt (cs : List Nat) (i : Nat) : colBits cs i < 2 ^ cs.length := by
  induction cs with
  | nil => simp [colBits]
  | cons c cs ih =>
    rw [colBits, List.length_cons, pow_succ]
    have : (c.testBit i).toNat ≤ 1 := Bool.toNat_le _
    omega

@[simp] theorem colVal_zero (s : Nat) (cs : List Nat) : colVal s cs 0 = 0 := by
  induction cs with
  | nil => rfl
  | cons c cs ih => simp [colVal, ih, Nat.mod_one]

@[simp] theorem spread_zero (s m : Nat) : spread s m 0 = 0 := by
  induction m with
  | zero => rfl
  | succ m ih => simp [spread, ih]

theorem spread_colBits (s m : Nat) (cs : List Nat) (i : Nat) (h : cs.length ≤ m) :
    colVal s cs (i + 1) = colVal s cs i + 2 ^ i * spread s m (colBits cs i) := by
  induction cs generalizing m with
  | nil => simp [colVal, colBits]
  | cons c cs ih =>
    cases m with
    | zero => simp at h
    | succ m =>
      have hb : (c.testBit i).toNat ≤ 1 := Bool.toNat_le _
      have h1 : ((c.testBit i).toNat + 2 * colBits cs i) % 2 = (c.testBit i).toNat := by omega
      have h2 : ((c.testBit i).toNat + 2 * colBits cs i) / 2 = colBits cs i := by omega
      rw [colVal, colVal, colBits, spread, h1, h2, ih m (by simpa using h), mod_two_pow_succ']
      ring

/-- `spread` of a number with one extra top bit -/
theorem spread_two_pow_add (s m t i : Nat) (ht : t < m) (hi : i < 2 ^ t) :
    spread s m (2 ^ t + i) = 2 ^ (s * t) + spread s m i := by
  induction m generalizing t i with
  | zero => omega
  | succ m ih =>
    cases t with
    | zero =>
      have : i = 0 := by simpa using hi
      subst this
      simp [spread]
    | succ t =>
      have h1 : (2 ^ (t + 1) + i) % 2 = i % 2 := by rw [pow_succ]; omega
      have h2 : (2 ^ (t + 1) + i) / 2 = 2 ^ t + i / 2 := by rw [pow_succ]; omega
      have hi' : i / 2 < 2 ^ t := by rw [pow_succ] at hi; omega
      rw [spread, spread, h1, h2, ih t (i / 2) (by omega) hi', Nat.mul_succ, pow_add]
      ring

theorem spread_lt_two_pow (s m n : Nat) : spread s m n = spread s m (n % 2 ^ m) := by
  induction m generalizing n with
  | zero => rfl
  | succ m ih =>
    rw [spread, spread, ih (n / 2), ih (n % 2 ^ (m + 1) / 2)]
    have h1 : n % 2 ^ (m + 1) % 2 = n % 2 := by
      rw [pow_succ, Nat.mul_comm]; exact Nat.mod_mul_right_mod n 2 (2 ^ m)
    have h2 : n % 2 ^ (m + 1) / 2 % 2 ^ m = n / 2 % 2 ^ m := by
      rw [pow_succ, Nat.mul_comm, Nat.mod_mul_right_div_self, Nat.mod_mod]
    rw [h1, h2]

/-! ### the 4 × 64 interleaving of `mul_precomp_3` -/

private theorem or4 (c0 c1 c2 c3 : Bool) :
    c3.toNat * 8 ||| c2.toNat * 4 ||| c1.toNat * 2 ||| c0.toNat
      = c0.toNat + 2 * (c1.toNat + 2 * (c2.toNat + 2 * (c3.toNat + 2 * 0))) := by
  revert c0 c1 c2 c3; decide

theorem and_one_eq (x : Nat) : x &&& 1 = (x.testBit 0).toNat := by
  have := Nat.and_two_pow x 0; simpa using this
theorem and_2_eq (x : Nat) : x &&& 2 = (x.testBit 1).toNat * 2 := Nat.and_two_pow x 1
theorem and_4_eq (x : Nat) : x &&& 4 = (x.testBit 2).toNat * 4 := Nat.and_two_pow x 2
theorem and_8_eq (x : Nat) : x &&& 8 = (x.testBit 3).toNat * 8 := Nat.and_two_pow x 3
theorem and_16_eq (x : Nat) : x &&& 16 = (x.testBit 4).toNat * 16 := Nat.and_two_pow x 4
theorem and_32_eq (x : Nat) : x &&& 32 = (x.testBit 5).toNat * 32 := Nat.and_two_pow x 5
theorem and_64_eq (x : Nat) : x &&& 64 = (x.testBit 6).toNat * 64 := Nat.and_two_pow x 6
theorem and_128_eq (x : Nat) : x &&& 128 = (x.testBit 7).toNat * 128 := Nat.and_two_pow x 7

theorem nibbleAt_eq (b0 b1 b2 b3 i : Nat) :
    nibbleAt b0 b1 b2 b3 i = colBits [b0, b1, b2, b3] i := by
  simp only [nibbleAt, colBits, and_one_eq, and_2_eq, and_4_eq, and_8_eq, Nat.testBit_shiftLeft,
    Nat.testBit_shiftRight]
  simpa using or4 (b0.testBit i) (b1.testBit i) (b2.testBit i) (b3.testBit i)

theorem nibbleTop_eq (b0 b1 b2 b3 : Nat) :
    nibbleTop b0 b1 b2 b3 = colBits [b0, b1, b2, b3] 63 := by
  simp only [nibbleTop, colBits, and_one_eq, and_2_eq, and_4_eq, and_8_eq,
    Nat.testBit_shiftRight]
  simpa using or4 (b0.testBit 63) (b1.testBit 63) (b2.testBit 63) (b3.testBit 63)

theorem colVal_limbs64 (k : Nat) :
    colVal 64 [limb k 0, limb k 1, limb k 2, limb k 3] 64 = k % 2 ^ 256 := by
  simp only [colVal, Nat.mod_eq_of_lt (limb_lt k _)]
  rw [← limbs_sum]; ring

/-! ### the 8 × 32 interleaving of `mul_precomp_256` -/

private theorem or8 (c0 c1 c2 c3 c4 c5 c6 c7 : Bool) :
    c7.toNat * 128 ||| c6.toNat * 64 ||| c5.toNat * 32 ||| c4.toNat * 16 ||| c3.toNat * 8 |||
        c2.toNat * 4 ||| c1.toNat * 2 ||| c0.toNat
      = c0.toNat + 2 * (c1.toNat + 2 * (c2.toNat + 2 * (c3.toNat + 2 * (c4.toNat + 2 *
          (c5.toNat + 2 * (c6.toNat + 2 * (c7.toNat + 2 * 0))))))) := by
  revert c0 c1 c2 c3 c4 c5 c6 c7; decide

/-- the eight 32-bit pieces of four 64-bit limbs -/
def pieces32 (b0 b1 b2 b3 : Nat) : List Nat :=
  [b0, b0 >>> 32, b1, b1 >>> 32, b2, b2 >>> 32, b3, b3 >>> 32]

theorem byteAt_eq (b0 b1 b2 b3 i : Nat) :
    byteAt b0 b1 b2 b3 i = colBits (pieces32 b0 b1 b2 b3) i := by
  simp only [byteAt, pieces32, colBits, and_one_eq, and_2_eq, and_4_eq, and_8_eq, and_16_eq,
    and_32_eq, and_64_eq, and_128_eq, Nat.testBit_shiftLeft, Nat.testBit_shiftRight]
  have := or8 (b0.testBit i) (b0.testBit (32 + i)) (b1.testBit i) (b1.testBit (32 + i))
    (b2.testBit i) (b2.testBit (32 + i)) (b3.testBit i) (b3.testBit (32 + i))
  simpa [Nat.add_comm, Nat.add_left_comm] using this

theorem byteTop_eq (b0 b1 b2 b3 : Nat) :
    byteTop b0 b1 b2 b3 = colBits (pieces32 b0 b1 b2 b3) 31 := by
  simp only [byteTop, pieces32, colBits, and_one_eq, and_2_eq, and_4_eq, and_8_eq, and_16_eq,
    and_32_eq, and_64_eq, and_128_eq, Nat.testBit_shiftRight]
  simpa using or8 (b0.testBit 31) (b0.testBit 63) (b1.testBit 31) (b1.testBit 63)
    (b2.testBit 31) (b2.testBit 63) (b3.testBit 31) (b3.testBit 63)

theorem colBits_pieces32_lt (b0 b1 b2 b3 i : ℕ) : colBits (pieces32 b0 b1 b2 b3) i < 256 := by
  have := colBits_lt (pieces32 b0 b1 b2 b3) i
  simpa [pieces32] using this

private theorem split32 (b : Nat) (hb : b < 2 ^ 64) :
    b % 2 ^ 32 + 2 ^ 32 * ((b >>> 32) % 2 ^ 32) = b := by
  rw [Nat.shiftRight_eq_div_pow]; omega

theorem colVal_pieces32 (k : Nat) :
    colVal 32 (pieces32 (limb k 0) (limb k 1) (limb k 2) (limb k 3)) 32 = k % 2 ^ 256 := by
  simp only [colVal, pieces32]
  rw [← limbs_sum]
  have h0 := split32 _ (limb_lt k 0)
  have h1 := split32 _ (limb_lt k 1)
  have h2 := split32 _ (limb_lt k 2)
  have h3 := split32 _ (limb_lt k 3)
  generalize limb k 0 = a0 at *
  generalize limb k 1 = a1 at *
  generalize limb k 2 = a2 at *
  generalize limb k 3 = a3 at *
  conv_rhs => rw [← h0, ← h1, ← h2, ← h3]
  ring

end PP
