/-
Bilinearity of the pairing in its first argument: the textbook reduced ate pairing
(`PP/Spec/Ate.lean`) is ADDITIVE IN `P`, elementary proof.

Notation: `pw x = x ^ (3(q¹²-1)/r)` (the final exponentiation), `ψ` the untwist, `l_T` / `l_{T,Q}` the
tangent / chord of `E(Fq12)` at untwisted points (the factors of `textbookMiller`), and for a line `m`
through `P₁, P₂ ∈ E(Fq)` with slope `λ ∈ Fq` (third point `-P₃`, `P₃ = P₁ + P₂`)

    g(R) = m(R) = (y_R - y_{P₁}) - λ (x_R - x_{P₁}),     ε(T) = pw (g (ψ T)).

1. Reciprocity of two lines (`BilinP1.line_reciprocity`):
   `l_T(P₁) l_T(P₂) l_T(-P₃) = - g(ψT)² g(-ψ(2T))`, `l_{T,Q}(P₁) l_{T,Q}(P₂) l_{T,Q}(-P₃) =
   - g(ψT) g(ψQ) g(-ψ(T+Q))`.
2. `l_T(-P₃) = -conj(l_T(P₃))` (`NegPair.conj_tangentAt`), `g(-ψR) = conj(g(ψR))` (`conj_gl`), and
   `pw (conj x) = (pw x)⁻¹` (the relative norm lies in `Fq6`): after `pw`,
   `pw l_T(P₁) · pw l_T(P₂) / pw l_T(P₃) = ε(T)² / ε(2T)`, resp. `ε(T) ε(Q) / ε(T+Q)`.
3. Induction over the Miller loop: `pw f(P₁) · pw f(P₂) / pw f(P₃) = ε(Q)^n / ε([n]Q)`, `n = |x|`.
4. Frobenius: `[n]Q = -Φ(Q)` on `G2` (`BilinPFrob`), `ψ(Φ Q) = π(ψ Q)` (`untwist_frob`, from
   `w^q = γ w`), `g(-π R) = g(-R)^q` (`m` has coefficients in `Fq`): `ε([n]Q) = ε(Q)^(-q)`.
5. `r ∣ n + q` and `ε(Q)^r = 1`: the quotient is `1`.
-/
import PP.Proofs.BilinP1
import PP.Proofs.BilinPFrob
import PP.Proofs.TowerFrob
import PP.Proofs.Lines2

namespace PP.BilinP

open Ate Miller Lines NegPair WeierstrassCurve.Affine

/-! ## the final exponent as a map -/

/-- `x ↦ x ^ (3 (q¹² - 1) / r)` -/
def pw (x : Fq12) : Fq12 := x ^ finalExponent

theorem finalExponent_ne_zero : finalExponent ≠ 0 := by decide +kernel

theorem pw_mul (x y : Fq12) : pw (x * y) = pw x * pw y := mul_pow x y _
theorem pw_one : pw 1 = 1 := one_pow _
theorem pw_zero : pw 0 = 0 := zero_pow finalExponent_ne_zero
theorem pw_pow (x : Fq12) (n : ℕ) : pw (x ^ n) = pw x ^ n := by
  simp only [pw, ← pow_mul, mul_comm]
theorem pw_neg (x : Fq12) : pw (-x) = pw x := by
  simp only [pw]; rw [neg_pow, neg_one_pow_fe, one_mul]
theorem pw_ne_zero {x : Fq12} (h : x ≠ 0) : pw x ≠ 0 := pow_ne_zero _ h

/-- conjugation inverts after the final exponentiation -/
theorem pw_conj (x : Fq12) : pw (Fq12.conjugate x) = (pw x)⁻¹ := by
  by_cases hx : x = 0
  · subst hx; rw [Fq12.conjugate_zero, pw_zero, inv_zero]
  · apply eq_inv_of_mul_eq_one_left
    rw [← pw_mul, mul_comm]
    exact norm_pow_fe hx

/-- the values of the final exponentiation are `r`-th roots of unity -/
theorem pw_pow_r {x : Fq12} (hx : x ≠ 0) : pw x ^ Gen.r = 1 := by
  have e : finalExponent * Gen.r = 3 * (Gen.q ^ 12 - 1) := by
    rw [mul_comm]; exact FinalExp.r_mul_feTarget
  simp only [pw]
  rw [← pow_mul, e, mul_comm, pow_mul, FinalExp.pow_card_sub_one hx, one_pow]

theorem pw_def (x : Fq12) : pw x = x ^ finalExponent := rfl

attribute [irreducible] pw

/-! ## the line through `P₁` with slope in `Fq`, evaluated on `E(Fq12)` -/

/-- `g(R)`: the line through `P₁` with slope `lam ∈ Fq`, at `R ∈ E(Fq12)` -/
def gl (lam : Fq) (P₁ : Fq × Fq) (R : Fq12 × Fq12) : Fq12 := lineAt (κ lam) (embed P₁) R

/-- `ε(T) = pw (g (ψ T))` -/
def eps (lam : Fq) (P₁ : Fq × Fq) (T : Fq2 × Fq2) : Fq12 := pw (gl lam P₁ (untwist T))

/-- `conj (g (ψ T)) = g (-ψ T)` -/
theorem conj_gl (lam : Fq) (P₁ : Fq × Fq) (T : Fq2 × Fq2) :
    Fq12.conjugate (gl lam P₁ (untwist T)) = gl lam P₁ (ngp (untwist T)) := by
  have hw := w_ne_zero
  rw [conj_eq]
  simp only [gl, lineAt, untwist, embed, ngp, map_sub, map_mul, map_div₀, map_pow, conjE_ι,
    conjE_κ, conjE_w]
  field_simp

theorem untwist_snd_ne_zero {T : Fq2 × Fq2} (hy : T.2 ≠ 0) : (untwist T).2 ≠ 0 := by
  simp only [untwist]
  exact div_ne_zero (ι_ne_zero hy) (pow_ne_zero _ w_ne_zero)

/-- `g (ψ T) ≠ 0` when `y_T ≠ 0` (otherwise also `g (-ψ T) = 0`, and the difference is `2 y_{ψT}`) -/
theorem gl_ne_zero (lam : Fq) (P₁ : Fq × Fq) {T : Fq2 × Fq2} (hy : T.2 ≠ 0) :
    gl lam P₁ (untwist T) ≠ 0 := by
  intro h0
  have h1 : gl lam P₁ (ngp (untwist T)) = 0 := by
    rw [← conj_gl, h0, Fq12.conjugate_zero]
  have h2 : gl lam P₁ (untwist T) - gl lam P₁ (ngp (untwist T)) = 2 * (untwist T).2 := by
    simp only [gl, lineAt, ngp]; ring
  rw [h0, h1, sub_zero] at h2
  exact (mul_ne_zero fq12_two_ne_zero (untwist_snd_ne_zero hy)) h2.symm

theorem eps_ne_zero (lam : Fq) (P₁ : Fq × Fq) {T : Fq2 × Fq2} (hy : T.2 ≠ 0) :
    eps lam P₁ T ≠ 0 := pw_ne_zero (gl_ne_zero lam P₁ hy)

/-- `pw (g (-ψ T)) = ε(T)⁻¹` -/
theorem pw_gl_ngp (lam : Fq) (P₁ : Fq × Fq) (T : Fq2 × Fq2) :
    pw (gl lam P₁ (ngp (untwist T))) = (eps lam P₁ T)⁻¹ := by
  rw [← conj_gl, pw_conj]; rfl

/-! ## the line of `E(Fq)` inside `E(Fq12)` -/

theorem fq12_four : (4 : Fq12) = κ 4 := (map_ofNat κ 4).symm

theorem lineZeros_embed {lam : Fq} {P₁ P₂ : Fq × Fq} (h : LineZeros (4 : Fq) lam P₁ P₂) :
    LineZeros (4 : Fq12) (κ lam) (embed P₁) (embed P₂) := by
  refine ⟨?_, ?_, ?_⟩
  · have := congrArg κ h.onB
    simpa only [embed, map_add, map_mul, map_sub] using this
  · have := congrArg κ h.e2
    simpa only [embed, map_add, map_mul, map_sub, map_pow, map_neg, map_ofNat] using this
  · have := congrArg κ h.e3
    rw [fq12_four]
    simpa only [embed, map_add, map_mul, map_sub, map_pow, map_neg, map_ofNat] using this

theorem embed_sumOfSlope (lam : Fq) (P₁ P₂ : Fq × Fq) :
    embed (sumOfSlope lam P₁ P₂) = sumOfSlope (κ lam) (embed P₁) (embed P₂) := by
  simp only [embed, sumOfSlope, map_sub, map_mul, map_pow]

/-! ## one step of the Miller loop -/

section step
variable (lam : Fq) (P₁ P₂ : Fq × Fq) (hL : LineZeros (4 : Fq) lam P₁ P₂)
include hL

/-- reciprocity, tangent step: `l_T(P₁) l_T(P₂) l_T(-P₃) = - g(ψT)² g(-ψ(2T))` -/
theorem tangent_reciprocity {T : Fq2 × Fq2} (hT : T.2 ^ 2 = T.1 ^ 3 + g2Codec.b) (hy : T.2 ≠ 0) :
    tangentAt (untwist T) (embed P₁) * tangentAt (untwist T) (embed P₂) *
        tangentAt (untwist T) (embed (ngp (sumOfSlope lam P₁ P₂))) =
      -(gl lam P₁ (untwist T) * gl lam P₁ (untwist T) *
        gl lam P₁ (ngp (untwist (affDouble T)))) := by
  have h1 : LineZeros (4 : Fq12) (tangentSlope (untwist T)) (untwist T) (untwist T) :=
    lineZeros_tangent fq12_two_ne_zero (untwist_onCurve hT) (untwist_snd_ne_zero hy)
  have h := line_reciprocity h1 (lineZeros_embed hL)
  rw [← embed_sumOfSlope, ← embed_ngp] at h
  rw [untwist_affDouble]
  exact h

/-- reciprocity, chord step: `l_{T,Q}(P₁) l_{T,Q}(P₂) l_{T,Q}(-P₃) = - g(ψT) g(ψQ) g(-ψ(T+Q))` -/
theorem chord_reciprocity {T Q : Fq2 × Fq2} (hT : T.2 ^ 2 = T.1 ^ 3 + g2Codec.b)
    (hQ : Q.2 ^ 2 = Q.1 ^ 3 + g2Codec.b) (hx : T.1 ≠ Q.1) :
    chordAt (untwist T) (untwist Q) (embed P₁) * chordAt (untwist T) (untwist Q) (embed P₂) *
        chordAt (untwist T) (untwist Q) (embed (ngp (sumOfSlope lam P₁ P₂))) =
      -(gl lam P₁ (untwist T) * gl lam P₁ (untwist Q) *
        gl lam P₁ (ngp (untwist (affAdd T Q)))) := by
  have hx' : (untwist T).1 ≠ (untwist Q).1 := by
    simp only [untwist]
    intro e
    rw [div_left_inj' (pow_ne_zero _ w_ne_zero)] at e
    exact hx (ι_injective e)
  have h1 : LineZeros (4 : Fq12) (chordSlope (untwist T) (untwist Q)) (untwist T) (untwist Q) :=
    lineZeros_chord (untwist_onCurve hT) (untwist_onCurve hQ) hx'
  have h := line_reciprocity h1 (lineZeros_embed hL)
  rw [← embed_sumOfSlope, ← embed_ngp] at h
  rw [untwist_affAdd]
  exact h

/-- tangent step after the final exponentiation -/
theorem pw_tangent_step {T : Fq2 × Fq2} (hT : T.2 ^ 2 = T.1 ^ 3 + g2Codec.b) (hy : T.2 ≠ 0) :
    pw (tangentAt (untwist T) (embed P₁)) * pw (tangentAt (untwist T) (embed P₂)) *
        (pw (tangentAt (untwist T) (embed (sumOfSlope lam P₁ P₂))))⁻¹ =
      eps lam P₁ T ^ 2 * (eps lam P₁ (affDouble T))⁻¹ := by
  have h := congrArg pw (tangent_reciprocity lam P₁ P₂ hL hT hy)
  have h3 : tangentAt (untwist T) (embed (ngp (sumOfSlope lam P₁ P₂))) =
      -Fq12.conjugate (tangentAt (untwist T) (embed (sumOfSlope lam P₁ P₂))) := by
    rw [conj_tangentAt, neg_neg]
  rw [h3, pw_neg, pw_mul, pw_mul, pw_mul, pw_mul, pw_neg, pw_conj, pw_gl_ngp] at h
  rw [h, pow_two]; rfl

/-- chord step after the final exponentiation -/
theorem pw_chord_step {T Q : Fq2 × Fq2} (hT : T.2 ^ 2 = T.1 ^ 3 + g2Codec.b)
    (hQ : Q.2 ^ 2 = Q.1 ^ 3 + g2Codec.b) (hx : T.1 ≠ Q.1) :
    pw (chordAt (untwist T) (untwist Q) (embed P₁)) *
        pw (chordAt (untwist T) (untwist Q) (embed P₂)) *
        (pw (chordAt (untwist T) (untwist Q) (embed (sumOfSlope lam P₁ P₂))))⁻¹ =
      eps lam P₁ T * eps lam P₁ Q * (eps lam P₁ (affAdd T Q))⁻¹ := by
  have h := congrArg pw (chord_reciprocity lam P₁ P₂ hL hT hQ hx)
  have h3 : chordAt (untwist T) (untwist Q) (embed (ngp (sumOfSlope lam P₁ P₂))) =
      -Fq12.conjugate (chordAt (untwist T) (untwist Q) (embed (sumOfSlope lam P₁ P₂))) := by
    rw [conj_chordAt, neg_neg]
  rw [h3, pw_neg, pw_mul, pw_mul, pw_mul, pw_mul, pw_neg, pw_conj, pw_gl_ngp] at h
  rw [h]; rfl

end step

/-! ## the loop -/

theorem nsmul_ne_zero_of_lt {S : E2} (h0 : S ≠ 0) (hr : Gen.r • S = 0) {j : ℕ} (hj : 0 < j)
    (hj' : j < Gen.r) : j • S ≠ 0 := by
  have hprime : Nat.Prime Gen.r := Fact.out
  have hord : addOrderOf S = Gen.r := by
    rcases (Nat.dvd_prime hprime).mp (addOrderOf_dvd_of_nsmul_eq_zero hr) with h | h
    · exact absurd (AddMonoid.addOrderOf_eq_one_iff.mp h) h0
    · exact h
  intro e
  have hdvd : Gen.r ∣ j := hord ▸ addOrderOf_dvd_of_nsmul_eq_zero e
  have hle : Gen.r ≤ j := Nat.le_of_dvd hj hdvd
  omega

theorem pointLoop_cons (Q : Fq2 × Fq2) (b : Bool) (bs : List Bool) (T : Fq2 × Fq2) :
    pointLoop Q (b :: bs) T =
      pointLoop Q bs (if b then affAdd (affDouble T) Q else affDouble T) := rfl

/-- **the invariant of the Miller loop**: if `pw F₁ · pw F₂ / pw F₃ = ε(Q)^k / ε(T)` with `T = [k]Q`,
    the same holds after any list of bits (`k` followed by the bits, `T` updated), as long as
    `4 K < r` for the final `K` -/
theorem loop_inv (lam : Fq) (P₁ P₂ : Fq × Fq) (hL : LineZeros (4 : Fq) lam P₁ P₂) (Q : Fq2 × Fq2)
    (S : E2) (hS0 : S ≠ 0) (hSr : Gen.r • S = 0) (hQ : Repr Q S) :
    ∀ (bs : List Bool) (T : Fq2 × Fq2) (k : ℕ) (F₁ F₂ F₃ : Fq12), 1 ≤ k → 4 * val k bs < Gen.r →
      Repr T (k • S) →
      pw F₁ * pw F₂ * (pw F₃)⁻¹ = eps lam P₁ Q ^ k * (eps lam P₁ T)⁻¹ →
      pw (bs.foldl (millerStep P₁ Q) (F₁, T)).1 * pw (bs.foldl (millerStep P₂ Q) (F₂, T)).1 *
          (pw (bs.foldl (millerStep (sumOfSlope lam P₁ P₂) Q) (F₃, T)).1)⁻¹ =
        eps lam P₁ Q ^ val k bs * (eps lam P₁ (pointLoop Q bs T))⁻¹ ∧
      Repr (pointLoop Q bs T) (val k bs • S) := by
  intro bs
  induction bs with
  | nil => intro T k F₁ F₂ F₃ _ _ hT h; exact ⟨h, hT⟩
  | cons b bs ih =>
    intro T k F₁ F₂ F₃ hk hlt hT h
    have hge : 2 * k + b.toNat ≤ val k (b :: bs) := by rw [val_cons]; exact le_val _ _
    have h2k : k • S + k • S = (2 * k) • S := by rw [two_mul, add_smul]
    have hy : T.2 ≠ 0 :=
      repr_y_ne hT (by rw [h2k]; exact nsmul_ne_zero_of_lt hS0 hSr (by omega) (by omega))
    have hD : Repr (affDouble T) ((2 * k) • S) := h2k ▸ repr_double hT hy
    have hTc := repr_onCurve hT
    have hDc := repr_onCurve hD
    have hQc := repr_onCurve hQ
    have hst := pw_tangent_step lam P₁ P₂ hL hTc hy
    have hεT : eps lam P₁ T ≠ 0 := eps_ne_zero lam P₁ hy
    have hc : (eps lam P₁ T)⁻¹ * eps lam P₁ T = 1 := by
      rw [inv_mul_cancel₀ hεT]
    -- the state after the doubling
    have hdbl : pw (F₁ ^ 2 * tangentAt (untwist T) (embed P₁)) *
          pw (F₂ ^ 2 * tangentAt (untwist T) (embed P₂)) *
          (pw (F₃ ^ 2 * tangentAt (untwist T) (embed (sumOfSlope lam P₁ P₂))))⁻¹ =
        eps lam P₁ Q ^ (2 * k) * (eps lam P₁ (affDouble T))⁻¹ := by
      rw [pw_mul, pw_mul, pw_mul, pw_pow, pw_pow, pw_pow]
      calc _ = (pw F₁ * pw F₂ * (pw F₃)⁻¹) ^ 2 *
            (pw (tangentAt (untwist T) (embed P₁)) * pw (tangentAt (untwist T) (embed P₂)) *
              (pw (tangentAt (untwist T) (embed (sumOfSlope lam P₁ P₂))))⁻¹) := by ring
        _ = eps lam P₁ Q ^ (2 * k) * (eps lam P₁ (affDouble T))⁻¹ *
            ((eps lam P₁ T)⁻¹ * eps lam P₁ T) ^ 2 := by rw [h, hst]; ring
        _ = _ := by rw [hc, one_pow, mul_one]
    cases b with
    | false =>
      simp only [Bool.toNat_false, add_zero] at hge
      simp only [List.foldl_cons, millerStep, Bool.false_eq_true, if_false, pointLoop_cons, val_cons,
        Bool.toNat_false, add_zero]
      rw [val_cons, Bool.toNat_false, add_zero] at hlt
      exact ih (affDouble T) (2 * k) _ _ _ (by omega) hlt hD hdbl
    | true =>
      simp only [Bool.toNat_true] at hge
      have hDy : (affDouble T).2 ≠ 0 :=
        repr_y_ne hD (by
          rw [← two_nsmul, ← mul_nsmul']
          exact nsmul_ne_zero_of_lt hS0 hSr (by omega) (by omega))
      have hne1 : (2 * k) • S ≠ S := by
        intro e
        have h0 : (2 * k - 1) • S = 0 := by
          have e' : 2 * k = (2 * k - 1) + 1 := by omega
          have : (2 * k) • S = (2 * k - 1) • S + S := by
            rw [← succ_nsmul, ← e']
          rw [this] at e
          exact add_eq_right.mp e
        exact nsmul_ne_zero_of_lt hS0 hSr (by omega) (by omega) h0
      have hne2 : (2 * k) • S ≠ -S := by
        intro e
        have h0 : (2 * k + 1) • S = 0 := by rw [succ_nsmul, e, neg_add_cancel]
        exact nsmul_ne_zero_of_lt hS0 hSr (by omega) (by omega) h0
      have hx : (affDouble T).1 ≠ Q.1 := repr_x_ne hD hQ hne1 hne2
      have hA : Repr (affAdd (affDouble T) Q) ((2 * k + 1) • S) := by
        rw [succ_nsmul]; exact repr_add hD hQ hx
      have hch := pw_chord_step lam P₁ P₂ hL hDc hQc hx
      have hεD : eps lam P₁ (affDouble T) ≠ 0 := eps_ne_zero lam P₁ hDy
      have hcD : (eps lam P₁ (affDouble T))⁻¹ * eps lam P₁ (affDouble T) = 1 := by
        rw [inv_mul_cancel₀ hεD]
      simp only [List.foldl_cons, millerStep, if_true, pointLoop_cons, val_cons, Bool.toNat_true]
      rw [val_cons, Bool.toNat_true] at hlt
      refine ih (affAdd (affDouble T) Q) (2 * k + 1) _ _ _ (by omega) hlt hA ?_
      rw [pw_mul _ (chordAt _ _ _), pw_mul _ (chordAt _ _ _), pw_mul _ (chordAt _ _ _)]
      calc _ = (pw (F₁ ^ 2 * tangentAt (untwist T) (embed P₁)) *
              pw (F₂ ^ 2 * tangentAt (untwist T) (embed P₂)) *
              (pw (F₃ ^ 2 * tangentAt (untwist T) (embed (sumOfSlope lam P₁ P₂))))⁻¹) *
            (pw (chordAt (untwist (affDouble T)) (untwist Q) (embed P₁)) *
              pw (chordAt (untwist (affDouble T)) (untwist Q) (embed P₂)) *
              (pw (chordAt (untwist (affDouble T)) (untwist Q)
                (embed (sumOfSlope lam P₁ P₂))))⁻¹) := by ring
        _ = eps lam P₁ Q ^ (2 * k + 1) * (eps lam P₁ (affAdd (affDouble T) Q))⁻¹ *
            ((eps lam P₁ (affDouble T))⁻¹ * eps lam P₁ (affDouble T)) := by rw [hdbl, hch]; ring
        _ = _ := by rw [hcD, mul_one]

/-! ## Frobenius -/

theorem ι_gamma_mul : ι gamma * ι dInv = 1 := by rw [← map_mul, gamma_mul_dInv, map_one]

theorem w_pow_q' : Fq12.w ^ Gen.q = ι gamma * Fq12.w := Fq12.w_pow_q

attribute [local irreducible] gamma dInv

theorem ι_pow_q (a : Fq2) : ι a ^ Gen.q = ι (Fq2.conj a) := by
  rw [← map_pow, ← Fq2.conj_eq_pow_q]

theorem κ_pow_q (a : Fq) : κ a ^ Gen.q = κ a := by rw [← map_pow, Fq.pow_q]

theorem frob_coord (X g d w : Fq12) (hgd : g * d = 1) (hw : w ≠ 0) (k : ℕ)
    (hwq : w ^ Gen.q = g * w) : d ^ k * X ^ Gen.q / w ^ k = (X / w ^ k) ^ Gen.q := by
  have hg : g ≠ 0 := left_ne_zero_of_mul_eq_one hgd
  have hd : d = g⁻¹ := eq_inv_of_mul_eq_one_right hgd
  subst hd
  rw [div_pow, ← pow_mul, mul_comm k Gen.q, pow_mul, hwq, mul_pow, inv_pow]
  field_simp

/-- `ψ ∘ Φ = π ∘ ψ`: the untwist of the twisted Frobenius is the coordinate-wise `q`-th power -/
theorem untwist_frob (T : Fq2 × Fq2) :
    untwist (dInv ^ 2 * Fq2.conj T.1, dInv ^ 3 * Fq2.conj T.2) =
      ((untwist T).1 ^ Gen.q, (untwist T).2 ^ Gen.q) := by
  have h1 := frob_coord (ι T.1) (ι gamma) (ι dInv) Fq12.w ι_gamma_mul w_ne_zero 2 w_pow_q'
  have h2 := frob_coord (ι T.2) (ι gamma) (ι dInv) Fq12.w ι_gamma_mul w_ne_zero 3 w_pow_q'
  simp only [untwist, map_mul, map_pow, ← ι_pow_q]
  rw [h1, h2]

/-- a line with coefficients in `Fq` commutes with the `q`-th power: `g(-π R) = g(-R)^q` -/
theorem gl_frob (lam : Fq) (P₁ : Fq × Fq) (R : Fq12 × Fq12) :
    gl lam P₁ (ngp (R.1 ^ Gen.q, R.2 ^ Gen.q)) = gl lam P₁ (ngp R) ^ Gen.q := by
  have hodd : Odd Gen.q := by decide +kernel
  simp only [gl, lineAt, embed, ngp]
  rw [sub_pow_char, sub_pow_char, mul_pow, sub_pow_char, hodd.neg_pow, κ_pow_q, κ_pow_q, κ_pow_q]

/-- `ε(-Φ T) = ε(T)^(-q)` -/
theorem eps_frob (lam : Fq) (P₁ : Fq × Fq) (x y : Fq2) :
    eps lam P₁ (ngp (dInv ^ 2 * Fq2.conj x, dInv ^ 3 * Fq2.conj y)) =
      (eps lam P₁ (x, y) ^ Gen.q)⁻¹ := by
  have hu := untwist_frob (x, y)
  simp only at hu
  unfold eps
  rw [untwist_ngp, hu, gl_frob, pw_pow]
  rw [← conj_gl, pw_conj, inv_pow]

theorem r_dvd_x_add_q : Gen.r ∣ Gen.BLS_X + Gen.q := by decide +kernel

theorem four_x_lt_r : 4 * Gen.BLS_X < Gen.r := by decide +kernel

/-! ## additivity of the textbook Miller value, after the final exponentiation -/

/-- **`pw f_Q(P₁) · pw f_Q(P₂) = pw f_Q(P₁ + P₂)`** for `Q ∈ G2` finite and `P₁, P₂, P₁ + P₂` the three
    points of a line with slope in `Fq` (chord or tangent) -/
theorem pw_miller_add (lam : Fq) (P₁ P₂ : Fq × Fq) (hL : LineZeros (4 : Fq) lam P₁ P₂)
    (q : Aff Fq2) (hq : Aff.InSub g2Codec.b q) (hqi : q.infinity = false) :
    pw (textbookMiller P₁ (pair q)) * pw (textbookMiller P₂ (pair q)) *
      (pw (textbookMiller (sumOfSlope lam P₁ P₂) (pair q)))⁻¹ = 1 := by
  set S := Aff.abs g2Codec.b q with hS
  have hS0 : S ≠ 0 := fun h => by
    rw [hS, Aff.abs_eq_zero_iff hq.1, hqi] at h; cases h
  have hQ : Repr (pair q) S := repr_aff hq.1 hqi
  have hQy : (pair q).2 ≠ 0 :=
    repr_y_ne hQ (by
      rw [← two_nsmul]; exact nsmul_ne_zero_of_lt hS0 hq.2 (by norm_num) (by decide +kernel))
  have hε : eps lam P₁ (pair q) ≠ 0 := eps_ne_zero lam P₁ hQy
  obtain ⟨h, hT⟩ := loop_inv lam P₁ P₂ hL (pair q) S hS0 hq.2 hQ (bitsBelowTop Gen.BLS_X) (pair q) 1
    1 1 1 (le_refl _) (by rw [val_bitsBelowTop]; exact four_x_lt_r) (by rw [one_smul]; exact hQ)
    (by rw [pw_one, pow_one, mul_inv_cancel₀ hε]; simp)
  rw [val_bitsBelowTop] at h hT
  -- the final accumulator is `-Φ(Q)`
  have hfr := frobA_eq_neg_nsmul hq
  have hFc := (frobA_spec hq.1).1
  have hFi : (frobA q).infinity = false := by simp only [frobA]; exact hqi
  rw [← hS, Aff.abs_of_not_infinity hFc hFi, Point.neg_some] at hfr
  obtain ⟨hns, hTe⟩ := hT
  rw [hfr] at hTe
  obtain ⟨e1, e2⟩ := PP.Point.some_eq_some.mp hTe
  have hTn : pointLoop (pair q) (bitsBelowTop Gen.BLS_X) (pair q) =
      ngp (dInv ^ 2 * Fq2.conj q.x, dInv ^ 3 * Fq2.conj q.y) := by
    apply Prod.ext
    · rw [← e1]; simp only [frobA, ngp]
    · rw [← e2, W_negY]; simp only [frobA, ngp]
  -- `ε([n]Q) = ε(Q)^(-q)`
  have hεn : eps lam P₁ (pointLoop (pair q) (bitsBelowTop Gen.BLS_X) (pair q)) =
      ((eps lam P₁ (pair q)) ^ Gen.q)⁻¹ := by
    rw [hTn]; exact eps_frob lam P₁ q.x q.y
  unfold textbookMiller millerBits
  rw [h, hεn, inv_inv, ← pow_add]
  obtain ⟨c, hc⟩ := r_dvd_x_add_q
  rw [hc, pow_mul]
  unfold eps
  rw [pw_pow_r (gl_ne_zero lam P₁ hQy), one_pow]

/-- **additivity of the textbook reduced ate pairing in `P`** -/
theorem reducedAte_add (lam : Fq) (P₁ P₂ : Fq × Fq) (hL : LineZeros (4 : Fq) lam P₁ P₂)
    (hy₃ : (sumOfSlope lam P₁ P₂).2 ≠ 0)
    (q : Aff Fq2) (hq : Aff.InSub g2Codec.b q) (hqi : q.infinity = false) :
    reducedAte (sumOfSlope lam P₁ P₂) (pair q) =
      reducedAte P₁ (pair q) * reducedAte P₂ (pair q) := by
  have h := pw_miller_add lam P₁ P₂ hL q hq hqi
  have h3 : pw (textbookMiller (sumOfSlope lam P₁ P₂) (pair q)) ≠ 0 :=
    pw_ne_zero (textbookMiller_ne_zero _ _ hy₃)
  have h' : pw (textbookMiller P₁ (pair q)) * pw (textbookMiller P₂ (pair q)) =
      pw (textbookMiller (sumOfSlope lam P₁ P₂) (pair q)) := by
    rw [← mul_inv_eq_one₀ h3]; exact h
  have e : ∀ P, reducedAte P (pair q) = Fq12.conjugate (pw (textbookMiller P (pair q))) := by
    intro P
    rw [reducedAte, pw_def]
    exact (conj_pow _ _).symm
  rw [e, e, e, ← h', Fq12.conjugate_mul]

end PP.BilinP
