/-
C18 for `Fq2`.

Part A (unconditional, `Fq2` as a plain pair over the field `Fq`): `sgn0`, the lexicographic order
`lt`, the interaction with the componentwise negation, `legendre` = Euler's criterion of the norm.

Part B (`Fq2.sqrt`, Algorithm 9 of eprint 2012/685): proved for an abstract field `K` (`alg9`), and
transported to the model's `Fq2.sqrt` under the explicit hypotheses `FieldHyp` (a `Field Fq2` whose
operations are the model's, `x^(q²-1) = 1`, `frobeniusMap x 1 = x^q`) — theorems
`fq2_sqrt_sound_of`, `fq2_sqrt_none_iff_of`.  `Field Fq2` is built in PP/Proofs/Tower*.lean by the
tower proofs; this file does not depend on them.

All names live in `namespace PP.Fq2Sqrt` (the tower files own `PP.Fq2.*`).
-/
import Mathlib.Tactic.Ring
import Mathlib.Tactic.FieldSimp
import PP.Proofs.Sqrt
import PP.Model.Tower

set_option linter.unusedSectionVars false

namespace PP
namespace Fq2Sqrt
open Primes

/-! ## Part A: sign, order, Legendre symbol -/

theorem ext' {a b : Fq2} (h0 : a.c0 = b.c0) (h1 : a.c1 = b.c1) : a = b := by
  cases a; cases b; simp_all

theorem ne_iff {a b : Fq2} : a ≠ b ↔ a.c0.v ≠ b.c0.v ∨ a.c1.v ≠ b.c1.v := by
  constructor
  · intro h
    by_contra hc
    have hc' : a.c0.v = b.c0.v ∧ a.c1.v = b.c1.v := by omega
    exact h (ext' (Zp.ext_v hc'.1) (Zp.ext_v hc'.2))
  · rintro h rfl; omega

theorem zero_def : (0 : Fq2) = ⟨0, 0⟩ := rfl
theorem neg_c0 (y : Fq2) : (-y).c0 = -y.c0 := rfl
theorem neg_c1 (y : Fq2) : (-y).c1 = -y.c1 := rfl

theorem ne_zero_iff {y : Fq2} : y ≠ 0 ↔ y.c0 ≠ 0 ∨ y.c1 ≠ 0 := by
  constructor
  · intro h
    by_contra hc
    have h0 : y.c0 = 0 := by by_contra h0; exact hc (Or.inl h0)
    have h1 : y.c1 = 0 := by by_contra h1; exact hc (Or.inr h1)
    exact h (ext' h0 h1)
  · rintro h rfl
    rcases h with h | h <;> exact h rfl

/-- `sgn0` is the sign of the first non-zero coefficient, real part first. -/
theorem sgn0_eq (a : Fq2) :
    Fq2.sgn0 a = if a.c0 = 0 then Zp.sgn0 a.c1 else Zp.sgn0 a.c0 := by
  unfold Fq2.sgn0
  by_cases h : a.c0 = 0
  · rw [if_pos h, if_pos ((Zp.isZero_iff _).mpr h)]
  · rw [if_neg h, if_neg (fun h' => h ((Zp.isZero_iff _).mp h'))]

/-- `sgn0 a = negative` iff the first non-zero coefficient (real part first) is odd. -/
theorem sgn0_negative_iff (a : Fq2) :
    Fq2.sgn0 a = .negative ↔ (if a.c0 = 0 then a.c1.v % 2 = 1 else a.c0.v % 2 = 1) := by
  rw [sgn0_eq]; split <;> exact Zp.sgn0_negative_iff _

/-- `lt` is the lexicographic order with the `u`-coefficient most significant. -/
theorem lt_iff (a b : Fq2) :
    Fq2.lt a b = true ↔ a.c1.v < b.c1.v ∨ (a.c1.v = b.c1.v ∧ a.c0.v < b.c0.v) := by
  unfold Fq2.lt
  split
  · simp; omega
  · split
    · simp; omega
    · simp; omega

theorem lt_eq_false_iff (a b : Fq2) :
    Fq2.lt a b = false ↔ b.c1.v < a.c1.v ∨ (a.c1.v = b.c1.v ∧ b.c0.v ≤ a.c0.v) := by
  rw [← Bool.not_eq_true, lt_iff]; omega

theorem lt_irrefl (a : Fq2) : Fq2.lt a a = false := by
  rw [lt_eq_false_iff]; omega

theorem lt_asymm (a b : Fq2) (h : Fq2.lt a b = true) : Fq2.lt b a = false := by
  rw [lt_iff] at h; rw [lt_eq_false_iff]; omega

theorem lt_trans (a b c : Fq2) (h1 : Fq2.lt a b = true) (h2 : Fq2.lt b c = true) :
    Fq2.lt a c = true := by
  rw [lt_iff] at *; omega

theorem lt_total (a b : Fq2) (h : a ≠ b) : Fq2.lt a b = true ∨ Fq2.lt b a = true := by
  rw [lt_iff, lt_iff]; have := ne_iff.mp h; omega

/-- A non-zero element of `Fq2` differs from its (componentwise) negative. -/
theorem ne_neg_self (y : Fq2) (hy : y ≠ 0) : y ≠ -y := by
  intro h
  rcases ne_zero_iff.mp hy with h0 | h1
  · exact Fq.ne_neg_self y.c0 h0 (by rw [← neg_c0, ← h])
  · exact Fq.ne_neg_self y.c1 h1 (by rw [← neg_c1, ← h])

/-- For `y ≠ 0` exactly one of `y`, `-y` is the larger. -/
theorem neg_order_fq2 (y : Fq2) (hy : y ≠ 0) :
    (Fq2.lt y (-y) = true ∧ Fq2.lt (-y) y = false) ∨
    (Fq2.lt (-y) y = true ∧ Fq2.lt y (-y) = false) := by
  rcases lt_total y (-y) (ne_neg_self y hy) with h | h
  · exact Or.inl ⟨h, lt_asymm _ _ h⟩
  · exact Or.inr ⟨h, lt_asymm _ _ h⟩

theorem neg_order_fq2_iff (y : Fq2) (hy : y ≠ 0) :
    Fq2.lt y (-y) = true ↔ Fq2.lt (-y) y = false := by
  rcases neg_order_fq2 y hy with ⟨h1, h2⟩ | ⟨h1, h2⟩ <;> simp [h1, h2]

/-- `legendre` is the Legendre symbol of the norm (definitional) -/
theorem legendre_eq (a : Fq2) : Fq2.legendre a = Fq.legendre (Fq2.norm a) := rfl

theorem norm_eq (a : Fq2) : Fq2.norm a = a.c1 * a.c1 + a.c0 * a.c0 := rfl

/-- `-1` is not a square in `Fq` (`q ≡ 3 mod 4`) -/
theorem neg_one_not_square : ¬ IsSquare (-1 : Fq) := by
  rw [Zp.not_isSquare_iff_pow_half Fq.q_odd]
  apply Odd.neg_one_pow
  rw [Nat.odd_iff]
  have := q_mod_four; omega

/-- the norm vanishes only at zero -/
theorem norm_eq_zero_iff (a : Fq2) : Fq2.norm a = 0 ↔ a = 0 := by
  rw [norm_eq]
  constructor
  · intro h
    have key : ∀ x y : Fq, y * y + x * x = 0 → y ≠ 0 → False := by
      intro x y hxy hy
      apply neg_one_not_square
      refine ⟨x / y, ?_⟩
      field_simp
      linear_combination (-1 : Fq) * hxy
    have h1 : a.c1 = 0 := by
      by_contra h1; exact key _ _ h h1
    have h0 : a.c0 = 0 := by
      by_contra h0; exact key a.c1 a.c0 (by rw [add_comm]; exact h) h0
    exact ext' h0 h1
  · rintro rfl; show (0 : Fq) * 0 + 0 * 0 = 0; simp

theorem legendre_zero_iff (a : Fq2) : Fq2.legendre a = .zero ↔ a = 0 := by
  rw [legendre_eq, Fq.legendre_zero_iff, norm_eq_zero_iff]

/-- Euler's criterion of the norm -/
theorem legendre_residue_iff (a : Fq2) :
    Fq2.legendre a = .residue ↔ a ≠ 0 ∧ IsSquare (Fq2.norm a) := by
  rw [legendre_eq, Fq.legendre_residue_iff, Ne, norm_eq_zero_iff]

theorem legendre_nonResidue_iff (a : Fq2) :
    Fq2.legendre a = .nonResidue ↔ ¬ IsSquare (Fq2.norm a) := by
  rw [legendre_eq, Fq.legendre_nonResidue_iff]

/-! ## Part B: Algorithm 9 over an abstract field -/

section Generic
variable {K : Type} [Field K] [DecidableEq K]

/-- Algorithm 9 of eprint 2012/685 (`q ≡ 3 mod 4`, `u² = -1`), as `Fq2::sqrt` computes it. -/
def alg9 (q : Nat) (u : K) (a : K) : Option K :=
  if a = 0 then some 0 else
    if (a ^ ((q - 1) / 2)) ^ q * a ^ ((q - 1) / 2) = -1 then none
    else if a ^ ((q - 1) / 2) = -1 then some (a ^ ((q - 3) / 4) * a * u)
    else some (a ^ ((q - 3) / 4) * a * (a ^ ((q - 1) / 2) + 1) ^ ((q - 1) / 2))

variable (q : Nat) (u : K)

theorem exp_arith1 (hq : q % 4 = 3) : 2 * ((q - 3) / 4) + 1 = (q - 1) / 2 := by omega

theorem exp_arith2 (hq : q % 4 = 3) : ((q - 1) / 2 * q + (q - 1) / 2) * 2 = q ^ 2 - 1 := by
  obtain ⟨k, rfl⟩ : ∃ k, q = 4 * k + 3 := ⟨q / 4, by omega⟩
  have e : (4 * k + 3 - 1) / 2 = 2 * k + 1 := by omega
  rw [e]
  symm
  apply Nat.sub_eq_of_eq_add
  ring

theorem exp_arith3 (hq : q % 4 = 3) : (q - 1) / 2 * 2 + 1 = q := by omega

/-- hypotheses of the abstract statement -/
structure Alg9Hyp : Prop where
  hq : q % 4 = 3
  card : ∀ x : K, x ≠ 0 → x ^ (q ^ 2 - 1) = 1
  frob_add_one : ∀ x : K, (x + 1) ^ q = x ^ q + 1
  hu : u * u = -1
  char_ne_two : (1 : K) ≠ -1

variable {q u}

theorem alg9_a0 (H : Alg9Hyp q u) (a : K) (ha : a ≠ 0) :
    (a ^ ((q - 1) / 2)) ^ q * a ^ ((q - 1) / 2) = 1 ∨
    (a ^ ((q - 1) / 2)) ^ q * a ^ ((q - 1) / 2) = -1 := by
  rw [← mul_self_eq_one_iff, ← pow_mul, ← pow_add, ← pow_add, ← two_mul, mul_comm 2,
    exp_arith2 q H.hq]
  exact H.card a ha

theorem alg9_sound (H : Alg9Hyp q u) (a b : K) (h : alg9 q u a = some b) : b * b = a := by
  unfold alg9 at h
  by_cases ha : a = 0
  · rw [if_pos ha] at h
    have : b = 0 := (Option.some.inj h).symm
    rw [this, ha, mul_zero]
  · rw [if_neg ha] at h
    by_cases h0 : (a ^ ((q - 1) / 2)) ^ q * a ^ ((q - 1) / 2) = -1
    · rw [if_pos h0] at h; exact absurd h (by simp)
    · rw [if_neg h0] at h
      have h01 := (alg9_a0 H a ha).resolve_right h0
      -- `x0² = α · a`
      have hx0 : a ^ ((q - 3) / 4) * a * (a ^ ((q - 3) / 4) * a) = a ^ ((q - 1) / 2) * a := by
        rw [← exp_arith1 q H.hq, pow_succ, two_mul, pow_add]; ring
      by_cases hα : a ^ ((q - 1) / 2) = -1
      · rw [if_pos hα] at h
        have hb : b = a ^ ((q - 3) / 4) * a * u := (Option.some.inj h).symm
        have : b * b = a ^ ((q - 3) / 4) * a * (a ^ ((q - 3) / 4) * a) * (u * u) := by
          rw [hb]; ring
        rw [this, hx0, hα, H.hu]; ring
      · rw [if_neg hα] at h
        have hb : b = a ^ ((q - 3) / 4) * a * (a ^ ((q - 1) / 2) + 1) ^ ((q - 1) / 2) :=
          (Option.some.inj h).symm
        generalize hαdef : a ^ ((q - 1) / 2) = α at *
        have hα1 : α + 1 ≠ 0 := fun h' => hα (eq_neg_of_add_eq_zero_left h')
        -- `(α+1)^(q-1) · α = 1`
        have hkey : ((α + 1) ^ ((q - 1) / 2)) * ((α + 1) ^ ((q - 1) / 2)) * α = 1 := by
          have e1 : ((α + 1) ^ ((q - 1) / 2)) * ((α + 1) ^ ((q - 1) / 2)) * (α + 1)
              = α ^ q + 1 := by
            rw [← pow_add, ← two_mul, mul_comm 2, ← pow_succ, exp_arith3 q H.hq, H.frob_add_one]
          have e2 : ((α + 1) ^ ((q - 1) / 2) * (α + 1) ^ ((q - 1) / 2) * α) * (α + 1)
              = 1 * (α + 1) := by
            calc _ = ((α + 1) ^ ((q - 1) / 2) * (α + 1) ^ ((q - 1) / 2) * (α + 1)) * α := by ring
              _ = (α ^ q + 1) * α := by rw [e1]
              _ = α ^ q * α + α := by ring
              _ = 1 * (α + 1) := by rw [h01]; ring
          exact mul_right_cancel₀ hα1 e2
        have : b * b = (a ^ ((q - 3) / 4) * a * (a ^ ((q - 3) / 4) * a)) *
            ((α + 1) ^ ((q - 1) / 2) * (α + 1) ^ ((q - 1) / 2)) := by
          rw [hb]; ring
        rw [this, hx0]
        calc α * a * ((α + 1) ^ ((q - 1) / 2) * (α + 1) ^ ((q - 1) / 2))
            = a * ((α + 1) ^ ((q - 1) / 2) * (α + 1) ^ ((q - 1) / 2) * α) := by ring
          _ = a := by rw [hkey, mul_one]

theorem alg9_none_iff (H : Alg9Hyp q u) (a : K) : alg9 q u a = none ↔ ¬ IsSquare a := by
  constructor
  · intro h ⟨c, hc⟩
    unfold alg9 at h
    by_cases ha : a = 0
    · rw [if_pos ha] at h; exact absurd h (by simp)
    · rw [if_neg ha] at h
      by_cases h0 : (a ^ ((q - 1) / 2)) ^ q * a ^ ((q - 1) / 2) = -1
      · have hc0 : c ≠ 0 := by rintro rfl; exact ha (by rw [hc, mul_zero])
        have : (a ^ ((q - 1) / 2)) ^ q * a ^ ((q - 1) / 2) = 1 := by
          rw [hc, ← pow_two, ← pow_mul, ← pow_mul, ← pow_mul, ← pow_add, ← mul_add,
            mul_comm 2, exp_arith2 q H.hq]
          exact H.card c hc0
        exact H.char_ne_two (this.symm.trans h0)
      · rw [if_neg h0] at h
        split at h <;> exact absurd h (by simp)
  · intro hns
    cases hs : alg9 q u a with
    | none => rfl
    | some b => exact absurd ⟨b, (alg9_sound H a b hs).symm⟩ hns

end Generic

/-! ### model-level facts about `Fq2` used by the bridge (no `Field Fq2` needed) -/

theorem square_eq_mul (a : Fq2) : Fq2.square a = Fq2.mul a a := by
  apply ext'
  · show (-a.c1 + a.c0) * (a.c0 + a.c1) - a.c0 * a.c1 + a.c0 * a.c1 = a.c0 * a.c0 - a.c1 * a.c1
    ring
  · show a.c0 * a.c1 + a.c0 * a.c1 =
      (a.c1 + a.c0) * (a.c0 + a.c1) - a.c0 * a.c0 - a.c1 * a.c1
    ring

theorem isZero_iff (a : Fq2) : Fq2.isZero a = true ↔ a = ⟨0, 0⟩ := by
  unfold Fq2.isZero
  rw [Bool.and_eq_true, Zp.isZero_iff, Zp.isZero_iff]
  constructor
  · rintro ⟨h0, h1⟩; exact ext' h0 h1
  · intro h; rw [h]; exact ⟨rfl, rfl⟩

theorem negOne_eq : Fq2.negOne = Fq2.neg ⟨1, 0⟩ := by
  unfold Fq2.negOne Fq2.neg
  rw [Fq.NEGATIVE_ONE_eq]
  simp only [neg_zero]

theorem u_mul_u : Fq2.mul ⟨0, 1⟩ ⟨0, 1⟩ = Fq2.neg ⟨1, 0⟩ := by
  apply ext'
  · show (0 : Fq) * 0 - 1 * 1 = -1; ring
  · show ((1 : Fq) + 0) * (0 + 1) - 0 * 0 - 1 * 1 = -0; ring

theorem frob_add (x y : Fq2) :
    Fq2.frobeniusMap (Fq2.add x y) 1 = Fq2.add (Fq2.frobeniusMap x 1) (Fq2.frobeniusMap y 1) := by
  unfold Fq2.frobeniusMap Fq2.add
  generalize Fq2.frobCoeffC1.getD (1 % 2) 0 = k
  dsimp only
  rw [add_mul]

theorem frob_one : Fq2.frobeniusMap ⟨1, 0⟩ 1 = ⟨1, 0⟩ := by
  unfold Fq2.frobeniusMap
  generalize Fq2.frobCoeffC1.getD (1 % 2) 0 = k
  dsimp only
  rw [zero_mul]

theorem EXP1_eq : Gen.FQ2_SQRT_EXP1 = (Gen.q - 3) / 4 := by decide +kernel
theorem EXP2_eq : Gen.FQ2_SQRT_EXP2 = (Gen.q - 1) / 2 := by decide +kernel
theorem EXP1_lt : Gen.FQ2_SQRT_EXP1 < 2 ^ (64 * 6) := by decide +kernel
theorem EXP2_lt : Gen.FQ2_SQRT_EXP2 < 2 ^ (64 * 6) := by decide +kernel

section Bridge
attribute [-instance] Fq2.instMul Fq2.instOne Fq2.instZero Fq2.instAdd Fq2.instNeg Fq2.instSub
  Fq2.instInhabited

/-- The hypotheses under which `Fq2.sqrt` is verified here, to be discharged by the tower proofs:
    a `Field Fq2` whose `* + - 0 1` are the model's (each of the first five fields holds by `rfl`
    for an instance built on the model's operations), Fermat's little theorem in `Fq2`, and
    `frobenius_map(1)` being the `q`-power map.  (Inside this section the model's own notation
    instances on `Fq2` are switched off, so `a * b`, `0`, `1`, … below are the field's.) -/
structure FieldHyp [Field Fq2] : Prop where
  mul_eq : ∀ a b : Fq2, a * b = Fq2.mul a b
  add_eq : ∀ a b : Fq2, a + b = Fq2.add a b
  neg_eq : ∀ a : Fq2, -a = Fq2.neg a
  zero_eq : (0 : Fq2) = ⟨0, 0⟩
  one_eq : (1 : Fq2) = ⟨1, 0⟩
  card : ∀ x : Fq2, x ≠ 0 → x ^ (Gen.q ^ 2 - 1) = 1
  frob1 : ∀ x : Fq2, Fq2.frobeniusMap x 1 = x ^ Gen.q

theorem instMul_eq [i : Mul Fq2] (h : ∀ a b : Fq2, a * b = Fq2.mul a b) : Fq2.instMul = i := by
  cases i with | mk f =>
  show Mul.mk Fq2.mul = Mul.mk f
  congr; funext a b; exact (h a b).symm

theorem instAdd_eq [i : Add Fq2] (h : ∀ a b : Fq2, a + b = Fq2.add a b) : Fq2.instAdd = i := by
  cases i with | mk f =>
  show Add.mk Fq2.add = Add.mk f
  congr; funext a b; exact (h a b).symm

theorem instOne_eq [i : One Fq2] (h : (1 : Fq2) = ⟨1, 0⟩) : Fq2.instOne = i := by
  cases i with | mk f =>
  exact congrArg One.mk h.symm

theorem instZero_eq [i : Zero Fq2] (h : (0 : Fq2) = ⟨0, 0⟩) : Fq2.instZero = i := by
  cases i with | mk f =>
  exact congrArg Zero.mk h.symm

variable [Field Fq2]

theorem alg9Hyp_of (H : FieldHyp) : Alg9Hyp (K := Fq2) Gen.q ⟨0, 1⟩ where
  hq := q_mod_four
  card := H.card
  frob_add_one x := by
    rw [← H.frob1, ← H.frob1, H.add_eq, H.add_eq, H.one_eq, frob_add, frob_one]
  hu := by rw [H.mul_eq, H.neg_eq, H.one_eq]; exact u_mul_u
  char_ne_two := by
    rw [H.neg_eq, H.one_eq]
    intro h
    have : (1 : Fq) = -1 := congrArg Fq2.c0 h
    exact Zp.one_ne_neg_one Fq.q_odd this

theorem sqrt_eq_alg9 (H : FieldHyp) (a : Fq2) : Fq2.sqrt a = alg9 Gen.q ⟨0, 1⟩ a := by
  have hM := instMul_eq H.mul_eq
  have hA := instAdd_eq H.add_eq
  have hO := instOne_eq H.one_eq
  have hZ := instZero_eq H.zero_eq
  unfold Fq2.sqrt
  rw [hM, hA, hO, hZ]
  have hsq : ∀ x : Fq2, sq x = x * x := fun x => by rw [H.mul_eq]; exact square_eq_mul x
  have hp1 : ∀ x : Fq2, powNat x Gen.FQ2_SQRT_EXP1 6 = x ^ ((Gen.q - 3) / 4) := fun x => by
    rw [PowLoop.powNat_eq_pow hsq x _ 6 EXP1_lt, EXP1_eq]
  have hp2 : ∀ x : Fq2, powNat x Gen.FQ2_SQRT_EXP2 6 = x ^ ((Gen.q - 1) / 2) := fun x => by
    rw [PowLoop.powNat_eq_pow hsq x _ 6 EXP2_lt, EXP2_eq]
  have hneg : Fq2.negOne = -1 := by rw [H.neg_eq, H.one_eq]; exact negOne_eq
  have hα : sq (a ^ ((Gen.q - 3) / 4)) * a = a ^ ((Gen.q - 1) / 2) := by
    rw [hsq, ← pow_add, ← pow_succ, ← two_mul, exp_arith1 Gen.q q_mod_four]
  simp only [hp1, hp2, hα, hneg, H.frob1]
  unfold alg9
  by_cases ha : a = 0
  · rw [if_pos ha, if_pos ((isZero_iff a).mpr (ha.trans H.zero_eq))]
  · rw [if_neg ha, if_neg (fun h => ha (((isZero_iff a).mp h).trans H.zero_eq.symm))]



/-- `Fq2.sqrt`: whatever is returned is a square root (under `FieldHyp`). -/
theorem fq2_sqrt_sound_of (H : FieldHyp) (a b : Fq2) (h : Fq2.sqrt a = some b) : b * b = a :=
  alg9_sound (alg9Hyp_of H) a b (by rw [← sqrt_eq_alg9 H]; exact h)

/-- `Fq2.sqrt` fails exactly on non-squares (under `FieldHyp`). -/
theorem fq2_sqrt_none_iff_of (H : FieldHyp) (a : Fq2) : Fq2.sqrt a = none ↔ ¬ IsSquare a := by
  rw [sqrt_eq_alg9 H]; exact alg9_none_iff (alg9Hyp_of H) a

/-- on squares `Fq2.sqrt` returns a root (under `FieldHyp`) -/
theorem fq2_sqrt_complete_of (H : FieldHyp) (a : Fq2) (h : IsSquare a) :
    ∃ b, Fq2.sqrt a = some b ∧ b * b = a := by
  cases hs : Fq2.sqrt a with
  | none => exact absurd h ((fq2_sqrt_none_iff_of H a).mp hs)
  | some b => exact ⟨b, rfl, fq2_sqrt_sound_of H a b hs⟩

/-- the decoder interface for `Fq2` (under `FieldHyp`) -/
theorem lawfulSqrtOps_of (H : FieldHyp) : LawfulSqrtOps Fq2 where
  sqrt_sound := fq2_sqrt_sound_of H
  sqrt_complete a h := (fq2_sqrt_none_iff_of H a).mp h
  lt_irrefl := lt_irrefl
  lt_asymm := lt_asymm
  lt_total := lt_total

end Bridge

end Fq2Sqrt
end PP
