/-
Bilinearity of the pairing in its first argument: from the textbook statement
(`BilinP2.reducedAte_add`) to the model's `pairing` and Mathlib's group `E(Fq) = (W g1Codec.b).Point`.

* `exists_line`: two finite points of `E(Fq)` whose sum is not `0` lie on a line with slope in `Fq`
  (chord, or tangent when they coincide: `E(Fq)` has no 2-torsion), whose Vieta relations
  (`LineZeros`) hold, and the sum is the reflected third point.
* `pairing_add`: `e(P₁ + P₂, Q) = e(P₁, Q) · e(P₂, Q)` for all `P₁, P₂ ∈ E(Fq)`, `Q ∈ G2`, identity
  included everywhere.
* `pairing_nsmul`, `pairing_zsmul`: `e([k]P, Q) = e(P, Q)^k`.
-/
import PP.Proofs.BilinP2
import PP.Props.C11Neg

namespace PP.BilinP

open Ate Miller Lines NegPair WeierstrassCurve.Affine

local notation "b₁" => g1Codec.b

/-- the group `E(Fq)` -/
abbrev E1 := (W b₁).Point

theorem g1_eqn {x y : Fq} (h : (W b₁).Nonsingular x y) : y ^ 2 = x ^ 3 + 4 := by
  have := (W_nonsingular_iff b₁ x y).mp h
  rwa [g1Codec_b] at this

/-- **the line through two points of `E(Fq)`** with `P₁ + P₂ ≠ 0` -/
theorem exists_line {x₁ y₁ x₂ y₂ : Fq} (h₁ : (W b₁).Nonsingular x₁ y₁)
    (h₂ : (W b₁).Nonsingular x₂ y₂) (hne : Point.some x₁ y₁ h₁ + Point.some x₂ y₂ h₂ ≠ 0) :
    ∃ lam : Fq, LineZeros (4 : Fq) lam (x₁, y₁) (x₂, y₂) ∧
      ∃ h₃, Point.some x₁ y₁ h₁ + Point.some x₂ y₂ h₂ =
        Point.some (sumOfSlope lam (x₁, y₁) (x₂, y₂)).1 (sumOfSlope lam (x₁, y₁) (x₂, y₂)).2 h₃ := by
  have e₁ := g1_eqn h₁
  have e₂ := g1_eqn h₂
  have hns : ∀ {lam : Fq}, LineZeros (4 : Fq) lam (x₁, y₁) (x₂, y₂) →
      (W b₁).Nonsingular (sumOfSlope lam (x₁, y₁) (x₂, y₂)).1 (sumOfSlope lam (x₁, y₁) (x₂, y₂)).2 :=
    fun hL => W_nonsingular b₁ (by rw [g1Codec_b]; exact hL.sum_onCurve)
  by_cases hx : x₁ = x₂
  · subst hx
    by_cases hy : y₁ = (W b₁).negY x₁ y₂
    · exact absurd (Point.add_of_Y_eq rfl hy) hne
    · have hyy : y₁ = y₂ := by
        rw [W_negY] at hy
        have h1 : (y₁ - y₂) * (y₁ + y₂) = 0 := by linear_combination e₁ - e₂
        rcases mul_eq_zero.mp h1 with h1 | h1
        · exact sub_eq_zero.mp h1
        · exact absurd (eq_neg_of_add_eq_zero_left h1) hy
      subst hyy
      have hy0 : y₁ ≠ 0 := by
        rintro rfl
        apply hy; rw [W_negY]; simp
      have hL : LineZeros (4 : Fq) (tangentSlope (x₁, y₁)) (x₁, y₁) (x₁, y₁) :=
        lineZeros_tangent fq_two_ne_zero e₁ hy0
      refine ⟨_, hL, hns hL, ?_⟩
      rw [Point.add_self_of_Y_ne hy, PP.Point.some_eq_some]
      constructor
      · simp only [W_addX, W_slope_self b₁ x₁ hy0, sumOfSlope, tangentSlope]
      · simp only [W_addY, W_slope_self b₁ x₁ hy0, sumOfSlope, tangentSlope]
        ring
  · have hL : LineZeros (4 : Fq) (chordSlope (x₁, y₁) (x₂, y₂)) (x₁, y₁) (x₂, y₂) :=
      lineZeros_chord e₁ e₂ hx
    have hsw : (y₁ - y₂) / (x₁ - x₂) = (y₂ - y₁) / (x₂ - x₁) := by
      rw [← neg_sub y₂, ← neg_sub x₂, neg_div_neg_eq]
    refine ⟨_, hL, hns hL, ?_⟩
    rw [Point.add_of_X_ne hx, PP.Point.some_eq_some]
    constructor
    · simp only [W_addX, W_slope_of_X_ne b₁ y₁ y₂ hx, sumOfSlope, chordSlope, hsw]
    · simp only [W_addY, W_slope_of_X_ne b₁ y₁ y₂ hx, sumOfSlope, chordSlope, hsw]
      ring

/-! ## the pairing of the model -/

/-- the pairing only depends on the point denoted by its first argument -/
theorem pairing_congr {p p' : Aff Fq} (q : Aff Fq2) (hp : Aff.OnCurve b₁ p) (hp' : Aff.OnCurve b₁ p')
    (h : Aff.abs b₁ p = Aff.abs b₁ p') : pairing p q = pairing p' q := by
  obtain ⟨hi, hxy⟩ := Aff.abs_injective hp hp' h
  cases hpi : p.infinity with
  | true =>
    rw [C11.pairing_identity p q (Or.inl hpi), C11.pairing_identity p' q (Or.inl (hi ▸ hpi))]
  | false =>
    obtain ⟨hx, hy⟩ := hxy hpi
    have : p = p' := by
      cases p; cases p'
      simp only at hx hy hi
      subst hx hy hi
      rfl
    rw [this]

/-- every point of `E(Fq)` is denoted by an affine record accepted by `is_on_curve` -/
theorem exists_aff (g : E1) : ∃ a : Aff Fq, a.isOnCurve b₁ = true ∧ Aff.abs b₁ a = g := by
  rcases g with _ | ⟨x, y, h⟩
  · refine ⟨⟨0, 1, true⟩, (Aff.isOnCurve_iff _ _).mpr (Or.inl rfl), ?_⟩
    exact Aff.abs_of_infinity rfl
  · have e := (W_nonsingular_iff b₁ x y).mp h
    exact ⟨⟨x, y, false⟩, (Aff.isOnCurve_iff _ _).mpr (Or.inr e), Aff.abs_mk_false e⟩

/-- **additivity, all points finite, sum finite** -/
theorem pairing_add_finite (p₁ p₂ p₃ : Aff Fq) (q : Aff Fq2) (hp₁ : p₁.isOnCurve b₁ = true)
    (hp₂ : p₂.isOnCurve b₁ = true) (hp₃ : p₃.isOnCurve b₁ = true)
    (hq : Aff.inSubgroup g2Codec.b q = true) (hi₁ : p₁.infinity = false) (hi₂ : p₂.infinity = false)
    (hi₃ : p₃.infinity = false) (hqi : q.infinity = false)
    (hsum : Aff.abs b₁ p₃ = Aff.abs b₁ p₁ + Aff.abs b₁ p₂) :
    pairing p₃ q = some (reducedAte (pair p₁) (pair q) * reducedAte (pair p₂) (pair q)) := by
  have hc₁ := (Aff.isOnCurve_iff _ p₁).mp hp₁
  have hc₂ := (Aff.isOnCurve_iff _ p₂).mp hp₂
  have hc₃ := (Aff.isOnCurve_iff _ p₃).mp hp₃
  have hq' := (Aff.inSubgroup_iff_inSub q).mp hq
  have h30 : Aff.abs b₁ p₃ ≠ 0 := fun h => by
    rw [Aff.abs_eq_zero_iff hc₃, hi₃] at h; cases h
  rw [Aff.abs_of_not_infinity hc₁ hi₁, Aff.abs_of_not_infinity hc₂ hi₂] at hsum
  obtain ⟨lam, hL, h₃, hadd⟩ := exists_line _ _ (hsum ▸ h30)
  rw [hadd, Aff.abs_of_not_infinity hc₃ hi₃] at hsum
  obtain ⟨ex, ey⟩ := PP.Point.some_eq_some.mp hsum
  have hp3 : pair p₃ = sumOfSlope lam (pair p₁) (pair p₂) := Prod.ext ex ey
  have hy₃ : (sumOfSlope lam (pair p₁) (pair p₂)).2 ≠ 0 := by
    rw [← hp3]; exact g1_y_ne_zero hc₃ hi₃
  rw [C03Lines.pairing_is_reduced_ate_checked p₃ q hp₃ hi₃ hq hqi]
  have := reducedAte_add lam (pair p₁) (pair p₂) hL hy₃ q hq' hqi
  rw [← hp3] at this
  exact congrArg some this

/-- **`e(P₁ + P₂, Q) = e(P₁, Q) · e(P₂, Q)`**: for all `P₁, P₂, P₃ ∈ E(Fq)` (accepted by
    `is_on_curve`, identity allowed) with `P₃ = P₁ + P₂` in the group, and all `Q ∈ G2` (accepted by
    `in_subgroup`, identity allowed); none of the three calls panics -/
theorem pairing_add (p₁ p₂ p₃ : Aff Fq) (q : Aff Fq2) (hp₁ : p₁.isOnCurve b₁ = true)
    (hp₂ : p₂.isOnCurve b₁ = true) (hp₃ : p₃.isOnCurve b₁ = true)
    (hq : Aff.inSubgroup g2Codec.b q = true)
    (hsum : Aff.abs b₁ p₃ = Aff.abs b₁ p₁ + Aff.abs b₁ p₂) :
    ∃ e₁ e₂ : Fq12, e₁ ≠ 0 ∧ e₂ ≠ 0 ∧ pairing p₁ q = some e₁ ∧ pairing p₂ q = some e₂ ∧
      pairing p₃ q = some (e₁ * e₂) := by
  have hc₁ := (Aff.isOnCurve_iff _ p₁).mp hp₁
  have hc₂ := (Aff.isOnCurve_iff _ p₂).mp hp₂
  have hc₃ := (Aff.isOnCurve_iff _ p₃).mp hp₃
  obtain ⟨e₁, h₁0, h₁⟩ := C11Neg.pairing_some p₁ q hp₁ hq
  obtain ⟨e₂, h₂0, h₂⟩ := C11Neg.pairing_some p₂ q hp₂ hq
  refine ⟨e₁, e₂, h₁0, h₂0, h₁, h₂, ?_⟩
  cases hqi : q.infinity with
  | true =>
    rw [C11.pairing_identity _ q (Or.inr hqi)] at h₁ h₂ ⊢
    rw [← Option.some.inj h₁, ← Option.some.inj h₂, one_mul]
  | false =>
  cases hi₁ : p₁.infinity with
  | true =>
    rw [C11.pairing_identity p₁ q (Or.inl hi₁)] at h₁
    rw [← Option.some.inj h₁, one_mul, ← h₂]
    apply pairing_congr q hc₃ hc₂
    rw [hsum, Aff.abs_of_infinity hi₁, zero_add]
  | false =>
  cases hi₂ : p₂.infinity with
  | true =>
    rw [C11.pairing_identity p₂ q (Or.inl hi₂)] at h₂
    rw [← Option.some.inj h₂, mul_one, ← h₁]
    apply pairing_congr q hc₃ hc₁
    rw [hsum, Aff.abs_of_infinity hi₂, add_zero]
  | false =>
  cases hi₃ : p₃.infinity with
  | true =>
    -- `P₂ = -P₁`
    have h0 : Aff.abs b₁ p₁ + Aff.abs b₁ p₂ = 0 := by rw [← hsum]; exact Aff.abs_of_infinity hi₃
    have hn : Aff.abs b₁ p₂ = Aff.abs b₁ p₁.neg := by
      rw [(Aff.neg_spec hc₁).2]; exact eq_neg_of_add_eq_zero_right h0
    have h₂' := C11Neg.pairing_neg_left_all p₁ q hp₁ hq e₁ h₁
    rw [← pairing_congr q hc₂ (Aff.neg_spec hc₁).1 hn, h₂] at h₂'
    rw [C11.pairing_identity p₃ q (Or.inl hi₃), Option.some.inj h₂', mul_inv_cancel₀ h₁0]
  | false =>
    rw [pairing_add_finite p₁ p₂ p₃ q hp₁ hp₂ hp₃ hq hi₁ hi₂ hi₃ hqi hsum]
    rw [C03Lines.pairing_is_reduced_ate_checked p₁ q hp₁ hi₁ hq hqi] at h₁
    rw [C03Lines.pairing_is_reduced_ate_checked p₂ q hp₂ hi₂ hq hqi] at h₂
    rw [← Option.some.inj h₁, ← Option.some.inj h₂]
    rfl

/-- **`e([k]P, Q) = e(P, Q)^k`**, `k : ℕ` -/
theorem pairing_nsmul (p : Aff Fq) (q : Aff Fq2) (hp : p.isOnCurve b₁ = true)
    (hq : Aff.inSubgroup g2Codec.b q = true) (e : Fq12) (he : pairing p q = some e) :
    ∀ (k : ℕ) (pk : Aff Fq), pk.isOnCurve b₁ = true → Aff.abs b₁ pk = k • Aff.abs b₁ p →
      pairing pk q = some (e ^ k) := by
  intro k
  induction k with
  | zero =>
    intro pk hpk hk
    rw [zero_nsmul, Aff.abs_eq_zero_iff ((Aff.isOnCurve_iff _ pk).mp hpk)] at hk
    rw [C11.pairing_identity pk q (Or.inl hk), pow_zero]
  | succ k ih =>
    intro pk hpk hk
    obtain ⟨pk', hpk', hk'⟩ := exists_aff (k • Aff.abs b₁ p)
    obtain ⟨e₁, e₂, -, -, h₁, h₂, h₃⟩ := pairing_add pk' p pk q hpk' hp hpk hq
      (by rw [hk, hk', succ_nsmul])
    rw [ih pk' hpk' hk'] at h₁
    rw [he] at h₂
    rw [h₃, ← Option.some.inj h₁, ← Option.some.inj h₂, pow_succ]

/-- **`e([z]P, Q) = e(P, Q)^z`**, `z : ℤ` -/
theorem pairing_zsmul (p : Aff Fq) (q : Aff Fq2) (hp : p.isOnCurve b₁ = true)
    (hq : Aff.inSubgroup g2Codec.b q = true) (e : Fq12) (he : pairing p q = some e) (z : ℤ)
    (pz : Aff Fq) (hpz : pz.isOnCurve b₁ = true) (hz : Aff.abs b₁ pz = z • Aff.abs b₁ p) :
    pairing pz q = some (e ^ z) := by
  cases z with
  | ofNat k =>
    rw [Int.ofNat_eq_natCast, natCast_zsmul] at hz
    rw [Int.ofNat_eq_natCast, zpow_natCast]
    exact pairing_nsmul p q hp hq e he k pz hpz hz
  | negSucc k =>
    rw [negSucc_zsmul] at hz
    have hcz := (Aff.isOnCurve_iff _ pz).mp hpz
    have hn : Aff.abs b₁ pz.neg = (k + 1) • Aff.abs b₁ p := by
      rw [(Aff.neg_spec hcz).2, hz, neg_neg]
    have h1 := pairing_nsmul p q hp hq e he (k + 1) pz.neg (C11Neg.neg_isOnCurve pz hpz) hn
    have h2 := C11Neg.pairing_neg_left_all pz.neg q (C11Neg.neg_isOnCurve pz hpz) hq _ h1
    have h3 : pairing pz.neg.neg q = pairing pz q :=
      pairing_congr q (Aff.neg_spec (Aff.neg_spec hcz).1).1 hcz
        (by rw [(Aff.neg_spec (Aff.neg_spec hcz).1).2, (Aff.neg_spec hcz).2, neg_neg])
    rw [← h3, h2, zpow_negSucc]

end PP.BilinP
