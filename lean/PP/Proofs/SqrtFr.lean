/-
C18 for `Fr`: the Legendre symbol and the derive-generated Tonelli–Shanks square root (`S = 32`).
Soundness, exact failure condition, and adequacy of the fuel of the model (the Rust loops terminate
and `m - i - 1` never underflows).
-/
import PP.Proofs.Sqrt

set_option linter.unusedSectionVars false

namespace PP
namespace Fr
open Primes

theorem r_odd : Gen.r % 2 = 1 := r_mod_two

/-! ### the extracted constants -/

theorem S_eq : Gen.fr_S = 32 := by decide
theorem LEGENDRE_EXP_eq : Gen.fr_LEGENDRE_EXP = (Gen.r - 1) / 2 := by decide +kernel
/-- `t`, the odd part of `r - 1` -/
theorem SQRT_T_EXP_eq : Gen.fr_SQRT_T_EXP = (Gen.r - 1) / 2 ^ 32 := by decide +kernel
/-- `(t + 1) / 2` -/
theorem SQRT_R_EXP_eq : Gen.fr_SQRT_R_EXP = ((Gen.r - 1) / 2 ^ 32 + 1) / 2 := by decide +kernel
/-- `r - 1 = 2^S · t` -/
theorem r_sub_one : Gen.r - 1 = 2 ^ 32 * Gen.fr_SQRT_T_EXP := by decide +kernel
/-- `t` is odd -/
theorem t_odd : Gen.fr_SQRT_T_EXP % 2 = 1 := by decide +kernel
theorem t_eq : 2 * Gen.fr_SQRT_R_EXP = Gen.fr_SQRT_T_EXP + 1 := by decide +kernel
theorem half_eq : (Gen.r - 1) / 2 = Gen.fr_SQRT_T_EXP * 2 ^ 31 := by decide +kernel
theorem LEGENDRE_EXP_lt : Gen.fr_LEGENDRE_EXP < 2 ^ (64 * 4) := by decide +kernel
theorem SQRT_T_EXP_lt : Gen.fr_SQRT_T_EXP < 2 ^ (64 * 4) := by decide +kernel
theorem SQRT_R_EXP_lt : Gen.fr_SQRT_R_EXP < 2 ^ (64 * 4) := by decide +kernel

/-- canonical value of a power, as a kernel-computable `powMod` -/
theorem pow_v (a : Fr) (n : Nat) : (a ^ n).v = powMod a.v n Gen.r := by
  rw [Zp.powMod_eq _ _ _ (by have := two_lt_r; omega)]
  rfl

theorem one_v : (1 : Fr).v = 1 := by decide +kernel

theorem neg_one_v : (-1 : Fr).v = Gen.r - 1 := by
  rw [Zp.neg_v_of_ne_zero 1 one_ne_zero, one_v]

/-- The `ROOT_OF_UNITY` constant has multiplicative order exactly `2^32`: its `2^31`-th power is
    `-1` (so `≠ 1`) … -/
theorem root_pow_half : (Fr.ofMont Gen.fr_ROOT_OF_UNITY) ^ (2 ^ 31) = -1 := by
  apply Zp.ext_v
  rw [pow_v, neg_one_v]
  decide +kernel

/-- … and its `2^32`-th power is `1`. -/
theorem root_pow_full : (Fr.ofMont Gen.fr_ROOT_OF_UNITY) ^ (2 ^ 32) = 1 := by
  rw [show (2 : Nat) ^ 32 = 2 ^ 31 * 2 from by norm_num, pow_mul, root_pow_half]; simp

theorem root_pow_half_ne_one : (Fr.ofMont Gen.fr_ROOT_OF_UNITY) ^ (2 ^ 31) ≠ 1 := by
  rw [root_pow_half]; exact (Zp.one_ne_neg_one r_odd).symm

/-! ### Legendre symbol -/

theorem legendre_eq (a : Fr) : Fr.legendre a =
    if a ^ ((Gen.r - 1) / 2) = 0 then .zero
    else if a ^ ((Gen.r - 1) / 2) = 1 then .residue else .nonResidue := by
  unfold Fr.legendre
  rw [PowLoop.Lawful.powNat_eq_pow a _ 4 LEGENDRE_EXP_lt, LEGENDRE_EXP_eq]

theorem legendre_zero_iff (a : Fr) : Fr.legendre a = .zero ↔ a = 0 := by
  rw [legendre_eq]; exact (Zp.legendre_ite r_odd a).1

theorem legendre_residue_iff (a : Fr) : Fr.legendre a = .residue ↔ a ≠ 0 ∧ IsSquare a := by
  rw [legendre_eq]; exact (Zp.legendre_ite r_odd a).2.1

theorem legendre_nonResidue_iff (a : Fr) : Fr.legendre a = .nonResidue ↔ ¬ IsSquare a := by
  rw [legendre_eq]; exact (Zp.legendre_ite r_odd a).2.2

/-! ### Tonelli–Shanks -/

theorem sq_eq (a : Fr) : sq a = a * a := rfl

/-- The inner loop finds the least `j ≥ i` with `t^(2^j) = 1`, provided one exists within the
    fuel. -/
theorem findI_spec (t : Fr) : ∀ (fuel i k : Nat), i ≤ k → k < i + fuel → t ^ (2 ^ k) = 1 →
    ∃ j, Fr.findI fuel (t ^ (2 ^ i)) i = some j ∧ i ≤ j ∧ j ≤ k ∧ t ^ (2 ^ j) = 1 ∧
      ∀ l, i ≤ l → l < j → t ^ (2 ^ l) ≠ 1
  | 0, i, k, hik, hk, _ => by omega
  | fuel + 1, i, k, hik, hk, h1 => by
    rw [Fr.findI]
    by_cases hi : t ^ (2 ^ i) = 1
    · rw [if_pos hi]
      exact ⟨i, rfl, le_refl _, hik, hi, fun l h1 h2 => by omega⟩
    · rw [if_neg hi]
      have hne : i ≠ k := fun e => hi (e ▸ h1)
      have hsq : sq (t ^ (2 ^ i)) = t ^ (2 ^ (i + 1)) := by
        rw [sq_eq, ← pow_two, ← pow_mul, ← pow_succ]
      rw [hsq]
      obtain ⟨j, hj, hij, hjk, hj1, hmin⟩ := findI_spec t fuel (i + 1) k (by omega) (by omega) h1
      refine ⟨j, hj, by omega, hjk, hj1, fun l hl1 hl2 => ?_⟩
      by_cases hli : l = i
      · subst hli; exact hi
      · exact hmin l (by omega) hl2

theorem tsLoop_succ (fuel : Nat) (c r t : Fr) (m : Nat) :
    Fr.tsLoop (fuel + 1) c r t m =
      if t = 1 then some r else
      match Fr.findI (Gen.fr_S + 1) (sq t) 1 with
      | none => none
      | some i =>
        if m < i + 1 then none else
        Fr.tsLoop fuel (sq (sqN c (m - i - 1))) (r * sqN c (m - i - 1))
          (t * sq (sqN c (m - i - 1))) i := rfl

/-- Loop invariant of Tonelli–Shanks (`r² = a·t`, `c^(2^(m-1)) = -1`, `t^(2^(m-1)) = 1`) implies
    that the outer loop terminates within `m` iterations with a square root of `a`, never taking
    the underflow / fuel-exhaustion exits. -/
theorem tsLoop_spec (a : Fr) : ∀ (fuel : Nat) (c r t : Fr) (m : Nat),
    m ≤ fuel → m ≤ 32 → 1 ≤ m → r * r = a * t → c ^ (2 ^ (m - 1)) = -1 → t ^ (2 ^ (m - 1)) = 1 →
    ∃ x, Fr.tsLoop fuel c r t m = some x ∧ x * x = a
  | 0, _, _, _, m, h1, _, h3, _, _, _ => by omega
  | fuel + 1, c, r, t, m, hmf, hm32, hm1, hr, hc, ht => by
    rw [tsLoop_succ]
    by_cases ht1 : t = 1
    · rw [if_pos ht1]
      exact ⟨r, rfl, by rw [hr, ht1, mul_one]⟩
    · rw [if_neg ht1]
      have hm2 : 2 ≤ m := by
        by_contra hlt
        have : m = 1 := by omega
        subst this
        exact ht1 (by simpa using ht)
      obtain ⟨j, hj, h1j, hjm, hj1, hmin⟩ :=
        findI_spec t (Gen.fr_S + 1) 1 (m - 1) (by omega) (by rw [S_eq]; omega) ht
      have hsqt : sq t = t ^ (2 ^ 1) := by rw [sq_eq]; simp [pow_two]
      rw [hsqt, hj]
      show ∃ x, (if m < j + 1 then none else _) = some x ∧ x * x = a
      rw [if_neg (by omega)]
      -- the invariant is re-established with `m := j`
      have hc1 : sqN c (m - j - 1) = c ^ (2 ^ (m - j - 1)) := PowLoop.Lawful.sqN_eq_pow _ _
      have hexp : 2 ^ (m - j - 1) * 2 * 2 ^ (j - 1) = 2 ^ (m - 1) := by
        rw [← pow_succ, ← pow_add]; congr 1; omega
      have hc2 : (sq (sqN c (m - j - 1))) ^ (2 ^ (j - 1)) = -1 := by
        rw [hc1, sq_eq, ← pow_two, ← pow_mul, ← pow_mul, ← mul_assoc, hexp, hc]
      -- `t^(2^(j-1)) = -1`: its square is `1` and it is not `1` by minimality of `j`
      have htj : t ^ (2 ^ (j - 1)) = -1 := by
        have hsq1 : t ^ (2 ^ (j - 1)) * t ^ (2 ^ (j - 1)) = 1 := by
          rw [← pow_two, ← pow_mul, ← pow_succ, show j - 1 + 1 = j by omega, hj1]
        have hne1 : t ^ (2 ^ (j - 1)) ≠ 1 := by
          by_cases hj1' : j = 1
          · subst hj1'; simpa using ht1
          · exact hmin (j - 1) (by omega) (by omega)
        exact (mul_self_eq_one_iff.mp hsq1).resolve_left hne1
      apply tsLoop_spec a fuel _ _ _ j (by omega) (by omega) h1j
      · have : r * sqN c (m - j - 1) * (r * sqN c (m - j - 1))
            = (r * r) * (sqN c (m - j - 1) * sqN c (m - j - 1)) := by ring
        rw [this, hr, sq_eq, mul_assoc]
      · exact hc2
      · rw [mul_pow, htj, hc2]; simp

/-- Full specification of the fuel-bounded model of `Fr::sqrt`: either `a` is a non-residue and the
    routine reports failure, or it returns a square root; the fuel is never exhausted. -/
theorem sqrtFuel_spec (a : Fr) :
    (¬ IsSquare a ∧ Fr.sqrtFuel a = some none) ∨ (∃ b, Fr.sqrtFuel a = some (some b) ∧ b * b = a) := by
  unfold Fr.sqrtFuel
  cases hL : Fr.legendre a with
  | zero =>
    right
    have : a = 0 := (legendre_zero_iff a).mp hL
    exact ⟨a, rfl, by rw [this]; simp⟩
  | nonResidue =>
    left
    exact ⟨(legendre_nonResidue_iff a).mp hL, rfl⟩
  | residue =>
    right
    obtain ⟨ha0, hsq⟩ := (legendre_residue_iff a).mp hL
    have heuler : a ^ ((Gen.r - 1) / 2) = 1 := (Zp.isSquare_iff_pow_half r_odd a ha0).mp hsq
    have hr : powNat a Gen.fr_SQRT_R_EXP 4 = a ^ Gen.fr_SQRT_R_EXP :=
      PowLoop.Lawful.powNat_eq_pow a _ 4 SQRT_R_EXP_lt
    have ht : powNat a Gen.fr_SQRT_T_EXP 4 = a ^ Gen.fr_SQRT_T_EXP :=
      PowLoop.Lawful.powNat_eq_pow a _ 4 SQRT_T_EXP_lt
    have h31 : Gen.fr_S - 1 = 31 := by decide
    obtain ⟨x, hx, hxx⟩ := tsLoop_spec a (Gen.fr_S + 1) (Fr.ofMont Gen.fr_ROOT_OF_UNITY)
      (powNat a Gen.fr_SQRT_R_EXP 4) (powNat a Gen.fr_SQRT_T_EXP 4) Gen.fr_S
      (by omega) (by rw [S_eq]) (by rw [S_eq]; omega)
      (by rw [hr, ht, ← pow_add, ← two_mul, t_eq, pow_succ, mul_comm])
      (by rw [h31]; exact root_pow_half)
      (by rw [h31, ht, ← pow_mul, ← half_eq]; exact heuler)
    refine ⟨x, ?_, hxx⟩
    show (match Fr.tsLoop (Gen.fr_S + 1) _ _ _ Gen.fr_S with
      | none => none | some x => some (some x)) = some (some x)
    rw [hx]

/-- fuel adequacy: the Rust loops terminate on every input -/
theorem sqrtFuel_ne_none (a : Fr) : Fr.sqrtFuel a ≠ none := by
  rcases sqrtFuel_spec a with ⟨_, h⟩ | ⟨b, h, _⟩ <;> rw [h] <;> simp

theorem sqrtFuel_sound (a b : Fr) (h : Fr.sqrtFuel a = some (some b)) : b * b = a := by
  rcases sqrtFuel_spec a with ⟨_, h'⟩ | ⟨b', h', hb⟩
  · rw [h'] at h; exact absurd h (by simp)
  · rw [h'] at h
    have : b' = b := by simpa using h
    exact this ▸ hb

theorem sqrtFuel_none_iff (a : Fr) : Fr.sqrtFuel a = some none ↔ ¬ IsSquare a := by
  rcases sqrtFuel_spec a with ⟨hn, h'⟩ | ⟨b', h', hb⟩
  · simp [h', hn]
  · rw [h']
    have : IsSquare a := ⟨b', hb.symm⟩
    simp [this]

theorem sqrt_sound (a b : Fr) (h : Fr.sqrt a = some b) : b * b = a := by
  unfold Fr.sqrt at h
  rcases sqrtFuel_spec a with ⟨_, h'⟩ | ⟨b', h', hb⟩
  · rw [h'] at h; exact absurd h (by simp)
  · rw [h'] at h
    have : b' = b := by simpa using h
    exact this ▸ hb

theorem sqrt_none_iff (a : Fr) : Fr.sqrt a = none ↔ ¬ IsSquare a := by
  unfold Fr.sqrt
  rcases sqrtFuel_spec a with ⟨hn, h'⟩ | ⟨b', h', hb⟩
  · simp [h', hn]
  · rw [h']
    have : IsSquare a := ⟨b', hb.symm⟩
    simp [this]

theorem sqrt_complete (a : Fr) (h : IsSquare a) : ∃ b, Fr.sqrt a = some b ∧ b * b = a := by
  cases hs : Fr.sqrt a with
  | none => exact absurd h ((sqrt_none_iff a).mp hs)
  | some b => exact ⟨b, rfl, sqrt_sound a b hs⟩

theorem sgn0_neg (y : Fr) (hy : y ≠ 0) : Zp.sgn0 (-y) ≠ Zp.sgn0 y := Zp.sgn0_neg r_odd y hy

end Fr

instance : LawfulSqrtOps Fr where
  sqrt_sound := Fr.sqrt_sound
  sqrt_complete a h := (Fr.sqrt_none_iff a).mp h
  lt_irrefl := Zp.lt_irrefl
  lt_asymm := Zp.lt_asymm
  lt_total := Zp.lt_total

end PP
