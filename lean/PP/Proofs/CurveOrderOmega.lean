/-
Curve orders, the automorphism of order three.

On `y² = x³ + b` (any field, characteristic not 2 or 3, `b ≠ 0`) and for `β` with `β² + β + 1 = 0`
the map `ω : (x, y) ↦ (β x, y)` is an additive endomorphism of Mathlib's group `(W b).Point`
(chord/tangent slopes are multiplied by `β⁻¹ = β²`, `addX` by `β`, `addY` is unchanged), and
`ω² + ω + 1 = 0` (the points `(x, y)`, `(β x, y)`, `(β² x, y)` lie on the line `Y = y`).
-/
import PP.Proofs.CurveSpec

set_option linter.unusedSectionVars false

namespace PP.CurveOrder

open WeierstrassCurve.Affine

variable {F : Type} [Field F] [DecidableEq F] {b : F} [ShortW b] {β : F}

theorem beta_cube (hβ : β ^ 2 + β + 1 = 0) : β ^ 3 = 1 := by
  linear_combination (β - 1) * hβ

theorem beta_ne_zero (hβ : β ^ 2 + β + 1 = 0) : β ≠ 0 := by
  rintro rfl
  simp at hβ

theorem beta_ne_one (b : F) [ShortW b] (hβ : β ^ 2 + β + 1 = 0) : β ≠ 1 := by
  rintro rfl
  apply ShortW.three_ne (b := b)
  linear_combination hβ

/-! ## Mathlib's formulas on `y² = x³ + b` (restated without the model's `FieldOps`) -/

private theorem slope_ne (b : F) {x₁ x₂ : F} (y₁ y₂ : F) (hx : x₁ ≠ x₂) :
    (W b).slope x₁ x₂ y₁ y₂ = (y₁ - y₂) / (x₁ - x₂) := slope_of_X_ne hx

private theorem y_ne_negY (b : F) [ShortW b] (x : F) {y : F} (hy : y ≠ 0) : y ≠ (W b).negY x y := by
  rw [W_negY]; intro h
  have : 2 * y = 0 := by linear_combination h
  exact (mul_ne_zero (ShortW.two_ne (b := b)) hy) this

private theorem slope_self (b : F) [ShortW b] (x : F) {y : F} (hy : y ≠ 0) :
    (W b).slope x x y y = 3 * x ^ 2 / (2 * y) := by
  rw [slope_of_Y_ne rfl (y_ne_negY b x hy), W_negY]
  simp only [W_a₁, W_a₂, W_a₄]
  congr 1 <;> ring

private theorem addX_eq (b x₁ x₂ ℓ : F) : (W b).addX x₁ x₂ ℓ = ℓ ^ 2 - x₁ - x₂ := by
  simp [addX]

private theorem addY_eq (b x₁ x₂ y₁ ℓ : F) :
    (W b).addY x₁ x₂ y₁ ℓ = -(ℓ * (ℓ ^ 2 - x₁ - x₂ - x₁) + y₁) := by
  simp [addY, negAddY, addX]

/-! ## the map -/

theorem omega_nonsingular (hβ : β ^ 2 + β + 1 = 0) {x y : F} (h : (W b).Nonsingular x y) :
    (W b).Nonsingular (β * x) y := by
  apply W_nonsingular b
  have := (W_nonsingular_iff b x y).mp h
  linear_combination this - x ^ 3 * beta_cube hβ

/-- `(x, y) ↦ (β x, y)` -/
def omegaFun (hβ : β ^ 2 + β + 1 = 0) : (W b).Point → (W b).Point
  | .zero => .zero
  | .some x y h => .some (β * x) y (omega_nonsingular hβ h)

theorem omegaFun_zero (hβ : β ^ 2 + β + 1 = 0) : omegaFun hβ (0 : (W b).Point) = 0 := rfl

theorem omegaFun_some (hβ : β ^ 2 + β + 1 = 0) {x y : F} (h : (W b).Nonsingular x y) :
    omegaFun hβ (Point.some x y h) = Point.some (β * x) y (omega_nonsingular hβ h) := rfl

theorem omegaFun_add (hβ : β ^ 2 + β + 1 = 0) (P Q : (W b).Point) :
    omegaFun hβ (P + Q) = omegaFun hβ P + omegaFun hβ Q := by
  have h3 := beta_cube hβ
  have hβ0 := beta_ne_zero hβ
  rcases P with _ | ⟨x₁, y₁, h₁⟩
  · change omegaFun hβ (0 + Q) = 0 + omegaFun hβ Q
    rw [zero_add, zero_add]
  rcases Q with _ | ⟨x₂, y₂, h₂⟩
  · change omegaFun hβ (_ + 0) = _ + 0
    rw [add_zero, add_zero]
  have e₁ : y₁ ^ 2 = x₁ ^ 3 + b := (W_nonsingular_iff b x₁ y₁).mp h₁
  have e₂ : y₂ ^ 2 = x₂ ^ 3 + b := (W_nonsingular_iff b x₂ y₂).mp h₂
  rw [omegaFun_some, omegaFun_some]
  by_cases hx : x₁ = x₂
  · subst hx
    by_cases hy : y₁ = (W b).negY x₁ y₂
    · rw [Point.add_of_Y_eq rfl hy, Point.add_of_Y_eq rfl (by rw [W_negY] at hy ⊢; exact hy)]
      rfl
    · -- doubling
      have hyy : y₁ = y₂ := by
        rw [W_negY] at hy
        have h1 : (y₁ - y₂) * (y₁ + y₂) = 0 := by linear_combination e₁ - e₂
        rcases mul_eq_zero.mp h1 with h1 | h1
        · exact sub_eq_zero.mp h1
        · exact absurd (eq_neg_of_add_eq_zero_left h1) hy
      subst hyy
      have hy0 : y₁ ≠ 0 := by
        rintro rfl
        apply hy; rw [W_negY]; simp
      rw [Point.add_self_of_Y_ne hy, Point.add_self_of_Y_ne (y_ne_negY b (β * x₁) hy0), omegaFun_some,
        PP.Point.some_eq_some]
      have h2 : (2 : F) ≠ 0 := ShortW.two_ne (b := b)
      simp only [addX_eq, addY_eq, slope_self b _ hy0]
      constructor
      · field_simp
        linear_combination (-(9 : F) * x₁ ^ 4) * h3
      · field_simp
        linear_combination
          (-(36 : F) * x₁ ^ 3 * y₁ ^ 2 + 27 * x₁ ^ 6 * (β ^ 3 + 1)) * h3
  · have hx' : β * x₁ ≠ β * x₂ := fun h => hx (mul_left_cancel₀ hβ0 h)
    rw [Point.add_of_X_ne hx, Point.add_of_X_ne hx', omegaFun_some, PP.Point.some_eq_some]
    have hd : x₁ - x₂ ≠ 0 := sub_ne_zero.mpr hx
    have hd' : β * x₁ - β * x₂ ≠ 0 := sub_ne_zero.mpr hx'
    simp only [addX_eq, addY_eq, slope_ne b _ _ hx, slope_ne b _ _ hx']
    constructor
    · field_simp
      linear_combination ((y₁ - y₂) ^ 2) * h3
    · field_simp
      linear_combination (-(y₁ - y₂) ^ 3) * h3

/-- `ω` as an endomorphism of the group of points -/
def omega (hβ : β ^ 2 + β + 1 = 0) : (W b).Point →+ (W b).Point :=
  AddMonoidHom.mk' (omegaFun hβ) (omegaFun_add hβ)

theorem omega_some (hβ : β ^ 2 + β + 1 = 0) {x y : F} (h : (W b).Nonsingular x y) :
    omega hβ (Point.some x y h) = Point.some (β * x) y (omega_nonsingular hβ h) := rfl

theorem omega_injective (hβ : β ^ 2 + β + 1 = 0) :
    Function.Injective (omega (b := b) hβ) := by
  rw [injective_iff_map_eq_zero]
  rintro (_ | ⟨x, y, h⟩) e
  · rfl
  · rw [omega_some] at e
    exact absurd e (Point.some_ne_zero _)

/-- **`ω² + ω + 1 = 0`** -/
theorem omega_quadratic (hβ : β ^ 2 + β + 1 = 0) (P : (W b).Point) :
    omega hβ (omega hβ P) + omega hβ P + P = 0 := by
  have hβ0 := beta_ne_zero hβ
  have hβ1 := beta_ne_one b hβ
  rcases P with _ | ⟨x, y, h⟩
  · change omega hβ (omega hβ 0) + omega hβ 0 + 0 = 0
    rw [map_zero, map_zero, add_zero, add_zero]
  have e : y ^ 2 = x ^ 3 + b := (W_nonsingular_iff b x y).mp h
  rw [omega_some, omega_some]
  by_cases hx : x = 0
  · subst hx
    have hy0 : y ≠ 0 := by
      rintro rfl
      apply ShortW.b_ne (b := b)
      linear_combination -e
    have e0 : Point.some (β * (β * 0)) y (omega_nonsingular hβ (omega_nonsingular hβ h)) =
        Point.some 0 y h := by rw [PP.Point.some_eq_some]; simp
    have e1 : Point.some (β * 0) y (omega_nonsingular hβ h) = Point.some 0 y h := by
      rw [PP.Point.some_eq_some]; simp
    rw [e0, e1, Point.add_self_of_Y_ne (y_ne_negY b 0 hy0)]
    apply Point.add_of_Y_eq
    · simp only [addX_eq, slope_self b _ hy0]; simp
    · simp only [addY_eq, slope_self b _ hy0, W_negY]; simp
  · have hne : β * (β * x) ≠ β * x := by
      intro hc
      have : (β - 1) * (β * x) = 0 := by linear_combination hc
      rcases mul_eq_zero.mp this with h1 | h1
      · exact hβ1 (sub_eq_zero.mp h1)
      · exact (mul_ne_zero hβ0 hx) h1
    rw [Point.add_of_X_ne hne]
    apply Point.add_of_Y_eq
    · simp only [addX_eq, slope_ne b _ _ hne]
      rw [sub_self, zero_div]
      linear_combination (-x) * hβ
    · simp only [addY_eq, slope_ne b _ _ hne, W_negY]
      rw [sub_self, zero_div]
      ring

end PP.CurveOrder
