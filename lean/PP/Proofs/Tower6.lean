/-
C09, layer 2: the model type `Fq6` with the model's own `+ - * neg 0 1` is the commutative ring
`Fq2[v]/(v³ - ξ)`, `ξ = 1 + u`.  (Field structure: `PP.Proofs.TowerField`.)
-/
import PP.Proofs.Tower2

set_option linter.unusedSectionVars false

namespace PP
namespace Fq6

open Fq2 (xi)

@[ext] theorem ext {a b : Fq6} (h0 : a.c0 = b.c0) (h1 : a.c1 = b.c1) (h2 : a.c2 = b.c2) : a = b := by
  cases a; cases b; simp_all

@[simp] theorem zero_c0 : (0 : Fq6).c0 = 0 := rfl
@[simp] theorem zero_c1 : (0 : Fq6).c1 = 0 := rfl
@[simp] theorem zero_c2 : (0 : Fq6).c2 = 0 := rfl
@[simp] theorem one_c0 : (1 : Fq6).c0 = 1 := rfl
@[simp] theorem one_c1 : (1 : Fq6).c1 = 0 := rfl
@[simp] theorem one_c2 : (1 : Fq6).c2 = 0 := rfl
@[simp] theorem add_c0 (a b : Fq6) : (a + b).c0 = a.c0 + b.c0 := rfl
@[simp] theorem add_c1 (a b : Fq6) : (a + b).c1 = a.c1 + b.c1 := rfl
@[simp] theorem add_c2 (a b : Fq6) : (a + b).c2 = a.c2 + b.c2 := rfl
@[simp] theorem sub_c0 (a b : Fq6) : (a - b).c0 = a.c0 - b.c0 := rfl
@[simp] theorem sub_c1 (a b : Fq6) : (a - b).c1 = a.c1 - b.c1 := rfl
@[simp] theorem sub_c2 (a b : Fq6) : (a - b).c2 = a.c2 - b.c2 := rfl
@[simp] theorem neg_c0 (a : Fq6) : (-a).c0 = -a.c0 := rfl
@[simp] theorem neg_c1 (a : Fq6) : (-a).c1 = -a.c1 := rfl
@[simp] theorem neg_c2 (a : Fq6) : (-a).c2 = -a.c2 := rfl

/-! ### the (Toom/Karatsuba style) product is the schoolbook product modulo `v³ = ξ` -/

theorem mul_c0 (a b : Fq6) :
    (a * b).c0 = a.c0 * b.c0 + xi * (a.c1 * b.c2 + a.c2 * b.c1) := by
  show ((b.c1 + b.c2) * (a.c1 + a.c2) - a.c1 * b.c1 - a.c2 * b.c2).mulByNonresidue
    + a.c0 * b.c0 = _
  rw [Fq2.mulByNonresidue_eq]; ring

theorem mul_c1 (a b : Fq6) :
    (a * b).c1 = a.c0 * b.c1 + a.c1 * b.c0 + xi * (a.c2 * b.c2) := by
  show (b.c0 + b.c1) * (a.c0 + a.c1) - a.c0 * b.c0 - a.c1 * b.c1
    + (a.c2 * b.c2).mulByNonresidue = _
  rw [Fq2.mulByNonresidue_eq]; ring

theorem mul_c2 (a b : Fq6) :
    (a * b).c2 = a.c0 * b.c2 + a.c1 * b.c1 + a.c2 * b.c0 := by
  show (b.c0 + b.c2) * (a.c0 + a.c2) - a.c0 * b.c0 + a.c1 * b.c1 - a.c2 * b.c2 = _
  ring

theorem mul_spec (a b : Fq6) :
    (a * b).c0 = a.c0 * b.c0 + xi * (a.c1 * b.c2 + a.c2 * b.c1) ∧
    (a * b).c1 = a.c0 * b.c1 + a.c1 * b.c0 + xi * (a.c2 * b.c2) ∧
    (a * b).c2 = a.c0 * b.c2 + a.c1 * b.c1 + a.c2 * b.c0 :=
  ⟨mul_c0 a b, mul_c1 a b, mul_c2 a b⟩

/-! ### the ring structure on the model's operations -/

instance : NatCast Fq6 := ⟨fun n => ⟨(n : Fq2), 0, 0⟩⟩
instance : IntCast Fq6 := ⟨fun z => ⟨(z : Fq2), 0, 0⟩⟩
instance : SMul ℕ Fq6 := ⟨fun n a => ⟨n • a.c0, n • a.c1, n • a.c2⟩⟩
instance : SMul ℤ Fq6 := ⟨fun z a => ⟨z • a.c0, z • a.c1, z • a.c2⟩⟩

@[simp] theorem natCast_c0 (n : ℕ) : ((n : Fq6)).c0 = (n : Fq2) := rfl
@[simp] theorem natCast_c1 (n : ℕ) : ((n : Fq6)).c1 = 0 := rfl
@[simp] theorem natCast_c2 (n : ℕ) : ((n : Fq6)).c2 = 0 := rfl
@[simp] theorem intCast_c0 (n : ℤ) : ((n : Fq6)).c0 = (n : Fq2) := rfl
@[simp] theorem intCast_c1 (n : ℤ) : ((n : Fq6)).c1 = 0 := rfl
@[simp] theorem intCast_c2 (n : ℤ) : ((n : Fq6)).c2 = 0 := rfl
@[simp] theorem nsmul_c0 (n : ℕ) (a : Fq6) : (n • a).c0 = n • a.c0 := rfl
@[simp] theorem nsmul_c1 (n : ℕ) (a : Fq6) : (n • a).c1 = n • a.c1 := rfl
@[simp] theorem nsmul_c2 (n : ℕ) (a : Fq6) : (n • a).c2 = n • a.c2 := rfl
@[simp] theorem zsmul_c0 (n : ℤ) (a : Fq6) : (n • a).c0 = n • a.c0 := rfl
@[simp] theorem zsmul_c1 (n : ℤ) (a : Fq6) : (n • a).c1 = n • a.c1 := rfl
@[simp] theorem zsmul_c2 (n : ℤ) (a : Fq6) : (n • a).c2 = n • a.c2 := rfl

instance instCommRing : CommRing Fq6 where
  add := (· + ·)
  mul := (· * ·)
  neg := Neg.neg
  sub := (· - ·)
  zero := 0
  one := 1
  add_assoc a b c := by ext1 <;> simp [add_assoc]
  zero_add a := by ext1 <;> simp
  add_zero a := by ext1 <;> simp
  add_comm a b := by ext1 <;> simp [add_comm]
  neg_add_cancel a := by ext1 <;> simp
  sub_eq_add_neg a b := by ext1 <;> simp [sub_eq_add_neg]
  mul_assoc a b c := by ext1 <;> simp only [mul_c0, mul_c1, mul_c2] <;> ring
  one_mul a := by ext1 <;> simp [mul_c0, mul_c1, mul_c2]
  mul_one a := by ext1 <;> simp [mul_c0, mul_c1, mul_c2]
  left_distrib a b c := by
    ext1 <;> simp only [mul_c0, mul_c1, mul_c2, add_c0, add_c1, add_c2] <;> ring
  right_distrib a b c := by
    ext1 <;> simp only [mul_c0, mul_c1, mul_c2, add_c0, add_c1, add_c2] <;> ring
  mul_comm a b := by ext1 <;> simp only [mul_c0, mul_c1, mul_c2] <;> ring
  zero_mul a := by ext1 <;> simp [mul_c0, mul_c1, mul_c2]
  mul_zero a := by ext1 <;> simp [mul_c0, mul_c1, mul_c2]
  nsmul := (· • ·)
  nsmul_zero a := by ext1 <;> simp
  nsmul_succ n a := by ext1 <;> simp [add_smul]
  zsmul := (· • ·)
  zsmul_zero' a := by ext1 <;> simp
  zsmul_succ' n a := by ext1 <;> simp [add_smul]
  zsmul_neg' n a := by ext1 <;> simp [add_smul] <;> ring
  natCast := Nat.cast
  natCast_zero := by ext1 <;> simp
  natCast_succ n := by ext1 <;> simp
  intCast := Int.cast
  intCast_ofNat n := by ext1 <;> simp
  intCast_negSucc n := by ext1 <;> simp

/-! ### distinguished elements, embedding of `Fq2` -/

/-- the generator `v` (`v³ = ξ`) -/
def v : Fq6 := ⟨0, 1, 0⟩

/-- `Fq2 → Fq6`, `c ↦ c + 0·v + 0·v²` -/
def ofFq2 : Fq2 →+* Fq6 where
  toFun c := ⟨c, 0, 0⟩
  map_one' := rfl
  map_zero' := rfl
  map_mul' a b := by ext1 <;> simp [mul_c0, mul_c1, mul_c2]
  map_add' a b := by ext1 <;> simp

@[simp] theorem ofFq2_c0 (c : Fq2) : (ofFq2 c).c0 = c := rfl
@[simp] theorem ofFq2_c1 (c : Fq2) : (ofFq2 c).c1 = 0 := rfl
@[simp] theorem ofFq2_c2 (c : Fq2) : (ofFq2 c).c2 = 0 := rfl

theorem ofFq2_injective : Function.Injective ofFq2 := fun a b h => by
  simpa using congrArg Fq6.c0 h

theorem v_mul_v : v * v = ⟨0, 0, 1⟩ := by ext1 <;> simp [mul_c0, mul_c1, mul_c2, v]
theorem v_cube : v * v * v = ofFq2 xi := by
  rw [v_mul_v]; ext1 <;> simp [mul_c0, mul_c1, mul_c2, v]
theorem v_pow_three : v ^ 3 = ofFq2 xi := by rw [← v_cube]; ring

/-- every element is `c0 + c1·v + c2·v²` -/
theorem eq_add_mul_v (a : Fq6) : a = ofFq2 a.c0 + ofFq2 a.c1 * v + ofFq2 a.c2 * (v * v) := by
  rw [v_mul_v]; ext1 <;> simp [mul_c0, mul_c1, mul_c2, v]

/-- multiplication by an `Fq2` scalar is componentwise -/
theorem mul_ofFq2 (a : Fq6) (c : Fq2) : a * ofFq2 c = ⟨a.c0 * c, a.c1 * c, a.c2 * c⟩ := by
  ext1 <;> simp [mul_c0, mul_c1, mul_c2]
theorem ofFq2_mul (c : Fq2) (a : Fq6) : ofFq2 c * a = ⟨c * a.c0, c * a.c1, c * a.c2⟩ := by
  ext1 <;> simp [mul_c0, mul_c1, mul_c2]

/-! ### the remaining model operations against the ring operations -/

theorem add_eq (a b : Fq6) : Fq6.add a b = a + b := rfl
theorem sub_eq (a b : Fq6) : Fq6.sub a b = a - b := rfl
theorem neg_eq (a : Fq6) : Fq6.neg a = -a := rfl
theorem mul_eq (a b : Fq6) : Fq6.mul a b = a * b := rfl

theorem double_eq (a : Fq6) : double a = a + a := rfl
theorem dbl_eq (a : Fq6) : dbl a = a + a := rfl

theorem square_eq (a : Fq6) : square a = a * a := by
  ext1
  · rw [mul_c0]
    show (dbl (a.c1 * a.c2)).mulByNonresidue + sq a.c0 = _
    rw [Fq2.mulByNonresidue_eq, Fq2.sq_eq, Fq2.dbl_eq]; ring
  · rw [mul_c1]
    show (sq a.c2).mulByNonresidue + dbl (a.c0 * a.c1) = _
    rw [Fq2.mulByNonresidue_eq, Fq2.sq_eq, Fq2.dbl_eq]; ring
  · rw [mul_c2]
    show dbl (a.c0 * a.c1) + sq (a.c0 - a.c1 + a.c2) + dbl (a.c1 * a.c2) - sq a.c0 - sq a.c2 = _
    simp only [Fq2.sq_eq, Fq2.dbl_eq]; ring

theorem sq_eq (a : Fq6) : sq a = a * a := square_eq a

/-- `mul_by_nonresidue` on `Fq6` is multiplication by `v` -/
theorem mulByNonresidue_eq (a : Fq6) : mulByNonresidue a = a * v := by
  ext1
  · rw [mul_c0]; show a.c2.mulByNonresidue = _; rw [Fq2.mulByNonresidue_eq]; simp [v]; ring
  · rw [mul_c1]; show a.c0 = _; simp [v]
  · rw [mul_c2]; show a.c1 = _; simp [v]

/-- sparse product `mul_by_1` = dense product with `(0, c1, 0)` -/
theorem mulBy1_eq (a : Fq6) (c1 : Fq2) : mulBy1 a c1 = a * ⟨0, c1, 0⟩ := by
  ext1
  · rw [mul_c0]
    show (c1 * (a.c1 + a.c2) - a.c1 * c1).mulByNonresidue = _
    rw [Fq2.mulByNonresidue_eq]; simp only []; ring
  · rw [mul_c1]
    show c1 * (a.c0 + a.c1) - a.c1 * c1 = _
    simp only []; ring
  · rw [mul_c2]
    show a.c1 * c1 = _
    simp only []; ring

/-- sparse product `mul_by_01` = dense product with `(c0, c1, 0)` -/
theorem mulBy01_eq (a : Fq6) (c0 c1 : Fq2) : mulBy01 a c0 c1 = a * ⟨c0, c1, 0⟩ := by
  ext1
  · rw [mul_c0]
    show (c1 * (a.c1 + a.c2) - a.c1 * c1).mulByNonresidue + a.c0 * c0 = _
    rw [Fq2.mulByNonresidue_eq]; simp only []; ring
  · rw [mul_c1]
    show (c0 + c1) * (a.c0 + a.c1) - a.c0 * c0 - a.c1 * c1 = _
    simp only []; ring
  · rw [mul_c2]
    show c0 * (a.c0 + a.c2) - a.c0 * c0 + a.c1 * c1 = _
    simp only []; ring

theorem isZero_iff (a : Fq6) : isZero a = true ↔ a = 0 := by
  unfold isZero
  rw [Bool.and_eq_true, Bool.and_eq_true, Fq2.isZero_iff, Fq2.isZero_iff, Fq2.isZero_iff]
  constructor
  · rintro ⟨⟨h0, h1⟩, h2⟩; ext1 <;> simp [h0, h1, h2]
  · rintro rfl; exact ⟨⟨rfl, rfl⟩, rfl⟩

end Fq6
end PP
