/-
C12: the final exponentiation of the model (`PP.finalExponentiation`, mirror of
`Engine::final_exponentiation`) is `f ↦ f ^ (3 (q¹² - 1) / r)` on non-zero `f` and fails exactly on `0`.

Method: exponent tracking.  Every intermediate value of the routine is a power `f ^ e` of the input with
an explicit natural exponent: `conjugate g = g ^ q⁶`, `frobeniusMap g k = g ^ qᵏ` (`TowerFrob`),
`powLimbs g [x] = g ^ x` (`PowLoop`), `inverse f = some f⁻¹` with `f⁻¹ = f ^ (q¹² - 2)`, products add
exponents.  The exponent computed by the code is `feExp` below (a closed expression in `q`, `BLS_X`); the
kernel checks `feExp ≡ 3 (q¹² - 1) / r  (mod q¹² - 1)`, and `f ^ (q¹² - 1) = 1`.
-/
import Mathlib.Algebra.Field.Subfield.Basic
import Mathlib.Algebra.CharP.Algebra
import Mathlib.FieldTheory.Finite.Basic
import Mathlib.FieldTheory.Finiteness
import Mathlib.Tactic.Ring
import PP.Model.Pairing
import PP.Proofs.Tower
import PP.Proofs.PowLoop
import PP.Proofs.Primes

namespace PP
namespace FinalExp

open Fq12 (conjugate frobeniusMap inverse ofFq6)

/-! ## the multiplicative group of `Fq12` has exponent dividing `q¹² - 1` -/

/-- `x ^ (q¹²) = x`: twelve Frobenius steps are two conjugations -/
theorem pow_q12 (x : Fq12) : x ^ Gen.q ^ 12 = x := by
  have h : Gen.q ^ 12 = Gen.q ^ 6 * Gen.q ^ 6 := by rw [← pow_add]
  rw [h, pow_mul, ← Fq12.conjugate_eq_pow, ← Fq12.conjugate_eq_pow, Fq12.conjugate_conjugate]

theorem one_le_q12 : 1 ≤ Gen.q ^ 12 := Nat.one_le_pow _ _ (by decide)

/-- Fermat in `Fq12` -/
theorem pow_card_sub_one {x : Fq12} (hx : x ≠ 0) : x ^ (Gen.q ^ 12 - 1) = 1 := by
  have h := pow_q12 x
  have e : Gen.q ^ 12 = (Gen.q ^ 12 - 1) + 1 := (Nat.sub_add_cancel one_le_q12).symm
  rw [e, pow_succ] at h
  exact mul_right_cancel₀ hx (by rw [h, one_mul])

theorem two_le_q12 : 2 ≤ Gen.q ^ 12 := by
  calc 2 ≤ Gen.q := by decide
    _ = Gen.q ^ 1 := (pow_one _).symm
    _ ≤ Gen.q ^ 12 := Nat.pow_le_pow_right (by decide) (by decide)

/-- the inverse as a natural power -/
theorem inv_eq_pow {x : Fq12} (hx : x ≠ 0) : x⁻¹ = x ^ (Gen.q ^ 12 - 2) := by
  symm
  apply eq_inv_of_mul_eq_one_left
  rw [← pow_succ]
  have : Gen.q ^ 12 - 2 + 1 = Gen.q ^ 12 - 1 := by have := two_le_q12; omega
  rw [this, pow_card_sub_one hx]

/-! ## the operations of the routine on powers of a fixed element -/

theorem conj_pow (f : Fq12) (a : ℕ) : conjugate (f ^ a) = f ^ (a * Gen.q ^ 6) := by
  rw [Fq12.conjugate_eq_pow, ← pow_mul]

theorem frob_pow (f : Fq12) (a k : ℕ) : FieldOps.frob (f ^ a) k = f ^ (a * Gen.q ^ k) := by
  show frobeniusMap (f ^ a) k = _
  rw [Fq12.frobenius_spec, ← pow_mul]

theorem sq_pow (f : Fq12) (a : ℕ) : sq (f ^ a) = f ^ (a * 2) := by
  rw [Fq12.sq_eq, ← pow_add, mul_two]

/-- `exp_by_x`: raise to the 64-bit word `x`, then conjugate (the BLS parameter is negative) -/
theorem expByX_eq (g : Fq12) (x : ℕ) : expByX g x = conjugate (g ^ (x % 2 ^ 64)) := by
  have hl : PowLoop.LimbsOk [x % 2 ^ 64] := by
    intro l hl
    rw [List.mem_singleton] at hl
    subst hl
    exact Nat.mod_lt _ (by decide)
  have hp : powLimbs g [x % 2 ^ 64] = g ^ (x % 2 ^ 64) := by
    rw [PowLoop.Lawful.powLimbs_eq_pow g _ hl]
    simp [limbsToNat]
  show (if Gen.BLS_X_IS_NEGATIVE then (powLimbs g [x % 2 ^ 64]).conjugate
    else powLimbs g [x % 2 ^ 64]) = _
  rw [hp]
  rfl

theorem expByX_pow (f : Fq12) (a x : ℕ) :
    expByX (f ^ a) x = f ^ (a * (x % 2 ^ 64) * Gen.q ^ 6) := by
  rw [expByX_eq, ← pow_mul, conj_pow]

/-! ## the hard part -/

/-- the part of `final_exponentiation` after the easy part, as a function of `r = f^((q⁶-1)(q²+1))`;
    copied verbatim from the model (`finalExponentiation_some` below is by unfolding) -/
def hardPart (r : Fq12) : Fq12 :=
  let x := Gen.BLS_X
  let y0 := sq r
  let y1 := expByX y0 x
  let x := x >>> 1
  let y2 := expByX y1 x
  let x := (x <<< 1) % 2 ^ 64
  let y3 := r.conjugate
  let y1 := y1 * y3
  let y1 := y1.conjugate
  let y1 := y1 * y2
  let y2 := expByX y1 x
  let y3 := expByX y2 x
  let y1 := y1.conjugate
  let y3 := y3 * y1
  let y1 := y1.conjugate
  let y1 := FieldOps.frob y1 3
  let y2 := FieldOps.frob y2 2
  let y1 := y1 * y2
  let y2 := expByX y3 x
  let y2 := y2 * y0
  let y2 := y2 * r
  let y1 := y1 * y2
  let y2 := FieldOps.frob y3 1
  let y1 := y1 * y2
  y1

theorem finalExponentiation_none {f : Fq12} (h : inverse f = none) :
    finalExponentiation f = none := by
  have h' : FieldOps.inv f = none := h
  unfold finalExponentiation
  simp only [h']

theorem finalExponentiation_some {f f2 : Fq12} (h : inverse f = some f2) :
    finalExponentiation f =
      some (hardPart (FieldOps.frob (conjugate f * f2) 2 * (conjugate f * f2))) := by
  have h' : FieldOps.inv f = some f2 := h
  unfold finalExponentiation
  simp only [h']
  rfl

/-- the exponent computed by the hard part when its input is `f ^ a`; `Q` stands for `q`, `X` for
    `BLS_X mod 2⁶⁴`, `H` for `(BLS_X >> 1) mod 2⁶⁴`, `X2` for `((BLS_X >> 1) << 1 mod 2⁶⁴) mod 2⁶⁴`.
    Same sequence of steps as `hardPart`. -/
def hardExp (a Q X H X2 : ℕ) : ℕ :=
  let c := Q ^ 6
  let y0 := a * 2
  let y1 := y0 * X * c
  let y2 := y1 * H * c
  let y3 := a * c
  let y1 := y1 + y3
  let y1 := y1 * c
  let y1 := y1 + y2
  let y2 := y1 * X2 * c
  let y3 := y2 * X2 * c
  let y1 := y1 * c
  let y3 := y3 + y1
  let y1 := y1 * c
  let y1 := y1 * Q ^ 3
  let y2 := y2 * Q ^ 2
  let y1 := y1 + y2
  let y2 := y3 * X2 * c
  let y2 := y2 + y0
  let y2 := y2 + a
  let y1 := y1 + y2
  let y2 := y3 * Q ^ 1
  let y1 := y1 + y2
  y1

theorem hardPart_pow (f : Fq12) (a : ℕ) :
    hardPart (f ^ a) = f ^ hardExp a Gen.q (Gen.BLS_X % 2 ^ 64) ((Gen.BLS_X >>> 1) % 2 ^ 64)
      ((((Gen.BLS_X >>> 1) <<< 1) % 2 ^ 64) % 2 ^ 64) := by
  simp only [hardPart, hardExp, sq_pow, expByX_pow, conj_pow, frob_pow, ← pow_add]

/-! ## the easy part and the total exponent -/

/-- exponent of the easy part: `r = (conj f · f⁻¹)^(q²) · (conj f · f⁻¹)` with `f⁻¹ = f^(q¹²-2)` -/
def easyExp (Q : ℕ) : ℕ := (Q ^ 6 + (Q ^ 12 - 2)) * Q ^ 2 + (Q ^ 6 + (Q ^ 12 - 2))

theorem easyPart_pow {f : Fq12} (hf : f ≠ 0) :
    FieldOps.frob (conjugate f * f⁻¹) 2 * (conjugate f * f⁻¹) = f ^ easyExp Gen.q := by
  have h : conjugate f * f⁻¹ = f ^ (Gen.q ^ 6 + (Gen.q ^ 12 - 2)) := by
    rw [Fq12.conjugate_eq_pow, inv_eq_pow hf, ← pow_add]
  rw [h, frob_pow, ← pow_add]
  rfl

/-- the exponent the code computes (before reduction modulo `q¹² - 1`) -/
def feExp : ℕ :=
  hardExp (easyExp Gen.q) Gen.q (Gen.BLS_X % 2 ^ 64) ((Gen.BLS_X >>> 1) % 2 ^ 64)
    ((((Gen.BLS_X >>> 1) <<< 1) % 2 ^ 64) % 2 ^ 64)

/-- the exponent of the specification, `3 (q¹² - 1) / r` -/
def feTarget : ℕ := 3 * (Gen.q ^ 12 - 1) / Gen.r

theorem fe_raw {f : Fq12} (hf : f ≠ 0) : finalExponentiation f = some (f ^ feExp) := by
  rw [finalExponentiation_some (Fq12.inverse_eq_some f hf), easyPart_pow hf, hardPart_pow]
  rfl

/-! ## numeric facts (kernel arithmetic on ~17000-bit numbers) -/

theorem feExp_mod : feExp % (Gen.q ^ 12 - 1) = feTarget % (Gen.q ^ 12 - 1) := by decide +kernel

theorem r_dvd : Gen.r ∣ Gen.q ^ 12 - 1 := by decide +kernel

theorem r_mul_feTarget : Gen.r * feTarget = 3 * (Gen.q ^ 12 - 1) := by decide +kernel

theorem q4_dvd_feTarget : (Gen.q ^ 4 - 1) ∣ feTarget := by decide +kernel

theorem q6_dvd_feTarget : (Gen.q ^ 6 - 1) ∣ feTarget := by decide +kernel

/-! ## the specification -/

/-- **final exponentiation** is `f ↦ f ^ (3 (q¹² - 1) / r)` on non-zero elements -/
theorem fe_spec {f : Fq12} (hf : f ≠ 0) :
    finalExponentiation f = some (f ^ (3 * (Gen.q ^ 12 - 1) / Gen.r)) := by
  rw [fe_raw hf, pow_eq_pow_mod feExp (pow_card_sub_one hf), feExp_mod,
    ← pow_eq_pow_mod feTarget (pow_card_sub_one hf)]
  rfl

theorem fe_zero : finalExponentiation 0 = none :=
  finalExponentiation_none Fq12.inverse_zero

theorem fe_none_iff (f : Fq12) : finalExponentiation f = none ↔ f = 0 := by
  constructor
  · intro h
    by_contra hf
    rw [fe_spec hf] at h
    cases h
  · rintro rfl; exact fe_zero

theorem fe_isSome_iff (f : Fq12) : (finalExponentiation f).isSome = true ↔ f ≠ 0 := by
  rw [← not_iff_not, Bool.not_eq_true, Option.isSome_eq_false_iff, Option.isNone_iff_eq_none,
    fe_none_iff, not_not]

/-- multiplicativity (on non-zero arguments; `0` makes both sides fail, see `fe_mul_zero`) -/
theorem fe_mul {f g : Fq12} (hf : f ≠ 0) (hg : g ≠ 0) :
    finalExponentiation (f * g) =
      (finalExponentiation f).bind fun a => (finalExponentiation g).map fun b => a * b := by
  rw [fe_spec hf, fe_spec hg, fe_spec (mul_ne_zero hf hg), mul_pow]
  rfl

theorem fe_one : finalExponentiation 1 = some 1 := by
  rw [fe_spec one_ne_zero, one_pow]

theorem fe_pow {f : Fq12} (hf : f ≠ 0) (n : ℕ) :
    finalExponentiation (f ^ n) = (finalExponentiation f).map (· ^ n) := by
  rw [fe_spec hf, fe_spec (pow_ne_zero n hf), ← pow_mul, mul_comm, pow_mul]
  rfl

theorem fe_inv {f : Fq12} (hf : f ≠ 0) :
    finalExponentiation f⁻¹ = (finalExponentiation f).map (·⁻¹) := by
  rw [fe_spec hf, fe_spec (inv_ne_zero hf), inv_pow]
  rfl

/-- the result is an `r`-th root of unity -/
theorem fe_pow_r {f y : Fq12} (h : finalExponentiation f = some y) : y ^ Gen.r = 1 := by
  have hf : f ≠ 0 := fun h0 => by rw [(fe_none_iff f).mpr h0] at h; cases h
  rw [fe_spec hf] at h
  obtain rfl := Option.some.inj h
  show (f ^ feTarget) ^ Gen.r = 1
  rw [← pow_mul, mul_comm, r_mul_feTarget, mul_comm, pow_mul, pow_card_sub_one hf, one_pow]

/-- an element fixed by `x ↦ x^(qᵈ)` with `(qᵈ - 1) ∣ 3(q¹²-1)/r` is sent to `1` -/
theorem fe_of_fixed {f : Fq12} (hf : f ≠ 0) (d : ℕ) (hd : (Gen.q ^ d - 1) ∣ feTarget)
    (h : f ^ Gen.q ^ d = f) : finalExponentiation f = some 1 := by
  have h1 : f ^ (Gen.q ^ d - 1) = 1 := by
    have e : Gen.q ^ d = (Gen.q ^ d - 1) + 1 :=
      (Nat.sub_add_cancel (Nat.one_le_pow _ _ (by decide))).symm
    rw [e, pow_succ] at h
    exact mul_right_cancel₀ hf (by rw [h, one_mul])
  obtain ⟨k, hk⟩ := hd
  rw [fe_spec hf]
  show some (f ^ feTarget) = _
  rw [hk, pow_mul, h1, one_pow]

/-- elements of the subfield `F_{q⁴}` -/
theorem fe_subfield4 {f : Fq12} (hf : f ≠ 0) (h : f ^ Gen.q ^ 4 = f) :
    finalExponentiation f = some 1 := fe_of_fixed hf 4 q4_dvd_feTarget h

/-- elements of the subfield `F_{q⁶}` -/
theorem fe_subfield6 {f : Fq12} (hf : f ≠ 0) (h : f ^ Gen.q ^ 6 = f) :
    finalExponentiation f = some 1 := fe_of_fixed hf 6 q6_dvd_feTarget h

/-- iterating a fixed point of `x ↦ x^(qᵈ)` -/
theorem pow_q_mul {f : Fq12} {d : ℕ} (h : f ^ Gen.q ^ d = f) : ∀ k : ℕ, f ^ Gen.q ^ (d * k) = f
  | 0 => by simp
  | k + 1 => by
    rw [Nat.mul_succ, pow_add, pow_mul, pow_q_mul h k, h]

/-- every proper subfield `F_{qᵈ}` (`d ∣ 12`, `d < 12`) is killed -/
theorem fe_subfield {f : Fq12} (hf : f ≠ 0) {d : ℕ} (hd : d ∣ 12) (hd' : d ≠ 12)
    (h : f ^ Gen.q ^ d = f) : finalExponentiation f = some 1 := by
  have hmem : d ∈ Nat.divisors 12 := Nat.mem_divisors.mpr ⟨hd, by decide⟩
  have hdiv : Nat.divisors 12 = {1, 2, 3, 4, 6, 12} := by decide
  rw [hdiv] at hmem
  simp only [Finset.mem_insert, Finset.mem_singleton] at hmem
  rcases hmem with rfl | rfl | rfl | rfl | rfl | rfl
  · exact fe_subfield4 hf (pow_q_mul h 4)
  · exact fe_subfield4 hf (pow_q_mul h 2)
  · exact fe_subfield6 hf (pow_q_mul h 2)
  · exact fe_subfield4 hf h
  · exact fe_subfield6 hf h
  · exact absurd rfl hd'

/-- the embedded `Fq6` -/
theorem fe_ofFq6 {a : Fq6} (ha : a ≠ 0) : finalExponentiation (ofFq6 a) = some 1 := by
  have hf : ofFq6 a ≠ 0 := fun h => ha (Fq12.ofFq6_injective (by rw [h, map_zero]))
  apply fe_subfield6 hf
  rw [← Fq12.conjugate_eq_pow, Fq12.conjugate_ofFq6]

/-- the embedded `Fq2` -/
theorem fe_ofFq2 {a : Fq2} (ha : a ≠ 0) :
    finalExponentiation (ofFq6 (Fq6.ofFq2 a)) = some 1 :=
  fe_ofFq6 fun h => ha (Fq6.ofFq2_injective (by rw [h, map_zero]))

/-- the embedded prime field -/
theorem fe_ofFq {a : Fq} (ha : a ≠ 0) :
    finalExponentiation (ofFq6 (Fq6.ofFq2 (Fq2.ofFq a))) = some 1 :=
  fe_ofFq2 fun h => ha (Fq2.ofFq_injective (by rw [h, map_zero]))

/-- multiplicativity, for all arguments (a zero factor makes both sides fail) -/
theorem fe_mul_all (f g : Fq12) :
    finalExponentiation (f * g) =
      (finalExponentiation f).bind fun a => (finalExponentiation g).map fun b => a * b := by
  by_cases hf : f = 0
  · subst hf; rw [zero_mul, fe_zero]; rfl
  by_cases hg : g = 0
  · subst hg; rw [mul_zero, fe_zero, fe_spec hf]; rfl
  exact fe_mul hf hg

/-! ## proper subfields, as Mathlib `Subfield`s -/

def Fq6.equivProd : Fq6 ≃ Fq2 × Fq2 × Fq2 where
  toFun a := (a.c0, a.c1, a.c2)
  invFun t := ⟨t.1, t.2.1, t.2.2⟩
  left_inv _ := rfl
  right_inv _ := rfl

instance : Fintype Fq6 := Fintype.ofEquiv _ Fq6.equivProd.symm

def Fq12.equivProd : Fq12 ≃ Fq6 × Fq6 where
  toFun a := (a.c0, a.c1)
  invFun t := ⟨t.1, t.2⟩
  left_inv _ := rfl
  right_inv _ := rfl

instance : Fintype Fq12 := Fintype.ofEquiv _ Fq12.equivProd.symm

theorem card_Fq12 : Fintype.card Fq12 = Gen.q ^ 12 := by
  rw [Fintype.card_congr Fq12.equivProd, Fintype.card_prod, Fintype.card_congr Fq6.equivProd,
    Fintype.card_prod, Fintype.card_prod, Fq2.card]
  ring

open Classical in
/-- a proper subfield of `Fq12` has `qᵈ` elements for a proper divisor `d` of 12, hence is fixed
    pointwise by `x ↦ x^(qᵈ)` -/
theorem subfield_fixed (K : Subfield Fq12) (hK : K ≠ ⊤) :
    ∃ d : ℕ, d ∣ 12 ∧ d ≠ 12 ∧ ∀ x ∈ K, x ^ Gen.q ^ d = x := by
  let _ : Fintype K := Fintype.ofFinite K
  obtain ⟨n, -, hn⟩ := FiniteField.card K Gen.q
  have hcard := Module.card_eq_pow_finrank (K := K) (V := Fq12)
  rw [card_Fq12, hn, ← pow_mul] at hcard
  have h12 : 12 = (n : ℕ) * Module.finrank K Fq12 :=
    Nat.pow_right_injective (show 2 ≤ Gen.q by decide) hcard
  refine ⟨n, ⟨_, h12⟩, ?_, ?_⟩
  · intro h
    apply hK
    have hc : Fintype.card K = Fintype.card Fq12 := by rw [hn, card_Fq12, h]
    have hb : Function.Bijective (K.subtype) :=
      (Fintype.bijective_iff_injective_and_card _).mpr ⟨K.subtype_injective, hc⟩
    rw [eq_top_iff]
    intro x _
    obtain ⟨y, rfl⟩ := hb.2 x
    exact y.2
  · intro x hx
    have := FiniteField.pow_card (⟨x, hx⟩ : K)
    rw [hn] at this
    exact congrArg Subtype.val this

/-- every non-zero element of a proper subfield of `Fq12` is sent to `1` -/
theorem fe_properSubfield (K : Subfield Fq12) (hK : K ≠ ⊤) {f : Fq12} (hf : f ≠ 0) (hfK : f ∈ K) :
    finalExponentiation f = some 1 := by
  obtain ⟨d, hd, hd', h⟩ := subfield_fixed K hK
  exact fe_subfield hf hd hd' (h f hfK)

end FinalExp
end PP
