/-
Linearity of the pairing in its second argument, transport lemmas.

* `gmap σ α β : (x, y) ↦ (α σ x, β σ y)` (`σ` a field homomorphism, `β² = α³`) commutes with the slope
  and the chord-and-tangent sum: instances are the untwist `ψ` (`σ = ι`, `α = w⁻²`, `β = w⁻³`) and the
  negative of the twisted Frobenius (`σ = conj`, `α = d²`, `β = -d³`).
* group side over `Fq2`: the coordinates of `R + S`; finite points killed by `r` have `x ≠ 0`.
-/
import PP.Proofs.BilinQIdeal
import PP.Proofs.BilinPFrob
import PP.Proofs.NegPair
import PP.Proofs.Lines2

set_option linter.unusedSectionVars false

namespace PP
namespace BilinQ

open WeierstrassCurve.Affine Ate Lines

/-! ## coordinate maps -/

section gmap
variable {F F' : Type} [Field F] [Field F'] [DecidableEq F] [DecidableEq F']

/-- `(x, y) ↦ (α σ x, β σ y)` -/
def gmap (σ : F →+* F') (α β : F') (T : F × F) : F' × F' := (α * σ T.1, β * σ T.2)

variable {σ : F →+* F'} {α β : F'} {b : F} {b' : F'} [ShortW b] [ShortW b']

theorem eq_of_x_eq {A B : F × F} (hA : On b A) (hB : On b B) (h : NotOpp A B) (hx : A.1 = B.1) :
    A = B ∧ A.2 ≠ 0 := by
  have e1 := (W_equation_iff b _ _).mp hA
  have e2 := (W_equation_iff b _ _).mp hB
  have hne : A.2 ≠ -B.2 := fun hy => h ⟨hx, hy⟩
  have h1 : (A.2 - B.2) * (A.2 + B.2) = 0 := by rw [hx] at e1; linear_combination e1 - e2
  have hy : A.2 = B.2 := by
    rcases mul_eq_zero.mp h1 with h2 | h2
    · exact sub_eq_zero.mp h2
    · exact absurd (eq_neg_of_add_eq_zero_left h2) hne
  refine ⟨Prod.ext hx hy, ?_⟩
  intro h0
  apply hne
  rw [← hy, h0, neg_zero]

theorem gmap_notOpp (hα : α ≠ 0) (hβ : β ≠ 0) {A B : F × F} (h : NotOpp A B) :
    NotOpp (gmap σ α β A) (gmap σ α β B) := by
  rintro ⟨h1, h2⟩
  apply h
  simp only [gmap] at h1 h2
  refine ⟨σ.injective (mul_left_cancel₀ hα h1), σ.injective ?_⟩
  rw [map_neg]
  apply mul_left_cancel₀ hβ
  rw [h2]; ring

theorem gmap_slopeAB (hα : α ≠ 0) (hβ : β ≠ 0) (hαβ : β ^ 2 = α ^ 3) {A B : F × F} (hA : On b A)
    (hB : On b B) (h : NotOpp A B) :
    slopeAB b' (gmap σ α β A) (gmap σ α β B) = β / α * σ (slopeAB b A B) := by
  by_cases hx : A.1 = B.1
  · obtain ⟨rfl, hy⟩ := eq_of_x_eq hA hB h hx
    have hy' : (gmap σ α β A).2 ≠ 0 := by
      simp only [gmap]
      exact mul_ne_zero hβ (fun h0 => hy (σ.injective (by rw [h0, map_zero])))
    have hσy : σ A.2 ≠ 0 := fun h0 => hy (σ.injective (by rw [h0, map_zero]))
    have h2 : (2 : F') ≠ 0 := ShortW.two_ne (b := b')
    rw [slopeAB_tangent hy', slopeAB_tangent hy]
    simp only [tangentSlope, gmap, map_div₀, map_mul, map_pow, map_ofNat]
    field_simp
    linear_combination (-3 * σ A.1 ^ 2) * hαβ
  · have hx' : (gmap σ α β A).1 ≠ (gmap σ α β B).1 := by
      simp only [gmap]
      exact fun h1 => hx (σ.injective (mul_left_cancel₀ hα h1))
    have hd : σ B.1 - σ A.1 ≠ 0 := fun h0 => hx (σ.injective (sub_eq_zero.mp h0).symm)
    rw [slopeAB_chord hx', slopeAB_chord hx]
    simp only [chordSlope, gmap, map_div₀, map_sub]
    rw [← mul_sub, ← mul_sub]
    field_simp

theorem gmap_sumOfSlope (hα : α ≠ 0) (hαβ : β ^ 2 = α ^ 3) (l : F) (A B : F × F) :
    sumOfSlope (β / α * σ l) (gmap σ α β A) (gmap σ α β B) = gmap σ α β (sumOfSlope l A B) := by
  simp only [sumOfSlope, gmap, map_sub, map_mul, map_pow, Prod.mk.injEq]
  constructor
  · field_simp
    linear_combination (σ l ^ 2) * hαβ
  · field_simp
    linear_combination (-β * σ l ^ 3) * hαβ

theorem gmap_addAB (hα : α ≠ 0) (hβ : β ≠ 0) (hαβ : β ^ 2 = α ^ 3) {A B : F × F} (hA : On b A)
    (hB : On b B) (h : NotOpp A B) :
    addAB b' (gmap σ α β A) (gmap σ α β B) = gmap σ α β (addAB b A B) := by
  simp only [addAB]
  rw [gmap_slopeAB hα hβ hαβ hA hB h, gmap_sumOfSlope hα hαβ]

end gmap

/-! ## the group `E'(Fq2)` in coordinates -/

local notation "b₂" => g2Codec.b

theorem on_of_repr {T : Fq2 × Fq2} {R : E2} (h : Repr T R) : On b₂ T :=
  (W_equation_iff _ _ _).mpr (repr_onCurve h)

/-- the coordinates of `R + S` for `R + S ≠ 0` -/
theorem repr_addAB {A B : Fq2 × Fq2} {R S : E2} (hA : Repr A R) (hB : Repr B S) (h0 : R + S ≠ 0) :
    NotOpp A B ∧ Repr (addAB b₂ A B) (R + S) := by
  obtain ⟨hns, rfl⟩ := hA
  obtain ⟨hns', rfl⟩ := hB
  have hno : NotOpp A B := by
    rintro ⟨h1, h2⟩
    apply h0
    exact Point.add_of_Y_eq h1 (by rw [W_negY]; exact h2)
  refine ⟨hno, ?_⟩
  rw [Point.add_some ((notOpp_iff (b := b₂) A B).mp hno)]
  apply repr_of_eq
  · rw [addAB_eq]; rfl
  · rw [addAB_eq]; rfl

theorem repr_unique {A B : Fq2 × Fq2} {R : E2} (hA : Repr A R) (hB : Repr B R) : A = B := by
  obtain ⟨hns, rfl⟩ := hA
  obtain ⟨hns', e⟩ := hB
  obtain ⟨h1, h2⟩ := PP.Point.some_eq_some.mp e
  exact Prod.ext h1 h2

theorem repr_ne_zero {A : Fq2 × Fq2} {R : E2} (hA : Repr A R) : R ≠ 0 := by
  obtain ⟨hns, rfl⟩ := hA
  exact Point.some_ne_zero _

theorem repr_neg {A : Fq2 × Fq2} {R : E2} (hA : Repr A R) : Repr (ngp A) (-R) := by
  obtain ⟨hns, rfl⟩ := hA
  rw [Point.neg_some]
  exact repr_of_eq _ _ rfl (by rw [W_negY]; rfl)

/-- a finite point of `E'(Fq2)` killed by `r` has `x ≠ 0` (points with `x = 0` have order 3) -/
theorem repr_x_ne_zero {T : Fq2 × Fq2} {R : E2} (hT : Repr T R) (hr : Gen.r • R = 0) : T.1 ≠ 0 := by
  intro hx
  have e := repr_onCurve hT
  obtain ⟨hns, rfl⟩ := hT
  have hy : T.2 ≠ 0 := by
    intro hy
    rw [hx, hy] at e
    exact g2Codec_b_ne_zero (by linear_combination -e)
  set S : E2 := Point.some T.1 T.2 hns with hS
  have hdbl : S + S = -S := by
    rw [hS, Point.add_self_of_Y_ne (Lines.y_ne_negY T.1 hy), Point.neg_some, PP.Point.some_eq_some]
    constructor
    · rw [addX_eq, slope_self b₂ T.1 hy, hx]; simp
    · rw [addY_eq, slope_self b₂ T.1 hy, hx, W_negY]; simp
  have h3 : 3 • S = 0 := by
    rw [show (3 : ℕ) = 2 + 1 from rfl, add_smul, two_smul, one_smul, hdbl, neg_add_cancel]
  have hdvd3 : addOrderOf S ∣ 3 := addOrderOf_dvd_of_nsmul_eq_zero h3
  have hdvdr : addOrderOf S ∣ Gen.r := addOrderOf_dvd_of_nsmul_eq_zero hr
  have hcop : Nat.Coprime 3 Gen.r := by decide +kernel
  have h1 : addOrderOf S = 1 := Nat.eq_one_of_dvd_coprimes hcop hdvd3 hdvdr
  exact Point.some_ne_zero _ (AddMonoid.addOrderOf_eq_one_iff.mp h1)

/-- all the accumulators of the chain have `x ≠ 0` -/
def XNZ (Q : Fq2 × Fq2) : List Bool → Fq2 × Fq2 → Prop
  | [], _ => True
  | bit :: bs, T =>
    (affDouble T).1 ≠ 0 ∧
      if bit then (affAdd (affDouble T) Q).1 ≠ 0 ∧ XNZ Q bs (affAdd (affDouble T) Q)
      else XNZ Q bs (affDouble T)

theorem xnz_of_regular (Q : Fq2 × Fq2) (S : E2) (hQ : Repr Q S) (hr : Gen.r • S = 0) (bs : List Bool)
    (k : ℕ) (T : Fq2 × Fq2) (hT : Repr T (k • S)) (hreg : Regular Q bs T) : XNZ Q bs T := by
  induction bs generalizing k T with
  | nil => trivial
  | cons bit bs ih =>
    have hy : T.2 ≠ 0 := hreg.1
    have hD : Repr (affDouble T) ((2 * k) • S) := by
      have := repr_double hT hy
      rwa [← two_nsmul, ← mul_nsmul'] at this
    have hk : ∀ j : ℕ, Gen.r • (j • S) = 0 := fun j => by rw [smul_comm, hr]; exact nsmul_zero j
    have hD0 : (affDouble T).1 ≠ 0 := repr_x_ne_zero hD (hk _)
    cases bit with
    | false =>
      have h2 := hreg.2
      simp only [Bool.false_eq_true, if_false] at h2
      exact ⟨hD0, by simpa using ih (2 * k) (affDouble T) hD h2⟩
    | true =>
      have h2 := hreg.2
      simp only [if_true] at h2
      have hA : Repr (affAdd (affDouble T) Q) ((2 * k + 1) • S) := by
        rw [succ_nsmul]; exact repr_add hD hQ h2.1
      exact ⟨hD0, by simpa using ⟨repr_x_ne_zero hA (hk _), ih (2 * k + 1) _ hA h2.2⟩⟩

end BilinQ
end PP
