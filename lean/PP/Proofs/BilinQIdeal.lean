/-
Linearity of the pairing in its second argument, the function-field part (generic field `K`).

On `E : y² = x³ + b` over a field `K` (`(W b)`, Mathlib's `WeierstrassCurve.Affine`), with
`R = K[E] = (W b).CoordinateRing`:

* `unit_const`: the units of `R` are the non-zero constants (norm/degree argument).
* `ev h : R →+* K`: evaluation at a point `(x, y)` of the curve.
* `I A`: the maximal ideal of the finite point `A`; `vert A = X - x_A`, `lineR l A = Y - (l (X - x_A) + y_A)`
  and `I (-A) · I A = ⟨vert A⟩`, `⟨tangent/chord through A, B⟩ = I A · I B · I (-(A + B))`
  (from Mathlib's `XYIdeal_neg_mul`, `XYIdeal_mul_XYIdeal`, cancelling the invertible ideal `I (A+B)`).
* the norm to `K[X]` of a line has leading coefficient `-1`, that of a vertical is monic.
-/
import Mathlib.AlgebraicGeometry.EllipticCurve.Affine.Point
import Mathlib.RingTheory.Norm.Basic
import PP.Proofs.CurveSpec
import PP.Spec.Ate

set_option linter.unusedSectionVars false

namespace PP
namespace BilinQ

open WeierstrassCurve.Affine Polynomial Ate
open scoped Polynomial.Bivariate

variable {K : Type} [Field K] [DecidableEq K] {b : K} [ShortW b]

/-- the coordinate ring of `y² = x³ + b` -/
abbrev CR (b : K) := (W b).CoordinateRing

/-! ## Mathlib's formulas on `y² = x³ + b` -/

theorem slope_ne (b : K) {x₁ x₂ : K} (y₁ y₂ : K) (hx : x₁ ≠ x₂) :
    (W b).slope x₁ x₂ y₁ y₂ = (y₁ - y₂) / (x₁ - x₂) := slope_of_X_ne hx

theorem y_ne_negY (b : K) [ShortW b] (x : K) {y : K} (hy : y ≠ 0) : y ≠ (W b).negY x y := by
  rw [W_negY]; intro h
  have : 2 * y = 0 := by linear_combination h
  exact (mul_ne_zero (ShortW.two_ne (b := b)) hy) this

theorem slope_self (b : K) [ShortW b] (x : K) {y : K} (hy : y ≠ 0) :
    (W b).slope x x y y = 3 * x ^ 2 / (2 * y) := by
  rw [slope_of_Y_ne rfl (y_ne_negY b x hy), W_negY]
  simp only [W_a₁, W_a₂, W_a₄]
  congr 1 <;> ring

theorem addX_eq (b x₁ x₂ ℓ : K) : (W b).addX x₁ x₂ ℓ = ℓ ^ 2 - x₁ - x₂ := by
  simp [addX]

theorem addY_eq (b x₁ x₂ y₁ ℓ : K) :
    (W b).addY x₁ x₂ y₁ ℓ = ℓ * (x₁ - (ℓ ^ 2 - x₁ - x₂)) - y₁ := by
  simp [addY, negAddY, addX]; ring

/-- `(x, y) ↦ (x, -y)` -/
def ngp (A : K × K) : K × K := (A.1, -A.2)

/-- on the curve -/
def On (b : K) (A : K × K) : Prop := (W b).Equation A.1 A.2

theorem On.ngp {A : K × K} (h : On b A) : On b (ngp A) := by
  unfold On at h ⊢
  rw [W_equation_iff] at h ⊢
  simp only [BilinQ.ngp]
  linear_combination h

theorem On.nonsingular {A : K × K} (h : On b A) : (W b).Nonsingular A.1 A.2 :=
  W_nonsingular b ((W_equation_iff b _ _).mp h)

/-- the slope of the line through `A` and `B` (tangent if `A = B`), Mathlib's `slope` -/
def slopeAB (b : K) (A B : K × K) : K := (W b).slope A.1 B.1 A.2 B.2

/-- `A + B` by the line of slope `slopeAB` -/
def addAB (b : K) (A B : K × K) : K × K := sumOfSlope (slopeAB b A B) A B

theorem addAB_eq (A B : K × K) :
    addAB b A B = ((W b).addX A.1 B.1 (slopeAB b A B), (W b).addY A.1 B.1 A.2 (slopeAB b A B)) := by
  simp only [addAB, sumOfSlope, addX_eq, addY_eq]

/-- `A ≠ -B` -/
def NotOpp (A B : K × K) : Prop := ¬(A.1 = B.1 ∧ A.2 = -B.2)

theorem notOpp_iff (A B : K × K) : NotOpp A B ↔ ¬(A.1 = B.1 ∧ A.2 = (W b).negY B.1 B.2) := by
  rw [W_negY]; rfl

theorem On.addAB {A B : K × K} (hA : On b A) (hB : On b B) (h : NotOpp A B) : On b (addAB b A B) := by
  rw [addAB_eq]
  exact equation_add hA hB ((notOpp_iff A B).mp h)

theorem slopeAB_tangent {A : K × K} (hy : A.2 ≠ 0) : slopeAB b A A = tangentSlope A := by
  simp only [slopeAB, slope_self b _ hy, tangentSlope]

theorem slopeAB_chord {A B : K × K} (hx : A.1 ≠ B.1) : slopeAB b A B = chordSlope A B := by
  simp only [slopeAB, slope_ne b _ _ hx, chordSlope]
  rw [← neg_sub B.2, ← neg_sub B.1, neg_div_neg_eq]

theorem addAB_tangent {A : K × K} (hy : A.2 ≠ 0) : addAB b A A = affDouble A := by
  simp only [addAB, slopeAB_tangent hy, affDouble]

theorem addAB_chord {A B : K × K} (hx : A.1 ≠ B.1) : addAB b A B = affAdd A B := by
  simp only [addAB, slopeAB_chord hx, affAdd]

theorem notOpp_self (b : K) [ShortW b] {A : K × K} (hy : A.2 ≠ 0) : NotOpp A A := by
  rintro ⟨-, h⟩
  have : 2 * A.2 = 0 := by linear_combination h
  exact (mul_ne_zero (ShortW.two_ne (b := b)) hy) this

theorem notOpp_of_x_ne {A B : K × K} (hx : A.1 ≠ B.1) : NotOpp A B := fun h => hx h.1

/-! ## evaluation at a point of the curve -/

/-- evaluation `K[E] → K` at the point `P` of the curve -/
noncomputable def ev {P : K × K} (h : On b P) : CR b →+* K := AdjoinRoot.evalEval h

theorem ev_mk {P : K × K} (h : On b P) (g : K[X][Y]) :
    ev h (CoordinateRing.mk (W b) g) = g.evalEval P.1 P.2 := AdjoinRoot.evalEval_mk h g

/-- the vertical line through `A` -/
noncomputable def vert (b : K) (A : K × K) : CR b := CoordinateRing.XClass (W b) A.1

/-- the line through `A` with slope `l` -/
noncomputable def lineR (b : K) (l : K) (A : K × K) : CR b :=
  CoordinateRing.YClass (W b) (linePolynomial A.1 A.2 l)

theorem ev_vert {P : K × K} (h : On b P) (A : K × K) : ev h (vert b A) = verticalAt A P := by
  simp only [vert, CoordinateRing.XClass, ev_mk, verticalAt]
  simp [evalEval]

theorem ev_lineR {P : K × K} (h : On b P) (l : K) (A : K × K) :
    ev h (lineR b l A) = lineAt l A P := by
  simp only [lineR, CoordinateRing.YClass, ev_mk, lineAt, linePolynomial]
  simp [evalEval]
  ring

theorem vert_ne_zero (A : K × K) : vert b A ≠ 0 := CoordinateRing.XClass_ne_zero _

theorem lineR_ne_zero (l : K) (A : K × K) : lineR b l A ≠ 0 := CoordinateRing.YClass_ne_zero _

/-! ## the units of the coordinate ring are the constants -/

theorem unit_const (u : (CR b)ˣ) : ∃ c : K, c ≠ 0 ∧ (u : CR b) = algebraMap K[X] (CR b) (C c) := by
  obtain ⟨p, q, hpq⟩ := CoordinateRing.exists_smul_basis_eq (u : CR b)
  have hu : IsUnit (Algebra.norm K[X] (u : CR b)) := u.isUnit.map (Algebra.norm K[X])
  have hdeg := degree_eq_zero_of_isUnit hu
  rw [← hpq, CoordinateRing.degree_norm_smul_basis] at hdeg
  have hq : q = 0 := by
    by_contra hq
    have h1 : (2 • q.degree + 3 : WithBot ℕ) ≤ 0 := hdeg ▸ le_max_right _ _
    rw [degree_eq_natDegree hq, two_nsmul] at h1
    have h2 : ((q.natDegree + q.natDegree + 3 : ℕ) : WithBot ℕ) ≤ ((0 : ℕ) : WithBot ℕ) := by
      exact_mod_cast h1
    have h3 : q.natDegree + q.natDegree + 3 ≤ 0 := WithBot.coe_le_coe.mp h2
    omega
  subst hq
  have hp0 : p ≠ 0 := by
    rintro rfl
    simp at hdeg
  have hp : p.degree = 0 := by
    rw [degree_eq_natDegree hp0] at hdeg ⊢
    have h1 : (2 • (p.natDegree : WithBot ℕ)) ≤ 0 := hdeg ▸ le_max_left _ _
    rw [two_nsmul] at h1
    have h2 : ((p.natDegree + p.natDegree : ℕ) : WithBot ℕ) ≤ ((0 : ℕ) : WithBot ℕ) := by
      exact_mod_cast h1
    have h3 : p.natDegree + p.natDegree ≤ 0 := WithBot.coe_le_coe.mp h2
    have h0 : p.natDegree = 0 := by omega
    rw [h0]; rfl
  obtain ⟨c, hc⟩ : ∃ c, p = C c := ⟨_, eq_C_of_degree_eq_zero hp⟩
  refine ⟨c, ?_, ?_⟩
  · rintro rfl
    exact hp0 (by rw [hc, C_0])
  · rw [← hpq, hc, zero_smul, add_zero, Algebra.smul_def, mul_one]

/-! ## the ideals of points, lines and verticals -/

/-- the maximal ideal of the finite point `A` -/
noncomputable def I (b : K) (A : K × K) : Ideal (CR b) :=
  CoordinateRing.XYIdeal (W b) A.1 (C A.2)

/-- `I(-A) · I(A) = ⟨X - x_A⟩` -/
theorem I_neg_mul {A : K × K} (h : On b A) : I b (ngp A) * I b A = Ideal.span {vert b A} := by
  have := CoordinateRing.XYIdeal_neg_mul h.nonsingular
  rw [W_negY] at this
  exact this

/-- **`⟨line through A, B⟩ = I(A) · I(B) · I(-(A+B))`** (tangent if `A = B`), for `A ≠ -B` -/
theorem line_ideal {A B : K × K} (hA : On b A) (hB : On b B) (h : NotOpp A B) :
    Ideal.span {lineR b (slopeAB b A B) A} = I b A * I b B * I b (ngp (addAB b A B)) := by
  have hS := hA.addAB hB h
  have h1 := CoordinateRing.XYIdeal_mul_XYIdeal hA hB ((notOpp_iff A B).mp h)
  have h2 := I_neg_mul hS
  have e : addAB b A B =
      ((W b).addX A.1 B.1 ((W b).slope A.1 B.1 A.2 B.2),
        (W b).addY A.1 B.1 A.2 ((W b).slope A.1 B.1 A.2 B.2)) := addAB_eq A B
  have h1' : Ideal.span {vert b (addAB b A B)} * (I b A * I b B) =
      Ideal.span {lineR b (slopeAB b A B) A} * I b (addAB b A B) := by
    rw [e]; exact h1
  rw [← Ideal.span_singleton_mul_right_inj (vert_ne_zero (b := b) (addAB b A B))]
  calc Ideal.span {vert b (addAB b A B)} * Ideal.span {lineR b (slopeAB b A B) A}
      = Ideal.span {lineR b (slopeAB b A B) A} *
          (I b (ngp (addAB b A B)) * I b (addAB b A B)) := by rw [h2, mul_comm]
    _ = (Ideal.span {lineR b (slopeAB b A B) A} * I b (addAB b A B)) *
          I b (ngp (addAB b A B)) := by ring
    _ = Ideal.span {vert b (addAB b A B)} * (I b A * I b B * I b (ngp (addAB b A B))) := by
        rw [← h1']; ring

/-- tangent: `⟨l_{A,A}⟩ = I(A)² · I(-2A)` -/
theorem tangent_ideal {A : K × K} (hA : On b A) (hy : A.2 ≠ 0) :
    Ideal.span {lineR b (tangentSlope A) A} = I b A * I b A * I b (ngp (affDouble A)) := by
  have := line_ideal hA hA (notOpp_self b hy)
  rwa [slopeAB_tangent hy, addAB_tangent hy] at this

/-- chord: `⟨l_{A,B}⟩ = I(A) · I(B) · I(-(A+B))` -/
theorem chord_ideal {A B : K × K} (hA : On b A) (hB : On b B) (hx : A.1 ≠ B.1) :
    Ideal.span {lineR b (chordSlope A B) A} = I b A * I b B * I b (ngp (affAdd A B)) := by
  have := line_ideal hA hB (notOpp_of_x_ne hx)
  rwa [slopeAB_chord hx, addAB_chord hx] at this

theorem On.affDouble {A : K × K} (hA : On b A) (hy : A.2 ≠ 0) : On b (affDouble A) := by
  rw [← addAB_tangent (b := b) hy]; exact hA.addAB hA (notOpp_self b hy)

theorem On.affAdd {A B : K × K} (hA : On b A) (hB : On b B) (hx : A.1 ≠ B.1) :
    On b (affAdd A B) := by
  rw [← addAB_chord (b := b) hx]; exact hA.addAB hB (notOpp_of_x_ne hx)

/-! ## norms to `K[X]`: leading coefficients `± 1` -/

/-- leading coefficient `1` or `-1` -/
def PM (p : K[X]) : Prop := p.leadingCoeff = 1 ∨ p.leadingCoeff = -1

theorem PM.one : PM (1 : K[X]) := Or.inl leadingCoeff_one

theorem PM.mul {p q : K[X]} (hp : PM p) (hq : PM q) : PM (p * q) := by
  unfold PM at *
  rw [leadingCoeff_mul]
  rcases hp with hp | hp <;> rcases hq with hq | hq <;> rw [hp, hq] <;> simp

theorem PM.pow {p : K[X]} (hp : PM p) (n : ℕ) : PM (p ^ n) := by
  induction n with
  | zero => rw [pow_zero]; exact PM.one
  | succ n ih => rw [pow_succ]; exact ih.mul hp

theorem PM.ne_zero {p : K[X]} (hp : PM p) : p ≠ 0 := by
  rintro rfl
  rcases hp with hp | hp <;> simp at hp

theorem norm_vert (A : K × K) : Algebra.norm K[X] (vert b A) = (X - C A.1) ^ 2 := by
  have e : vert b A = (X - C A.1 : K[X]) • (1 : CR b) + (0 : K[X]) • CoordinateRing.mk (W b) Y := by
    rw [zero_smul, add_zero, CoordinateRing.smul, mul_one]; rfl
  rw [e, CoordinateRing.norm_smul_basis]
  ring

theorem norm_lineR (l : K) (A : K × K) :
    Algebra.norm K[X] (lineR b l A) = linePolynomial A.1 A.2 l ^ 2 - (X ^ 3 + C b) := by
  have e : lineR b l A = (-linePolynomial A.1 A.2 l : K[X]) • (1 : CR b) +
      (1 : K[X]) • CoordinateRing.mk (W b) Y := by
    rw [one_smul, CoordinateRing.smul, mul_one, lineR, CoordinateRing.YClass, map_sub, C_neg,
      map_neg]
    ring
  rw [e, CoordinateRing.norm_smul_basis]
  simp only [W_a₁, W_a₂, W_a₃, W_a₄, W_a₆, map_zero, zero_mul, add_zero, mul_zero, sub_zero]
  ring

theorem pm_norm_vert (A : K × K) : PM (Algebra.norm K[X] (vert b A)) := by
  rw [norm_vert]; exact PM.pow (Or.inl (leadingCoeff_X_sub_C _)) 2

theorem pm_norm_lineR (l : K) (A : K × K) : PM (Algebra.norm K[X] (lineR b l A)) := by
  rw [norm_lineR]
  right
  have hd : (linePolynomial A.1 A.2 l ^ 2).degree < (X ^ 3 + C b : K[X]).degree := by
    rw [degree_X_pow_add_C (by norm_num) b]
    have h1 : (linePolynomial A.1 A.2 l).degree ≤ 1 := by
      have e : linePolynomial A.1 A.2 l = C l * X + C (A.2 - l * A.1) := by
        unfold linePolynomial; rw [C_sub, C_mul]; ring
      rw [e]; exact degree_linear_le
    calc (linePolynomial A.1 A.2 l ^ 2).degree ≤ 2 • (linePolynomial A.1 A.2 l).degree :=
          degree_pow_le _ _
      _ ≤ 2 • (1 : WithBot ℕ) := nsmul_le_nsmul_right h1 2
      _ < ((3 : ℕ) : WithBot ℕ) := by decide
  rw [leadingCoeff_sub_of_degree_lt' hd, leadingCoeff_X_pow_add_C (by norm_num)]

theorem ne_zero_of_pm_norm {x : CR b} (h : PM (Algebra.norm K[X] x)) : x ≠ 0 := by
  rintro rfl
  apply h.ne_zero
  have e : (0 : CR b) = (0 : K[X]) • (1 : CR b) + (0 : K[X]) • CoordinateRing.mk (W b) Y := by
    rw [zero_smul, zero_smul, add_zero]
  rw [e, CoordinateRing.norm_smul_basis]
  ring

/-! ## the Miller chain in the coordinate ring -/

/-- state of the double-and-add chain: numerator and denominator of the Miller function (elements of
    `K[E]`), accumulator `T` -/
abbrev St (b : K) : Type := CR b × CR b × (K × K)

/-- numerator -/
abbrev St.N (s : St b) : CR b := s.1
/-- denominator -/
abbrev St.D (s : St b) : CR b := s.2.1
/-- accumulator -/
abbrev St.T (s : St b) : K × K := s.2.2

/-- one iteration: `f ← f² · l_{T,T} / v_{2T}`, `T ← 2T`; if the bit is set `f ← f · l_{T,Q} / v_{T+Q}`,
    `T ← T + Q` -/
noncomputable def stepR (b : K) (Q : K × K) (s : St b) (bit : Bool) : St b :=
  let T2 := affDouble s.T
  let N := s.N ^ 2 * lineR b (tangentSlope s.T) s.T
  let D := s.D ^ 2 * vert b T2
  if bit then ⟨N * lineR b (chordSlope T2 Q) T2, D * vert b (affAdd T2 Q), affAdd T2 Q⟩
  else ⟨N, D, T2⟩

/-- no exceptional case along the chain -/
def Reg (Q : K × K) : List Bool → K × K → Prop
  | [], _ => True
  | bit :: bs, T =>
    T.2 ≠ 0 ∧
      if bit then (affDouble T).1 ≠ Q.1 ∧ Reg Q bs (affAdd (affDouble T) Q)
      else Reg Q bs (affDouble T)

/-- `k` followed by the binary digits `bs` -/
def bval (k : ℕ) (bs : List Bool) : ℕ := bs.foldl (fun k bit => 2 * k + bit.toNat) k

/-- invariant: `div(N/D) = k (Q) - (T) - (k-1) (O)`, as an identity of ideals of `K[E]`:
    `⟨N⟩ · I(T) = ⟨D⟩ · I(Q)^k` -/
structure Inv (b : K) [ShortW b] (Q : K × K) (k : ℕ) (s : St b) : Prop where
  on : On b s.T
  pmN : PM (Algebra.norm K[X] s.N)
  pmD : PM (Algebra.norm K[X] s.D)
  ideal : Ideal.span {s.N} * I b s.T = Ideal.span {s.D} * I b Q ^ k

theorem Inv.start {Q : K × K} (hQ : On b Q) : Inv b Q 1 ⟨1, 1, Q⟩ where
  on := hQ
  pmN := by rw [map_one]; exact PM.one
  pmD := by rw [map_one]; exact PM.one
  ideal := by rw [pow_one]

theorem Inv.step {Q : K × K} (hQ : On b Q) {k : ℕ} {s : St b} (hs : Inv b Q k s) (bit : Bool)
    (hy : s.T.2 ≠ 0) (hx : bit = true → (affDouble s.T).1 ≠ Q.1) :
    Inv b Q (2 * k + bit.toNat) (stepR b Q s bit) := by
  have hT2 : On b (affDouble s.T) := hs.on.affDouble hy
  have ht := tangent_ideal hs.on hy
  have hv := I_neg_mul hT2
  have hd : Inv b Q (2 * k) ⟨s.N ^ 2 * lineR b (tangentSlope s.T) s.T,
      s.D ^ 2 * vert b (affDouble s.T), affDouble s.T⟩ := by
    refine ⟨hT2, ?_, ?_, ?_⟩
    · rw [map_mul, map_pow]; exact (hs.pmN.pow 2).mul (pm_norm_lineR _ _)
    · rw [map_mul, map_pow]; exact (hs.pmD.pow 2).mul (pm_norm_vert _)
    · show Ideal.span {s.N ^ 2 * lineR b (tangentSlope s.T) s.T} * I b (affDouble s.T) =
        Ideal.span {s.D ^ 2 * vert b (affDouble s.T)} * I b Q ^ (2 * k)
      simp only [← Ideal.span_singleton_mul_span_singleton, ← Ideal.span_singleton_pow]
      rw [ht]
      calc Ideal.span {s.N} ^ 2 * (I b s.T * I b s.T * I b (ngp (affDouble s.T))) *
            I b (affDouble s.T)
          = (Ideal.span {s.N} * I b s.T) ^ 2 *
              (I b (ngp (affDouble s.T)) * I b (affDouble s.T)) := by ring
        _ = Ideal.span {s.D} ^ 2 * Ideal.span {vert b (affDouble s.T)} * I b Q ^ (2 * k) := by
            rw [hs.ideal, hv]; ring
  cases bit with
  | false =>
    simpa [stepR] using hd
  | true =>
    have hx' := hx rfl
    have hT3 : On b (affAdd (affDouble s.T) Q) := hT2.affAdd hQ hx'
    have hc := chord_ideal hT2 hQ hx'
    have hv' := I_neg_mul hT3
    simp only [stepR, if_true, Bool.toNat_true]
    refine ⟨hT3, ?_, ?_, ?_⟩
    · rw [map_mul]; exact hd.pmN.mul (pm_norm_lineR _ _)
    · rw [map_mul]; exact hd.pmD.mul (pm_norm_vert _)
    · have hi : Ideal.span {s.N ^ 2 * lineR b (tangentSlope s.T) s.T} * I b (affDouble s.T) =
        Ideal.span {s.D ^ 2 * vert b (affDouble s.T)} * I b Q ^ (2 * k) := hd.ideal
      show Ideal.span {s.N ^ 2 * lineR b (tangentSlope s.T) s.T *
            lineR b (chordSlope (affDouble s.T) Q) (affDouble s.T)} *
          I b (affAdd (affDouble s.T) Q) =
        Ideal.span {s.D ^ 2 * vert b (affDouble s.T) * vert b (affAdd (affDouble s.T) Q)} *
          I b Q ^ (2 * k + 1)
      rw [← Ideal.span_singleton_mul_span_singleton (s.N ^ 2 * lineR b (tangentSlope s.T) s.T),
        ← Ideal.span_singleton_mul_span_singleton (s.D ^ 2 * vert b (affDouble s.T)), hc]
      calc Ideal.span {s.N ^ 2 * lineR b (tangentSlope s.T) s.T} *
              (I b (affDouble s.T) * I b Q * I b (ngp (affAdd (affDouble s.T) Q))) *
            I b (affAdd (affDouble s.T) Q)
          = (Ideal.span {s.N ^ 2 * lineR b (tangentSlope s.T) s.T} * I b (affDouble s.T)) * I b Q *
              (I b (ngp (affAdd (affDouble s.T) Q)) * I b (affAdd (affDouble s.T) Q)) := by ring
        _ = Ideal.span {s.D ^ 2 * vert b (affDouble s.T)} *
              Ideal.span {vert b (affAdd (affDouble s.T) Q)} * I b Q ^ (2 * k + 1) := by
            rw [hi, hv']; ring

theorem Inv.fold {Q : K × K} (hQ : On b Q) (bs : List Bool) {k : ℕ} {s : St b} (hs : Inv b Q k s)
    (hreg : Reg Q bs s.T) : Inv b Q (bval k bs) (bs.foldl (stepR b Q) s) := by
  induction bs generalizing k s with
  | nil => exact hs
  | cons bit bs ih =>
    rw [List.foldl_cons]
    have hstep : Inv b Q (2 * k + bit.toNat) (stepR b Q s bit) := by
      refine hs.step hQ bit hreg.1 ?_
      rintro rfl
      have := hreg.2
      exact this.1
    refine ih hstep ?_
    have := hreg.2
    cases bit with
    | false => simpa [stepR] using this
    | true => simpa [stepR] using this.2

/-! ## the quotient of Miller functions is a constant -/

theorem ev_const {P : K × K} (h : On b P) (c : K) : ev h (algebraMap K[X] (CR b) (C c)) = c := by
  have e : algebraMap K[X] (CR b) (C c) = CoordinateRing.mk (W b) (C (C c)) := rfl
  rw [e, ev_mk]
  simp [evalEval]

theorem norm_const (c : K) : Algebra.norm K[X] (algebraMap K[X] (CR b) (C c)) = C c ^ 2 := by
  rw [Algebra.norm_algebraMap_of_basis (CoordinateRing.basis (W b))]
  simp

/-- **`F_{n,Q₁+Q₂} · l^n · v_n · D₁ D₂ = c · D₃ · N₁ N₂ · v^n · l_n`** with a constant `c`, `c⁴ = 1`
    (in fact `c = 1`): `l` the line through `Q₁`, `Q₂`, `v` the vertical at `Q₃ = Q₁ + Q₂`, `l_n` the line
    through `T₁ = [n]Q₁`, `T₂ = [n]Q₂`, `v_n` the vertical at `T₃ = T₁ + T₂`; `N_i / D_i` the Miller
    functions, `div(N_i/D_i) = n(Q_i) - (T_i) - (n-1)(O)`.  Both sides have the same (principal) ideal
    in `K[E]`, a domain whose units are constants; the norms to `K[X]` have leading coefficient `±1`. -/
theorem miller_additive {Q₁ Q₂ : K × K} (h₁ : On b Q₁) (h₂ : On b Q₂) (hno : NotOpp Q₁ Q₂)
    (s₁ s₂ s₃ : St b) (n : ℕ) (i₁ : Inv b Q₁ n s₁) (i₂ : Inv b Q₂ n s₂)
    (i₃ : Inv b (addAB b Q₁ Q₂) n s₃) (hnoT : NotOpp s₁.T s₂.T) (hT : s₃.T = addAB b s₁.T s₂.T) :
    ∃ c : K, c ^ 4 = 1 ∧ ∀ (P : K × K) (h : On b P),
      ev h (s₃.N * lineR b (slopeAB b Q₁ Q₂) Q₁ ^ n * vert b s₃.T * s₁.D * s₂.D) * c =
        ev h (s₃.D * s₁.N * s₂.N * vert b (addAB b Q₁ Q₂) ^ n *
          lineR b (slopeAB b s₁.T s₂.T) s₁.T) := by
  have h₃ : On b (addAB b Q₁ Q₂) := h₁.addAB h₂ hno
  have el0 := line_ideal h₁ h₂ hno
  have eln0 := line_ideal i₁.on i₂.on hnoT
  rw [← hT] at eln0
  have pml := pm_norm_lineR (b := b) (slopeAB b Q₁ Q₂) Q₁
  have pmln := pm_norm_lineR (b := b) (slopeAB b s₁.T s₂.T) s₁.T
  generalize addAB b Q₁ Q₂ = Q₃ at *
  generalize lineR b (slopeAB b Q₁ Q₂) Q₁ = l at *
  generalize lineR b (slopeAB b s₁.T s₂.T) s₁.T = ln at *
  obtain ⟨A, hA⟩ : ∃ A : CR b, A = s₃.N * l ^ n * vert b s₃.T * s₁.D * s₂.D := ⟨_, rfl⟩
  obtain ⟨B, hB⟩ : ∃ B : CR b, B = s₃.D * s₁.N * s₂.N * vert b Q₃ ^ n * ln := ⟨_, rfl⟩
  rw [← hA, ← hB]
  -- ideals
  have el : Ideal.span {l} = I b Q₁ * I b Q₂ * I b (ngp Q₃) := el0
  have ev' : I b (ngp Q₃) * I b Q₃ = Ideal.span {vert b Q₃} := I_neg_mul h₃
  have eln : Ideal.span {ln} = I b s₁.T * I b s₂.T * I b (ngp s₃.T) := eln0
  have evn : I b (ngp s₃.T) * I b s₃.T = Ideal.span {vert b s₃.T} := I_neg_mul i₃.on
  have ev1 : I b (ngp s₁.T) * I b s₁.T = Ideal.span {vert b s₁.T} := I_neg_mul i₁.on
  have ev2 : I b (ngp s₂.T) * I b s₂.T = Ideal.span {vert b s₂.T} := I_neg_mul i₂.on
  have key : Ideal.span {A} * (I b s₁.T * I b s₂.T) = Ideal.span {B} * (I b s₁.T * I b s₂.T) := by
    rw [hA, hB]
    simp only [← Ideal.span_singleton_mul_span_singleton, ← Ideal.span_singleton_pow]
    rw [el, ← evn, ← ev', eln]
    calc Ideal.span {s₃.N} * (I b Q₁ * I b Q₂ * I b (ngp Q₃)) ^ n * (I b (ngp s₃.T) * I b s₃.T) *
            Ideal.span {s₁.D} * Ideal.span {s₂.D} * (I b s₁.T * I b s₂.T)
        = (Ideal.span {s₃.N} * I b s₃.T) * (I b Q₁ * I b Q₂ * I b (ngp Q₃)) ^ n * I b (ngp s₃.T) *
            Ideal.span {s₁.D} * Ideal.span {s₂.D} * (I b s₁.T * I b s₂.T) := by ring
      _ = Ideal.span {s₃.D} * (Ideal.span {s₁.D} * I b Q₁ ^ n) * (Ideal.span {s₂.D} * I b Q₂ ^ n) *
            (I b (ngp Q₃) * I b Q₃) ^ n * (I b s₁.T * I b s₂.T * I b (ngp s₃.T)) := by
          rw [i₃.ideal]; ring
      _ = Ideal.span {s₃.D} * Ideal.span {s₁.N} * Ideal.span {s₂.N} * (I b (ngp Q₃) * I b Q₃) ^ n *
            (I b s₁.T * I b s₂.T * I b (ngp s₃.T)) * (I b s₁.T * I b s₂.T) := by
          rw [← i₁.ideal, ← i₂.ideal]; ring
  have hw : vert b s₁.T * vert b s₂.T ≠ 0 := mul_ne_zero (vert_ne_zero _) (vert_ne_zero _)
  have hspan : Ideal.span {A} = Ideal.span {B} := by
    rw [← Ideal.span_singleton_mul_left_inj hw,
      ← Ideal.span_singleton_mul_span_singleton (vert b s₁.T) (vert b s₂.T), ← ev1, ← ev2]
    calc Ideal.span {A} * (I b (ngp s₁.T) * I b s₁.T * (I b (ngp s₂.T) * I b s₂.T))
        = Ideal.span {A} * (I b s₁.T * I b s₂.T) * (I b (ngp s₁.T) * I b (ngp s₂.T)) := by ring
      _ = Ideal.span {B} * (I b (ngp s₁.T) * I b s₁.T * (I b (ngp s₂.T) * I b s₂.T)) := by
          rw [key]; ring
  obtain ⟨u, hu⟩ := Ideal.span_singleton_eq_span_singleton.mp hspan
  obtain ⟨c, -, hc⟩ := unit_const u
  -- norms
  have pmA : PM (Algebra.norm K[X] A) := by
    rw [hA]; simp only [map_mul, map_pow]
    exact ((((i₃.pmN.mul (pml.pow n)).mul (pm_norm_vert _)).mul i₁.pmD).mul i₂.pmD)
  have pmB : PM (Algebra.norm K[X] B) := by
    rw [hB]; simp only [map_mul, map_pow]
    exact ((((i₃.pmD.mul i₁.pmN).mul i₂.pmN).mul ((pm_norm_vert _).pow n)).mul pmln)
  have hn : Algebra.norm K[X] A * C c ^ 2 = Algebra.norm K[X] B := by
    rw [← hu, map_mul, hc, norm_const]
  have hlc : (Algebra.norm K[X] A).leadingCoeff * c ^ 2 = (Algebra.norm K[X] B).leadingCoeff := by
    rw [← hn, leadingCoeff_mul, leadingCoeff_pow, leadingCoeff_C]
  have hc4 : c ^ 4 = 1 := by
    rcases pmA with ha | ha <;> rcases pmB with hb | hb <;> rw [ha, hb] at hlc
    · linear_combination (c ^ 2 + 1) * hlc
    · linear_combination (c ^ 2 - 1) * hlc
    · linear_combination (-c ^ 2 + 1) * hlc
    · linear_combination (-c ^ 2 - 1) * hlc
  refine ⟨c, hc4, fun P h => ?_⟩
  have := congrArg (ev h) hu
  rw [map_mul, hc, ev_const] at this
  exact this

/-! ## evaluation of the chain -/

/-- the value-level chain: numerator value, denominator value, accumulator -/
def stepV (P Q : K × K) (s : K × K × (K × K)) (bit : Bool) : K × K × (K × K) :=
  let T2 := affDouble s.2.2
  let f := s.1 ^ 2 * tangentAt s.2.2 P
  let d := s.2.1 ^ 2 * verticalAt T2 P
  if bit then (f * chordAt T2 Q P, d * verticalAt (affAdd T2 Q) P, affAdd T2 Q) else (f, d, T2)

/-- evaluation of a state at `P` -/
noncomputable def evSt {P : K × K} (h : On b P) (s : St b) : K × K × (K × K) :=
  (ev h s.N, ev h s.D, s.T)

theorem evSt_stepR {P : K × K} (h : On b P) (Q : K × K) (s : St b) (bit : Bool) :
    evSt h (stepR b Q s bit) = stepV P Q (evSt h s) bit := by
  cases bit <;>
    simp [evSt, stepR, stepV, St.N, St.D, St.T, map_mul, map_pow, ev_lineR, ev_vert, tangentAt,
      chordAt]

theorem evSt_fold {P : K × K} (h : On b P) (Q : K × K) (bs : List Bool) (s : St b) :
    evSt h (bs.foldl (stepR b Q) s) = bs.foldl (stepV P Q) (evSt h s) := by
  induction bs generalizing s with
  | nil => rfl
  | cons bit bs ih => rw [List.foldl_cons, List.foldl_cons, ih, evSt_stepR]

end BilinQ
end PP
