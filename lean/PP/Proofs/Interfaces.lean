/-
Interfaces that decouple the proof layers.

* `GroupModel`: what the scalar-multiplication / MSM / cofactor / encoding proofs need to know about
  the Jacobian arithmetic of `PP.Model.Curve` — it is provided by the C01 theorems
  (`PP.Proofs.Jacobian`) with `G := (W b).Point`, and consumed by C02, C10, C17, C04, C07.
* `LawfulSqrtOps`: what the decoders need to know about `sqrt` and the order — provided by C18.
-/
import Mathlib.Algebra.Group.Basic
import Mathlib.Algebra.Group.Even
import PP.Proofs.Lawful
import PP.Model.Curve

namespace PP

/-- An abstraction of the model's curve arithmetic into an abelian group `G`. -/
structure GroupModel (F : Type) [Field F] [DecidableEq F] [FieldOps F] (G : Type) [AddCommGroup G] where
  /-- representation invariant of projective points ("is a point of the curve") -/
  ValidJ : Jac F → Prop
  /-- representation invariant of affine points -/
  ValidA : Aff F → Prop
  absJ : Jac F → G
  absA : Aff F → G
  zero_valid : ValidJ Jac.zero
  zero_abs : absJ Jac.zero = 0
  isZero_iff : ∀ P, ValidJ P → (P.isZero = true ↔ absJ P = 0)
  double_valid : ∀ P, ValidJ P → ValidJ P.double
  double_abs : ∀ P, ValidJ P → absJ P.double = absJ P + absJ P
  add_valid : ∀ P Q, ValidJ P → ValidJ Q → ValidJ (P.add Q)
  add_abs : ∀ P Q, ValidJ P → ValidJ Q → absJ (P.add Q) = absJ P + absJ Q
  addMixed_valid : ∀ P A, ValidJ P → ValidA A → ValidJ (P.addMixed A)
  addMixed_abs : ∀ P A, ValidJ P → ValidA A → absJ (P.addMixed A) = absJ P + absA A
  neg_valid : ∀ P, ValidJ P → ValidJ P.neg
  neg_abs : ∀ P, ValidJ P → absJ P.neg = - absJ P
  affZero_valid : ValidA Aff.zero
  affZero_abs : absA Aff.zero = 0
  affInf_iff : ∀ A, ValidA A → (A.infinity = true ↔ absA A = 0)
  affNeg_valid : ∀ A, ValidA A → ValidA A.neg
  affNeg_abs : ∀ A, ValidA A → absA A.neg = - absA A
  toJac_valid : ∀ A, ValidA A → ValidJ A.toJac
  toJac_abs : ∀ A, ValidA A → absJ A.toJac = absA A
  toAffine_ok : ∀ P, ValidJ P → ∃ A, P.toAffine = some A ∧ ValidA A ∧ absA A = absJ P
  /-- two valid affine points with the same abstraction are the same record
      (affine coordinates are canonical; the identity is `Aff.zero`) -/
  absA_inj : ∀ A B, ValidA A → ValidA B → absA A = absA B → (A.infinity = B.infinity ∧ (A.infinity = false → A.x = B.x ∧ A.y = B.y))

/-- What the decoders and `get_point_from_x` rely on. `lt` is the strict order of the Rust `Ord`. -/
class LawfulSqrtOps (F : Type) [Field F] [SqrtOps F] : Prop where
  sqrt_sound : ∀ a b : F, SqrtOps.sqrt a = some b → b * b = a
  sqrt_complete : ∀ a : F, SqrtOps.sqrt a = none → ¬ IsSquare a
  lt_irrefl : ∀ a : F, SqrtOps.lt a a = false
  lt_asymm : ∀ a b : F, SqrtOps.lt a b = true → SqrtOps.lt b a = false
  lt_total : ∀ a b : F, a ≠ b → SqrtOps.lt a b = true ∨ SqrtOps.lt b a = true

end PP
