/-
The generic `Field::pow` of the model (`powLoop`/`powBits`/`powLimbs`/`powNat`: MSB-first
square-and-multiply with the `found_one` flag over the bits of a limb array) is exponentiation.

Stated for any monoid whose model squaring `sq` is `a * a` (`powBits_eq_pow`, `powLimbs_eq_pow`,
`powNat_eq_pow_mod`, `powNat_eq_pow`) and specialised to lawful fields (`Lawful.powNat_eq_pow`, …).
Everything lives in `namespace PP.PowLoop` (PP/Proofs/Bits.lean has similarly named bit lemmas).
-/
import Mathlib.Algebra.Group.Defs
import Mathlib.Algebra.Group.Basic
import PP.Model.Field
import PP.Proofs.Lawful

namespace PP
namespace PowLoop

/-! ### the number denoted by an MSB-first bit list -/

/-- Horner evaluation of an MSB-first bit list on top of an accumulator. -/
def ofBitsMSBAux : Nat → List Bool → Nat
  | n, [] => n
  | n, b :: bs => ofBitsMSBAux (2 * n + b.toNat) bs

/-- The natural number whose binary digits, most significant first, are `bits`. -/
def ofBitsMSB (bits : List Bool) : Nat := ofBitsMSBAux 0 bits

theorem ofBitsMSBAux_append (n : Nat) (xs ys : List Bool) :
    ofBitsMSBAux n (xs ++ ys) = ofBitsMSBAux (ofBitsMSBAux n xs) ys := by
  induction xs generalizing n with
  | nil => rfl
  | cons b bs ih => simp [ofBitsMSBAux, ih]

theorem ofBitsMSBAux_wordBits (n w : Nat) : ∀ k : Nat,
    ofBitsMSBAux n (wordBitsMSB w k) = n * 2 ^ k + w % 2 ^ k
  | 0 => by simp [wordBitsMSB, ofBitsMSBAux, Nat.mod_one]
  | k + 1 => by
    rw [wordBitsMSB, ofBitsMSBAux, ofBitsMSBAux_wordBits _ w k, Nat.toNat_testBit,
      Nat.mod_pow_succ (x := w) (b := 2) (k := k), Nat.pow_succ]
    ring

/-- every limb is a 64-bit word -/
def LimbsOk (ls : List Nat) : Prop := ∀ l ∈ ls, l < 2 ^ 64

theorem ofBitsMSBAux_bitsMSB (n : Nat) : ∀ ls : List Nat, LimbsOk ls →
    ofBitsMSBAux n (bitsMSB ls) = n * 2 ^ (64 * ls.length) + limbsToNat ls
  | [], _ => by simp [bitsMSB, ofBitsMSBAux, limbsToNat]
  | l :: ls, h => by
    have hl : l < 2 ^ 64 := h l (by simp)
    have hls : LimbsOk ls := fun x hx => h x (by simp [hx])
    rw [bitsMSB, ofBitsMSBAux_append, ofBitsMSBAux_bitsMSB n ls hls, ofBitsMSBAux_wordBits,
      Nat.mod_eq_of_lt hl, limbsToNat, List.length_cons, Nat.mul_succ, Nat.pow_add]
    rw [Nat.add_mul, Nat.mul_assoc]
    omega

theorem ofBitsMSB_bitsMSB (ls : List Nat) (h : LimbsOk ls) :
    ofBitsMSB (bitsMSB ls) = limbsToNat ls := by
  rw [ofBitsMSB, ofBitsMSBAux_bitsMSB 0 ls h]; simp

theorem limbsOf_ok : ∀ (k n : Nat), LimbsOk (limbsOf k n)
  | 0, _ => by intro l hl; simp [limbsOf] at hl
  | k + 1, n => by
    intro l hl
    simp only [limbsOf, List.mem_cons] at hl
    rcases hl with rfl | hl
    · exact Nat.mod_lt _ (by decide)
    · exact limbsOf_ok k _ l hl

theorem limbsOf_length : ∀ (k n : Nat), (limbsOf k n).length = k
  | 0, _ => rfl
  | k + 1, n => by simp [limbsOf, limbsOf_length k]

theorem limbsToNat_limbsOf : ∀ (k n : Nat), limbsToNat (limbsOf k n) = n % 2 ^ (64 * k)
  | 0, n => by simp [limbsOf, limbsToNat, Nat.mod_one]
  | k + 1, n => by
    rw [limbsOf, limbsToNat, limbsToNat_limbsOf k, Nat.mul_succ, Nat.pow_add,
      Nat.mul_comm (2 ^ (64 * k)) (2 ^ 64), Nat.mod_mul]

theorem limbsToNat_limbsOf_of_lt (k n : Nat) (h : n < 2 ^ (64 * k)) :
    limbsToNat (limbsOf k n) = n := by
  rw [limbsToNat_limbsOf, Nat.mod_eq_of_lt h]

/-! ### `powLoop` over a monoid -/

section Monoid
variable {M : Type} [Monoid M] [FieldOps M]

/-- Loop invariant of `Field::pow`: the accumulator is `a ^ n`, and `found_one = false` only while
    `n = 0`. -/
theorem powLoop_fst (hsq : ∀ x : M, sq x = x * x) (a : M) :
    ∀ (bits : List Bool) (n : Nat) (found : Bool), (found = false → n = 0) →
      (powLoop a bits (a ^ n, found)).1 = a ^ ofBitsMSBAux n bits
  | [], n, found, _ => rfl
  | i :: bs, n, found, h => by
    rw [ofBitsMSBAux]
    cases found with
    | true =>
      cases i with
      | true =>
        have e : sq (a ^ n) * a = a ^ (2 * n + true.toNat) := by
          simp [hsq, pow_succ, two_mul, pow_add]
        show (powLoop a bs (sq (a ^ n) * a, true)).1 = _
        rw [e]
        exact powLoop_fst hsq a bs _ _ (fun h => absurd h (by decide))
      | false =>
        have e : sq (a ^ n) = a ^ (2 * n + false.toNat) := by
          simp [hsq, two_mul, pow_add]
        show (powLoop a bs (sq (a ^ n), true)).1 = _
        rw [e]
        exact powLoop_fst hsq a bs _ _ (fun h => absurd h (by decide))
    | false =>
      have hn : n = 0 := h rfl
      subst hn
      cases i with
      | true =>
        have e : (a ^ 0 * a : M) = a ^ (2 * 0 + true.toNat) := by simp
        show (powLoop a bs (a ^ 0 * a, true)).1 = _
        rw [e]
        exact powLoop_fst hsq a bs _ _ (fun h => absurd h (by decide))
      | false =>
        show (powLoop a bs (a ^ 0, false)).1 = _
        exact powLoop_fst hsq a bs _ _ (fun _ => rfl)

theorem powBits_eq_pow (hsq : ∀ x : M, sq x = x * x) (a : M) (bits : List Bool) :
    powBits a bits = a ^ ofBitsMSB bits := by
  have := powLoop_fst hsq a bits 0 false (fun _ => rfl)
  rw [pow_zero] at this
  exact this

theorem powLimbs_eq_pow (hsq : ∀ x : M, sq x = x * x) (a : M) (ls : List Nat) (h : LimbsOk ls) :
    powLimbs a ls = a ^ limbsToNat ls := by
  rw [powLimbs, powBits_eq_pow hsq, ofBitsMSB_bitsMSB ls h]

theorem powNat_eq_pow_mod (hsq : ∀ x : M, sq x = x * x) (a : M) (e k : Nat) :
    powNat a e k = a ^ (e % 2 ^ (64 * k)) := by
  rw [powNat, powLimbs_eq_pow hsq a _ (limbsOf_ok k e), limbsToNat_limbsOf]

theorem powNat_eq_pow (hsq : ∀ x : M, sq x = x * x) (a : M) (e k : Nat) (h : e < 2 ^ (64 * k)) :
    powNat a e k = a ^ e := by
  rw [powNat_eq_pow_mod hsq, Nat.mod_eq_of_lt h]

/-- `sqN a n` (square `n` times) is `a ^ (2 ^ n)`. -/
theorem sqN_eq_pow (hsq : ∀ x : M, sq x = x * x) : ∀ (n : Nat) (a : M), sqN a n = a ^ (2 ^ n)
  | 0, a => by simp [sqN]
  | n + 1, a => by
    rw [sqN, sqN_eq_pow hsq n, hsq, ← pow_two, ← pow_mul, ← pow_succ']

end Monoid

/-! ### the same for lawful fields -/

namespace Lawful
variable {F : Type} [Field F] [FieldOps F] [LawfulFieldOps F]

theorem powBits_eq_pow (a : F) (bits : List Bool) : powBits a bits = a ^ ofBitsMSB bits :=
  PowLoop.powBits_eq_pow LawfulFieldOps.sq_eq a bits

theorem powLimbs_eq_pow (a : F) (ls : List Nat) (h : LimbsOk ls) :
    powLimbs a ls = a ^ limbsToNat ls :=
  PowLoop.powLimbs_eq_pow LawfulFieldOps.sq_eq a ls h

theorem powNat_eq_pow_mod (a : F) (e k : Nat) : powNat a e k = a ^ (e % 2 ^ (64 * k)) :=
  PowLoop.powNat_eq_pow_mod LawfulFieldOps.sq_eq a e k

theorem powNat_eq_pow (a : F) (e k : Nat) (h : e < 2 ^ (64 * k)) : powNat a e k = a ^ e :=
  PowLoop.powNat_eq_pow LawfulFieldOps.sq_eq a e k h

theorem sqN_eq_pow (n : Nat) (a : F) : sqN a n = a ^ (2 ^ n) :=
  PowLoop.sqN_eq_pow LawfulFieldOps.sq_eq n a

end Lawful

end PowLoop
end PP
