/-
Limb-level Montgomery multiplication, part 1: weighted sums, the state invariant of the interpreter
`PP.MontLimb`, the generic "row of `mac`s" lemma, and the schoolbook product `genMulProg n`.

Route (see `PP/Model/MontLimb.lean`): the extracted programs are syntactically equal to the output of
the Lean generators `gen…Prog n` (`n = 6, 4`; kernel-checked), and for EVERY `n` the interpretation of
`gen…Prog n` is proved to compute the integer-level model `Mont.mul / square / montReduce`.
-/
import Mathlib.Tactic.Ring
import Mathlib.Tactic.Linarith
import Mathlib.Tactic.NormNum
import Mathlib.Tactic.Positivity
import Mathlib.Tactic.SplitIfs
import Mathlib.Tactic.LinearCombination
import PP.Model.MontLimb
import PP.Proofs.Limbs

namespace PP.MontLimb
open PP PP.Mont PP.Limbs

/-! ## 0. the extracted programs are the generator's output -/

theorem fq_mul_prog_eq : Gen.FQ_MUL_PROG = genMulProg 6 := by decide +kernel
theorem fr_mul_prog_eq : Gen.FR_MUL_PROG = genMulProg 4 := by decide +kernel
theorem fq_square_prog_eq : Gen.FQ_SQUARE_PROG = genSquareProg 6 := by decide +kernel
theorem fr_square_prog_eq : Gen.FR_SQUARE_PROG = genSquareProg 4 := by decide +kernel
theorem fq_mont_reduce_prog_eq : Gen.FQ_MONT_REDUCE_PROG = genMontReduceProg 6 := by decide +kernel
theorem fr_mont_reduce_prog_eq : Gen.FR_MONT_REDUCE_PROG = genMontReduceProg 4 := by decide +kernel

/-! ## 1. weighted sums `Σ_{j<m} f j · 2^(64 j)` -/

def wsum (f : Nat → Nat) : Nat → Nat
  | 0 => 0
  | m + 1 => wsum f m + f m * 2 ^ (64 * m)

@[simp] theorem wsum_zero (f : Nat → Nat) : wsum f 0 = 0 := rfl
theorem wsum_succ (f : Nat → Nat) (m : Nat) : wsum f (m + 1) = wsum f m + f m * 2 ^ (64 * m) := rfl

theorem wsum_congr {f g : Nat → Nat} {m : Nat} (h : ∀ j, j < m → f j = g j) : wsum f m = wsum g m := by
  induction m with
  | zero => rfl
  | succ m ih =>
    rw [wsum_succ, wsum_succ, ih (fun j hj => h j (by omega)), h m (by omega)]

theorem wsum_add (f : Nat → Nat) (a b : Nat) :
    wsum f (a + b) = wsum f a + 2 ^ (64 * a) * wsum (fun j => f (a + j)) b := by
  induction b with
  | zero => simp
  | succ b ih =>
    rw [← Nat.add_assoc, wsum_succ, wsum_succ, ih]
    ring

theorem wsum_succ' (f : Nat → Nat) (m : Nat) :
    wsum f (m + 1) = f 0 + 2 ^ 64 * wsum (fun j => f (1 + j)) m := by
  rw [Nat.add_comm m 1, wsum_add]
  simp [wsum_succ]

theorem wsum_lt {f : Nat → Nat} {m : Nat} (h : ∀ j, j < m → f j < 2 ^ 64) : wsum f m < 2 ^ (64 * m) := by
  induction m with
  | zero => simp
  | succ m ih =>
    have ih := ih (fun j hj => h j (by omega))
    have hm := h m (by omega)
    rw [wsum_succ, pow64_succ]
    have : f m * 2 ^ (64 * m) ≤ (2 ^ 64 - 1) * 2 ^ (64 * m) := Nat.mul_le_mul_right _ (by omega)
    have e : (2 ^ 64 - 1) * 2 ^ (64 * m) + 2 ^ (64 * m) = 2 ^ 64 * 2 ^ (64 * m) := by
      rw [Nat.sub_mul]; have : 2 ^ (64 * m) ≤ 2 ^ 64 * 2 ^ (64 * m) := Nat.le_mul_of_pos_left _ (by positivity)
      omega
    omega

theorem wsum_mul_left (x : Nat) (f : Nat → Nat) (m : Nat) :
    x * wsum f m = wsum (fun j => x * f j) m := by
  induction m with
  | zero => simp
  | succ m ih => rw [wsum_succ, wsum_succ, ← ih]; ring

theorem wsum_add_fun (f g : Nat → Nat) (m : Nat) :
    wsum (fun j => f j + g j) m = wsum f m + wsum g m := by
  induction m with
  | zero => simp
  | succ m ih => rw [wsum_succ, wsum_succ, wsum_succ, ih]; ring

theorem wsum_zero_fun (m : Nat) : wsum (fun _ => 0) m = 0 := by
  induction m with
  | zero => rfl
  | succ m ih => rw [wsum_succ, ih]; simp

/-- `limbsToNat` of a tabulated list -/
theorem limbsToNat_map_range (f : Nat → Nat) (m : Nat) :
    limbsToNat ((List.range m).map f) = wsum f m := by
  induction m with
  | zero => rfl
  | succ m ih =>
    rw [List.range_succ, List.map_append, limbsToNat_append, ih, wsum_succ]
    simp [Nat.mul_comm]

theorem wsum_limbFn (l : List Nat) : wsum (limbFn l) l.length = limbsToNat l := by
  induction l using List.reverseRecOn with
  | nil => rfl
  | append_singleton l a ih =>
    rw [List.length_append, List.length_singleton, wsum_succ, limbsToNat_append]
    have h1 : wsum (limbFn (l ++ [a])) l.length = wsum (limbFn l) l.length := by
      apply wsum_congr; intro j hj
      simp [limbFn, List.getD_eq_getElem?_getD, List.getElem?_append_left hj]
    have h2 : limbFn (l ++ [a]) l.length = a := by
      simp [limbFn, List.getD_eq_getElem?_getD]
    rw [h1, h2, ih]; simp [Nat.mul_comm]

theorem limbFn_lt {l : List Nat} (h : LimbsOK l) (i : Nat) : limbFn l i < 2 ^ 64 := by
  unfold limbFn
  rw [List.getD_eq_getElem?_getD]
  cases hi : l[i]? with
  | none => simp
  | some v => simpa using h v (List.mem_of_getElem? hi)

theorem map_range_limbFn (l : List Nat) : (List.range l.length).map (limbFn l) = l := by
  apply List.ext_getElem
  · simp
  · intro i h1 h2
    simp [limbFn, List.getD_eq_getElem?_getD] at h1 h2 ⊢
    rw [List.getElem?_eq_getElem h2]; rfl

/-! ## 2. machine-word arithmetic -/

/-- `mac_with_carry` on `u64` values: no overflow in `u128`, and `lo + 2^64·hi = a + b·c + carry` -/
theorem mac_arith {a b c cy : Nat} (ha : a < 2 ^ 64) (hb : b < 2 ^ 64) (hc : c < 2 ^ 64) (hcy : cy < 2 ^ 64) :
    (a + b * c + cy) % 2 ^ 128 % 2 ^ 64 + 2 ^ 64 * ((a + b * c + cy) % 2 ^ 128 / 2 ^ 64 % 2 ^ 64)
      = a + b * c + cy := by
  have h : b * c ≤ (2 ^ 64 - 1) * (2 ^ 64 - 1) := Nat.mul_le_mul (by omega) (by omega)
  generalize b * c = x at h ⊢
  omega

theorem adc_arith {a b cy : Nat} (ha : a < 2 ^ 64) (hb : b < 2 ^ 64) (hcy : cy < 2 ^ 64) :
    (a + b + cy) % 2 ^ 128 % 2 ^ 64 + 2 ^ 64 * ((a + b + cy) % 2 ^ 128 / 2 ^ 64 % 2 ^ 64)
      = a + b + cy := by
  omega

/-! ## 3. the state invariant: every local and every limb is a `u64` -/

structure State.OK (s : State) : Prop where
  r : ∀ i, s.r i < 2 ^ 64
  k : s.k < 2 ^ 64
  carry : s.carry < 2 ^ 64
  carry2 : s.carry2 < 2 ^ 64
  self : ∀ i, s.self i < 2 ^ 64
  other : ∀ i, s.other i < 2 ^ 64

theorem modLimb_lt (P : Params) (i : Nat) : modLimb P i < 2 ^ 64 := by
  unfold modLimb
  exact limbFn_lt (limbsOf_ok _ _) i

theorem State.OK.get {s : State} (h : s.OK) (x : Reg) : s.get x < 2 ^ 64 := by
  cases x with
  | r i => exact h.r i
  | k => exact h.k
  | carry => exact h.carry
  | carry2 => exact h.carry2

theorem evalOpd_lt (P : Params) {s : State} (h : s.OK) (o : Opd) : evalOpd P s o < 2 ^ 64 := by
  cases o with
  | reg x => exact h.get x
  | lit n => exact Nat.mod_lt _ (by norm_num)
  | selfL i => exact h.self i
  | otherL i => exact h.other i
  | modL i => exact modLimb_lt P i
  | inv => exact Nat.mod_lt _ (by norm_num)

theorem State.OK.set {s : State} (h : s.OK) (x : Reg) {v : Nat} (hv : v < 2 ^ 64) : (s.set x v).OK := by
  cases x with
  | r i =>
    refine ⟨fun j => ?_, h.k, h.carry, h.carry2, h.self, h.other⟩
    show (if j = i then v else s.r j) < 2 ^ 64
    split_ifs
    · exact hv
    · exact h.r j
  | k => exact ⟨h.r, hv, h.carry, h.carry2, h.self, h.other⟩
  | carry => exact ⟨h.r, h.k, hv, h.carry2, h.self, h.other⟩
  | carry2 => exact ⟨h.r, h.k, h.carry, hv, h.self, h.other⟩

theorem State.OK.setCarry {s : State} (h : s.OK) {v : Nat} (hv : v < 2 ^ 64) :
    ({ s with carry := v } : State).OK := ⟨h.r, h.k, hv, h.carry2, h.self, h.other⟩

/-! ### projections of `set` (all by `rfl`) -/

@[simp] theorem set_r_r (s : State) (i v j : Nat) : (s.set (.r i) v).r j = if j = i then v else s.r j := rfl
@[simp] theorem set_r_k (s : State) (i v : Nat) : (s.set (.r i) v).k = s.k := rfl
@[simp] theorem set_r_carry (s : State) (i v : Nat) : (s.set (.r i) v).carry = s.carry := rfl
@[simp] theorem set_r_carry2 (s : State) (i v : Nat) : (s.set (.r i) v).carry2 = s.carry2 := rfl
@[simp] theorem set_r_self (s : State) (i v : Nat) : (s.set (.r i) v).self = s.self := rfl
@[simp] theorem set_r_other (s : State) (i v : Nat) : (s.set (.r i) v).other = s.other := rfl
@[simp] theorem set_carry_r (s : State) (v : Nat) : (s.set .carry v).r = s.r := rfl
@[simp] theorem set_carry_k (s : State) (v : Nat) : (s.set .carry v).k = s.k := rfl
@[simp] theorem set_carry_carry (s : State) (v : Nat) : (s.set .carry v).carry = v := rfl
@[simp] theorem set_carry_carry2 (s : State) (v : Nat) : (s.set .carry v).carry2 = s.carry2 := rfl
@[simp] theorem set_carry_self (s : State) (v : Nat) : (s.set .carry v).self = s.self := rfl
@[simp] theorem set_carry_other (s : State) (v : Nat) : (s.set .carry v).other = s.other := rfl
@[simp] theorem set_carry2_r (s : State) (v : Nat) : (s.set .carry2 v).r = s.r := rfl
@[simp] theorem set_carry2_k (s : State) (v : Nat) : (s.set .carry2 v).k = s.k := rfl
@[simp] theorem set_carry2_carry (s : State) (v : Nat) : (s.set .carry2 v).carry = s.carry := rfl
@[simp] theorem set_carry2_carry2 (s : State) (v : Nat) : (s.set .carry2 v).carry2 = v := rfl
@[simp] theorem set_carry2_self (s : State) (v : Nat) : (s.set .carry2 v).self = s.self := rfl
@[simp] theorem set_carry2_other (s : State) (v : Nat) : (s.set .carry2 v).other = s.other := rfl
@[simp] theorem set_k_r (s : State) (v : Nat) : (s.set .k v).r = s.r := rfl
@[simp] theorem set_k_k (s : State) (v : Nat) : (s.set .k v).k = v := rfl
@[simp] theorem set_k_carry (s : State) (v : Nat) : (s.set .k v).carry = s.carry := rfl
@[simp] theorem set_k_carry2 (s : State) (v : Nat) : (s.set .k v).carry2 = s.carry2 := rfl
@[simp] theorem set_k_self (s : State) (v : Nat) : (s.set .k v).self = s.self := rfl
@[simp] theorem set_k_other (s : State) (v : Nat) : (s.set .k v).other = s.other := rfl

/-- every instruction keeps all words in range -/
theorem step_ok (P : Params) (i : Instr) {s : State} (h : s.OK) : (step P i s).OK := by
  have h64 : (0 : Nat) < 2 ^ 64 := by norm_num
  cases i with
  | mov d a => exact h.set d (evalOpd_lt P h a)
  | mac d a b c =>
    cases d with
    | none => exact State.OK.setCarry h (Nat.mod_lt _ h64)
    | some d => exact State.OK.setCarry (h.set d (Nat.mod_lt _ h64)) (Nat.mod_lt _ h64)
  | adc d a b => exact State.OK.setCarry (h.set d (Nat.mod_lt _ h64)) (Nat.mod_lt _ h64)
  | wmul d a b => exact h.set d (Nat.mod_lt _ h64)
  | shr d a n =>
    exact h.set d (lt_of_le_of_lt (by rw [Nat.shiftRight_eq_div_pow]; exact Nat.div_le_self _ _)
      (evalOpd_lt P h a))
  | shl d a n => exact h.set d (Nat.mod_lt _ h64)
  | shlOr d a n b m =>
    refine h.set d (Nat.or_lt_two_pow (Nat.mod_lt _ h64) ?_)
    exact lt_of_le_of_lt (by rw [Nat.shiftRight_eq_div_pow]; exact Nat.div_le_self _ _)
      (evalOpd_lt P h b)
  | store i x =>
    refine ⟨h.r, h.k, h.carry, h.carry2, fun j => ?_, h.other⟩
    show (if j = i then s.get x else s.self j) < 2 ^ 64
    split_ifs
    · exact h.get x
    · exact h.self j
  | call args => exact h
  | reduce =>
    refine ⟨h.r, h.k, h.carry, h.carry2, fun j => ?_, h.other⟩
    show limbFn (reduceLimbs P ((List.range P.limbs).map s.self)) j < 2 ^ 64
    apply limbFn_lt
    have hl : LimbsOK ((List.range P.limbs).map s.self) := by
      intro l hl; simp only [List.mem_map] at hl; obtain ⟨i, _, rfl⟩ := hl; exact h.self i
    unfold reduceLimbs
    simp only
    split_ifs
    · exact hl
    · exact subNoborrow_ok _ _ _

theorem runBody_nil (P : Params) (s : State) : runBody P [] s = s := rfl
theorem runBody_cons (P : Params) (i : Instr) (is : List Instr) (s : State) :
    runBody P (i :: is) s = runBody P is (step P i s) := rfl
theorem runBody_append (P : Params) (is js : List Instr) (s : State) :
    runBody P (is ++ js) s = runBody P js (runBody P is s) := by
  simp [runBody, List.foldl_append]
theorem runBody_singleton (P : Params) (i : Instr) (s : State) : runBody P [i] s = step P i s := rfl

theorem runBody_ok (P : Params) (is : List Instr) {s : State} (h : s.OK) : (runBody P is s).OK := by
  induction is generalizing s with
  | nil => exact h
  | cons i is ih => exact ih (step_ok P i h)

/-! ## 4. a row of `mac`s -/

/-- `s'` has the same `k`, `carry2`, `self`, `other` as `s` (only `r` and `carry` may differ) -/
def SameEnv (s s' : State) : Prop :=
  s'.k = s.k ∧ s'.carry2 = s.carry2 ∧ s'.self = s.self ∧ s'.other = s.other

theorem SameEnv.refl (s : State) : SameEnv s s := ⟨rfl, rfl, rfl, rfl⟩
theorem SameEnv.trans {s t u : State} (h1 : SameEnv s t) (h2 : SameEnv t u) : SameEnv s u :=
  ⟨h2.1.trans h1.1, h2.2.1.trans h1.2.1, h2.2.2.1.trans h1.2.2.1, h2.2.2.2.trans h1.2.2.2⟩

/-- operands that do not read `r<i>` or `carry` -/
def Stable (P : Params) (o : Opd) : Prop := ∀ s s', SameEnv s s' → evalOpd P s' o = evalOpd P s o

theorem stable_k (P : Params) : Stable P (.reg .k) := fun _ _ h => h.1
theorem stable_selfL (P : Params) (i : Nat) : Stable P (.selfL i) := fun _ _ h => by
  show _ = _; simp only [evalOpd]; rw [h.2.2.1]
theorem stable_otherL (P : Params) (i : Nat) : Stable P (.otherL i) := fun _ _ h => by
  show _ = _; simp only [evalOpd]; rw [h.2.2.2]
theorem stable_modL (P : Params) (i : Nat) : Stable P (.modL i) := fun _ _ _ => rfl

/-- A row `r_{base+j} := mac(acc_j, X, C_j)` for `j < m`, where `acc_j` is the literal `0` (if `c`) or
    `r_{base+j}` itself:
    `Σ_j r'_{base+j}·2^(64j) + carry'·2^(64m) = Σ_j acc_j·2^(64j) + X·Σ_j C_j·2^(64j) + carry`. -/
theorem macChain (P : Params) (base : Nat) (c : Prop) [Decidable c] (X : Opd) (C : Nat → Opd)
    (hX : Stable P X) (hC : ∀ j, Stable P (C j)) (s : State) (hs : s.OK) (m : Nat) :
    (runBody P ((List.range m).map (fun j =>
        Instr.mac (some (.r (base + j))) (if c then .lit 0 else rr (base + j)) X (C j))) s).OK ∧
    SameEnv s (runBody P ((List.range m).map (fun j =>
        Instr.mac (some (.r (base + j))) (if c then .lit 0 else rr (base + j)) X (C j))) s) ∧
    (∀ i, (i < base ∨ base + m ≤ i) →
      (runBody P ((List.range m).map (fun j =>
        Instr.mac (some (.r (base + j))) (if c then .lit 0 else rr (base + j)) X (C j))) s).r i = s.r i) ∧
    wsum (fun j => (runBody P ((List.range m).map (fun j =>
        Instr.mac (some (.r (base + j))) (if c then .lit 0 else rr (base + j)) X (C j))) s).r (base + j)) m
      + (runBody P ((List.range m).map (fun j =>
        Instr.mac (some (.r (base + j))) (if c then .lit 0 else rr (base + j)) X (C j))) s).carry * 2 ^ (64 * m)
      = (if c then 0 else wsum (fun j => s.r (base + j)) m)
        + evalOpd P s X * wsum (fun j => evalOpd P s (C j)) m + s.carry := by
  induction m with
  | zero =>
    refine ⟨hs, SameEnv.refl s, fun _ _ => rfl, ?_⟩
    simp [runBody_nil]
  | succ m ih =>
    obtain ⟨ok1, env1, fr1, sum1⟩ := ih
    rw [List.range_succ, List.map_append, List.map_singleton, runBody_append, runBody_singleton]
    generalize runBody P ((List.range m).map (fun j =>
        Instr.mac (some (.r (base + j))) (if c then .lit 0 else rr (base + j)) X (C j))) s = s1
      at ok1 env1 fr1 sum1
    -- operand values in `s1`
    have hx : evalOpd P s1 X = evalOpd P s X := hX s s1 env1
    have hc : evalOpd P s1 (C m) = evalOpd P s (C m) := hC m s s1 env1
    have hacc : evalOpd P s1 (if c then .lit 0 else rr (base + m)) = if c then 0 else s.r (base + m) := by
      split_ifs
      · rfl
      · show s1.r (base + m) = _; exact fr1 _ (Or.inr (le_refl _))
    have hacc_lt : (if c then 0 else s.r (base + m)) < 2 ^ 64 := by
      split_ifs
      · norm_num
      · exact hs.r _
    have ar := mac_arith hacc_lt (evalOpd_lt P hs X) (evalOpd_lt P hs (C m)) ok1.carry
    refine ⟨step_ok P _ ok1, ?_, ?_, ?_⟩
    · exact env1.trans ⟨rfl, rfl, rfl, rfl⟩
    · intro i hi
      show (if i = base + m then _ else s1.r i) = s.r i
      rw [if_neg (by omega)]
      exact fr1 i (by omega)
    · simp only [step, hx, hc, hacc, W64_eq_pow, set_r_r]
      rw [wsum_succ]
      have e1 : wsum (fun j => if base + j = base + m then
            ((if c then 0 else s.r (base + m)) + evalOpd P s X * evalOpd P s (C m) + s1.carry) % 2 ^ 128 % 2 ^ 64
          else s1.r (base + j)) m = wsum (fun j => s1.r (base + j)) m := by
        apply wsum_congr; intro j hj; rw [if_neg (by omega)]
      rw [e1, if_pos rfl]
      simp only [wsum_succ, pow64_succ]
      by_cases hcc : c
      · simp only [hcc, if_true] at sum1 ar ⊢
        linear_combination sum1 + 2 ^ (64 * m) * ar
      · simp only [hcc, if_false] at sum1 ar ⊢
        linear_combination sum1 + 2 ^ (64 * m) * ar

/-! ## 5. callers: `run` versus `runBody`, parameter passing -/

def isCall : Instr → Bool
  | .call _ => true
  | _ => false

theorem stepTop_of_not_call (P : Params) (mr : List Instr) {i : Instr} (h : isCall i = false) (s : State) :
    stepTop P mr i s = step P i s := by
  cases i <;> first | rfl | simp [isCall] at h

theorem run_append (P : Params) (mr is js : List Instr) (s : State) :
    run P mr (is ++ js) s = run P mr js (run P mr is s) := by
  simp [run, List.foldl_append]

theorem run_eq_runBody (P : Params) (mr is : List Instr) (h : ∀ i ∈ is, isCall i = false) (s : State) :
    run P mr is s = runBody P is s := by
  induction is generalizing s with
  | nil => rfl
  | cons i is ih =>
    show run P mr is (stepTop P mr i s) = runBody P is (step P i s)
    rw [stepTop_of_not_call P mr (h i (by simp)), ih (fun j hj => h j (by simp [hj]))]

theorem run_call (P : Params) (mr : List Instr) (args : List Opd) (s : State) :
    run P mr [.call args] s = runBody P mr (bindArgs P args s) := rfl

theorem bindArgs_ok (P : Params) (args : List Opd) {s : State} (h : s.OK) : (bindArgs P args s).OK := by
  refine ⟨fun i => ?_, by show (0 : Nat) < _; norm_num, by show (0 : Nat) < _; norm_num,
    by show (0 : Nat) < _; norm_num, h.self, h.other⟩
  show ((args[i]?.map (evalOpd P s)).getD 0) < 2 ^ 64
  cases args[i]? with
  | none => simp
  | some a => simpa using evalOpd_lt P h a

theorem bindArgs_callArgs_r (P : Params) (n : Nat) (s : State) {i : Nat} (hi : i < 2 * n) :
    (bindArgs P (callArgs n) s).r i = s.r i := by
  show (((callArgs n)[i]?.map (evalOpd P s)).getD 0) = s.r i
  have : (callArgs n)[i]? = some (rr i) := by
    simp [callArgs, List.getElem?_map, List.getElem?_range hi]
  rw [this]; rfl

theorem run_ok (P : Params) (mr is : List Instr) {s : State} (h : s.OK) : (run P mr is s).OK := by
  induction is generalizing s with
  | nil => exact h
  | cons i is ih =>
    apply ih
    show (stepTop P mr i s).OK
    cases i with
    | call args => exact runBody_ok P mr (bindArgs_ok P args h)
    | _ => rw [stepTop_of_not_call P mr rfl]; exact step_ok P _ h

theorem out_length (P : Params) (s : State) : (s.out P).length = P.limbs := by simp [State.out]

theorem out_ok (P : Params) {s : State} (h : s.OK) : LimbsOK (s.out P) := by
  intro l hl
  simp only [State.out, List.mem_map] at hl
  obtain ⟨i, _, rfl⟩ := hl
  exact h.self i

/-! ## 6. the schoolbook product -/

/-- row `i`: `(r_i … r_{i+n}) := (r_i … r_{i+n-1}) + self_i · other` (the accumulator is `0` in row 0) -/
theorem mulRow (P : Params) (n i : Nat) (s : State) (hs : s.OK) :
    ∃ s', runBody P (genMulRow n i) s = s' ∧ s'.OK ∧ s'.self = s.self ∧ s'.other = s.other ∧
      (∀ j, (j < i ∨ i + n < j) → s'.r j = s.r j) ∧
      wsum (fun j => s'.r (i + j)) (n + 1)
        = (if i = 0 then 0 else wsum (fun j => s.r (i + j)) n) + s.self i * wsum s.other n := by
  refine ⟨_, rfl, ?_⟩
  unfold genMulRow
  rw [runBody_append, runBody_append, runBody_singleton, runBody_singleton]
  have hs0 : (step P (.mov .carry (.lit 0)) s).OK := step_ok P _ hs
  obtain ⟨ok1, env1, fr1, sum1⟩ := macChain P i (i = 0) (.selfL i) (fun j => .otherL j)
    (stable_selfL P i) (fun j => stable_otherL P j) _ hs0 n
  generalize runBody P ((List.range n).map (fun j =>
      Instr.mac (some (.r (i + j))) (if i = 0 then .lit 0 else rr (i + j)) (.selfL i) (.otherL j)))
      (step P (.mov .carry (.lit 0)) s) = s1 at ok1 env1 fr1 sum1
  refine ⟨step_ok P _ ok1, env1.2.2.1, env1.2.2.2, ?_, ?_⟩
  · intro j hj
    show (if j = i + n then _ else s1.r j) = s.r j
    rw [if_neg (by omega)]
    exact fr1 j (by omega)
  · rw [wsum_succ]
    have e1 : wsum (fun j => (step P (.mov (.r (i + n)) (.reg .carry)) s1).r (i + j)) n
        = wsum (fun j => s1.r (i + j)) n := by
      apply wsum_congr; intro j hj
      show (if i + j = i + n then _ else s1.r (i + j)) = _
      rw [if_neg (by omega)]
    have e2 : (step P (.mov (.r (i + n)) (.reg .carry)) s1).r (i + n) = s1.carry := by
      show (if i + n = i + n then s1.carry else _) = _
      rw [if_pos rfl]
    rw [e1, e2, sum1]
    show _ + 0 % W64 = _
    simp only [W64_eq_pow, Nat.zero_mod, Nat.add_zero]
    rfl

/-- the first `i` rows: `(r_0 … r_{n+i-1}) = (self_0 … self_{i-1}) · other` -/
theorem mulRows (P : Params) (n : Nat) (s : State) (hs : s.OK) (i : Nat) :
    ∃ s', runBody P ((List.range i).flatMap (genMulRow n)) s = s' ∧ s'.OK ∧
      s'.self = s.self ∧ s'.other = s.other ∧
      (i ≠ 0 → wsum s'.r (n + i) = wsum s.self i * wsum s.other n) := by
  induction i with
  | zero => exact ⟨s, rfl, hs, rfl, rfl, fun h => absurd rfl h⟩
  | succ i ih =>
    obtain ⟨s1, e1, ok1, self1, other1, sum1⟩ := ih
    obtain ⟨s2, e2, ok2, self2, other2, fr2, sum2⟩ := mulRow P n i s1 ok1
    refine ⟨s2, ?_, ok2, self2.trans self1, other2.trans other1, fun _ => ?_⟩
    · rw [List.range_succ, List.flatMap_append, runBody_append, e1]
      simpa using e2
    · rw [self1, other1] at sum2
      have hsplit : wsum s2.r (n + (i + 1)) = wsum s2.r i + 2 ^ (64 * i) * wsum (fun j => s2.r (i + j)) (n + 1) := by
        rw [show n + (i + 1) = i + (n + 1) by omega, wsum_add]
      have hlow : wsum s2.r i = wsum s1.r i := wsum_congr (fun j hj => fr2 j (Or.inl hj))
      rw [hsplit, hlow, sum2, wsum_succ]
      by_cases hi : i = 0
      · subst hi; simp
      · rw [if_neg hi]
        have h1 := sum1 hi
        rw [show n + i = i + n by omega, wsum_add] at h1
        linear_combination h1

theorem genMulRows_noCall (n : Nat) : ∀ i ∈ (List.range n).flatMap (genMulRow n), isCall i = false := by
  intro i hi
  simp only [List.mem_flatMap, genMulRow, List.mem_append, List.mem_singleton, List.mem_map] at hi
  obtain ⟨_, _, (rfl | ⟨_, _, rfl⟩) | rfl⟩ := hi <;> rfl

/-- `mul_assign` up to the call: the arguments passed to `mont_reduce` are the limbs of `self · other` -/
theorem genMul_run (P : Params) (n : Nat) (mr : List Instr) (s : State) (hs : s.OK) (hn : 0 < n) :
    ∃ s', s'.OK ∧ run P mr (genMulProg n) s = runBody P mr s' ∧
      wsum s'.r (2 * n) = wsum s.self n * wsum s.other n := by
  obtain ⟨s1, e1, ok1, _, _, sum1⟩ := mulRows P n s hs n
  refine ⟨bindArgs P (callArgs n) s1, bindArgs_ok P _ ok1, ?_, ?_⟩
  · unfold genMulProg
    rw [run_append, run_eq_runBody P mr _ (genMulRows_noCall n), e1, run_call]
  · rw [← sum1 (by omega), show n + n = 2 * n by omega]
    exact wsum_congr (fun j hj => bindArgs_callArgs_r P n s1 hj)

end PP.MontLimb
