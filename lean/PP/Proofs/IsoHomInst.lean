/-
C16, homomorphism law of the 3-isogeny, layer 2: instantiation at `Fq2`.

With `s = −1 + u` the curves and the map of `PP/Proofs/IsoHom.lean` are `E₂' : y² = x³ + 240u·x +
1012(1+u)`, `E₂ : y² = x³ + 4(1+u)` and the rational map given by the coefficient tables of
`isogeny/g2.rs` (`Iso.iso3XNum`, …): all of this is checked by kernel computation on the extracted
constants (`g2EllpA_s`, …, `xnum_s`, `ynum_s`), and so are the hypotheses `Hyp s`:
`2s³ = 4(1+u)` is not a square in `Fq2` (`Fq2.sqrt` returns `none`, C18), the target curve has no
point of order two (`g2_no_two_torsion`).

`iso3Pt : E₂'(Fq2) → E₂(Fq2)` is the RFC's `iso_map` (`isoMapPoint`, `PP/Proofs/Assembly.lean`) on
Mathlib's group of points of `E₂'`; `iso3Pt_add` is the homomorphism law.  `absE2'` sends a Jacobian
triple to the point of `E₂'` it denotes, and `abs_iso3_eq_iso3Pt` says that the model's `iso3`
computes `iso3Pt` on every representative of every point of `E₂'`.
-/
import PP.Proofs.IsoHom
import PP.Proofs.Assembly

set_option linter.unusedSectionVars false

namespace PP
namespace IsoHom

open WeierstrassCurve.Affine IsoPoly Iso

local notation "b₂" => g2Codec.b

/-! ## the constants -/

/-- `s = −1 + u` -/
def s2 : Fq2 := ⟨-1, 1⟩

theorem g2EllpA_s : g2EllpA = -120 * s2 ^ 2 := by decide +kernel
theorem g2EllpB_s : g2EllpB = 506 * s2 ^ 3 := by decide +kernel
theorem g2b_s : b₂ = 2 * s2 ^ 3 := by decide +kernel
/-- the kernel polynomial is `x − 6s` -/
theorem ker_s : iso3Ker = [-6 * s2, 1] := by decide +kernel
/-- `9·XN = x³ − 12s·x² + 12s²·x + 152s³` -/
theorem xnum_s : scaleP 9 iso3XNum = [152 * s2 ^ 3, 12 * s2 ^ 2, -12 * s2, 1] := by decide +kernel
/-- `27·YN = −(x³ − 18s·x² + 132s²·x − 376s³)` -/
theorem ynum_s : scaleP 27 iso3YNum = [376 * s2 ^ 3, -132 * s2 ^ 2, 18 * s2, -1] := by
  decide +kernel
/-- `4(1+u)` is not a square: `Fq2::sqrt` fails on it -/
theorem sqrt_b : Fq2.sqrt b₂ = none := by decide +kernel
theorem fq2_three_ne : (3 : Fq2) ≠ 0 := by decide +kernel

theorem hyp_s2 : Hyp s2 where
  two_ne := fq2_two_ne_zero'
  three_ne := fq2_three_ne
  nonsq := by
    intro y h
    have hsq : IsSquare b₂ := ⟨y, by rw [g2b_s, ← h]; ring⟩
    exact (Fq2Sqrt.fq2_sqrt_none_iff_of fq2FieldHyp b₂).mp sqrt_b hsq
  no2 := by
    intro x h
    apply g2_no_two_torsion x
    rw [g2b_s]; linear_combination h

/-! ## the four polynomials of `isogeny/g2.rs` in terms of `s` -/

theorem evalP_ker (x : Fq2) : evalP iso3Ker x = x - 6 * s2 := by
  rw [ker_s]; simp only [evalP_cons, evalP_nil]; ring

theorem evalP_xden (x : Fq2) : evalP iso3XDen x = (x - 6 * s2) ^ 2 := by
  rw [iso3_xden_ker, evalP_sqP, evalP_ker]

theorem evalP_yden (x : Fq2) : evalP iso3YDen x = (x - 6 * s2) ^ 3 := by
  rw [iso3_yden_ker, evalP_cubeP, evalP_ker]

theorem evalP_xnum (x : Fq2) : 9 * evalP iso3XNum x = nS s2 (x - 6 * s2) := by
  have h := congrArg (fun l => evalP l x) xnum_s
  simp only [evalP_scaleP, evalP_cons, evalP_nil] at h
  unfold nS
  linear_combination h

theorem evalP_ynum (x : Fq2) : 27 * evalP iso3YNum x = -mS s2 (x - 6 * s2) := by
  have h := congrArg (fun l => evalP l x) ynum_s
  simp only [evalP_scaleP, evalP_cons, evalP_nil] at h
  unfold mS
  linear_combination h

/-- the `x`-map of the tables is `φ`'s -/
theorem xmap_eq (x : Fq2) (hx : x - 6 * s2 ≠ 0) :
    evalP iso3XNum x / evalP iso3XDen x = phiX s2 (x - 6 * s2) := by
  have h9 := nine_ne fq2_three_ne
  rw [evalP_xden]
  unfold phiX
  rw [← evalP_xnum]
  field_simp

/-- the `y`-map of the tables is `φ`'s -/
theorem ymap_eq (x y : Fq2) (hx : x - 6 * s2 ≠ 0) :
    y * evalP iso3YNum x / evalP iso3YDen x = y * phiY s2 (x - 6 * s2) := by
  have h27 := twentyseven_ne fq2_three_ne
  have e : -mS s2 (x - 6 * s2) = 27 * evalP iso3YNum x := (evalP_ynum x).symm
  rw [evalP_yden]
  unfold phiY
  rw [e]
  field_simp

/-! ## the isogenous curve and the RFC's `iso_map` on its points -/

/-- `E₂' : y² = x³ + 240u·x + 1012(1+u)` as a Mathlib curve -/
abbrev E2' : WeierstrassCurve.Affine Fq2 := Wab g2EllpA g2EllpB

/-- the RFC's `iso_map` on the group of points of `E₂'` -/
noncomputable def iso3Pt : E2'.Point → (W b₂).Point
  | .zero => 0
  | .some x y _ => isoMapPoint b₂ iso3XNum iso3XDen iso3YNum iso3YDen x y

theorem iso3Pt_zero : iso3Pt 0 = 0 := rfl

theorem iso3Pt_some {x y : Fq2} (h : E2'.Nonsingular x y) :
    iso3Pt (Point.some x y h) = isoMapPoint b₂ iso3XNum iso3XDen iso3YNum iso3YDen x y := rfl

theorem E2'_to_src {x y : Fq2} (h : E2'.Nonsingular x y) : (Wsrc s2).Nonsingular x y := by
  have h' := h
  unfold E2' at h'
  rw [g2EllpA_s, g2EllpB_s] at h'
  exact h'

/-- on an affine point of `E₂'` the RFC's `iso_map` is given by the formulas of `φ` (no pole) -/
theorem iso3Pt_some_eq {x y : Fq2} (h : E2'.Nonsingular x y) :
    ∃ h' : (W b₂).Nonsingular (phiX s2 (x - 6 * s2)) (y * phiY s2 (x - 6 * s2)),
      iso3Pt (Point.some x y h) = Point.some _ _ h' := by
  have hs := E2'_to_src h
  have hk := no_ker hyp_s2 hs
  have hns : (W b₂).Nonsingular (phiX s2 (x - 6 * s2)) (y * phiY s2 (x - 6 * s2)) := by
    have := phi_nonsingular hyp_s2 hs
    rw [← g2b_s] at this
    exact this
  refine ⟨hns, ?_⟩
  have hxd : evalP iso3XDen x ≠ 0 := by rw [evalP_xden]; exact pow_ne_zero 2 hk
  have hyd : evalP iso3YDen x ≠ 0 := by rw [evalP_yden]; exact pow_ne_zero 3 hk
  have hns' : (W b₂).Nonsingular (evalP iso3XNum x / evalP iso3XDen x)
      (y * evalP iso3YNum x / evalP iso3YDen x) := by
    rw [xmap_eq x hk, ymap_eq x y hk]; exact hns
  rw [iso3Pt_some]
  unfold isoMapPoint
  rw [dif_pos ⟨hxd, hyd, hns'⟩, PP.Point.some_eq_some]
  exact ⟨xmap_eq x hk, ymap_eq x y hk⟩

theorem iso3Pt_hom :
    (∀ P Q, iso3Pt (P + Q) = iso3Pt P + iso3Pt Q) ∧ (∀ P, iso3Pt (-P) = -iso3Pt P) ∧
      (∀ P, iso3Pt P = 0 ↔ P = 0) :=
  hom_of_eq_phi hyp_s2 g2EllpA_s g2EllpB_s g2b_s iso3Pt iso3Pt_zero
    (fun _ _ h => iso3Pt_some_eq h)

/-- **the homomorphism law of the 3-isogeny `E₂' → E₂`** -/
theorem iso3Pt_add (P Q : E2'.Point) : iso3Pt (P + Q) = iso3Pt P + iso3Pt Q := iso3Pt_hom.1 P Q

theorem iso3Pt_neg (P : E2'.Point) : iso3Pt (-P) = -iso3Pt P := iso3Pt_hom.2.1 P

/-- no rational point other than the identity is sent to the identity -/
theorem iso3Pt_eq_zero_iff (P : E2'.Point) : iso3Pt P = 0 ↔ P = 0 := iso3Pt_hom.2.2 P

/-- the isogeny as a homomorphism of Mathlib's groups of points -/
noncomputable def iso3Hom : E2'.Point →+ (W b₂).Point := AddMonoidHom.mk' iso3Pt iso3Pt_add

theorem iso3Hom_injective : Function.Injective iso3Hom := by
  rw [injective_iff_map_eq_zero]
  exact fun P h => (iso3Pt_eq_zero_iff P).mp h

/-! ## the model's `iso3` on Jacobian representatives -/

/-- every affine solution of the equation of `E₂'` is a nonsingular point (`E₂'` has no rational
    point of order two, so `y ≠ 0`) -/
theorem E2'_nonsingular {x y : Fq2} (h : y ^ 2 = x ^ 3 + g2EllpA * x + g2EllpB) :
    E2'.Nonsingular x y := by
  rw [nonsingular_iff', Wab_equation_iff]
  refine ⟨h, Or.inr ?_⟩
  simp only [Wab_a₁, Wab_a₃, zero_mul, add_zero]
  have hy : y ≠ 0 := by
    rintro rfl
    apply Sswu.g2_no_root hcard x
    unfold Spec.sswuG
    rw [← h]; ring
  exact mul_ne_zero fq2_two_ne_zero' hy

/-- a Jacobian triple denotes a point of `E₂'`: `z = 0` (the identity) or the weighted equation -/
def OnE2' (p : Jac Fq2) : Prop :=
  p.z = 0 ∨ p.y ^ 2 = p.x ^ 3 + g2EllpA * p.x * p.z ^ 4 + g2EllpB * p.z ^ 6

theorem OnE2'.affine {p : Jac Fq2} (h : OnE2' p) (hz : p.z ≠ 0) :
    (p.y / p.z ^ 3) ^ 2 = (p.x / p.z ^ 2) ^ 3 + g2EllpA * (p.x / p.z ^ 2) + g2EllpB := by
  have := h.resolve_left hz
  field_simp
  linear_combination this

open Classical in
/-- the point of `E₂'` denoted by a Jacobian triple (`0` for `z = 0` and for off-curve triples) -/
noncomputable def absE2' (p : Jac Fq2) : E2'.Point :=
  if h : p.z ≠ 0 ∧ E2'.Nonsingular (p.x / p.z ^ 2) (p.y / p.z ^ 3) then Point.some _ _ h.2 else 0

theorem absE2'_of_z_eq_zero {p : Jac Fq2} (hz : p.z = 0) : absE2' p = 0 := by
  unfold absE2'; rw [dif_neg]; exact fun h => h.1 hz

theorem absE2'_of_z_ne_zero {p : Jac Fq2} (h : OnE2' p) (hz : p.z ≠ 0) :
    absE2' p = Point.some (p.x / p.z ^ 2) (p.y / p.z ^ 3) (E2'_nonsingular (h.affine hz)) := by
  unfold absE2'
  rw [dif_pos ⟨hz, E2'_nonsingular (h.affine hz)⟩]

/-- every affine point of `E₂'` is denoted by a Jacobian triple (`z = 1`) -/
theorem absE2'_surjective (P : E2'.Point) : ∃ p, OnE2' p ∧ absE2' p = P := by
  rcases P with _ | ⟨x, y, h⟩
  · exact ⟨⟨0, 0, 0⟩, Or.inl rfl, absE2'_of_z_eq_zero rfl⟩
  · have e := (Wab_equation_iff _ _ x y).mp h.1
    have hon : OnE2' ⟨x, y, 1⟩ := by
      right
      show y ^ 2 = x ^ 3 + g2EllpA * x * 1 ^ 4 + g2EllpB * 1 ^ 6
      linear_combination e
    refine ⟨⟨x, y, 1⟩, hon, ?_⟩
    rw [absE2'_of_z_ne_zero hon (by show (1 : Fq2) ≠ 0; exact one_ne_zero), PP.Point.some_eq_some]
    constructor
    · show x / 1 ^ 2 = x; simp
    · show y / 1 ^ 3 = y; simp

/-- **the model's `iso3` computes `iso3Pt`** on every Jacobian representative of every point of
    `E₂'` (identity included) -/
theorem abs_iso3_eq_iso3Pt (p : Jac Fq2) (hp : OnE2' p) :
    Jac.abs b₂ (iso3 p) = iso3Pt (absE2' p) := by
  by_cases hz : p.z = 0
  · rw [absE2'_of_z_eq_zero hz, iso3Pt_zero]
    exact Jac.abs_of_z_eq_zero
      ((jac_isZero_iff _).mp (C16.iso3_identity fq2FieldAgrees p ((jac_isZero_iff p).mpr hz)))
  · rw [absE2'_of_z_ne_zero hp hz, iso3Pt_some]
    exact abs_iso3_eq p hz (hp.resolve_left hz)

end IsoHom
end PP
