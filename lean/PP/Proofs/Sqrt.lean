/-
C18 for the prime fields, part 1: Euler's criterion on the model type `Zp p`, the order and sign
facts (`Zp.lt`, `Zp.sgn0`), and `Fq.legendre` / `Fq.sqrt` (`q ≡ 3 mod 4`).
-/
import Mathlib.NumberTheory.LegendreSymbol.Basic
import PP.Proofs.PowLoop
import PP.Proofs.Primes
import PP.Proofs.Interfaces

set_option linter.unusedSectionVars false

namespace PP
namespace Zp
variable {p : Nat} [PosNat p]

/-! ### canonical representatives, order, sign -/

theorem ext_v {a b : Zp p} (h : a.v = b.v) : a = b := by
  cases a; cases b; simp_all

theorem ne_iff_v {a b : Zp p} : a ≠ b ↔ a.v ≠ b.v :=
  ⟨fun h hv => h (ext_v hv), fun h hab => h (hab ▸ rfl)⟩

theorem zero_v : (0 : Zp p).v = 0 := by
  show (ofNat 0 : Zp p).v = 0; simp

theorem neg_v (a : Zp p) : (-a).v = (p - a.v) % p := rfl

theorem neg_v_of_ne_zero (a : Zp p) (ha : a ≠ 0) : (-a).v = p - a.v := by
  have h0 : a.v ≠ 0 := fun h => ha ((eq_zero_iff a).mpr h)
  have := a.h
  rw [neg_v, Nat.mod_eq_of_lt (by omega)]

/-- `sgn0` is the parity of the canonical integer. -/
theorem sgn0_negative_iff (a : Zp p) : Zp.sgn0 a = .negative ↔ a.v % 2 = 1 := by
  unfold Zp.sgn0; split <;> simp [*]

theorem sgn0_nonNegative_iff (a : Zp p) : Zp.sgn0 a = .nonNegative ↔ a.v % 2 = 0 := by
  unfold Zp.sgn0; split <;> simp [*]; omega

/-- `lt` is `<` on canonical integers. -/
theorem lt_iff (a b : Zp p) : Zp.lt a b = true ↔ a.v < b.v := by simp [Zp.lt]

theorem lt_eq_false_iff (a b : Zp p) : Zp.lt a b = false ↔ b.v ≤ a.v := by simp [Zp.lt]

theorem lt_irrefl (a : Zp p) : Zp.lt a a = false := by simp [Zp.lt]

theorem lt_asymm (a b : Zp p) (h : Zp.lt a b = true) : Zp.lt b a = false := by
  rw [lt_iff] at h; rw [lt_eq_false_iff]; omega

theorem lt_trans (a b c : Zp p) (h1 : Zp.lt a b = true) (h2 : Zp.lt b c = true) :
    Zp.lt a c = true := by
  rw [lt_iff] at *; omega

theorem lt_total (a b : Zp p) (h : a ≠ b) : Zp.lt a b = true ∨ Zp.lt b a = true := by
  rw [lt_iff, lt_iff]; have := ne_iff_v.mp h; omega

/-- In odd characteristic a non-zero element differs from its negative. -/
theorem ne_neg_self (hodd : p % 2 = 1) (y : Zp p) (hy : y ≠ 0) : y ≠ -y := by
  rw [ne_iff_v, neg_v_of_ne_zero y hy]; have := y.h; omega

/-- For `y ≠ 0` exactly one of `y`, `-y` is the larger. -/
theorem neg_order (hodd : p % 2 = 1) (y : Zp p) (hy : y ≠ 0) :
    Zp.lt y (-y) = true ↔ Zp.lt (-y) y = false := by
  have := ne_iff_v.mp (ne_neg_self hodd y hy)
  rw [lt_iff, lt_eq_false_iff]; omega

theorem neg_order_xor (hodd : p % 2 = 1) (y : Zp p) (hy : y ≠ 0) :
    (Zp.lt y (-y) = true ∧ Zp.lt (-y) y = false) ∨ (Zp.lt (-y) y = true ∧ Zp.lt y (-y) = false) := by
  have := ne_iff_v.mp (ne_neg_self hodd y hy)
  rw [lt_iff, lt_eq_false_iff, lt_iff, lt_eq_false_iff]; omega

/-- In odd characteristic negation flips `sgn0` of a non-zero element. -/
theorem sgn0_neg (hodd : p % 2 = 1) (y : Zp p) (hy : y ≠ 0) : Zp.sgn0 (-y) ≠ Zp.sgn0 y := by
  have hv := neg_v_of_ne_zero y hy
  have := y.h
  intro h
  by_cases hpar : y.v % 2 = 1
  · have h1 := (sgn0_negative_iff y).mpr hpar
    rw [← h, sgn0_negative_iff, hv] at h1; omega
  · have h1 := (sgn0_nonNegative_iff y).mpr (by omega)
    rw [← h, sgn0_nonNegative_iff, hv] at h1; omega

/-! ### Euler's criterion on `Zp p` -/

variable [hp : Fact p.Prime]

theorem toZ_inj {a b : Zp p} : toZ a = toZ b ↔ a = b := toZ_injective.eq_iff

theorem toZ_eq_zero {a : Zp p} : toZ a = 0 ↔ a = 0 := by
  rw [← toZ_zero (p := p), toZ_inj]

theorem isSquare_toZ (a : Zp p) : IsSquare (toZ a) ↔ IsSquare a := by
  constructor
  · rintro ⟨z, hz⟩
    obtain ⟨b, rfl⟩ := toZ_surjective z
    exact ⟨b, toZ_injective (by rw [hz, toZ_mul])⟩
  · rintro ⟨b, rfl⟩; exact ⟨toZ b, toZ_mul b b⟩

theorem half_pos (hodd : p % 2 = 1) : (p - 1) / 2 ≠ 0 := by
  have := hp.out.two_le; omega

/-- Euler's criterion. -/
theorem isSquare_iff_pow_half (hodd : p % 2 = 1) (a : Zp p) (ha : a ≠ 0) :
    IsSquare a ↔ a ^ ((p - 1) / 2) = 1 := by
  have hz : toZ a ≠ 0 := fun h => ha (toZ_eq_zero.mp h)
  have e : p / 2 = (p - 1) / 2 := by omega
  rw [← isSquare_toZ, ZMod.euler_criterion p hz, e, ← toZ_pow, ← toZ_one (p := p), toZ_inj]

theorem pow_half_dichotomy (hodd : p % 2 = 1) (a : Zp p) (ha : a ≠ 0) :
    a ^ ((p - 1) / 2) = 1 ∨ a ^ ((p - 1) / 2) = -1 := by
  have hz : toZ a ≠ 0 := fun h => ha (toZ_eq_zero.mp h)
  have e : p / 2 = (p - 1) / 2 := by omega
  have := ZMod.pow_div_two_eq_neg_one_or_one p hz
  rw [e, ← toZ_pow, ← toZ_one (p := p), ← toZ_neg, toZ_inj, toZ_inj] at this
  exact this

theorem one_ne_neg_one (hodd : p % 2 = 1) : (1 : Zp p) ≠ -1 :=
  ne_neg_self hodd 1 one_ne_zero

theorem pow_half_eq_zero_iff (hodd : p % 2 = 1) (a : Zp p) : a ^ ((p - 1) / 2) = 0 ↔ a = 0 :=
  pow_eq_zero_iff (half_pos hodd)

/-- Non-squares are exactly the elements with `a^((p-1)/2) = -1`. -/
theorem not_isSquare_iff_pow_half (hodd : p % 2 = 1) (a : Zp p) :
    ¬ IsSquare a ↔ a ^ ((p - 1) / 2) = -1 := by
  by_cases ha : a = 0
  · subst ha
    rw [zero_pow (half_pos hodd)]
    constructor
    · intro h; exact absurd ⟨0, by simp⟩ h
    · intro h; exact absurd (neg_eq_zero.mp h.symm) one_ne_zero
  · rw [isSquare_iff_pow_half hodd a ha]
    rcases pow_half_dichotomy hodd a ha with h | h
    · rw [h]; simp [one_ne_neg_one hodd]
    · rw [h]; simp [(one_ne_neg_one hodd).symm]

/-- The three-way classification computed by `legendre`, for any exponent equal to `(p-1)/2`. -/
theorem legendre_classify (hodd : p % 2 = 1) (a : Zp p) :
    let s := a ^ ((p - 1) / 2)
    (s = 0 ↔ a = 0) ∧ (s = 1 ↔ a ≠ 0 ∧ IsSquare a) ∧ ((s ≠ 0 ∧ s ≠ 1) ↔ ¬ IsSquare a) := by
  intro s
  refine ⟨pow_half_eq_zero_iff hodd a, ?_, ?_⟩
  · constructor
    · intro h
      have ha : a ≠ 0 := by
        intro h0; rw [← pow_half_eq_zero_iff hodd] at h0
        exact one_ne_zero (h.symm.trans h0)
      exact ⟨ha, (isSquare_iff_pow_half hodd a ha).mpr h⟩
    · rintro ⟨ha, hs⟩; exact (isSquare_iff_pow_half hodd a ha).mp hs
  · rw [not_isSquare_iff_pow_half hodd]
    constructor
    · rintro ⟨h0, h1⟩
      have ha : a ≠ 0 := fun h => h0 ((pow_half_eq_zero_iff hodd a).mpr h)
      exact (pow_half_dichotomy hodd a ha).resolve_left h1
    · intro h
      show s ≠ 0 ∧ s ≠ 1
      have hs : s = -1 := h
      rw [hs]
      exact ⟨neg_ne_zero.mpr one_ne_zero, (one_ne_neg_one hodd).symm⟩

/-- The `if s = 0 … else if s = 1 …` of the derive-generated `legendre`, classified. -/
theorem legendre_ite (hodd : p % 2 = 1) (a : Zp p) :
    let L : Legendre := if a ^ ((p - 1) / 2) = 0 then .zero
      else if a ^ ((p - 1) / 2) = 1 then .residue else .nonResidue
    (L = .zero ↔ a = 0) ∧ (L = .residue ↔ a ≠ 0 ∧ IsSquare a) ∧ (L = .nonResidue ↔ ¬ IsSquare a) := by
  have ⟨h0, h1, h2⟩ := legendre_classify hodd a
  intro L
  rw [← h0, ← h1, ← h2]
  by_cases hs0 : a ^ ((p - 1) / 2) = 0
  · simp [L, hs0]
  · by_cases hs1 : a ^ ((p - 1) / 2) = 1 <;> simp [L, hs0, hs1]

end Zp

/-! ## `Fq` -/

namespace Fq
open Primes

theorem q_odd : Gen.q % 2 = 1 := by have := q_mod_four; omega

theorem LEGENDRE_EXP_eq : Gen.fq_LEGENDRE_EXP = (Gen.q - 1) / 2 := by decide +kernel
theorem SQRT_EXP_eq : Gen.fq_SQRT_EXP = (Gen.q - 3) / 4 := by decide +kernel
theorem LEGENDRE_EXP_lt : Gen.fq_LEGENDRE_EXP < 2 ^ (64 * 6) := by decide +kernel
theorem SQRT_EXP_lt : Gen.fq_SQRT_EXP < 2 ^ (64 * 6) := by decide +kernel

/-- the constant `a0` is compared with in `Fq::sqrt` is `-1` -/
theorem SQRT_CMP_eq : Fq.ofMont Gen.fq_SQRT_CMP = -1 := by
  apply Zp.ext_v
  rw [Zp.neg_v_of_ne_zero 1 one_ne_zero]
  have h1 : (1 : Fq).v = 1 := by decide +kernel
  rw [h1]
  decide +kernel

theorem NEGATIVE_ONE_eq : Fq.ofMont Gen.NEGATIVE_ONE = -1 := SQRT_CMP_eq

theorem legendre_pow (a : Fq) : powNat a Gen.fq_LEGENDRE_EXP 6 = a ^ ((Gen.q - 1) / 2) := by
  rw [PowLoop.Lawful.powNat_eq_pow a _ 6 LEGENDRE_EXP_lt, LEGENDRE_EXP_eq]

theorem sqrt_pow (a : Fq) : powNat a Gen.fq_SQRT_EXP 6 = a ^ ((Gen.q - 3) / 4) := by
  rw [PowLoop.Lawful.powNat_eq_pow a _ 6 SQRT_EXP_lt, SQRT_EXP_eq]

theorem legendre_eq (a : Fq) : Fq.legendre a =
    if a ^ ((Gen.q - 1) / 2) = 0 then .zero
    else if a ^ ((Gen.q - 1) / 2) = 1 then .residue else .nonResidue := by
  unfold Fq.legendre; rw [legendre_pow]

/-- `legendre a = zero` iff `a = 0`. -/
theorem legendre_zero_iff (a : Fq) : Fq.legendre a = .zero ↔ a = 0 := by
  rw [legendre_eq]; exact (Zp.legendre_ite q_odd a).1

/-- `legendre a = residue` iff `a` is a non-zero square (Euler's criterion). -/
theorem legendre_residue_iff (a : Fq) : Fq.legendre a = .residue ↔ a ≠ 0 ∧ IsSquare a := by
  rw [legendre_eq]; exact (Zp.legendre_ite q_odd a).2.1

/-- `legendre a = nonResidue` iff `a` is not a square (Euler's criterion). -/
theorem legendre_nonResidue_iff (a : Fq) : Fq.legendre a = .nonResidue ↔ ¬ IsSquare a := by
  rw [legendre_eq]; exact (Zp.legendre_ite q_odd a).2.2

theorem sqrt_exp_arith : 2 * ((Gen.q - 3) / 4) + 1 = (Gen.q - 1) / 2 := by
  have := q_mod_four; have := three_lt_q; omega

theorem sqrt_eq (a : Fq) : Fq.sqrt a =
    if a ^ ((Gen.q - 1) / 2) = -1 then none else some (a ^ ((Gen.q - 3) / 4) * a) := by
  unfold Fq.sqrt
  rw [sqrt_pow, SQRT_CMP_eq]
  have : sq (a ^ ((Gen.q - 3) / 4)) * a = a ^ ((Gen.q - 1) / 2) := by
    rw [LawfulFieldOps.sq_eq, ← pow_add, ← pow_succ, ← two_mul, sqrt_exp_arith]
  simp only [this]

/-- `sqrt` fails exactly on non-squares. -/
theorem sqrt_none_iff (a : Fq) : Fq.sqrt a = none ↔ ¬ IsSquare a := by
  rw [sqrt_eq, Zp.not_isSquare_iff_pow_half q_odd]
  split <;> simp [*]

/-- whatever `sqrt` returns is a square root -/
theorem sqrt_sound (a b : Fq) (h : Fq.sqrt a = some b) : b * b = a := by
  rw [sqrt_eq] at h
  split at h
  · exact absurd h (by simp)
  · next hne =>
    have hb : b = a ^ ((Gen.q - 3) / 4) * a := (Option.some.inj h).symm
    have e : b * b = a ^ ((Gen.q - 1) / 2) * a := by
      rw [hb, ← sqrt_exp_arith, pow_succ, two_mul, pow_add]; ring
    rw [e]
    by_cases ha : a = 0
    · subst ha; simp
    · rw [(Zp.pow_half_dichotomy q_odd a ha).resolve_right hne, one_mul]

/-- on squares (including `0`) `sqrt` returns a root -/
theorem sqrt_complete (a : Fq) (h : IsSquare a) : ∃ b, Fq.sqrt a = some b ∧ b * b = a := by
  cases hs : Fq.sqrt a with
  | none => exact absurd h ((sqrt_none_iff a).mp hs)
  | some b => exact ⟨b, rfl, sqrt_sound a b hs⟩

/-- `y ≠ 0 → sgn0 (-y) ≠ sgn0 y` in `Fq` -/
theorem sgn0_neg (y : Fq) (hy : y ≠ 0) : Zp.sgn0 (-y) ≠ Zp.sgn0 y := Zp.sgn0_neg q_odd y hy

theorem neg_order (y : Fq) (hy : y ≠ 0) : Zp.lt y (-y) = true ↔ Zp.lt (-y) y = false :=
  Zp.neg_order q_odd y hy

theorem ne_neg_self (y : Fq) (hy : y ≠ 0) : y ≠ -y := Zp.ne_neg_self q_odd y hy

end Fq

instance : LawfulSqrtOps Fq where
  sqrt_sound := Fq.sqrt_sound
  sqrt_complete a h := (Fq.sqrt_none_iff a).mp h
  lt_irrefl := Zp.lt_irrefl
  lt_asymm := Zp.lt_asymm
  lt_total := Zp.lt_total

end PP
