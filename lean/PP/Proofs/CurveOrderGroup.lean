/-
Curve orders, abstract part (no curves here).

In a finite abelian group `G` with an endomorphism `ω`, a point `P` of order `b` and a divisor
`a ∣ b` such that, for every prime `p ∣ a`, `ω ((b/p) • P) ∉ ⟨P⟩`:  the subgroup
`⟨P⟩ + ⟨ω ((b/a) • P)⟩` has `a * b` elements.  If moreover `#G < 2 * (a * b)` then, by Lagrange,
`#G = a * b` and `b` kills `G`  (`card_and_exponent`).

The condition `ω Y ∉ ⟨P⟩` (`Y = (b/p) • P`, of prime order `p`) is reduced to `ω Y ≠ m • Y` for all
`m`  (`omega_notMem_zmultiples`), and, when `ω² + ω + 1 = 0`, this holds
* for free if `p ≡ 2 (mod 3)` (`x² + x + 1` has no root modulo `p`), and
* after two checks `ω Y ≠ m₁ • Y`, `ω Y ≠ m₂ • Y` if `x² + x + 1 = (x - m₁)(x - m₂)` modulo `p`.
-/
import Mathlib.GroupTheory.OrderOfElement
import Mathlib.GroupTheory.Coset.Card
import Mathlib.FieldTheory.Finite.Basic
import Mathlib.Data.ZMod.Basic
import Mathlib.Algebra.BigOperators.Associated
import Mathlib.Tactic.LinearCombination
import Mathlib.Tactic.Ring

namespace PP.CurveOrder

/-! ## `x² + x + 1` modulo a prime -/

/-- for `p ≡ 2 (mod 3)` the polynomial `x² + x + 1` has no root modulo `p` -/
theorem no_root_of_mod_three {p : ℕ} [hp : Fact p.Prime] (h3 : p % 3 = 2) (m : ZMod p) :
    m ^ 2 + m + 1 ≠ 0 := by
  intro h
  have hm3 : m ^ 3 = 1 := by linear_combination (m - 1) * h
  have hm0 : m ≠ 0 := by
    rintro rfl
    simp at h
  have hfer : m ^ (p - 1) = 1 := ZMod.pow_card_sub_one_eq_one hm0
  have hk : p - 1 = 3 * (p / 3) + 1 := by omega
  rw [hk, pow_succ, pow_mul, hm3, one_pow, one_mul] at hfer
  subst hfer
  have h3z : ((3 : ℕ) : ZMod p) = 0 := by
    have : (1 : ZMod p) ^ 2 + 1 + 1 = 0 := h
    push_cast
    linear_combination this
  rw [ZMod.natCast_eq_zero_iff] at h3z
  rcases (Nat.dvd_prime Nat.prime_three).mp h3z with h1 | h1
  · exact hp.out.one_lt.ne' h1
  · omega

/-- if `x² + x + 1 = (x - m₁)(x - m₂)` modulo `p`, its roots are `m₁` and `m₂` -/
theorem root_of_factor {p : ℕ} [hp : Fact p.Prime] {m₁ m₂ : ℕ} (hs : (m₁ + m₂ + 1) % p = 0)
    (hpr : (m₁ * m₂) % p = 1) {m : ZMod p} (h : m ^ 2 + m + 1 = 0) :
    m = (m₁ : ZMod p) ∨ m = (m₂ : ZMod p) := by
  have h1 : ((m₁ + m₂ + 1 : ℕ) : ZMod p) = 0 := by
    rw [ZMod.natCast_eq_zero_iff]; exact Nat.dvd_of_mod_eq_zero hs
  have h2 : ((m₁ * m₂ : ℕ) : ZMod p) = ((1 : ℕ) : ZMod p) := by
    rw [ZMod.natCast_eq_natCast_iff']
    rw [hpr, Nat.mod_eq_of_lt hp.out.one_lt]
  push_cast at h1 h2
  have : (m - m₁) * (m - m₂) = 0 := by
    linear_combination h - m * h1 + h2
  rcases mul_eq_zero.mp this with e | e
  · exact Or.inl (sub_eq_zero.mp e)
  · exact Or.inr (sub_eq_zero.mp e)

/-! ## the endomorphism `ω` -/

section group
variable {G : Type} [AddCommGroup G]

/-- `ω Y = m • Y` and `ω² + ω + 1 = 0` give `m² + m + 1 ≡ 0` modulo the order of `Y` -/
theorem quad_of_omega_eq {ω : G →+ G} (hω : ∀ g, ω (ω g) + ω g + g = 0) {p : ℕ} {Y : G}
    (hY : addOrderOf Y = p) {m : ℤ} (h : ω Y = m • Y) : ((m : ZMod p)) ^ 2 + m + 1 = 0 := by
  have h2 : ω (ω Y) = (m * m) • Y := by
    rw [h, map_zsmul, h, mul_zsmul]
  have h3 : (m * m + m + 1) • Y = 0 := by
    rw [add_zsmul, add_zsmul, one_zsmul, ← h2, ← h]
    exact hω Y
  have h4 : ((m * m + m + 1 : ℤ) : ZMod p) = 0 := by
    rw [ZMod.intCast_zmod_eq_zero_iff_dvd, ← hY]
    exact addOrderOf_dvd_iff_zsmul_eq_zero.mpr h3
  push_cast at h4
  linear_combination h4

/-- case `p ≡ 2 (mod 3)`: `ω` has no eigenvector of order `p` -/
theorem omega_ne_zsmul_of_mod_three {ω : G →+ G} (hω : ∀ g, ω (ω g) + ω g + g = 0) {p : ℕ}
    (hp : p.Prime) (h3 : p % 3 = 2) {Y : G} (hY : addOrderOf Y = p) (m : ℤ) : ω Y ≠ m • Y := by
  intro h
  have := Fact.mk hp
  exact no_root_of_mod_three h3 _ (quad_of_omega_eq hω hY h)

/-- case `x² + x + 1 = (x - m₁)(x - m₂)` modulo `p`: two checks suffice -/
theorem omega_ne_zsmul_of_factor {ω : G →+ G} (hω : ∀ g, ω (ω g) + ω g + g = 0) {p : ℕ}
    (hp : p.Prime) {m₁ m₂ : ℕ} (hs : (m₁ + m₂ + 1) % p = 0) (hpr : (m₁ * m₂) % p = 1) {Y : G}
    (hY : addOrderOf Y = p) (h1 : ω Y ≠ m₁ • Y) (h2 : ω Y ≠ m₂ • Y) (m : ℤ) : ω Y ≠ m • Y := by
  intro h
  have := Fact.mk hp
  have key : ∀ k : ℕ, (m : ZMod p) = (k : ZMod p) → m • Y = k • Y := by
    intro k hk
    have : ((m : ZMod p)) = ((k : ℤ) : ZMod p) := by simpa using hk
    rw [ZMod.intCast_eq_intCast_iff_dvd_sub, ← hY, addOrderOf_dvd_iff_zsmul_eq_zero, sub_zsmul,
      natCast_zsmul] at this
    exact (add_neg_eq_zero.mp this).symm
  rcases root_of_factor hs hpr (quad_of_omega_eq hω hY h) with e | e
  · exact h1 (h.trans (key _ e))
  · exact h2 (h.trans (key _ e))

/-- `ω Y ∈ ⟨P⟩` for `Y = (b/p) • P`, `P` of order `b`, forces `ω Y ∈ ⟨Y⟩` -/
theorem omega_notMem_zmultiples {ω : G →+ G} {P : G} {b p : ℕ} (hP : addOrderOf P = b)
    (hpb : p ∣ b) (hp0 : 0 < p) (h : ∀ m : ℤ, ω ((b / p) • P) ≠ m • ((b / p) • P)) :
    ω ((b / p) • P) ∉ AddSubgroup.zmultiples P := by
  rintro ⟨k, hk⟩
  have hk : k • P = ω ((b / p) • P) := hk
  have h0 : p • ω ((b / p) • P) = 0 := by
    rw [← map_nsmul, ← mul_nsmul, Nat.div_mul_cancel hpb, ← hP, addOrderOf_nsmul_eq_zero, map_zero]
  have h1 : ((p : ℤ) * k) • P = 0 := by
    rw [mul_zsmul, hk, natCast_zsmul, h0]
  have h2 : (b : ℤ) ∣ (p : ℤ) * k := by
    rw [← hP]; exact addOrderOf_dvd_iff_zsmul_eq_zero.mpr h1
  have hb : (b : ℤ) = (p : ℤ) * ((b / p : ℕ) : ℤ) := by
    rw [← Nat.cast_mul, Nat.mul_div_cancel' hpb]
  rw [hb] at h2
  obtain ⟨m, hm⟩ := Int.dvd_of_mul_dvd_mul_left (by exact_mod_cast hp0.ne') h2
  apply h m
  rw [← hk, hm, mul_comm, mul_zsmul, natCast_zsmul]

/-- **Two independent cyclic subgroups fill the group**: `G = ⟨P⟩ ⊕ ⟨ω ((b/a) • P)⟩ ≅ Z/b × Z/a`. -/
theorem card_exponent_structure [Finite G] {ω : G →+ G} {P : G} {a b : ℕ} (hP : addOrderOf P = b)
    (hb : 0 < b) (hab : a ∣ b)
    (hind : ∀ p : ℕ, p.Prime → p ∣ a → ω ((b / p) • P) ∉ AddSubgroup.zmultiples P)
    (hcard : Nat.card G < 2 * (a * b)) :
    Nat.card G = a * b ∧ (∀ g : G, b • g = 0) ∧ addOrderOf (ω ((b / a) • P)) = a ∧
      ∀ g : G, ∃ i j : ℤ, g = i • P + j • ω ((b / a) • P) := by
  have ha : 0 < a := Nat.pos_of_dvd_of_pos hab hb
  have hbP : b • P = 0 := by rw [← hP]; exact addOrderOf_nsmul_eq_zero P
  set P₂ : G := ω ((b / a) • P) with hP₂
  set H₁ := AddSubgroup.zmultiples P with hH₁
  set H₂ := AddSubgroup.zmultiples P₂ with hH₂
  have ha2 : a • P₂ = 0 := by
    rw [hP₂, ← map_nsmul, ← mul_nsmul, Nat.div_mul_cancel hab, hbP, map_zero]
  -- the order of `P₂` modulo `⟨P⟩` is `a`
  have K : ∀ j : ℕ, j • P₂ ∈ H₁ → a ∣ j := by
    intro j hj
    by_contra hna
    obtain ⟨g, hg0, ⟨c, hc⟩, hgj, hg⟩ : ∃ g : ℕ, 0 < g ∧ g ∣ a ∧ g ∣ j ∧ g • P₂ ∈ H₁ := by
      refine ⟨Nat.gcd j a, Nat.gcd_pos_of_pos_right j ha, Nat.gcd_dvd_right j a,
        Nat.gcd_dvd_left j a, ?_⟩
      have e : ((Nat.gcd j a : ℕ) : ℤ) • P₂ =
          (Nat.gcdA j a) • (j • P₂) + (Nat.gcdB j a) • (a • P₂) := by
        rw [Nat.gcd_eq_gcd_ab, add_zsmul, mul_comm (j : ℤ), mul_comm (a : ℤ), mul_zsmul, mul_zsmul,
          natCast_zsmul, natCast_zsmul]
      rw [← natCast_zsmul, e, ha2, zsmul_zero, add_zero]
      exact H₁.zsmul_mem hj _
    have hc1 : c ≠ 1 := by
      rintro rfl
      rw [mul_one] at hc
      exact hna (hc ▸ hgj)
    have hpc : c.minFac ∣ c := Nat.minFac_dvd c
    have hpp : c.minFac.Prime := Nat.minFac_prime hc1
    obtain ⟨d, hd⟩ := hpc
    have hapd : a = c.minFac * (g * d) :=
      calc a = g * c := hc
        _ = g * (c.minFac * d) := congrArg (g * ·) hd
        _ = c.minFac * (g * d) := by ring
    have hpa : c.minFac ∣ a := ⟨g * d, hapd⟩
    have hdiv : a / c.minFac = g * d := Nat.div_eq_of_eq_mul_right hpp.pos hapd
    apply hind _ hpp hpa
    have e2 : ω ((b / c.minFac) • P) = (a / c.minFac) • P₂ := by
      rw [hP₂, ← map_nsmul, ← mul_nsmul]
      congr 2
      obtain ⟨e, he⟩ := hab
      rw [he, Nat.mul_div_cancel_left e ha, hdiv]
      apply Nat.div_eq_of_eq_mul_right hpp.pos
      rw [hapd]; ring
    rw [e2, hdiv, mul_nsmul]
    exact H₁.nsmul_mem hg _
  have KZ : ∀ j : ℤ, j • P₂ ∈ H₁ → (a : ℤ) ∣ j := by
    intro j hj
    rw [Int.natCast_dvd]
    apply K
    rcases Int.natAbs_eq j with e | e
    · rw [← natCast_zsmul, ← e]; exact hj
    · have : (j.natAbs : ℤ) = -j := by omega
      rw [← natCast_zsmul, this, neg_zsmul]; exact H₁.neg_mem hj
  have hord2 : addOrderOf P₂ = a :=
    Nat.dvd_antisymm (addOrderOf_dvd_of_nsmul_eq_zero ha2)
      (K _ (by rw [addOrderOf_nsmul_eq_zero]; exact H₁.zero_mem))
  -- the sum map `⟨P⟩ × ⟨P₂⟩ → G` is injective
  let f : H₁ × H₂ →+ G := (H₁.subtype).coprod (H₂.subtype)
  have hf : ∀ x : H₁ × H₂, f x = (x.1 : G) + (x.2 : G) := fun x => by
    simp [f, AddMonoidHom.coprod_apply]
  have hinj : Function.Injective f := by
    rw [injective_iff_map_eq_zero]
    rintro ⟨u, v⟩ h
    rw [hf] at h
    simp only at h
    obtain ⟨j, hj⟩ := AddSubgroup.mem_zmultiples_iff.mp v.2
    have hv : (v : G) = -(u : G) := by rw [eq_neg_iff_add_eq_zero, add_comm]; exact h
    have hmem : j • P₂ ∈ H₁ := by rw [hj, hv]; exact H₁.neg_mem u.2
    obtain ⟨t, ht⟩ := KZ j hmem
    have hv0 : (v : G) = 0 := by
      rw [← hj, ht, mul_comm, mul_zsmul, natCast_zsmul, ha2, zsmul_zero]
    have hu0 : (u : G) = 0 := by rw [hv0, add_zero] at h; exact h
    ext
    · exact hu0
    · exact hv0
  have hcardH : Nat.card (H₁ × H₂) = a * b := by
    rw [Nat.card_prod, Nat.card_zmultiples, Nat.card_zmultiples, hP, hord2, mul_comm]
  have hdvd : a * b ∣ Nat.card G := by
    rw [← hcardH]; exact AddSubgroup.card_dvd_of_injective f hinj
  obtain ⟨k, hk⟩ := hdvd
  have hpos : 0 < Nat.card G := Nat.card_pos
  have hk1 : k = 1 := by
    have hab0 : 0 < a * b := Nat.mul_pos ha hb
    rcases k with _ | _ | k
    · omega
    · rfl
    · exfalso
      rw [hk] at hcard
      nlinarith
  have hcardG : Nat.card G = a * b := by rw [hk, hk1, mul_one]
  have hbij : Function.Bijective f :=
    (Nat.bijective_iff_injective_and_card f).mpr ⟨hinj, by rw [hcardH, hcardG]⟩
  have hgen : ∀ g : G, ∃ i j : ℤ, g = i • P + j • P₂ := by
    intro g
    obtain ⟨⟨u, v⟩, rfl⟩ := hbij.2 g
    obtain ⟨i, hi⟩ := AddSubgroup.mem_zmultiples_iff.mp u.2
    obtain ⟨j, hj⟩ := AddSubgroup.mem_zmultiples_iff.mp v.2
    exact ⟨i, j, by rw [hf, hi, hj]⟩
  refine ⟨hcardG, ?_, hord2, hgen⟩
  intro g
  obtain ⟨i, j, rfl⟩ := hgen g
  obtain ⟨e, he⟩ := hab
  have h1 : b • (i • P) = 0 := by rw [smul_comm, hbP, smul_zero]
  have h2 : b • (j • P₂) = 0 := by
    rw [he, mul_nsmul, smul_comm a j P₂, ha2, smul_zero, smul_zero]
  rw [nsmul_add, h1, h2, add_zero]

/-- the cardinality and the exponent only -/
theorem card_and_exponent [Finite G] {ω : G →+ G} {P : G} {a b : ℕ} (hP : addOrderOf P = b)
    (hb : 0 < b) (hab : a ∣ b)
    (hind : ∀ p : ℕ, p.Prime → p ∣ a → ω ((b / p) • P) ∉ AddSubgroup.zmultiples P)
    (hcard : Nat.card G < 2 * (a * b)) :
    Nat.card G = a * b ∧ ∀ g : G, b • g = 0 :=
  let h := card_exponent_structure hP hb hab hind hcard
  ⟨h.1, h.2.1⟩

/-- `(b/p) • P` has order `p` when `P` has order `b` and `p ∣ b` -/
theorem addOrderOf_div_nsmul {P : G} {b p : ℕ} (hP : addOrderOf P = b) (hb : 0 < b) (hpb : p ∣ b) :
    addOrderOf ((b / p) • P) = p := by
  subst hP
  exact addOrderOf_nsmul_addOrderOf_sub hb.ne' hpb

/-- independence at a prime `p ≡ 2 (mod 3)`: no computation needed -/
theorem omega_notMem_of_mod_three {ω : G →+ G} (hω : ∀ g, ω (ω g) + ω g + g = 0) {P : G} {b p : ℕ}
    (hP : addOrderOf P = b) (hb : 0 < b) (hp : p.Prime) (hpb : p ∣ b) (h3 : p % 3 = 2) :
    ω ((b / p) • P) ∉ AddSubgroup.zmultiples P :=
  omega_notMem_zmultiples hP hpb hp.pos
    (omega_ne_zsmul_of_mod_three hω hp h3 (addOrderOf_div_nsmul hP hb hpb))

/-- independence at a prime `p ≡ 1 (mod 3)`: two computations -/
theorem omega_notMem_of_factor {ω : G →+ G} (hω : ∀ g, ω (ω g) + ω g + g = 0) {P : G} {b p : ℕ}
    (hP : addOrderOf P = b) (hb : 0 < b) (hp : p.Prime) (hpb : p ∣ b) {m₁ m₂ : ℕ}
    (hs : (m₁ + m₂ + 1) % p = 0) (hpr : (m₁ * m₂) % p = 1)
    (h1 : ω ((b / p) • P) ≠ m₁ • ((b / p) • P)) (h2 : ω ((b / p) • P) ≠ m₂ • ((b / p) • P)) :
    ω ((b / p) • P) ∉ AddSubgroup.zmultiples P :=
  omega_notMem_zmultiples hP hpb hp.pos
    (omega_ne_zsmul_of_factor hω hp hs hpr (addOrderOf_div_nsmul hP hb hpb) h1 h2)

end group

/-- a prime dividing a product of primes is one of them -/
theorem prime_mem_of_dvd_prod {p : ℕ} (hp : p.Prime) {l : List ℕ} (hl : ∀ q ∈ l, q.Prime)
    (h : p ∣ l.prod) : p ∈ l := by
  obtain ⟨q, hq, hpq⟩ := (hp.prime.dvd_prod_iff).mp h
  rwa [(Nat.prime_dvd_prime_iff_eq hp (hl q hq)).mp hpq]

end PP.CurveOrder
