/-
The definitions REGENERATED from the Rust source by /verif/extract/extract_hash.py (`PP/Gen/HashGlue.lean`,
namespace `PP.Gen.H`: `expand_message` (XMD, XOF), `hash_to_field`, `from_okm` / `from_ro`,
`hash_to_curve` / `encode_to_curve`, one line per Rust statement) are equal to the hand-written model
(sections "hash_to_field.rs" and "hash_to_curve.rs" of `PP/Model/Map.lean`).

Shape of the statements.  A generated function that can PANIC is `Option`-valued (`none` = panic), as the
model's.  Hypotheses express Rust TYPES that the `Bytes` representation forgets: `okm.length = 64` is
`GenericArray<u8, U64>`; `(H.hash x).length = H.outSize` is the result type `GenericArray<u8, OutputSize>`
of `Digest::result`; `0 < H.outSize` excludes the division by zero (a panic in Rust, which the generated
code reproduces and the model does not; it is a hypothesis of Props/C13 as well).

Proof method.  Purely syntactic: `unfold`, the hoisted checks resolved with the length facts, the two
loops (`List.foldlM` over `List.range'`) by induction with generalised accumulators against the
recursions `xmdBlocks` / `splitBlocks` of the model; the loop bodies enter the induction lemmas only
through a pointwise description (`hf`), proved by unfolding the generated lambda.  Field values stay
opaque: nothing evaluates `Fq` arithmetic (the constants `F_2_256`, `F_2_192` are compared as integer
literals under `Fq.ofMont`).

Core Lean only; axioms: `propext`, `Quot.sound`, `Classical.choice` at most.
-/
import PP.Gen.HashGlue
import PP.Proofs.GenEnc

set_option linter.unusedSimpArgs false
set_option linter.unusedVariables false

namespace PP.GenHashLemmas
open PP PP.Gen PP.GenArithLemmas PP.GenEncLemmas

/-! ## bytes -/

theorem u8_eq (n : Nat) : u8 n = UInt8.ofNat n := UInt8.ofNat_mod_size'

theorem reprReadBe_exact (n : Nat) (l : Bytes) (h : l.length = n) : E.reprReadBe n l = .ok (beToNat l, []) := by
  rw [reprReadBe_ok n l (Nat.le_of_eq h.symm), List.take_of_length_le (Nat.le_of_eq h),
    List.drop_of_length_le (Nat.le_of_eq h)]

theorem Fq_fromBytes_eq (bs : Bytes) : Fq.fromBytes bs = E.Fq.fromRepr (beToNat bs) := rfl
theorem Fr_fromBytes_eq (bs : Bytes) : Fr.fromBytes bs = E.Fr.fromRepr (beToNat bs) := rfl

/-! ## expand_message_xof -/

theorem ExpandMsgXof_expandMessage_eq (xof : Bytes → Nat → Bytes) :
    H.ExpandMsgXof.expandMessage xof = expandMessageXof xof := by
  funext msg dst len
  unfold H.ExpandMsgXof.expandMessage expandMessageXof
  simp only [u8_eq, List.nil_append]

/-! ## from_okm, from_ro -/

theorem Fq_fromOkm_F_2_256_eq : H.Fq.fromOkm.F_2_256 = fqF2_256 := by
  unfold H.Fq.fromOkm.F_2_256 fqF2_256
  exact congrArg Fq.ofMont (by decide)

theorem Fr_fromOkm_F_2_192_eq : H.Fr.fromOkm.F_2_192 = frF2_192 := by
  unfold H.Fr.fromOkm.F_2_192 frF2_192
  exact congrArg Fr.ofMont (by decide)

theorem Fq_BaseLength_eq : H.Fq.BaseLength = 64 := rfl
theorem Fr_BaseLength_eq : H.Fr.BaseLength = 48 := rfl
theorem Fq2_Length_eq : H.Fq2.Length = 128 := rfl

theorem Fq_fromOkm_eq (okm : Bytes) (h : okm.length = 64) : H.Fq.fromOkm okm = Fq.fromOkm okm := by
  unfold H.Fq.fromOkm Fq.fromOkm
  have h1 : (List.replicate 16 (0 : UInt8) ++ okm.take 32).length = 48 := by
    rw [List.length_append, List.length_replicate, List.length_take, h]; rfl
  have h2 : (List.replicate 16 (0 : UInt8) ++ okm.drop 32).length = 48 := by
    rw [List.length_append, List.length_replicate, List.length_drop, h]
  have h3 : (okm.drop 32).take 32 = okm.drop 32 :=
    List.take_of_length_le (by rw [List.length_drop, h]; decide)
  rw [reprReadBe_exact 48 _ h1, reprReadBe_exact 48 _ h2, h3, Fq_fromBytes_eq, Fq_fromBytes_eq,
    Fq_fromOkm_F_2_256_eq]
  simp only []
  cases E.Fq.fromRepr (beToNat (List.replicate 16 (0 : UInt8) ++ okm.take 32)) with
  | none => rfl
  | some e1 =>
    simp only []
    cases E.Fq.fromRepr (beToNat (List.replicate 16 (0 : UInt8) ++ okm.drop 32)) with
    | none => rfl
    | some e2 => rfl

theorem Fr_fromOkm_eq (okm : Bytes) (h : okm.length = 48) : H.Fr.fromOkm okm = Fr.fromOkm okm := by
  unfold H.Fr.fromOkm Fr.fromOkm
  have h1 : (List.replicate 8 (0 : UInt8) ++ okm.take 24).length = 32 := by
    rw [List.length_append, List.length_replicate, List.length_take, h]; rfl
  have h2 : (List.replicate 8 (0 : UInt8) ++ okm.drop 24).length = 32 := by
    rw [List.length_append, List.length_replicate, List.length_drop, h]
  have h3 : (okm.drop 24).take 24 = okm.drop 24 :=
    List.take_of_length_le (by rw [List.length_drop, h]; decide)
  rw [reprReadBe_exact 32 _ h1, reprReadBe_exact 32 _ h2, h3, Fr_fromBytes_eq, Fr_fromBytes_eq,
    Fr_fromOkm_F_2_192_eq]
  simp only []
  cases E.Fr.fromRepr (beToNat (List.replicate 8 (0 : UInt8) ++ okm.take 24)) with
  | none => rfl
  | some e1 =>
    simp only []
    cases E.Fr.fromRepr (beToNat (List.replicate 8 (0 : UInt8) ++ okm.drop 24)) with
    | none => rfl
    | some e2 => rfl

theorem Fq2_fromRo_eq (okm : Bytes) (h : okm.length = 128) : H.Fq2.fromRo okm = Fq2.fromRo okm := by
  unfold H.Fq2.fromRo Fq2.fromRo
  have h1 : (okm.take 64).length = 64 := by rw [List.length_take, h]; rfl
  have h2 : (okm.drop 64).length = 64 := by rw [List.length_drop, h]
  have h3 : (okm.drop 64).take 64 = okm.drop 64 := List.take_of_length_le (Nat.le_of_eq h2)
  rw [Fq_fromOkm_eq _ h1, Fq_fromOkm_eq _ h2, h3]
  cases Fq.fromOkm (okm.take 64) with
  | none => rfl
  | some c0 =>
    simp only []
    cases Fq.fromOkm (okm.drop 64) with
    | none => rfl
    | some c1 => rfl

theorem FromRO_fromRo_eq {T : Type} (BaseLength : Nat) (from_okm : Bytes → Option T) :
    H.FromRO.fromRo BaseLength from_okm = from_okm := rfl

/-! ## hash_to_field -/

/-- the `for idx in 0..count` loop of `hash_to_field` against the model's recursion `splitBlocks`;
    `f` is the generated loop body, described pointwise by `hf` -/
theorem foldlM_splitBlocks {T : Type} (L : Nat) (fromRo : Bytes → Option T) (bytes : Bytes)
    (f : List T → Nat → Option (List T))
    (hf : ∀ acc idx, f acc idx =
      if bytes.length < idx * L + L then none else
        match fromRo ((bytes.drop (idx * L)).take L) with
        | none => none
        | some v => some (acc ++ [v])) :
    ∀ n idx acc, List.foldlM f acc (List.range' idx n) = (splitBlocks L fromRo bytes n idx).map (acc ++ ·) := by
  intro n
  induction n with
  | zero => intro idx acc; simp [splitBlocks]
  | succ n ih =>
    intro idx acc
    rw [List.range'_succ, List.foldlM_cons, hf]
    unfold splitBlocks
    have hlen : ((bytes.drop (idx * L)).take L).length ≠ L ↔ bytes.length < idx * L + L := by
      rw [List.length_take, List.length_drop]
      rcases Nat.eq_zero_or_pos L with h0 | hpos
      · subst h0; simp
      · omega
    by_cases hb : bytes.length < idx * L + L
    · rw [if_pos hb]
      simp only [bind, pure, Option.bind]
      rw [if_pos (hlen.mpr hb)]
      rfl
    · rw [if_neg hb]
      simp only [bind, pure, Option.bind]
      rw [if_neg (fun h => hb (hlen.mp h))]
      cases fromRo ((bytes.drop (idx * L)).take L) with
      | none => rfl
      | some v =>
        simp only []
        rw [ih (idx + 1) (acc ++ [v])]
        cases splitBlocks L fromRo bytes n (idx + 1) with
        | none => rfl
        | some rest => simp

theorem hashToField_eq {T : Type} (L : Nat) (fromRo : Bytes → Option T)
    (expand : Bytes → Bytes → Nat → Option Bytes) (msg dst : Bytes) (count : Nat) :
    H.hashToField L fromRo expand msg dst count = hashToField expand L fromRo msg dst count := by
  unfold H.hashToField hashToField
  simp only []
  cases expand msg dst (count * L) with
  | none => rfl
  | some bytes =>
    simp only [bind, Option.bind]
    rw [List.range_eq_range', foldlM_splitBlocks L fromRo bytes _ _ count 0 []]
    · cases splitBlocks L fromRo bytes count 0 with
      | none => rfl
      | some l => simp
    · intro acc idx
      have e1 : (idx + 1) * L = idx * L + L := Nat.succ_mul idx L
      have e2 : idx * L + L - idx * L = L := Nat.add_sub_cancel_left (idx * L) L
      rw [e1, e2]
      by_cases hb : bytes.length < idx * L + L
      · rw [if_pos hb, if_pos (Or.inr hb)]
      · rw [if_neg hb, if_neg (by omega)]
        have hl : ((bytes.drop (idx * L)).take L).length = L := by
          rw [List.length_take, List.length_drop]; omega
        rw [if_neg (fun h => h hl)]
        cases fromRo ((bytes.drop (idx * L)).take L) <;> rfl

/-- the model's `hashToField` only applies `fromRo` to blocks of exactly `L` bytes -/
theorem splitBlocks_congr {T : Type} (L : Nat) (f g : Bytes → Option T) (bytes : Bytes)
    (h : ∀ b, b.length = L → f b = g b) : ∀ n idx, splitBlocks L f bytes n idx = splitBlocks L g bytes n idx := by
  intro n
  induction n with
  | zero => intro idx; rfl
  | succ n ih =>
    intro idx
    unfold splitBlocks
    simp only [bind, pure, Option.bind]
    by_cases hb : ((bytes.drop (idx * L)).take L).length ≠ L
    · rw [if_pos hb, if_pos hb]
    · rw [if_neg hb, if_neg hb, h _ (Classical.not_not.mp hb), ih (idx + 1)]

theorem hashToField_congr {T : Type} (L : Nat) (f g : Bytes → Option T)
    (expand : Bytes → Bytes → Nat → Option Bytes) (msg dst : Bytes) (count : Nat)
    (h : ∀ b, b.length = L → f b = g b) :
    hashToField expand L f msg dst count = hashToField expand L g msg dst count := by
  unfold hashToField
  cases expand msg dst (count * L) with
  | none => rfl
  | some bytes =>
    simp only [bind, Option.bind]
    exact splitBlocks_congr L f g bytes h count 0

theorem splitBlocks_length {T : Type} (L : Nat) (f : Bytes → Option T) (bytes : Bytes) :
    ∀ n idx l, splitBlocks L f bytes n idx = some l → l.length = n := by
  intro n
  induction n with
  | zero => intro idx l h; unfold splitBlocks at h; cases h; rfl
  | succ n ih =>
    intro idx l h
    unfold splitBlocks at h
    simp only [bind, pure, Option.bind] at h
    split at h
    · cases h
    · cases hf : f ((bytes.drop (idx * L)).take L) with
      | none => rw [hf] at h; cases h
      | some e =>
        rw [hf] at h
        simp only [] at h
        cases hr : splitBlocks L f bytes n (idx + 1) with
        | none => rw [hr] at h; cases h
        | some rest =>
          rw [hr] at h
          cases h
          rw [List.length_cons, ih (idx + 1) rest hr]

theorem hashToField_length {T : Type} (L : Nat) (f : Bytes → Option T)
    (expand : Bytes → Bytes → Nat → Option Bytes) (msg dst : Bytes) (count : Nat) (l : List T)
    (h : hashToField expand L f msg dst count = some l) : l.length = count := by
  unfold hashToField at h
  cases he : expand msg dst (count * L) with
  | none => rw [he] at h; cases h
  | some bytes =>
    rw [he] at h
    exact splitBlocks_length L f bytes count 0 l h

/-! ## expand_message_xmd -/

theorem set_append_len (pre : Bytes) (s v : UInt8) (suf : Bytes) :
    (pre ++ s :: suf).set pre.length v = pre ++ v :: suf := by
  induction pre with
  | nil => rfl
  | cons a p ih => simp [ih]

/-- the `enumerate().for_each(|(jdx, (b0val, bi1val))| tmp[jdx] = b0val ^ bi1val)` loop, with the part of
    `tmp` already written (`pre`) and still to be written (`suf`) made explicit -/
theorem xor_fold_aux (g : Bytes → Nat × UInt8 × UInt8 → Option Bytes)
    (hg : ∀ t j x y, g t (j, (x, y)) = if t.length ≤ j then none else some (t.set j (x ^^^ y))) :
    ∀ (a b pre suf : Bytes), min a.length b.length ≤ suf.length →
      List.foldlM g (pre ++ suf) (List.zip (List.range' pre.length (List.zip a b).length) (List.zip a b))
        = some (pre ++ xorBytes a b ++ suf.drop (min a.length b.length)) := by
  intro a
  induction a with
  | nil => intro b pre suf _; simp [xorBytes]
  | cons x a ih =>
    intro b pre suf hs
    cases b with
    | nil => simp [xorBytes]
    | cons y b =>
      cases suf with
      | nil => simp at hs
      | cons s suf =>
        have hs' : min a.length b.length ≤ suf.length := by
          simp only [List.length_cons] at hs; omega
        rw [List.zip_cons_cons, List.length_cons, List.range'_succ, List.zip_cons_cons, List.foldlM_cons, hg,
          if_neg (by rw [List.length_append, List.length_cons]; omega), set_append_len]
        simp only [bind, Option.bind]
        have e : pre ++ (x ^^^ y) :: suf = (pre ++ [x ^^^ y]) ++ suf := by simp
        have el : pre.length + 1 = (pre ++ [x ^^^ y]).length := by simp
        rw [e, el, ih b (pre ++ [x ^^^ y]) suf hs']
        simp [xorBytes, Nat.succ_min_succ]

theorem xor_fold (g : Bytes → Nat × UInt8 × UInt8 → Option Bytes)
    (hg : ∀ t j x y, g t (j, (x, y)) = if t.length ≤ j then none else some (t.set j (x ^^^ y)))
    (a b tmp : Bytes) (ha : a.length = tmp.length) (hb : b.length = tmp.length) :
    List.foldlM g tmp (H.enumerate (List.zip a b)) = some (xorBytes a b) := by
  have h := xor_fold_aux g hg a b [] tmp (by omega)
  unfold H.enumerate
  rw [List.range_eq_range']
  rw [List.nil_append, List.length_nil] at h
  rw [h, List.nil_append, List.drop_of_length_le (by omega), List.append_nil]

/-- the `for idx in 1..ell` loop of `expand_message_xmd` against the model's recursion `xmdBlocks`;
    `f` is the generated loop body, described by `hf` on the states the loop reaches -/
theorem foldlM_xmdBlocks (Hh : XmdHash) (hH : ∀ x, (Hh.hash x).length = Hh.outSize) (b0 dstPrime : Bytes)
    (f : Bytes → Nat → Option Bytes)
    (hf : ∀ acc idx, 1 ≤ idx → acc.length = idx * Hh.outSize → f acc idx =
      some (acc ++ Hh.hash (xorBytes b0 ((acc.drop ((idx - 1) * Hh.outSize)).take Hh.outSize) ++ [u8 (idx + 1)] ++ dstPrime))) :
    ∀ n idx prev acc, 1 ≤ idx → acc.length = idx * Hh.outSize →
      prev = (acc.drop ((idx - 1) * Hh.outSize)).take Hh.outSize →
      List.foldlM f acc (List.range' idx n) = some (xmdBlocks Hh b0 dstPrime n idx prev acc) := by
  intro n
  induction n with
  | zero => intro idx prev acc _ _ _; rfl
  | succ n ih =>
    intro idx prev acc h1 hl hp
    rw [List.range'_succ, List.foldlM_cons, hf acc idx h1 hl, ← hp]
    simp only [bind, Option.bind]
    unfold xmdBlocks
    simp only []
    apply ih
    · omega
    · rw [List.length_append, hH, hl, Nat.succ_mul]
    · rw [Nat.add_sub_cancel, List.drop_left' hl, List.take_of_length_le (Nat.le_of_eq (hH _))]

theorem ExpandMsgXmd_expandMessage_eq (Hh : XmdHash) (hout : 0 < Hh.outSize)
    (hH : ∀ x, (Hh.hash x).length = Hh.outSize) (msg dst : Bytes) (len : Nat) :
    H.ExpandMsgXmd.expandMessage Hh msg dst len = expandMessageXmd Hh msg dst len := by
  unfold H.ExpandMsgXmd.expandMessage expandMessageXmd
  simp only []
  rw [if_neg (by omega), if_neg (by omega)]
  by_cases hell : (len + Hh.outSize - 1) / Hh.outSize > 255
  · rw [if_pos hell, if_pos hell]
  rw [if_neg hell, if_neg hell]
  simp only [List.nil_append, u8_eq]
  rw [foldlM_xmdBlocks Hh hH
    (Hh.hash (List.replicate Hh.blockSize (0 : UInt8) ++ msg ++ [UInt8.ofNat (len >>> 8), UInt8.ofNat len, 0] ++ dst
      ++ [UInt8.ofNat dst.length]))
    (dst ++ [UInt8.ofNat dst.length]) _ ?hf _ 1 _ _ (Nat.le_refl 1)
    (by rw [hH, Nat.one_mul]) (by rw [Nat.sub_self, Nat.zero_mul, List.drop_zero, List.take_of_length_le (Nat.le_of_eq (hH _))])]
  case hf =>
    intro acc idx h1 hl
    rw [if_neg (by omega)]
    have e1 : idx * Hh.outSize = (idx - 1) * Hh.outSize + Hh.outSize := by
      have : idx = (idx - 1) + 1 := by omega
      rw [this, Nat.succ_mul, Nat.add_sub_cancel]
    rw [if_neg (by rw [hl]; omega)]
    have e2 : idx * Hh.outSize - (idx - 1) * Hh.outSize = Hh.outSize := by
      rw [e1]; exact Nat.add_sub_cancel_left _ _
    rw [e2, xor_fold _ (fun t j x y => rfl) _ _ _ (by rw [hH, List.length_replicate])
      (by rw [List.length_take, List.length_drop, List.length_replicate, hl]; omega)]
    simp only [List.append_assoc, u8_eq]
  simp only [List.append_assoc]

/-! ## hash_to_curve, encode_to_curve: the generic code, then its instantiations for G1 and G2 -/

theorem getElem?_two {α : Type} (l : List α) (h : l.length = 2) : ∃ a b, l = [a, b] := by
  match l, h with
  | [a, b], _ => exact ⟨a, b, rfl⟩

theorem getElem?_one {α : Type} (l : List α) (h : l.length = 1) : ∃ a, l = [a] := by
  match l, h with
  | [a], _ => exact ⟨a, rfl⟩

/-- `hash_to_curve` for abstract trait items: `hash_to_field` with count 2, then `map2_to_curve` -/
theorem hashToCurve_generic {Base PtT : Type} (L : Nat) (fromRo : Bytes → Option Base)
    (expand : Bytes → Bytes → Nat → Option Bytes) (osswu : Base → Option PtT) (iso clear : PtT → PtT)
    (add : PtT → PtT → PtT) (msg dst : Bytes) :
    H.HashToCurve.hashToCurve L fromRo expand osswu iso clear add msg dst
      = (hashToField expand L fromRo msg dst 2).bind (fun u =>
          match u with
          | [u0, u1] => A.map2ToCurve osswu iso clear add u0 u1
          | _ => none) := by
  unfold H.HashToCurve.hashToCurve
  rw [hashToField_eq]
  cases h : hashToField expand L fromRo msg dst 2 with
  | none => rfl
  | some u =>
    obtain ⟨u0, u1, rfl⟩ := getElem?_two u (hashToField_length L fromRo expand msg dst 2 u h)
    rfl

theorem encodeToCurve_generic {Base PtT : Type} (L : Nat) (fromRo : Bytes → Option Base)
    (expand : Bytes → Bytes → Nat → Option Bytes) (osswu : Base → Option PtT) (iso clear : PtT → PtT)
    (add : PtT → PtT → PtT) (msg dst : Bytes) :
    H.HashToCurve.encodeToCurve L fromRo expand osswu iso clear add msg dst
      = (hashToField expand L fromRo msg dst 1).bind (fun u =>
          match u with
          | [u0] => A.mapToCurve osswu iso clear u0
          | _ => none) := by
  unfold H.HashToCurve.encodeToCurve
  rw [hashToField_eq]
  cases h : hashToField expand L fromRo msg dst 1 with
  | none => rfl
  | some u =>
    obtain ⟨u0, rfl⟩ := getElem?_one u (hashToField_length L fromRo expand msg dst 1 u h)
    rfl

theorem fromRo_Fq_agree : ∀ b : Bytes, b.length = H.Fq.BaseLength →
    H.FromRO.fromRo H.Fq.BaseLength H.Fq.fromOkm b = Fq.fromOkm b := fun b hb => Fq_fromOkm_eq b hb

theorem fromRo_Fq2_agree : ∀ b : Bytes, b.length = H.Fq2.Length → H.Fq2.fromRo b = Fq2.fromRo b :=
  fun b hb => Fq2_fromRo_eq b hb

variable (expand : Bytes → Bytes → Nat → Option Bytes) (msg dst : Bytes)

theorem hashToCurve_G1_eq :
    H.HashToCurve.hashToCurve (Length := H.Fq.BaseLength) (from_ro := H.FromRO.fromRo H.Fq.BaseLength H.Fq.fromOkm)
        (expand_message := expand) (osswu_map := fun u => some (A.G1.osswuMap u)) (isogeny_map := PP.iso11)
        (clear_h := A.G1.clearH) (add_assign := A.Jac.add) msg dst
      = hashToCurveG1 expand msg dst := by
  rw [hashToCurve_generic, hashToField_congr _ _ _ expand msg dst 2 fromRo_Fq_agree, map2ToCurve_G1_eq, Fq_BaseLength_eq]
  unfold hashToCurveG1
  cases hashToField expand 64 Fq.fromOkm msg dst 2 with
  | none => rfl
  | some u =>
    match u with
    | [] | [_] | _ :: _ :: _ :: _ => rfl
    | [u0, u1] => rfl

theorem encodeToCurve_G1_eq :
    H.HashToCurve.encodeToCurve (Length := H.Fq.BaseLength) (from_ro := H.FromRO.fromRo H.Fq.BaseLength H.Fq.fromOkm)
        (expand_message := expand) (osswu_map := fun u => some (A.G1.osswuMap u)) (isogeny_map := PP.iso11)
        (clear_h := A.G1.clearH) (add_assign := A.Jac.add) msg dst
      = encodeToCurveG1 expand msg dst := by
  rw [encodeToCurve_generic, hashToField_congr _ _ _ expand msg dst 1 fromRo_Fq_agree, mapToCurve_G1_eq, Fq_BaseLength_eq]
  unfold encodeToCurveG1
  cases hashToField expand 64 Fq.fromOkm msg dst 1 with
  | none => rfl
  | some u =>
    match u with
    | [] | _ :: _ :: _ => rfl
    | [u0] => rfl

theorem hashToCurve_G2_eq :
    H.HashToCurve.hashToCurve (Length := H.Fq2.Length) (from_ro := H.Fq2.fromRo)
        (expand_message := expand) (osswu_map := A.G2.osswuMap) (isogeny_map := PP.iso3)
        (clear_h := A.G2.clearH) (add_assign := A.Jac.add) msg dst
      = hashToCurveG2 expand msg dst := by
  rw [hashToCurve_generic, hashToField_congr _ _ _ expand msg dst 2 fromRo_Fq2_agree, map2ToCurve_G2_eq, Fq2_Length_eq]
  unfold hashToCurveG2
  cases hashToField expand 128 Fq2.fromRo msg dst 2 with
  | none => rfl
  | some u =>
    match u with
    | [] | [_] | _ :: _ :: _ :: _ => rfl
    | [u0, u1] => rfl

theorem encodeToCurve_G2_eq :
    H.HashToCurve.encodeToCurve (Length := H.Fq2.Length) (from_ro := H.Fq2.fromRo)
        (expand_message := expand) (osswu_map := A.G2.osswuMap) (isogeny_map := PP.iso3)
        (clear_h := A.G2.clearH) (add_assign := A.Jac.add) msg dst
      = encodeToCurveG2 expand msg dst := by
  rw [encodeToCurve_generic, hashToField_congr _ _ _ expand msg dst 1 fromRo_Fq2_agree, mapToCurve_G2_eq, Fq2_Length_eq]
  unfold encodeToCurveG2
  cases hashToField expand 128 Fq2.fromRo msg dst 1 with
  | none => rfl
  | some u =>
    match u with
    | [] | _ :: _ :: _ => rfl
    | [u0] => rfl

end PP.GenHashLemmas
