/-
C16, homomorphism law of the 11-isogeny, layer 0: POLYNOMIAL IDENTITIES BY EVALUATION ON A GRID.

The identities needed for the degree-11 isogeny have degree ~55 in each of two variables, far beyond
`ring`.  They are proved as follows.  An identity is a term `e : Ex` of a small expression language
(variables `x₁ = var 0`, `x₂ = var 1`, a formal square root `p`, constants, `+ - *`, powers, Horner
evaluation `pol` and homogeneous Horner evaluation `hev` of constant coefficient lists), together with
a `p`-free term `De` for the radicand (`p² = De`).  One generic evaluator `eval` interprets terms in
any structure `Ops α`; the *fundamental lemma* `eval_rel` says that a relation preserved by the
operations is preserved by `eval`.  Instances:

* `fqOps`                       : the field `Fq` — what the identity means;
* `pairOps o D`                 : the quadratic algebra `α[p]/(p² − D)` on pairs `(u, v) = u + v·p`;
* `polyOps`                     : bivariate polynomials `Fq[X][Y]` (`x₁ ↦ C X`, `x₂ ↦ Y`);
* `degOps`                      : upper bounds for the two partial degrees;
* `natOps q`                    : canonical representatives, with the kernel's GMP-accelerated
                                  `Nat.add/mul/mod` — what `decide +kernel` runs.

`var (2+2i)` / `var (3+2i)` stand for the `i`-th shared univariate sub-expression `defs[i]` at `x₁` / `x₂`
(`extEnv`; in the kernel run they are computed once per row / column of the grid).

`master`: if the two components of `e` in the pair algebra over `natOps` vanish on the grid
`{0..s-1} × {0..t-1}` (`gridCheck`, split into row blocks by `rowsCheck_add`) whose sides exceed the
degree bounds computed by `degOps` (`degCheck`; `none` = the zero polynomial), then the two components of
`e` over `Fq[X][Y]` are the zero polynomial (`eq_zero_of_grid`), hence `e` evaluates to `0` in `Fq` at
every `(x₁, x₂, p)` with `p² = De(x₁, x₂)`.

Cost model (Lean 4.33 kernel): ~150 µs per structural-recursion step, ~17 µs per `Nat.mul/mod` on 381-bit
literals when `Nat.add/mul/mod` are called directly (3× more through the `+ * %` notation classes,
10× more through `Zp`); memory ~0.5 GB per 100 evaluations of a 150-node term, freed after each theorem.
-/
import Mathlib.Algebra.Polynomial.Bivariate
import Mathlib.Algebra.Polynomial.Roots
import Mathlib.Tactic.Ring
import Mathlib.Tactic.LinearCombination
import PP.Proofs.ZpField
import PP.Proofs.Primes
import PP.Proofs.IsoPoly

set_option linter.unusedSectionVars false

namespace PP
namespace IsoHom11

open Polynomial
open scoped Polynomial.Bivariate

/-! ## the expression language and its generic evaluator -/

/-- a bare signature: what `eval` needs -/
structure Ops (α : Type) where
  add : α → α → α
  sub : α → α → α
  mul : α → α → α
  ofNat : Nat → α

inductive Ex where
  | var : Nat → Ex
  | p : Ex
  | c : Nat → Ex
  | add : Ex → Ex → Ex
  | sub : Ex → Ex → Ex
  | mul : Ex → Ex → Ex
  | pow : Ex → Nat → Ex
  /-- `pol cs e = Σ cs[j]·eʲ` -/
  | pol : List Nat → Ex → Ex
  /-- `hev cs n d = Σ cs[j]·nʲ·d^(len−1−j)` -/
  | hev : List Nat → Ex → Ex → Ex

section generic
variable {α β : Type}

def powG (o : Ops α) (x : α) : Nat → α
  | 0 => o.ofNat 1
  | k + 1 => o.mul x (powG o x k)

def polG (o : Ops α) (x : α) : List Nat → α
  | [] => o.ofNat 0
  | c :: cs => o.add (o.ofNat c) (o.mul x (polG o x cs))

/-- `(Σ cs[j]·nʲ·d^(len−1−j), d^len)` -/
def hevAux (o : Ops α) (n d : α) : List Nat → α × α
  | [] => (o.ofNat 0, o.ofNat 1)
  | c :: cs =>
    (o.add (o.mul (o.ofNat c) (hevAux o n d cs).2) (o.mul n (hevAux o n d cs).1),
     o.mul (hevAux o n d cs).2 d)

def eval (o : Ops α) (env : Nat → α) (p : α) : Ex → α
  | .var i => env i
  | .p => p
  | .c k => o.ofNat k
  | .add a b => o.add (eval o env p a) (eval o env p b)
  | .sub a b => o.sub (eval o env p a) (eval o env p b)
  | .mul a b => o.mul (eval o env p a) (eval o env p b)
  | .pow a k => powG o (eval o env p a) k
  | .pol cs a => polG o (eval o env p a) cs
  | .hev cs n d => (hevAux o (eval o env p n) (eval o env p d) cs).1

/-- a relation preserved by the operations -/
structure OpsRel (o : Ops α) (o' : Ops β) (R : α → β → Prop) : Prop where
  add : ∀ {a a' b b'}, R a a' → R b b' → R (o.add a b) (o'.add a' b')
  sub : ∀ {a a' b b'}, R a a' → R b b' → R (o.sub a b) (o'.sub a' b')
  mul : ∀ {a a' b b'}, R a a' → R b b' → R (o.mul a b) (o'.mul a' b')
  ofNat : ∀ k, R (o.ofNat k) (o'.ofNat k)

variable {o : Ops α} {o' : Ops β} {R : α → β → Prop}

theorem powG_rel (h : OpsRel o o' R) {x : α} {x' : β} (hx : R x x') (k : Nat) :
    R (powG o x k) (powG o' x' k) := by
  induction k with
  | zero => exact h.ofNat 1
  | succ k ih => exact h.mul hx ih

theorem polG_rel (h : OpsRel o o' R) {x : α} {x' : β} (hx : R x x') (cs : List Nat) :
    R (polG o x cs) (polG o' x' cs) := by
  induction cs with
  | nil => exact h.ofNat 0
  | cons c cs ih => exact h.add (h.ofNat c) (h.mul hx ih)

theorem hevAux_rel (h : OpsRel o o' R) {n d : α} {n' d' : β} (hn : R n n') (hd : R d d')
    (cs : List Nat) :
    R (hevAux o n d cs).1 (hevAux o' n' d' cs).1 ∧ R (hevAux o n d cs).2 (hevAux o' n' d' cs).2 := by
  induction cs with
  | nil => exact ⟨h.ofNat 0, h.ofNat 1⟩
  | cons c cs ih =>
    exact ⟨h.add (h.mul (h.ofNat c) ih.2) (h.mul hn ih.1), h.mul ih.2 hd⟩

/-- **fundamental lemma** -/
theorem eval_rel (h : OpsRel o o' R) {env : Nat → α} {env' : Nat → β} (henv : ∀ i, R (env i) (env' i))
    {p : α} {p' : β} (hp : R p p') (e : Ex) : R (eval o env p e) (eval o' env' p' e) := by
  induction e with
  | var i => exact henv i
  | p => exact hp
  | c k => exact h.ofNat k
  | add a b iha ihb => exact h.add iha ihb
  | sub a b iha ihb => exact h.sub iha ihb
  | mul a b iha ihb => exact h.mul iha ihb
  | pow a k iha => exact powG_rel h iha k
  | pol cs a iha => exact polG_rel h iha cs
  | hev cs n d ihn ihd => exact (hevAux_rel h ihn ihd cs).1

/-! ## the quadratic algebra on pairs -/

/-- `(u, v) = u + v·p` with `p² = D` -/
def pairOps (o : Ops α) (D : α) : Ops (α × α) where
  add a b := (o.add a.1 b.1, o.add a.2 b.2)
  sub a b := (o.sub a.1 b.1, o.sub a.2 b.2)
  mul a b := (o.add (o.mul a.1 b.1) (o.mul (o.mul a.2 b.2) D), o.add (o.mul a.1 b.2) (o.mul a.2 b.1))
  ofNat k := (o.ofNat k, o.ofNat 0)

def PairRel (R : α → β → Prop) (a : α × α) (b : β × β) : Prop := R a.1 b.1 ∧ R a.2 b.2

theorem pairOps_rel (h : OpsRel o o' R) {D : α} {D' : β} (hD : R D D') :
    OpsRel (pairOps o D) (pairOps o' D') (PairRel R) where
  add ha hb := ⟨h.add ha.1 hb.1, h.add ha.2 hb.2⟩
  sub ha hb := ⟨h.sub ha.1 hb.1, h.sub ha.2 hb.2⟩
  mul ha hb := ⟨h.add (h.mul ha.1 hb.1) (h.mul (h.mul ha.2 hb.2) hD),
    h.add (h.mul ha.1 hb.2) (h.mul ha.2 hb.1)⟩
  ofNat k := ⟨h.ofNat k, h.ofNat 0⟩

/-- the two components of `e` in the quadratic algebra with radicand `De` -/
def evalPair (o : Ops α) (env : Nat → α) (e De : Ex) : α × α :=
  eval (pairOps o (eval o env (o.ofNat 0) De)) (fun i => (env i, o.ofNat 0))
    (o.ofNat 0, o.ofNat 1) e

theorem evalPair_rel (h : OpsRel o o' R) {env : Nat → α} {env' : Nat → β}
    (henv : ∀ i, R (env i) (env' i)) (e De : Ex) :
    PairRel R (evalPair o env e De) (evalPair o' env' e De) :=
  eval_rel (pairOps_rel h (eval_rel h henv (h.ofNat 0) De))
    (fun i => ⟨henv i, h.ofNat 0⟩) ⟨h.ofNat 0, h.ofNat 1⟩ e

end generic

/-! ## commutative rings -/

section ring
variable {A B : Type} [CommRing A] [CommRing B]

/-- the operations of a commutative ring, with a chosen image of the numerals -/
def ringOps (ι : Nat → A) : Ops A := ⟨(· + ·), (· - ·), (· * ·), ι⟩

/-- a ring homomorphism compatible with the numerals -/
theorem ringOps_hom (φ : A →+* B) {ι : Nat → A} {ι' : Nat → B} (hι : ∀ k, φ (ι k) = ι' k) :
    OpsRel (ringOps ι) (ringOps ι') (fun a b => φ a = b) where
  add ha hb := by subst ha hb; exact map_add φ _ _
  sub ha hb := by subst ha hb; exact map_sub φ _ _
  mul ha hb := by subst ha hb; exact map_mul φ _ _
  ofNat := hι

/-- the pair `(u, v)` denotes `u + v·p₀` when `p₀² = D` -/
theorem pair_scalar {ι : Nat → A} (h0 : ι 0 = 0) {D p₀ : A} (hp : p₀ * p₀ = D) :
    OpsRel (pairOps (ringOps ι) D) (ringOps ι) (fun a r => r = a.1 + a.2 * p₀) where
  add ha hb := by
    subst ha hb; show _ + _ = (_ + _) + (_ + _) * p₀; ring
  sub ha hb := by
    subst ha hb; show _ - _ = (_ - _) + (_ - _) * p₀; ring
  mul {a _ b _} ha hb := by
    subst ha hb
    show (a.1 + a.2 * p₀) * (b.1 + b.2 * p₀) = (a.1 * b.1 + a.2 * b.2 * D) + (a.1 * b.2 + a.2 * b.1) * p₀
    rw [← hp]; ring
  ofNat k := by show ι k = ι k + ι 0 * p₀; rw [h0]; ring

/-- the value of `e` is `u + v·p₀`, `(u, v)` its components in the quadratic algebra -/
theorem eval_eq_pair {ι : Nat → A} (h0 : ι 0 = 0) (h1 : ι 1 = 1) (env : Nat → A) (e De : Ex) (p₀ : A)
    (hp : p₀ * p₀ = eval (ringOps ι) env 0 De) :
    eval (ringOps ι) env p₀ e =
      (evalPair (ringOps ι) env e De).1 + (evalPair (ringOps ι) env e De).2 * p₀ := by
  have hp' : p₀ * p₀ = eval (ringOps ι) env ((ringOps ι).ofNat 0) De := by
    rw [hp]; show _ = eval (ringOps ι) env (ι 0) De; rw [h0]
  refine eval_rel (pair_scalar h0 hp') (fun i => ?_) ?_ e
  · show env i = env i + ι 0 * p₀; rw [h0]; ring
  · show p₀ = ι 0 + ι 1 * p₀; rw [h0, h1]; ring

end ring

/-! ## bivariate polynomials: degrees and vanishing on a grid -/

section poly
variable {K : Type} [Field K]

/-- degree bounds: `none` for the zero polynomial -/
def toWB : Option Nat → WithBot ℕ
  | none => ⊥
  | some a => (a : WithBot ℕ)

def oadd : Option Nat → Option Nat → Option Nat
  | some a, some b => some (a + b)
  | _, _ => none

def omax : Option Nat → Option Nat → Option Nat
  | none, b => b
  | a, none => a
  | some a, some b => some (max a b)

/-- `d < n` (and `0 < n`) -/
def olt : Option Nat → Nat → Bool
  | none, n => decide (0 < n)
  | some a, n => decide (a < n)

theorem toWB_oadd (a b : Option Nat) : toWB (oadd a b) = toWB a + toWB b := by
  cases a <;> cases b <;> simp [toWB, oadd]

theorem toWB_omax (a b : Option Nat) : toWB (omax a b) = max (toWB a) (toWB b) := by
  cases a with
  | none => simp [toWB, omax]
  | some a =>
    cases b with
    | none => simp [toWB, omax]
    | some b => exact WithBot.coe_max a b

theorem natDegree_lt_of_olt {R : Type} [Semiring R] {p : R[X]} {d : Option Nat} {n : Nat} (h : p.degree ≤ toWB d)
    (hlt : olt d n = true) : p.natDegree < n := by
  cases d with
  | none =>
    have : p = 0 := by
      apply degree_eq_bot.mp
      exact le_bot_iff.mp h
    subst this
    simpa [olt] using hlt
  | some a =>
    have h1 : p.natDegree ≤ a := natDegree_le_of_degree_le h
    have h2 : a < n := by simpa [olt] using hlt
    exact lt_of_le_of_lt h1 h2

/-- bounds `(m, n)`: degree `≤ m` in the outer variable `Y`, `≤ n` in the inner variable `X` -/
def DegLe (P : K[X][Y]) (d : Option Nat × Option Nat) : Prop :=
  P.degree ≤ toWB d.1 ∧ ∀ i, (P.coeff i).degree ≤ toWB d.2

def degOps : Ops (Option Nat × Option Nat) where
  add a b := (omax a.1 b.1, omax a.2 b.2)
  sub a b := (omax a.1 b.1, omax a.2 b.2)
  mul a b := (oadd a.1 b.1, oadd a.2 b.2)
  ofNat k := if k = 0 then (none, none) else (some 0, some 0)

theorem degLe_rel (ι : Nat → K) (h0 : ι 0 = 0) :
    OpsRel (ringOps (fun k => (C (C (ι k)) : K[X][Y]))) degOps DegLe where
  add {P d Q d'} hP hQ := by
    refine ⟨?_, fun i => ?_⟩
    · show (P + Q).degree ≤ toWB (omax d.1 d'.1)
      rw [toWB_omax]
      exact (degree_add_le _ _).trans (max_le_max hP.1 hQ.1)
    · show ((P + Q).coeff i).degree ≤ toWB (omax d.2 d'.2)
      rw [coeff_add, toWB_omax]
      exact (degree_add_le _ _).trans (max_le_max (hP.2 i) (hQ.2 i))
  sub {P d Q d'} hP hQ := by
    refine ⟨?_, fun i => ?_⟩
    · show (P - Q).degree ≤ toWB (omax d.1 d'.1)
      rw [toWB_omax]
      exact (degree_sub_le _ _).trans (max_le_max hP.1 hQ.1)
    · show ((P - Q).coeff i).degree ≤ toWB (omax d.2 d'.2)
      rw [coeff_sub, toWB_omax]
      exact (degree_sub_le _ _).trans (max_le_max (hP.2 i) (hQ.2 i))
  mul {P d Q d'} hP hQ := by
    refine ⟨?_, fun i => ?_⟩
    · show (P * Q).degree ≤ toWB (oadd d.1 d'.1)
      rw [toWB_oadd]
      exact (degree_mul_le _ _).trans (add_le_add hP.1 hQ.1)
    · show ((P * Q).coeff i).degree ≤ toWB (oadd d.2 d'.2)
      rw [coeff_mul, toWB_oadd]
      refine (degree_sum_le _ _).trans (Finset.sup_le fun x _ => ?_)
      exact (degree_mul_le _ _).trans (add_le_add (hP.2 _) (hQ.2 _))
  ofNat k := by
    show DegLe (C (C (ι k))) (if k = 0 then (none, none) else (some 0, some 0))
    split
    · next hk =>
      subst hk
      rw [h0]
      exact ⟨by simp [toWB], fun i => by simp [toWB]⟩
    · refine ⟨degree_C_le, fun i => ?_⟩
      rw [coeff_C]
      split
      · exact degree_C_le
      · simp [toWB]

/-- a bivariate polynomial of degree `< |T|` in `Y` and `< |S|` in `X` that vanishes on `S × T` is
    zero -/
theorem eq_zero_of_grid (P : K[X][Y]) (S T : Finset K) (hT : P.natDegree < T.card)
    (hS : ∀ i, (P.coeff i).natDegree < S.card)
    (h : ∀ a ∈ S, ∀ b ∈ T, P.evalEval a b = 0) : P = 0 := by
  have hrow : ∀ a ∈ S, P.map (evalRingHom a) = 0 := by
    intro a ha
    apply eq_zero_of_natDegree_lt_card_of_eval_eq_zero' _ T
    · intro b hb
      rw [map_evalRingHom_eval]
      exact h a ha b hb
    · exact lt_of_le_of_lt natDegree_map_le hT
  ext1 i
  rw [coeff_zero]
  apply eq_zero_of_natDegree_lt_card_of_eval_eq_zero' _ S
  · intro a ha
    have := congrArg (fun Q => Q.coeff i) (hrow a ha)
    simpa [coeff_map] using this
  · exact hS i

end poly

/-! ## `Fq` and its canonical representatives -/

/-- the field, with `k ↦ Zp.ofNat k` -/
def fqOps : Ops Fq := ringOps (fun k => (Zp.ofNat k : Fq))

/-- arithmetic on representatives `< q`, with the kernel's accelerated `Nat` primitives -/
def natOps (q : Nat) : Ops Nat where
  add a b := Nat.mod (Nat.add a b) q
  sub a b := Nat.mod (Nat.add a (Nat.sub q b)) q
  mul a b := Nat.mod (Nat.mul a b) q
  ofNat k := Nat.mod k q

theorem natOps_rel : OpsRel (natOps Gen.q) fqOps (fun n (a : Fq) => a.v = n) where
  add ha hb := by subst ha hb; rfl
  sub ha hb := by subst ha hb; rfl
  mul ha hb := by subst ha hb; rfl
  ofNat _ := rfl

/-- bivariate polynomials over `Fq` -/
noncomputable def polyOps : Ops Fq[X][Y] := ringOps (fun k => C (C (Zp.ofNat k : Fq)))

/-! ### environments: `var 0 = x₁`, `var 1 = x₂`, and shared univariate sub-expressions

`var (2 + 2i)` is `defs[i]` evaluated at `x₁` (its `var 0`), `var (3 + 2i)` is `defs[i]` at `x₂`.  In the
kernel run these depend on one coordinate of the grid point only, so they are computed once per
row / column (the kernel caches the weak head normal form of identical closed terms). -/

section ext
variable {α β : Type}

/-- a univariate `p`-free expression at `x` -/
def evalU (o : Ops α) (x : α) (d : Ex) : α := eval o (fun _ => x) (o.ofNat 0) d

def extEnv (o : Ops α) (x₁ x₂ : α) (defs : List Ex) : Nat → α
  | 0 => x₁
  | 1 => x₂
  | i + 2 =>
    match defs[i / 2]? with
    | some d => if i % 2 = 0 then evalU o x₁ d else evalU o x₂ d
    | none => o.ofNat 0

theorem extEnv_rel {o : Ops α} {o' : Ops β} {R : α → β → Prop} (h : OpsRel o o' R) {x₁ x₂ : α}
    {x₁' x₂' : β} (h₁ : R x₁ x₁') (h₂ : R x₂ x₂') (defs : List Ex) (i : Nat) :
    R (extEnv o x₁ x₂ defs i) (extEnv o' x₁' x₂' defs i) := by
  match i with
  | 0 => exact h₁
  | 1 => exact h₂
  | i + 2 =>
    show R (match defs[i / 2]? with
        | some d => if i % 2 = 0 then evalU o x₁ d else evalU o x₂ d
        | none => o.ofNat 0)
      (match defs[i / 2]? with
        | some d => if i % 2 = 0 then evalU o' x₁' d else evalU o' x₂' d
        | none => o'.ofNat 0)
    cases defs[i / 2]? with
    | none => exact h.ofNat 0
    | some d =>
      dsimp only
      by_cases hi : i % 2 = 0
      · rw [if_pos hi, if_pos hi]
        exact eval_rel h (fun _ => h₁) (h.ofNat 0) d
      · rw [if_neg hi, if_neg hi]
        exact eval_rel h (fun _ => h₂) (h.ofNat 0) d

end ext

noncomputable def envPoly (defs : List Ex) : Nat → Fq[X][Y] := extEnv polyOps (C X) Y defs

def envFq (defs : List Ex) (x₁ x₂ : Fq) : Nat → Fq := extEnv fqOps x₁ x₂ defs

def envNat (defs : List Ex) (a b : Nat) : Nat → Nat :=
  extEnv (natOps Gen.q) (Nat.mod a Gen.q) (Nat.mod b Gen.q) defs

def envDeg (defs : List Ex) : Nat → Option Nat × Option Nat :=
  extEnv degOps (some 0, some 1) (some 1, some 0) defs

theorem polyOps_evalEval (x₁ x₂ : Fq) :
    OpsRel polyOps fqOps (fun P a => evalEvalRingHom x₁ x₂ P = a) :=
  ringOps_hom (evalEvalRingHom x₁ x₂) (fun k => by simp)

theorem envPoly_evalEval (defs : List Ex) (x₁ x₂ : Fq) (i : Nat) :
    evalEvalRingHom x₁ x₂ (envPoly defs i) = envFq defs x₁ x₂ i :=
  extEnv_rel (polyOps_evalEval x₁ x₂) (by simp) (by simp) defs i

theorem envPoly_deg (defs : List Ex) (i : Nat) : DegLe (envPoly defs i) (envDeg defs i) := by
  refine extEnv_rel (degLe_rel (fun k => (Zp.ofNat k : Fq)) rfl) ?_ ?_ defs i
  · refine ⟨degree_C_le, fun j => ?_⟩
    show ((C X : Fq[X][Y]).coeff j).degree ≤ ((1 : ℕ) : WithBot ℕ)
    rw [coeff_C]
    split
    · exact degree_X_le
    · simp
  · refine ⟨degree_X_le, fun j => ?_⟩
    show ((X : Fq[X][Y]).coeff j).degree ≤ ((0 : ℕ) : WithBot ℕ)
    rw [coeff_X]
    split
    · exact degree_one_le
    · simp

theorem envNat_fq (defs : List Ex) (a b : Nat) (i : Nat) :
    (envFq defs (Zp.ofNat a) (Zp.ofNat b) i).v = envNat defs a b i :=
  extEnv_rel natOps_rel rfl rfl defs i

/-- the grid check that the kernel runs -/
def gridCheck (defs : List Ex) (e De : Ex) (S T : List Nat) : Bool :=
  S.all fun a => T.all fun b =>
    Nat.beq (evalPair (natOps Gen.q) (envNat defs a b) e De).1 0 &&
      Nat.beq (evalPair (natOps Gen.q) (envNat defs a b) e De).2 0

/-- grid abscissae `0, 1, …, n − 1` -/
def gridPts (n : Nat) : List Nat := List.range n

theorem gridCheck_append (defs : List Ex) (e De : Ex) (S₁ S₂ T : List Nat) :
    gridCheck defs e De (S₁ ++ S₂) T = (gridCheck defs e De S₁ T && gridCheck defs e De S₂ T) := by
  unfold gridCheck; rw [List.all_append]

/-- the rows `a, a+1, …, a+n−1` of the grid -/
def rowsCheck (defs : List Ex) (e De : Ex) (a n t : Nat) : Bool :=
  gridCheck defs e De (List.range' a n) (gridPts t)

theorem rowsCheck_add (defs : List Ex) (e De : Ex) (a n m t : Nat)
    (h₁ : rowsCheck defs e De a n t = true) (h₂ : rowsCheck defs e De (a + n) m t = true) :
    rowsCheck defs e De a (n + m) t = true := by
  unfold rowsCheck at *
  rw [← List.range'_append_1, gridCheck_append, h₁, h₂]; rfl

theorem gridCheck_of_rows (defs : List Ex) (e De : Ex) (s t : Nat)
    (h : rowsCheck defs e De 0 s t = true) : gridCheck defs e De (gridPts s) (gridPts t) = true := by
  unfold rowsCheck at h
  unfold gridPts
  rwa [List.range_eq_range']

/-- the degree check -/
def degCheck (defs : List Ex) (e De : Ex) (s t : Nat) : Bool :=
  let d := evalPair degOps (envDeg defs) e De
  olt d.1.1 t && olt d.2.1 t && olt d.1.2 s && olt d.2.2 s

theorem ofNat_injOn_lt {a b : Nat} (ha : a < Gen.q) (hb : b < Gen.q)
    (h : (Zp.ofNat a : Fq) = Zp.ofNat b) : a = b := by
  have := congrArg Zp.v h
  rwa [Zp.ofNat_v, Zp.ofNat_v, Nat.mod_eq_of_lt ha, Nat.mod_eq_of_lt hb] at this

/-- the image of the grid in `Fq` -/
def gridFin (n : Nat) : Finset Fq := (Finset.range n).image (fun k => (Zp.ofNat k : Fq))

theorem gridFin_card {n : Nat} (hn : n ≤ Gen.q) : (gridFin n).card = n := by
  unfold gridFin
  rw [Finset.card_image_of_injOn, Finset.card_range]
  intro a ha b hb h
  exact ofNat_injOn_lt (lt_of_lt_of_le (Finset.mem_range.mp ha) hn)
    (lt_of_lt_of_le (Finset.mem_range.mp hb) hn) h

/-- **identities by evaluation on a grid** -/
theorem master (defs : List Ex) (e De : Ex) (s t : Nat) (hs : s ≤ Gen.q) (ht : t ≤ Gen.q)
    (hdeg : degCheck defs e De s t = true)
    (hgrid : gridCheck defs e De (gridPts s) (gridPts t) = true)
    (x₁ x₂ p₀ : Fq) (hp : p₀ * p₀ = eval fqOps (envFq defs x₁ x₂) 0 De) :
    eval fqOps (envFq defs x₁ x₂) p₀ e = 0 := by
  -- the two polynomial components
  obtain ⟨hd1, hd2⟩ := evalPair_rel (degLe_rel (fun k => (Zp.ofNat k : Fq)) rfl) (envPoly_deg defs) e De
  unfold degCheck at hdeg
  simp only [Bool.and_eq_true] at hdeg
  obtain ⟨⟨⟨ht1, ht2⟩, hs1⟩, hs2⟩ := hdeg
  -- vanishing on the grid
  have hvan : ∀ a ∈ gridFin s, ∀ b ∈ gridFin t,
      (evalPair polyOps (envPoly defs) e De).1.evalEval a b = 0 ∧
      (evalPair polyOps (envPoly defs) e De).2.evalEval a b = 0 := by
    intro a ha b hb
    obtain ⟨i, hi, rfl⟩ := Finset.mem_image.mp ha
    obtain ⟨j, hj, rfl⟩ := Finset.mem_image.mp hb
    have hi' : i ∈ gridPts s := List.mem_range.mpr (Finset.mem_range.mp hi)
    have hj' : j ∈ gridPts t := List.mem_range.mpr (Finset.mem_range.mp hj)
    have hg := List.all_eq_true.mp (List.all_eq_true.mp hgrid i hi') j hj'
    rw [Bool.and_eq_true] at hg
    have hg1 := Nat.eq_of_beq_eq_true hg.1
    have hg2 := Nat.eq_of_beq_eq_true hg.2
    obtain ⟨r1, r2⟩ := evalPair_rel natOps_rel (envNat_fq defs i j) e De
    obtain ⟨q1, q2⟩ := evalPair_rel (polyOps_evalEval (Zp.ofNat i) (Zp.ofNat j))
      (envPoly_evalEval defs (Zp.ofNat i) (Zp.ofNat j)) e De
    rw [coe_evalEvalRingHom] at q1 q2
    refine ⟨?_, ?_⟩
    · rw [q1, Zp.eq_zero_iff, r1, hg1]
    · rw [q2, Zp.eq_zero_iff, r2, hg2]
  have cs := gridFin_card hs
  have ct := gridFin_card ht
  have z1 : (evalPair polyOps (envPoly defs) e De).1 = 0 :=
    eq_zero_of_grid _ (gridFin s) (gridFin t) (by rw [ct]; exact natDegree_lt_of_olt hd1.1 ht1)
      (fun i => by rw [cs]; exact natDegree_lt_of_olt (hd1.2 i) hs1)
      (fun a ha b hb => (hvan a ha b hb).1)
  have z2 : (evalPair polyOps (envPoly defs) e De).2 = 0 :=
    eq_zero_of_grid _ (gridFin s) (gridFin t) (by rw [ct]; exact natDegree_lt_of_olt hd2.1 ht2)
      (fun i => by rw [cs]; exact natDegree_lt_of_olt (hd2.2 i) hs2)
      (fun a ha b hb => (hvan a ha b hb).2)
  -- specialise at `(x₁, x₂)`
  obtain ⟨q1, q2⟩ := evalPair_rel (polyOps_evalEval x₁ x₂) (envPoly_evalEval defs x₁ x₂) e De
  rw [z1, map_zero] at q1
  rw [z2, map_zero] at q2
  have h0 : (Zp.ofNat 0 : Fq) = 0 := rfl
  have h1 : (Zp.ofNat 1 : Fq) = 1 := rfl
  have := eval_eq_pair (ι := fun k => (Zp.ofNat k : Fq)) h0 h1 (envFq defs x₁ x₂) e De p₀ hp
  show eval (ringOps _) _ _ _ = 0
  rw [this]
  show (evalPair fqOps _ _ _).1 + (evalPair fqOps _ _ _).2 * p₀ = 0
  rw [← q1, ← q2]; ring

/-! ## the meaning of `pol`, `hev`, `pow` in `Fq` -/

open IsoPoly

theorem powG_fq (x : Fq) (k : Nat) : powG fqOps x k = x ^ k := by
  induction k with
  | zero => show (Zp.ofNat 1 : Fq) = _; rw [pow_zero]; rfl
  | succ k ih => show x * powG fqOps x k = _; rw [ih, pow_succ]; ring

theorem polG_fq (x : Fq) (cs : List Nat) : polG fqOps x cs = evalP (cs.map Zp.ofNat) x := by
  induction cs with
  | nil => rfl
  | cons c cs ih =>
    show Zp.ofNat c + x * polG fqOps x cs = _
    rw [ih]; rfl

theorem hevAux_fq (n d : Fq) (cs : List Nat) :
    hevAux fqOps n d cs = (hEval (cs.map Zp.ofNat) n d, d ^ cs.length) := by
  induction cs with
  | nil => show ((Zp.ofNat 0 : Fq), (Zp.ofNat 1 : Fq)) = _; simp; exact ⟨rfl, rfl⟩
  | cons c cs ih =>
    show (Zp.ofNat c * (hevAux fqOps n d cs).2 + n * (hevAux fqOps n d cs).1,
      (hevAux fqOps n d cs).2 * d) = _
    rw [ih]
    simp only [List.map_cons, hEval_cons, List.length_map, List.length_cons, pow_succ]

end IsoHom11
end PP
