/-
ASSEMBLY.  The proof layers of this development were written in parallel, relative to interfaces
(`GroupModel`, `LawfulSqrtOps`) or to explicit hypotheses (`Fq2Sqrt.FieldHyp`, `Iso.Fq2FieldAgrees`,
the `hchain1 / hchain2 / hcard` hypotheses of C15).  This file discharges those hypotheses with the
instances that now exist, and proves the glue lemmas used by the composition properties C14
(`PP/Props/C14.lean`) and C06 (`PP/Props/C06.lean`):

* (`PP/Proofs/AssemblyFq2.lean`: `fq2FieldHyp`, `instLawfulSqrtOpsFq2`, `g2_no_two_torsion`;)
* `fq2FieldAgrees`, `hchain1`, `hchain2`, `hcard`;
* `Jac.abs_scale`: rescaling a Jacobian triple does not change the point it denotes;
* `sswu_neg`: the RFC relation `IsSswu` at `u` and at `−u` (`u ≠ 0`) gives opposite points;
* G1: `sswuG1_onE'`, `isoSswuG1_onCurve` (the image `iso11 (osswuG1 u)` is a point of `E`),
  `isoSswuG1_neg`;  G2: `sswuG2_ex`, `isoSswuG2_onCurve`, `isoSswuG2_neg`;
* `isoMapPoint`: the RFC's `iso_map` as a function from affine coordinates on `E'` to `E(F)`
  (denominator zero ↦ identity), and `abs_iso11_eq` / `abs_iso3_eq`: the model's `iso11` / `iso3`
  compute it.

What stays a hypothesis everywhere downstream: the order/exponent of the curve groups (`hexp`,
`hord` of C17) and — not needed for C14/C06 as stated — the homomorphism law of the isogenies.
-/
import PP.Proofs.AssemblyFq2
import PP.Proofs.Tower
import PP.Proofs.GroupModelInst
import PP.Props.C15
import PP.Props.C16
import PP.Props.C17
import PP.Props.C18

set_option linter.unusedSectionVars false

namespace PP

open WeierstrassCurve.Affine

/-! ## instances and hypothesis witnesses -/

/-- the tower's field structure on `Fq2` is built on the model's operations -/
theorem fq2FieldAgrees : Iso.Fq2FieldAgrees Fq2.instField := ⟨rfl, rfl, rfl, rfl, rfl⟩

/-- C15's `hchain1` -/
theorem hchain1 : ∀ a : Fq, chainPm3div4 a = a ^ ((Gen.q - 3) / 4) := Chains.chainPm3div4_eq
/-- C15's `hchain2` -/
theorem hchain2 : ∀ a : Fq2, chainP2m9div16 a = a ^ ((Gen.q ^ 2 - 9) / 16) :=
  fun a => Chains.chainP2m9div16_generic a
/-- C15's `hcard` -/
theorem hcard : ∀ x : Fq2, x ≠ 0 → x ^ (Gen.q ^ 2 - 1) = 1 := Fq2.pow_card_sub_one'

/-! ## generic glue -/

section generic
variable {F : Type} [Field F] [DecidableEq F] [FieldOps F] [LawfulFieldOps F]

/-- `(μ²X, μ³Y, μZ)` denotes the same point as `(X, Y, Z)` -/
theorem Jac.abs_scale {b : F} [ShortW b] {Q : Jac F} (hQ : Jac.OnCurve b Q) {μ : F} (hμ : μ ≠ 0) :
    Jac.OnCurve b ⟨μ ^ 2 * Q.x, μ ^ 3 * Q.y, μ * Q.z⟩ ∧
      Jac.abs b ⟨μ ^ 2 * Q.x, μ ^ 3 * Q.y, μ * Q.z⟩ = Jac.abs b Q := by
  have hoc : Jac.OnCurve b ⟨μ ^ 2 * Q.x, μ ^ 3 * Q.y, μ * Q.z⟩ := by
    rcases hQ with h | h
    · left; show μ * Q.z = 0; rw [h, mul_zero]
    · right; show (μ ^ 3 * Q.y) ^ 2 = (μ ^ 2 * Q.x) ^ 3 + b * (μ * Q.z) ^ 6
      linear_combination μ ^ 6 * h
  refine ⟨hoc, (Jac.abs_eq_abs_iff hoc hQ).mpr ?_⟩
  by_cases hz : Q.z = 0
  · left; exact ⟨by show μ * Q.z = 0; rw [hz, mul_zero], hz⟩
  · right
    refine ⟨mul_ne_zero hμ hz, hz, ?_, ?_⟩
    · show μ ^ 2 * Q.x * Q.z ^ 2 = Q.x * (μ * Q.z) ^ 2; ring
    · show μ ^ 3 * Q.y * Q.z ^ 3 = Q.y * (μ * Q.z) ^ 3; ring

theorem Jac.neg_of_z_ne {P : Jac F} (hz : P.z ≠ 0) : P.neg = ⟨P.x, -P.y, P.z⟩ := by
  simp [Jac.neg, Jac.isZero, LawfulFieldOps.isZero_iff, hz]

/-- a finite triple `P'` with the affine abscissa of `P` and the opposite ordinate is a rescaling of
    `P.neg` -/
theorem Jac.eq_scale_neg {P P' : Jac F} (hz : P.z ≠ 0) (hz' : P'.z ≠ 0)
    (hx : P'.x / P'.z ^ 2 = P.x / P.z ^ 2) (hy : P'.y / P'.z ^ 3 = -(P.y / P.z ^ 3)) :
    P' = ⟨(P'.z / P.z) ^ 2 * P.neg.x, (P'.z / P.z) ^ 3 * P.neg.y, (P'.z / P.z) * P.neg.z⟩ := by
  rw [Jac.neg_of_z_ne hz]
  rw [div_eq_iff (pow_ne_zero _ hz')] at hx hy
  cases P' with
  | mk x' y' z' =>
    simp only at hx hy hz' ⊢
    congr 1
    · rw [hx]; field_simp
    · rw [hy]; field_simp
    · field_simp

open PP.Spec in
/-- `map_to_curve_simple_swu(−u)` is the opposite of `map_to_curve_simple_swu(u)` (for `u ≠ 0`, a
    sign function that flips under negation, and a curve without 2-torsion): same `x` (it depends
    on `u²` only), and `y` is determined by its sign. -/
theorem sswu_neg {S : Type} (sgn0 : F → S) (hflip : ∀ y : F, y ≠ 0 → sgn0 (-y) ≠ sgn0 y)
    {A B Z u x y x' y' : F} (hu : u ≠ 0)
    (h : IsSswu sgn0 A B Z u x y) (h' : IsSswu sgn0 A B Z (-u) x' y') :
    x' = x ∧ y' = -y := by
  have hX1 : sswuX1 A B Z (-u) = sswuX1 A B Z u := by
    unfold sswuX1 sswuTv1
    rw [show (-u) ^ 4 = u ^ 4 by ring, show (-u) ^ 2 = u ^ 2 by ring]
  have hX2 : sswuX2 A B Z (-u) = sswuX2 A B Z u := by
    unfold sswuX2
    rw [hX1, show (-u) ^ 2 = u ^ 2 by ring]
  obtain ⟨h1, h2, h3, h4⟩ := h
  obtain ⟨h1', h2', h3', h4'⟩ := h'
  rw [hX1] at h1' h2'
  rw [hX2] at h2'
  have hx : x' = x := by
    by_cases hs : IsSquare (sswuG A B (sswuX1 A B Z u))
    · rw [h1 hs, h1' hs]
    · rw [h2 hs, h2' hs]
  refine ⟨hx, ?_⟩
  rw [hx, ← h3] at h3'
  rcases sq_eq_sq_iff_eq_or_eq_neg.mp h3' with e | e
  · exfalso
    rw [e, h4] at h4'
    exact hflip u hu h4'.symm
  · exact e

open PP.Spec in
/-- the relation `IsSswu` is functional: on a curve without 2-torsion the RFC's
    `map_to_curve_simple_swu(u)` is a single point -/
theorem sswu_unique {S : Type} (sgn0 : F → S) (hflip : ∀ y : F, y ≠ 0 → sgn0 (-y) ≠ sgn0 y)
    {A B Z u x y x' y' : F} (hroot : ∀ x : F, sswuG A B x ≠ 0)
    (h : IsSswu sgn0 A B Z u x y) (h' : IsSswu sgn0 A B Z u x' y') :
    x = x' ∧ y = y' := by
  obtain ⟨h1, h2, h3, h4⟩ := h
  obtain ⟨h1', h2', h3', h4'⟩ := h'
  have hx : x = x' := by
    by_cases hs : IsSquare (sswuG A B (sswuX1 A B Z u))
    · rw [h1 hs, h1' hs]
    · rw [h2 hs, h2' hs]
  refine ⟨hx, ?_⟩
  rw [← hx, ← h3] at h3'
  rcases sq_eq_sq_iff_eq_or_eq_neg.mp h3' with e | e
  · exact e.symm
  · exfalso
    have hy : y ≠ 0 := by
      rintro rfl
      exact hroot x (by rw [← h3]; ring)
    rw [e] at h4'
    exact hflip y hy (h4'.trans h4.symm)

end generic

/-! ## the RFC's `iso_map`, as a map from affine coordinates to the group of points -/

open Classical in
/-- RFC 9380 appendix E: `(x, y) ↦ (XN(x)/XD(x), y·YN(x)/YD(x))`, the identity when a denominator
    vanishes (and, to make the function total, when the image is not a point of `E_b`, which does not
    happen for `(x, y)` on the isogenous curve, see `isoMapPoint_of_onCurve`) -/
noncomputable def isoMapPoint {F : Type} [Field F] (b : F) (xn xd yn yd : List F) (x y : F) :
    (W b).Point :=
  if h : IsoPoly.evalP xd x ≠ 0 ∧ IsoPoly.evalP yd x ≠ 0 ∧
      (W b).Nonsingular (IsoPoly.evalP xn x / IsoPoly.evalP xd x)
        (y * IsoPoly.evalP yn x / IsoPoly.evalP yd x)
  then Point.some _ _ h.2.2 else 0

section isoabs
variable {F : Type} [Field F] [DecidableEq F] [FieldOps F] [LawfulFieldOps F]

/-- packaging of `iso_affine` + `iso_z_eq_zero_iff` at the level of denoted points: if a map
    `iso : Jac F → Jac F` sends points of `E'` to `E_b`, poles to `z = 0` and finite non-poles to the
    rational-map image, then `Jac.abs b (iso p) = isoMapPoint … (x, y)` -/
theorem abs_eq_isoMapPoint {b : F} [ShortW b] (xn xd yn yd : List F) (p r : Jac F)
    (hr : Jac.OnCurve b r)
    (hpole : r.z = 0 ↔ p.z = 0 ∨ IsoPoly.evalP xd (p.x / p.z ^ 2) = 0 ∨
      IsoPoly.evalP yd (p.x / p.z ^ 2) = 0)
    (hz : p.z ≠ 0)
    (haff : IsoPoly.evalP xd (p.x / p.z ^ 2) ≠ 0 → IsoPoly.evalP yd (p.x / p.z ^ 2) ≠ 0 →
      r.x / r.z ^ 2 = IsoPoly.evalP xn (p.x / p.z ^ 2) / IsoPoly.evalP xd (p.x / p.z ^ 2) ∧
      r.y / r.z ^ 3 = (p.y / p.z ^ 3) * IsoPoly.evalP yn (p.x / p.z ^ 2)
        / IsoPoly.evalP yd (p.x / p.z ^ 2)) :
    Jac.abs b r = isoMapPoint b xn xd yn yd (p.x / p.z ^ 2) (p.y / p.z ^ 3) := by
  unfold isoMapPoint
  by_cases hd : IsoPoly.evalP xd (p.x / p.z ^ 2) ≠ 0 ∧ IsoPoly.evalP yd (p.x / p.z ^ 2) ≠ 0
  · have hrz : r.z ≠ 0 := by
      intro h0
      rcases hpole.mp h0 with h | h | h
      · exact hz h
      · exact hd.1 h
      · exact hd.2 h
    obtain ⟨ex, ey⟩ := haff hd.1 hd.2
    have hns : (W b).Nonsingular (r.x / r.z ^ 2) (r.y / r.z ^ 3) :=
      W_nonsingular b (Jac.affine_eq_of_onCurve hr hrz)
    have hns' := hns
    rw [ex, ey] at hns'
    rw [dif_pos ⟨hd.1, hd.2, hns'⟩, Jac.abs_of_z_ne_zero hr hrz, Point.some_eq_some]
    exact ⟨ex, ey⟩
  · have hrz : r.z = 0 := by
      apply hpole.mpr
      right
      by_contra hc
      exact hd ⟨fun h => hc (Or.inl h), fun h => hc (Or.inr h)⟩
    rw [dif_neg (fun h => hd ⟨h.1, h.2.1⟩), Jac.abs_of_z_eq_zero hrz]

end isoabs

/-! ## G1 -/

section G1

local notation "b₁" => g1Codec.b

/-- C15: the SSWU image is a finite point of `E₁'` -/
theorem sswuG1_onE' (u : Fq) :
    (osswuG1 u).z ≠ 0 ∧
      (osswuG1 u).y ^ 2 = (osswuG1 u).x ^ 3 + g1EllpA * (osswuG1 u).x * (osswuG1 u).z ^ 4
        + g1EllpB * (osswuG1 u).z ^ 6 := C15.osswuG1_onCurve hchain1 u

/-- C15 + C16: `iso11 (osswuG1 u)` is a point of the target curve `E₁ : y² = x³ + 4` -/
theorem isoSswuG1_onCurve (u : Fq) : Jac.OnCurve b₁ (iso11 (osswuG1 u)) :=
  Or.inr (C16.iso11_onCurve _ (Or.inr (sswuG1_onE' u).2))

/-- `iso11` of any point of `E₁'` is a point of `E₁` -/
theorem iso11_onCurve' (p : Jac Fq)
    (hp : p.z = 0 ∨ p.y ^ 2 = p.x ^ 3 + g1EllpA * p.x * p.z ^ 4 + g1EllpB * p.z ^ 6) :
    Jac.OnCurve b₁ (iso11 p) := Or.inr (C16.iso11_onCurve p hp)

/-- `iso11` computes the RFC's `iso_map` (at the level of denoted points) on finite points of `E₁'` -/
theorem abs_iso11_eq (p : Jac Fq) (hz : p.z ≠ 0)
    (hp : p.y ^ 2 = p.x ^ 3 + g1EllpA * p.x * p.z ^ 4 + g1EllpB * p.z ^ 6) :
    Jac.abs b₁ (iso11 p) =
      isoMapPoint b₁ Iso.iso11XNum Iso.iso11XDen Iso.iso11YNum Iso.iso11YDen
        (p.x / p.z ^ 2) (p.y / p.z ^ 3) := by
  refine abs_eq_isoMapPoint _ _ _ _ p (iso11 p) (iso11_onCurve' p (Or.inr hp)) ?_ hz ?_
  · have := C16.iso11_isZero_iff p
    rwa [Iso.jac_isZero_iff, Iso.jac_isZero_iff] at this
  · intro hxd hyd
    exact (C16.iso11_affine p hz hxd hyd).2

/-- `osswuG1 (−u)` and `osswuG1 u` are opposite points of `E₁'` (affine coordinates) -/
theorem sswuG1_neg_affine (u : Fq) (hu : u ≠ 0) :
    Sswu.affX (osswuG1 (-u)) = Sswu.affX (osswuG1 u) ∧
      Sswu.affY (osswuG1 (-u)) = -Sswu.affY (osswuG1 u) :=
  sswu_neg Zp.sgn0 Sswu.Fq.sgn0_neg hu (C15.osswuG1_eq_rfc hchain1 u)
    (C15.osswuG1_eq_rfc hchain1 (-u))

/-- … hence so are their images under the isogeny, as points of `E₁` -/
theorem isoSswuG1_neg (u : Fq) (hu : u ≠ 0) :
    Jac.abs b₁ (iso11 (osswuG1 (-u))) = -Jac.abs b₁ (iso11 (osswuG1 u)) := by
  obtain ⟨hz, hc⟩ := sswuG1_onE' u
  obtain ⟨hz', _⟩ := sswuG1_onE' (-u)
  obtain ⟨hx, hy⟩ := sswuG1_neg_affine u hu
  have hl : (osswuG1 (-u)).z / (osswuG1 u).z ≠ 0 := div_ne_zero hz' hz
  have hQ : Jac.OnCurve b₁ (iso11 (osswuG1 u).neg) := by
    rw [C16.iso11_neg]; exact C01.neg_onCurve (isoSswuG1_onCurve u)
  rw [Jac.eq_scale_neg hz hz' hx hy, C16.iso11_homogeneous,
    (Jac.abs_scale hQ (pow_ne_zero 55 hl)).2, C16.iso11_neg, C01.neg_correct (isoSswuG1_onCurve u)]

/-- C17 at G1, in terms of `Jac.OnCurve` / `Jac.abs` -/
theorem g1_clearH (P : Jac Fq) (hP : Jac.OnCurve b₁ P) :
    Jac.OnCurve b₁ (clearHG1 P) ∧ Jac.abs b₁ (clearHG1 P) = C17.hEffG1 • Jac.abs b₁ P :=
  C17.clearH_G1 g1Model P hP

/-- C17 subgroup clause at G1 (hypothesis `hexp`) -/
theorem g1_clearH_killed (hexp : ∀ g : (W b₁).Point, (0xd201000000010001 * Gen.r) • g = 0)
    (P : Jac Fq) (hP : Jac.OnCurve b₁ P) : Gen.r • Jac.abs b₁ (clearHG1 P) = 0 :=
  C17.clearH_G1_in_subgroup_of g1Model hexp P hP

theorem mapToCurveG1_eq (u : Fq) : mapToCurveG1 u = clearHG1 (iso11 (osswuG1 u)) := by
  unfold mapToCurveG1; rfl

theorem map2ToCurveG1_eq (u0 u1 : Fq) :
    map2ToCurveG1 u0 u1 = clearHG1 ((iso11 (osswuG1 u0)).add (iso11 (osswuG1 u1))) := by
  unfold map2ToCurveG1; rfl

end G1

/-! ## G2 -/

section G2

local notation "b₂" => g2Codec.b

/-- C15: `osswuG2` never panics and returns a finite point of `E₂'` -/
theorem sswuG2_ex (u : Fq2) :
    ∃ P, osswuG2 u = some P ∧ P.z ≠ 0 ∧
      P.y ^ 2 = P.x ^ 3 + g2EllpA * P.x * P.z ^ 4 + g2EllpB * P.z ^ 6 :=
  C15.osswuG2_onCurve hcard hchain2 u

/-- `iso3` of any point of `E₂'` is a point of `E₂ : y² = x³ + 4(1+u)` -/
theorem iso3_onCurve' (p : Jac Fq2)
    (hp : p.z = 0 ∨ p.y ^ 2 = p.x ^ 3 + g2EllpA * p.x * p.z ^ 4 + g2EllpB * p.z ^ 6) :
    Jac.OnCurve b₂ (iso3 p) := Or.inr (C16.iso3_onCurve fq2FieldAgrees p hp)

/-- `iso3` computes the RFC's `iso_map` on finite points of `E₂'` -/
theorem abs_iso3_eq (p : Jac Fq2) (hz : p.z ≠ 0)
    (hp : p.y ^ 2 = p.x ^ 3 + g2EllpA * p.x * p.z ^ 4 + g2EllpB * p.z ^ 6) :
    Jac.abs b₂ (iso3 p) =
      isoMapPoint b₂ Iso.iso3XNum Iso.iso3XDen Iso.iso3YNum Iso.iso3YDen
        (p.x / p.z ^ 2) (p.y / p.z ^ 3) := by
  refine abs_eq_isoMapPoint _ _ _ _ p (iso3 p) (iso3_onCurve' p (Or.inr hp)) ?_ hz ?_
  · have := C16.iso3_isZero_iff fq2FieldAgrees p
    rwa [Iso.jac_isZero_iff, Iso.jac_isZero_iff] at this
  · intro hxd hyd
    exact (C16.iso3_affine fq2FieldAgrees p hz hxd hyd).2

/-- the SSWU images of `u` and `−u` have opposite images under the isogeny, as points of `E₂` -/
theorem isoSswuG2_neg (u : Fq2) (hu : u ≠ 0) {P P' : Jac Fq2} (hP : osswuG2 u = some P)
    (hP' : osswuG2 (-u) = some P') :
    Jac.abs b₂ (iso3 P') = -Jac.abs b₂ (iso3 P) := by
  obtain ⟨Q, hQ, hz, hc⟩ := sswuG2_ex u
  obtain ⟨Q', hQ', hz', _⟩ := sswuG2_ex (-u)
  obtain ⟨R, hR, hrfc⟩ := C15.osswuG2_eq_rfc hcard hchain2 u
  obtain ⟨R', hR', hrfc'⟩ := C15.osswuG2_eq_rfc hcard hchain2 (-u)
  obtain rfl : Q = P := Option.some.inj (hQ.symm.trans hP)
  obtain rfl : R = Q := Option.some.inj (hR.symm.trans hP)
  obtain rfl : Q' = P' := Option.some.inj (hQ'.symm.trans hP')
  obtain rfl : R' = Q' := Option.some.inj (hR'.symm.trans hP')
  obtain ⟨hx, hy⟩ := sswu_neg Fq2.sgn0 Sswu.Fq2.sgn0_neg hu hrfc hrfc'
  have hl : R'.z / R.z ≠ 0 := div_ne_zero hz' hz
  have hon : Jac.OnCurve b₂ (iso3 R) := iso3_onCurve' R (Or.inr hc)
  have hQn : Jac.OnCurve b₂ (iso3 R.neg) := by
    rw [C16.iso3_neg fq2FieldAgrees]; exact C01.neg_onCurve hon
  rw [Jac.eq_scale_neg hz hz' hx hy, C16.iso3_homogeneous fq2FieldAgrees,
    (Jac.abs_scale hQn (pow_ne_zero 15 hl)).2, C16.iso3_neg fq2FieldAgrees, C01.neg_correct hon]

/-- C17 at G2, in terms of `Jac.OnCurve` / `Jac.abs` -/
theorem g2_clearH (P : Jac Fq2) (hP : Jac.OnCurve b₂ P) :
    Jac.OnCurve b₂ (clearHG2 P) ∧ Jac.abs b₂ (clearHG2 P) = C17.hEffG2 • Jac.abs b₂ P :=
  C17.clearH_G2 g2Model P hP

/-- C17 subgroup clause at G2 (hypothesis `hord`) -/
theorem g2_clearH_killed (hord : ∀ g : (W b₂).Point, (Gen.G2_COFACTOR * Gen.r) • g = 0)
    (P : Jac Fq2) (hP : Jac.OnCurve b₂ P) : Gen.r • Jac.abs b₂ (clearHG2 P) = 0 :=
  C17.clearH_G2_in_subgroup g2Model hord P hP

theorem mapToCurveG2_eq {u : Fq2} {P : Jac Fq2} (hP : osswuG2 u = some P) :
    mapToCurveG2 u = some (clearHG2 (iso3 P)) := by
  unfold mapToCurveG2; rw [hP]; rfl

theorem map2ToCurveG2_eq {u0 u1 : Fq2} {P0 P1 : Jac Fq2} (hP0 : osswuG2 u0 = some P0)
    (hP1 : osswuG2 u1 = some P1) :
    map2ToCurveG2 u0 u1 = some (clearHG2 ((iso3 P0).add (iso3 P1))) := by
  unfold map2ToCurveG2; rw [hP0, hP1]; rfl

end G2

end PP
