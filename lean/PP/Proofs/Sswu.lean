/-
C15, layer 1: the algebra of the optimized simplified SWU map (`osswuHelp` of `PP.Model.Map`,
eprint 2019/403 §4) over an arbitrary field, and its relation to `map_to_curve_simple_swu` of
RFC 9380 §6.6.2 (`PP.Spec.Sswu`).

Notation: `ξ` is the RFC's `Z`, `A B` are the coefficients of the isogenous curve
`y² = g(x) = x³ + A x + B`, `u` is the input, `nd = ξ²u⁴ + ξu²`.  The model's `x0` is the RFC's
`x1`, the model's `x1 = ξu²·x0` is the RFC's `x2`.
-/
import Mathlib.Tactic.Ring
import Mathlib.Tactic.FieldSimp
import Mathlib.Tactic.LinearCombination
import PP.Proofs.Lawful
import PP.Model.Map
import PP.Spec.Sswu

set_option linter.unusedSectionVars false
set_option linter.unusedVariables false

namespace PP
namespace Sswu

open PP.Spec

variable {F : Type} [Field F] [DecidableEq F] [FieldOps F] [LawfulFieldOps F]

/-! ### `osswuHelp` in closed form -/

/-- `nd = ξ²u⁴ + ξu²` -/
def nd (ξ u : F) : F := ξ ^ 2 * u ^ 4 + ξ * u ^ 2

/-- `x0_den`: `−A·nd`, or `A·ξ` in the exceptional case `nd = 0` -/
def x0den (ξ A u : F) : F := if nd ξ u = 0 then A * ξ else -(A * nd ξ u)

/-- `x0_num = B·(nd + 1)` -/
def x0num (ξ B u : F) : F := (nd ξ u + 1) * B

/-- `gx0_num = x0_num³ + A·x0_num·x0_den² + B·x0_den³` -/
def gx0num (ξ A B u : F) : F :=
  x0den ξ A u ^ 3 * B + x0den ξ A u ^ 2 * x0num ξ B u * A + x0num ξ B u ^ 3

/-- the model's `x0 = x0_num / x0_den` -/
def x0 (ξ A B u : F) : F := x0num ξ B u / x0den ξ A u

/-- the record computed by `osswu_help` -/
theorem help_eq (u ξ A B : F) :
    osswuHelp u ξ A B = ⟨u ^ 2, ξ * u ^ 2, ξ ^ 2 * u ^ 4, x0num ξ B u, x0den ξ A u,
      gx0num ξ A B u, x0den ξ A u ^ 3⟩ := by
  have hnd : u * u * ξ * (u * u * ξ) + u * u * ξ = nd ξ u := by unfold nd; ring
  simp only [osswuHelp, LawfulFieldOps.sq_eq, LawfulFieldOps.isZero_iff, hnd]
  rw [← x0den, ← x0num]
  congr 1 <;> (try unfold gx0num) <;> ring

/-- the identity behind the simplified SWU map, in the variable `s = ξu²` -/
theorem sswu_key (A B s : F) (hA : A ≠ 0) (hn : s ^ 2 + s ≠ 0) :
    sswuG A B (s * (-B / A * (1 + 1 / (s ^ 2 + s)))) =
      s ^ 3 * sswuG A B (-B / A * (1 + 1 / (s ^ 2 + s))) := by
  have e : s ^ 2 + s = s * (s + 1) := by ring
  rw [e] at hn ⊢
  have hs : s ≠ 0 := left_ne_zero_of_mul hn
  have hs1 : s + 1 ≠ 0 := right_ne_zero_of_mul hn
  unfold sswuG
  field_simp
  ring

section
variable {ξ A B : F} (hA : A ≠ 0) (hB : B ≠ 0) (hξ : ξ ≠ 0) (u : F)
include hA hξ

/-- `x0_den ≠ 0` for every input -/
theorem x0den_ne_zero : x0den ξ A u ≠ 0 := by
  unfold x0den
  split
  · exact mul_ne_zero hA hξ
  · next h => exact neg_ne_zero.mpr (mul_ne_zero hA h)

/-- non-exceptional inputs: `x0 = (−B/A)(1 + 1/nd)` -/
theorem x0_of_nd_ne (B : F) (h : nd ξ u ≠ 0) :
    x0 ξ A B u = (-B / A) * (1 + 1 / nd ξ u) := by
  unfold x0 x0num x0den
  rw [if_neg h]
  field_simp

/-- exceptional inputs (`nd = 0`, in particular `u = 0`): `x0 = B/(ξ A)` -/
theorem x0_of_nd_eq (B : F) (h : nd ξ u = 0) : x0 ξ A B u = B / (ξ * A) := by
  unfold x0 x0num x0den
  rw [if_pos h, h]
  field_simp
  ring

/-- `gx0_num / gx0_den = g(x0)`, with `gx0_den = x0_den³` -/
theorem gx0_eq (B : F) :
    gx0num ξ A B u / x0den ξ A u ^ 3 = sswuG A B (x0 ξ A B u) := by
  have hd := x0den_ne_zero hA hξ u
  unfold sswuG x0 gx0num
  field_simp
  ring

/-- the SSWU identity `g(ξu²·x0) = ξ³u⁶·g(x0)` for non-exceptional inputs -/
theorem g_x1 (B : F) (h : nd ξ u ≠ 0) :
    sswuG A B (ξ * u ^ 2 * x0 ξ A B u) = ξ ^ 3 * u ^ 6 * sswuG A B (x0 ξ A B u) := by
  rw [x0_of_nd_ne hA hξ u B h]
  have e : nd ξ u = (ξ * u ^ 2) ^ 2 + ξ * u ^ 2 := by unfold nd; ring
  rw [e] at h ⊢
  have := sswu_key A B (ξ * u ^ 2) hA h
  rw [show ξ ^ 3 * u ^ 6 = (ξ * u ^ 2) ^ 3 by ring]
  exact this

end

/-! ### relation with the RFC's `x1`, `x2` -/

theorem tv1_eq (ξ u : F) : sswuTv1 ξ u = (nd ξ u)⁻¹ := rfl

section
variable {ξ A B : F} (hA : A ≠ 0) (hξ : ξ ≠ 0) (u : F)
include hA hξ

/-- the RFC's `x1` is the model's `x0` -/
theorem sswuX1_eq (B : F) : sswuX1 A B ξ u = x0 ξ A B u := by
  unfold sswuX1
  rw [tv1_eq]
  by_cases h : nd ξ u = 0
  · rw [if_pos (by rw [h, inv_zero]), x0_of_nd_eq hA hξ u B h]
  · rw [if_neg (inv_ne_zero h), x0_of_nd_ne hA hξ u B h, one_div]

/-- the RFC's `x2` is the model's `x1 = ξu²·x0` -/
theorem sswuX2_eq (B : F) : sswuX2 A B ξ u = ξ * u ^ 2 * x0 ξ A B u := by
  unfold sswuX2; rw [sswuX1_eq hA hξ]

/-- the exceptional inputs of C15: `u = 0` and `ξ²u⁴ + ξu² = 0` give `x1 = B/(ξA)` -/
theorem sswuX1_exceptional (B : F) (h : ξ ^ 2 * u ^ 4 + ξ * u ^ 2 = 0) :
    sswuX1 A B ξ u = B / (ξ * A) := by
  rw [sswuX1_eq hA hξ, x0_of_nd_eq hA hξ u B h]

end

/-! ### Jacobian output -/

/-- the Jacobian triple `(X, Y, Z)` lies on `Y² = X³ + A·X·Z⁴ + B·Z⁶` -/
def OnCurveJ (A B : F) (P : Jac F) : Prop :=
  P.y ^ 2 = P.x ^ 3 + A * P.x * P.z ^ 4 + B * P.z ^ 6

/-- affine coordinates of a Jacobian triple -/
def affX (P : Jac F) : F := P.x / P.z ^ 2
def affY (P : Jac F) : F := P.y / P.z ^ 3

theorem onCurveJ_iff_affine {A B : F} {P : Jac F} (hz : P.z ≠ 0) :
    OnCurveJ A B P ↔ affY P ^ 2 = sswuG A B (affX P) := by
  unfold OnCurveJ affX affY sswuG
  constructor
  · intro h; field_simp; linear_combination h
  · intro h; field_simp at h; linear_combination h

/-- the output triple of the model: `(xNum·x0_den, y·x0_den³, x0_den)` -/
def outJ (ξ A u xNum y : F) : Jac F := ⟨xNum * x0den ξ A u, y * x0den ξ A u ^ 3, x0den ξ A u⟩

section
variable {ξ A B : F} (hA : A ≠ 0) (hξ : ξ ≠ 0) (u : F)
include hA hξ

theorem outJ_affX (xNum y : F) : affX (outJ ξ A u xNum y) = xNum / x0den ξ A u := by
  have hd := x0den_ne_zero hA hξ u
  unfold affX outJ; field_simp

theorem outJ_affY (xNum y : F) : affY (outJ ξ A u xNum y) = y := by
  have hd := x0den_ne_zero hA hξ u
  unfold affY outJ; field_simp

/-- first candidate: from `y²·gx0_den = gx0_num` -/
theorem sq_eq_g_x0 (B : F) {y : F} (hy : y ^ 2 * x0den ξ A u ^ 3 = gx0num ξ A B u) :
    y ^ 2 = sswuG A B (x0 ξ A B u) := by
  have hd := x0den_ne_zero hA hξ u
  rw [← gx0_eq hA hξ u B, ← hy]; field_simp

/-- second candidate: from `y²·gx0_den = ξ³u⁶·gx0_num` (non-exceptional input) -/
theorem sq_eq_g_x1 (B : F) (hnd : nd ξ u ≠ 0) {y : F}
    (hy : y ^ 2 * x0den ξ A u ^ 3 = ξ ^ 3 * u ^ 6 * gx0num ξ A B u) :
    y ^ 2 = sswuG A B (ξ * u ^ 2 * x0 ξ A B u) := by
  have hd := x0den_ne_zero hA hξ u
  rw [g_x1 hA hξ u B hnd, ← gx0_eq hA hξ u B]
  field_simp
  linear_combination hy

end

/-! ### sign fix -/

/-- what the model's `negateIf y (sgn0 y xor sgn0 u)` achieves, for any two-valued sign function
that flips under negation of non-zero elements -/
theorem negateIf_spec (sgn0 : F → Sgn0) (hflip : ∀ y : F, y ≠ 0 → sgn0 (-y) ≠ sgn0 y) (y u : F) :
    let y' := negateIf y ((sgn0 y).xor (sgn0 u))
    y' ^ 2 = y ^ 2 ∧ (y ≠ 0 → sgn0 y' = sgn0 u) := by
  intro y'
  by_cases h : sgn0 y = sgn0 u
  · have : y' = y := by simp [y', negateIf, Sgn0.xor, h]
    rw [this]; exact ⟨rfl, fun _ => h⟩
  · have : y' = -y := by simp [y', negateIf, Sgn0.xor, h]
    rw [this]
    refine ⟨by ring, fun hy => ?_⟩
    have h1 := hflip y hy
    revert h h1
    cases sgn0 (-y) <;> cases sgn0 y <;> cases sgn0 u <;> simp

/-! ### the map is the RFC's -/

/-- What C15 says about an output triple `P` for the input `u`. -/
structure SswuOut (sgn0 : F → Sgn0) (ξ A B u : F) (P : Jac F) : Prop where
  z_ne : P.z ≠ 0
  onCurve : OnCurveJ A B P
  x_of_sq : IsSquare (sswuG A B (sswuX1 A B ξ u)) → affX P = sswuX1 A B ξ u
  x_of_nsq : ¬ IsSquare (sswuG A B (sswuX1 A B ξ u)) → affX P = sswuX2 A B ξ u
  y_sq : affY P ^ 2 = sswuG A B (affX P)
  sign : affY P ≠ 0 → sgn0 (affY P) = sgn0 u

theorem SswuOut.isSswu {sgn0 : F → Sgn0} {ξ A B u : F} {P : Jac F} (h : SswuOut sgn0 ξ A B u P)
    (hroot : ∀ x : F, sswuG A B x ≠ 0) : IsSswu sgn0 A B ξ u (affX P) (affY P) := by
  refine ⟨h.x_of_sq, h.x_of_nsq, h.y_sq, h.sign ?_⟩
  intro h0
  have := h.y_sq
  rw [h0] at this
  exact hroot _ (by rw [← this]; ring)

section Branches
variable {ξ A B : F} (hA : A ≠ 0) (hξ : ξ ≠ 0)
variable (hexc : IsSquare (sswuG A B (B / (ξ * A))))
variable (sgn0 : F → Sgn0) (hflip : ∀ y : F, y ≠ 0 → sgn0 (-y) ≠ sgn0 y)
include hA hξ hflip

/-- first-candidate output -/
theorem sswuOut_branch1 (u y : F) (hy : y ^ 2 * x0den ξ A u ^ 3 = gx0num ξ A B u) :
    SswuOut sgn0 ξ A B u (outJ ξ A u (x0num ξ B u) (negateIf y ((sgn0 y).xor (sgn0 u)))) := by
  obtain ⟨hsq, hsg⟩ := negateIf_spec sgn0 hflip y u
  set y' := negateIf y ((sgn0 y).xor (sgn0 u)) with hy'
  have hd := x0den_ne_zero hA hξ u
  have hX : affX (outJ ξ A u (x0num ξ B u) y') = x0 ξ A B u := outJ_affX hA hξ u _ _
  have hY : affY (outJ ξ A u (x0num ξ B u) y') = y' := outJ_affY hA hξ u _ _
  have hg : y' ^ 2 = sswuG A B (x0 ξ A B u) := by
    rw [hsq]; exact sq_eq_g_x0 hA hξ u B hy
  have hz : (outJ ξ A u (x0num ξ B u) y').z ≠ 0 := hd
  have hissq : IsSquare (sswuG A B (x0 ξ A B u)) := ⟨y', by rw [← hg]; ring⟩
  refine ⟨hz, (onCurveJ_iff_affine hz).mpr ?_, ?_, ?_, ?_, ?_⟩
  · rw [hX, hY, hg]
  · intro _; rw [hX, sswuX1_eq hA hξ]
  · intro hn; exact absurd (by rwa [sswuX1_eq hA hξ]) hn
  · rw [hX, hY, hg]
  · rw [hY]; intro h0
    refine hsg ?_
    rintro rfl
    apply h0
    simp [hy', negateIf]

include hexc in
/-- second-candidate output -/
theorem sswuOut_branch2 (u y : F) (hns : ¬ IsSquare (sswuG A B (x0 ξ A B u)))
    (hy : y ^ 2 * x0den ξ A u ^ 3 = ξ ^ 3 * u ^ 6 * gx0num ξ A B u) :
    SswuOut sgn0 ξ A B u
      (outJ ξ A u (x0num ξ B u * (ξ * u ^ 2)) (negateIf y ((sgn0 y).xor (sgn0 u)))) := by
  obtain ⟨hsq, hsg⟩ := negateIf_spec sgn0 hflip y u
  set y' := negateIf y ((sgn0 y).xor (sgn0 u)) with hy'
  have hd := x0den_ne_zero hA hξ u
  have hnd : nd ξ u ≠ 0 := by
    intro h0
    apply hns
    rw [x0_of_nd_eq hA hξ u B h0]; exact hexc
  have hX : affX (outJ ξ A u (x0num ξ B u * (ξ * u ^ 2)) y') = ξ * u ^ 2 * x0 ξ A B u := by
    rw [outJ_affX hA hξ]; unfold x0; field_simp
  have hY : affY (outJ ξ A u (x0num ξ B u * (ξ * u ^ 2)) y') = y' := outJ_affY hA hξ u _ _
  have hg : y' ^ 2 = sswuG A B (ξ * u ^ 2 * x0 ξ A B u) := by
    rw [hsq]; exact sq_eq_g_x1 hA hξ u B hnd hy
  have hz : (outJ ξ A u (x0num ξ B u * (ξ * u ^ 2)) y').z ≠ 0 := hd
  refine ⟨hz, (onCurveJ_iff_affine hz).mpr ?_, ?_, ?_, ?_, ?_⟩
  · rw [hX, hY, hg]
  · intro hs; exact absurd (by rwa [sswuX1_eq hA hξ] at hs) hns
  · intro _; rw [hX, sswuX2_eq hA hξ]
  · rw [hX, hY, hg]
  · rw [hY]; intro h0
    refine hsg ?_
    rintro rfl
    apply h0
    simp [hy', negateIf]

end Branches

end Sswu
end PP
