/-
C03, point tracking: the accumulator of `G2Prepared::from_affine` (and the `T` of the textbook loop) is
`[k]Q` in Mathlib's group of points of `E' : y² = x³ + 4(1+u)`, `k` the integer whose binary expansion
is the processed prefix of the bits of `|x|`; consequently no exceptional case of the affine
chord-and-tangent formulas occurs (`Lines.Regular`) as soon as no multiple `[j]Q`, `0 < j ≤ |x| + 1`,
vanishes - in particular for `Q ≠ 0` of order `r`.

* `doublingStep_abs`, `additionStep_abs`: one step of the model, in the group.
* `Repr T R`: the pair `T` is the pair of affine coordinates of the (finite) point `R`;
  `repr_double`, `repr_add`: `Ate.affDouble`, `Ate.affAdd` are the group law; `repr_y_ne`, `repr_x_ne`:
  the exceptional cases are `2R = 0` and `R = ±S`.
* `regular_of_multiples`: `Regular` from the hypothesis on the multiples of `Q`.
* `prepareLoop_point`: the accumulator of `prepareLoop` is `[k]Q`.
* `millerLoop_eq_textbook`: model Miller loop = textbook Miller loop up to a unitish factor.
-/
import PP.Proofs.Lines
import PP.Props.C01

namespace PP
namespace Lines

open Ate Miller WeierstrassCurve.Affine

/-- the group `E'(Fq2)` -/
abbrev E2 := (W g2Codec.b).Point

/-! ## one step of the model, in the group -/

/-- `doubling_step` doubles: for every representative of every point (identity included) -/
theorem doublingStep_abs {r : Jac Fq2} (hr : Jac.OnCurve g2Codec.b r) :
    Jac.OnCurve g2Codec.b (doublingStep r).1 ∧
      Jac.abs g2Codec.b (doublingStep r).1 = 2 • Jac.abs g2Codec.b r := by
  by_cases hz : r.z = 0
  · have hz' : (doublingStep r).1.z = 0 := by rw [doublingStep_eq]; simp [hz]
    refine ⟨Or.inl hz', ?_⟩
    rw [Jac.abs_of_z_eq_zero hz', Jac.abs_of_z_eq_zero hz, smul_zero]
  · rw [doublingStep_eq_double r hz, two_smul]
    exact ⟨C01.double_onCurve hr, C01.double_correct hr⟩

/-- `addition_step` adds the affine point, outside the exceptional cases `r = 0`, `r = ±q`
    (`X = x_Q Z²`) -/
theorem additionStep_abs {r : Jac Fq2} {q : Aff Fq2} (hr : Jac.OnCurve g2Codec.b r)
    (hq : Aff.OnCurve g2Codec.b q) (hqi : q.infinity = false) (hz : r.z ≠ 0)
    (hx : r.x ≠ q.x * r.z ^ 2) :
    Jac.OnCurve g2Codec.b (additionStep r q).1 ∧
      Jac.abs g2Codec.b (additionStep r q).1 = Jac.abs g2Codec.b r + Aff.abs g2Codec.b q := by
  rw [additionStep_eq_addMixed r q hqi hz hx]
  exact ⟨C01.addMixed_onCurve hr hq, C01.addMixed_correct hr hq⟩

/-! ## affine pairs and points of the group -/

/-- `T` is the pair of affine coordinates of the finite point `R` of `E'` -/
def Repr (T : Fq2 × Fq2) (R : E2) : Prop :=
  ∃ h : (W g2Codec.b).Nonsingular T.1 T.2, R = Point.some T.1 T.2 h

theorem repr_of_eq {x y : Fq2} (h : (W g2Codec.b).Nonsingular x y) (T : Fq2 × Fq2) (hx : x = T.1)
    (hy : y = T.2) : Repr T (Point.some x y h) := by
  obtain ⟨t1, t2⟩ := T
  simp only at hx hy
  subst hx hy
  exact ⟨h, rfl⟩

theorem repr_onCurve {T : Fq2 × Fq2} {R : E2} (h : Repr T R) : T.2 ^ 2 = T.1 ^ 3 + g2Codec.b := by
  obtain ⟨hns, -⟩ := h
  exact (W_nonsingular_iff g2Codec.b _ _).mp hns

theorem repr_aff {q : Aff Fq2} (hq : Aff.OnCurve g2Codec.b q) (hqi : q.infinity = false) :
    Repr (pair q) (Aff.abs g2Codec.b q) :=
  ⟨_, Aff.abs_of_not_infinity hq hqi⟩

theorem y_ne_negY {y : Fq2} (x : Fq2) (hy : y ≠ 0) : y ≠ (W g2Codec.b).negY x y := by
  rw [W_negY]; intro e
  have : 2 * y = 0 := by linear_combination e
  exact (mul_ne_zero fq2_two_ne_zero hy) this

/-- `affDouble` is the doubling of the group -/
theorem repr_double {T : Fq2 × Fq2} {R : E2} (h : Repr T R) (hy : T.2 ≠ 0) :
    Repr (affDouble T) (R + R) := by
  obtain ⟨hns, rfl⟩ := h
  rw [Point.add_self_of_Y_ne (y_ne_negY T.1 hy)]
  apply repr_of_eq
  · simp only [W_addX, W_slope_self g2Codec.b T.1 hy, affDouble, sumOfSlope, tangentSlope]
  · simp only [W_addY, W_slope_self g2Codec.b T.1 hy, affDouble, sumOfSlope, tangentSlope]
    ring

theorem slope_swap (x₁ x₂ y₁ y₂ : Fq2) : (y₁ - y₂) / (x₁ - x₂) = (y₂ - y₁) / (x₂ - x₁) := by
  rw [← neg_sub y₂, ← neg_sub x₂, neg_div_neg_eq]

/-- `affAdd` is the addition of the group -/
theorem repr_add {T Q : Fq2 × Fq2} {R S : E2} (hT : Repr T R) (hQ : Repr Q S) (hx : T.1 ≠ Q.1) :
    Repr (affAdd T Q) (R + S) := by
  obtain ⟨hns, rfl⟩ := hT
  obtain ⟨hns', rfl⟩ := hQ
  rw [Point.add_of_X_ne hx]
  apply repr_of_eq
  · simp only [W_addX, W_slope_of_X_ne g2Codec.b T.2 Q.2 hx, affAdd, sumOfSlope, chordSlope,
      slope_swap]
  · simp only [W_addY, W_slope_of_X_ne g2Codec.b T.2 Q.2 hx, affAdd, sumOfSlope, chordSlope,
      slope_swap Q.1]
    ring

/-- the tangent is vertical only at points of order two -/
theorem repr_y_ne {T : Fq2 × Fq2} {R : E2} (h : Repr T R) (h2 : R + R ≠ 0) : T.2 ≠ 0 := by
  obtain ⟨hns, rfl⟩ := h
  intro hy
  apply h2
  exact Point.add_self_of_Y_eq (by rw [W_negY, hy, neg_zero])

/-- the chord is vertical only for `R = ±S` -/
theorem repr_x_ne {T Q : Fq2 × Fq2} {R S : E2} (hT : Repr T R) (hQ : Repr Q S) (h1 : R ≠ S)
    (h2 : R ≠ -S) : T.1 ≠ Q.1 := by
  have e1 := repr_onCurve hT
  have e2 := repr_onCurve hQ
  obtain ⟨hns, rfl⟩ := hT
  obtain ⟨hns', rfl⟩ := hQ
  intro hx
  have : (T.2 - Q.2) * (T.2 + Q.2) = 0 := by rw [hx] at e1; linear_combination e1 - e2
  rcases mul_eq_zero.mp this with h | h
  · exact h1 (Point.some_eq_some.mpr ⟨hx, sub_eq_zero.mp h⟩)
  · apply h2
    rw [Point.neg_some, Point.some_eq_some, W_negY]
    exact ⟨hx, eq_neg_of_add_eq_zero_left h⟩

/-! ## the integer represented by a list of bits -/

/-- `k` followed by the binary digits `bs` (most significant first) -/
def val (k : ℕ) (bs : List Bool) : ℕ := bs.foldl (fun k b => 2 * k + b.toNat) k

theorem val_nil (k : ℕ) : val k [] = k := rfl
theorem val_cons (k : ℕ) (b : Bool) (bs : List Bool) : val k (b :: bs) = val (2 * k + b.toNat) bs :=
  rfl

theorem le_val (k : ℕ) (bs : List Bool) : k ≤ val k bs := by
  induction bs generalizing k with
  | nil => exact le_refl _
  | cons b bs ih => rw [val_cons]; exact le_trans (by omega) (ih _)

/-- the bits of `|x|` below its leading one, with the leading one restored, are `|x|` -/
theorem val_bitsBelowTop : val 1 (bitsBelowTop Gen.BLS_X) = Gen.BLS_X := by decide +kernel

/-- the bits of the loop of `from_affine`, with the leading one restored, are `|x| / 2` -/
theorem val_blsXBits : val 1 blsXBits = Gen.BLS_X / 2 := by decide +kernel

/-! ## the accumulator of the textbook loop -/

/-- the `T` of the textbook loop alone -/
def pointLoop (Q : Fq2 × Fq2) (bs : List Bool) (T : Fq2 × Fq2) : Fq2 × Fq2 :=
  bs.foldl (fun T b => if b then affAdd (affDouble T) Q else affDouble T) T

theorem millerStep_snd (P : Fq × Fq) (Q : Fq2 × Fq2) (bs : List Bool) (F : Fq12) (T : Fq2 × Fq2) :
    (bs.foldl (millerStep P Q) (F, T)).2 = pointLoop Q bs T := by
  induction bs generalizing F T with
  | nil => rfl
  | cons b bs ih =>
    cases b with
    | false => simp only [List.foldl_cons, millerStep, pointLoop, Bool.false_eq_true, if_false]
               exact ih _ _
    | true => simp only [List.foldl_cons, millerStep, pointLoop, if_true]
              exact ih _ _

/-- **no exceptional case, and `T = [k]Q` throughout**: if `T = [k]Q`, `k ≥ 1`, and no multiple `[j]Q`
    with `0 < j ≤ K + 1` vanishes, `K` the integer `k` followed by the bits, then the textbook loop
    over these bits is regular and ends in `[K]Q` -/
theorem regular_of_multiples (Q : Fq2 × Fq2) (S : E2) (hQ : Repr Q S) (bs : List Bool) (k : ℕ)
    (T : Fq2 × Fq2) (hk : 1 ≤ k) (hT : Repr T (k • S))
    (hord : ∀ j : ℕ, 0 < j → j ≤ val k bs + 1 → j • S ≠ 0) :
    Regular Q bs T ∧ Repr (pointLoop Q bs T) (val k bs • S) := by
  induction bs generalizing k T with
  | nil => exact ⟨trivial, hT⟩
  | cons b bs ih =>
    have hge : 2 * k + b.toNat ≤ val k (b :: bs) := by rw [val_cons]; exact le_val _ _
    have h2k : k • S + k • S = (2 * k) • S := by rw [two_mul, add_smul]
    have hy : T.2 ≠ 0 := repr_y_ne hT (by rw [h2k]; exact hord _ (by omega) (by omega))
    have hD : Repr (affDouble T) ((2 * k) • S) := h2k ▸ repr_double hT hy
    cases b with
    | false =>
      simp only [Bool.toNat_false, add_zero] at hge
      have := ih (2 * k) (affDouble T) (by omega) hD (by rw [val_cons] at hord; simpa using hord)
      refine ⟨?_, ?_⟩
      · simp only [Regular, Bool.false_eq_true, if_false]; exact ⟨hy, this.1⟩
      · simpa [pointLoop, val_cons] using this.2
    | true =>
      simp only [Bool.toNat_true] at hge
      have hne1 : (2 * k) • S ≠ S := by
        intro e
        have h0 : (2 * k - 1) • S = 0 := by
          have : (2 * k) • S = (2 * k - 1) • S + S := by
            rw [← succ_nsmul]; congr 1; omega
          rw [this] at e
          exact add_eq_right.mp e
        exact hord _ (by omega) (by omega) h0
      have hne2 : (2 * k) • S ≠ -S := by
        intro e
        have h0 : (2 * k + 1) • S = 0 := by rw [succ_nsmul, e, neg_add_cancel]
        exact hord _ (by omega) (by omega) h0
      have hx : (affDouble T).1 ≠ Q.1 := repr_x_ne hD hQ hne1 hne2
      have hA : Repr (affAdd (affDouble T) Q) ((2 * k + 1) • S) := by
        rw [succ_nsmul]; exact repr_add hD hQ hx
      have := ih (2 * k + 1) (affAdd (affDouble T) Q) (by omega) hA
        (by rw [val_cons] at hord; simpa using hord)
      refine ⟨?_, ?_⟩
      · simp only [Regular, if_true]; exact ⟨hy, hx, this.1⟩
      · simpa [pointLoop, val_cons] using this.2

/-- for `Q` on `E'` with no vanishing multiple `[j]Q`, `0 < j ≤ |x| + 1`, the textbook loop meets no
    exceptional case -/
theorem regular_of_order {q : Aff Fq2} (hq : Aff.OnCurve g2Codec.b q) (hqi : q.infinity = false)
    (hord : ∀ j : ℕ, 0 < j → j ≤ Gen.BLS_X + 1 → j • Aff.abs g2Codec.b q ≠ 0) :
    Regular (pair q) (bitsBelowTop Gen.BLS_X) (pair q) := by
  have hQ := repr_aff hq hqi
  exact (regular_of_multiples (pair q) _ hQ (bitsBelowTop Gen.BLS_X) 1 (pair q) (le_refl _)
    (by rw [one_smul]; exact hQ) (by rw [val_bitsBelowTop]; exact hord)).1

/-! ## the accumulator of `from_affine` is `[k]Q` -/

/-- **point tracking**: after the bits `bs` the accumulator of `prepareLoop` (started at `Q`) is on the
    curve and represents `[k]Q`, `k` = `1` followed by `bs`, provided no multiple `[j]Q`,
    `0 < j ≤ k + 1`, vanishes -/
theorem prepareLoop_point {q : Aff Fq2} (hq : Aff.OnCurve g2Codec.b q) (hqi : q.infinity = false)
    (bs : List Bool) (hord : ∀ j : ℕ, 0 < j → j ≤ val 1 bs + 1 → j • Aff.abs g2Codec.b q ≠ 0) :
    Jac.OnCurve g2Codec.b (prepareLoop q bs q.toJac []).1 ∧
      Jac.abs g2Codec.b (prepareLoop q bs q.toJac []).1 = val 1 bs • Aff.abs g2Codec.b q := by
  have hQ := repr_aff hq hqi
  obtain ⟨hreg, hrep⟩ := regular_of_multiples (pair q) _ hQ bs 1 (pair q) (le_refl _)
    (by rw [one_smul]; exact hQ) hord
  obtain ⟨hz0, ha0⟩ := aff_toJac q hqi
  obtain ⟨hz, ha, -⟩ := loops_agree ⟨0, 0, false⟩ q bs q.toJac 1 1 1 (pair q) hreg hz0 ha0
    Unitish.one (by simp)
  rw [millerStep_snd] at ha
  rw [prepareLoop_eq]
  obtain ⟨hns, e⟩ := hrep
  rw [e]
  simp only [aff] at ha
  exact Jac.abs_eq_some hz (congrArg Prod.fst ha) (congrArg Prod.snd ha) hns

/-! ## assembly -/

/-- **the model's Miller loop is the textbook Miller loop**, up to a factor `c = ι a · (w³)ⁿ`,
    `a ∈ Fq2ˣ`: for finite `P`, finite `Q` on `E'` with `[j]Q ≠ 0` for `0 < j ≤ |x| + 1` -/
theorem millerLoop_eq_textbook (p : Aff Fq) (q : Aff Fq2) (hp : p.infinity = false)
    (hqi : q.infinity = false) (hq : Aff.OnCurve g2Codec.b q)
    (hord : ∀ j : ℕ, 0 < j → j ≤ Gen.BLS_X + 1 → j • Aff.abs g2Codec.b q ≠ 0) :
    ∃ c, Unitish c ∧
      millerLoop [(p, G2Prepared.fromAffine q)] =
        some (Fq12.conjugate (c * textbookMiller (pair p) (pair q))) :=
  millerLoop_eq_textbook_of_regular p q hp hqi (regular_of_order hq hqi hord)

/-- a point `Q ≠ 0` with `[r]Q = 0` has no vanishing multiple below `r` (`r` is prime), in particular
    none up to `|x| + 1` -/
theorem multiples_ne_zero_of_order_r {S : E2} (h0 : S ≠ 0) (hr : Gen.r • S = 0) (j : ℕ) (hj : 0 < j)
    (hj' : j ≤ Gen.BLS_X + 1) : j • S ≠ 0 := by
  have hprime : Nat.Prime Gen.r := Fact.out
  have hord : addOrderOf S = Gen.r := by
    rcases (Nat.dvd_prime hprime).mp (addOrderOf_dvd_of_nsmul_eq_zero hr) with h | h
    · exact absurd (AddMonoid.addOrderOf_eq_one_iff.mp h) h0
    · exact h
  intro e
  have hdvd : Gen.r ∣ j := hord ▸ addOrderOf_dvd_of_nsmul_eq_zero e
  have hle : Gen.r ≤ j := Nat.le_of_dvd hj hdvd
  have hlt : Gen.BLS_X + 1 < Gen.r := by decide +kernel
  omega

end Lines
end PP
