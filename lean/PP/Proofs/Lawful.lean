/-
The interface between the executable model and abstract algebra: a `Field` whose extra model
operations (`sq`, `dbl`, `inv`, `isZero`) are the field's.  Generic theorems about the model
(`Jac.add`, chains, `evalIso`, …) are stated for `[Field F] [FieldOps F] [LawfulFieldOps F]`; the
model's `+ - * neg 0 1` are then *the field's own* (the model takes them from the core notation
classes), so the theorems apply to `Fq`, `Fq2` verbatim.
-/
import PP.Proofs.ZpField

namespace PP

class LawfulFieldOps (F : Type) [Field F] [FieldOps F] : Prop where
  sq_eq : ∀ a : F, sq a = a * a
  dbl_eq : ∀ a : F, dbl a = a + a
  inv_zero : FieldOps.inv (0 : F) = none
  inv_ne : ∀ a : F, a ≠ 0 → FieldOps.inv a = some a⁻¹
  isZero_iff : ∀ a : F, FieldOps.isZero a = true ↔ a = 0

attribute [simp] LawfulFieldOps.sq_eq LawfulFieldOps.dbl_eq LawfulFieldOps.isZero_iff

instance {p : Nat} [PosNat p] [Fact p.Prime] : LawfulFieldOps (Zp p) where
  sq_eq _ := rfl
  dbl_eq _ := rfl
  inv_zero := (Zp.inv_eq_none_iff 0).mpr rfl
  inv_ne a h := Zp.inv_eq_some a h
  isZero_iff := Zp.isZero_iff

end PP
