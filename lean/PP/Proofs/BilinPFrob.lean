/-
Bilinearity of the pairing, the Frobenius fact.

On `E' : y² = x³ + 4(1+u)` over `Fq2` the TWISTED FROBENIUS

    Φ(x, y) = (d² · conj x, d³ · conj y),     d = γ⁻¹,  γ = ξ^((q-1)/6) = `Fq12.frobCoeffC1[1]`

is the map `ψ⁻¹ ∘ π ∘ ψ` (`ψ` the untwist `(x, y) ↦ (x/w², y/w³)`, `π` the coordinate-wise `q`-th power on
`E(Fq12)`; `w^q = γ w`, see `BilinP3`).  It is an endomorphism of Mathlib's group `(W b₂).Point`
(`twHom`, proved additive as `ω` in `CurveOrderOmega`, for any field endomorphism `σ` and any `d` with
`d⁶ σ(b) = b`), and on the subgroup `G2 = E'(Fq2)[r]` it is multiplication by `q ≡ x = -|x| (mod r)`:

    `frob_eq_neg_nsmul : r • S = 0 → |x| • S = -Φ(S)`.

Proof of the latter: `E'(Fq2) = ⟨P⟩ ⊕ ⟨P₂⟩` with `299 • P₂ = 0` (`CurveOrder.G2.structure_thm`), so the
endomorphism `(Φ + [|x|]) ∘ [h₂]` vanishes as soon as it vanishes at `P`: ONE evaluation of the model's
double-and-add by the kernel (`k_frob`).  A point killed by `r` is a multiple of its own `h₂`-multiple
(Bezout, `gcd(h₂, r) = 1`).
-/
import PP.Proofs.CurveOrderG2

set_option linter.unusedSectionVars false

namespace PP.BilinP

open WeierstrassCurve.Affine

/-! ## a twisted field endomorphism acts on `y² = x³ + b` -/

section generic
variable {F : Type} [Field F] [DecidableEq F] {b : F} [ShortW b] {σ : F →+* F} {d : F}

/-- `(x, y) ↦ (d² σ x, d³ σ y)` maps `y² = x³ + b` to itself when `d⁶ σ(b) = b` -/
structure TwFrob (b : F) (σ : F →+* F) (d : F) : Prop where
  d_ne : d ≠ 0
  hb : d ^ 6 * σ b = b

theorem tw_equation (H : TwFrob b σ d) {x y : F} (e : y ^ 2 = x ^ 3 + b) :
    (d ^ 3 * σ y) ^ 2 = (d ^ 2 * σ x) ^ 3 + b := by
  have e' : σ y ^ 2 = σ x ^ 3 + σ b := by rw [← map_pow, e, map_add, map_pow]
  linear_combination d ^ 6 * e' + H.hb

theorem tw_nonsingular (H : TwFrob b σ d) {x y : F} (h : (W b).Nonsingular x y) :
    (W b).Nonsingular (d ^ 2 * σ x) (d ^ 3 * σ y) :=
  W_nonsingular b (tw_equation H ((W_nonsingular_iff b x y).mp h))

/-- the map on points -/
def twFun (H : TwFrob b σ d) : (W b).Point → (W b).Point
  | .zero => .zero
  | .some x y h => .some (d ^ 2 * σ x) (d ^ 3 * σ y) (tw_nonsingular H h)

theorem twFun_some (H : TwFrob b σ d) {x y : F} (h : (W b).Nonsingular x y) :
    twFun H (Point.some x y h) = Point.some (d ^ 2 * σ x) (d ^ 3 * σ y) (tw_nonsingular H h) := rfl

private theorem slope_self' (b : F) [ShortW b] (x : F) {y : F} (hy : y ≠ 0) :
    (W b).slope x x y y = 3 * x ^ 2 / (2 * y) := by
  have h2 : (2 : F) ≠ 0 := ShortW.two_ne (b := b)
  have hne : y ≠ (W b).negY x y := by
    rw [W_negY]; intro h
    have : 2 * y = 0 := by linear_combination h
    exact (mul_ne_zero h2 hy) this
  rw [slope_of_Y_ne rfl hne, W_negY]
  simp only [W_a₁, W_a₂, W_a₄]
  congr 1 <;> ring

private theorem slope_ne' (b : F) {x₁ x₂ : F} (y₁ y₂ : F) (hx : x₁ ≠ x₂) :
    (W b).slope x₁ x₂ y₁ y₂ = (y₁ - y₂) / (x₁ - x₂) := slope_of_X_ne hx

private theorem y_ne_negY' (b : F) [ShortW b] (x : F) {y : F} (hy : y ≠ 0) :
    y ≠ (W b).negY x y := by
  rw [W_negY]; intro h
  have : 2 * y = 0 := by linear_combination h
  exact (mul_ne_zero (ShortW.two_ne (b := b)) hy) this

private theorem addX' (b x₁ x₂ ℓ : F) : (W b).addX x₁ x₂ ℓ = ℓ ^ 2 - x₁ - x₂ := by
  simp [addX]

private theorem addY' (b x₁ x₂ y₁ ℓ : F) :
    (W b).addY x₁ x₂ y₁ ℓ = -(ℓ * (ℓ ^ 2 - x₁ - x₂ - x₁) + y₁) := by
  simp [addY, negAddY, addX]

theorem twFun_add (H : TwFrob b σ d) (P Q : (W b).Point) :
    twFun H (P + Q) = twFun H P + twFun H Q := by
  have hd := H.d_ne
  have hσ : Function.Injective σ := σ.injective
  rcases P with _ | ⟨x₁, y₁, h₁⟩
  · change twFun H (0 + Q) = 0 + twFun H Q
    rw [zero_add, zero_add]
  rcases Q with _ | ⟨x₂, y₂, h₂⟩
  · change twFun H (_ + 0) = _ + 0
    rw [add_zero, add_zero]
  have e₁ : y₁ ^ 2 = x₁ ^ 3 + b := (W_nonsingular_iff b x₁ y₁).mp h₁
  have e₂ : y₂ ^ 2 = x₂ ^ 3 + b := (W_nonsingular_iff b x₂ y₂).mp h₂
  rw [twFun_some, twFun_some]
  by_cases hx : x₁ = x₂
  · subst hx
    by_cases hy : y₁ = (W b).negY x₁ y₂
    · rw [Point.add_of_Y_eq rfl hy,
        Point.add_of_Y_eq rfl (by rw [W_negY] at hy ⊢; rw [hy, map_neg]; ring)]
      rfl
    · have hyy : y₁ = y₂ := by
        rw [W_negY] at hy
        have h1 : (y₁ - y₂) * (y₁ + y₂) = 0 := by linear_combination e₁ - e₂
        rcases mul_eq_zero.mp h1 with h1 | h1
        · exact sub_eq_zero.mp h1
        · exact absurd (eq_neg_of_add_eq_zero_left h1) hy
      subst hyy
      have hy0 : y₁ ≠ 0 := by
        rintro rfl
        apply hy; rw [W_negY]; simp
      have hy0' : d ^ 3 * σ y₁ ≠ 0 :=
        mul_ne_zero (pow_ne_zero _ hd) (fun h => hy0 (hσ (by rw [h, map_zero])))
      rw [Point.add_self_of_Y_ne hy, Point.add_self_of_Y_ne (y_ne_negY' b _ hy0'), twFun_some,
        PP.Point.some_eq_some]
      have hσy : σ y₁ ≠ 0 := fun h => hy0 (hσ (by rw [h, map_zero]))
      have h2 : (2 : F) ≠ 0 := ShortW.two_ne (b := b)
      have hs : 3 * (d ^ 2 * σ x₁) ^ 2 / (2 * (d ^ 3 * σ y₁)) = d * σ (3 * x₁ ^ 2 / (2 * y₁)) := by
        simp only [map_div₀, map_mul, map_pow, map_ofNat]
        field_simp
      simp only [addX', addY', slope_self' b _ hy0, slope_self' b _ hy0', hs]
      generalize 3 * x₁ ^ 2 / (2 * y₁) = s
      constructor
      · simp only [map_sub, map_pow]; ring
      · simp only [map_sub, map_pow, map_neg, map_add, map_mul]; ring
  · have hx' : d ^ 2 * σ x₁ ≠ d ^ 2 * σ x₂ := fun h =>
      hx (hσ (mul_left_cancel₀ (pow_ne_zero _ hd) h))
    rw [Point.add_of_X_ne hx, Point.add_of_X_ne hx', twFun_some, PP.Point.some_eq_some]
    have hdx : σ x₁ - σ x₂ ≠ 0 := fun h => hx (hσ (sub_eq_zero.mp h))
    have hs : (d ^ 3 * σ y₁ - d ^ 3 * σ y₂) / (d ^ 2 * σ x₁ - d ^ 2 * σ x₂) =
        d * σ ((y₁ - y₂) / (x₁ - x₂)) := by
      simp only [map_div₀, map_sub]
      field_simp
    simp only [addX', addY', slope_ne' b _ _ hx, slope_ne' b _ _ hx', hs]
    generalize (y₁ - y₂) / (x₁ - x₂) = s
    constructor
    · simp only [map_sub, map_pow]; ring
    · simp only [map_sub, map_pow, map_neg, map_add, map_mul]; ring

/-- the twisted endomorphism of the group of points -/
def twHom (H : TwFrob b σ d) : (W b).Point →+ (W b).Point :=
  AddMonoidHom.mk' (twFun H) (twFun_add H)

theorem twHom_some (H : TwFrob b σ d) {x y : F} (h : (W b).Nonsingular x y) :
    twHom H (Point.some x y h) = Point.some (d ^ 2 * σ x) (d ^ 3 * σ y) (tw_nonsingular H h) := rfl

end generic

/-! ## the twisted Frobenius of `E'(Fq2)` -/

local notation "b₂" => g2Codec.b

/-- conjugation of `Fq2` (the Frobenius `x ↦ x^q`) as a ring endomorphism -/
def conjHom : Fq2 →+* Fq2 where
  toFun := Fq2.conj
  map_one' := Fq2.conj_one
  map_mul' := Fq2.conj_mul
  map_zero' := Fq2.conj_zero
  map_add' := Fq2.conj_add

@[simp] theorem conjHom_apply (a : Fq2) : conjHom a = Fq2.conj a := rfl

/-- `γ = ξ^((q-1)/6)`, the constant with `w^q = γ w` -/
def gamma : Fq2 := Fq12.frobCoeffC1.getD 1 0

/-- `d = γ⁻¹` -/
def dInv : Fq2 := gamma⁻¹

theorem gamma_mul_dInv : gamma * dInv = 1 := by decide +kernel

theorem gamma_ne_zero : gamma ≠ 0 := left_ne_zero_of_mul_eq_one gamma_mul_dInv
theorem dInv_ne_zero : dInv ≠ 0 := right_ne_zero_of_mul_eq_one gamma_mul_dInv

theorem dInv_b : dInv ^ 6 * Fq2.conj b₂ = b₂ := by
  have h : dInv * dInv * dInv * dInv * dInv * dInv * Fq2.conj b₂ = b₂ := by decide +kernel
  linear_combination h

theorem twFrob : TwFrob b₂ conjHom dInv := ⟨dInv_ne_zero, dInv_b⟩

/-- **the twisted Frobenius** `Φ = ψ⁻¹ π ψ` of `E'(Fq2)`: `(x, y) ↦ (d² conj x, d³ conj y)` -/
def frobHom : (W b₂).Point →+ (W b₂).Point := twHom twFrob

theorem frobHom_some {x y : Fq2} (h : (W b₂).Nonsingular x y) :
    frobHom (Point.some x y h) =
      Point.some (dInv ^ 2 * Fq2.conj x) (dInv ^ 3 * Fq2.conj y) (tw_nonsingular twFrob h) := rfl

/-- `Φ` on affine records of the model -/
def frobA (A : Aff Fq2) : Aff Fq2 :=
  ⟨dInv ^ 2 * Fq2.conj A.x, dInv ^ 3 * Fq2.conj A.y, A.infinity⟩

theorem frobA_spec {A : Aff Fq2} (hA : Aff.OnCurve b₂ A) :
    Aff.OnCurve b₂ (frobA A) ∧ frobHom (Aff.abs b₂ A) = Aff.abs b₂ (frobA A) := by
  by_cases hi : A.infinity = true
  · have hi2 : (frobA A).infinity = true := by simp only [frobA]; exact hi
    have hB : Aff.OnCurve b₂ (frobA A) := Or.inl hi2
    refine ⟨hB, ?_⟩
    rw [Aff.abs_of_infinity hi, Aff.abs_of_infinity (A := frobA A) hi2, map_zero]
  · have hi' : A.infinity = false := by simpa using hi
    have e : A.y ^ 2 = A.x ^ 3 + b₂ := hA.resolve_left hi
    have hi2 : (frobA A).infinity = false := by simp only [frobA]; exact hi'
    have hB : Aff.OnCurve b₂ (frobA A) := by
      right
      simp only [frobA]
      exact tw_equation twFrob e
    refine ⟨hB, ?_⟩
    rw [Aff.abs_of_not_infinity hA hi', Aff.abs_of_not_infinity (A := frobA A) hB hi2, frobHom_some]
    exact PP.Point.some_eq_some.mpr ⟨by simp only [frobA], by simp only [frobA]⟩

/-! ## `Φ = [q] = [-|x|]` on `G2` -/

open PP.CurveOrder PP.CurveOrder.G2

/-- the kernel evaluation: with `R = h₂ • P1`, `|x| • R = -Φ(R)` -/
theorem k_frob :
    (match (smulJ 8 P1 Gen.G2_COFACTOR).toAffine with
      | some R =>
        (match (smulJ 1 R Gen.BLS_X).toAffine with
          | some T => decide (T = (frobA R).neg)
          | none => false)
      | none => false) = true := by decide +kernel

theorem blsX_lt : Gen.BLS_X < 2 ^ (64 * 1) := by decide +kernel
theorem h2_lt : Gen.G2_COFACTOR < 2 ^ (64 * 8) := by decide +kernel
theorem A_dvd_h2 : G2.A ∣ Gen.G2_COFACTOR := by decide +kernel

/-- `(Φ + [|x|]) (h₂ • P) = 0` at the generator `P` of `CurveOrder.G2` -/
theorem frob_at_P : Gen.BLS_X • (Gen.G2_COFACTOR • G2.P) = -frobHom (Gen.G2_COFACTOR • G2.P) := by
  have h := k_frob
  cases hR : (smulJ 8 P1 Gen.G2_COFACTOR).toAffine with
  | none => simp only [hR] at h; cases h
  | some R =>
    simp only [hR] at h
    cases hT : (smulJ 1 R Gen.BLS_X).toAffine with
    | none => simp only [hT] at h; cases h
    | some T =>
      simp only [hT] at h
      have hTe : T = (frobA R).neg := of_decide_eq_true h
      obtain ⟨hRc, hRa⟩ := nsmul_eq_of_toAffine P1_onCurve h2_lt hR
      obtain ⟨hTc, hTa⟩ := nsmul_eq_of_toAffine hRc blsX_lt hT
      obtain ⟨hFc, hFa⟩ := frobA_spec hRc
      show Gen.BLS_X • (Gen.G2_COFACTOR • Aff.abs b₂ P1) =
        -frobHom (Gen.G2_COFACTOR • Aff.abs b₂ P1)
      rw [hRa, hTa, hTe, (Aff.neg_spec hFc).2, hFa]

theorem h2_P₂ : Gen.G2_COFACTOR • G2.P₂ = 0 := by
  obtain ⟨k, hk⟩ := A_dvd_h2
  have hA : G2.A • G2.P₂ = 0 := by
    rw [← G2.structure_thm.2.2.2.1]; exact addOrderOf_nsmul_eq_zero _
  rw [hk, mul_nsmul, hA, nsmul_zero]

/-- `(Φ + [|x|]) ∘ [h₂] = 0` on `E'(Fq2)` -/
theorem frob_on_h2 (g : (W b₂).Point) :
    Gen.BLS_X • (Gen.G2_COFACTOR • g) = -frobHom (Gen.G2_COFACTOR • g) := by
  obtain ⟨i, j, rfl⟩ := G2.structure_thm.2.2.2.2 g
  have e : Gen.G2_COFACTOR • (i • G2.P + j • G2.P₂) = i • (Gen.G2_COFACTOR • G2.P) := by
    rw [nsmul_add, ← natCast_zsmul, ← natCast_zsmul (j • G2.P₂), smul_comm, smul_comm _ j,
      natCast_zsmul, natCast_zsmul, h2_P₂, zsmul_zero, add_zero]
  rw [e, ← natCast_zsmul, smul_comm, natCast_zsmul, frob_at_P, map_zsmul, zsmul_neg]

/-- **Frobenius on `G2`**: for `S ∈ E'(Fq2)` killed by `r`, `[|x|] S = -Φ(S)`, i.e.
    `Φ(S) = [x] S = [q] S` (`q ≡ x (mod r)`) -/
theorem frob_eq_neg_nsmul (S : (W b₂).Point) (hS : Gen.r • S = 0) :
    Gen.BLS_X • S = -frobHom S := by
  obtain ⟨u, v, huv⟩ : IsCoprime (Gen.G2_COFACTOR : ℤ) (Gen.r : ℤ) :=
    Nat.isCoprime_iff_coprime.mpr g2_cofactor_coprime
  have e : S = u • (Gen.G2_COFACTOR • S) := by
    have h1 : (1 : ℤ) • S = (u * Gen.G2_COFACTOR + v * Gen.r) • S := by rw [huv]
    rw [one_zsmul, add_zsmul, mul_zsmul, mul_zsmul, natCast_zsmul, natCast_zsmul, hS, zsmul_zero,
      add_zero] at h1
    exact h1
  have h := frob_on_h2 S
  calc Gen.BLS_X • S = u • (Gen.BLS_X • (Gen.G2_COFACTOR • S)) := by
        conv_lhs => rw [e]
        rw [← natCast_zsmul, smul_comm, natCast_zsmul]
    _ = -frobHom (u • (Gen.G2_COFACTOR • S)) := by rw [h, map_zsmul, zsmul_neg]
    _ = -frobHom S := by rw [← e]

/-- on affine records: `Q ∈ G2` gives `[|x|] Q = -Φ(Q)` -/
theorem frobA_eq_neg_nsmul {Q : Aff Fq2} (hQ : Aff.InSub b₂ Q) :
    Gen.BLS_X • Aff.abs b₂ Q = -Aff.abs b₂ (frobA Q) := by
  rw [frob_eq_neg_nsmul _ hQ.2, (frobA_spec hQ.1).2]

end PP.BilinP
