/-
C04 / C05 lemmas: the model's point decoders and encoders (PP.Model.Enc) against the declarative ZCash
format (PP.Spec.ZCash).

* `ZCash.Coord.Lawful`, `Codec.Lawful`: what the generic proofs use about a coordinate format and about a
  model `Codec` implementing it; proved for `g1Codec`/`fqCoord` and `g2Codec`/`fq2Coord` (the latter uses
  facts about `Fq` only — `Fq2` is a plain pair — so no field structure on `Fq2` is needed).
* curve-level facts: `Aff.isOnCurve_iff_eq`, `Aff.inSubgroup_of_infinity`, the characterisation of
  `Aff.getPointFromX` by the spec's `root?`/`Selected` (with the `y = 0` case).
* `decode…_eq`: each of the four decoders, on inputs of the right length, IS the ordered validation
  `ZCash.validate`; `validate_checked_eq`: checked = unchecked + curve/subgroup tests;
  `validate_…_ok_iff`: acceptance spelled out as a conjunction.
* `encode…_eq`, lengths, `decode…_encode`, `encode_decode…`, injectivity.
* G1: `y² = x³ + 4` has no point with `y = 0` over `Fq` (so the `y ≠ −y` side condition of the compressed
  canonicity theorem is discharged for G1).
-/
import PP.Proofs.ByteLemmas
import PP.Proofs.Interfaces
import PP.Proofs.Primes

set_option linter.unusedSectionVars false
set_option linter.unusedSimpArgs false

namespace PP

open ZCash (Coord Form Flags)

/-! ## lawful coordinate formats and codecs -/

/-- What the generic proofs use about a coordinate format. -/
structure ZCash.Coord.Lawful {F : Type} (C : Coord F) : Prop where
  size_pos : 0 < C.size
  bytes_length : ∀ a, (C.bytes a).length = C.size
  /-- the three flag bits of an encoded coordinate are clear (`q < 2^381`) -/
  bytes_top : ∀ a, (C.bytes a).headD 0 &&& 0xe0 = 0
  range_bytes : ∀ name a, C.rangeFailure name (C.bytes a) = none
  value_bytes : ∀ a, C.value (C.bytes a) = a
  /-- canonicity: a string in range is the encoding of its value -/
  bytes_value : ∀ name bs, bs.length = C.size → C.rangeFailure name bs = none → C.bytes (C.value bs) = bs

/-- The model's `Codec` implements the coordinate format `C`. -/
structure Codec.Lawful {F : Type} (cc : Codec F) (C : Coord F) : Prop where
  coord : C.Lawful
  size_eq : cc.size = C.size
  write_eq : ∀ a, cc.write a = C.bytes a
  read_eq : ∀ name bs, bs.length = cc.size →
    cc.read name bs = match C.rangeFailure name bs with
      | some e => .error e
      | none => .ok (C.value bs)

theorem fqCoord_size : ZCash.fqCoord.size = 48 := rfl
theorem fqCoord_bytes (a : Fq) : ZCash.fqCoord.bytes a = Fq.toBytes a := by
  show ZCash.I2OSP a.v 48 = _; rw [I2OSP_eq_beBytes]; rfl
theorem fqCoord_rangeFailure (name : String) (bs : Bytes) :
    ZCash.fqCoord.rangeFailure name bs = if beToNat bs < Gen.q then none else some (name ++ " coordinate") := by
  show (if ZCash.OS2IP bs < ZCash.q then none else some (name ++ " coordinate")) = _
  rw [OS2IP_eq_beToNat, zcash_q_eq]
theorem fqCoord_value (bs : Bytes) : ZCash.fqCoord.value bs = Zp.ofNat (beToNat bs) := by
  show Zp.ofNat (ZCash.OS2IP bs) = _; rw [OS2IP_eq_beToNat]

theorem Fq.ofNat_v_self (a : Fq) : (Zp.ofNat a.v : Fq) = a := by
  cases a with
  | mk v h => simp [Zp.ofNat, Nat.mod_eq_of_lt h]

theorem fqCoord_lawful : ZCash.fqCoord.Lawful where
  size_pos := by rw [fqCoord_size]; omega
  bytes_length a := by rw [fqCoord_bytes, fqCoord_size]; simp
  bytes_top a := by rw [fqCoord_bytes]; exact Fq.toBytes_top a
  range_bytes name a := by
    rw [fqCoord_rangeFailure, fqCoord_bytes, Fq.beToNat_toBytes, if_pos a.h]
  value_bytes a := by
    rw [fqCoord_value, fqCoord_bytes, Fq.beToNat_toBytes, Fq.ofNat_v_self]
  bytes_value name bs hl hr := by
    rw [fqCoord_rangeFailure] at hr
    rw [fqCoord_size] at hl
    have hlt : beToNat bs < Gen.q := by
      by_contra h; rw [if_neg h] at hr; cases hr
    rw [fqCoord_value, fqCoord_bytes, Fq.toBytes, Zp.ofNat_v, Nat.mod_eq_of_lt hlt, ← hl, beBytes_beToNat]

theorem g1Codec_size : g1Codec.size = 48 := rfl
theorem g1Codec_write (a : Fq) : g1Codec.write a = Fq.toBytes a := rfl
theorem g1Codec_read (name : String) (bs : Bytes) : g1Codec.read name bs =
    match Fq.fromBytes bs with
    | some a => .ok a
    | none => .error (name ++ " coordinate") := rfl

theorem g1Codec_lawful : g1Codec.Lawful ZCash.fqCoord where
  coord := fqCoord_lawful
  size_eq := rfl
  write_eq a := by rw [fqCoord_bytes, g1Codec_write]
  read_eq name bs _ := by
    rw [g1Codec_read, fqCoord_rangeFailure, fqCoord_value]
    by_cases h : beToNat bs < Gen.q
    · rw [Fq.fromBytes_of_lt bs h, if_pos h]
      simp [Zp.ofNat, Nat.mod_eq_of_lt h]
    · rw [(Fq.fromBytes_eq_none_iff bs).mpr h, if_neg h]


theorem fq2Coord_size : ZCash.fq2Coord.size = 96 := rfl
theorem fq2Coord_bytes (a : Fq2) : ZCash.fq2Coord.bytes a = Fq.toBytes a.c1 ++ Fq.toBytes a.c0 := by
  show ZCash.I2OSP a.c1.v 48 ++ ZCash.I2OSP a.c0.v 48 = _; rw [I2OSP_eq_beBytes, I2OSP_eq_beBytes]; rfl
theorem fq2Coord_rangeFailure (name : String) (bs : Bytes) :
    ZCash.fq2Coord.rangeFailure name bs =
      if ¬ beToNat (bs.drop 48) < Gen.q then some (name ++ " coordinate (c0)")
      else if ¬ beToNat (bs.take 48) < Gen.q then some (name ++ " coordinate (c1)") else none := by
  show (if ¬ ZCash.OS2IP (bs.drop 48) < ZCash.q then some (name ++ " coordinate (c0)")
      else if ¬ ZCash.OS2IP (bs.take 48) < ZCash.q then some (name ++ " coordinate (c1)") else none) = _
  rw [OS2IP_eq_beToNat, OS2IP_eq_beToNat, zcash_q_eq]
theorem fq2Coord_value (bs : Bytes) :
    ZCash.fq2Coord.value bs = ⟨Zp.ofNat (beToNat (bs.drop 48)), Zp.ofNat (beToNat (bs.take 48))⟩ := by
  show (⟨Zp.ofNat (ZCash.OS2IP (bs.drop 48)), Zp.ofNat (ZCash.OS2IP (bs.take 48))⟩ : Fq2) = _
  rw [OS2IP_eq_beToNat, OS2IP_eq_beToNat]

theorem fq2_take (a b : Fq) : (Fq.toBytes a ++ Fq.toBytes b).take 48 = Fq.toBytes a :=
  List.take_left' (Fq.toBytes_length a)
theorem fq2_drop (a b : Fq) : (Fq.toBytes a ++ Fq.toBytes b).drop 48 = Fq.toBytes b :=
  List.drop_left' (Fq.toBytes_length a)

theorem Fq.toBytes_ofNat_beToNat (bs : Bytes) (hl : bs.length = 48) (h : beToNat bs < Gen.q) :
    Fq.toBytes (Zp.ofNat (beToNat bs)) = bs := by
  rw [Fq.toBytes, Zp.ofNat_v, Nat.mod_eq_of_lt h, ← hl, beBytes_beToNat]

theorem fq2Coord_lawful : ZCash.fq2Coord.Lawful where
  size_pos := by rw [fq2Coord_size]; omega
  bytes_length a := by rw [fq2Coord_bytes, fq2Coord_size]; simp
  bytes_top a := by
    rw [fq2Coord_bytes]
    have h := Fq.toBytes_top a.c1
    have hl := Fq.toBytes_length a.c1
    cases hx : Fq.toBytes a.c1 with
    | nil => rw [hx] at hl; cases hl
    | cons b r => rw [hx] at h; exact h
  range_bytes name a := by
    rw [fq2Coord_rangeFailure, fq2Coord_bytes, fq2_take, fq2_drop, Fq.beToNat_toBytes, Fq.beToNat_toBytes]
    simp [a.c0.h, a.c1.h]
  value_bytes a := by
    rw [fq2Coord_value, fq2Coord_bytes, fq2_take, fq2_drop, Fq.beToNat_toBytes, Fq.beToNat_toBytes,
      Fq.ofNat_v_self, Fq.ofNat_v_self]
  bytes_value name bs hl hr := by
    rw [fq2Coord_rangeFailure] at hr
    rw [fq2Coord_size] at hl
    have h0 : beToNat (bs.drop 48) < Gen.q := by
      by_contra h; rw [if_pos h] at hr; cases hr
    have h1 : beToNat (bs.take 48) < Gen.q := by
      by_contra h; rw [if_neg (not_not.mpr h0), if_pos h] at hr; cases hr
    rw [fq2Coord_value, fq2Coord_bytes]
    show Fq.toBytes (Zp.ofNat (beToNat (bs.take 48))) ++ Fq.toBytes (Zp.ofNat (beToNat (bs.drop 48))) = bs
    rw [Fq.toBytes_ofNat_beToNat _ (by simp [hl]) h1, Fq.toBytes_ofNat_beToNat _ (by simp [hl]) h0,
      List.take_append_drop]

theorem g2Codec_size : g2Codec.size = 96 := rfl
theorem g2Codec_write (a : Fq2) : g2Codec.write a = Fq.toBytes a.c1 ++ Fq.toBytes a.c0 := rfl
theorem g2Codec_read (name : String) (bs : Bytes) : g2Codec.read name bs =
    match Fq.fromBytes ((bs.drop 48).take 48) with
    | none => .error (name ++ " coordinate (c0)")
    | some c0 =>
      match Fq.fromBytes (bs.take 48) with
      | none => .error (name ++ " coordinate (c1)")
      | some c1 => .ok ⟨c0, c1⟩ := rfl

/-- only facts about `Fq` are used: `Fq2` is a plain pair -/
theorem g2Codec_lawful : g2Codec.Lawful ZCash.fq2Coord where
  coord := fq2Coord_lawful
  size_eq := rfl
  write_eq a := by rw [fq2Coord_bytes, g2Codec_write]
  read_eq name bs hl := by
    rw [g2Codec_size] at hl
    rw [g2Codec_read, fq2Coord_rangeFailure, fq2Coord_value]
    have : (bs.drop 48).take 48 = bs.drop 48 := List.take_of_length_le (by simp [hl])
    rw [this]
    by_cases h0 : beToNat (bs.drop 48) < Gen.q
    · by_cases h1 : beToNat (bs.take 48) < Gen.q
      · rw [Fq.fromBytes_of_lt _ h0, Fq.fromBytes_of_lt _ h1, if_neg (not_not.mpr h0), if_neg (not_not.mpr h1)]
        simp [Zp.ofNat, Nat.mod_eq_of_lt h0, Nat.mod_eq_of_lt h1]
      · rw [Fq.fromBytes_of_lt _ h0, (Fq.fromBytes_eq_none_iff _).mpr h1, if_neg (not_not.mpr h0), if_pos h1]
    · rw [(Fq.fromBytes_eq_none_iff _).mpr h0, if_pos h0]


section curve
variable {F : Type} [Field F] [DecidableEq F] [FieldOps F] [LawfulFieldOps F]

theorem Aff.isOnCurve_iff_eq (b : F) (A : Aff F) :
    Aff.isOnCurve b A = true ↔ A.infinity = true ∨ A.y * A.y = A.x * A.x * A.x + b := by
  unfold Aff.isOnCurve
  cases h : A.infinity <;> simp [LawfulFieldOps.sq_eq]

theorem Aff.isOnCurve_finite (b x y : F) :
    Aff.isOnCurve b ⟨x, y, false⟩ = true ↔ y * y = x * x * x + b := by
  rw [Aff.isOnCurve_iff_eq]; simp

theorem Aff.isOnCurve_zero (b : F) : Aff.isOnCurve b (Aff.zero : Aff F) = true := rfl

theorem Jac.double_zero : (Jac.zero : Jac F).double = Jac.zero := by
  unfold Jac.double
  rw [if_pos]
  show FieldOps.isZero (0 : F) = true
  exact (LawfulFieldOps.isZero_iff 0).mpr rfl

theorem Aff.mulBits_of_infinity (A : Aff F) (hA : A.infinity = true) (bits : List Bool) :
    A.mulBits bits = Jac.zero := by
  unfold Aff.mulBits
  suffices h : ∀ (bits : List Bool), List.foldl (fun res i =>
      let res := res.double; if i then res.addMixed A else res) Jac.zero bits = Jac.zero from h bits
  intro bits
  induction bits with
  | nil => rfl
  | cons i bs ih =>
    rw [List.foldl_cons]
    have : (let res := (Jac.zero : Jac F).double; if i then res.addMixed A else res) = Jac.zero := by
      simp only [Jac.double_zero]
      cases i
      · rfl
      · show Jac.addMixed Jac.zero A = Jac.zero
        unfold Jac.addMixed
        rw [if_pos hA]
    rw [this, ih]

/-- a record flagged `infinity` passes the model's subgroup check -/
theorem Aff.inSubgroup_of_infinity (b : F) (A : Aff F) (hA : A.infinity = true) : Aff.inSubgroup b A = true := by
  unfold Aff.inSubgroup Aff.inSubgroupAssumingOnCurve Aff.mul
  rw [Aff.mulBits_of_infinity A hA]
  have h1 : Aff.isOnCurve b A = true := by unfold Aff.isOnCurve; rw [if_pos hA]
  rw [h1]
  show (true && FieldOps.isZero (0 : F)) = true
  rw [(LawfulFieldOps.isZero_iff (0:F)).mpr rfl]; rfl

/-- the identity record passes the model's subgroup check -/
theorem Aff.inSubgroup_zero (b : F) : Aff.inSubgroup b (Aff.zero : Aff F) = true :=
  Aff.inSubgroup_of_infinity b _ rfl

theorem Aff.isOnCurve_of_inSubgroup (b : F) (A : Aff F) (h : Aff.inSubgroup b A = true) :
    Aff.isOnCurve b A = true := by
  unfold Aff.inSubgroup at h
  rw [Bool.and_eq_true] at h; exact h.1

end curve

section sqrt
variable {F : Type} [Field F] [DecidableEq F] [FieldOps F] [LawfulFieldOps F] [SqrtOps F] [LawfulSqrtOps F]

open ZCash (Selected root?)

theorem Selected_iff (s : Bool) (y : F) :
    Selected (SqrtOps.lt : F → F → Bool) s y ↔
      (s = true → SqrtOps.lt y (-y) = false) ∧ (s = false → SqrtOps.lt (-y) y = false) := by
  unfold Selected; cases s <;> simp

/-- two square roots of the same element that are both selected by `s` coincide -/
theorem Selected_unique (s : Bool) (y y' : F) (h : y * y = y' * y')
    (hy : Selected (SqrtOps.lt : F → F → Bool) s y) (hy' : Selected (SqrtOps.lt : F → F → Bool) s y') : y = y' := by
  have h0 : (y - y') * (y + y') = 0 := by ring_nf; rw [show y ^ 2 = y * y by ring, h]; ring
  rcases mul_eq_zero.mp h0 with h1 | h1
  · exact sub_eq_zero.mp h1
  · have e : y' = -y := by rw [← sub_eq_zero]; rw [← h1]; ring
    by_contra hne
    subst e
    rcases LawfulSqrtOps.lt_total y (-y) hne with ht | ht
    · cases s
      · simp [Selected, neg_neg] at hy hy'
        rw [ht] at hy'; cases hy'
      · simp [Selected] at hy hy'
        rw [ht] at hy; cases hy
    · cases s
      · simp [Selected, neg_neg] at hy hy'
        rw [ht] at hy; cases hy
      · simp [Selected, neg_neg] at hy hy'
        rw [ht] at hy'; cases hy'

/-- the spec's `root?` is characterised by its defining property -/
theorem root?_eq_some_iff (a : F) (s : Bool) (y : F) :
    root? (SqrtOps.lt : F → F → Bool) a s = some y ↔ y * y = a ∧ Selected (SqrtOps.lt : F → F → Bool) s y := by
  unfold root?
  split
  · next h =>
    have hc := Classical.choose_spec h
    rw [Option.some.injEq]
    constructor
    · intro e; rw [← e]; exact hc
    · intro ⟨h1, h2⟩
      exact Selected_unique s _ _ (hc.1.trans h1.symm) hc.2 h2
  · next h =>
    constructor
    · intro e; cases e
    · intro hy; exact absurd ⟨y, hy⟩ h

/-- one of the two roots is always selected -/
theorem exists_selected (s : Bool) (y : F) :
    Selected (SqrtOps.lt : F → F → Bool) s y ∨ Selected (SqrtOps.lt : F → F → Bool) s (-y) := by
  cases h : (SqrtOps.lt y (-y) : Bool)
  · cases h' : (SqrtOps.lt (-y) y : Bool)
    · cases s
      · left; simp [Selected, h']
      · left; simp [Selected, h]
    · cases s
      · right; simp [Selected, h]
      · left; simp [Selected, h]
  · have := LawfulSqrtOps.lt_asymm _ _ h
    cases s
    · left; simp [Selected, this]
    · right; simp [Selected, this]

theorem root?_eq_none_iff (a : F) (s : Bool) :
    root? (SqrtOps.lt : F → F → Bool) a s = none ↔ ¬ IsSquare a := by
  unfold root?
  split
  · next h =>
    obtain ⟨y, hy, _⟩ := h
    constructor
    · intro e; cases e
    · intro hn; exact absurd ⟨y, hy.symm⟩ hn
  · next h =>
    constructor
    · intro _ ⟨y, hy⟩
      rcases exists_selected s y with hs | hs
      · exact h ⟨y, hy.symm, hs⟩
      · exact h ⟨-y, by rw [hy]; ring, hs⟩
    · intro _; rfl

/-- what `get_point_from_x` returns: the root of `x³ + b` selected by `greatest` -/
theorem Aff.getPointFromX_eq (b x : F) (g : Bool) :
    Aff.getPointFromX b x g =
      (root? (SqrtOps.lt : F → F → Bool) (x * x * x + b) g).map (fun y => ⟨x, y, false⟩) := by
  unfold Aff.getPointFromX
  simp only [LawfulFieldOps.sq_eq]
  cases hs : (SqrtOps.sqrt (x * x * x + b) : Option F) with
  | none =>
    have := (root?_eq_none_iff (x * x * x + b) g).mpr (LawfulSqrtOps.sqrt_complete _ hs)
    rw [this]; rfl
  | some y0 =>
    have hy0 := LawfulSqrtOps.sqrt_sound _ _ hs
    simp only
    have key : root? (SqrtOps.lt : F → F → Bool) (x * x * x + b) g =
        some (if (SqrtOps.lt y0 (-y0) != g) = true then y0 else -y0) := by
      rw [root?_eq_some_iff]
      cases hlt : (SqrtOps.lt y0 (-y0) : Bool) <;> cases g <;> simp [Selected, hy0, hlt]
      · exact LawfulSqrtOps.lt_asymm _ _ hlt
      · exact LawfulSqrtOps.lt_asymm _ _ hlt
    rw [key]; rfl

theorem Aff.getPointFromX_eq_some_iff (b x : F) (g : Bool) (A : Aff F) :
    Aff.getPointFromX b x g = some A ↔
      ∃ y, y * y = x * x * x + b ∧ A = ⟨x, y, false⟩ ∧ Selected (SqrtOps.lt : F → F → Bool) g y := by
  rw [Aff.getPointFromX_eq]
  constructor
  · intro h
    cases hr : root? (SqrtOps.lt : F → F → Bool) (x * x * x + b) g with
    | none => rw [hr] at h; cases h
    | some y =>
      rw [hr] at h
      have := (root?_eq_some_iff _ _ _).mp hr
      exact ⟨y, this.1, (Option.some.inj h).symm, this.2⟩
  · rintro ⟨y, h1, rfl, h2⟩
    rw [(root?_eq_some_iff _ _ _).mpr ⟨h1, h2⟩]; rfl

theorem Aff.getPointFromX_eq_none_iff (b x : F) (g : Bool) :
    Aff.getPointFromX b x g = none ↔ ¬ IsSquare (x * x * x + b) := by
  rw [Aff.getPointFromX_eq, Option.map_eq_none_iff, root?_eq_none_iff]

end sqrt
end PP

namespace PP
open ZCash (Coord Form Flags Selected root?)

/-! ## consequences of codec lawfulness -/
namespace Codec.Lawful
variable {F : Type} {cc : Codec F} {C : Coord F} (L : cc.Lawful C)
include L

theorem size_pos : 0 < cc.size := L.size_eq ▸ L.coord.size_pos
theorem write_length (a : F) : (cc.write a).length = cc.size := by
  rw [L.write_eq, L.size_eq]; exact L.coord.bytes_length a
theorem write_top (a : F) : (cc.write a).headD 0 &&& 0xe0 = 0 := by
  rw [L.write_eq]; exact L.coord.bytes_top a
theorem read_write (name : String) (a : F) : cc.read name (cc.write a) = .ok a := by
  rw [L.read_eq name _ (L.write_length a), L.write_eq, L.coord.range_bytes, L.coord.value_bytes]
theorem read_ok_iff (name : String) (bs : Bytes) (hl : bs.length = cc.size) (a : F) :
    cc.read name bs = .ok a ↔ C.rangeFailure name bs = none ∧ a = C.value bs := by
  rw [L.read_eq name bs hl]
  cases h : C.rangeFailure name bs with
  | none => simp [eq_comm]
  | some e => simp
theorem write_of_read (name : String) (bs : Bytes) (hl : bs.length = cc.size) (a : F)
    (h : cc.read name bs = .ok a) : cc.write a = bs := by
  obtain ⟨h1, rfl⟩ := (L.read_ok_iff name bs hl a).mp h
  rw [L.write_eq]
  exact L.coord.bytes_value name bs (L.size_eq ▸ hl) h1
theorem write_cons (a : F) : ∃ h t, cc.write a = h :: t ∧ h &&& 0xe0 = 0 ∧ t.length + 1 = cc.size := by
  have hl := L.write_length a
  have ht := L.write_top a
  have hp := L.size_pos
  cases hw : cc.write a with
  | nil => rw [hw] at hl; simp at hl; omega
  | cons h t =>
    rw [hw] at hl ht
    exact ⟨h, t, rfl, ht, by simpa using hl⟩

end Codec.Lawful

/-- the spec-level curve description read off a codec: `b`, the `Ord` of the coordinate field, and the
MODEL's subgroup test (whose meaning, `r • P = 0`, is C07's business) -/
abbrev Codec.curve {F : Type} [Add F] [Sub F] [Mul F] [Neg F] [Zero F] [One F] [FieldOps F] [DecidableEq F]
    [SqrtOps F] (cc : Codec F) (C : Coord F) : ZCash.Curve F :=
  ⟨C, cc.b, SqrtOps.lt, Aff.inSubgroup cc.b⟩

section
variable {F : Type} [Add F] [Sub F] [Mul F] [Neg F] [Zero F] [One F] [FieldOps F] [DecidableEq F]
    [SqrtOps F] (cc : Codec F) (C : Coord F)
@[simp] theorem Codec.curve_coord : (cc.curve C).coord = C := rfl
@[simp] theorem Codec.curve_b : (cc.curve C).b = cc.b := rfl
@[simp] theorem Codec.curve_lt : (cc.curve C).lt = SqrtOps.lt := rfl
@[simp] theorem Codec.curve_inSubgroup : (cc.curve C).inSubgroup = Aff.inSubgroup cc.b := rfl
end

theorem toByte_ftf : (Flags.toByte ⟨false, true, false⟩) = 0x40 := by decide
theorem toByte_ttf : (Flags.toByte ⟨true, true, false⟩) = 0xc0 := by decide
theorem toByte_fff : (Flags.toByte ⟨false, false, false⟩) = 0 := by decide
theorem toByte_tff : (Flags.toByte ⟨true, false, false⟩) = 0x80 := by decide
theorem toByte_tft : (Flags.toByte ⟨true, false, true⟩) = 0xa0 := by decide

theorem identityBytes_eq {F : Type} (C : Coord F) (form : Form) (n : Nat) (h : form.length C = n + 1) :
    ZCash.identityBytes C form = (if form.isCompressed then 0xc0 else 0x40) :: List.replicate n 0 := by
  unfold ZCash.identityBytes
  rw [h, List.replicate_succ]
  cases form
  · show (0 ||| Flags.toByte ⟨true, true, false⟩) :: _ = _
    rw [toByte_ttf]; rfl
  · show (0 ||| Flags.toByte ⟨false, true, false⟩) :: _ = _
    rw [toByte_ftf]; rfl

theorem flags_cons (b0 : UInt8) (r : Bytes) :
    ZCash.flags (b0 :: r) = ⟨decide (b0 &&& 0x80 ≠ 0), decide (b0 &&& 0x40 ≠ 0), decide (b0 &&& 0x20 ≠ 0)⟩ := by
  show (⟨ZCash.bit b0 7, ZCash.bit b0 6, ZCash.bit b0 5⟩ : Flags) = _
  rw [bit7_eq, bit6_eq, bit5_eq]

theorem clearFlags_eq (bs : Bytes) : ZCash.clearFlags bs = maskFirst bs 0x1f := by
  cases bs <;> rfl

/-- the identity test of the decoders: after masking `c` and `i`, everything is zero -/
theorem identity_test_u (b0 : UInt8) (r : Bytes) (h7 : b0 &&& 0x80 = 0) (h6 : b0 &&& 0x40 ≠ 0) :
    (maskFirst (b0 :: r) 0x3f).all (· == 0) = true ↔ b0 :: r = 0x40 :: List.replicate r.length 0 := by
  rw [maskFirst_cons, List.all_cons, Bool.and_eq_true, beq_iff_eq, all_zero_iff, byte_identity_u b0 h7 h6,
    List.cons.injEq]

theorem identity_test_c (b0 : UInt8) (r : Bytes) (h7 : b0 &&& 0x80 ≠ 0) (h6 : b0 &&& 0x40 ≠ 0) :
    (maskFirst (b0 :: r) 0x3f).all (· == 0) = true ↔ b0 :: r = 0xc0 :: List.replicate r.length 0 := by
  rw [maskFirst_cons, List.all_cons, Bool.and_eq_true, beq_iff_eq, all_zero_iff, byte_identity_c b0 h7 h6,
    List.cons.injEq]

section decode
variable {F : Type} [Field F] [DecidableEq F] [FieldOps F] [LawfulFieldOps F] [SqrtOps F] [LawfulSqrtOps F]
variable {cc : Codec F} {C : Coord F}

/-- C04 (uncompressed, unchecked): the model decoder IS the ordered validation of the spec -/
theorem decodeUncompressedUnchecked_eq (L : cc.Lawful C) (bs : Bytes) (hl : bs.length = 2 * cc.size) :
    decodeUncompressedUnchecked cc bs = ZCash.validate (cc.curve C) .uncompressed false bs := by
  have hp := L.size_pos
  cases bs with
  | nil => simp at hl; omega
  | cons b0 r =>
  have hr : r.length + 1 = 2 * cc.size := by simpa using hl
  have hlen : Form.length C .uncompressed = r.length + 1 := by
    show 2 * C.size = _; rw [← L.size_eq]; omega
  unfold decodeUncompressedUnchecked ZCash.validate
  rw [if_neg (not_not.mpr hl)]
  simp only [List.headD_cons, flags_cons, Form.isCompressed, Codec.curve_coord, Codec.curve_b,
    identityBytes_eq C _ _ hlen, clearFlags_eq]
  by_cases h7 : b0 &&& 0x80 = 0
  · simp only [h7, ne_eq, not_true_eq_false, decide_false, if_false, Bool.false_eq_true]
    by_cases h6 : b0 &&& 0x40 = 0
    · simp only [h6, not_true_eq_false, decide_false, if_false, Bool.false_eq_true, true_and]
      by_cases h5 : b0 &&& 0x20 = 0
      · simp only [h5, not_true_eq_false, decide_false, if_false, Bool.false_eq_true]
        have hc : (maskFirst (b0 :: r) 0x1f).length = 2 * cc.size := by rw [maskFirst_length]; exact hl
        have hx : ((maskFirst (b0 :: r) 0x1f).take cc.size).length = cc.size := by
          rw [List.length_take, hc]; omega
        have hyl : ((maskFirst (b0 :: r) 0x1f).drop cc.size).length = cc.size := by
          rw [List.length_drop, hc]; omega
        have hy : ((maskFirst (b0 :: r) 0x1f).drop cc.size).take cc.size = (maskFirst (b0 :: r) 0x1f).drop cc.size :=
          List.take_of_length_le (by omega)
        rw [hy, L.read_eq "x" _ hx, L.read_eq "y" _ hyl, ← L.size_eq]
        cases C.rangeFailure "x" ((maskFirst (b0 :: r) 0x1f).take cc.size) with
        | some e => rfl
        | none =>
          simp only
          cases C.rangeFailure "y" ((maskFirst (b0 :: r) 0x1f).drop cc.size) with
          | some e => rfl
          | none => simp
      · simp [h5]
    · simp only [h6, not_false_eq_true, decide_true, if_true]
      by_cases hz : (maskFirst (b0 :: r) 0x3f).all (· == 0) = true
      · rw [if_pos hz, if_pos ((identity_test_u b0 r h7 h6).mp hz)]; rfl
      · rw [if_neg hz, if_neg (fun h => hz ((identity_test_u b0 r h7 h6).mpr h))]
  · simp [h7]


end decode
end PP

namespace PP
open ZCash (Coord Form Flags Selected root?)
section specrel
variable {F : Type} [Add F] [Mul F] [Neg F] [Zero F] [One F] [DecidableEq F]

/-- C04, last sentence, at spec level: the checked validation is the unchecked one followed by the
curve-equation test (uncompressed form only) and the subgroup test, on finite points. -/
theorem validate_checked_eq (K : ZCash.Curve F) (form : Form) (bs : Bytes) :
    ZCash.validate K form true bs =
      match ZCash.validate K form false bs with
      | .error e => .error e
      | .ok A =>
        if A.infinity = true then .ok A
        else if form = .uncompressed ∧ A.y * A.y ≠ A.x * A.x * A.x + K.b then .error .notOnCurve
        else if K.inSubgroup A = false then .error .notInSubgroup
        else .ok A := by
  unfold ZCash.validate
  simp only [Bool.false_eq_true, false_and, if_false, true_and]
  cases form
  · simp only [reduceCtorEq, false_and, if_false]
    split
    · rfl
    · split
      · split <;> rfl
      · split
        · rfl
        · split
          · rfl
          · split <;> simp_all
  · simp only [true_and]
    split
    · rfl
    · split
      · split <;> rfl
      · split
        · rfl
        · split
          · rfl
          · split
            · rfl
            · split
              · simp_all
              · split <;> simp_all

end specrel
end PP

namespace PP
open ZCash (Coord Form Flags Selected root?)
section decode2
variable {F : Type} [Field F] [DecidableEq F] [FieldOps F] [LawfulFieldOps F] [SqrtOps F] [LawfulSqrtOps F]
variable {cc : Codec F} {C : Coord F}

/-- the model's post-checks of `into_affine` (uncompressed) in spec terms -/
theorem postcheck_u (b : F) (a : Aff F) :
    (if (!a.isOnCurve b) = true then Except.error DecodeErr.notOnCurve
      else if (!a.inSubgroup b) = true then Except.error DecodeErr.notInSubgroup else Except.ok a) =
    (if a.infinity = true then Except.ok a
      else if Form.uncompressed = Form.uncompressed ∧ a.y * a.y ≠ a.x * a.x * a.x + b then .error .notOnCurve
      else if Aff.inSubgroup b a = false then .error .notInSubgroup else .ok a) := by
  by_cases hi : a.infinity = true
  · rw [if_pos hi]
    have h1 : Aff.isOnCurve b a = true := by unfold Aff.isOnCurve; rw [if_pos hi]
    rw [h1, Aff.inSubgroup_of_infinity b a hi]; rfl
  · rw [if_neg hi]
    have hiff := Aff.isOnCurve_iff_eq b a
    have hf : a.infinity = false := by simpa using hi
    rw [hf] at hiff
    simp only [Bool.false_eq_true, false_or] at hiff
    by_cases hc : a.y * a.y = a.x * a.x * a.x + b
    · rw [hiff.mpr hc]
      simp only [Bool.not_true, Bool.false_eq_true, if_false, hc, ne_eq, not_true_eq_false, and_false]
      cases Aff.inSubgroup b a <;> rfl
    · have : Aff.isOnCurve b a = false := by
        cases h : Aff.isOnCurve b a
        · rfl
        · exact absurd (hiff.mp h) hc
      rw [this]; simp [hc]

/-- C04 (uncompressed, checked) -/
theorem decodeUncompressed_eq (L : cc.Lawful C) (bs : Bytes) (hl : bs.length = 2 * cc.size) :
    decodeUncompressed cc bs = ZCash.validate (cc.curve C) .uncompressed true bs := by
  rw [validate_checked_eq, ← decodeUncompressedUnchecked_eq L bs hl]
  unfold decodeUncompressed
  cases decodeUncompressedUnchecked cc bs with
  | error e => rfl
  | ok a => exact postcheck_u cc.b a

/-- C04 (compressed, unchecked) -/
theorem decodeCompressedUnchecked_eq (L : cc.Lawful C) (bs : Bytes) (hl : bs.length = cc.size) :
    decodeCompressedUnchecked cc bs = ZCash.validate (cc.curve C) .compressed false bs := by
  have hp := L.size_pos
  cases bs with
  | nil => simp at hl; omega
  | cons b0 r =>
  have hr : r.length + 1 = cc.size := by simpa using hl
  have hlen : Form.length C .compressed = r.length + 1 := by
    show C.size = _; rw [← L.size_eq]; omega
  unfold decodeCompressedUnchecked ZCash.validate
  rw [if_neg (not_not.mpr hl)]
  simp only [List.headD_cons, flags_cons, Form.isCompressed, Codec.curve_coord, Codec.curve_b, Codec.curve_lt,
    identityBytes_eq C _ _ hlen, clearFlags_eq]
  by_cases h7 : b0 &&& 0x80 = 0
  · simp [h7]
  · simp only [h7, ne_eq, not_false_eq_true, decide_true, not_true_eq_false, if_false]
    by_cases h6 : b0 &&& 0x40 = 0
    · simp only [h6, not_true_eq_false, decide_false, if_false, Bool.false_eq_true, reduceCtorEq, false_and]
      have hc : (maskFirst (b0 :: r) 0x1f).length = cc.size := by rw [maskFirst_length]; exact hl
      have ht : (maskFirst (b0 :: r) 0x1f).take C.size = maskFirst (b0 :: r) 0x1f :=
        List.take_of_length_le (by rw [hc, L.size_eq])
      rw [ht, L.read_eq "x" _ hc]
      cases C.rangeFailure "x" (maskFirst (b0 :: r) 0x1f) with
      | some e => rfl
      | none =>
        simp only [Aff.getPointFromX_eq]
        by_cases h5 : b0 &&& 0x20 = 0
        · simp only [h5, not_true_eq_false, decide_false]
          cases root? (SqrtOps.lt : F → F → Bool) _ false with
          | none => rfl
          | some y => simp
        · simp only [h5, not_false_eq_true, decide_true]
          cases root? (SqrtOps.lt : F → F → Bool) _ true with
          | none => rfl
          | some y => simp
    · simp only [h6, not_false_eq_true, decide_true, if_true]
      by_cases hz : (maskFirst (b0 :: r) 0x3f).all (· == 0) = true
      · rw [if_pos hz, if_pos ((identity_test_c b0 r h7 h6).mp hz)]; rfl
      · rw [if_neg hz, if_neg (fun h => hz ((identity_test_c b0 r h7 h6).mpr h))]

theorem postcheck_c (b : F) (a : Aff F) :
    (if (!a.inSubgroup b) = true then Except.error DecodeErr.notInSubgroup else Except.ok a) =
    (if a.infinity = true then Except.ok a
      else if Form.compressed = Form.uncompressed ∧ a.y * a.y ≠ a.x * a.x * a.x + b then .error .notOnCurve
      else if Aff.inSubgroup b a = false then .error .notInSubgroup else .ok a) := by
  by_cases hi : a.infinity = true
  · rw [if_pos hi, Aff.inSubgroup_of_infinity b a hi]; rfl
  · rw [if_neg hi]
    simp only [reduceCtorEq, false_and, if_false]
    cases Aff.inSubgroup b a <;> rfl

/-- C04 (compressed, checked) -/
theorem decodeCompressed_eq (L : cc.Lawful C) (bs : Bytes) (hl : bs.length = cc.size) :
    decodeCompressed cc bs = ZCash.validate (cc.curve C) .compressed true bs := by
  rw [validate_checked_eq, ← decodeCompressedUnchecked_eq L bs hl]
  unfold decodeCompressed
  cases decodeCompressedUnchecked cc bs with
  | error e => rfl
  | ok a => exact postcheck_c cc.b a

end decode2
end PP

namespace PP
open ZCash (Coord Form Flags Selected root?)

/-! ## encoders -/

theorem setFlags_eq_orFirst (f : Flags) (bs : Bytes) : ZCash.setFlags f bs = orFirst bs f.toByte := by
  cases bs <;> rfl

theorem orFirst_zero (bs : Bytes) : orFirst bs 0 = bs := by
  cases bs with
  | nil => rfl
  | cons b r => rw [orFirst_cons, UInt8.or_zero]

theorem orFirst_orFirst (bs : Bytes) (a b : UInt8) : orFirst (orFirst bs a) b = orFirst bs (a ||| b) := by
  cases bs with
  | nil => rfl
  | cons x r => rw [orFirst_cons, orFirst_cons, orFirst_cons, UInt8.or_assoc]

theorem headD_append_left (as bs : Bytes) (h : as ≠ []) : (as ++ bs).headD 0 = as.headD 0 := by
  cases as with
  | nil => exact absurd rfl h
  | cons a r => rfl

theorem maskFirst_of_top_clear (bs : Bytes) (h : bs.headD 0 &&& 0xe0 = 0) : maskFirst bs 0x1f = bs := by
  cases bs with
  | nil => rfl
  | cons b r => rw [maskFirst_cons, (byte_clear_facts b h).2.2.2]

section encode
variable {F : Type} [Field F] [DecidableEq F] [FieldOps F] [LawfulFieldOps F] [SqrtOps F] [LawfulSqrtOps F]
variable {cc : Codec F} {C : Coord F}

/-- C05: the uncompressed encoder produces the ZCash bytes, for every affine record -/
theorem encodeUncompressed_eq (L : cc.Lawful C) (A : Aff F) :
    encodeUncompressed cc A = ZCash.encode (cc.curve C) .uncompressed A := by
  unfold encodeUncompressed ZCash.encode ZCash.identityBytes
  simp only [Codec.curve_coord, setFlags_eq_orFirst, toByte_ftf, toByte_fff, orFirst_zero, L.write_eq,
    Form.isCompressed, Form.length, L.size_eq]

/-- C05: the compressed encoder produces the ZCash bytes, for every affine record -/
theorem encodeCompressed_eq (L : cc.Lawful C) (A : Aff F) :
    encodeCompressed cc A = ZCash.encode (cc.curve C) .compressed A := by
  unfold encodeCompressed ZCash.encode ZCash.identityBytes
  simp only [Codec.curve_coord, Codec.curve_lt, setFlags_eq_orFirst, L.write_eq, Form.isCompressed,
    Form.length, L.size_eq]
  cases A.infinity
  · simp only [Bool.false_eq_true, if_false]
    cases (SqrtOps.lt (-A.y) A.y : Bool)
    · simp only [Bool.false_eq_true, if_false, toByte_tff]
    · simp only [if_true, toByte_tft, orFirst_orFirst]; rfl
  · simp only [if_true, toByte_ttf, orFirst_orFirst]; rfl

theorem encodeUncompressed_length (L : cc.Lawful C) (A : Aff F) :
    (encodeUncompressed cc A).length = 2 * cc.size := by
  unfold encodeUncompressed
  split
  · simp
  · rw [List.length_append, L.write_length, L.write_length]; omega

theorem encodeCompressed_length (L : cc.Lawful C) (A : Aff F) :
    (encodeCompressed cc A).length = cc.size := by
  unfold encodeCompressed
  simp only [orFirst_length]
  split
  · simp
  · split
    · rw [orFirst_length, L.write_length]
    · rw [L.write_length]

/-! ## round trips -/

/-- C05, unchecked uncompressed round trip -/
theorem decodeUncompressedUnchecked_encode (L : cc.Lawful C) (A : Aff F)
    (hinf : A.infinity = true → A = Aff.zero) :
    decodeUncompressedUnchecked cc (encodeUncompressed cc A) = .ok A := by
  have hp := L.size_pos
  have hlen := encodeUncompressed_length L A
  unfold decodeUncompressedUnchecked
  rw [if_neg (not_not.mpr hlen)]
  unfold encodeUncompressed
  by_cases hi : A.infinity = true
  · rw [if_pos hi]
    obtain ⟨n, hn⟩ : ∃ n, 2 * cc.size = n + 1 := ⟨2 * cc.size - 1, by omega⟩
    rw [hn, List.replicate_succ, orFirst_cons]
    simp only [List.headD_cons, maskFirst_cons]
    have e7 : ((0:UInt8) ||| 0x40) &&& 0x80 = 0 := by decide
    have e6 : ((0:UInt8) ||| 0x40) &&& 0x40 ≠ 0 := by decide
    have e3 : ((0:UInt8) ||| 0x40) &&& 0x3f = 0 := by decide
    simp only [e7, e6, e3, ne_eq, not_true_eq_false, not_false_eq_true, if_true, if_false]
    rw [hinf hi]
    simp
  · rw [if_neg hi]
    have hxl := L.write_length A.x
    have hyl := L.write_length A.y
    have hne : cc.write A.x ≠ [] := by intro h; rw [h] at hxl; simp at hxl; omega
    have hh : (cc.write A.x ++ cc.write A.y).headD 0 &&& 0xe0 = 0 := by
      rw [headD_append_left _ _ hne]; exact L.write_top A.x
    obtain ⟨h7, h6, h5, _⟩ := byte_clear_facts _ hh
    simp only [h7, h6, h5, ne_eq, not_true_eq_false, if_false, maskFirst_of_top_clear _ hh]
    rw [List.take_left' hxl, List.drop_left' hxl, List.take_of_length_le (by omega), L.read_write, L.read_write]
    simp only
    have hf : A.infinity = false := by simpa using hi
    cases A; simp_all

/-- C05, checked uncompressed round trip.  NB the hypothesis on records flagged `infinity`: every such
record encodes to the identity string, which decodes to `Aff.zero = ⟨0, 1, true⟩`. -/
theorem decodeUncompressed_encode (L : cc.Lawful C) (A : Aff F)
    (hinf : A.infinity = true → A = Aff.zero)
    (hc : Aff.isOnCurve cc.b A = true) (hs : Aff.inSubgroup cc.b A = true) :
    decodeUncompressed cc (encodeUncompressed cc A) = .ok A := by
  unfold decodeUncompressed
  rw [decodeUncompressedUnchecked_encode L A hinf]
  simp [hc, hs]

end encode
end PP

namespace PP
open ZCash (Coord Form Flags Selected root?)

section roundtrip
variable {F : Type} [Field F] [DecidableEq F] [FieldOps F] [LawfulFieldOps F] [SqrtOps F] [LawfulSqrtOps F]
variable {cc : Codec F} {C : Coord F}

/-- C05, unchecked compressed round trip (the point must satisfy the curve equation: `y` is recomputed) -/
theorem decodeCompressedUnchecked_encode (L : cc.Lawful C) (A : Aff F)
    (hinf : A.infinity = true → A = Aff.zero)
    (hc : Aff.isOnCurve cc.b A = true) :
    decodeCompressedUnchecked cc (encodeCompressed cc A) = .ok A := by
  have hp := L.size_pos
  have hlen := encodeCompressed_length L A
  unfold decodeCompressedUnchecked
  rw [if_neg (not_not.mpr hlen)]
  unfold encodeCompressed
  by_cases hi : A.infinity = true
  · simp only [hi, if_true]
    obtain ⟨n, hn⟩ : ∃ n, cc.size = n + 1 := ⟨cc.size - 1, by omega⟩
    rw [hn, List.replicate_succ, orFirst_cons, orFirst_cons]
    simp only [List.headD_cons, maskFirst_cons]
    have e7 : (((0:UInt8) ||| 0x40) ||| 0x80) &&& 0x80 ≠ 0 := by decide
    have e6 : (((0:UInt8) ||| 0x40) ||| 0x80) &&& 0x40 ≠ 0 := by decide
    have e3 : (((0:UInt8) ||| 0x40) ||| 0x80) &&& 0x3f = 0 := by decide
    simp only [e7, e6, e3, ne_eq, not_true_eq_false, not_false_eq_true, if_true, if_false]
    rw [hinf hi]
    simp
  · have hf : A.infinity = false := by simpa using hi
    simp only [hf, Bool.false_eq_true, if_false]
    obtain ⟨h, t, hw, htop, htl⟩ := L.write_cons A.x
    have hrw := L.read_write "x" A.x
    rw [hw] at hrw
    have hcurve : A.y * A.y = A.x * A.x * A.x + cc.b := by
      have := (Aff.isOnCurve_iff_eq cc.b A).mp hc
      rw [hf] at this; simpa using this
    have hA : A = ⟨A.x, A.y, false⟩ := by cases A; simp_all
    rw [hw]
    cases hlt : (SqrtOps.lt (-A.y) A.y : Bool)
    · simp only [Bool.false_eq_true, if_false, orFirst_cons, List.headD_cons, maskFirst_cons]
      obtain ⟨h7, h6, h5, hm⟩ := byte_or80_facts h htop
      simp only [h7, h6, h5, hm, ne_eq, not_true_eq_false, not_false_eq_true, if_false, hrw, decide_false]
      rw [(Aff.getPointFromX_eq_some_iff cc.b A.x false A).mpr ⟨A.y, hcurve, hA, by simp [Selected, hlt]⟩]
    · simp only [if_true, orFirst_cons, List.headD_cons, maskFirst_cons]
      obtain ⟨h7, h6, h5, hm⟩ := byte_ora0_facts h htop
      simp only [h7, h6, h5, hm, ne_eq, not_true_eq_false, not_false_eq_true, if_false, hrw, decide_true]
      rw [(Aff.getPointFromX_eq_some_iff cc.b A.x true A).mpr
        ⟨A.y, hcurve, hA, by simp [Selected, LawfulSqrtOps.lt_asymm _ _ hlt]⟩]

/-- C05, checked compressed round trip -/
theorem decodeCompressed_encode (L : cc.Lawful C) (A : Aff F)
    (hinf : A.infinity = true → A = Aff.zero) (hs : Aff.inSubgroup cc.b A = true) :
    decodeCompressed cc (encodeCompressed cc A) = .ok A := by
  unfold decodeCompressed
  rw [decodeCompressedUnchecked_encode L A hinf (Aff.isOnCurve_of_inSubgroup _ _ hs)]
  simp [hs]

end roundtrip
end PP

namespace PP
open ZCash (Coord Form Flags Selected root?)

section canonical
variable {F : Type} [Field F] [DecidableEq F] [FieldOps F] [LawfulFieldOps F] [SqrtOps F] [LawfulSqrtOps F]
variable {cc : Codec F} {C : Coord F}

theorem decodeUncompressedUnchecked_length (bs : Bytes) (A : Aff F)
    (h : decodeUncompressedUnchecked cc bs = .ok A) : bs.length = 2 * cc.size := by
  by_contra hl
  unfold decodeUncompressedUnchecked at h
  rw [if_pos hl] at h; cases h

theorem decodeCompressedUnchecked_length (bs : Bytes) (A : Aff F)
    (h : decodeCompressedUnchecked cc bs = .ok A) : bs.length = cc.size := by
  by_contra hl
  unfold decodeCompressedUnchecked at h
  rw [if_pos hl] at h; cases h

/-- C05: the uncompressed encoding is the only accepted preimage (already for the unchecked decoder) -/
theorem encode_decodeUncompressedUnchecked (L : cc.Lawful C) (bs : Bytes) (A : Aff F)
    (h : decodeUncompressedUnchecked cc bs = .ok A) : encodeUncompressed cc A = bs := by
  have hp := L.size_pos
  have hl := decodeUncompressedUnchecked_length bs A h
  cases bs with
  | nil => simp at hl; omega
  | cons b0 r =>
  have hr : 2 * cc.size = r.length + 1 := by simpa using hl.symm
  unfold decodeUncompressedUnchecked at h
  rw [if_neg (not_not.mpr hl)] at h
  simp only [List.headD_cons] at h
  by_cases h7 : b0 &&& 0x80 = 0
  · simp only [h7, ne_eq, not_true_eq_false, if_false] at h
    by_cases h6 : b0 &&& 0x40 = 0
    · simp only [h6, not_true_eq_false, if_false] at h
      by_cases h5 : b0 &&& 0x20 = 0
      · simp only [h5, not_true_eq_false, if_false] at h
        have hm : maskFirst (b0 :: r) 0x1f = b0 :: r := by
          rw [maskFirst_cons, byte_mask1f_of_clear b0 h7 h6 h5]
        rw [hm] at h
        have hxl : ((b0 :: r).take cc.size).length = cc.size := by rw [List.length_take, hl]; omega
        have hyl : ((b0 :: r).drop cc.size).length = cc.size := by rw [List.length_drop, hl]; omega
        rw [List.take_of_length_le (l := (b0 :: r).drop cc.size) (by omega)] at h
        cases hx : cc.read "x" ((b0 :: r).take cc.size) with
        | error e => rw [hx] at h; cases h
        | ok x =>
          cases hy : cc.read "y" ((b0 :: r).drop cc.size) with
          | error e => rw [hx, hy] at h; cases h
          | ok y =>
            rw [hx, hy] at h
            have hA : A = ⟨x, y, false⟩ := by cases h; rfl
            subst hA
            unfold encodeUncompressed
            simp only [Bool.false_eq_true, if_false]
            rw [L.write_of_read "x" _ hxl x hx, L.write_of_read "y" _ hyl y hy, List.take_append_drop]
      · simp only [h5, not_false_eq_true, if_true] at h; cases h
    · simp only [h6, not_false_eq_true, if_true] at h
      by_cases hz : (maskFirst (b0 :: r) 0x3f).all (· == 0) = true
      · rw [if_pos hz] at h
        have hA : A = Aff.zero := by cases h; rfl
        subst hA
        rw [(identity_test_u b0 r h7 h6).mp hz]
        unfold encodeUncompressed
        show orFirst (List.replicate (2 * cc.size) 0) 0x40 = _
        rw [hr, List.replicate_succ, orFirst_cons]; rfl
      · rw [if_neg hz] at h; cases h
  · simp only [h7, ne_eq, not_false_eq_true, if_true] at h; cases h

/-- what the unchecked compressed decoder returns is on the curve -/
theorem decodeCompressedUnchecked_onCurve (bs : Bytes) (A : Aff F)
    (h : decodeCompressedUnchecked cc bs = .ok A) : Aff.isOnCurve cc.b A = true := by
  have hl := decodeCompressedUnchecked_length bs A h
  unfold decodeCompressedUnchecked at h
  rw [if_neg (not_not.mpr hl)] at h
  simp only [] at h
  by_cases h7 : bs.headD 0 &&& 0x80 = 0
  · rw [if_pos h7] at h; cases h
  · rw [if_neg h7] at h
    by_cases h6 : bs.headD 0 &&& 0x40 ≠ 0
    · rw [if_pos h6] at h
      by_cases hz : (maskFirst bs 0x3f).all (· == 0) = true
      · rw [if_pos hz] at h; cases h; rfl
      · rw [if_neg hz] at h; cases h
    · rw [if_neg h6] at h
      cases hx : cc.read "x" (maskFirst bs 0x1f) with
      | error e => rw [hx] at h; cases h
      | ok x =>
        rw [hx] at h
        simp only at h
        generalize (decide (bs.headD 0 &&& 0x20 ≠ 0)) = g at h
        cases hg : Aff.getPointFromX cc.b x g with
        | none => rw [hg] at h; cases h
        | some a =>
          rw [hg] at h
          cases h
          obtain ⟨y, hy, rfl, _⟩ := (Aff.getPointFromX_eq_some_iff _ _ _ _).mp hg
          exact (Aff.isOnCurve_finite _ _ _).mpr hy

theorem encodeCompressed_finite_aux (L : cc.Lawful C) (b0 : UInt8) (r : Bytes)
    (hl : (b0 :: r).length = cc.size) (h7 : ¬ b0 &&& 0x80 = 0) (h6 : b0 &&& 0x40 = 0)
    (g : Bool) (hg5 : g = true ↔ ¬ b0 &&& 0x20 = 0) (x : F) (A : Aff F)
    (hx : cc.read "x" (maskFirst (b0 :: r) 0x1f) = .ok x)
    (hg : Aff.getPointFromX cc.b x g = some A) (hy : A.infinity = false → -A.y ≠ A.y) :
    encodeCompressed cc A = b0 :: r := by
  have hc : (maskFirst (b0 :: r) 0x1f).length = cc.size := by rw [maskFirst_length]; exact hl
  obtain ⟨y, hcurve, rfl, hsel⟩ := (Aff.getPointFromX_eq_some_iff _ _ _ _).mp hg
  have hw := L.write_of_read "x" _ hc x hx
  have hy' : -y ≠ y := hy rfl
  unfold encodeCompressed
  simp only [Bool.false_eq_true, if_false, hw, maskFirst_cons]
  have hs : (SqrtOps.lt (-y) y : Bool) = g := by
    cases g
    · simpa [Selected] using hsel
    · have h1 : (SqrtOps.lt y (-y) : Bool) = false := by simpa [Selected] using hsel
      rcases LawfulSqrtOps.lt_total (-y) y hy' with ht | ht
      · exact ht
      · rw [h1] at ht; cases ht
  rw [hs]
  have := byte_rebuild_c b0 h7 h6
  by_cases h5 : b0 &&& 0x20 = 0
  · have hgf : g = false := by
      cases g
      · rfl
      · exact absurd h5 (hg5.mp rfl)
    simp only [h5, ne_eq, not_true_eq_false, if_false] at this
    simp only [hgf, Bool.false_eq_true, if_false, orFirst_cons, this]
  · have hgt : g = true := hg5.mpr h5
    simp only [h5, ne_eq, not_false_eq_true, if_true] at this
    simp only [hgt, if_true, orFirst_cons, this]

/-- C05: the compressed encoding is the only accepted preimage.  Hypothesis `hy`: the decoded point is
not its own negative (`y ≠ −y`, i.e. `y ≠ 0`): for `y = 0` the decoder ignores the sort flag, so the
string with the sort flag set decodes to `(x, 0)` but is not what the encoder produces. -/
theorem encode_decodeCompressedUnchecked (L : cc.Lawful C) (bs : Bytes) (A : Aff F)
    (h : decodeCompressedUnchecked cc bs = .ok A) (hy : A.infinity = false → -A.y ≠ A.y) :
    encodeCompressed cc A = bs := by
  have hp := L.size_pos
  have hl := decodeCompressedUnchecked_length bs A h
  cases bs with
  | nil => simp at hl; omega
  | cons b0 r =>
  have hr : cc.size = r.length + 1 := by simpa using hl.symm
  unfold decodeCompressedUnchecked at h
  rw [if_neg (not_not.mpr hl)] at h
  simp only [] at h
  generalize hgd : (decide ((b0 :: r).headD 0 &&& 0x20 ≠ 0)) = g at h
  have hg5 : g = true ↔ ¬ b0 &&& 0x20 = 0 := by rw [← hgd]; simp
  simp only [List.headD_cons] at h
  by_cases h7 : b0 &&& 0x80 = 0
  · simp only [h7, if_true] at h; cases h
  · simp only [h7, if_false] at h
    by_cases h6 : b0 &&& 0x40 = 0
    · simp only [h6, ne_eq, not_true_eq_false, if_false] at h
      cases hx : cc.read "x" (maskFirst (b0 :: r) 0x1f) with
      | error e => rw [hx] at h; cases h
      | ok x =>
        rw [hx] at h
        simp only at h
        cases hg : Aff.getPointFromX cc.b x g with
        | none => rw [hg] at h; cases h
        | some a =>
          rw [hg] at h
          have hA : a = A := by cases h; rfl
          subst hA
          exact encodeCompressed_finite_aux L b0 r hl h7 h6 g hg5 x a hx hg hy
    · simp only [h6, ne_eq, not_false_eq_true, if_true] at h
      by_cases hz : (maskFirst (b0 :: r) 0x3f).all (· == 0) = true
      · rw [if_pos hz] at h
        have hA : A = Aff.zero := by cases h; rfl
        subst hA
        rw [(identity_test_c b0 r h7 h6).mp hz]
        unfold encodeCompressed
        show orFirst (orFirst (List.replicate cc.size 0) 0x40) 0x80 = _
        rw [hr, List.replicate_succ, orFirst_cons, orFirst_cons]; rfl
      · rw [if_neg hz] at h; cases h

end canonical
end PP

namespace PP
open ZCash (Coord Form Flags Selected root?)

section checked
variable {F : Type} [Field F] [DecidableEq F] [FieldOps F] [LawfulFieldOps F] [SqrtOps F] [LawfulSqrtOps F]
variable {cc : Codec F} {C : Coord F}

theorem decodeUncompressed_ok_iff (bs : Bytes) (A : Aff F) :
    decodeUncompressed cc bs = .ok A ↔
      decodeUncompressedUnchecked cc bs = .ok A ∧ Aff.isOnCurve cc.b A = true ∧ Aff.inSubgroup cc.b A = true := by
  unfold decodeUncompressed
  cases decodeUncompressedUnchecked cc bs with
  | error e => simp
  | ok a =>
    simp only
    cases h1 : Aff.isOnCurve cc.b a <;> cases h2 : Aff.inSubgroup cc.b a <;> simp
    · intro h; subst h; simp [h1]
    · intro h; subst h; simp [h1]
    · intro h; subst h; simp [h2]
    · intro h; subst h; simp [h1, h2]

theorem decodeCompressed_ok_iff (bs : Bytes) (A : Aff F) :
    decodeCompressed cc bs = .ok A ↔
      decodeCompressedUnchecked cc bs = .ok A ∧ Aff.inSubgroup cc.b A = true := by
  unfold decodeCompressed
  cases decodeCompressedUnchecked cc bs with
  | error e => simp
  | ok a =>
    simp only
    cases h2 : Aff.inSubgroup cc.b a <;> simp
    · intro h; subst h; simp [h2]
    · intro h; subst h; simp [h2]

/-- the unchecked decoders never report curve or subgroup failures other than the missing square root -/
theorem decodeUncompressedUnchecked_error (bs : Bytes) (e : DecodeErr)
    (h : decodeUncompressedUnchecked cc bs = .error e) : e ≠ .notOnCurve ∧ e ≠ .notInSubgroup := by
  unfold decodeUncompressedUnchecked at h
  simp only [] at h
  split at h
  · cases h; simp
  · split at h
    · cases h; simp
    · split at h
      · split at h <;> cases h; simp
      · split at h
        · cases h; simp
        · split at h
          · cases h; simp
          · split at h
            · cases h; simp
            · cases h

theorem encode_decodeUncompressed (L : cc.Lawful C) (bs : Bytes) (A : Aff F)
    (h : decodeUncompressed cc bs = .ok A) : encodeUncompressed cc A = bs :=
  encode_decodeUncompressedUnchecked L bs A ((decodeUncompressed_ok_iff bs A).mp h).1

theorem encode_decodeCompressed (L : cc.Lawful C) (bs : Bytes) (A : Aff F)
    (h : decodeCompressed cc bs = .ok A) (hy : A.infinity = false → -A.y ≠ A.y) :
    encodeCompressed cc A = bs :=
  encode_decodeCompressedUnchecked L bs A ((decodeCompressed_ok_iff bs A).mp h).1 hy

/-- `−y ≠ y` for `y ≠ 0` in odd characteristic -/
theorem neg_ne_self_of_ne_zero (h2 : (2 : F) ≠ 0) (y : F) (hy : y ≠ 0) : -y ≠ y := by
  intro h
  have : 2 * y = 0 := by linear_combination -h
  rcases mul_eq_zero.mp this with h' | h'
  · exact h2 h'
  · exact hy h'

/-- on a curve without a point of order two (`x³ + b` has no root), finite points have `y ≠ 0` -/
theorem y_ne_zero_of_onCurve (hno2 : ∀ x : F, x * x * x + cc.b ≠ 0) (A : Aff F)
    (hc : Aff.isOnCurve cc.b A = true) (hf : A.infinity = false) : A.y ≠ 0 := by
  intro h0
  have := (Aff.isOnCurve_iff_eq cc.b A).mp hc
  rw [hf, h0] at this
  simp only [Bool.false_eq_true, false_or, mul_zero] at this
  exact hno2 A.x this.symm

/-- C05 injectivity, uncompressed (no validity needed beyond the normal form of the identity record) -/
theorem encodeUncompressed_injective (L : cc.Lawful C) (A B : Aff F)
    (hA : A.infinity = true → A = Aff.zero) (hB : B.infinity = true → B = Aff.zero)
    (h : encodeUncompressed cc A = encodeUncompressed cc B) : A = B := by
  have h1 := decodeUncompressedUnchecked_encode L A hA
  have h2 := decodeUncompressedUnchecked_encode L B hB
  rw [h, h2] at h1
  exact (Except.ok.inj h1).symm

/-- C05 injectivity, compressed: points satisfying the curve equation -/
theorem encodeCompressed_injective (L : cc.Lawful C) (A B : Aff F)
    (hA : A.infinity = true → A = Aff.zero) (hB : B.infinity = true → B = Aff.zero)
    (hcA : Aff.isOnCurve cc.b A = true) (hcB : Aff.isOnCurve cc.b B = true)
    (h : encodeCompressed cc A = encodeCompressed cc B) : A = B := by
  have h1 := decodeCompressedUnchecked_encode L A hA hcA
  have h2 := decodeCompressedUnchecked_encode L B hB hcB
  rw [h, h2] at h1
  exact (Except.ok.inj h1).symm

/-! ### `badLength` -/

theorem decodeUncompressedUnchecked_badLength (bs : Bytes) :
    decodeUncompressedUnchecked cc bs = .error .badLength ↔ bs.length ≠ 2 * cc.size := by
  constructor
  · intro h hl
    unfold decodeUncompressedUnchecked at h
    rw [if_neg (not_not.mpr hl)] at h
    simp only [] at h
    split at h
    · cases h
    · split at h
      · split at h <;> cases h
      · split at h
        · cases h
        · split at h
          · cases h
          · split at h <;> cases h
  · intro hl
    unfold decodeUncompressedUnchecked
    rw [if_pos hl]

theorem decodeCompressedUnchecked_badLength (bs : Bytes) :
    decodeCompressedUnchecked cc bs = .error .badLength ↔ bs.length ≠ cc.size := by
  constructor
  · intro h hl
    unfold decodeCompressedUnchecked at h
    rw [if_neg (not_not.mpr hl)] at h
    simp only [] at h
    split at h
    · cases h
    · split at h
      · split at h <;> cases h
      · split at h
        · cases h
        · split at h <;> cases h
  · intro hl
    unfold decodeCompressedUnchecked
    rw [if_pos hl]

theorem decodeUncompressed_badLength (bs : Bytes) :
    decodeUncompressed cc bs = .error .badLength ↔ bs.length ≠ 2 * cc.size := by
  rw [← decodeUncompressedUnchecked_badLength (cc := cc)]
  unfold decodeUncompressed
  cases decodeUncompressedUnchecked cc bs with
  | error e => simp
  | ok a =>
    simp only
    split
    · simp
    · split <;> simp

theorem decodeCompressed_badLength (bs : Bytes) :
    decodeCompressed cc bs = .error .badLength ↔ bs.length ≠ cc.size := by
  rw [← decodeCompressedUnchecked_badLength (cc := cc)]
  unfold decodeCompressed
  cases decodeCompressedUnchecked cc bs with
  | error e => simp
  | ok a =>
    simp only
    split <;> simp

end checked

/-! ## G1: the curve `y² = x³ + 4` over `Fq` has no point of order two -/

theorem g1_b_v : g1Codec.b.v = 4 := by decide +kernel

theorem neg_four_not_cube : powMod (Gen.q - 4) ((Gen.q - 1) / 3) Gen.q ≠ 1 := by decide +kernel

theorem g1_no_two_torsion (x : Fq) : x * x * x + g1Codec.b ≠ 0 := by
  intro h
  have hz := congrArg Zp.toZ h
  rw [Zp.toZ_add, Zp.toZ_mul, Zp.toZ_mul, Zp.toZ_zero] at hz
  have hb : Zp.toZ g1Codec.b = ((4 : ℕ) : ZMod Gen.q) := by unfold Zp.toZ; rw [g1_b_v]
  rw [hb] at hz
  generalize Zp.toZ x = z at hz
  have h4 : ((4 : ℕ) : ZMod Gen.q) ≠ 0 := by
    intro h'
    rw [ZMod.natCast_eq_zero_iff] at h'
    exact absurd (Nat.le_of_dvd (by norm_num) h') (by decide +kernel)
  have hz0 : z ≠ 0 := by
    intro h0; rw [h0] at hz; apply h4; simpa using hz
  have hz3 : z ^ 3 = ((Gen.q - 4 : ℕ) : ZMod Gen.q) := by
    rw [Nat.cast_sub (by decide +kernel : 4 ≤ Gen.q), ZMod.natCast_self, zero_sub]
    linear_combination hz
  have hq3 : 3 * ((Gen.q - 1) / 3) = Gen.q - 1 := by decide +kernel
  have hfermat : z ^ (Gen.q - 1) = 1 := ZMod.pow_card_sub_one_eq_one hz0
  have : ((Gen.q - 4 : ℕ) : ZMod Gen.q) ^ ((Gen.q - 1) / 3) = 1 := by
    rw [← hz3, ← pow_mul, hq3, hfermat]
  exact neg_four_not_cube ((Primes.zmod_pow_eq_one_iff _ _ _ Primes.q_prime.one_lt).mp this)

theorem fq_two_ne_zero : (2 : Fq) ≠ 0 := by
  intro h
  have := congrArg Zp.toZ h
  rw [Zp.toZ_zero] at this
  have h2 : Zp.toZ (2 : Fq) = (2 : ZMod Gen.q) := by
    have := Zp.toZ_natCast (p := Gen.q) 2
    simpa using this
  rw [h2] at this
  exact Primes.two_ne_zero_zmod_q this

end PP

namespace PP
open ZCash (Coord Form Flags Selected root?)

section explicit
variable {F : Type} [Add F] [Mul F] [Neg F] [Zero F] [One F] [DecidableEq F]

/-- C04, acceptance spelled out (uncompressed, checked): flags consistent with the form, both
coordinates reduced, curve equation, subgroup — and the result is exactly that point -/
theorem validate_uncompressed_ok_iff (K : ZCash.Curve F) (bs : Bytes) (A : Aff F) :
    ZCash.validate K .uncompressed true bs = .ok A ↔
      (ZCash.flags bs).c = false ∧
      (((ZCash.flags bs).i = true ∧ bs = ZCash.identityBytes K.coord .uncompressed ∧ A = ⟨0, 1, true⟩) ∨
       ((ZCash.flags bs).i = false ∧ (ZCash.flags bs).s = false ∧
         K.coord.rangeFailure "x" ((ZCash.clearFlags bs).take K.coord.size) = none ∧
         K.coord.rangeFailure "y" ((ZCash.clearFlags bs).drop K.coord.size) = none ∧
         A = ⟨K.coord.value ((ZCash.clearFlags bs).take K.coord.size),
              K.coord.value ((ZCash.clearFlags bs).drop K.coord.size), false⟩ ∧
         A.y * A.y = A.x * A.x * A.x + K.b ∧ K.inSubgroup A = true)) := by
  unfold ZCash.validate
  simp only [Form.isCompressed, true_and]
  cases hc : (ZCash.flags bs).c
  · cases hi : (ZCash.flags bs).i
    · cases hs : (ZCash.flags bs).s
      · simp only [ne_eq, not_true_eq_false, if_false, Bool.false_eq_true, and_false, false_and, false_or,
          true_and]
        cases hx : K.coord.rangeFailure "x" ((ZCash.clearFlags bs).take K.coord.size) with
        | some e => simp
        | none =>
          simp only
          cases hy : K.coord.rangeFailure "y" ((ZCash.clearFlags bs).drop K.coord.size) with
          | some e => simp
          | none =>
            simp only [true_and]
            split
            · next h => simp; intro hA; subst hA; exact fun h' => absurd h' h
            · next h =>
              split
              · next h' => simp; intro hA; subst hA; intro _; simp [h']
              · next h' =>
                simp only [Except.ok.injEq]
                constructor
                · intro hA; subst hA
                  exact ⟨rfl, by simpa using h, by simpa using h'⟩
                · intro hA; exact hA.1.symm
      · simp
    · simp only [ne_eq, not_true_eq_false, if_false, if_true, Bool.true_eq_false, false_and, or_false,
        true_and]
      split
      · next h => simp [h, eq_comm]
      · next h => simp [h]
  · simp

end explicit

section explicit2
variable {F : Type} [Field F] [DecidableEq F] [FieldOps F] [LawfulFieldOps F] [SqrtOps F] [LawfulSqrtOps F]

/-- C04, acceptance spelled out (compressed, checked): flags consistent, `x` reduced, `x³ + b` has a
square root, `y` is the root selected by the sort flag, subgroup -/
theorem validate_compressed_ok_iff (cc : Codec F) (C : Coord F) (bs : Bytes) (A : Aff F) :
    ZCash.validate (cc.curve C) .compressed true bs = .ok A ↔
      (ZCash.flags bs).c = true ∧
      (((ZCash.flags bs).i = true ∧ bs = ZCash.identityBytes C .compressed ∧ A = ⟨0, 1, true⟩) ∨
       ((ZCash.flags bs).i = false ∧
         C.rangeFailure "x" ((ZCash.clearFlags bs).take C.size) = none ∧
         ∃ y : F, y * y = A.x * A.x * A.x + cc.b ∧
           Selected (SqrtOps.lt : F → F → Bool) (ZCash.flags bs).s y ∧
           A = ⟨C.value ((ZCash.clearFlags bs).take C.size), y, false⟩ ∧
           Aff.inSubgroup cc.b A = true)) := by
  unfold ZCash.validate
  simp only [Form.isCompressed, true_and, Codec.curve_coord, Codec.curve_b, Codec.curve_lt,
    Codec.curve_inSubgroup]
  cases hc : (ZCash.flags bs).c
  · simp
  · cases hi : (ZCash.flags bs).i
    · simp only [ne_eq, not_true_eq_false, if_false, Bool.false_eq_true, reduceCtorEq, false_and, false_or,
        true_and]
      cases hx : C.rangeFailure "x" ((ZCash.clearFlags bs).take C.size) with
      | some e => simp
      | none =>
        simp only [true_and]
        cases hr : root? (SqrtOps.lt : F → F → Bool) _ (ZCash.flags bs).s with
        | none =>
          simp only [false_iff, reduceCtorEq]
          rintro ⟨y, h1, h2, hA, _⟩
          subst hA
          have := (root?_eq_some_iff _ _ _).mpr ⟨h1, h2⟩
          rw [hr] at this; cases this
        | some y0 =>
          have ⟨h1, h2⟩ := (root?_eq_some_iff _ _ _).mp hr
          simp only
          split
          · next h' =>
            simp only [false_iff, reduceCtorEq]
            rintro ⟨y, h3, h4, hA, h5⟩
            subst hA
            have := Selected_unique _ _ _ (h1.trans h3.symm) h2 h4
            subst this
            rw [h'] at h5; cases h5
          · next h' =>
            simp only [Except.ok.injEq]
            constructor
            · intro hA; subst hA
              exact ⟨y0, h1, h2, rfl, by simpa using h'⟩
            · rintro ⟨y, h3, h4, hA, h5⟩
              subst hA
              have := Selected_unique _ _ _ (h1.trans h3.symm) h2 h4
              subst this; rfl
    · simp only [ne_eq, not_true_eq_false, if_false, if_true, Bool.true_eq_false, false_and, or_false,
        true_and]
      by_cases h : bs = ZCash.identityBytes C Form.compressed
      · rw [if_pos h]; simp [h, eq_comm]
      · rw [if_neg h]; simp [h]

end explicit2
end PP

namespace PP
open ZCash (Coord Form Flags Selected root?)

/-! ## the format, read back from the spec (flags in the top three bits, coordinates untouched) -/
section readback
variable {F : Type} [Neg F]

theorem byte_flags_readback_aux (f : Flags) : ∀ h : UInt8, h &&& 0xe0 = 0 →
    (ZCash.bit (h ||| f.toByte) 7 = f.c ∧ ZCash.bit (h ||| f.toByte) 6 = f.i ∧
      ZCash.bit (h ||| f.toByte) 5 = f.s ∧ (h ||| f.toByte) &&& 0x1f = h) := by
  obtain ⟨c, i, s⟩ := f
  cases c <;> cases i <;> cases s <;> exact UInt8.forall_of _ (by decide +kernel)

theorem byte_flags_readback (h : UInt8) (hh : h &&& 0xe0 = 0) (f : Flags) :
    ZCash.bit (h ||| f.toByte) 7 = f.c ∧ ZCash.bit (h ||| f.toByte) 6 = f.i ∧
      ZCash.bit (h ||| f.toByte) 5 = f.s ∧ (h ||| f.toByte) &&& 0x1f = h :=
  byte_flags_readback_aux f h hh

/-- the flags of an encoding are `c` = form, `i` = infinity, `s` = (compressed, finite, `−y < y`) -/
theorem flags_encode (K : ZCash.Curve F) (hK : K.coord.Lawful) (form : Form) (A : Aff F) :
    ZCash.flags (ZCash.encode K form A) =
      ⟨form.isCompressed, A.infinity, form.isCompressed && !A.infinity && K.lt (-A.y) A.y⟩ := by
  have hp := hK.size_pos
  unfold ZCash.encode
  cases hi : A.infinity
  · simp only [Bool.false_eq_true, if_false]
    have hxl := hK.bytes_length A.x
    have hxt := hK.bytes_top A.x
    cases hx : K.coord.bytes A.x with
    | nil => rw [hx] at hxl; simp at hxl; omega
    | cons h t =>
      rw [hx] at hxt
      cases form
      · obtain ⟨h7, h6, h5, _⟩ := byte_flags_readback h hxt ⟨true, false, K.lt (-A.y) A.y⟩
        simp [ZCash.setFlags, ZCash.flags, h7, h6, h5, Form.isCompressed]
      · obtain ⟨h7, h6, h5, _⟩ := byte_flags_readback h hxt ⟨false, false, false⟩
        simp [ZCash.setFlags, ZCash.flags, h7, h6, h5, Form.isCompressed]
  · simp only [if_true]
    unfold ZCash.identityBytes
    obtain ⟨n, hn⟩ : ∃ n, form.length K.coord = n + 1 := by
      cases form
      · exact ⟨K.coord.size - 1, by show K.coord.size = _; omega⟩
      · exact ⟨2 * K.coord.size - 1, by show 2 * K.coord.size = _; omega⟩
    rw [hn, List.replicate_succ]
    obtain ⟨h7, h6, h5, _⟩ := byte_flags_readback 0 (by decide) ⟨form.isCompressed, true, false⟩
    show (⟨ZCash.bit (0 ||| Flags.toByte ⟨form.isCompressed, true, false⟩) 7,
      ZCash.bit (0 ||| Flags.toByte ⟨form.isCompressed, true, false⟩) 6,
      ZCash.bit (0 ||| Flags.toByte ⟨form.isCompressed, true, false⟩) 5⟩ : Flags) = _
    rw [h7, h6, h5]; simp

/-- clearing the three flag bits of a finite point's encoding gives back the big-endian coordinates -/
theorem clearFlags_encode (K : ZCash.Curve F) (hK : K.coord.Lawful) (form : Form) (A : Aff F)
    (hf : A.infinity = false) :
    ZCash.clearFlags (ZCash.encode K form A) =
      match form with
      | .compressed => K.coord.bytes A.x
      | .uncompressed => K.coord.bytes A.x ++ K.coord.bytes A.y := by
  have hp := hK.size_pos
  unfold ZCash.encode
  simp only [hf, Bool.false_eq_true, if_false]
  have hxl := hK.bytes_length A.x
  have hxt := hK.bytes_top A.x
  cases hx : K.coord.bytes A.x with
  | nil => rw [hx] at hxl; simp at hxl; omega
  | cons h t =>
    rw [hx] at hxt
    cases form
    · obtain ⟨_, _, _, hm⟩ := byte_flags_readback h hxt ⟨true, false, K.lt (-A.y) A.y⟩
      simp [ZCash.setFlags, ZCash.clearFlags, hm]
    · obtain ⟨_, _, _, hm⟩ := byte_flags_readback h hxt ⟨false, false, false⟩
      simp [ZCash.setFlags, ZCash.clearFlags, hm]

end readback
end PP
