/-
Linearity of the pairing in its second argument: the chain of `BilinQIdeal` over `K = Fq12`,
`E : y² = x³ + 4`, at untwisted points of `E'(Fq2)`, against the textbook Miller loop of `PP.Spec.Ate`.
-/
import PP.Proofs.BilinQ2

set_option linter.unusedSectionVars false

namespace PP
namespace BilinQ

open WeierstrassCurve.Affine Ate Lines

local notation "b₂" => g2Codec.b

theorem fq12_three_ne_zero : (3 : Fq12) ≠ 0 := fun h =>
  fq_three_ne_zero (κ.injective (by rw [map_ofNat, map_zero]; exact h))

theorem fq12_four_ne_zero : (4 : Fq12) ≠ 0 := fun h =>
  fq_four_ne_zero (κ.injective (by rw [map_ofNat, map_zero]; exact h))

instance instShortW12 : ShortW (4 : Fq12) := ⟨fq12_two_ne_zero, fq12_three_ne_zero, fq12_four_ne_zero⟩

/-! ## the untwist as a coordinate map -/

theorem untwist_eq_gmap (T : Fq2 × Fq2) :
    untwist T = gmap ι (Fq12.w ^ 2)⁻¹ (Fq12.w ^ 3)⁻¹ T := by
  simp only [untwist, gmap, div_eq_inv_mul]

theorem w2_inv_ne : ((Fq12.w ^ 2)⁻¹ : Fq12) ≠ 0 := by
  have h2 : Fq12.w ^ 2 ≠ 0 := pow_ne_zero _ w_ne_zero
  intro h
  exact h2 (inv_eq_zero.mp h)

theorem w3_inv_ne : ((Fq12.w ^ 3)⁻¹ : Fq12) ≠ 0 := by
  have h2 : Fq12.w ^ 3 ≠ 0 := pow_ne_zero _ w_ne_zero
  intro h
  exact h2 (inv_eq_zero.mp h)

theorem w_inv_rel : ((Fq12.w ^ 3)⁻¹ : Fq12) ^ 2 = ((Fq12.w ^ 2)⁻¹) ^ 3 := by
  have hw := w_ne_zero
  field_simp

theorem on_untwist {T : Fq2 × Fq2} (h : On b₂ T) : On (4 : Fq12) (untwist T) :=
  (W_equation_iff _ _ _).mpr (untwist_onCurve ((W_equation_iff _ _ _).mp h))

theorem on_embed {P : Fq × Fq} (h : P.2 ^ 2 = P.1 ^ 3 + g1Codec.b) : On (4 : Fq12) (embed P) := by
  apply (W_equation_iff _ _ _).mpr
  have := congrArg κ h
  rw [g1Codec_b] at this
  simpa only [embed, map_pow, map_add, map_ofNat] using this

theorem notOpp_untwist {A B : Fq2 × Fq2} (h : NotOpp A B) : NotOpp (untwist A) (untwist B) := by
  rw [untwist_eq_gmap, untwist_eq_gmap]
  exact gmap_notOpp w2_inv_ne w3_inv_ne h

theorem slopeAB_untwist {A B : Fq2 × Fq2} (hA : On b₂ A) (hB : On b₂ B) (h : NotOpp A B) :
    slopeAB (4 : Fq12) (untwist A) (untwist B) = ι (slopeAB b₂ A B) / Fq12.w := by
  rw [untwist_eq_gmap, untwist_eq_gmap, gmap_slopeAB w2_inv_ne w3_inv_ne w_inv_rel hA hB h]
  have hw := w_ne_zero
  field_simp

theorem addAB_untwist {A B : Fq2 × Fq2} (hA : On b₂ A) (hB : On b₂ B) (h : NotOpp A B) :
    addAB (4 : Fq12) (untwist A) (untwist B) = untwist (addAB b₂ A B) := by
  rw [untwist_eq_gmap, untwist_eq_gmap, untwist_eq_gmap,
    gmap_addAB w2_inv_ne w3_inv_ne w_inv_rel hA hB h]

theorem untwist_snd_ne {T : Fq2 × Fq2} (h : T.2 ≠ 0) : (untwist T).2 ≠ 0 :=
  div_ne_zero (ι_ne_zero h) (pow_ne_zero _ w_ne_zero)

theorem untwist_fst_ne {A B : Fq2 × Fq2} (h : A.1 ≠ B.1) : (untwist A).1 ≠ (untwist B).1 := by
  intro e
  simp only [untwist] at e
  exact h (ι_injective ((div_left_inj' (pow_ne_zero _ w_ne_zero)).mp e))

/-! ## the chain at untwisted points -/

theorem reg_untwist (Q : Fq2 × Fq2) (bs : List Bool) (T : Fq2 × Fq2) (h : Regular Q bs T) :
    Reg (untwist Q) bs (untwist T) := by
  induction bs generalizing T with
  | nil => trivial
  | cons bit bs ih =>
    refine ⟨untwist_snd_ne h.1, ?_⟩
    have h2 := h.2
    cases bit with
    | false =>
      simp only [Bool.false_eq_true, if_false] at h2 ⊢
      rw [← untwist_affDouble]; exact ih _ h2
    | true =>
      simp only [if_true] at h2 ⊢
      rw [← untwist_affDouble, ← untwist_affAdd]
      exact ⟨untwist_fst_ne h2.1, ih _ h2.2⟩

theorem chain_T (Q : Fq2 × Fq2) (bs : List Bool) (N D : CR (4 : Fq12)) (T : Fq2 × Fq2) :
    St.T (bs.foldl (stepR 4 (untwist Q)) (N, D, untwist T)) = untwist (pointLoop Q bs T) := by
  induction bs generalizing N D T with
  | nil => rfl
  | cons bit bs ih =>
    cases bit with
    | false =>
      simp only [List.foldl_cons, stepR, pointLoop, Bool.false_eq_true, if_false, St.T, St.N, St.D,
        ← untwist_affDouble]
      exact ih _ _ _
    | true =>
      simp only [List.foldl_cons, stepR, pointLoop, if_true, St.T, St.N, St.D,
        ← untwist_affDouble, ← untwist_affAdd]
      exact ih _ _ _

/-- the numerator values are the textbook Miller values (no verticals) -/
theorem chain_val (P : Fq × Fq) (Q : Fq2 × Fq2) (bs : List Bool) (F d : Fq12) (T : Fq2 × Fq2) :
    (bs.foldl (stepV (embed P) (untwist Q)) (F, d, untwist T)).1 =
      (bs.foldl (millerStep P Q) (F, T)).1 := by
  induction bs generalizing F d T with
  | nil => rfl
  | cons bit bs ih =>
    cases bit with
    | false =>
      simp only [List.foldl_cons, stepV, millerStep, Bool.false_eq_true, if_false,
        ← untwist_affDouble]
      exact ih _ _ _
    | true =>
      simp only [List.foldl_cons, stepV, millerStep, if_true, ← untwist_affDouble,
        ← untwist_affAdd]
      exact ih _ _ _

/-- a vertical through an untwisted point with `x ≠ 0`, at a rational point: non-zero, in `Fq6` -/
theorem inFq6_vertical (T : Fq2 × Fq2) (P : Fq × Fq) (hT : T.1 ≠ 0) :
    InFq6 (verticalAt (untwist T) (embed P)) := by
  refine ⟨_, ?_, vertical_eq T P⟩
  intro h
  have h2 := congrArg Fq6.c2 h
  rw [Fq6.zero_c2] at h2
  change -(T.1 / Fq2.xi) = 0 at h2
  rw [neg_eq_zero, div_eq_zero_iff] at h2
  rcases h2 with h2 | h2
  · exact hT h2
  · exact Fq2.xi_ne_zero h2

/-- the denominator values are non-zero elements of `Fq6` -/
theorem chain_den (P : Fq × Fq) (Q : Fq2 × Fq2) (bs : List Bool) (F d : Fq12) (T : Fq2 × Fq2)
    (hd : InFq6 d) (hx : XNZ Q bs T) :
    InFq6 (bs.foldl (stepV (embed P) (untwist Q)) (F, d, untwist T)).2.1 := by
  induction bs generalizing F d T with
  | nil => exact hd
  | cons bit bs ih =>
    have h1 := inFq6_vertical (affDouble T) P hx.1
    have h2 := hx.2
    cases bit with
    | false =>
      simp only [Bool.false_eq_true, if_false] at h2
      simp only [List.foldl_cons, stepV, Bool.false_eq_true, if_false, ← untwist_affDouble]
      exact ih _ _ _ (hd.sq.mul h1) h2
    | true =>
      simp only [if_true] at h2
      simp only [List.foldl_cons, stepV, if_true, ← untwist_affDouble, ← untwist_affAdd]
      exact ih _ _ _ ((hd.sq.mul h1).mul (inFq6_vertical _ P h2.1)) h2.2

end BilinQ
end PP
