/-
C16, layer 0: list polynomials (constant term first).

* `addP`, `scaleP`, `mulP` are defined on the bare notation classes `Add/Mul/Zero`, so that they can
  be *run* by the kernel on the model's own field operations (`decide +kernel`), with no `Field`
  instance in sight;
* `evalP` (evaluation) and `hEval` (the homogenised evaluation `Σ cⱼ xʲ w^(d-j)` that the Rust
  `eval_iso` computes with `w = z²`) are defined over a commutative semiring, and the multiplier is
  verified once: `evalP (mulP p q) x = evalP p x * evalP q x`.
-/
import Mathlib.Algebra.BigOperators.Group.Finset.Basic
import Mathlib.Algebra.BigOperators.Ring.Finset
import Mathlib.Algebra.Field.Basic
import Mathlib.Tactic.Ring
import Mathlib.Tactic.FieldSimp

namespace PP
namespace IsoPoly

/-! ### the executable operations -/

section raw
variable {F : Type} [Add F] [Mul F] [Zero F]

/-- sum of two list polynomials -/
def addP : List F → List F → List F
  | [], q => q
  | a :: p, [] => a :: p
  | a :: p, b :: q => (a + b) :: addP p q

/-- `c · p` -/
def scaleP (c : F) (p : List F) : List F := p.map (fun a => c * a)

/-- schoolbook product -/
def mulP : List F → List F → List F
  | [], _ => []
  | a :: p, q => addP (scaleP a q) (0 :: mulP p q)

/-- `p²` -/
def sqP (p : List F) : List F := mulP p p
/-- `p³` -/
def cubeP (p : List F) : List F := mulP p (mulP p p)

end raw

/-! ### evaluation -/

section eval
variable {R : Type} [CommSemiring R]

/-- `Σ cⱼ xʲ` by Horner, constant term first -/
def evalP : List R → R → R
  | [], _ => 0
  | a :: p, x => a + x * evalP p x

@[simp] theorem evalP_nil (x : R) : evalP ([] : List R) x = 0 := rfl
@[simp] theorem evalP_cons (a : R) (p : List R) (x : R) : evalP (a :: p) x = a + x * evalP p x := rfl

theorem evalP_eq_sum (cs : List R) (x : R) :
    evalP cs x = ∑ j ∈ Finset.range cs.length, cs.getD j 0 * x ^ j := by
  induction cs with
  | nil => simp
  | cons a p ih =>
    rw [evalP_cons, List.length_cons, Finset.sum_range_succ', ih, Finset.mul_sum]
    simp only [List.getD_cons_succ, List.getD_cons_zero, pow_zero, mul_one]
    rw [add_comm]
    congr 1
    apply Finset.sum_congr rfl
    intro j _
    ring

theorem evalP_append (p q : List R) (x : R) :
    evalP (p ++ q) x = evalP p x + x ^ p.length * evalP q x := by
  induction p with
  | nil => simp
  | cons a p ih => simp only [List.cons_append, evalP_cons, ih, List.length_cons]; ring

theorem evalP_addP (p q : List R) (x : R) : evalP (addP p q) x = evalP p x + evalP q x := by
  induction p generalizing q with
  | nil => simp [addP]
  | cons a p ih =>
    cases q with
    | nil => simp [addP]
    | cons b q => simp only [addP, evalP_cons, ih]; ring

theorem evalP_scaleP (c : R) (p : List R) (x : R) : evalP (scaleP c p) x = c * evalP p x := by
  induction p with
  | nil => simp [scaleP]
  | cons a p ih =>
    have : scaleP c (a :: p) = (c * a) :: scaleP c p := rfl
    rw [this, evalP_cons, evalP_cons, ih]; ring

/-- the list multiplier is correct -/
theorem evalP_mulP (p q : List R) (x : R) : evalP (mulP p q) x = evalP p x * evalP q x := by
  induction p with
  | nil => simp [mulP]
  | cons a p ih => simp only [mulP, evalP_addP, evalP_scaleP, evalP_cons, ih]; ring

theorem evalP_sqP (p : List R) (x : R) : evalP (sqP p) x = evalP p x ^ 2 := by
  rw [sqP, evalP_mulP]; ring

theorem evalP_cubeP (p : List R) (x : R) : evalP (cubeP p) x = evalP p x ^ 3 := by
  rw [cubeP, evalP_mulP, evalP_mulP]; ring

/-- `Σ_{j ≤ d} cⱼ xʲ w^(d-j)`, `d = length - 1`: the polynomial homogenised to degree `d` -/
def hEval : List R → R → R → R
  | [], _, _ => 0
  | a :: p, x, w => a * w ^ p.length + x * hEval p x w

@[simp] theorem hEval_nil (x w : R) : hEval ([] : List R) x w = 0 := rfl
@[simp] theorem hEval_cons (a : R) (p : List R) (x w : R) :
    hEval (a :: p) x w = a * w ^ p.length + x * hEval p x w := rfl

theorem hEval_eq_sum (cs : List R) (x w : R) :
    hEval cs x w = ∑ j ∈ Finset.range cs.length, cs.getD j 0 * x ^ j * w ^ (cs.length - 1 - j) := by
  induction cs with
  | nil => simp
  | cons a p ih =>
    rw [hEval_cons, List.length_cons, Finset.sum_range_succ', ih, Finset.mul_sum]
    simp only [List.getD_cons_succ, List.getD_cons_zero, pow_zero, mul_one]
    rw [add_comm]
    congr 1
    apply Finset.sum_congr rfl
    intro j _
    have : p.length + 1 - 1 - (j + 1) = p.length - 1 - j := by omega
    rw [this]; ring

/-- homogeneity: scaling `(x, w)` by `l` scales the value by `l ^ d` -/
theorem hEval_smul (cs : List R) (l x w : R) :
    hEval cs (l * x) (l * w) = l ^ (cs.length - 1) * hEval cs x w := by
  induction cs with
  | nil => simp
  | cons a p ih =>
    rw [hEval_cons, hEval_cons, ih, List.length_cons, Nat.add_sub_cancel]
    cases p with
    | nil => simp
    | cons b p =>
      rw [List.length_cons, Nat.add_sub_cancel]
      ring

theorem hEval_zero_right (cs : List R) (x : R) : hEval cs x 0 = cs.getLastD 0 * x ^ (cs.length - 1) := by
  induction cs with
  | nil => simp
  | cons a p ih =>
    rw [hEval_cons, ih]
    cases p with
    | nil => simp
    | cons b p => simp [pow_succ]; ring

end eval

section field
variable {K : Type} [Field K]

/-- for `w ≠ 0` the homogenised value is `w ^ d` times the value at `x / w` -/
theorem hEval_eq_evalP (cs : List K) (x : K) {w : K} (hw : w ≠ 0) :
    hEval cs x w = w ^ (cs.length - 1) * evalP cs (x / w) := by
  induction cs with
  | nil => simp
  | cons a p ih =>
    rw [hEval_cons, evalP_cons, ih, List.length_cons, Nat.add_sub_cancel]
    cases p with
    | nil => simp
    | cons b p =>
      rw [List.length_cons, Nat.add_sub_cancel]
      field_simp
      ring

/-- subtraction-free form of `hEval_eq_evalP` -/
theorem hEval_mul_eq (cs : List K) (x : K) {w : K} (hw : w ≠ 0) :
    hEval cs x w * w = w ^ cs.length * evalP cs (x / w) := by
  rw [hEval_eq_evalP cs x hw]
  cases cs with
  | nil => simp
  | cons a p => rw [List.length_cons, Nat.add_sub_cancel]; ring

end field

end IsoPoly
end PP
