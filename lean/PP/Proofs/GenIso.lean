/-
The definitions REGENERATED from the Rust source by /verif/extract/extract_iso.py (`PP/Gen/Iso.lean`,
namespace `PP.Gen.I`: the generic isogeny evaluation `eval_iso` and its two callers `isogeny_map` for G1 and
G2) are equal to the hand-written model (`PP.evalIso`, `PP.iso11`, `PP.iso3` of `PP/Model/Map.lean`).

The generated `I.evalIso` is the IMPERATIVE code: three fixed-size arrays (`tmp`, `mapvals`, `zpows`) as
lists, every read an `xs[i]?`, every write a checked `I.setIdx`, the `split_at_mut` views as index
shifts, the loops as `I.loop` over the mutated arrays, `none` = panic.  The model is FUNCTIONAL (an `Array`
built by a fold, one `List.map` + Horner `foldl` per polynomial).  So the equality is a loop-invariant
proof:
  * `zpLoop_eq`     the loop that fills `zpows` never panics for `2 ≤ n ≤ 16` and yields the model's table
                    (`isoZpows_toList`): invariant "length 15, entry 0 is z²", one iteration = one step of
                    the model's fold (`zpBody_eq`);
  * `scaleLoop_inv` after `k` iterations of the scaling loop `tmp[j] = c[clen-1-j] * zpows[j]` for `j < k`;
  * `hornerLoop_eq` the Horner loop through `mapvals[idx]` is the model's `foldl`;
  * `outerBody_eq`  one iteration of `for idx in 0..4` stores the model's `isoMapval` in `mapvals[idx]`;
  * `tailPart_eq`   the straight-line recombination through the aliases `xx yy zz` of `tmp[0..3]`.
`evalIso_some` puts them together (the Rust does not panic and returns the model's value when every
coefficient slice has between 1 -- `ynum`: 2 -- and 16 entries); `evalIso_none` shows that the generated
code panics for ALL other lengths, so `evalIso_eq` is an unconditional characterisation.

The bodies of the loops are restated here (`zpBody`, `scaleBody`, `hornerBody`, `outerBody`, `tailPart`)
and `evalIso_struct` checks BY `rfl` that the generated definition is built from exactly these: any edit
of the Rust (hence of the generated text) breaks that `rfl`.  Nothing here evaluates field arithmetic:
the proofs are generic in the coefficient type `F` (only `+ * 0 sq`), no ring law is used.

Core Lean only; axioms: `propext`, `Classical.choice`, `Quot.sound` (via `simp` / `omega` / `by_cases`).
-/
import PP.Gen.Iso
import PP.Proofs.GenArith

set_option linter.unusedSimpArgs false
set_option linter.unusedSectionVars false
set_option linter.unusedVariables false

namespace PP.GenIsoLemmas
open PP PP.Gen PP.GenArithLemmas

/-! ## the primitives -/

section prim
variable {α σ : Type}

theorem setIdx_of_lt {xs : List α} {i : Nat} (h : i < xs.length) (v : α) :
    I.setIdx xs i v = some (xs.set i v) := by simp [I.setIdx, h]

theorem setIdx_of_ge {xs : List α} {i : Nat} (h : xs.length ≤ i) (v : α) :
    I.setIdx xs i v = none := by simp [I.setIdx]; omega

theorem usub_of_le {a b : Nat} (h : b ≤ a) : I.usub a b = some (a - b) := by simp [I.usub, h]

theorem usub_of_lt {a b : Nat} (h : a < b) : I.usub a b = none := by simp [I.usub]; omega

theorem ex_get {l : List α} {i : Nat} (h : i < l.length) : ∃ v, l[i]? = some v :=
  ⟨l[i], List.getElem?_eq_getElem h⟩

theorem loop_nil (s : σ) (f : σ → α → Option σ) : I.loop [] s f = some s := rfl

theorem loop_cons (x : α) (xs : List α) (s : σ) (f : σ → α → Option σ) :
    I.loop (x :: xs) s f = (f s x).bind (fun s' => I.loop xs s' f) := by
  cases h : f s x <;> simp [I.loop, h]

theorem loop_append (l1 l2 : List α) (s : σ) (f : σ → α → Option σ) :
    I.loop (l1 ++ l2) s f = (I.loop l1 s f).bind (fun s' => I.loop l2 s' f) := by
  induction l1 generalizing s with
  | nil => simp [I.loop]
  | cons x xs ih =>
    simp only [List.cons_append, loop_cons]
    cases f s x with
    | none => simp
    | some s' => simp [ih]

/-- a loop whose body panics at one element for every state panics -/
theorem loop_none_of_mem {l : List α} {x : α} (hx : x ∈ l) (f : σ → α → Option σ) (hf : ∀ s, f s x = none)
    (s : σ) : I.loop l s f = none := by
  obtain ⟨l1, l2, rfl⟩ := List.append_of_mem hx
  rw [loop_append]
  cases I.loop l1 s f with
  | none => rfl
  | some s' => simp [loop_cons, hf]

/-- invariants of a loop that does not panic -/
theorem loop_inv (P : σ → Prop) (f : σ → α → Option σ) (hf : ∀ s x s', P s → f s x = some s' → P s')
    (l : List α) (s s' : σ) (hs : P s) (h : I.loop l s f = some s') : P s' := by
  induction l generalizing s with
  | nil => simp [I.loop] at h; exact h ▸ hs
  | cons x xs ih =>
    rw [loop_cons] at h
    cases hx : f s x with
    | none => simp [hx] at h
    | some s1 => rw [hx] at h; exact ih s1 (hf s x s1 hs hx) h

end prim

section generic
variable {F : Type} [Add F] [Mul F] [Zero F] [FieldOps F]

/-! ## the table of powers of `z` -/

/-- body of `for idx in 1..coeffs[2].len() - 2` (text of the generated lambda) -/
def zpBody (zpows : List F) (idx : Nat) : Option (List F) := do
  if idx % 2 = 0 then
    let x6 ← I.usub (idx / 2) 1
    let x7 ← I.viewGet zpows 1 14 x6
    let zpows ← I.viewSet zpows 1 14 idx x7
    let x8 ← I.viewGet zpows 1 14 idx
    let zpows := zpows.set (1 + idx) (sq x8)
    pure zpows
  else
    let x6 ← I.usub idx 1
    let x7 ← I.viewGet zpows 1 14 x6
    let zpows ← I.viewSet zpows 1 14 idx x7
    let x8 ← I.viewGet zpows 0 1 0
    let x9 ← I.viewGet zpows 1 14 idx
    let zpows := zpows.set (1 + idx) (x9 * x8)
    pure zpows

/-- one step of the model's fold (`isoZpows`), on lists, as a function of `idx = k + 1` -/
def gL (z2 : F) (l : List F) (idx : Nat) : List F :=
  if idx % 2 = 0 then l.set (idx + 1) (sq (l.getD (idx / 2 - 1 + 1) 0))
  else l.set (idx + 1) ((l.getD (idx - 1 + 1) 0) * z2)

theorem gL_length (z2 : F) (l : List F) (idx : Nat) : (gL z2 l idx).length = l.length := by
  unfold gL; split <;> simp

theorem gL_zero (z2 : F) (l : List F) (idx : Nat) : (gL z2 l idx)[0]? = l[0]? := by
  unfold gL; split <;> simp [List.getElem?_set]

theorem zpBody_eq (z2 : F) (l : List F) (idx : Nat) (h1 : 1 ≤ idx) (h2 : idx < 14) (hl : l.length = 15)
    (h0 : l[0]? = some z2) : zpBody l idx = some (gL z2 l idx) := by
  unfold zpBody gL
  have e5 : idx + 1 < 15 := by omega
  obtain ⟨_, h0'⟩ := List.getElem?_eq_some_iff.mp h0
  split
  · next he =>
    have e1 : 1 ≤ idx / 2 := by omega
    have e2 : idx / 2 - 1 < 14 := by omega
    obtain ⟨v, hv⟩ := ex_get (l := l) (i := idx / 2) (by omega)
    simp [I.usub, I.viewGet, I.viewSet, I.setIdx, e1, e2, h2, hl, hv, e5, Nat.add_comm, List.getElem?_set_self,
      List.set_set]
  · next he =>
    have e2 : idx - 1 < 14 := by omega
    obtain ⟨v, hv⟩ := ex_get (l := l) (i := idx) (by omega)
    simp [I.usub, I.viewGet, I.viewSet, I.setIdx, h1, e2, h2, hl, hv, e5, h0', Nat.add_comm,
      List.getElem?_set_self, List.set_set]

/-- the loop never panics on indices `1 ≤ idx < 14` and is the fold of the model's step -/
theorem zpLoop_eq (z2 : F) (L : List Nat) (hL : ∀ i ∈ L, 1 ≤ i ∧ i < 14) (l : List F) (hl : l.length = 15)
    (h0 : l[0]? = some z2) : I.loop L l zpBody = some (L.foldl (gL z2) l) := by
  induction L generalizing l with
  | nil => rfl
  | cons i L ih =>
    have hi := hL i (by simp)
    rw [loop_cons, zpBody_eq z2 l i hi.1 hi.2 hl h0]
    simp only [Option.bind_some, List.foldl_cons]
    exact ih (fun j hj => hL j (by simp [hj])) _ (by rw [gL_length, hl]) (by rw [gL_zero, h0])

/-- the loop panics when it reaches `idx = 14` (`rest` has 14 entries) -/
theorem zpBody_14 (l : List F) : zpBody l 14 = none := by
  unfold zpBody
  simp [I.usub, I.viewGet, I.viewSet]

/-- a loop that does not panic keeps the length of the table -/
theorem zpBody_length (l l' : List F) (idx : Nat) (h : zpBody l idx = some l') : l'.length = l.length := by
  unfold zpBody at h
  simp only [I.usub, I.viewGet, I.viewSet, I.setIdx, Option.bind_eq_bind, Option.pure_def] at h
  split at h
  all_goals
    simp only [Option.bind_eq_some_iff] at h
    obtain ⟨a, ha, h⟩ := h
    obtain ⟨b, hb, h⟩ := h
    obtain ⟨c, hc, h⟩ := h
    obtain ⟨d, hd, h⟩ := h
    have hc' : c.length = l.length := by
      split at hc
      · split at hc
        · simp at hc; rw [← hc]; simp
        · simp at hc
      · simp at hc
    first
      | (simp at h; rw [← h]; simpa using hc')
      | (obtain ⟨e, he, h⟩ := h; simp at h; rw [← h]; simpa using hc')

/-- the model's table as a list -/
def zpInitL (z : F) : List F := ((List.replicate 15 (0 : F)).set 0 (sq z)).set 1 (sq (sq z))

theorem foldl_toList (z2 : F) (L : List Nat) (a : Array F) :
    (L.foldl (fun (zp : Array F) k =>
      let idx := k + 1
      if idx % 2 = 0 then zp.set! (idx + 1) (sq (zp.getD (idx / 2 - 1 + 1) 0))
      else zp.set! (idx + 1) ((zp.getD (idx - 1 + 1) 0) * z2)) a).toList =
    L.foldl (fun l k => gL z2 l (k + 1)) a.toList := by
  induction L generalizing a with
  | nil => rfl
  | cons k L ih =>
    simp only [List.foldl_cons]
    rw [ih]
    congr 1
    unfold gL
    split <;> simp [Array.set!_eq_setIfInBounds, Array.getD_eq_getD_getElem?, List.getD_eq_getElem?_getD]

theorem isoZpows_toList (z : F) (n : Nat) :
    (isoZpows z n).toList = (List.range' 1 (n - 2 - 1)).foldl (gL (sq z)) (zpInitL z) := by
  unfold isoZpows
  dsimp only
  rw [foldl_toList, List.range'_eq_map_range, List.foldl_map]
  simp only [Nat.add_comm 1, zpInitL, Array.set!_eq_setIfInBounds, Array.toList_setIfInBounds,
    Array.toList_replicate]

/-! ## one map value -/

/-- body of `for jdx in 0..clen` (text of the generated lambda) -/
def scaleBody (coeffs : List (List F)) (zpows : List F) (idx clen : Nat) (tmp : List F) (jdx : Nat) :
    Option (List F) := do
  let x7 ← coeffs[idx]?
  let x8 ← I.usub clen 1
  let x9 ← I.usub x8 jdx
  let x10 ← x7[x9]?
  let tmp ← I.setIdx tmp jdx x10
  let x11 ← zpows[jdx]?
  let x12 ← tmp[jdx]?
  let tmp := tmp.set jdx (x12 * x11)
  pure tmp

/-- body of `for tmpval in &tmp[..clen]` (text of the generated lambda) -/
def hornerBody (x : F) (idx : Nat) (mapvals : List F) (tmpval : F) : Option (List F) := do
  let x10 ← mapvals[idx]?
  let mapvals := mapvals.set idx (x10 * x)
  let x11 ← mapvals[idx]?
  let mapvals := mapvals.set idx (x11 + tmpval)
  pure mapvals

/-- body of `for idx in 0..4` (text of the generated lambda) -/
def outerBody (coeffs : List (List F)) (zpows : List F) (x : F) :
    List F × List F → Nat → Option (List F × List F) :=
  fun (tmp, mapvals) idx => do
    let x6 ← coeffs[idx]?
    let clen ← I.usub x6.length 1
    let tmp ← I.loop (List.range clen) tmp (scaleBody coeffs zpows idx clen)
    let x7 ← coeffs[idx]?
    let x8 ← x7[clen]?
    let mapvals ← I.setIdx mapvals idx x8
    let x9 ← I.sliceTo tmp clen
    let mapvals ← I.loop x9 mapvals (hornerBody x idx)
    pure (tmp, mapvals)

/-- the scaled coefficient the model puts at position `j` -/
def scaled (cs zp : List F) (clen j : Nat) : F := cs.getD (clen - 1 - j) 0 * zp.getD j 0

theorem scaleBody_eq (coeffs : List (List F)) (zp cs : List F) (idx clen : Nat) (t : List F) (j : Nat)
    (hc : coeffs[idx]? = some cs) (hcs : cs.length = clen + 1) (hj : j < clen) (h15 : clen ≤ 15)
    (hzp : zp.length = 15) (ht : t.length = 16) :
    scaleBody coeffs zp idx clen t j = some (t.set j (scaled cs zp clen j)) := by
  unfold scaleBody scaled
  have e1 : 1 ≤ clen := by omega
  have e2 : j ≤ clen - 1 := by omega
  obtain ⟨v, hv⟩ := ex_get (l := cs) (i := clen - 1 - j) (by omega)
  obtain ⟨w, hw⟩ := ex_get (l := zp) (i := j) (by omega)
  have e3 : j < 16 := by omega
  simp [I.usub, I.setIdx, hc, e1, e2, hv, hw, ht, e3, List.getElem?_set_self, List.set_set,
    List.getD_eq_getElem?_getD]

/-- loop invariant of the scaling loop: after `k` iterations the first `k` entries are the scaled
    coefficients (the other entries are not read afterwards) -/
theorem scaleLoop_inv (coeffs : List (List F)) (zp cs : List F) (idx clen : Nat)
    (hc : coeffs[idx]? = some cs) (hcs : cs.length = clen + 1) (h15 : clen ≤ 15) (hzp : zp.length = 15)
    (t : List F) (ht : t.length = 16) (k : Nat) (hk : k ≤ clen) :
    ∃ t', I.loop (List.range k) t (scaleBody coeffs zp idx clen) = some t' ∧ t'.length = 16 ∧
      ∀ j, j < k → t'[j]? = some (scaled cs zp clen j) := by
  induction k with
  | zero => exact ⟨t, rfl, ht, fun j hj => absurd hj (Nat.not_lt_zero j)⟩
  | succ k ih =>
    obtain ⟨t1, h1, hl1, hv1⟩ := ih (by omega)
    refine ⟨t1.set k (scaled cs zp clen k), ?_, by simp [hl1], ?_⟩
    · rw [List.range_succ, loop_append, h1]
      simp only [Option.bind_some, loop_cons, loop_nil]
      rw [scaleBody_eq coeffs zp cs idx clen t1 k hc hcs (by omega) h15 hzp hl1]
      rfl
    · intro j hj
      by_cases hjk : j = k
      · subst hjk; rw [List.getElem?_set_self (by omega)]
      · rw [List.getElem?_set_ne (fun h => hjk h.symm)]
        exact hv1 j (by omega)

theorem hornerLoop_eq (x : F) (idx : Nat) (L : List F) (m : List F) (v : F) (hv : m[idx]? = some v) :
    I.loop L m (hornerBody x idx) = some (m.set idx (L.foldl (fun acc t => acc * x + t) v)) := by
  induction L generalizing m v with
  | nil =>
    obtain ⟨h, rfl⟩ := List.getElem?_eq_some_iff.mp hv
    simp [loop_nil]
  | cons a L ih =>
    obtain ⟨h, hv'⟩ := List.getElem?_eq_some_iff.mp hv
    have hb : hornerBody x idx m a = some (m.set idx (v * x + a)) := by
      unfold hornerBody
      simp [hv, h, hv', List.getElem?_set_self, List.set_set]
    rw [loop_cons, hb]
    simp only [Option.bind_some, List.foldl_cons]
    rw [ih (m.set idx (v * x + a)) (v * x + a) (by simp [List.getElem?_set_self, h])]
    simp [List.set_set]

theorem isoMapval_list (zpA : Array F) (x : F) (cs : List F) :
    isoMapval zpA x cs = ((List.range (cs.length - 1)).map (scaled cs zpA.toList (cs.length - 1))).foldl
      (fun acc t => acc * x + t) (cs.getD (cs.length - 1) 0) := by
  unfold isoMapval scaled
  simp [Array.getD_eq_getD_getElem?, List.getD_eq_getElem?_getD]

/-- one iteration of `for idx in 0..4`: `mapvals[idx]` receives the model's map value; `tmp` keeps its length -/
theorem outerBody_eq (coeffs : List (List F)) (zpA : Array F) (x : F) (cs t m : List F) (idx : Nat)
    (hc : coeffs[idx]? = some cs) (h1 : 1 ≤ cs.length) (h16 : cs.length ≤ 16) (hzp : zpA.toList.length = 15)
    (ht : t.length = 16) (hm : idx < m.length) :
    ∃ t', outerBody coeffs zpA.toList x (t, m) idx = some (t', m.set idx (isoMapval zpA x cs)) ∧
      t'.length = 16 := by
  obtain ⟨clen, hclen⟩ : ∃ clen, cs.length = clen + 1 := ⟨cs.length - 1, by omega⟩
  obtain ⟨t', hloop, hl', hv'⟩ := scaleLoop_inv coeffs zpA.toList cs idx clen hc hclen (by omega) hzp t ht clen
    (Nat.le_refl _)
  refine ⟨t', ?_, hl'⟩
  obtain ⟨c, hcl⟩ := ex_get (l := cs) (i := clen) (by omega)
  have htake : t'.take clen = (List.range clen).map (scaled cs zpA.toList clen) := by
    apply List.ext_getElem?
    intro i
    by_cases hi : i < clen
    · simp [List.getElem?_take, hi, hv' i hi]
    · simp [List.getElem?_take, hi]
  have hcle : clen ≤ t'.length := by omega
  unfold outerBody
  simp only [hc, Option.bind_eq_bind, Option.bind_some, Option.pure_def, hclen, usub_of_le (Nat.le_add_left 1 clen),
    Nat.add_sub_cancel, hloop, hcl, setIdx_of_lt hm, I.sliceTo, hcle, if_true, htake]
  rw [hornerLoop_eq x idx _ (m.set idx c) c (by simp [List.getElem?_set_self, hm])]
  simp only [Option.bind_some, List.set_set, isoMapval_list, hclen, Nat.add_sub_cancel]
  simp [List.getD_eq_getElem?_getD, hcl]

/-! ## the recombination, and the shape of the generated definition -/

/-- the straight-line code after the loops (text of the generated lines) -/
def tailPart (pt : Jac F) (y z : F) (zpows tmp mapvals : List F) : Option (Jac F) := do
  let x6 ← zpows[0]?
  let x7 ← mapvals[1]?
  let mapvals := mapvals.set 1 (x7 * x6)
  let x8 ← mapvals[2]?
  let mapvals := mapvals.set 2 (x8 * y)
  let x9 ← mapvals[3]?
  let mapvals := mapvals.set 3 (x9 * z)
  let x10 ← zpows[0]?
  let x11 ← mapvals[3]?
  let mapvals := mapvals.set 3 (x11 * x10)
  let x12 ← mapvals[1]?
  let tmp ← I.setIdx tmp 2 x12
  let x13 ← mapvals[3]?
  let x14 ← tmp[2]?
  let tmp := tmp.set 2 (x14 * x13)
  let x15 ← mapvals[0]?
  let tmp ← I.setIdx tmp 0 x15
  let x16 ← mapvals[3]?
  let x17 ← tmp[0]?
  let tmp := tmp.set 0 (x17 * x16)
  let x18 ← tmp[2]?
  let x19 ← tmp[0]?
  let tmp := tmp.set 0 (x19 * x18)
  let x20 ← tmp[2]?
  let tmp ← I.setIdx tmp 1 x20
  let x21 ← tmp[1]?
  let tmp := tmp.set 1 (sq x21)
  let x22 ← mapvals[2]?
  let x23 ← tmp[1]?
  let tmp := tmp.set 1 (x23 * x22)
  let x24 ← mapvals[1]?
  let x25 ← tmp[1]?
  let tmp := tmp.set 1 (x25 * x24)
  let x26 ← tmp[0]?
  let pt := { pt with x := x26 }
  let x27 ← tmp[1]?
  let pt := { pt with y := x27 }
  let x28 ← tmp[2]?
  let pt := { pt with z := x28 }
  pure pt

/-- the code after the first two entries of `zpows` have been set -/
def afterInit (pt : Jac F) (coeffs : List (List F)) (zpows : List F) : Option (Jac F) := do
  let x4 ← coeffs[2]?
  let x5 ← I.usub x4.length 2
  let zpows ← I.loop (List.range' 1 (x5 - 1)) zpows zpBody
  let (tmp, mapvals) ← I.loop (List.range 4) (List.replicate 16 (0 : F), List.replicate 4 (0 : F))
    (outerBody coeffs zpows pt.x)
  tailPart pt pt.y pt.z zpows tmp mapvals

/-- the generated definition consists of exactly the pieces restated in this file: after unfolding the
    names the two sides are the same term (up to beta / the `match` on the coordinate triple) -/
theorem evalIso_struct (pt : Jac F) (coeffs : List (List F)) : I.evalIso pt coeffs = (do
    let zpows := List.replicate 15 (0 : F)
    let zpows ← I.setIdx zpows 0 pt.z
    let x1 ← zpows[0]?
    let zpows := zpows.set 0 (sq x1)
    let x2 ← zpows[0]?
    let zpows ← I.setIdx zpows 1 x2
    let x3 ← zpows[1]?
    let zpows := zpows.set 1 (sq x3)
    afterInit pt coeffs zpows) := by
  delta I.evalIso afterInit tailPart outerBody scaleBody hornerBody zpBody
  with_reducible rfl

theorem tailPart_eq (pt : Jac F) (y z w : F) (zp tmp : List F) (m0 m1 m2 m3 : F) (hw : zp[0]? = some w)
    (ht : tmp.length = 16) :
    tailPart pt y z zp tmp [m0, m1, m2, m3] =
      some (let m1 := m1 * w
            let m2 := m2 * y
            let m3 := (m3 * z) * w
            let zz := m1 * m3
            let xx := (m0 * m3) * zz
            let yy := (sq zz * m2) * m1
            ⟨xx, yy, zz⟩) := by
  unfold tailPart
  simp [hw, I.setIdx, ht, List.getElem?_set]

theorem zpPrefix_eq (z : F) (k : List F → Option (Jac F)) :
    (do
      let zpows := List.replicate 15 (0 : F)
      let zpows ← I.setIdx zpows 0 z
      let x1 ← zpows[0]?
      let zpows := zpows.set 0 (sq x1)
      let x2 ← zpows[0]?
      let zpows ← I.setIdx zpows 1 x2
      let x3 ← zpows[1]?
      let zpows := zpows.set 1 (sq x3)
      k zpows) = k (zpInitL z) := by
  simp [I.setIdx, zpInitL, List.getElem?_set]

theorem zpInitL_length (z : F) : (zpInitL z).length = 15 := by simp [zpInitL]
theorem zpInitL_zero (z : F) : (zpInitL z)[0]? = some (sq z) := by simp [zpInitL, List.getElem?_set]

theorem isoZpows_length (z : F) (n : Nat) : (isoZpows z n).toList.length = 15 := by
  rw [isoZpows_toList]
  generalize List.range' 1 (n - 2 - 1) = L
  suffices h : ∀ l : List F, l.length = 15 → (L.foldl (gL (sq z)) l).length = 15 from h _ (zpInitL_length z)
  induction L with
  | nil => intro l hl; exact hl
  | cons i L ih => intro l hl; exact ih _ (by rw [gL_length, hl])

theorem isoZpows_zero (z : F) (n : Nat) : (isoZpows z n).toList[0]? = some (sq z) := by
  rw [isoZpows_toList]
  generalize List.range' 1 (n - 2 - 1) = L
  suffices h : ∀ l : List F, l[0]? = some (sq z) → (L.foldl (gL (sq z)) l)[0]? = some (sq z) from
    h _ (zpInitL_zero z)
  induction L with
  | nil => intro l hl; exact hl
  | cons i L ih => intro l hl; exact ih _ (by rw [gL_zero, hl])

/-- THE EQUALITY, non-panicking half: when every coefficient slice has between 1 (`ynum`: 2) and 16
    entries, the Rust code does not panic and returns the model's value -/
theorem evalIso_some (p : Jac F) (a b c d : List F) (ha : 1 ≤ a.length ∧ a.length ≤ 16)
    (hb : 1 ≤ b.length ∧ b.length ≤ 16) (hc : 2 ≤ c.length ∧ c.length ≤ 16)
    (hd : 1 ≤ d.length ∧ d.length ≤ 16) :
    I.evalIso p [a, b, c, d] = some (PP.evalIso a b c d p) := by
  rw [evalIso_struct, zpPrefix_eq]
  unfold afterInit
  have hzl : I.loop (List.range' 1 (c.length - 2 - 1)) (zpInitL p.z) zpBody = some (isoZpows p.z c.length).toList := by
    rw [isoZpows_toList]
    apply zpLoop_eq (sq p.z) _ _ _ (zpInitL_length _) (zpInitL_zero _)
    intro i hi
    rw [List.mem_range'_1] at hi
    omega
  have hzp := isoZpows_length p.z c.length
  obtain ⟨t0, e0, l0⟩ := outerBody_eq [a, b, c, d] (isoZpows p.z c.length) p.x a (List.replicate 16 0)
    (List.replicate 4 0) 0 rfl ha.1 ha.2 hzp (by simp) (by simp)
  obtain ⟨t1, e1, l1⟩ := outerBody_eq [a, b, c, d] (isoZpows p.z c.length) p.x b t0
    ((List.replicate 4 0).set 0 (isoMapval (isoZpows p.z c.length) p.x a)) 1 rfl hb.1 hb.2 hzp l0 (by simp)
  obtain ⟨t2, e2, l2⟩ := outerBody_eq [a, b, c, d] (isoZpows p.z c.length) p.x c t1
    (((List.replicate 4 0).set 0 (isoMapval (isoZpows p.z c.length) p.x a)).set 1
      (isoMapval (isoZpows p.z c.length) p.x b)) 2 rfl (by omega) hc.2 hzp l1 (by simp)
  obtain ⟨t3, e3, l3⟩ := outerBody_eq [a, b, c, d] (isoZpows p.z c.length) p.x d t2
    ((((List.replicate 4 0).set 0 (isoMapval (isoZpows p.z c.length) p.x a)).set 1
      (isoMapval (isoZpows p.z c.length) p.x b)).set 2 (isoMapval (isoZpows p.z c.length) p.x c)) 3 rfl
    hd.1 hd.2 hzp l2 (by simp)
  have h4 : List.range 4 = [0, 1, 2, 3] := rfl
  simp only [List.getElem?_cons_succ, List.getElem?_cons_zero, Option.bind_eq_bind, Option.bind_some,
    usub_of_le hc.1, hzl, h4, loop_cons, loop_nil, e0, e1, e2, e3]
  have hm : ((((List.replicate 4 (0 : F)).set 0 (isoMapval (isoZpows p.z c.length) p.x a)).set 1
      (isoMapval (isoZpows p.z c.length) p.x b)).set 2 (isoMapval (isoZpows p.z c.length) p.x c)).set 3
      (isoMapval (isoZpows p.z c.length) p.x d) =
      [isoMapval (isoZpows p.z c.length) p.x a, isoMapval (isoZpows p.z c.length) p.x b,
       isoMapval (isoZpows p.z c.length) p.x c, isoMapval (isoZpows p.z c.length) p.x d] := rfl
  rw [hm, tailPart_eq p p.y p.z (sq p.z) _ t3 _ _ _ _ (isoZpows_zero _ _) l3]
  have hw : (isoZpows p.z c.length).getD 0 0 = sq p.z := by
    have := isoZpows_zero p.z c.length
    simp [Array.getD_eq_getD_getElem?] at this ⊢
    simp [this]
  unfold PP.evalIso
  simp only [hw]

/-! ## the panicking half: for all other lengths the Rust code panics -/

theorem scaleBody_15 (coeffs : List (List F)) (zp : List F) (idx clen : Nat) (t : List F)
    (hzp : zp.length = 15) : scaleBody coeffs zp idx clen t 15 = none := by
  have h : zp[15]? = none := by simp [hzp]
  unfold scaleBody
  simp [h]

theorem outerBody_none (coeffs : List (List F)) (zp : List F) (x : F) (cs : List F) (idx : Nat)
    (hc : coeffs[idx]? = some cs) (hzp : zp.length = 15) (hcs : cs.length = 0 ∨ 17 ≤ cs.length)
    (s : List F × List F) : outerBody coeffs zp x s idx = none := by
  obtain ⟨t, m⟩ := s
  unfold outerBody
  rcases hcs with h0 | h17
  · simp [hc, h0, I.usub]
  · have hl : I.loop (List.range (cs.length - 1)) t (scaleBody coeffs zp idx (cs.length - 1)) = none :=
      loop_none_of_mem (x := 15) (by simp; omega) _ (fun t' => scaleBody_15 coeffs zp idx _ t' hzp) t
    simp [hc, usub_of_le (show 1 ≤ cs.length by omega), hl]

theorem evalIso_none (p : Jac F) (a b c d : List F)
    (h : ¬ ((1 ≤ a.length ∧ a.length ≤ 16) ∧ (1 ≤ b.length ∧ b.length ≤ 16) ∧ (2 ≤ c.length ∧ c.length ≤ 16) ∧
      (1 ≤ d.length ∧ d.length ≤ 16))) :
    I.evalIso p [a, b, c, d] = none := by
  rw [evalIso_struct, zpPrefix_eq]
  unfold afterInit
  simp only [List.getElem?_cons_succ, List.getElem?_cons_zero, Option.bind_eq_bind, Option.bind_some]
  by_cases hc2 : c.length < 2
  · simp [usub_of_lt hc2]
  · rw [usub_of_le (by omega)]
    simp only [Option.bind_some]
    by_cases hc16 : 16 < c.length
    · have : I.loop (List.range' 1 (c.length - 2 - 1)) (zpInitL p.z) zpBody = none :=
        loop_none_of_mem (x := 14) (by rw [List.mem_range'_1]; omega) _ zpBody_14 _
      simp [this]
    · cases hz : I.loop (List.range' 1 (c.length - 2 - 1)) (zpInitL p.z) zpBody with
      | none => rfl
      | some zp =>
        have hzp : zp.length = 15 :=
          loop_inv (fun l : List F => l.length = 15) zpBody
            (fun l i l' hl hl' => by rw [zpBody_length l l' i hl', hl]) _ _ _ (zpInitL_length p.z) hz
        simp only [Option.bind_some]
        have hbad : ∃ idx cs, idx ∈ List.range 4 ∧ [a, b, c, d][idx]? = some cs ∧
            (cs.length = 0 ∨ 17 ≤ cs.length) := by
          by_cases h0 : 1 ≤ a.length ∧ a.length ≤ 16
          · by_cases h1 : 1 ≤ b.length ∧ b.length ≤ 16
            · have h3 : ¬ (1 ≤ d.length ∧ d.length ≤ 16) := fun h3 => h ⟨h0, h1, ⟨by omega, by omega⟩, h3⟩
              exact ⟨3, d, by simp, rfl, by omega⟩
            · exact ⟨1, b, by simp, rfl, by omega⟩
          · exact ⟨0, a, by simp, rfl, by omega⟩
        obtain ⟨idx, cs, hmem, hget, hlen⟩ := hbad
        rw [loop_none_of_mem hmem _ (outerBody_none [a, b, c, d] zp p.x cs idx hget hzp hlen)]
        rfl

/-- THE EQUALITY: the generated `eval_iso` is the model's `evalIso` wherever the Rust code does not
    panic, and it panics exactly when a coefficient slice is empty or longer than 16 (`ynum`: shorter than 2) -/
theorem evalIso_eq (p : Jac F) (a b c d : List F) :
    I.evalIso p [a, b, c, d] =
      if (1 ≤ a.length ∧ a.length ≤ 16) ∧ (1 ≤ b.length ∧ b.length ≤ 16) ∧ (2 ≤ c.length ∧ c.length ≤ 16) ∧
        (1 ≤ d.length ∧ d.length ≤ 16) then some (PP.evalIso a b c d p) else none := by
  split
  · next h => exact evalIso_some p a b c d h.1 h.2.1 h.2.2.1 h.2.2.2
  · next h => exact evalIso_none p a b c d h

/-- whatever the generated `eval_iso` returns is the model's value -/
theorem evalIso_of_some_eq (p r : Jac F) (a b c d : List F) (h : I.evalIso p [a, b, c, d] = some r) :
    r = PP.evalIso a b c d p := by
  rw [evalIso_eq] at h
  split at h
  · exact (Option.some.inj h).symm
  · exact absurd h (by simp)

end generic

/-! ## the two callers: `IsogenyMap for G1`, `IsogenyMap for G2` -/

theorem iso11_table_lengths : (Gen.ISO11_XNUM.map Fq.ofMont).length = 12 ∧ (Gen.ISO11_XDEN.map Fq.ofMont).length = 11 ∧
    (Gen.ISO11_YNUM.map Fq.ofMont).length = 16 ∧ (Gen.ISO11_YDEN.map Fq.ofMont).length = 16 := by
  simp only [List.length_map]; exact ⟨rfl, rfl, rfl, rfl⟩

theorem iso3_table_lengths : (Gen.ISO3_XNUM.map Fq2.ofMont).length = 4 ∧ (Gen.ISO3_XDEN.map Fq2.ofMont).length = 3 ∧
    (Gen.ISO3_YNUM.map Fq2.ofMont).length = 4 ∧ (Gen.ISO3_YDEN.map Fq2.ofMont).length = 4 := by
  simp only [List.length_map]; exact ⟨rfl, rfl, rfl, rfl⟩

/-- `isogeny_map` for G1 never panics and is the model's `iso11` -/
theorem G1_isogenyMap_eq : I.G1.isogenyMap = fun p => some (PP.iso11 p) := by
  funext p
  obtain ⟨h0, h1, h2, h3⟩ := iso11_table_lengths
  unfold I.G1.isogenyMap
  rw [evalIso_some p _ _ _ _ (by rw [h0]; omega) (by rw [h1]; omega) (by rw [h2]; omega) (by rw [h3]; omega)]
  rfl

/-- `isogeny_map` for G2 never panics and is the model's `iso3` -/
theorem G2_isogenyMap_eq : I.G2.isogenyMap = fun p => some (PP.iso3 p) := by
  funext p
  obtain ⟨h0, h1, h2, h3⟩ := iso3_table_lengths
  unfold I.G2.isogenyMap
  rw [@evalIso_some Fq2 A.Fq2.instAdd A.Fq2.instMul A.Fq2.instZero A.Fq2.instFieldOps p _ _ _ _
    (by rw [h0]; omega) (by rw [h1]; omega) (by rw [h2]; omega) (by rw [h3]; omega)]
  rw [Fq2_instAdd_eq', Fq2_instMul_eq', Fq2_instZero_eq', Fq2_instFieldOps_eq']
  rfl

end PP.GenIsoLemmas
