/-
Curve orders, the bridge between kernel computations in the executable model and statements in
Mathlib's group `(W b).Point`:

* `smulJ k A n` is the model's double-and-add (`mul_bits`) over the `64k`-bit expansion of `n`; for
  `n < 2^(64k)` it denotes `n • A` (`Aff.mulBits_limbs_spec` of C07).  Hence `n • A = 0`, `n • A ≠ 0`
  and `n • A = B` are decided by evaluating `isZero` / `toAffine` of a concrete Jacobian triple.
* `omegaA β A = (β x, y)` denotes `ω A`.
-/
import PP.Proofs.Subgroup
import PP.Proofs.CurveOrderOmega

set_option linter.unusedSectionVars false

namespace PP.CurveOrder

open WeierstrassCurve.Affine

/-! ## a strict double-and-add

The kernel evaluates lazily: `List.foldl` over `n` bits first builds an `n`-fold nested thunk and then
evaluates it from the outside, which overflows the kernel's stack beyond ~500 bits.  `mulBitsS` is
the same loop, but inspects the accumulator (`acc' = acc'`, decided coordinate by coordinate) before
going on, so that the thunks stay shallow. -/

section strict
variable {F : Type} [Add F] [Sub F] [Mul F] [Neg F] [Zero F] [One F] [FieldOps F] [DecidableEq F]

/-- `mul_bits` with a forced accumulator -/
def mulBitsS (p : Aff F) : List Bool → Jac F → Jac F
  | [], acc => acc
  | i :: bs, acc =>
    let acc' := (let res := acc.double; if i then res.addMixed p else res)
    if acc' = acc' then mulBitsS p bs acc' else mulBitsS p bs acc'

theorem mulBitsS_eq (p : Aff F) (bits : List Bool) (acc : Jac F) :
    mulBitsS p bits acc =
      bits.foldl (fun res i => let res := res.double; if i then res.addMixed p else res) acc := by
  induction bits generalizing acc with
  | nil => rfl
  | cons i bs ih => rw [mulBitsS, ite_self, ih, List.foldl_cons]

/-- `[n] A` by double-and-add over `k` limbs -/
def smulJ (k : ℕ) (A : Aff F) (n : ℕ) : Jac F := mulBitsS A (bitsMSB (limbsOf k n)) Jac.zero

theorem smulJ_eq (k : ℕ) (A : Aff F) (n : ℕ) : smulJ k A n = A.mulBits (bitsMSB (limbsOf k n)) :=
  mulBitsS_eq A _ _

end strict

section generic
variable {F : Type} [Field F] [DecidableEq F] [FieldOps F] [LawfulFieldOps F]
variable {b : F} [ShortW b]

theorem smulJ_spec {A : Aff F} (hA : Aff.OnCurve b A) {k n : ℕ} (hn : n < 2 ^ (64 * k)) :
    Jac.OnCurve b (smulJ k A n) ∧ Jac.abs b (smulJ k A n) = n • Aff.abs b A := by
  have h := Aff.mulBits_limbs_spec hA k n
  rwa [Nat.mod_eq_of_lt hn, ← smulJ_eq] at h

theorem nsmul_eq_zero_of_isZero {A : Aff F} (hA : Aff.OnCurve b A) {k n : ℕ} (hn : n < 2 ^ (64 * k))
    (h : (smulJ k A n).isZero = true) : n • Aff.abs b A = 0 := by
  obtain ⟨hoc, habs⟩ := smulJ_spec hA hn
  rw [← habs]
  exact (C01.isZero_iff hoc).mp h

theorem nsmul_ne_zero_of_isZero {A : Aff F} (hA : Aff.OnCurve b A) {k n : ℕ} (hn : n < 2 ^ (64 * k))
    (h : (smulJ k A n).isZero = false) : n • Aff.abs b A ≠ 0 := by
  obtain ⟨hoc, habs⟩ := smulJ_spec hA hn
  rw [← habs]
  intro h0
  rw [(C01.isZero_iff hoc).mpr h0] at h
  cases h

theorem nsmul_eq_of_toAffine {A B : Aff F} (hA : Aff.OnCurve b A) {k n : ℕ} (hn : n < 2 ^ (64 * k))
    (h : (smulJ k A n).toAffine = some B) : Aff.OnCurve b B ∧ n • Aff.abs b A = Aff.abs b B := by
  obtain ⟨hoc, habs⟩ := smulJ_spec hA hn
  obtain ⟨B', hB', hocB, habsB⟩ := Jac.toAffine_spec hoc
  rw [h] at hB'
  cases hB'
  exact ⟨hocB, by rw [← habs, habsB]⟩

/-- a non-identity affine record on the curve denotes a non-zero point -/
theorem abs_ne_zero {A : Aff F} (hA : Aff.OnCurve b A) (hi : A.infinity = false) :
    Aff.abs b A ≠ 0 := by
  rw [Ne, Aff.abs_eq_zero_iff hA, hi]
  exact Bool.false_ne_true

/-- `(x, y) ↦ (β x, y)` on affine records -/
def omegaA (β : F) (A : Aff F) : Aff F := ⟨β * A.x, A.y, A.infinity⟩

theorem omegaA_spec {β : F} (hβ : β ^ 2 + β + 1 = 0) {A : Aff F} (hA : Aff.OnCurve b A) :
    Aff.OnCurve b (omegaA β A) ∧ omega hβ (Aff.abs b A) = Aff.abs b (omegaA β A) := by
  by_cases hi : A.infinity = true
  · have hB : Aff.OnCurve b (omegaA β A) := Or.inl hi
    refine ⟨hB, ?_⟩
    rw [Aff.abs_of_infinity hi, Aff.abs_of_infinity (A := omegaA β A) hi, map_zero]
  · have hi' : A.infinity = false := by simpa using hi
    have e : A.y ^ 2 = A.x ^ 3 + b := hA.resolve_left hi
    have hB : Aff.OnCurve b (omegaA β A) := by
      right
      show A.y ^ 2 = (β * A.x) ^ 3 + b
      linear_combination e - A.x ^ 3 * beta_cube hβ
    refine ⟨hB, ?_⟩
    rw [Aff.abs_of_not_infinity hA hi', Aff.abs_of_not_infinity (A := omegaA β A) hB hi', omega_some]
    rfl

/-- `ω Y ≠ m • Y`, decided by one scalar multiplication and one comparison of affine records -/
theorem omega_ne_nsmul {β : F} (hβ : β ^ 2 + β + 1 = 0) {Y : Aff F} (hY : Aff.OnCurve b Y)
    (hi : Y.infinity = false) {k m : ℕ} (hm : m < 2 ^ (64 * k))
    (h : (smulJ k Y m).toAffine ≠ some (omegaA β Y)) :
    omega hβ (Aff.abs b Y) ≠ m • Aff.abs b Y := by
  intro e
  obtain ⟨hoc, habs⟩ := smulJ_spec hY hm
  obtain ⟨Z, hZ, hocZ, habsZ⟩ := Jac.toAffine_spec hoc
  obtain ⟨hocW, hW⟩ := omegaA_spec hβ hY
  have e2 : Aff.abs b Z = Aff.abs b (omegaA β Y) := by rw [habsZ, habs, ← e, hW]
  obtain ⟨h1, h2⟩ := Aff.abs_injective hocZ hocW e2
  have hZi : Z.infinity = false := by rw [h1]; exact hi
  obtain ⟨hx, hy⟩ := h2 hZi
  apply h
  rw [hZ]
  congr 1
  clear hm habs hoc hZ e h
  cases Z
  simp only [omegaA] at *
  simp_all

end generic

end PP.CurveOrder
