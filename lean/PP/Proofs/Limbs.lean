/-
Limb-level arithmetic facts (C08): the executable `List Nat` model of `ff`'s `PrimeFieldRepr`
(`PP.Mont.addNocarry`, `subNoborrow`, `div2`, `mul2`, `shr`, `shl`, `numBits`, `isOdd`, `isZero`,
`cmp`) computes the corresponding operations on the integer `limbsToNat`, for ANY number of limbs,
and the byte-string conversions `beBytes/beToNat`, `leBytes/leToNat` are mutually inverse.
-/
import Mathlib.Tactic.Ring
import Mathlib.Tactic.Linarith
import Mathlib.Tactic.NormNum
import Mathlib.Tactic.Positivity
import Mathlib.Tactic.SplitIfs
import PP.Model.Mont
import PP.Model.Enc

namespace PP.Limbs
open PP PP.Mont

/-! ## 10. byte strings -/

theorem two_pow_eight : (2 : Nat) ^ 8 = 256 := by norm_num

@[simp] theorem beBytes_length (len n : Nat) : (beBytes len n).length = len := by
  induction len with
  | zero => rfl
  | succ k ih => simp [beBytes, ih]

theorem beToNat_foldl (bs : Bytes) (acc : Nat) :
    bs.foldl (fun acc b => acc * 256 + b.toNat) acc = acc * 256 ^ bs.length + beToNat bs := by
  unfold beToNat
  induction bs generalizing acc with
  | nil => simp
  | cons b bs ih =>
    simp only [List.foldl_cons, List.length_cons]
    rw [ih (acc * 256 + b.toNat), ih (0 * 256 + b.toNat)]
    ring

theorem beToNat_nil : beToNat [] = 0 := rfl

theorem beToNat_cons (b : UInt8) (bs : Bytes) :
    beToNat (b :: bs) = b.toNat * 256 ^ bs.length + beToNat bs := by
  conv_lhs => unfold beToNat
  rw [List.foldl_cons, beToNat_foldl]
  simp

theorem beToNat_lt (bs : Bytes) : beToNat bs < 256 ^ bs.length := by
  induction bs with
  | nil => simp [beToNat_nil]
  | cons b bs ih =>
    rw [beToNat_cons, List.length_cons, Nat.pow_succ]
    have hb : b.toNat < 256 := b.toNat_lt
    have : b.toNat * 256 ^ bs.length ≤ 255 * 256 ^ bs.length :=
      Nat.mul_le_mul_right _ (by omega)
    omega

theorem beToNat_beBytes (len n : Nat) : beToNat (beBytes len n) = n % 256 ^ len := by
  induction len with
  | zero => simp [beBytes, beToNat_nil, Nat.mod_one]
  | succ k ih =>
    rw [beBytes, beToNat_cons, ih, beBytes_length, UInt8.toNat_ofNat', two_pow_eight,
      Nat.shiftRight_eq_div_pow, Nat.pow_mul, two_pow_eight, Nat.mod_mod, Nat.pow_succ (n := 256) (m := k),
      Nat.mod_mul (a := 256 ^ k) (b := 256)]
    ring

/-- `beBytes len` only looks at `n mod 256^m` for `m ≥ len` -/
theorem beBytes_mod {len m : Nat} (h : len ≤ m) (n : Nat) :
    beBytes len (n % 256 ^ m) = beBytes len n := by
  induction len with
  | zero => rfl
  | succ k ih =>
    rw [beBytes, beBytes, ih (by omega)]
    congr 2
    rw [Nat.shiftRight_eq_div_pow, Nat.shiftRight_eq_div_pow, Nat.pow_mul, two_pow_eight]
    rw [← Nat.mod_mul_right_div_self, ← Nat.mod_mul_right_div_self n, ← Nat.pow_succ,
      Nat.mod_mod_of_dvd _ (Nat.pow_dvd_pow 256 h)]

theorem beBytes_beToNat {len : Nat} {bs : Bytes} (h : bs.length = len) :
    beBytes len (beToNat bs) = bs := by
  induction bs generalizing len with
  | nil => subst h; rfl
  | cons b bs ih =>
    subst h
    rw [List.length_cons, beBytes]
    have hlt := beToNat_lt bs
    have hb : b.toNat < 256 := b.toNat_lt
    congr 1
    · rw [beToNat_cons, Nat.shiftRight_eq_div_pow, Nat.pow_mul, two_pow_eight]
      rw [Nat.add_comm, Nat.add_mul_div_right _ _ (Nat.pos_of_ne_zero (by positivity)),
        Nat.div_eq_of_lt hlt, Nat.zero_add, Nat.mod_eq_of_lt hb, UInt8.ofNat_toNat]
    · rw [← beBytes_mod (Nat.le_refl _), beToNat_cons, Nat.add_comm, Nat.add_mul_mod_self_right,
        Nat.mod_eq_of_lt hlt, ih rfl]

@[simp] theorem leBytes_length (len n : Nat) : (leBytes len n).length = len := by
  induction len generalizing n with
  | zero => rfl
  | succ k ih => simp [leBytes, ih]

@[simp] theorem leToNat_nil : leToNat [] = 0 := rfl
@[simp] theorem leToNat_cons (b : UInt8) (bs : Bytes) :
    leToNat (b :: bs) = b.toNat + 256 * leToNat bs := rfl

theorem leToNat_lt (bs : Bytes) : leToNat bs < 256 ^ bs.length := by
  induction bs with
  | nil => simp
  | cons b bs ih =>
    rw [leToNat_cons, List.length_cons, Nat.pow_succ]
    have hb : b.toNat < 256 := b.toNat_lt
    omega

theorem leToNat_leBytes (len n : Nat) : leToNat (leBytes len n) = n % 256 ^ len := by
  induction len generalizing n with
  | zero => simp [leBytes, Nat.mod_one]
  | succ k ih =>
    rw [leBytes, leToNat_cons, ih, UInt8.toNat_ofNat', two_pow_eight, Nat.pow_succ, Nat.mul_comm (256 ^ k),
      Nat.mod_mul (a := 256) (b := 256 ^ k), Nat.mod_mod]

theorem leBytes_leToNat {len : Nat} {bs : Bytes} (h : bs.length = len) :
    leBytes len (leToNat bs) = bs := by
  induction bs generalizing len with
  | nil => subst h; rfl
  | cons b bs ih =>
    subst h
    have hb : b.toNat < 256 := b.toNat_lt
    rw [List.length_cons, leBytes, leToNat_cons]
    have h1 : (b.toNat + 256 * leToNat bs) % 256 = b.toNat := by omega
    have h2 : (b.toNat + 256 * leToNat bs) / 256 = leToNat bs := by omega
    rw [h1, h2, ih rfl, UInt8.ofNat_toNat]


@[simp] theorem W64_eq_pow : W64 = 2 ^ 64 := rfl

/-- every limb is a `u64` -/
def LimbsOK (ls : List Nat) : Prop := ∀ l ∈ ls, l < 2 ^ 64

@[simp] theorem LimbsOK_nil : LimbsOK [] := by intro l h; cases h

@[simp] theorem LimbsOK_cons {l : Nat} {ls : List Nat} :
    LimbsOK (l :: ls) ↔ l < 2 ^ 64 ∧ LimbsOK ls := by
  simp [LimbsOK]

theorem LimbsOK_append {xs ys : List Nat} : LimbsOK (xs ++ ys) ↔ LimbsOK xs ∧ LimbsOK ys := by
  simp [LimbsOK, or_imp, forall_and]

theorem pow64_succ (n : Nat) : 2 ^ (64 * (n + 1)) = 2 ^ 64 * 2 ^ (64 * n) := by
  rw [Nat.mul_succ, Nat.pow_add, Nat.mul_comm]

@[simp] theorem limbsToNat_nil : limbsToNat [] = 0 := rfl
@[simp] theorem limbsToNat_cons (l : Nat) (ls : List Nat) :
    limbsToNat (l :: ls) = l + 2 ^ 64 * limbsToNat ls := rfl

/-! ## 1. `limbsToNat` / `limbsOf` -/

theorem limbsToNat_lt {a : List Nat} (h : LimbsOK a) : limbsToNat a < 2 ^ (64 * a.length) := by
  induction a with
  | nil => simp
  | cons l ls ih =>
    rw [LimbsOK_cons] at h
    have ih := ih h.2
    rw [List.length_cons, pow64_succ, limbsToNat_cons]
    have := Nat.mul_le_mul_left (2 ^ 64) (Nat.succ_le_of_lt ih)
    omega

@[simp] theorem limbsOf_length (n x : Nat) : (limbsOf n x).length = n := by
  induction n generalizing x with
  | zero => rfl
  | succ k ih => simp [limbsOf, ih]

theorem limbsOf_ok (n x : Nat) : LimbsOK (limbsOf n x) := by
  induction n generalizing x with
  | zero => simp [limbsOf]
  | succ k ih =>
    simp only [limbsOf, LimbsOK_cons]
    exact ⟨Nat.mod_lt _ (by norm_num), ih _⟩

theorem limbsToNat_limbsOf (n x : Nat) : limbsToNat (limbsOf n x) = x % 2 ^ (64 * n) := by
  induction n generalizing x with
  | zero => simp [limbsOf, Nat.mod_one]
  | succ k ih =>
    simp only [limbsOf, limbsToNat_cons, ih, pow64_succ]
    rw [Nat.mod_mul]

theorem limbsToNat_limbsOf_of_lt {n x : Nat} (h : x < 2 ^ (64 * n)) :
    limbsToNat (limbsOf n x) = x := by
  rw [limbsToNat_limbsOf, Nat.mod_eq_of_lt h]

theorem limbsOf_limbsToNat {n : Nat} {a : List Nat} (h : LimbsOK a) (hl : a.length = n) :
    limbsOf n (limbsToNat a) = a := by
  induction a generalizing n with
  | nil => subst hl; rfl
  | cons l ls ih =>
    subst hl
    rw [LimbsOK_cons] at h
    simp only [List.length_cons, limbsOf, limbsToNat_cons]
    have h1 : (l + 2 ^ 64 * limbsToNat ls) % 2 ^ 64 = l := by omega
    have h2 : (l + 2 ^ 64 * limbsToNat ls) / 2 ^ 64 = limbsToNat ls := by omega
    rw [h1, h2, ih h.2 rfl]

/-- `limbsToNat` is injective on well-formed limb lists of the same length -/
theorem limbsToNat_injective {a b : List Nat} (ha : LimbsOK a) (hb : LimbsOK b)
    (hl : a.length = b.length) (h : limbsToNat a = limbsToNat b) : a = b := by
  rw [← limbsOf_limbsToNat ha rfl, ← limbsOf_limbsToNat hb rfl, hl, h]

theorem limbsToNat_append (xs ys : List Nat) :
    limbsToNat (xs ++ ys) = limbsToNat xs + 2 ^ (64 * xs.length) * limbsToNat ys := by
  induction xs with
  | nil => simp
  | cons x xs ih =>
    simp only [List.cons_append, limbsToNat_cons, ih, List.length_cons, pow64_succ]
    ring

/-! ## 2. `addNocarry` -/

@[simp] theorem addNocarry_cons (a b c : Nat) (as bs : List Nat) :
    addNocarry (a :: as) (b :: bs) c
      = ((a + b + c) % 2 ^ 64) :: addNocarry as bs ((a + b + c) / 2 ^ 64) := rfl

@[simp] theorem addNocarry_nil_left (bs : List Nat) (c : Nat) : addNocarry [] bs c = [] := by
  cases bs <;> rfl
@[simp] theorem addNocarry_nil_right (as : List Nat) (c : Nat) : addNocarry as [] c = [] := by
  cases as <;> rfl

theorem addNocarry_length {a b : List Nat} (c : Nat) (hl : a.length = b.length) :
    (addNocarry a b c).length = a.length := by
  induction a generalizing b c with
  | nil => simp
  | cons x xs ih =>
    cases b with
    | nil => simp at hl
    | cons y ys =>
      simp only [List.length_cons, Nat.add_right_cancel_iff] at hl
      simp [ih _ hl]

theorem addNocarry_ok (a b : List Nat) (c : Nat) : LimbsOK (addNocarry a b c) := by
  induction a generalizing b c with
  | nil => simp
  | cons x xs ih =>
    cases b with
    | nil => simp
    | cons y ys =>
      simp only [addNocarry_cons, LimbsOK_cons]
      exact ⟨Nat.mod_lt _ (by norm_num), ih _ _⟩

/-- `add_nocarry` is addition modulo `2^(64 n)` (any incoming carry) -/
theorem limbsToNat_addNocarry_carry {a b : List Nat} (c : Nat) (hl : a.length = b.length) :
    limbsToNat (addNocarry a b c) = (limbsToNat a + limbsToNat b + c) % 2 ^ (64 * a.length) := by
  induction a generalizing b c with
  | nil => simp [Nat.mod_one]
  | cons x xs ih =>
    cases b with
    | nil => simp at hl
    | cons y ys =>
      simp only [List.length_cons, Nat.add_right_cancel_iff] at hl
      simp only [addNocarry_cons, limbsToNat_cons, ih _ hl, List.length_cons, pow64_succ]
      rw [Nat.mod_mul (x := x + 2 ^ 64 * limbsToNat xs + (y + 2 ^ 64 * limbsToNat ys) + c)]
      have e : x + 2 ^ 64 * limbsToNat xs + (y + 2 ^ 64 * limbsToNat ys) + c
          = (x + y + c) + 2 ^ 64 * (limbsToNat xs + limbsToNat ys) := by ring
      rw [e, Nat.add_mul_mod_self_left, Nat.add_mul_div_left _ _ (by norm_num : 0 < 2 ^ 64)]
      congr 3
      ring

/-- with the dropped final carry made explicit -/
theorem limbsToNat_addNocarry_add_carry {a b : List Nat} (c : Nat) (hl : a.length = b.length) :
    limbsToNat (addNocarry a b c)
      + 2 ^ (64 * a.length) * ((limbsToNat a + limbsToNat b + c) / 2 ^ (64 * a.length))
      = limbsToNat a + limbsToNat b + c := by
  rw [limbsToNat_addNocarry_carry c hl]
  exact Nat.mod_add_div _ _

/-- the dropped final carry is a bit when the incoming carry is -/
theorem addNocarry_carry_le_one {a b : List Nat} {c : Nat} (ha : LimbsOK a) (hb : LimbsOK b)
    (hc : c ≤ 1) (hl : a.length = b.length) :
    (limbsToNat a + limbsToNat b + c) / 2 ^ (64 * a.length) ≤ 1 := by
  have hA := limbsToNat_lt ha
  have hB := limbsToNat_lt hb
  rw [← hl] at hB
  have hX : 0 < 2 ^ (64 * a.length) := Nat.pos_of_ne_zero (by positivity)
  rw [← Nat.lt_succ_iff, Nat.div_lt_iff_lt_mul hX]
  omega

theorem limbsToNat_addNocarry {a b : List Nat} (hl : a.length = b.length) :
    limbsToNat (addNocarry a b 0) = (limbsToNat a + limbsToNat b) % 2 ^ (64 * a.length) := by
  simpa using limbsToNat_addNocarry_carry 0 hl

theorem limbsToNat_addNocarry_of_lt {a b : List Nat} (hl : a.length = b.length)
    (h : limbsToNat a + limbsToNat b < 2 ^ (64 * a.length)) :
    limbsToNat (addNocarry a b 0) = limbsToNat a + limbsToNat b := by
  rw [limbsToNat_addNocarry hl, Nat.mod_eq_of_lt h]

/-! ## 3. `subNoborrow` -/

@[simp] theorem subNoborrow_cons (a b c : Nat) (as bs : List Nat) :
    subNoborrow (a :: as) (b :: bs) c
      = ((2 ^ 64 + a - b - c) % 2 ^ 64) ::
          subNoborrow as bs (if (2 ^ 64 + a - b - c) / 2 ^ 64 = 0 then 1 else 0) := rfl

@[simp] theorem subNoborrow_nil_left (bs : List Nat) (c : Nat) : subNoborrow [] bs c = [] := by
  cases bs <;> rfl
@[simp] theorem subNoborrow_nil_right (as : List Nat) (c : Nat) : subNoborrow as [] c = [] := by
  cases as <;> rfl

theorem subNoborrow_length {a b : List Nat} (c : Nat) (hl : a.length = b.length) :
    (subNoborrow a b c).length = a.length := by
  induction a generalizing b c with
  | nil => simp
  | cons x xs ih =>
    cases b with
    | nil => simp at hl
    | cons y ys =>
      simp only [List.length_cons, Nat.add_right_cancel_iff] at hl
      simp [ih _ hl]

theorem subNoborrow_ok (a b : List Nat) (c : Nat) : LimbsOK (subNoborrow a b c) := by
  induction a generalizing b c with
  | nil => simp
  | cons x xs ih =>
    cases b with
    | nil => simp
    | cons y ys =>
      simp only [subNoborrow_cons, LimbsOK_cons]
      exact ⟨Nat.mod_lt _ (by norm_num), ih _ _⟩

/-- existential borrow-out form -/
theorem limbsToNat_subNoborrow_exists {a b : List Nat} {c : Nat} (ha : LimbsOK a) (hb : LimbsOK b)
    (hc : c ≤ 1) (hl : a.length = b.length) :
    ∃ bo, bo ≤ 1 ∧ limbsToNat (subNoborrow a b c) + limbsToNat b + c
        = limbsToNat a + 2 ^ (64 * a.length) * bo := by
  induction a generalizing b c with
  | nil =>
    cases b with
    | nil => exact ⟨c, hc, by simp⟩
    | cons y ys => simp at hl
  | cons x xs ih =>
    cases b with
    | nil => simp at hl
    | cons y ys =>
      simp only [List.length_cons, Nat.add_right_cancel_iff] at hl
      rw [LimbsOK_cons] at ha hb
      have hc' : (if (2 ^ 64 + x - y - c) / 2 ^ 64 = 0 then 1 else 0) ≤ 1 := by split <;> omega
      obtain ⟨bo, hbo, e⟩ := ih ha.2 hb.2 hc' hl
      refine ⟨bo, hbo, ?_⟩
      simp only [subNoborrow_cons, limbsToNat_cons, List.length_cons, pow64_succ]
      generalize limbsToNat (subNoborrow xs ys _) = R at e
      generalize limbsToNat xs = A at e
      generalize limbsToNat ys = B at e
      have e2 : (2 ^ 64 + x - y - c) % 2 ^ 64 + y + c
          = x + 2 ^ 64 * (if (2 ^ 64 + x - y - c) / 2 ^ 64 = 0 then 1 else 0) := by
        split <;> omega
      generalize (if (2 ^ 64 + x - y - c) / 2 ^ 64 = 0 then 1 else 0) = c' at e e2
      generalize (2 ^ 64 + x - y - c) % 2 ^ 64 = s at e2
      rw [Nat.mul_assoc]
      generalize 2 ^ (64 * xs.length) * bo = Z at e
      omega

/-- `sub_noborrow` with the dropped final borrow made explicit -/
theorem limbsToNat_subNoborrow_add {a b : List Nat} {c : Nat} (ha : LimbsOK a) (hb : LimbsOK b)
    (hc : c ≤ 1) (hl : a.length = b.length) :
    limbsToNat (subNoborrow a b c) + limbsToNat b + c
      = limbsToNat a
        + 2 ^ (64 * a.length) * (if limbsToNat a < limbsToNat b + c then 1 else 0) := by
  obtain ⟨bo, hbo, e⟩ := limbsToNat_subNoborrow_exists ha hb hc hl
  have hr := limbsToNat_lt (subNoborrow_ok a b c)
  rw [subNoborrow_length c hl] at hr
  have hA := limbsToNat_lt ha
  rw [e]
  have : bo = 0 ∨ bo = 1 := by omega
  rcases this with rfl | rfl
  · rw [if_neg (by omega)]
  · rw [if_pos (by omega)]

/-- `sub_noborrow` is subtraction modulo `2^(64 n)` (incoming borrow `c ≤ 1`) -/
theorem limbsToNat_subNoborrow_borrow {a b : List Nat} {c : Nat} (ha : LimbsOK a) (hb : LimbsOK b)
    (hc : c ≤ 1) (hl : a.length = b.length) :
    limbsToNat (subNoborrow a b c)
      = (limbsToNat a + 2 ^ (64 * a.length) - limbsToNat b - c) % 2 ^ (64 * a.length) := by
  have e := limbsToNat_subNoborrow_add ha hb hc hl
  have hr := limbsToNat_lt (subNoborrow_ok a b c)
  rw [subNoborrow_length c hl] at hr
  have hB := limbsToNat_lt hb
  rw [← hl] at hB
  generalize 2 ^ (64 * a.length) = X at *
  split at e
  · rw [Nat.mod_eq_of_lt (by omega)]; omega
  · have : limbsToNat a + X - limbsToNat b - c = limbsToNat (subNoborrow a b c) + X := by omega
    rw [this, Nat.add_mod_right, Nat.mod_eq_of_lt hr]

theorem limbsToNat_subNoborrow {a b : List Nat} (ha : LimbsOK a) (hb : LimbsOK b)
    (hl : a.length = b.length) :
    limbsToNat (subNoborrow a b 0)
      = (limbsToNat a + 2 ^ (64 * a.length) - limbsToNat b) % 2 ^ (64 * a.length) := by
  simpa using limbsToNat_subNoborrow_borrow ha hb (Nat.zero_le 1) hl

theorem limbsToNat_subNoborrow_of_le {a b : List Nat} (ha : LimbsOK a) (hb : LimbsOK b)
    (hl : a.length = b.length) (h : limbsToNat b ≤ limbsToNat a) :
    limbsToNat (subNoborrow a b 0) = limbsToNat a - limbsToNat b := by
  have e := limbsToNat_subNoborrow_add ha hb (Nat.zero_le 1) hl
  rw [if_neg (by omega)] at e
  omega


/-! ## 7. `isOdd`, `isZero` -/

theorem isOdd_eq (a : List Nat) : isOdd a = (limbsToNat a % 2 == 1) := by
  cases a with
  | nil => rfl
  | cons l ls =>
    simp only [isOdd, List.headD_cons, Nat.and_one_is_mod, limbsToNat_cons]
    congr 1
    omega

theorem isOdd_iff (a : List Nat) : isOdd a = true ↔ limbsToNat a % 2 = 1 := by
  rw [isOdd_eq]; simp

theorem isZero_iff (a : List Nat) : isZero a = true ↔ limbsToNat a = 0 := by
  induction a with
  | nil => simp [isZero]
  | cons l ls ih =>
    simp only [isZero, List.all_cons, Bool.and_eq_true, beq_iff_eq, limbsToNat_cons] at ih ⊢
    rw [ih]
    omega

theorem isZero_eq (a : List Nat) : isZero a = (limbsToNat a == 0) := by
  rw [Bool.eq_iff_iff, isZero_iff]; simp

/-! ## 8. `cmp` -/

/-- comparison step of `cmp` -/
def cmpStep (acc : Int) (x : Nat × Nat) : Int :=
  if acc ≠ 0 then acc else if x.1 < x.2 then -1 else if x.1 > x.2 then 1 else 0

theorem cmp_eq_foldr {a b : List Nat} (hl : a.length = b.length) :
    Mont.cmp a b = (List.zip a b).foldr (fun x acc => cmpStep acc x) 0 := by
  unfold Mont.cmp
  rw [show List.zip a.reverse b.reverse = (List.zip a b).reverse from by
    unfold List.zip; exact (List.reverse_zipWith hl).symm]
  rw [List.foldl_reverse]
  rfl

theorem cmp_arith {x y A B : Nat} (hx : x < 2 ^ 64) (hy : y < 2 ^ 64) :
    cmpStep (if A < B then -1 else if A > B then 1 else 0) (x, y)
      = if x + 2 ^ 64 * A < y + 2 ^ 64 * B then -1
        else if x + 2 ^ 64 * A > y + 2 ^ 64 * B then 1 else 0 := by
  unfold cmpStep
  split_ifs <;> omega

theorem cmp_eq {a b : List Nat} (ha : LimbsOK a) (hb : LimbsOK b) (hl : a.length = b.length) :
    Mont.cmp a b = if limbsToNat a < limbsToNat b then -1
              else if limbsToNat a > limbsToNat b then 1 else 0 := by
  rw [cmp_eq_foldr hl]
  induction a generalizing b with
  | nil =>
    cases b with
    | nil => simp
    | cons y ys => simp at hl
  | cons x xs ih =>
    cases b with
    | nil => simp at hl
    | cons y ys =>
      simp only [List.length_cons, Nat.add_right_cancel_iff] at hl
      rw [LimbsOK_cons] at ha hb
      simp only [List.zip_cons_cons, List.foldr_cons]
      rw [ih ha.2 hb.2 hl]
      exact cmp_arith ha.1 hb.1

theorem cmp_eq_neg_one_iff {a b : List Nat} (ha : LimbsOK a) (hb : LimbsOK b)
    (hl : a.length = b.length) : Mont.cmp a b = -1 ↔ limbsToNat a < limbsToNat b := by
  rw [cmp_eq ha hb hl]; split <;> [simp [*]; (split <;> simp [*])]

theorem cmp_eq_zero_iff {a b : List Nat} (ha : LimbsOK a) (hb : LimbsOK b)
    (hl : a.length = b.length) : Mont.cmp a b = 0 ↔ limbsToNat a = limbsToNat b := by
  rw [cmp_eq ha hb hl]; split <;> [skip; split] <;> simp <;> omega

theorem cmp_eq_one_iff {a b : List Nat} (ha : LimbsOK a) (hb : LimbsOK b)
    (hl : a.length = b.length) : Mont.cmp a b = 1 ↔ limbsToNat b < limbsToNat a := by
  rw [cmp_eq ha hb hl]; split <;> [skip; split] <;> simp <;> omega

/-! ## 4/5. bit shifts -/

theorem two_pow_split {n : Nat} (h : n ≤ 64) : 2 ^ n * 2 ^ (64 - n) = 2 ^ 64 := by
  rw [← Nat.pow_add]; congr 1; omega

/-- `x ||| y = x + y` when `x < 2^k` and `y` is a multiple of `2^k` -/
theorem or_eq_add_of_lt_of_mul {k x y : Nat} (hx : x < 2 ^ k) : x ||| (y * 2 ^ k) = x + y * 2 ^ k := by
  rw [Nat.or_comm, Nat.mul_comm, ← Nat.two_pow_add_eq_or_of_lt hx, Nat.add_comm]

/-- lemma-friendly recursive form of `shrBits` (top limb first via recursion):
    returns the shifted limbs and the bits shifted out of the lowest limb (placed at the top) -/
def shrAux (n : Nat) : List Nat → List Nat × Nat
  | [] => ([], 0)
  | l :: ls => (((l >>> n) ||| (shrAux n ls).2) :: (shrAux n ls).1, (l <<< (64 - n)) % W64)

theorem shrBits_eq_shrAux (ls : List Nat) (n : Nat) : shrBits ls n = (shrAux n ls).1 := by
  unfold shrBits
  rw [List.foldl_reverse]
  congr 1
  induction ls with
  | nil => rfl
  | cons l ls ih => rw [List.foldr_cons, ih]; rfl

theorem div2_eq_shrBits (ls : List Nat) : div2 ls = shrBits ls 1 := rfl

theorem shrAux_length (n : Nat) (ls : List Nat) : (shrAux n ls).1.length = ls.length := by
  induction ls with
  | nil => rfl
  | cons l ls ih => simp [shrAux, ih]

theorem shrAux_spec {n : Nat} (hn : n ≤ 64) {ls : List Nat} (h : LimbsOK ls) :
    LimbsOK (shrAux n ls).1 ∧ limbsToNat (shrAux n ls).1 = limbsToNat ls / 2 ^ n ∧
      (shrAux n ls).2 = (limbsToNat ls % 2 ^ n) * 2 ^ (64 - n) := by
  induction ls with
  | nil => simp [shrAux]
  | cons l ls ih =>
    rw [LimbsOK_cons] at h
    obtain ⟨ok, hv, hc⟩ := ih h.2
    have hW := two_pow_split hn
    have hl : l / 2 ^ n < 2 ^ (64 - n) := by
      rw [Nat.div_lt_iff_lt_mul (Nat.pos_of_ne_zero (by positivity)), Nat.mul_comm, hW]; exact h.1
    have hor : (l >>> n ||| (shrAux n ls).2)
        = l / 2 ^ n + (limbsToNat ls % 2 ^ n) * 2 ^ (64 - n) := by
      rw [hc, Nat.shiftRight_eq_div_pow, or_eq_add_of_lt_of_mul hl]
    have hP : 0 < 2 ^ n := Nat.pos_of_ne_zero (by positivity)
    have hQ : 0 < 2 ^ (64 - n) := Nat.pos_of_ne_zero (by positivity)
    have hsh : (l <<< (64 - n)) % W64 = (l % 2 ^ n) * 2 ^ (64 - n) := by
      rw [Nat.shiftLeft_eq, W64_eq_pow, ← hW, Nat.mul_mod_mul_right]
    simp only [shrAux, LimbsOK_cons, limbsToNat_cons, hor, hv, hsh]
    generalize limbsToNat ls = V at *
    generalize 2 ^ n = P at *
    generalize 2 ^ (64 - n) = Q at *
    refine ⟨⟨?_, ok⟩, ?_, ?_⟩
    · have : V % P < P := Nat.mod_lt _ hP
      have : (V % P + 1) * Q ≤ P * Q := Nat.mul_le_mul_right _ this
      rw [← hW]
      nlinarith
    · have e : (l + P * Q * V) / P = l / P + Q * V := by
        rw [Nat.mul_assoc, Nat.add_mul_div_left _ _ hP]
      rw [← hW, e]
      conv_rhs => rw [← Nat.div_add_mod V P]
      ring
    · rw [← hW, Nat.mul_assoc, Nat.add_mul_mod_self_left]

theorem shrBits_length (ls : List Nat) (n : Nat) : (shrBits ls n).length = ls.length := by
  rw [shrBits_eq_shrAux, shrAux_length]

theorem shrBits_ok {ls : List Nat} {n : Nat} (h : LimbsOK ls) (hn : n ≤ 64) :
    LimbsOK (shrBits ls n) := by
  rw [shrBits_eq_shrAux]; exact (shrAux_spec hn h).1

theorem limbsToNat_shrBits {ls : List Nat} {n : Nat} (h : LimbsOK ls) (hn : n ≤ 64) :
    limbsToNat (shrBits ls n) = limbsToNat ls / 2 ^ n := by
  rw [shrBits_eq_shrAux]; exact (shrAux_spec hn h).2.1

theorem div2_length (ls : List Nat) : (div2 ls).length = ls.length := shrBits_length ls 1
theorem div2_ok {ls : List Nat} (h : LimbsOK ls) : LimbsOK (div2 ls) := shrBits_ok h (by norm_num)
theorem limbsToNat_div2 {ls : List Nat} (h : LimbsOK ls) : limbsToNat (div2 ls) = limbsToNat ls / 2 := by
  rw [div2_eq_shrBits, limbsToNat_shrBits h (by norm_num), Nat.pow_one]

/-- lemma-friendly recursive form of `shlBits` (carry passed upwards) -/
def shlAux (n : Nat) : List Nat → Nat → List Nat
  | [], _ => []
  | l :: ls, c => (((l <<< n) % W64) ||| c) :: shlAux n ls (l >>> (64 - n))

theorem shlBits_foldl (n : Nat) (ls acc : List Nat) (c : Nat) :
    (ls.foldl (fun (acc : List Nat × Nat) i =>
      (acc.1 ++ [((i <<< n) % W64) ||| acc.2], i >>> (64 - n))) (acc, c)).1 = acc ++ shlAux n ls c := by
  induction ls generalizing acc c with
  | nil => simp [shlAux]
  | cons l ls ih => rw [List.foldl_cons, ih]; simp [shlAux]

theorem shlBits_eq_shlAux (ls : List Nat) (n : Nat) : shlBits ls n = shlAux n ls 0 := by
  unfold shlBits
  exact (shlBits_foldl n ls [] 0).trans (List.nil_append _)

theorem mul2_eq_shlBits (ls : List Nat) : mul2 ls = shlBits ls 1 := rfl

theorem shlAux_length (n : Nat) (ls : List Nat) (c : Nat) : (shlAux n ls c).length = ls.length := by
  induction ls generalizing c with
  | nil => rfl
  | cons l ls ih => simp [shlAux, ih]

theorem shlAux_spec {n : Nat} (hn : n ≤ 64) {ls : List Nat} (h : LimbsOK ls) {c : Nat} (hc : c < 2 ^ n) :
    LimbsOK (shlAux n ls c) ∧
      limbsToNat (shlAux n ls c) = (limbsToNat ls * 2 ^ n + c) % 2 ^ (64 * ls.length) := by
  induction ls generalizing c with
  | nil => simp [shlAux, Nat.mod_one]
  | cons l ls ih =>
    rw [LimbsOK_cons] at h
    have hW := two_pow_split hn
    have hP : 0 < 2 ^ n := Nat.pos_of_ne_zero (by positivity)
    have hQ : 0 < 2 ^ (64 - n) := Nat.pos_of_ne_zero (by positivity)
    have hc' : l >>> (64 - n) < 2 ^ n := by
      rw [Nat.shiftRight_eq_div_pow, Nat.div_lt_iff_lt_mul hQ, hW]; exact h.1
    obtain ⟨ok, hv⟩ := ih h.2 hc'
    have hor : ((l <<< n) % W64 ||| c) = c + (l % 2 ^ (64 - n)) * 2 ^ n := by
      rw [Nat.shiftLeft_eq, W64_eq_pow, ← hW, Nat.mul_comm (2 ^ n), Nat.mul_mod_mul_right, Nat.or_comm,
        or_eq_add_of_lt_of_mul hc]
    simp only [shlAux, LimbsOK_cons, limbsToNat_cons, hor, hv, List.length_cons, pow64_succ]
    rw [Nat.shiftRight_eq_div_pow] at ok ⊢
    have hlt : c + l % 2 ^ (64 - n) * 2 ^ n < 2 ^ 64 := by
      have : l % 2 ^ (64 - n) < 2 ^ (64 - n) := Nat.mod_lt _ hQ
      have : (l % 2 ^ (64 - n) + 1) * 2 ^ n ≤ 2 ^ (64 - n) * 2 ^ n := Nat.mul_le_mul_right _ this
      rw [← hW]
      nlinarith
    refine ⟨⟨hlt, ok⟩, ?_⟩
    have e : (l + 2 ^ 64 * limbsToNat ls) * 2 ^ n + c
        = (c + l % 2 ^ (64 - n) * 2 ^ n) + 2 ^ 64 * (limbsToNat ls * 2 ^ n + l / 2 ^ (64 - n)) := by
      have := Nat.div_add_mod l (2 ^ (64 - n))
      generalize l / 2 ^ (64 - n) = q at *
      generalize l % 2 ^ (64 - n) = r at *
      rw [← this, ← hW]
      ring
    rw [Nat.mod_mul (x := (l + 2 ^ 64 * limbsToNat ls) * 2 ^ n + c), e, Nat.add_mul_mod_self_left,
      Nat.mod_eq_of_lt hlt, Nat.add_mul_div_left _ _ (by norm_num : 0 < 2 ^ 64),
      Nat.div_eq_of_lt hlt, Nat.zero_add]

theorem shlBits_length (ls : List Nat) (n : Nat) : (shlBits ls n).length = ls.length := by
  rw [shlBits_eq_shlAux, shlAux_length]

theorem shlBits_ok {ls : List Nat} {n : Nat} (h : LimbsOK ls) (hn : n ≤ 64) :
    LimbsOK (shlBits ls n) := by
  rw [shlBits_eq_shlAux]; exact (shlAux_spec hn h (Nat.pos_of_ne_zero (by positivity))).1

theorem limbsToNat_shlBits {ls : List Nat} {n : Nat} (h : LimbsOK ls) (hn : n ≤ 64) :
    limbsToNat (shlBits ls n) = limbsToNat ls * 2 ^ n % 2 ^ (64 * ls.length) := by
  rw [shlBits_eq_shlAux]
  exact (shlAux_spec hn h (Nat.pos_of_ne_zero (by positivity))).2

theorem mul2_length (ls : List Nat) : (mul2 ls).length = ls.length := shlBits_length ls 1
theorem mul2_ok {ls : List Nat} (h : LimbsOK ls) : LimbsOK (mul2 ls) := shlBits_ok h (by norm_num)
theorem limbsToNat_mul2 {ls : List Nat} (h : LimbsOK ls) :
    limbsToNat (mul2 ls) = limbsToNat ls * 2 % 2 ^ (64 * ls.length) := by
  rw [mul2_eq_shlBits, limbsToNat_shlBits h (by norm_num), Nat.pow_one]


/-! ## 5. `shr` / `shl` by an arbitrary number of bits -/

theorem limbsToNat_map_zero (ls : List Nat) : limbsToNat (ls.map (fun _ => 0)) = 0 := by
  induction ls with
  | nil => rfl
  | cons l ls ih => rw [List.map_cons, limbsToNat_cons, ih]; rfl

theorem map_zero_ok (ls : List Nat) : LimbsOK (ls.map (fun _ => 0)) := by
  intro l hl
  rw [List.mem_map] at hl
  obtain ⟨_, _, rfl⟩ := hl
  norm_num

theorem shrLimb_length {ls : List Nat} (h : ls ≠ []) : (shrLimb ls).length = ls.length := by
  cases ls with
  | nil => exact absurd rfl h
  | cons l ls => simp [shrLimb]

theorem shrLimb_ok {ls : List Nat} (h : LimbsOK ls) : LimbsOK (shrLimb ls) := by
  cases ls with
  | nil => simp [shrLimb, LimbsOK]
  | cons l ls =>
    rw [LimbsOK_cons] at h
    simp only [shrLimb, List.drop_succ_cons, List.drop_zero, LimbsOK_append, LimbsOK_cons]
    exact ⟨h.2, by norm_num, LimbsOK_nil⟩

theorem limbsToNat_shrLimb {ls : List Nat} (h : LimbsOK ls) :
    limbsToNat (shrLimb ls) = limbsToNat ls / 2 ^ 64 := by
  cases ls with
  | nil => simp [shrLimb]
  | cons l ls =>
    rw [LimbsOK_cons] at h
    simp only [shrLimb, List.drop_succ_cons, List.drop_zero, limbsToNat_append, limbsToNat_cons,
      limbsToNat_nil]
    omega

theorem shlLimb_length {ls : List Nat} (h : ls ≠ []) : (shlLimb ls).length = ls.length := by
  have := List.length_pos_iff.mpr h
  simp only [shlLimb, List.length_cons, List.length_dropLast]
  omega

theorem LimbsOK_dropLast {ls : List Nat} (h : LimbsOK ls) : LimbsOK ls.dropLast :=
  fun l hl => h l (List.dropLast_subset _ hl)

theorem shlLimb_ok {ls : List Nat} (h : LimbsOK ls) : LimbsOK (shlLimb ls) := by
  simp only [shlLimb, LimbsOK_cons]
  exact ⟨by norm_num, LimbsOK_dropLast h⟩

theorem limbsToNat_dropLast {ls : List Nat} (h : LimbsOK ls) :
    limbsToNat ls.dropLast = limbsToNat ls % 2 ^ (64 * (ls.length - 1)) := by
  rcases List.eq_nil_or_concat ls with rfl | ⟨d, x, rfl⟩
  · simp [Nat.mod_one]
  · rw [List.concat_eq_append] at h ⊢
    rw [LimbsOK_append] at h
    have hlt := limbsToNat_lt h.1
    rw [List.dropLast_concat, limbsToNat_append, List.length_append, List.length_singleton,
      Nat.add_sub_cancel, Nat.add_mul_mod_self_left, Nat.mod_eq_of_lt hlt]

theorem limbsToNat_shlLimb {ls : List Nat} (h : LimbsOK ls) :
    limbsToNat (shlLimb ls) = limbsToNat ls * 2 ^ 64 % 2 ^ (64 * ls.length) := by
  by_cases hne : ls = []
  · subst hne; simp [shlLimb, Nat.mod_one]
  · have hpos := List.length_pos_iff.mpr hne
    obtain ⟨m, hm⟩ : ∃ m, ls.length = m + 1 := ⟨ls.length - 1, by omega⟩
    simp only [shlLimb, limbsToNat_cons, Nat.zero_add, limbsToNat_dropLast h, hm, pow64_succ,
      Nat.add_sub_cancel]
    rw [Nat.mul_comm (limbsToNat ls), Nat.mul_mod_mul_left]

theorem iter_succ {α : Type} (f : α → α) (k : Nat) (a : α) : iter f (k + 1) a = iter f k (f a) := rfl

theorem iter_shrLimb_length {ls : List Nat} (h : ls ≠ []) (k : Nat) :
    (iter shrLimb k ls).length = ls.length := by
  induction k generalizing ls with
  | zero => rfl
  | succ k ih =>
    have hl := shrLimb_length h
    rw [iter_succ, ih (by intro e; rw [e] at hl; exact h (List.length_eq_zero_iff.mp hl.symm)), hl]

theorem iter_shrLimb_spec {ls : List Nat} (h : LimbsOK ls) (k : Nat) :
    LimbsOK (iter shrLimb k ls) ∧ limbsToNat (iter shrLimb k ls) = limbsToNat ls / 2 ^ (64 * k) := by
  induction k generalizing ls with
  | zero => exact ⟨h, by simp [iter]⟩
  | succ k ih =>
    obtain ⟨ok, hv⟩ := ih (shrLimb_ok h)
    refine ⟨ok, ?_⟩
    rw [iter_succ, hv, limbsToNat_shrLimb h, Nat.div_div_eq_div_mul, pow64_succ]

theorem iter_shlLimb_length {ls : List Nat} (h : ls ≠ []) (k : Nat) :
    (iter shlLimb k ls).length = ls.length := by
  induction k generalizing ls with
  | zero => rfl
  | succ k ih =>
    have hl := shlLimb_length h
    rw [iter_succ, ih (by intro e; rw [e] at hl; exact h (List.length_eq_zero_iff.mp hl.symm)), hl]

theorem iter_shlLimb_spec {ls : List Nat} (h : LimbsOK ls) (hne : ls ≠ []) (k : Nat) :
    LimbsOK (iter shlLimb k ls) ∧
      limbsToNat (iter shlLimb k ls) = limbsToNat ls * 2 ^ (64 * k) % 2 ^ (64 * ls.length) := by
  induction k generalizing ls with
  | zero =>
    refine ⟨h, ?_⟩
    simp only [iter, Nat.mul_zero, Nat.pow_zero, Nat.mul_one]
    exact (Nat.mod_eq_of_lt (limbsToNat_lt h)).symm
  | succ k ih =>
    have hl := shlLimb_length hne
    have hne' : shlLimb ls ≠ [] := by
      intro e; rw [e] at hl; exact hne (List.length_eq_zero_iff.mp hl.symm)
    obtain ⟨ok, hv⟩ := ih (shlLimb_ok h) hne'
    refine ⟨ok, ?_⟩
    rw [iter_succ, hv, limbsToNat_shlLimb h, hl, Nat.mod_mul_mod, pow64_succ, Nat.mul_assoc]

theorem shr_length (ls : List Nat) (k : Nat) : (shr ls k).length = ls.length := by
  unfold shr
  split
  · simp
  · have hne : ls ≠ [] := by rintro rfl; simp at *
    dsimp only
    split
    · rw [shrBits_length, iter_shrLimb_length hne]
    · rw [iter_shrLimb_length hne]

theorem shr_ok {ls : List Nat} (h : LimbsOK ls) (k : Nat) : LimbsOK (shr ls k) := by
  unfold shr
  split
  · exact map_zero_ok ls
  · dsimp only
    split
    · exact shrBits_ok (iter_shrLimb_spec h _).1 (by omega)
    · exact (iter_shrLimb_spec h _).1

/-- `shr` is division by `2^k`, for every `k` -/
theorem limbsToNat_shr {ls : List Nat} (h : LimbsOK ls) (k : Nat) :
    limbsToNat (shr ls k) = limbsToNat ls / 2 ^ k := by
  unfold shr
  split
  · next hk =>
    rw [limbsToNat_map_zero, Nat.div_eq_of_lt]
    exact Nat.lt_of_lt_of_le (limbsToNat_lt h) (Nat.pow_le_pow_right (by norm_num) hk)
  · dsimp only
    have hk : 2 ^ k = 2 ^ (64 * (k / 64)) * 2 ^ (k % 64) := by
      rw [← Nat.pow_add, Nat.div_add_mod]
    split
    · rw [limbsToNat_shrBits (iter_shrLimb_spec h _).1 (by omega), (iter_shrLimb_spec h _).2,
        Nat.div_div_eq_div_mul, hk]
    · next h0 =>
      have : k % 64 = 0 := by omega
      rw [(iter_shrLimb_spec h _).2, hk, this, Nat.pow_zero, Nat.mul_one]

theorem shl_length (ls : List Nat) (k : Nat) : (shl ls k).length = ls.length := by
  unfold shl
  split
  · simp
  · have hne : ls ≠ [] := by rintro rfl; simp at *
    dsimp only
    split
    · rw [shlBits_length, iter_shlLimb_length hne]
    · rw [iter_shlLimb_length hne]

theorem shl_ok {ls : List Nat} (h : LimbsOK ls) (k : Nat) : LimbsOK (shl ls k) := by
  unfold shl
  split
  · exact map_zero_ok ls
  · have hne : ls ≠ [] := by rintro rfl; simp at *
    dsimp only
    split
    · exact shlBits_ok (iter_shlLimb_spec h hne _).1 (by omega)
    · exact (iter_shlLimb_spec h hne _).1

/-- `shl` is multiplication by `2^k` modulo `2^(64 n)`, for every `k` -/
theorem limbsToNat_shl {ls : List Nat} (h : LimbsOK ls) (k : Nat) :
    limbsToNat (shl ls k) = limbsToNat ls * 2 ^ k % 2 ^ (64 * ls.length) := by
  unfold shl
  split
  · next hk =>
    rw [limbsToNat_map_zero]
    symm
    apply Nat.mod_eq_zero_of_dvd
    exact Dvd.dvd.mul_left (Nat.pow_dvd_pow 2 hk) _
  · have hne : ls ≠ [] := by rintro rfl; simp at *
    dsimp only
    have hk : 2 ^ k = 2 ^ (64 * (k / 64)) * 2 ^ (k % 64) := by
      rw [← Nat.pow_add, Nat.div_add_mod]
    split
    · rw [limbsToNat_shlBits (iter_shlLimb_spec h hne _).1 (by omega), (iter_shlLimb_spec h hne _).2,
        iter_shlLimb_length hne, Nat.mod_mul_mod, hk, Nat.mul_assoc]
    · next h0 =>
      have : k % 64 = 0 := by omega
      rw [(iter_shlLimb_spec h hne _).2, hk, this, Nat.pow_zero, Nat.mul_one]

/-! ## 6. `numBits` -/

theorem log2_lt_64 {l : Nat} (h : l < 2 ^ 64) (h0 : l ≠ 0) : l.log2 < 64 := (Nat.log2_lt h0).2 h

theorem log2_limb_cons {l V : Nat} (hl : l < 2 ^ 64) (hV : V ≠ 0) :
    (l + 2 ^ 64 * V).log2 = 64 + V.log2 := by
  rw [Nat.log2_eq_iff (by omega)]
  have h1 : 2 ^ V.log2 ≤ V := (Nat.log2_eq_iff hV).1 rfl |>.1
  have h2 : V < 2 ^ (V.log2 + 1) := (Nat.log2_eq_iff hV).1 rfl |>.2
  rw [Nat.add_assoc, Nat.pow_add, Nat.pow_add 2 64]
  generalize 2 ^ V.log2 = X at *
  generalize 2 ^ (V.log2 + 1) = Y at *
  constructor
  · have := Nat.mul_le_mul_left (2 ^ 64) h1; omega
  · have := Nat.mul_le_mul_left (2 ^ 64) (Nat.succ_le_of_lt h2); omega

/-- one step of the `num_bits` loop -/
def nbStep (i : Nat) (acc : Nat × Bool) : Nat × Bool :=
  if acc.2 then acc else (acc.1 - leadingZeros64 i, leadingZeros64 i != 64)

theorem numBits_eq_foldr (ls : List Nat) :
    numBits ls = (ls.foldr nbStep (ls.length * 64, false)).1 := by
  unfold numBits
  rw [List.foldl_reverse]
  rfl

theorem nbStep_foldr {ls : List Nat} (h : LimbsOK ls) {N : Nat} (hN : 64 * ls.length ≤ N) :
    ls.foldr nbStep (N, false)
      = if limbsToNat ls = 0 then (N - 64 * ls.length, false)
        else (N - 64 * ls.length + (limbsToNat ls).log2 + 1, true) := by
  induction ls with
  | nil => simp
  | cons l ls ih =>
    rw [LimbsOK_cons] at h
    rw [List.length_cons] at hN
    rw [List.foldr_cons, ih h.2 (by omega), limbsToNat_cons, List.length_cons]
    by_cases hV : limbsToNat ls = 0
    · rw [if_pos hV, hV]
      by_cases hl : l = 0
      · subst hl
        simp only [nbStep, leadingZeros64]
        simp
        omega
      · have := log2_lt_64 h.1 hl
        rw [if_neg (by omega)]
        simp only [nbStep, leadingZeros64, if_neg hl, Nat.mul_zero, Nat.add_zero]
        simp
        constructor <;> omega
    · rw [if_neg hV, if_neg (by omega), log2_limb_cons h.1 hV]
      simp only [nbStep, if_true]
      congr 1
      omega

/-- `num_bits` is the bit length: `0` for zero, `⌊log₂ A⌋ + 1` otherwise -/
theorem numBits_eq {a : List Nat} (h : LimbsOK a) :
    numBits a = if limbsToNat a = 0 then 0 else (limbsToNat a).log2 + 1 := by
  rw [numBits_eq_foldr, nbStep_foldr h (by omega)]
  split <;> simp <;> omega

theorem lt_two_pow_numBits {a : List Nat} (h : LimbsOK a) : limbsToNat a < 2 ^ numBits a := by
  rw [numBits_eq h]
  split
  · omega
  · exact Nat.lt_log2_self

theorem two_pow_numBits_le {a : List Nat} (h : LimbsOK a) (h0 : limbsToNat a ≠ 0) :
    2 ^ (numBits a - 1) ≤ limbsToNat a := by
  rw [numBits_eq h, if_neg h0, Nat.add_sub_cancel]
  exact Nat.log2_self_le h0

theorem numBits_le {a : List Nat} (h : LimbsOK a) : numBits a ≤ 64 * a.length := by
  rw [numBits_eq h]
  split
  · omega
  · next h0 =>
    have := (Nat.log2_lt h0).2 (limbsToNat_lt h)
    omega

/-! ## 11. the bit iterator: `bitsMSB` reads the binary expansion of `limbsToNat` -/

/-- value of a bit list read most-significant-first, continuing from the accumulator `e` -/
def bitsVal (e : Nat) (bs : List Bool) : Nat := bs.foldl (fun acc b => 2 * acc + b.toNat) e

theorem bitsVal_append (e : Nat) (as bs : List Bool) :
    bitsVal e (as ++ bs) = bitsVal (bitsVal e as) bs := by
  simp [bitsVal, List.foldl_append]

theorem bitsVal_wordBitsMSB (w : Nat) : ∀ (n e : Nat),
    bitsVal e (wordBitsMSB w n) = e * 2 ^ n + w % 2 ^ n := by
  intro n
  induction n with
  | zero => intro e; simp [wordBitsMSB, bitsVal, Nat.mod_one]
  | succ n ih =>
    intro e
    have : bitsVal e (wordBitsMSB w (n + 1)) = bitsVal (2 * e + (w.testBit n).toNat) (wordBitsMSB w n) := by
      simp [wordBitsMSB, bitsVal]
    rw [this, ih, Nat.mod_pow_succ, Nat.toNat_testBit]; ring

/-- the bit iterator reads the binary expansion of the limbs (each taken mod `2^64`) -/
theorem bitsVal_bitsMSB (ls : List Nat) : ∀ e : Nat,
    bitsVal e (bitsMSB ls) = e * 2 ^ (64 * ls.length) + limbsToNat (ls.map (· % 2 ^ 64)) := by
  induction ls with
  | nil => intro e; simp [bitsMSB, bitsVal]
  | cons l ls ih =>
    intro e
    rw [bitsMSB, bitsVal_append, ih, bitsVal_wordBitsMSB]
    simp only [List.length_cons, List.map_cons, limbsToNat]
    have : 2 ^ (64 * (ls.length + 1)) = 2 ^ (64 * ls.length) * 2 ^ 64 := by rw [← pow_add]; ring_nf
    rw [this]; ring

theorem map_mod_of_ok (ls : List Nat) (hok : ∀ l ∈ ls, l < 2 ^ 64) : ls.map (· % 2 ^ 64) = ls := by
  induction ls with
  | nil => rfl
  | cons l ls ih =>
    simp only [List.map_cons]
    rw [Nat.mod_eq_of_lt (hok l (by simp)), ih (fun x hx => hok x (by simp [hx]))]

theorem bitsVal_bitsMSB_ok (ls : List Nat) (hok : ∀ l ∈ ls, l < 2 ^ 64) :
    bitsVal 0 (bitsMSB ls) = limbsToNat ls := by
  rw [bitsVal_bitsMSB, map_mod_of_ok ls hok]; simp

end PP.Limbs
