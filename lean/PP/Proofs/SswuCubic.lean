import Mathlib.Tactic.Ring
import Mathlib.Tactic.LinearCombination
import Mathlib.Algebra.Field.Defs
import PP.Proofs.Primes

set_option linter.unusedSectionVars false
set_option linter.unusedVariables false

namespace PP
namespace Sswu
namespace Cubic

variable {F : Type} [Field F]

/-- product in `F[x]/(x³ + A x + B)`, elements written `c0 + c1 x + c2 x²` -/
def mul (A B : F) (p r : F × F × F) : F × F × F :=
  (p.1 * r.1 - B * (p.2.1 * r.2.2 + p.2.2 * r.2.1),
   p.1 * r.2.1 + p.2.1 * r.1 - A * (p.2.1 * r.2.2 + p.2.2 * r.2.1) - B * (p.2.2 * r.2.2),
   p.1 * r.2.2 + p.2.1 * r.2.1 + p.2.2 * r.1 - A * (p.2.2 * r.2.2))

def eval (p : F × F × F) (a : F) : F := p.1 + p.2.1 * a + p.2.2 * a ^ 2

theorem eval_mul {A B a : F} (hg : a ^ 3 + A * a + B = 0) (p r : F × F × F) :
    eval (mul A B p r) a = eval p a * eval r a := by
  unfold eval mul
  linear_combination (-(p.2.1 * r.2.2 + p.2.2 * r.2.1) - p.2.2 * r.2.2 * a) * hg

/-- square-and-multiply in `F[x]/(g)`, structural on `fuel` -/
def powAux (A B : F) : Nat → F × F × F → F × F × F → Nat → F × F × F
  | 0, _, acc, _ => acc
  | fuel + 1, b, acc, e =>
    if e = 0 then acc
    else powAux A B fuel (mul A B b b) (if e % 2 = 1 then mul A B acc b else acc) (e / 2)

theorem eval_powAux {A B a : F} (hg : a ^ 3 + A * a + B = 0) :
    ∀ (fuel : Nat) (b acc : F × F × F) (e : Nat), e < 2 ^ fuel →
      eval (powAux A B fuel b acc e) a = eval acc a * eval b a ^ e := by
  intro fuel
  induction fuel with
  | zero =>
    intro b acc e he
    have : e = 0 := by omega
    subst this; simp [powAux]
  | succ n ih =>
    intro b acc e he
    unfold powAux
    split
    · next h => subst h; simp
    · next h =>
      have he2 : e / 2 < 2 ^ n := by
        rw [Nat.div_lt_iff_lt_mul (by norm_num)]; rw [pow_succ] at he; omega
      rw [ih _ _ _ he2, eval_mul hg]
      split
      · next hodd =>
        rw [eval_mul hg]
        have hdec : e = 2 * (e / 2) + 1 := by omega
        conv_rhs => rw [hdec]
        rw [pow_succ, pow_mul]; ring
      · next heven =>
        have hdec : e = 2 * (e / 2) := by omega
        conv_rhs => rw [hdec]
        rw [pow_mul]; ring

/-- `x^e mod g` -/
def xPow (A B : F) (e : Nat) : F × F × F := powAux A B (e.log2 + 1) (0, 1, 0) (1, 0, 0) e

theorem eval_xPow {A B a : F} (hg : a ^ 3 + A * a + B = 0) (e : Nat) :
    eval (xPow A B e) a = a ^ e := by
  unfold xPow
  rw [eval_powAux hg _ _ _ _ Nat.lt_log2_self]
  simp [eval]

/-- certificate that `g = x³ + A x + B` has no root `a` with `a^N = a`: `x^N ≡ r (mod g)` and
Bézout cofactors `S·(r − x) + T·g = 1` -/
theorem no_root {A B : F} {N : Nat} (r : F × F × F) (hr : xPow A B N = r)
    (s0 s1 s2 t0 t1 : F)
    (e0 : s0 * r.1 + t0 * B = 1)
    (e1 : s0 * (r.2.1 - 1) + s1 * r.1 + t0 * A + t1 * B = 0)
    (e2 : s0 * r.2.2 + s1 * (r.2.1 - 1) + s2 * r.1 + t1 * A = 0)
    (e3 : s1 * r.2.2 + s2 * (r.2.1 - 1) + t0 = 0)
    (e4 : s2 * r.2.2 + t1 = 0)
    (a : F) (ha : a ^ N = a) : a ^ 3 + A * a + B ≠ 0 := by
  intro hg
  have h := eval_xPow hg N
  rw [hr, ha] at h
  unfold eval at h
  have : (1 : F) = 0 := by
    linear_combination (-1) * e0 - a * e1 - a ^ 2 * e2 - a ^ 3 * e3 - a ^ 4 * e4
      + (s0 + s1 * a + s2 * a ^ 2) * h + (t0 + t1 * a) * hg
  exact one_ne_zero this

end Cubic
end Sswu
end PP
