/-
The C01 theorems packaged as an instance of the `GroupModel` interface (`PP.Proofs.Interfaces`):
for every field `F` with lawful model operations and every `b` with `ShortW b`, the Jacobian/affine
arithmetic of `PP.Model.Curve` is a model of Mathlib's group `(W b).Point` of `y² = x³ + b`.

Then the instantiations: G1 (`g1Codec.b = 4` in `Fq`, `ShortW (4 : Fq)`, `g1Model`) and G2
(`g2Codec.b = 4 (1 + u)` in `Fq2`, `g2Model`; the `Field Fq2` / `LawfulFieldOps Fq2` instances, built
on the model's own operations, come from `PP.Proofs.Tower2`).
-/
import PP.Props.C01
import PP.Proofs.Interfaces
import PP.Proofs.Primes
import PP.Proofs.Tower2
import PP.Model.Enc

set_option linter.unusedSectionVars false

namespace PP

open WeierstrassCurve.Affine

section generic
variable {F : Type} [Field F] [DecidableEq F] [FieldOps F] [LawfulFieldOps F]

/-- two affine curve points with the same denotation are the same record, up to the unused
    coordinates of the identity -/
theorem Aff.abs_injective {b : F} [ShortW b] {A B : Aff F} (hA : Aff.OnCurve b A)
    (hB : Aff.OnCurve b B) (h : Aff.abs b A = Aff.abs b B) :
    A.infinity = B.infinity ∧ (A.infinity = false → A.x = B.x ∧ A.y = B.y) := by
  by_cases hi : A.infinity = true
  · have hB0 : Aff.abs b B = 0 := by rw [← h]; exact Aff.abs_of_infinity hi
    have hj : B.infinity = true := (Aff.abs_eq_zero_iff hB).mp hB0
    exact ⟨by rw [hi, hj], fun hf => by rw [hi] at hf; cases hf⟩
  · have hi' : A.infinity = false := by simpa using hi
    have hj' : B.infinity = false := by
      by_contra hj
      have hj : B.infinity = true := by simpa using hj
      have hA0 : Aff.abs b A = 0 := by rw [h]; exact Aff.abs_of_infinity hj
      exact hi ((Aff.abs_eq_zero_iff hA).mp hA0)
    rw [Aff.abs_of_not_infinity hA hi', Aff.abs_of_not_infinity hB hj'] at h
    exact ⟨by rw [hi', hj'], fun _ => Point.some_eq_some.mp h⟩

/-- **The curve arithmetic of the model is a `GroupModel`** with values in Mathlib's group of points
    of `y² = x³ + b`; validity of a representative is just "satisfies the (projective/affine) curve
    equation". -/
noncomputable def curveModel (b : F) [ShortW b] : GroupModel F (W b).Point where
  ValidJ := Jac.OnCurve b
  ValidA := Aff.OnCurve b
  absJ := Jac.abs b
  absA := Aff.abs b
  zero_valid := Jac.onCurve_zero b
  zero_abs := Jac.abs_zero b
  isZero_iff _ hP := C01.isZero_iff hP
  double_valid _ hP := C01.double_onCurve hP
  double_abs _ hP := C01.double_correct hP
  add_valid _ _ hP hQ := C01.add_onCurve hP hQ
  add_abs _ _ hP hQ := C01.add_correct hP hQ
  addMixed_valid _ _ hP hA := C01.addMixed_onCurve hP hA
  addMixed_abs _ _ hP hA := C01.addMixed_correct hP hA
  neg_valid _ hP := C01.neg_onCurve hP
  neg_abs _ hP := C01.neg_correct hP
  affZero_valid := Aff.onCurve_zero b
  affZero_abs := Aff.abs_zero b
  affInf_iff _ hA := (Aff.abs_eq_zero_iff hA).symm
  affNeg_valid _ hA := C01.affNeg_onCurve hA
  affNeg_abs _ hA := C01.affNeg_correct hA
  toJac_valid _ hA := C01.toJac_onCurve hA
  toJac_abs _ hA := C01.toJac_correct hA
  toAffine_ok _ hP := C01.toAffine_correct hP
  absA_inj _ _ hA hB h := Aff.abs_injective hA hB h

@[simp] theorem curveModel_ValidJ (b : F) [ShortW b] : (curveModel b).ValidJ = Jac.OnCurve b := rfl
@[simp] theorem curveModel_ValidA (b : F) [ShortW b] : (curveModel b).ValidA = Aff.OnCurve b := rfl
@[simp] theorem curveModel_absJ (b : F) [ShortW b] : (curveModel b).absJ = Jac.abs b := rfl
@[simp] theorem curveModel_absA (b : F) [ShortW b] : (curveModel b).absA = Aff.abs b := rfl

end generic

/-! ## G1: `y² = x³ + 4` over `Fq` -/

/-- the extracted Montgomery literal `B_COEFF` is the field element `4` -/
theorem fq_B_COEFF_eq : Fq.ofMont Gen.B_COEFF = (4 : Fq) := by decide +kernel

theorem g1Codec_b : g1Codec.b = (4 : Fq) := fq_B_COEFF_eq

theorem fq_two_ne_zero : (2 : Fq) ≠ 0 := by decide +kernel
theorem fq_three_ne_zero : (3 : Fq) ≠ 0 := by decide +kernel
theorem fq_four_ne_zero : (4 : Fq) ≠ 0 := by decide +kernel

instance instShortWFq4 : ShortW (4 : Fq) := ⟨fq_two_ne_zero, fq_three_ne_zero, fq_four_ne_zero⟩

instance instShortWG1 : ShortW g1Codec.b := ⟨fq_two_ne_zero, fq_three_ne_zero, by
  rw [g1Codec_b]; exact fq_four_ne_zero⟩

/-- the G1 arithmetic of the model, as a model of the group `E(Fq)`, `E : y² = x³ + 4`
    (with the coefficient written as the decoders write it, `g1Codec.b`) -/
noncomputable def g1Model : GroupModel Fq (W g1Codec.b).Point := curveModel g1Codec.b

/-- the same with the coefficient written `4` -/
noncomputable def g1Model4 : GroupModel Fq (W (4 : Fq)).Point := curveModel 4

/-! ## G2: `y² = x³ + 4(1 + u)` over `Fq2` -/

/-- the G2 coefficient is `4 + 4u = 4 (1 + u)` -/
theorem g2Codec_b : g2Codec.b = ⟨4, 4⟩ := by decide +kernel

theorem g2Codec_b_eq_mul_xi : g2Codec.b = 4 * Fq2.xi := by decide +kernel

theorem fq2_two_ne_zero : (2 : Fq2) ≠ 0 := by decide +kernel
theorem fq2_three_ne_zero : (3 : Fq2) ≠ 0 := by decide +kernel
theorem g2Codec_b_ne_zero : g2Codec.b ≠ 0 := by decide +kernel

instance instShortWG2 : ShortW g2Codec.b := ⟨fq2_two_ne_zero, fq2_three_ne_zero, g2Codec_b_ne_zero⟩

/-- the G2 arithmetic of the model, as a model of the group `E'(Fq2)`, `E' : y² = x³ + 4(1 + u)` -/
noncomputable def g2Model : GroupModel Fq2 (W g2Codec.b).Point := curveModel g2Codec.b

end PP
