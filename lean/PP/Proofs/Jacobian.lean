/-
C01, lemmas: the model's Jacobian arithmetic (`PP/Model/Curve.lean`) against Mathlib's
chord-and-tangent group law on `(W b).Point`.

Method: a triple with `z ≠ 0` on the curve is `Jac.ofAff x y z = ⟨x z², y z³, z⟩` for an affine curve
point `(x, y)`; each branch of each model function is evaluated on such triples to a closed form whose
affine coordinates are compared with Mathlib's `addX`/`addY` by `field_simp; ring`.
-/
import PP.Proofs.CurveSpec

set_option linter.unusedSectionVars false

namespace PP

open WeierstrassCurve.Affine

variable {F : Type} [Field F] [DecidableEq F] [FieldOps F] [LawfulFieldOps F]

/-! ## Mathlib's formulas on `y² = x³ + b` -/

theorem W_slope_of_X_ne (b : F) {x₁ x₂ : F} (y₁ y₂ : F) (hx : x₁ ≠ x₂) :
    (W b).slope x₁ x₂ y₁ y₂ = (y₁ - y₂) / (x₁ - x₂) := slope_of_X_ne hx

theorem W_slope_self (b : F) [ShortW b] (x : F) {y : F} (hy : y ≠ 0) :
    (W b).slope x x y y = 3 * x ^ 2 / (2 * y) := by
  have h2 : (2 : F) ≠ 0 := ShortW.two_ne (b := b)
  have hne : y ≠ (W b).negY x y := by
    rw [W_negY]; intro h
    have : 2 * y = 0 := by linear_combination h
    exact (mul_ne_zero h2 hy) this
  rw [slope_of_Y_ne rfl hne, W_negY]
  simp only [W_a₁, W_a₂, W_a₄]
  congr 1 <;> ring

theorem W_addX (b x₁ x₂ ℓ : F) : (W b).addX x₁ x₂ ℓ = ℓ ^ 2 - x₁ - x₂ := by
  simp [addX]

theorem W_addY (b x₁ x₂ y₁ ℓ : F) :
    (W b).addY x₁ x₂ y₁ ℓ = -(ℓ * (ℓ ^ 2 - x₁ - x₂ - x₁) + y₁) := by
  simp [addY, negAddY, addX]

/-! ## canonical representatives -/

/-- the triple `(x z², y z³, z)`: the affine point `(x, y)` scaled by `z` -/
def Jac.ofAff (x y z : F) : Jac F := ⟨x * z ^ 2, y * z ^ 3, z⟩

@[simp] theorem Jac.ofAff_x (x y z : F) : (Jac.ofAff x y z).x = x * z ^ 2 := rfl
@[simp] theorem Jac.ofAff_y (x y z : F) : (Jac.ofAff x y z).y = y * z ^ 3 := rfl
@[simp] theorem Jac.ofAff_z (x y z : F) : (Jac.ofAff x y z).z = z := rfl

theorem Jac.exists_ofAff {b : F} {P : Jac F} (h : Jac.OnCurve b P) (hz : P.z ≠ 0) :
    ∃ x y, y ^ 2 = x ^ 3 + b ∧ P = Jac.ofAff x y P.z := by
  refine ⟨P.x / P.z ^ 2, P.y / P.z ^ 3, Jac.affine_eq_of_onCurve h hz, ?_⟩
  cases P with
  | mk X Y Z =>
    simp only [Jac.ofAff, Jac.mk.injEq, and_true]
    simp only at hz
    constructor <;> field_simp

theorem Jac.ofAff_spec {b : F} [ShortW b] {x y z : F} (hz : z ≠ 0) (h : y ^ 2 = x ^ 3 + b) :
    Jac.OnCurve b (Jac.ofAff x y z) ∧
      Jac.abs b (Jac.ofAff x y z) = Point.some x y (W_nonsingular b h) := by
  apply Jac.abs_eq_some (by simpa using hz)
  · simp only [Jac.ofAff_x, Jac.ofAff_z]; field_simp
  · simp only [Jac.ofAff_y, Jac.ofAff_z]; field_simp

@[simp] theorem Jac.isZero_iff (P : Jac F) : P.isZero = true ↔ P.z = 0 := by
  simp [Jac.isZero]

theorem Jac.isZero_eq_false_iff (P : Jac F) : P.isZero = false ↔ P.z ≠ 0 := by
  rw [← Bool.not_eq_true, Jac.isZero_iff]

theorem Jac.onCurve_of_z_eq_zero {b : F} {P : Jac F} (hz : P.z = 0) : Jac.OnCurve b P := Or.inl hz

theorem Jac.onCurve_zero (b : F) : Jac.OnCurve b (Jac.zero : Jac F) := Or.inl rfl

theorem Jac.abs_zero (b : F) [ShortW b] : Jac.abs b (Jac.zero : Jac F) = 0 :=
  Jac.abs_of_z_eq_zero rfl

/-! ## doubling -/

theorem Jac.double_of_z_eq_zero {P : Jac F} (hz : P.z = 0) : P.double = P := by
  simp [Jac.double, hz]

/-- closed form of `double` on a non-identity triple -/
theorem Jac.double_of_z_ne_zero {P : Jac F} (hz : P.z ≠ 0) :
    P.double = ⟨9 * P.x ^ 4 - 8 * P.x * P.y ^ 2,
      3 * P.x ^ 2 * (12 * P.x * P.y ^ 2 - 9 * P.x ^ 4) - 8 * P.y ^ 4, 2 * (P.y * P.z)⟩ := by
  simp only [Jac.double, Jac.isZero_iff, hz, if_false, LawfulFieldOps.sq_eq, LawfulFieldOps.dbl_eq,
    Jac.mk.injEq]
  refine ⟨by ring, by ring, by ring⟩

theorem Jac.double_spec {b : F} [ShortW b] {P : Jac F} (h : Jac.OnCurve b P) :
    Jac.OnCurve b P.double ∧ Jac.abs b P.double = Jac.abs b P + Jac.abs b P := by
  by_cases hz : P.z = 0
  · rw [Jac.double_of_z_eq_zero hz, Jac.abs_of_z_eq_zero hz]
    exact ⟨h, (add_zero _).symm⟩
  obtain ⟨x, y, hxy, hP⟩ := Jac.exists_ofAff h hz
  generalize P.z = z at hz hP
  subst hP
  have h2 : (2 : F) ≠ 0 := ShortW.two_ne (b := b)
  rw [(Jac.ofAff_spec hz hxy).2, Jac.double_of_z_ne_zero (by simpa using hz)]
  simp only [Jac.ofAff_x, Jac.ofAff_y, Jac.ofAff_z]
  by_cases hy : y = 0
  · -- a point of order two: the tangent is vertical, the code returns `z₃ = 0`
    subst hy
    have hz3 : (⟨9 * (x * z ^ 2) ^ 4 - 8 * (x * z ^ 2) * (0 * z ^ 3) ^ 2,
        3 * (x * z ^ 2) ^ 2 * (12 * (x * z ^ 2) * (0 * z ^ 3) ^ 2 - 9 * (x * z ^ 2) ^ 4)
          - 8 * (0 * z ^ 3) ^ 4, 2 * (0 * z ^ 3 * z)⟩ : Jac F).z = 0 := by simp
    refine ⟨Jac.onCurve_of_z_eq_zero hz3, ?_⟩
    rw [Jac.abs_of_z_eq_zero hz3]
    exact (Point.add_self_of_Y_eq (by rw [W_negY]; simp)).symm
  · have hne : y ≠ (W b).negY x y := by
      rw [W_negY]; intro e
      have : 2 * y = 0 := by linear_combination e
      exact (mul_ne_zero h2 hy) this
    rw [Point.add_self_of_Y_ne hne]
    apply Jac.abs_eq_some
    · simp only; exact mul_ne_zero h2 (mul_ne_zero (mul_ne_zero hy (pow_ne_zero _ hz)) hz)
    · simp only [W_addX, W_slope_self b x hy]
      field_simp
      ring
    · simp only [W_addY, W_slope_self b x hy]
      field_simp
      ring

/-! ## addition -/

/-- `H = U2 - U1` of add-2007-bl -/
def Jac.addH (P Q : Jac F) : F := Q.x * P.z ^ 2 - P.x * Q.z ^ 2
/-- `S2 - S1` of add-2007-bl (half of `r`) -/
def Jac.addR (P Q : Jac F) : F := Q.y * P.z ^ 3 - P.y * Q.z ^ 3

/-- closed form of the generic (chord) branch of `add` -/
def Jac.addGeneric (P Q : Jac F) : Jac F :=
  let H := Jac.addH P Q
  let R := Jac.addR P Q
  let x3 := 4 * R ^ 2 - 4 * H ^ 3 - 8 * (P.x * Q.z ^ 2) * H ^ 2
  ⟨x3, (4 * (P.x * Q.z ^ 2) * H ^ 2 - x3) * (2 * R) - 8 * (P.y * Q.z ^ 3) * H ^ 3,
    2 * P.z * Q.z * H⟩

/-- `add`, branch by branch, with the field operations in closed form -/
theorem Jac.add_eq (P Q : Jac F) :
    P.add Q = if P.z = 0 then Q else if Q.z = 0 then P
      else if P.x * Q.z ^ 2 = Q.x * P.z ^ 2 ∧ P.y * Q.z ^ 3 = Q.y * P.z ^ 3 then P.double
      else Jac.addGeneric P Q := by
  have e1 : P.x * (Q.z * Q.z) = P.x * Q.z ^ 2 := by ring
  have e2 : Q.x * (P.z * P.z) = Q.x * P.z ^ 2 := by ring
  have e3 : P.y * Q.z * (Q.z * Q.z) = P.y * Q.z ^ 3 := by ring
  have e4 : Q.y * P.z * (P.z * P.z) = Q.y * P.z ^ 3 := by ring
  simp only [Jac.add, Jac.isZero_iff, LawfulFieldOps.sq_eq, LawfulFieldOps.dbl_eq, e1, e2, e3, e4]
  split_ifs <;> try rfl
  simp only [Jac.addGeneric, Jac.addH, Jac.addR, Jac.mk.injEq]
  refine ⟨by ring, by ring, by ring⟩

theorem Jac.add_spec {b : F} [ShortW b] {P Q : Jac F} (hP : Jac.OnCurve b P)
    (hQ : Jac.OnCurve b Q) :
    Jac.OnCurve b (P.add Q) ∧ Jac.abs b (P.add Q) = Jac.abs b P + Jac.abs b Q := by
  rw [Jac.add_eq]
  by_cases hz1 : P.z = 0
  · rw [if_pos hz1, Jac.abs_of_z_eq_zero hz1]
    exact ⟨hQ, (zero_add _).symm⟩
  rw [if_neg hz1]
  by_cases hz2 : Q.z = 0
  · rw [if_pos hz2, Jac.abs_of_z_eq_zero hz2]
    exact ⟨hP, (add_zero _).symm⟩
  rw [if_neg hz2]
  obtain ⟨x₁, y₁, h₁, eP⟩ := Jac.exists_ofAff hP hz1
  obtain ⟨x₂, y₂, h₂, eQ⟩ := Jac.exists_ofAff hQ hz2
  generalize P.z = z₁ at hz1 eP
  generalize Q.z = z₂ at hz2 eQ
  subst eP eQ
  have h2 : (2 : F) ≠ 0 := ShortW.two_ne (b := b)
  have hzz : z₁ ^ 2 * z₂ ^ 2 ≠ 0 := mul_ne_zero (pow_ne_zero _ hz1) (pow_ne_zero _ hz2)
  have hzz3 : z₁ ^ 3 * z₂ ^ 3 ≠ 0 := mul_ne_zero (pow_ne_zero _ hz1) (pow_ne_zero _ hz2)
  have cx : (Jac.ofAff x₁ y₁ z₁).x * z₂ ^ 2 = (Jac.ofAff x₂ y₂ z₂).x * z₁ ^ 2 ↔ x₁ = x₂ := by
    simp only [Jac.ofAff_x]
    constructor
    · intro e; apply mul_right_cancel₀ hzz; linear_combination e
    · rintro rfl; ring
  have cy : (Jac.ofAff x₁ y₁ z₁).y * z₂ ^ 3 = (Jac.ofAff x₂ y₂ z₂).y * z₁ ^ 3 ↔ y₁ = y₂ := by
    simp only [Jac.ofAff_y]
    constructor
    · intro e; apply mul_right_cancel₀ hzz3; linear_combination e
    · rintro rfl; ring
  simp only [cx, cy]
  rw [(Jac.ofAff_spec hz1 h₁).2, (Jac.ofAff_spec hz2 h₂).2]
  by_cases hx : x₁ = x₂
  · subst hx
    by_cases hy : y₁ = y₂
    · -- the same point through two representatives: the code doubles the first one
      subst hy
      rw [if_pos ⟨rfl, rfl⟩]
      have := Jac.double_spec (Jac.ofAff_spec (b := b) hz1 h₁).1
      rw [(Jac.ofAff_spec hz1 h₁).2] at this
      exact this
    · -- inverse pair: `H = 0`, so `z₃ = 0`
      rw [if_neg (fun h => hy h.2)]
      have hneg : y₁ = -y₂ := by
        have : (y₁ - y₂) * (y₁ + y₂) = 0 := by linear_combination h₁ - h₂
        rcases mul_eq_zero.mp this with h | h
        · exact absurd (sub_eq_zero.mp h) hy
        · exact eq_neg_of_add_eq_zero_left h
      have hz3 : (Jac.addGeneric (Jac.ofAff x₁ y₁ z₁) (Jac.ofAff x₁ y₂ z₂)).z = 0 := by
        simp only [Jac.addGeneric, Jac.addH, Jac.ofAff_x, Jac.ofAff_z]; ring
      refine ⟨Jac.onCurve_of_z_eq_zero hz3, ?_⟩
      rw [Jac.abs_of_z_eq_zero hz3]
      exact (Point.add_of_Y_eq rfl (by rw [W_negY]; exact hneg)).symm
  · -- the chord
    rw [if_neg (fun h => hx h.1), Point.add_of_X_ne hx]
    have hd : x₁ - x₂ ≠ 0 := sub_ne_zero.mpr hx
    apply Jac.abs_eq_some
    · simp only [Jac.addGeneric, Jac.addH, Jac.ofAff_x, Jac.ofAff_z]
      have : x₂ * z₂ ^ 2 * z₁ ^ 2 - x₁ * z₁ ^ 2 * z₂ ^ 2 = -((x₁ - x₂) * (z₁ ^ 2 * z₂ ^ 2)) := by ring
      rw [this]
      exact mul_ne_zero (mul_ne_zero (mul_ne_zero h2 hz1) hz2)
        (neg_ne_zero.mpr (mul_ne_zero hd hzz))
    · simp only [W_addX, W_slope_of_X_ne b y₁ y₂ hx, Jac.addGeneric, Jac.addH, Jac.addR,
        Jac.ofAff_x, Jac.ofAff_y, Jac.ofAff_z]
      field_simp
      ring
    · simp only [W_addY, W_slope_of_X_ne b y₁ y₂ hx, Jac.addGeneric, Jac.addH, Jac.addR,
        Jac.ofAff_x, Jac.ofAff_y, Jac.ofAff_z]
      field_simp
      ring

/-! ## equality of denoted points, `beq` -/

/-- Two on-curve triples denote the same point iff both are the identity or neither is and the
    cross-multiplied coordinates agree (`U1 = U2 ∧ S1 = S2`). -/
theorem Jac.abs_eq_abs_iff {b : F} [ShortW b] {P Q : Jac F} (hP : Jac.OnCurve b P)
    (hQ : Jac.OnCurve b Q) :
    Jac.abs b P = Jac.abs b Q ↔
      (P.z = 0 ∧ Q.z = 0) ∨ (P.z ≠ 0 ∧ Q.z ≠ 0 ∧
        P.x * Q.z ^ 2 = Q.x * P.z ^ 2 ∧ P.y * Q.z ^ 3 = Q.y * P.z ^ 3) := by
  by_cases hz1 : P.z = 0
  · rw [Jac.abs_of_z_eq_zero hz1, eq_comm, Jac.abs_eq_zero_iff hQ]
    simp [hz1]
  by_cases hz2 : Q.z = 0
  · rw [Jac.abs_of_z_eq_zero hz2, Jac.abs_eq_zero_iff hP]
    simp [hz1, hz2]
  rw [Jac.abs_of_z_ne_zero hP hz1, Jac.abs_of_z_ne_zero hQ hz2, Point.some_eq_some]
  simp only [hz1, hz2, false_and, false_or, ne_eq, not_false_eq_true, true_and]
  have e1 : P.x / P.z ^ 2 = Q.x / Q.z ^ 2 ↔ P.x * Q.z ^ 2 = Q.x * P.z ^ 2 := by
    rw [div_eq_div_iff (pow_ne_zero _ hz1) (pow_ne_zero _ hz2)]
  have e2 : P.y / P.z ^ 3 = Q.y / Q.z ^ 3 ↔ P.y * Q.z ^ 3 = Q.y * P.z ^ 3 := by
    rw [div_eq_div_iff (pow_ne_zero _ hz1) (pow_ne_zero _ hz2)]
  rw [e1, e2]

/-- `beq`, in closed form -/
theorem Jac.beq_eq_true_iff (P Q : Jac F) :
    Jac.beq P Q = true ↔ (P.z = 0 ∧ Q.z = 0) ∨ (P.z ≠ 0 ∧ Q.z ≠ 0 ∧
        P.x * Q.z ^ 2 = Q.x * P.z ^ 2 ∧ P.y * Q.z ^ 3 = Q.y * P.z ^ 3) := by
  have e1 : P.x * (Q.z * Q.z) = P.x * Q.z ^ 2 := by ring
  have e2 : Q.x * (P.z * P.z) = Q.x * P.z ^ 2 := by ring
  have e3 : P.z * P.z * P.z * Q.y = Q.y * P.z ^ 3 := by ring
  have e4 : Q.z * Q.z * Q.z * P.y = P.y * Q.z ^ 3 := by ring
  simp only [Jac.beq, LawfulFieldOps.sq_eq, e1, e2, e3, e4, ne_eq]
  by_cases hz1 : P.z = 0
  · simp [hz1]
  by_cases hz2 : Q.z = 0
  · simp [hz1, hz2]
  have i1 : P.isZero = false := (Jac.isZero_eq_false_iff P).mpr hz1
  have i2 : Q.isZero = false := (Jac.isZero_eq_false_iff Q).mpr hz2
  simp only [i1, i2, hz1, hz2, Bool.false_eq_true, if_false, false_and, false_or,
    not_false_eq_true, true_and]
  by_cases c1 : P.x * Q.z ^ 2 = Q.x * P.z ^ 2
  · by_cases c2 : P.y * Q.z ^ 3 = Q.y * P.z ^ 3
    · simp [c1, c2]
    · have c2' : ¬ Q.y * P.z ^ 3 = P.y * Q.z ^ 3 := fun h => c2 h.symm
      simp [c1, c2, c2']
  · simp [c1]

theorem Jac.beq_spec {b : F} [ShortW b] {P Q : Jac F} (hP : Jac.OnCurve b P)
    (hQ : Jac.OnCurve b Q) : Jac.beq P Q = true ↔ Jac.abs b P = Jac.abs b Q := by
  rw [Jac.beq_eq_true_iff, Jac.abs_eq_abs_iff hP hQ]

/-! ## negation, subtraction -/

theorem Jac.neg_z (P : Jac F) : P.neg.z = P.z := by
  unfold Jac.neg; split <;> rfl

theorem Jac.neg_spec {b : F} [ShortW b] {P : Jac F} (hP : Jac.OnCurve b P) :
    Jac.OnCurve b P.neg ∧ Jac.abs b P.neg = -Jac.abs b P := by
  by_cases hz : P.z = 0
  · have : P.neg = P := by simp [Jac.neg, hz]
    rw [this, Jac.abs_of_z_eq_zero hz]
    exact ⟨hP, rfl⟩
  have e : P.neg = ⟨P.x, -P.y, P.z⟩ := by
    simp [Jac.neg, hz]
  rw [e, Jac.abs_of_z_ne_zero hP hz, Point.neg_some]
  apply Jac.abs_eq_some (P := ⟨P.x, -P.y, P.z⟩) hz rfl
  simp only [W_negY]; ring

theorem Jac.sub_spec {b : F} [ShortW b] {P Q : Jac F} (hP : Jac.OnCurve b P)
    (hQ : Jac.OnCurve b Q) :
    Jac.OnCurve b (P.sub Q) ∧ Jac.abs b (P.sub Q) = Jac.abs b P - Jac.abs b Q := by
  have hn := Jac.neg_spec hQ
  have ha := Jac.add_spec hP hn.1
  unfold Jac.sub
  exact ⟨ha.1, by rw [ha.2, hn.2, sub_eq_add_neg]⟩

/-! ## affine points, conversions -/

theorem Aff.onCurve_zero (b : F) : Aff.OnCurve b (Aff.zero : Aff F) := Or.inl rfl

theorem Aff.abs_zero (b : F) [ShortW b] : Aff.abs b (Aff.zero : Aff F) = 0 :=
  Aff.abs_of_infinity rfl

theorem Aff.abs_mk_false {b : F} [ShortW b] {x y : F} (h : y ^ 2 = x ^ 3 + b) :
    Aff.abs b ⟨x, y, false⟩ = Point.some x y (W_nonsingular b h) :=
  Aff.abs_of_not_infinity (A := ⟨x, y, false⟩) (Or.inr h) rfl

theorem Aff.isOnCurve_iff (b : F) (A : Aff F) : A.isOnCurve b = true ↔ Aff.OnCurve b A := by
  unfold Aff.isOnCurve Aff.OnCurve
  by_cases hi : A.infinity = true
  · simp [hi]
  · have e : A.y * A.y = A.x * A.x * A.x + b ↔ A.y ^ 2 = A.x ^ 3 + b := by
      rw [show A.y * A.y = A.y ^ 2 by ring, show A.x * A.x * A.x = A.x ^ 3 by ring]
    simp [hi, e]

theorem Aff.toJac_spec {b : F} [ShortW b] {A : Aff F} (h : Aff.OnCurve b A) :
    Jac.OnCurve b A.toJac ∧ Jac.abs b A.toJac = Aff.abs b A := by
  by_cases hi : A.infinity = true
  · have : A.toJac = Jac.zero := by simp [Aff.toJac, hi]
    rw [this, Aff.abs_of_infinity hi]
    exact ⟨Jac.onCurve_zero b, Jac.abs_zero b⟩
  · have hi' : A.infinity = false := by simpa using hi
    have : A.toJac = ⟨A.x, A.y, 1⟩ := by simp [Aff.toJac, hi']
    rw [this, Aff.abs_of_not_infinity h hi']
    apply Jac.abs_eq_some (P := ⟨A.x, A.y, 1⟩) one_ne_zero <;> simp

theorem Aff.neg_spec {b : F} [ShortW b] {A : Aff F} (h : Aff.OnCurve b A) :
    Aff.OnCurve b A.neg ∧ Aff.abs b A.neg = -Aff.abs b A := by
  by_cases hi : A.infinity = true
  · have : A.neg = A := by simp [Aff.neg, hi]
    rw [this, Aff.abs_of_infinity hi]
    exact ⟨h, rfl⟩
  · have hi' : A.infinity = false := by simpa using hi
    have e : A.neg = ⟨A.x, -A.y, false⟩ := by simp [Aff.neg, hi']
    have hxy : A.y ^ 2 = A.x ^ 3 + b := h.resolve_left hi
    have hxy' : (-A.y) ^ 2 = A.x ^ 3 + b := by rw [neg_sq]; exact hxy
    rw [e, Aff.abs_of_not_infinity h hi', Point.neg_some, Aff.abs_mk_false hxy']
    exact ⟨Or.inr hxy', Point.some_eq_some.mpr ⟨rfl, by rw [W_negY]⟩⟩

/-- mixed addition is addition with the affine operand lifted to `z = 1`, as values -/
theorem Jac.addMixed_eq_add (P : Jac F) {A : Aff F} (hi : A.infinity = false) :
    P.addMixed A = P.add A.toJac := by
  have e : A.toJac = ⟨A.x, A.y, 1⟩ := by simp [Aff.toJac, hi]
  rw [e]
  by_cases hz : P.z = 0
  · simp [Jac.addMixed, Jac.add, hi, hz]
  have i1 : P.isZero = false := (Jac.isZero_eq_false_iff P).mpr hz
  have i2 : (⟨A.x, A.y, 1⟩ : Jac F).isZero = false := (Jac.isZero_eq_false_iff _).mpr one_ne_zero
  simp only [Jac.addMixed, Jac.add, hi, i1, i2, Bool.false_eq_true, if_false,
    LawfulFieldOps.sq_eq, LawfulFieldOps.dbl_eq, mul_one]
  split_ifs
  · rfl
  · simp only [Jac.mk.injEq]
    refine ⟨by ring, by ring, by ring⟩

theorem Jac.addMixed_spec {b : F} [ShortW b] {P : Jac F} {A : Aff F} (hP : Jac.OnCurve b P)
    (hA : Aff.OnCurve b A) :
    Jac.OnCurve b (P.addMixed A) ∧ Jac.abs b (P.addMixed A) = Jac.abs b P + Aff.abs b A := by
  by_cases hi : A.infinity = true
  · have : P.addMixed A = P := by simp [Jac.addMixed, hi]
    rw [this, Aff.abs_of_infinity hi]
    exact ⟨hP, (add_zero _).symm⟩
  · have hi' : A.infinity = false := by simpa using hi
    have hJ := Aff.toJac_spec hA
    have ha := Jac.add_spec hP hJ.1
    rw [Jac.addMixed_eq_add P hi']
    exact ⟨ha.1, by rw [ha.2, hJ.2]⟩

theorem Jac.subMixed_spec {b : F} [ShortW b] {P : Jac F} {A : Aff F} (hP : Jac.OnCurve b P)
    (hA : Aff.OnCurve b A) :
    Jac.OnCurve b (P.subMixed A) ∧ Jac.abs b (P.subMixed A) = Jac.abs b P - Aff.abs b A := by
  have hn := Aff.neg_spec hA
  have ha := Jac.addMixed_spec hP hn.1
  unfold Jac.subMixed
  exact ⟨ha.1, by rw [ha.2, hn.2, sub_eq_add_neg]⟩

/-- `toAffine` in closed form: on `z ≠ 0` the inverse exists, so the `unwrap` cannot panic -/
theorem Jac.toAffine_eq (P : Jac F) :
    P.toAffine = some (if P.z = 0 then Aff.zero else if P.z = 1 then ⟨P.x, P.y, false⟩
      else ⟨P.x * (P.z⁻¹ * P.z⁻¹), P.y * (P.z⁻¹ * P.z⁻¹ * P.z⁻¹), false⟩) := by
  unfold Jac.toAffine
  by_cases hz : P.z = 0
  · simp [hz]
  have i1 : P.isZero = false := (Jac.isZero_eq_false_iff P).mpr hz
  by_cases h1 : P.z = 1
  · simp [i1, h1]
  · simp [i1, hz, h1, LawfulFieldOps.inv_ne P.z hz]

theorem Jac.toAffine_spec {b : F} [ShortW b] {P : Jac F} (hP : Jac.OnCurve b P) :
    ∃ A, P.toAffine = some A ∧ Aff.OnCurve b A ∧ Aff.abs b A = Jac.abs b P := by
  refine ⟨_, Jac.toAffine_eq P, ?_⟩
  by_cases hz : P.z = 0
  · rw [if_pos hz, Jac.abs_of_z_eq_zero hz]
    exact ⟨Aff.onCurve_zero b, Aff.abs_zero b⟩
  rw [if_neg hz, Jac.abs_of_z_ne_zero hP hz]
  have haff := Jac.affine_eq_of_onCurve hP hz
  by_cases h1 : P.z = 1
  · rw [if_pos h1]
    have hxy : P.y ^ 2 = P.x ^ 3 + b := by simpa [h1] using haff
    rw [Aff.abs_mk_false hxy]
    exact ⟨Or.inr hxy, Point.some_eq_some.mpr ⟨by simp [h1], by simp [h1]⟩⟩
  · rw [if_neg h1]
    have ex : P.x * (P.z⁻¹ * P.z⁻¹) = P.x / P.z ^ 2 := by field_simp
    have ey : P.y * (P.z⁻¹ * P.z⁻¹ * P.z⁻¹) = P.y / P.z ^ 3 := by field_simp
    rw [ex, ey, Aff.abs_mk_false haff]
    exact ⟨Or.inr haff, rfl⟩

theorem Jac.toAffine_toJac_of_not_infinity {A : Aff F} (hi : A.infinity = false) :
    A.toJac.toAffine = some A := by
  have e : A.toJac = ⟨A.x, A.y, 1⟩ := by simp [Aff.toJac, hi]
  rw [Jac.toAffine_eq, e]
  cases A
  simp_all

theorem Jac.toAffine_toJac_of_infinity {A : Aff F} (hi : A.infinity = true) :
    A.toJac.toAffine = some Aff.zero := by
  have e : A.toJac = Jac.zero := by simp [Aff.toJac, hi]
  rw [Jac.toAffine_eq, e]
  simp [Jac.zero]

end PP
