/-
Linearity of the textbook reduced ate pairing in its second argument (assembly):

    reducedAte P (Q₁ + Q₂) = reducedAte P Q₁ · reducedAte P Q₂

for finite `P ∈ E(Fq)` and finite `Q₁, Q₂, Q₁ + Q₂ ∈ G2` (see `BilinQ4` for the plan).
-/
import PP.Proofs.BilinQ4

set_option linter.unusedSectionVars false

namespace PP
namespace BilinQ

open WeierstrassCurve.Affine Ate Lines NegPair BilinP

local notation "b₂" => g2Codec.b
local notation "E" => finalExponent

attribute [local irreducible] mst

/-- **additivity of the Miller values after the final exponentiation**:
    `fe(f_{Q₁+Q₂}(P)) = fe(f_{Q₁}(P)) · fe(f_{Q₂}(P))` -/
theorem textbookMiller_add_fe (P : Fq × Fq) (hP : P.2 ^ 2 = P.1 ^ 3 + g1Codec.b) (hy : P.2 ≠ 0)
    {q₁ q₂ q₃ : Aff Fq2} (h₁ : Aff.InSub b₂ q₁) (h₂ : Aff.InSub b₂ q₂) (h₃ : Aff.InSub b₂ q₃)
    (hi₁ : q₁.infinity = false) (hi₂ : q₂.infinity = false) (hi₃ : q₃.infinity = false)
    (hsum : Aff.abs b₂ q₃ = Aff.abs b₂ q₁ + Aff.abs b₂ q₂) :
    textbookMiller P (pair q₃) ^ E =
      textbookMiller P (pair q₁) ^ E * textbookMiller P (pair q₂) ^ E := by
  have hQ₁ := repr_aff h₁.1 hi₁
  have hQ₂ := repr_aff h₂.1 hi₂
  have hQ₃ := repr_aff h₃.1 hi₃
  obtain ⟨inv₁, hT₁, hev₁⟩ := chain_facts h₁ hi₁
  obtain ⟨inv₂, hT₂, hev₂⟩ := chain_facts h₂ hi₂
  obtain ⟨inv₃, hT₃, hev₃⟩ := chain_facts h₃ hi₃
  have hR₁ := repr_negFrob h₁ hi₁
  have hR₂ := repr_negFrob h₂ hi₂
  have hR₃ := repr_negFrob h₃ hi₃
  -- `Q₃ = Q₁ + Q₂` in coordinates
  obtain ⟨hno, hadd⟩ := repr_addAB hQ₁ hQ₂ (by rw [← hsum]; exact repr_ne_zero hQ₃)
  rw [← hsum] at hadd
  have eQ₃ : pair q₃ = addAB b₂ (pair q₁) (pair q₂) := repr_unique hQ₃ hadd
  -- `[n]Q₃ = [n]Q₁ + [n]Q₂` in coordinates
  have hsumn : Gen.BLS_X • Aff.abs b₂ q₃ =
      Gen.BLS_X • Aff.abs b₂ q₁ + Gen.BLS_X • Aff.abs b₂ q₂ := by rw [hsum, nsmul_add]
  obtain ⟨hnoT, haddT⟩ := repr_addAB hR₁ hR₂ (by rw [← hsumn]; exact repr_ne_zero hR₃)
  rw [← hsumn] at haddT
  have eT₃ : negFrob (pair q₃) = addAB b₂ (negFrob (pair q₁)) (negFrob (pair q₂)) :=
    repr_unique hR₃ haddT
  have on₁ := on_of_repr hQ₁
  have on₂ := on_of_repr hQ₂
  have onT₁ := on_of_repr hR₁
  have onT₂ := on_of_repr hR₂
  -- the constant
  have inv₃' : Inv (4 : Fq12) (addAB 4 (untwist (pair q₁)) (untwist (pair q₂))) Gen.BLS_X
      (mst (pair q₃)) := by
    rw [addAB_untwist on₁ on₂ hno, ← eQ₃]; exact inv₃
  have hnoT' : NotOpp (mst (pair q₁)).T (mst (pair q₂)).T := by
    rw [hT₁, hT₂]; exact notOpp_untwist hnoT
  have hT₃' : (mst (pair q₃)).T = addAB 4 (mst (pair q₁)).T (mst (pair q₂)).T := by
    rw [hT₁, hT₂, hT₃, addAB_untwist onT₁ onT₂ hnoT, ← eT₃]
  obtain ⟨c, hc, hmain⟩ := miller_additive (on_untwist on₁) (on_untwist on₂) (notOpp_untwist hno)
    (mst (pair q₁)) (mst (pair q₂)) (mst (pair q₃)) Gen.BLS_X inv₁ inv₂ inv₃' hnoT' hT₃'
  have hPe := on_embed hP
  have hm := hmain (embed P) hPe
  simp only [map_mul, map_pow, ev_vert, ev_lineR] at hm
  rw [(hev₁ P hPe).1, (hev₂ P hPe).1, (hev₃ P hPe).1, hT₁, hT₃,
    slopeAB_untwist on₁ on₂ hno, hT₂, slopeAB_untwist onT₁ onT₂ hnoT,
    addAB_untwist on₁ on₂ hno, ← eQ₃] at hm
  -- the slope of the line through `-Φ Q₁`, `-Φ Q₂`
  have hsl : slopeAB b₂ (negFrob (pair q₁)) (negFrob (pair q₂)) =
      -(dInv ^ 3) / dInv ^ 2 * conjHom (slopeAB b₂ (pair q₁) (pair q₂)) :=
    gmap_slopeAB d2_ne d3_ne negFrob_rel on₁ on₂ hno
  rw [hsl, line_frob] at hm
  -- final exponent
  have hd₁ := inFq6_pow_fe (hev₁ P hPe).2
  have hd₂ := inFq6_pow_fe (hev₂ P hPe).2
  have hd₃ := inFq6_pow_fe (hev₃ P hPe).2
  have hv₃ := inFq6_pow_fe (inFq6_vertical (negFrob (pair q₃)) P
    (repr_x_ne_zero hR₃ (by rw [smul_comm, h₃.2]; exact nsmul_zero _)))
  have hv := inFq6_pow_fe (inFq6_vertical (pair q₃) P (repr_x_ne_zero hQ₃ h₃.2))
  have hcE := root4_pow_fe hc
  have hl0 : lineAt (ι (slopeAB b₂ (pair q₁) (pair q₂)) / Fq12.w) (untwist (pair q₁)) (embed P) ≠ 0 :=
    lineAt_untwist_ne_zero _ _ P hy
  have hfr := frob_conj_pow_fe hl0
  have hmE := congrArg (· ^ E) hm
  have e1 : ∀ x : Fq12, (x ^ Gen.BLS_X) ^ E = (x ^ E) ^ Gen.BLS_X := fun x => pow_right_comm x _ _
  simp only [mul_pow] at hmE
  rw [hd₁, hd₂, hd₃, hv₃, hcE, hfr, e1, e1, hv, one_pow] at hmE
  simp only [mul_one, one_mul] at hmE
  have hne : (lineAt (ι (slopeAB b₂ (pair q₁) (pair q₂)) / Fq12.w) (untwist (pair q₁)) (embed P) ^ E) ^
      Gen.BLS_X ≠ 0 := pow_ne_zero _ (pow_ne_zero _ hl0)
  exact mul_right_cancel₀ hne hmE

/-- **linearity of the textbook reduced ate pairing in the second argument** -/
theorem reducedAte_add (P : Fq × Fq) (hP : P.2 ^ 2 = P.1 ^ 3 + g1Codec.b) (hy : P.2 ≠ 0)
    {q₁ q₂ q₃ : Aff Fq2} (h₁ : Aff.InSub b₂ q₁) (h₂ : Aff.InSub b₂ q₂) (h₃ : Aff.InSub b₂ q₃)
    (hi₁ : q₁.infinity = false) (hi₂ : q₂.infinity = false) (hi₃ : q₃.infinity = false)
    (hsum : Aff.abs b₂ q₃ = Aff.abs b₂ q₁ + Aff.abs b₂ q₂) :
    reducedAte P (pair q₃) = reducedAte P (pair q₁) * reducedAte P (pair q₂) := by
  rw [reducedAte_eq_inv P _ hy, reducedAte_eq_inv P _ hy, reducedAte_eq_inv P _ hy,
    textbookMiller_add_fe P hP hy h₁ h₂ h₃ hi₁ hi₂ hi₃ hsum, mul_inv]

end BilinQ
end PP
