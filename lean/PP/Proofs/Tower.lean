/-
C09: the extension tower `Fq2`, `Fq6`, `Fq12` of the model.  Umbrella import.
* `Tower2`, `Tower6`, `Tower12`: `CommRing` instances on the model's own operations, schoolbook specs,
  derived operations (`square`, `double`, `mulByNonresidue`, `norm`, `conjugate`, sparse products);
* `TowerField`: `Field` instances (`q` prime), `inverse` fails exactly on zero, `LawfulFieldOps`;
* `TowerQuot`: ring isomorphisms with Mathlib's quotient rings `AdjoinRoot _`;
* `TowerFrob`: `frobeniusMap x k = x^(q^k)` for every `k`.
-/
import PP.Proofs.Tower2
import PP.Proofs.Tower6
import PP.Proofs.Tower12
import PP.Proofs.TowerField
import PP.Proofs.TowerQuot
import PP.Proofs.TowerFrob
