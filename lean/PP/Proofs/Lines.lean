/-
C03, the line coefficients: `doubling_step` / `addition_step` of the model (`PP/Model/Pairing.lean`)
against the textbook tangent and chord lines of `PP/Spec/Ate.lean`, and the model's Miller loop
against the textbook Miller loop.  Pure algebra: no curve equation and no group law is used in this
file; the exceptional cases of the affine chord-and-tangent formulas are excluded by the explicit
predicate `Regular` (discharged from a hypothesis on the order of `Q` in `PP/Proofs/Lines2.lean`).

* `doublingStep_eq`, `additionStep_eq`: closed forms of the two steps (point and coefficients).
* `doublingStep_aff`, `additionStep_aff`: the new accumulator is a Jacobian representative of the affine
  double / sum (formulas of `Ate.affDouble`, `Ate.affAdd`).
* `line_eq`: the dense element of `ell` is `c₂ + c₁ x_P w² + c₀ y_P w³`.
* `doublingStep_line`: `line c p = ι(4 Y Z³) · w³ · (tangent at ψ(T) evaluated at P)`, `T = (X/Z², Y/Z³)`;
  `additionStep_line`: `line c p = ι(4 Z H) · w³ · (chord through ψ(T), ψ(Q) evaluated at P)`,
  `H = x_Q Z² - X`.
* `Unitish c`: `c = ι a · (w³)ⁿ` with `a ∈ Fq2ˣ` - the only factors by which model and textbook differ;
  `w³` lies in the subfield `Fq4` (`(w³)² = ξ`), so these are killed by the final exponentiation
  (`Unitish.fe`).
* `millerLoop_eq_textbook_of_regular`: the model's Miller loop is `conj(c · textbookMiller)`, `c` unitish.
-/
import PP.Spec.Ate
import PP.Proofs.Miller
import PP.Proofs.GroupModelInst

namespace PP
namespace Lines

open Ate Miller

/-! ## generic identities in a field -/

section generic
variable {K : Type} [Field K]

/-- Jacobian doubling (dbl-2009-l) computes the affine double -/
theorem affDouble_jac (X Y Z : K) (hY : Y ≠ 0) (hZ : Z ≠ 0) (h2 : (2 : K) ≠ 0) :
    affDouble (X / Z ^ 2, Y / Z ^ 3) =
      ((9 * X ^ 4 - 8 * X * Y ^ 2) / (2 * (Y * Z)) ^ 2,
       (3 * X ^ 2 * (12 * X * Y ^ 2 - 9 * X ^ 4) - 8 * Y ^ 4) / (2 * (Y * Z)) ^ 3) := by
  simp only [affDouble, sumOfSlope, tangentSlope, Prod.mk.injEq]
  constructor
  · field_simp; ring
  · field_simp; ring

theorem chordSlope_jac (X Y Z xQ yQ : K) (hZ : Z ≠ 0) (hH : xQ * Z ^ 2 - X ≠ 0) :
    chordSlope (X / Z ^ 2, Y / Z ^ 3) (xQ, yQ) = (yQ * Z ^ 3 - Y) / (Z * (xQ * Z ^ 2 - X)) := by
  simp only [chordSlope]
  have e1 : xQ - X / Z ^ 2 = (xQ * Z ^ 2 - X) / Z ^ 2 := by field_simp
  have e2 : yQ - Y / Z ^ 3 = (yQ * Z ^ 3 - Y) / Z ^ 3 := by field_simp
  rw [e1, e2]; field_simp

/-- Jacobian mixed addition (madd-2007-bl) computes the affine sum -/
theorem affAdd_jac (X Y Z xQ yQ : K) (hZ : Z ≠ 0) (hH : xQ * Z ^ 2 - X ≠ 0) (h2 : (2 : K) ≠ 0) :
    affAdd (X / Z ^ 2, Y / Z ^ 3) (xQ, yQ) =
      (((2 * (yQ * Z ^ 3 - Y)) ^ 2 - 4 * (xQ * Z ^ 2 - X) ^ 3 - 8 * X * (xQ * Z ^ 2 - X) ^ 2)
          / (2 * (Z * (xQ * Z ^ 2 - X))) ^ 2,
       ((4 * X * (xQ * Z ^ 2 - X) ^ 2 - ((2 * (yQ * Z ^ 3 - Y)) ^ 2 - 4 * (xQ * Z ^ 2 - X) ^ 3
          - 8 * X * (xQ * Z ^ 2 - X) ^ 2)) * (2 * (yQ * Z ^ 3 - Y)) - 8 * Y * (xQ * Z ^ 2 - X) ^ 3)
          / (2 * (Z * (xQ * Z ^ 2 - X))) ^ 3) := by
  simp only [affAdd, sumOfSlope, chordSlope_jac X Y Z xQ yQ hZ hH, Prod.mk.injEq]
  obtain ⟨H, rfl⟩ : ∃ H, X = xQ * Z ^ 2 - H := ⟨xQ * Z ^ 2 - X, by ring⟩
  have hH' : H ≠ 0 := by simpa using hH
  have e : xQ * Z ^ 2 - (xQ * Z ^ 2 - H) = H := by ring
  rw [e]
  constructor
  · field_simp; ring
  · field_simp; ring

/-- the three coefficients of `doubling_step`, combined as `c₂ + c₁ x_P W² + c₀ y_P W³`, are
    `4YZ³ · W³` times the tangent at `(x_T/W², y_T/W³)`, `(x_T, y_T) = (X/Z², Y/Z³)`, evaluated at `P` -/
theorem tangent_identity (X Y Z xP yP W : K) (hY : Y ≠ 0) (hZ : Z ≠ 0) (hW : W ≠ 0)
    (h2 : (2 : K) ≠ 0) :
    (6 * X ^ 3 - 4 * Y ^ 2) + (-(6 * X ^ 2 * Z ^ 2)) * xP * W ^ 2 + (4 * Y * Z ^ 3) * yP * W ^ 3 =
      (4 * Y * Z ^ 3) * W ^ 3 *
        tangentAt (X / Z ^ 2 / W ^ 2, Y / Z ^ 3 / W ^ 3) (xP, yP) := by
  simp only [tangentAt, lineAt, tangentSlope]
  field_simp
  ring

theorem chordSlope_jac_untwisted (X Y Z xQ yQ W : K) (hZ : Z ≠ 0) (hW : W ≠ 0)
    (hH : xQ * Z ^ 2 - X ≠ 0) :
    chordSlope (X / Z ^ 2 / W ^ 2, Y / Z ^ 3 / W ^ 3) (xQ / W ^ 2, yQ / W ^ 3) =
      (yQ * Z ^ 3 - Y) / (Z * W * (xQ * Z ^ 2 - X)) := by
  simp only [chordSlope]
  have e1 : xQ / W ^ 2 - X / Z ^ 2 / W ^ 2 = (xQ * Z ^ 2 - X) / (Z ^ 2 * W ^ 2) := by
    field_simp
  have e2 : yQ / W ^ 3 - Y / Z ^ 3 / W ^ 3 = (yQ * Z ^ 3 - Y) / (Z ^ 3 * W ^ 3) := by
    field_simp
  rw [e1, e2]
  field_simp

/-- the same for `addition_step` and the chord through `T` and `Q`; the factor is `4ZH · W³`,
    `H = x_Q Z² - X` -/
theorem chord_identity (X Y Z xQ yQ xP yP W : K) (hZ : Z ≠ 0) (hW : W ≠ 0)
    (hH : xQ * Z ^ 2 - X ≠ 0) :
    (4 * (yQ * Z ^ 3 - Y) * xQ - 4 * yQ * Z * (xQ * Z ^ 2 - X))
      + (-(4 * (yQ * Z ^ 3 - Y))) * xP * W ^ 2 + (4 * Z * (xQ * Z ^ 2 - X)) * yP * W ^ 3 =
      (4 * Z * (xQ * Z ^ 2 - X)) * W ^ 3 *
        chordAt (X / Z ^ 2 / W ^ 2, Y / Z ^ 3 / W ^ 3) (xQ / W ^ 2, yQ / W ^ 3) (xP, yP) := by
  simp only [chordAt, lineAt]
  rw [chordSlope_jac_untwisted X Y Z xQ yQ W hZ hW hH]
  obtain ⟨H, rfl⟩ : ∃ H, X = xQ * Z ^ 2 - H := ⟨xQ * Z ^ 2 - X, by ring⟩
  have hH' : H ≠ 0 := by simpa using hH
  have e : xQ * Z ^ 2 - (xQ * Z ^ 2 - H) = H := by ring
  rw [e]
  field_simp
  ring

end generic

/-! ## `Fq2 ⊂ Fq12`, `w` -/

theorem w_ne_zero : Fq12.w ≠ 0 := fun h => by
  have : (1 : Fq6) = 0 := congrArg Fq12.c1 h
  exact one_ne_zero this

theorem ι_injective : Function.Injective ι :=
  Fq12.ofFq6_injective.comp Fq6.ofFq2_injective

theorem ι_ne_zero {a : Fq2} (h : a ≠ 0) : ι a ≠ 0 := fun e =>
  h (ι_injective (by rw [e, map_zero]))

theorem fq12_two_ne_zero : (2 : Fq12) ≠ 0 := by
  have : (2 : Fq12) = ι 2 := (map_ofNat ι 2).symm
  rw [this]; exact ι_ne_zero fq2_two_ne_zero

theorem w_pow_three : Fq12.w ^ 3 = ⟨0, Fq6.v⟩ := by
  rw [pow_succ, Fq12.w_pow_two]
  ext1 <;> simp [Fq12.mul_c0, Fq12.mul_c1, Fq12.w]

/-- `w⁶ = ξ`: the tower realises `Fq12 = Fq2[w]/(w⁶ - ξ)` -/
theorem w_pow_six : Fq12.w ^ 6 = ι Fq2.xi := by
  have : Fq12.w ^ 6 = (Fq12.w ^ 2) ^ 3 := by ring
  rw [this, Fq12.w_pow_two, ← map_pow, Fq6.v_pow_three]; rfl

theorem Fq2.mul_ofFq_eq (c : Fq2) (x : Fq) : c * Fq2.ofFq x = ⟨c.c0 * x, c.c1 * x⟩ := by
  ext <;> simp [Fq2.mul_c0, Fq2.mul_c1]

/-! ## the dense element of `ell` -/

/-- `line c p = c₂ + c₁ x_P · w² + c₀ y_P · w³` -/
theorem line_eq (c : Coeff) (p : Aff Fq) :
    line c p = ι c.2.2 + ι c.2.1 * κ p.x * Fq12.w ^ 2 + ι c.1 * κ p.y * Fq12.w ^ 3 := by
  have h1 : ι c.2.1 * κ p.x = ι ⟨c.2.1.c0 * p.x, c.2.1.c1 * p.x⟩ := by
    rw [κ, RingHom.comp_apply, ← map_mul, Fq2.mul_ofFq_eq]
  have h2 : ι c.1 * κ p.y = ι ⟨c.1.c0 * p.y, c.1.c1 * p.y⟩ := by
    rw [κ, RingHom.comp_apply, ← map_mul, Fq2.mul_ofFq_eq]
  rw [h1, h2, w_pow_three, Fq12.w_pow_two]
  unfold line
  generalize (⟨c.2.1.c0 * p.x, c.2.1.c1 * p.x⟩ : Fq2) = a
  generalize (⟨c.1.c0 * p.y, c.1.c1 * p.y⟩ : Fq2) = b
  simp only [ι, RingHom.comp_apply]
  ext1
  · simp only [Fq12.add_c0, Fq12.mul_c0, Fq12.ofFq6_c0, Fq12.ofFq6_c1]
    ext1 <;> simp [Fq6.mul_c0, Fq6.mul_c1, Fq6.mul_c2, Fq6.v]
  · simp only [Fq12.add_c1, Fq12.mul_c1, Fq12.ofFq6_c0, Fq12.ofFq6_c1]
    ext1 <;> simp [Fq6.mul_c0, Fq6.mul_c1, Fq6.mul_c2, Fq6.v]

/-! ## closed forms of the two steps -/

/-- `doubling_step`: the point is the dbl-2009-l double (with `Z₃ = 2YZ` computed as
    `(Y+Z)² - Y² - Z²`), the coefficients are `(4YZ³, -6X²Z², 6X³ - 4Y²)` -/
theorem doublingStep_eq (r : Jac Fq2) :
    doublingStep r =
      (⟨9 * r.x ^ 4 - 8 * r.x * r.y ^ 2,
        3 * r.x ^ 2 * (12 * r.x * r.y ^ 2 - 9 * r.x ^ 4) - 8 * r.y ^ 4, 2 * (r.y * r.z)⟩,
       (4 * r.y * r.z ^ 3, -(6 * r.x ^ 2 * r.z ^ 2), 6 * r.x ^ 3 - 4 * r.y ^ 2)) := by
  simp only [doublingStep, LawfulFieldOps.sq_eq, LawfulFieldOps.dbl_eq, Prod.mk.injEq, Jac.mk.injEq]
  refine ⟨⟨?_, ?_, ?_⟩, ?_, ?_, ?_⟩ <;> ring

/-- `addition_step`: with `H = x_Q Z² - X`, `R = 2(y_Q Z³ - Y)` the point is the madd-2007-bl sum
    `(R² - 4H³ - 8XH², (4XH² - X₃)R - 8YH³, 2ZH)`, the coefficients are
    `(4ZH, -4(y_Q Z³ - Y), 4(y_Q Z³ - Y) x_Q - 4 y_Q Z H)` -/
theorem additionStep_eq (r : Jac Fq2) (q : Aff Fq2) :
    additionStep r q =
      (⟨(2 * (q.y * r.z ^ 3 - r.y)) ^ 2 - 4 * (q.x * r.z ^ 2 - r.x) ^ 3
          - 8 * r.x * (q.x * r.z ^ 2 - r.x) ^ 2,
        (4 * r.x * (q.x * r.z ^ 2 - r.x) ^ 2 - ((2 * (q.y * r.z ^ 3 - r.y)) ^ 2
          - 4 * (q.x * r.z ^ 2 - r.x) ^ 3 - 8 * r.x * (q.x * r.z ^ 2 - r.x) ^ 2))
            * (2 * (q.y * r.z ^ 3 - r.y)) - 8 * r.y * (q.x * r.z ^ 2 - r.x) ^ 3,
        2 * (r.z * (q.x * r.z ^ 2 - r.x))⟩,
       (4 * r.z * (q.x * r.z ^ 2 - r.x), -(4 * (q.y * r.z ^ 3 - r.y)),
        4 * (q.y * r.z ^ 3 - r.y) * q.x - 4 * q.y * r.z * (q.x * r.z ^ 2 - r.x))) := by
  simp only [additionStep, LawfulFieldOps.sq_eq, LawfulFieldOps.dbl_eq, Prod.mk.injEq, Jac.mk.injEq]
  refine ⟨⟨?_, ?_, ?_⟩, ?_, ?_, ?_⟩ <;> ring

/-- on a non-identity triple `doubling_step` returns exactly the point of `Jac.double` -/
theorem doublingStep_eq_double (r : Jac Fq2) (hz : r.z ≠ 0) : (doublingStep r).1 = r.double := by
  rw [doublingStep_eq, Jac.double_of_z_ne_zero hz]

/-- outside the exceptional cases `addition_step` returns exactly the point of `Jac.addMixed` -/
theorem additionStep_eq_addMixed (r : Jac Fq2) (q : Aff Fq2) (hq : q.infinity = false)
    (hz : r.z ≠ 0) (hx : r.x ≠ q.x * r.z ^ 2) : (additionStep r q).1 = r.addMixed q := by
  have hz' : r.isZero = false := (Jac.isZero_eq_false_iff r).mpr hz
  have hne : ¬ (r.x = q.x * (r.z * r.z) ∧ r.y = q.y * r.z * (r.z * r.z)) := fun h =>
    hx (by rw [h.1]; ring)
  rw [additionStep_eq]
  simp only [Jac.addMixed, hq, hz', Bool.false_eq_true, if_false, LawfulFieldOps.sq_eq,
    LawfulFieldOps.dbl_eq, hne, Jac.mk.injEq]
  refine ⟨?_, ?_, ?_⟩ <;> ring

/-! ## the steps in affine coordinates -/

/-- the affine point denoted by a Jacobian triple (`z ≠ 0`) -/
def aff (r : Jac Fq2) : Fq2 × Fq2 := (r.x / r.z ^ 2, r.y / r.z ^ 3)

/-- the finite affine point of the model as a pair -/
def pair {F : Type} (q : Aff F) : F × F := (q.x, q.y)

theorem aff_toJac (q : Aff Fq2) (hq : q.infinity = false) :
    q.toJac.z ≠ 0 ∧ aff q.toJac = pair q := by
  simp [Aff.toJac, hq, aff, pair]

theorem aff_y_ne {r : Jac Fq2} (h : (aff r).2 ≠ 0) : r.y ≠ 0 := by
  rintro e; apply h; simp [aff, e]

theorem aff_x_ne {r : Jac Fq2} {x : Fq2} (hz : r.z ≠ 0) (h : (aff r).1 ≠ x) :
    x * r.z ^ 2 - r.x ≠ 0 := by
  intro e
  apply h
  simp only [aff]
  rw [div_eq_iff (pow_ne_zero _ hz)]
  linear_combination -e

theorem doublingStep_aff (r : Jac Fq2) (hy : r.y ≠ 0) (hz : r.z ≠ 0) :
    (doublingStep r).1.z ≠ 0 ∧ aff (doublingStep r).1 = affDouble (aff r) := by
  rw [doublingStep_eq]
  refine ⟨mul_ne_zero fq2_two_ne_zero (mul_ne_zero hy hz), ?_⟩
  simp only [aff]
  rw [affDouble_jac r.x r.y r.z hy hz fq2_two_ne_zero]

theorem additionStep_aff (r : Jac Fq2) (q : Aff Fq2) (hz : r.z ≠ 0)
    (hH : q.x * r.z ^ 2 - r.x ≠ 0) :
    (additionStep r q).1.z ≠ 0 ∧ aff (additionStep r q).1 = affAdd (aff r) (pair q) := by
  rw [additionStep_eq]
  refine ⟨mul_ne_zero fq2_two_ne_zero (mul_ne_zero hz hH), ?_⟩
  simp only [aff, pair]
  rw [affAdd_jac r.x r.y r.z q.x q.y hz hH fq2_two_ne_zero]

/-! ## the coefficients are the tangent and chord lines -/

theorem untwist_aff (r : Jac Fq2) :
    untwist (aff r) = (ι r.x / ι r.z ^ 2 / Fq12.w ^ 2, ι r.y / ι r.z ^ 3 / Fq12.w ^ 3) := by
  simp only [untwist, aff, map_div₀, map_pow]

/-- **the coefficients of `doubling_step` are the tangent line**: the element by which `ell`
    multiplies is `ι(4YZ³) · w³` times the tangent to `E` at `ψ(T)`, `T = (X/Z², Y/Z³)`, evaluated at
    `P`; for every `P` -/
theorem doublingStep_line (r : Jac Fq2) (p : Aff Fq) (hy : r.y ≠ 0) (hz : r.z ≠ 0) :
    line (doublingStep r).2 p =
      ι (4 * r.y * r.z ^ 3) * Fq12.w ^ 3 * tangentAt (untwist (aff r)) (embed (pair p)) := by
  rw [line_eq, doublingStep_eq, untwist_aff]
  simp only [embed, pair, map_sub, map_mul, map_pow, map_neg, map_ofNat]
  exact tangent_identity _ _ _ _ _ _ (ι_ne_zero hy) (ι_ne_zero hz) w_ne_zero fq12_two_ne_zero

/-- **the coefficients of `addition_step` are the chord line** through `ψ(T)` and `ψ(Q)`, up to the
    factor `ι(4ZH) · w³`, `H = x_Q Z² - X` -/
theorem additionStep_line (r : Jac Fq2) (q : Aff Fq2) (p : Aff Fq) (hz : r.z ≠ 0)
    (hH : q.x * r.z ^ 2 - r.x ≠ 0) :
    line (additionStep r q).2 p =
      ι (4 * r.z * (q.x * r.z ^ 2 - r.x)) * Fq12.w ^ 3 *
        chordAt (untwist (aff r)) (untwist (pair q)) (embed (pair p)) := by
  rw [line_eq, additionStep_eq, untwist_aff]
  simp only [embed, pair, untwist, map_sub, map_mul, map_pow, map_neg, map_ofNat]
  refine chord_identity _ _ _ _ _ _ _ _ (ι_ne_zero hz) w_ne_zero ?_
  have := ι_ne_zero hH
  simpa only [map_sub, map_mul, map_pow] using this

/-! ## the factors by which model and textbook differ -/

/-- `c = ι a · (w³)ⁿ` with `a ∈ Fq2ˣ` -/
def Unitish (c : Fq12) : Prop := ∃ (a : Fq2) (n : ℕ), a ≠ 0 ∧ c = ι a * (Fq12.w ^ 3) ^ n

theorem Unitish.one : Unitish 1 := ⟨1, 0, one_ne_zero, by simp⟩

theorem Unitish.mul {c d : Fq12} (hc : Unitish c) (hd : Unitish d) : Unitish (c * d) := by
  obtain ⟨a, n, ha, rfl⟩ := hc
  obtain ⟨b, m, hb, rfl⟩ := hd
  exact ⟨a * b, n + m, mul_ne_zero ha hb, by rw [map_mul, pow_add]; ring⟩

theorem Unitish.sq {c : Fq12} (hc : Unitish c) : Unitish (c ^ 2) := by
  rw [pow_two]; exact hc.mul hc

theorem Unitish.line_factor {a : Fq2} (ha : a ≠ 0) : Unitish (ι a * Fq12.w ^ 3) :=
  ⟨a, 1, ha, by rw [pow_one]⟩

theorem Unitish.ne_zero {c : Fq12} (hc : Unitish c) : c ≠ 0 := by
  obtain ⟨a, n, ha, rfl⟩ := hc
  exact mul_ne_zero (ι_ne_zero ha) (pow_ne_zero _ (pow_ne_zero _ w_ne_zero))

/-- `w³` lies in the subfield with `q⁴` elements (`(w³)² = ξ ∈ Fq2`), evaluated by the kernel -/
theorem fe_w_cube : finalExponentiation (Fq12.w ^ 3) = some 1 := by
  rw [w_pow_three]; decide +kernel

/-- unitish factors are killed by the final exponentiation -/
theorem Unitish.fe {c : Fq12} (hc : Unitish c) : finalExponentiation c = some 1 := by
  obtain ⟨a, n, ha, rfl⟩ := hc
  have hw : Fq12.w ^ 3 ≠ 0 := pow_ne_zero _ w_ne_zero
  rw [FinalExp.fe_mul (ι_ne_zero ha) (pow_ne_zero _ hw), FinalExp.fe_pow hw, fe_w_cube]
  have : finalExponentiation (ι a) = some 1 := FinalExp.fe_ofFq2 ha
  rw [this]
  simp

/-! ## the loops of the model, in lemma-friendly form -/

/-- the accumulator of `prepareLoop` -/
def pointFrom (q : Aff Fq2) : List Bool → Jac Fq2 → Jac Fq2
  | [], r => r
  | i :: bs, r =>
    if i then pointFrom q bs (additionStep (doublingStep r).1 q).1
    else pointFrom q bs (doublingStep r).1

/-- the coefficients appended by `prepareLoop` -/
def coeffsFrom (q : Aff Fq2) : List Bool → Jac Fq2 → List Coeff
  | [], _ => []
  | i :: bs, r =>
    if i then
      (doublingStep r).2 :: (additionStep (doublingStep r).1 q).2 ::
        coeffsFrom q bs (additionStep (doublingStep r).1 q).1
    else (doublingStep r).2 :: coeffsFrom q bs (doublingStep r).1

theorem prepareLoop_eq (q : Aff Fq2) (bs : List Bool) (r : Jac Fq2) (acc : List Coeff) :
    prepareLoop q bs r acc = (pointFrom q bs r, acc ++ coeffsFrom q bs r) := by
  induction bs generalizing r acc with
  | nil => simp [prepareLoop, pointFrom, coeffsFrom]
  | cons i bs ih =>
    cases i with
    | false => simp [prepareLoop, pointFrom, coeffsFrom, ih]
    | true => simp [prepareLoop, pointFrom, coeffsFrom, ih]

theorem fromAffine_coeffs (q : Aff Fq2) (hq : q.infinity = false) :
    (G2Prepared.fromAffine q).coeffs =
      coeffsFrom q blsXBits q.toJac ++ [(doublingStep (pointFrom q blsXBits q.toJac)).2] := by
  unfold G2Prepared.fromAffine
  simp [hq, prepareLoop_eq]

/-- the value accumulated by the loop of `miller_loop` over the coefficients `coeffsFrom` -/
def modelF (p : Aff Fq) (q : Aff Fq2) : List Bool → Jac Fq2 → Fq12 → Fq12
  | [], _, f => f
  | i :: bs, r, f =>
    if i then
      modelF p q bs (additionStep (doublingStep r).1 q).1
        ((f * line (doublingStep r).2 p * line (additionStep (doublingStep r).1 q).2 p) ^ 2)
    else modelF p q bs (doublingStep r).1 ((f * line (doublingStep r).2 p) ^ 2)

theorem mlb1_coeffsFrom (p : Aff Fq) (q : Aff Fq2) (bs : List Bool) (r : Jac Fq2) (f : Fq12)
    (rest : List Coeff) :
    mlb1 p bs (coeffsFrom q bs r ++ rest) f = some (modelF p q bs r f, rest) := by
  induction bs generalizing r f with
  | nil => simp [mlb1, coeffsFrom, modelF]
  | cons i bs ih =>
    cases i with
    | false => simp [mlb1, coeffsFrom, modelF, step1, ell1, ih, pow_two]
    | true => simp [mlb1, coeffsFrom, modelF, step1, ell1, ih, pow_two]

/-- the Miller loop of the model on `(p, from_affine q)`, finite `p`, `q`, unfolded -/
theorem millerLoop_eq_modelF (p : Aff Fq) (q : Aff Fq2) (hp : p.infinity = false)
    (hq : q.infinity = false) :
    millerLoop [(p, G2Prepared.fromAffine q)] =
      some (Fq12.conjugate (modelF p q blsXBits q.toJac 1 *
        line (doublingStep (pointFrom q blsXBits q.toJac)).2 p)) := by
  rw [millerLoop_single, single, fromAffine_infinity, hp, hq]
  simp only [Bool.or_self, Bool.false_eq_true, if_false]
  unfold core1
  rw [fromAffine_coeffs q hq, mlb1_coeffsFrom]
  simp [ell1]

/-! ## model loop against textbook loop -/

/-- no exceptional case in the textbook affine loop over `bits` from the accumulator `T`:
    `y_T ≠ 0` at every doubling, `x_T ≠ x_Q` at every addition -/
def Regular (Q : Fq2 × Fq2) : List Bool → Fq2 × Fq2 → Prop
  | [], _ => True
  | b :: bs, T =>
    T.2 ≠ 0 ∧
      if b then (affDouble T).1 ≠ Q.1 ∧ Regular Q bs (affAdd (affDouble T) Q)
      else Regular Q bs (affDouble T)

theorem regular_append (Q : Fq2 × Fq2) (bs cs : List Bool) (T : Fq2 × Fq2) (F : Fq12)
    (P : Fq × Fq) (h : Regular Q (bs ++ cs) T) :
    Regular Q bs T ∧ Regular Q cs (bs.foldl (millerStep P Q) (F, T)).2 := by
  induction bs generalizing T F with
  | nil => exact ⟨trivial, h⟩
  | cons b bs ih =>
    cases b with
    | false =>
      simp only [List.cons_append, Regular, Bool.false_eq_true, if_false] at h ⊢
      have := ih _ (F ^ 2 * tangentAt (untwist T) (embed P)) h.2
      exact ⟨⟨h.1, this.1⟩, by simpa [millerStep] using this.2⟩
    | true =>
      simp only [List.cons_append, Regular, if_true] at h ⊢
      have := ih _ (F ^ 2 * tangentAt (untwist T) (embed P) *
        chordAt (untwist (affDouble T)) (untwist Q) (embed P)) h.2.2
      exact ⟨⟨h.1, h.2.1, this.1⟩, by simpa [millerStep] using this.2⟩

/-- **invariant of the two loops**: if the model's accumulator `r` represents the textbook `T` and
    the model's `f` is `c · F²` (`c` unitish), the same holds after any list of bits -/
theorem loops_agree (p : Aff Fq) (q : Aff Fq2) (bs : List Bool) (r : Jac Fq2) (f F c : Fq12)
    (T : Fq2 × Fq2) (hreg : Regular (pair q) bs T) (hz : r.z ≠ 0) (hT : aff r = T)
    (hc : Unitish c) (hf : f = c * F ^ 2) :
    (pointFrom q bs r).z ≠ 0 ∧
      aff (pointFrom q bs r) = (bs.foldl (millerStep (pair p) (pair q)) (F, T)).2 ∧
      ∃ c', Unitish c' ∧
        modelF p q bs r f = c' * (bs.foldl (millerStep (pair p) (pair q)) (F, T)).1 ^ 2 := by
  induction bs generalizing r f F c T with
  | nil => exact ⟨hz, hT, c, hc, hf⟩
  | cons b bs ih =>
    subst hT
    have hy : r.y ≠ 0 := aff_y_ne hreg.1
    obtain ⟨hdz, hda⟩ := doublingStep_aff r hy hz
    have hdl := doublingStep_line r p hy hz
    have hs : (4 * r.y * r.z ^ 3 : Fq2) ≠ 0 :=
      mul_ne_zero (mul_ne_zero (by
        have : (4 : Fq2) = 2 * 2 := by norm_num
        rw [this]; exact mul_ne_zero fq2_two_ne_zero fq2_two_ne_zero) hy) (pow_ne_zero _ hz)
    cases b with
    | false =>
      simp only [Regular, Bool.false_eq_true, if_false] at hreg
      simp only [pointFrom, modelF, List.foldl_cons, millerStep, Bool.false_eq_true, if_false]
      refine ih (doublingStep r).1 _ (F ^ 2 * tangentAt (untwist (aff r)) (embed (pair p)))
        ((c * (ι (4 * r.y * r.z ^ 3) * Fq12.w ^ 3)) ^ 2) _ hreg.2 hdz hda
        (hc.mul (Unitish.line_factor hs)).sq ?_
      rw [hf, hdl]; ring
    | true =>
      simp only [Regular, if_true] at hreg
      have hH : q.x * (doublingStep r).1.z ^ 2 - (doublingStep r).1.x ≠ 0 :=
        aff_x_ne hdz (by rw [hda]; exact hreg.2.1)
      obtain ⟨haz, haa⟩ := additionStep_aff (doublingStep r).1 q hdz hH
      have hal := additionStep_line (doublingStep r).1 q p hdz hH
      have hs' : (4 * (doublingStep r).1.z *
          (q.x * (doublingStep r).1.z ^ 2 - (doublingStep r).1.x) : Fq2) ≠ 0 :=
        mul_ne_zero (mul_ne_zero (by
          have : (4 : Fq2) = 2 * 2 := by norm_num
          rw [this]; exact mul_ne_zero fq2_two_ne_zero fq2_two_ne_zero) hdz) hH
      simp only [pointFrom, modelF, List.foldl_cons, millerStep, if_true]
      rw [hda] at haa hal
      refine ih (additionStep (doublingStep r).1 q).1 _
        (F ^ 2 * tangentAt (untwist (aff r)) (embed (pair p)) *
          chordAt (untwist (affDouble (aff r))) (untwist (pair q)) (embed (pair p)))
        ((c * (ι (4 * r.y * r.z ^ 3) * Fq12.w ^ 3) *
          (ι (4 * (doublingStep r).1.z *
            (q.x * (doublingStep r).1.z ^ 2 - (doublingStep r).1.x)) * Fq12.w ^ 3)) ^ 2) _
        hreg.2.2 haz haa
        ((hc.mul (Unitish.line_factor hs)).mul (Unitish.line_factor hs')).sq ?_
      rw [hf, hdl, hal]; ring

/-- the bits of the model's loop followed by the final doubling are the bits of `|x|` below its
    leading one -/
theorem bitsBelowTop_eq : bitsBelowTop Gen.BLS_X = blsXBits ++ [false] := by decide +kernel

/-- **the model's Miller loop is the textbook Miller loop** up to a unitish factor, provided the
    textbook loop meets no exceptional case -/
theorem millerLoop_eq_textbook_of_regular (p : Aff Fq) (q : Aff Fq2) (hp : p.infinity = false)
    (hq : q.infinity = false) (hreg : Regular (pair q) (bitsBelowTop Gen.BLS_X) (pair q)) :
    ∃ c, Unitish c ∧
      millerLoop [(p, G2Prepared.fromAffine q)] =
        some (Fq12.conjugate (c * textbookMiller (pair p) (pair q))) := by
  rw [millerLoop_eq_modelF p q hp hq]
  rw [bitsBelowTop_eq] at hreg
  obtain ⟨hreg1, hreg2⟩ := regular_append (pair q) blsXBits [false] (pair q) 1 (pair p) hreg
  obtain ⟨hz0, ha0⟩ := aff_toJac q hq
  obtain ⟨hz, ha, c, hc, hF⟩ := loops_agree p q blsXBits q.toJac 1 1 1 (pair q) hreg1 hz0 ha0
    Unitish.one (by simp)
  set R := pointFrom q blsXBits q.toJac with hR
  set S := blsXBits.foldl (millerStep (pair p) (pair q)) (1, pair q) with hS
  have hy : R.y ≠ 0 := aff_y_ne (by rw [ha]; exact hreg2.1)
  have hs : (4 * R.y * R.z ^ 3 : Fq2) ≠ 0 :=
    mul_ne_zero (mul_ne_zero (by
      have : (4 : Fq2) = 2 * 2 := by norm_num
      rw [this]; exact mul_ne_zero fq2_two_ne_zero fq2_two_ne_zero) hy) (pow_ne_zero _ hz)
  refine ⟨c * (ι (4 * R.y * R.z ^ 3) * Fq12.w ^ 3), hc.mul (Unitish.line_factor hs), ?_⟩
  rw [hF, doublingStep_line R p hy hz, ha]
  have htb : textbookMiller (pair p) (pair q) =
      S.1 ^ 2 * tangentAt (untwist S.2) (embed (pair p)) := by
    unfold textbookMiller millerBits
    rw [bitsBelowTop_eq, List.foldl_append]
    simp [millerStep, hS]
  rw [htb]
  exact congrArg (fun x => some (Fq12.conjugate x)) (by ring)

end Lines
end PP
