/-
C08, Montgomery level: the derive-generated prime-field arithmetic (`PP.Mont`, raw values in
Montgomery form `a·W mod p`, `W = 2^(64·limbs)`) computes integer arithmetic modulo `p`.

Everything is proved for abstract parameters satisfying `Params.WF` and instantiated for the
extracted parameters `fqP`, `frP` by kernel evaluation.
-/
import Mathlib.Data.ZMod.Basic
import Mathlib.Tactic.Ring
import Mathlib.Tactic.Linarith
import Mathlib.Tactic.NormNum
import Mathlib.Tactic.LinearCombination
import PP.Model.Mont
import PP.Proofs.Limbs

namespace PP.Mont
open PP.Limbs

/-- Well-formedness of a parameter set: what the derive macro guarantees about its constants. -/
structure Params.WF (P : Params) : Prop where
  p_odd : P.p % 2 = 1
  p_gt : 1 < P.p
  /-- one spare bit: `2p ≤ 2^(64·limbs)` -/
  p_lt : 2 * P.p ≤ P.W
  /-- `INV = −p⁻¹ mod 2^64` -/
  inv_spec : (P.INV * P.p + 1) % 2 ^ 64 = 0
  R_spec : P.R = P.W % P.p
  R2_spec : P.R2 = P.W * P.W % P.p
  limbs_pos : 0 < P.limbs

theorem fqP_wf : fqP.WF where
  p_odd := by decide +kernel
  p_gt := by decide +kernel
  p_lt := by decide +kernel
  inv_spec := by decide +kernel
  R_spec := by decide +kernel
  R2_spec := by decide +kernel
  limbs_pos := by decide

theorem frP_wf : frP.WF where
  p_odd := by decide +kernel
  p_gt := by decide +kernel
  p_lt := by decide +kernel
  inv_spec := by decide +kernel
  R_spec := by decide +kernel
  R2_spec := by decide +kernel
  limbs_pos := by decide

/-- `W⁻¹ mod p`, written without any inverse: `((p+1)/2)^(64·limbs) mod p`. -/
def Winv (P : Params) : Nat := ((P.p + 1) / 2) ^ (64 * P.limbs) % P.p

/-- Decoding of a raw Montgomery value: `a·W⁻¹ mod p`. -/
def dec (P : Params) (a : Nat) : Nat := a * Winv P % P.p

/-- Encoding: `x·W mod p`. -/
def enc (P : Params) (x : Nat) : Nat := x * P.W % P.p

section generic
variable {P : Params}

theorem Params.WF.p_pos (h : P.WF) : 0 < P.p := by have := h.p_gt; omega

theorem Params.WF.p_lt_W (h : P.WF) : P.p < P.W := by have := h.p_gt; have := h.p_lt; omega

theorem W_pos (P : Params) : 0 < P.W := by unfold Params.W; positivity

/-- `W · Winv ≡ 1 (mod p)` -/
theorem Params.WF.W_mul_Winv (h : P.WF) : P.W * Winv P % P.p = 1 := by
  have hp := h.p_gt
  have h2 : 2 * ((P.p + 1) / 2) = P.p + 1 := by have := h.p_odd; omega
  have key : P.W * ((P.p + 1) / 2) ^ (64 * P.limbs) = (P.p + 1) ^ (64 * P.limbs) := by
    unfold Params.W; rw [← mul_pow, h2]
  unfold Winv
  rw [Nat.mul_mod, Nat.mod_mod, ← Nat.mul_mod, key, Nat.pow_mod]
  have : (P.p + 1) % P.p = 1 := by
    rw [Nat.add_mod_left]; exact Nat.mod_eq_of_lt hp
  rw [this, one_pow]; exact Nat.mod_eq_of_lt hp

/-- the same in `ZMod p` -/
theorem Params.WF.Wz (h : P.WF) : (P.W : ZMod P.p) * (Winv P : ZMod P.p) = 1 := by
  have := h.W_mul_Winv
  have h1 : ((P.W * Winv P : ℕ) : ZMod P.p) = ((1 : ℕ) : ZMod P.p) := by
    rw [ZMod.natCast_eq_natCast_iff']; rw [this]; exact (Nat.mod_eq_of_lt h.p_gt).symm
  simpa using h1

theorem Params.WF.Wz' (h : P.WF) : (Winv P : ZMod P.p) * (P.W : ZMod P.p) = 1 := by
  rw [mul_comm]; exact h.Wz

theorem Params.WF.R_cast (h : P.WF) : (P.R : ZMod P.p) = P.W := by
  rw [h.R_spec, ZMod.natCast_mod]

theorem Params.WF.R2_cast (h : P.WF) : (P.R2 : ZMod P.p) = (P.W : ZMod P.p) * P.W := by
  rw [h.R2_spec, ZMod.natCast_mod]; push_cast; rfl

theorem Params.WF.R_lt (h : P.WF) : P.R < P.p := by rw [h.R_spec]; exact Nat.mod_lt _ h.p_pos
theorem Params.WF.R2_lt (h : P.WF) : P.R2 < P.p := by rw [h.R2_spec]; exact Nat.mod_lt _ h.p_pos

/-- two reduced naturals with the same image in `ZMod p` are equal -/
theorem eq_of_cast_eq {p a b : ℕ} (ha : a < p) (hb : b < p) (h : (a : ZMod p) = (b : ZMod p)) :
    a = b := by
  rw [ZMod.natCast_eq_natCast_iff'] at h
  rwa [Nat.mod_eq_of_lt ha, Nat.mod_eq_of_lt hb] at h

theorem eq_mod_of_cast_eq {p a b : ℕ} (ha : a < p) (h : (a : ZMod p) = (b : ZMod p)) :
    a = b % p := by
  rw [ZMod.natCast_eq_natCast_iff'] at h
  rwa [Nat.mod_eq_of_lt ha] at h

theorem dec_lt (h : P.WF) (a : ℕ) : dec P a < P.p := Nat.mod_lt _ h.p_pos
theorem enc_lt (h : P.WF) (a : ℕ) : enc P a < P.p := Nat.mod_lt _ h.p_pos

theorem dec_cast (a : ℕ) : (dec P a : ZMod P.p) = (a : ZMod P.p) * Winv P := by
  unfold dec; rw [ZMod.natCast_mod]; push_cast; rfl

theorem enc_cast (a : ℕ) : (enc P a : ZMod P.p) = (a : ZMod P.p) * P.W := by
  unfold enc; rw [ZMod.natCast_mod]; push_cast; rfl

/-- if `r·W ≡ T (mod p)` then `r ≡ T·W⁻¹` -/
theorem Params.WF.cast_of_mul_W (h : P.WF) {r T : ZMod P.p} (hr : r * P.W = T) : r = T * Winv P := by
  rw [← hr, mul_assoc, h.Wz, mul_one]

theorem dec_enc (h : P.WF) (x : ℕ) : dec P (enc P x) = x % P.p := by
  apply eq_mod_of_cast_eq (dec_lt h _)
  rw [dec_cast, enc_cast, mul_assoc, h.Wz, mul_one]

theorem enc_dec (h : P.WF) (a : ℕ) : enc P (dec P a) = a % P.p := by
  apply eq_mod_of_cast_eq (enc_lt h _)
  rw [enc_cast, dec_cast, mul_assoc, h.Wz', mul_one]

/-- characterisation of decoding without inverses: `dec a = x` iff `a = x·W mod p`
    (for reduced `a`, `x`) -/
theorem dec_eq_iff (h : P.WF) {a x : ℕ} (ha : a < P.p) (hx : x < P.p) :
    dec P a = x ↔ a = x * P.W % P.p := by
  constructor
  · intro hd
    have := enc_dec h a
    rw [hd, Nat.mod_eq_of_lt ha] at this
    exact this.symm
  · intro he
    have := dec_enc h x
    rw [Nat.mod_eq_of_lt hx] at this
    rw [← this]; unfold enc; rw [← he]

/-- any other inverse of `W` decodes the same way (e.g. `PP.fqRinv`) -/
theorem dec_eq_of_inverse (h : P.WF) {wi : ℕ} (hwi : P.W * wi % P.p = 1) (a : ℕ) :
    a * wi % P.p = dec P a := by
  have h1 : (P.W : ZMod P.p) * (wi : ZMod P.p) = 1 := by
    have h1 : ((P.W * wi : ℕ) : ZMod P.p) = ((1 : ℕ) : ZMod P.p) := by
      rw [ZMod.natCast_eq_natCast_iff', hwi]; exact (Nat.mod_eq_of_lt h.p_gt).symm
    simpa using h1
  have h2 : (wi : ZMod P.p) = Winv P := by
    calc (wi : ZMod P.p) = (Winv P * P.W) * wi := by rw [h.Wz', one_mul]
      _ = Winv P * (P.W * wi) := by ring
      _ = Winv P := by rw [h1, mul_one]
  have : ((a * wi % P.p : ℕ) : ZMod P.p) = (dec P a : ZMod P.p) := by
    rw [dec_cast, ZMod.natCast_mod]; push_cast; rw [h2]
  exact eq_of_cast_eq (Nat.mod_lt _ h.p_pos) (dec_lt h _) this

theorem dec_inj (h : P.WF) {a b : ℕ} (ha : a < P.p) (hb : b < P.p) (hab : dec P a = dec P b) :
    a = b := by
  have := congrArg (enc P) hab
  rwa [enc_dec h, enc_dec h, Nat.mod_eq_of_lt ha, Nat.mod_eq_of_lt hb] at this

theorem dec_zero (P : Params) : dec P 0 = 0 := by simp [dec]

/-- zero test: the raw value is `0` iff the decoded value is `0` -/
theorem eq_zero_iff_dec_eq_zero (h : P.WF) {a : ℕ} (ha : a < P.p) : a = 0 ↔ dec P a = 0 := by
  constructor
  · rintro rfl; exact dec_zero P
  · intro hd
    exact dec_inj h ha h.p_pos (by rw [hd, dec_zero])

/-- decoding is additive -/
theorem dec_add_mod (h : P.WF) (a b : ℕ) : dec P ((a + b) % P.p) = (dec P a + dec P b) % P.p := by
  apply eq_mod_of_cast_eq (dec_lt h _)
  rw [dec_cast, ZMod.natCast_mod]; push_cast; rw [dec_cast, dec_cast]; ring

/-! ### reduce, add, double, sub, neg -/

theorem reduce_spec (h : P.WF) {a : ℕ} (ha : a < 2 * P.p) :
    reduce P a < P.p ∧ reduce P a = a % P.p := by
  have hW := h.p_lt
  unfold reduce
  split
  · next hlt => exact ⟨hlt, (Nat.mod_eq_of_lt hlt).symm⟩
  · next hge =>
    have e1 : a + P.W - P.p = (a - P.p) + P.W := by omega
    have e2 : (a - P.p) % P.W = a - P.p := Nat.mod_eq_of_lt (by omega)
    rw [e1, Nat.add_mod_right, e2]
    refine ⟨by omega, ?_⟩
    have : a % P.p = (a - P.p) % P.p := by
      conv_lhs => rw [show a = (a - P.p) + P.p by omega]
      exact Nat.add_mod_right _ _
    rw [this, Nat.mod_eq_of_lt (by omega)]

theorem add_spec (h : P.WF) {a b : ℕ} (ha : a < P.p) (hb : b < P.p) :
    add P a b < P.p ∧ add P a b = (a + b) % P.p := by
  have hW := h.p_lt
  unfold add
  rw [Nat.mod_eq_of_lt (by omega : a + b < P.W)]
  exact reduce_spec h (by omega)

theorem double_spec (h : P.WF) {a : ℕ} (ha : a < P.p) :
    double P a < P.p ∧ double P a = (2 * a) % P.p := by
  have hW := h.p_lt
  unfold double
  rw [Nat.mod_eq_of_lt (by omega : 2 * a < P.W)]
  exact reduce_spec h (by omega)

theorem sub_spec (h : P.WF) {a b : ℕ} (ha : a < P.p) (hb : b < P.p) :
    sub P a b < P.p ∧ sub P a b = (a + P.p - b) % P.p := by
  have hW := h.p_lt
  unfold sub
  by_cases hba : b > a
  · simp only [hba, if_true]
    rw [Nat.mod_eq_of_lt (by omega : a + P.p < P.W)]
    have e1 : a + P.p + P.W - b = (a + P.p - b) + P.W := by omega
    rw [e1, Nat.add_mod_right, Nat.mod_eq_of_lt (by omega : a + P.p - b < P.W)]
    exact ⟨by omega, (Nat.mod_eq_of_lt (by omega)).symm⟩
  · simp only [hba, if_false]
    have e1 : a + P.W - b = (a - b) + P.W := by omega
    rw [e1, Nat.add_mod_right, Nat.mod_eq_of_lt (by omega : a - b < P.W)]
    refine ⟨by omega, ?_⟩
    have : a + P.p - b = (a - b) + P.p := by omega
    rw [this, Nat.add_mod_right, Nat.mod_eq_of_lt (by omega)]

theorem neg_spec (h : P.WF) {a : ℕ} (ha : a < P.p) :
    neg P a < P.p ∧ neg P a = (P.p - a) % P.p := by
  have hW := h.p_lt
  unfold neg
  split
  · next h0 => subst h0; simp [h.p_pos]
  · next h0 =>
    have e1 : P.p + P.W - a = (P.p - a) + P.W := by omega
    rw [e1, Nat.add_mod_right, Nat.mod_eq_of_lt (by omega : P.p - a < P.W)]
    exact ⟨by omega, (Nat.mod_eq_of_lt (by omega)).symm⟩

theorem sub_cast (h : P.WF) {a b : ℕ} (ha : a < P.p) (hb : b < P.p) :
    (sub P a b : ZMod P.p) = (a : ZMod P.p) - b := by
  rw [(sub_spec h ha hb).2, ZMod.natCast_mod, Nat.cast_sub (by omega)]
  push_cast; rw [ZMod.natCast_self]; ring

theorem add_cast (h : P.WF) {a b : ℕ} (ha : a < P.p) (hb : b < P.p) :
    (add P a b : ZMod P.p) = (a : ZMod P.p) + b := by
  rw [(add_spec h ha hb).2, ZMod.natCast_mod]; push_cast; rfl

theorem neg_cast (h : P.WF) {a : ℕ} (ha : a < P.p) :
    (neg P a : ZMod P.p) = - (a : ZMod P.p) := by
  rw [(neg_spec h ha).2, ZMod.natCast_mod, Nat.cast_sub (by omega), ZMod.natCast_self]; ring

theorem double_cast (h : P.WF) {a : ℕ} (ha : a < P.p) :
    (double P a : ZMod P.p) = 2 * (a : ZMod P.p) := by
  rw [(double_spec h ha).2, ZMod.natCast_mod]; push_cast; rfl

/-- decoded form of the additive operations -/
theorem dec_add (h : P.WF) {a b : ℕ} (ha : a < P.p) (hb : b < P.p) :
    dec P (add P a b) = (dec P a + dec P b) % P.p := by
  rw [(add_spec h ha hb).2]; exact dec_add_mod h a b

theorem dec_double (h : P.WF) {a : ℕ} (ha : a < P.p) :
    dec P (double P a) = (2 * dec P a) % P.p := by
  rw [(double_spec h ha).2, two_mul, two_mul]; exact dec_add_mod h a a

theorem dec_sub (h : P.WF) {a b : ℕ} (ha : a < P.p) (hb : b < P.p) :
    dec P (sub P a b) = (dec P a + P.p - dec P b) % P.p := by
  have hdb := dec_lt h b
  apply eq_mod_of_cast_eq (dec_lt h _)
  rw [dec_cast, sub_cast h ha hb, Nat.cast_sub (by omega)]
  push_cast; rw [dec_cast, dec_cast, ZMod.natCast_self]; ring

theorem dec_neg (h : P.WF) {a : ℕ} (ha : a < P.p) :
    dec P (neg P a) = (P.p - dec P a) % P.p := by
  have hdb := dec_lt h a
  apply eq_mod_of_cast_eq (dec_lt h _)
  rw [dec_cast, neg_cast h ha, Nat.cast_sub (by omega)]
  rw [dec_cast, ZMod.natCast_self]; ring

/-! ### Montgomery reduction -/

theorem W64_eq : W64 = 2 ^ 64 := rfl

/-- one round clears one more limb -/
theorem redc_round_dvd (h : P.WF) {i T : ℕ} (hd : 2 ^ (64 * i) ∣ T) :
    2 ^ (64 * (i + 1)) ∣
      T + (((T >>> (64 * i)) % W64) * P.INV) % W64 * P.p * 2 ^ (64 * i) := by
  obtain ⟨t, rfl⟩ := hd
  have hpos : 0 < 2 ^ (64 * i) := by positivity
  rw [Nat.shiftRight_eq_div_pow, Nat.mul_div_cancel_left _ hpos, W64_eq]
  set k := t % 2 ^ 64 * P.INV % 2 ^ 64 with hk
  have hkm : k ≡ t * P.INV [MOD 2 ^ 64] :=
    (Nat.mod_modEq _ _).trans (Nat.ModEq.mul_right _ (Nat.mod_modEq t _))
  have h1 : t + k * P.p ≡ t + t * P.INV * P.p [MOD 2 ^ 64] :=
    Nat.ModEq.add_left _ (hkm.mul_right _)
  have h2 : t + t * P.INV * P.p = t * (P.INV * P.p + 1) := by ring
  have h3 : t * (P.INV * P.p + 1) ≡ t * 0 [MOD 2 ^ 64] :=
    Nat.ModEq.mul_left _ h.inv_spec
  have h4 : 2 ^ 64 ∣ t + k * P.p := by
    rw [← Nat.modEq_zero_iff_dvd]
    rw [h2] at h1
    simpa using h1.trans h3
  obtain ⟨s, hs⟩ := h4
  refine ⟨s, ?_⟩
  have : 2 ^ (64 * (i + 1)) = 2 ^ (64 * i) * 2 ^ 64 := by rw [← pow_add]; ring_nf
  rw [this]
  calc 2 ^ (64 * i) * t + k * P.p * 2 ^ (64 * i) = 2 ^ (64 * i) * (t + k * P.p) := by ring
    _ = 2 ^ (64 * i) * 2 ^ 64 * s := by rw [hs]; ring

/-- `n` rounds starting at limb `i` add a multiple `m·p·2^(64i)` with `m < 2^(64n)` and clear
    limbs `i … i+n−1` -/
theorem redcRounds_spec (h : P.WF) (n : ℕ) : ∀ (i T : ℕ), 2 ^ (64 * i) ∣ T →
    ∃ m, redcRounds P n i T = T + m * P.p * 2 ^ (64 * i) ∧ m < 2 ^ (64 * n) ∧
      2 ^ (64 * (i + n)) ∣ redcRounds P n i T := by
  induction n with
  | zero => intro i T hd; exact ⟨0, by simp [redcRounds], by simp, by simpa [redcRounds] using hd⟩
  | succ n ih =>
    intro i T hd
    have hd1 := redc_round_dvd h hd
    set k := (((T >>> (64 * i)) % W64) * P.INV) % W64 with hk
    have hklt : k < 2 ^ 64 := Nat.mod_lt _ (by rw [W64_eq]; positivity)
    obtain ⟨m', hm1, hm2, hm3⟩ := ih (i + 1) _ hd1
    refine ⟨k + m' * 2 ^ 64, ?_, ?_, ?_⟩
    · show redcRounds P n (i + 1) (T + k * P.p * 2 ^ (64 * i)) = _
      rw [hm1]
      have : 2 ^ (64 * (i + 1)) = 2 ^ (64 * i) * 2 ^ 64 := by rw [← pow_add]; ring_nf
      rw [this]; ring
    · have : 2 ^ (64 * (n + 1)) = 2 ^ (64 * n) * 2 ^ 64 := by rw [← pow_add]; ring_nf
      rw [this]
      have : (m' + 1) * 2 ^ 64 ≤ 2 ^ (64 * n) * 2 ^ 64 := Nat.mul_le_mul_right _ hm2
      nlinarith
    · show 2 ^ (64 * (i + (n + 1))) ∣ redcRounds P n (i + 1) (T + k * P.p * 2 ^ (64 * i))
      have : i + (n + 1) = i + 1 + n := by ring
      rw [this]; exact hm3

/-- REDC: for `T < p·W`, `montReduce T` is reduced and `montReduce T · W ≡ T (mod p)` -/
theorem montReduce_spec (h : P.WF) {T : ℕ} (hT : T < P.p * P.W) :
    montReduce P T < P.p ∧ montReduce P T * P.W % P.p = T % P.p := by
  obtain ⟨m, hm1, hm2, hm3⟩ := redcRounds_spec h P.limbs 0 T (by simp)
  simp only [Nat.zero_add, mul_zero, pow_zero, mul_one] at hm1 hm3
  have hWdef : P.W = 2 ^ (64 * P.limbs) := rfl
  rw [← hWdef] at hm2 hm3
  obtain ⟨s, hs⟩ := hm3
  have hWpos := W_pos P
  have hlt : s < 2 * P.p := by
    have h1 : P.W * s < P.W * (2 * P.p) := by
      rw [← hs, hm1]
      have : m * P.p < P.W * P.p := Nat.mul_lt_mul_of_pos_right hm2 h.p_pos
      nlinarith
    exact Nat.lt_of_mul_lt_mul_left h1
  unfold montReduce
  rw [hs, Nat.mul_div_cancel_left _ hWpos, Nat.mod_eq_of_lt (by have := h.p_lt; omega)]
  obtain ⟨r1, r2⟩ := reduce_spec h hlt
  refine ⟨r1, ?_⟩
  rw [r2, Nat.mod_mul_mod, mul_comm s, ← hs, hm1]
  rw [Nat.add_mod, Nat.mul_mod_left, add_zero, Nat.mod_mod]

theorem montReduce_cast (h : P.WF) {T : ℕ} (hT : T < P.p * P.W) :
    (montReduce P T : ZMod P.p) * P.W = T := by
  have := (montReduce_spec h hT).2
  rw [← ZMod.natCast_eq_natCast_iff'] at this
  simpa using this

theorem mul_lt_pW (h : P.WF) {a b : ℕ} (ha : a < P.p) (hb : b < P.p) : a * b < P.p * P.W := by
  have := h.p_lt_W
  calc a * b < P.p * P.p := Nat.mul_lt_mul'' ha hb
    _ ≤ P.p * P.W := Nat.mul_le_mul_left _ (by omega)

/-- Montgomery multiplication -/
theorem mul_spec (h : P.WF) {a b : ℕ} (ha : a < P.p) (hb : b < P.p) :
    mul P a b < P.p ∧ mul P a b * P.W % P.p = a * b % P.p :=
  montReduce_spec h (mul_lt_pW h ha hb)

theorem square_spec (h : P.WF) {a : ℕ} (ha : a < P.p) :
    square P a < P.p ∧ square P a * P.W % P.p = a * a % P.p :=
  montReduce_spec h (mul_lt_pW h ha ha)

theorem square_eq_mul (P : Params) (a : ℕ) : square P a = mul P a a := rfl

theorem mul_cast (h : P.WF) {a b : ℕ} (ha : a < P.p) (hb : b < P.p) :
    (mul P a b : ZMod P.p) * P.W = (a : ZMod P.p) * b := by
  have := montReduce_cast h (mul_lt_pW h ha hb)
  simpa [mul] using this

theorem dec_mul (h : P.WF) {a b : ℕ} (ha : a < P.p) (hb : b < P.p) :
    dec P (mul P a b) = dec P a * dec P b % P.p := by
  apply eq_mod_of_cast_eq (dec_lt h _)
  rw [dec_cast, h.cast_of_mul_W (mul_cast h ha hb)]
  push_cast; rw [dec_cast, dec_cast]; ring

theorem dec_square (h : P.WF) {a : ℕ} (ha : a < P.p) :
    dec P (square P a) = dec P a * dec P a % P.p := dec_mul h ha ha

/-! ### conversions -/

theorem fromRepr_eq_none_iff (P : Params) (x : ℕ) : fromRepr P x = none ↔ P.p ≤ x := by
  unfold fromRepr; split <;> simp <;> omega

theorem fromRepr_isSome_iff (P : Params) (x : ℕ) : (fromRepr P x).isSome ↔ x < P.p := by
  unfold fromRepr; split <;> simp <;> omega

/-- `from_repr` produces the Montgomery encoding `x·W mod p` -/
theorem fromRepr_spec (h : P.WF) {x a : ℕ} (hx : fromRepr P x = some a) :
    x < P.p ∧ a < P.p ∧ a = x * P.W % P.p ∧ dec P a = x := by
  unfold fromRepr at hx
  split at hx
  · next hlt =>
    simp only [Option.some.injEq] at hx
    subst hx
    have hm := mul_spec h hlt h.R2_lt
    have hc := mul_cast h hlt h.R2_lt
    have hc2 : (mul P x P.R2 : ZMod P.p) = (x : ZMod P.p) * P.W := by
      rw [h.cast_of_mul_W hc, h.R2_cast]
      calc (x : ZMod P.p) * (P.W * P.W) * Winv P = x * P.W * (P.W * Winv P) := by ring
        _ = x * P.W := by rw [h.Wz, mul_one]
    have he : mul P x P.R2 = x * P.W % P.p := by
      apply eq_mod_of_cast_eq hm.1; rw [hc2]; push_cast; rfl
    refine ⟨hlt, hm.1, he, ?_⟩
    rw [he]; have := dec_enc h x; unfold enc at this; rw [this, Nat.mod_eq_of_lt hlt]
  · simp at hx

theorem fromRepr_of_lt (h : P.WF) {x : ℕ} (hx : x < P.p) : fromRepr P x = some (x * P.W % P.p) := by
  cases hf : fromRepr P x with
  | none => rw [fromRepr_eq_none_iff] at hf; omega
  | some a => rw [(fromRepr_spec h hf).2.2.1]

/-- `into_repr` decodes -/
theorem intoRepr_spec (h : P.WF) {a : ℕ} (ha : a < P.p) :
    intoRepr P a < P.p ∧ intoRepr P a * P.W % P.p = a ∧ intoRepr P a = dec P a := by
  have hT : a < P.p * P.W := by
    calc a < P.p := ha
      _ ≤ P.p * P.W := Nat.le_mul_of_pos_right _ (W_pos P)
  have hm := montReduce_spec h hT
  have hc := montReduce_cast h hT
  refine ⟨hm.1, by have := hm.2; rwa [Nat.mod_eq_of_lt ha] at this, ?_⟩
  apply eq_of_cast_eq hm.1 (dec_lt h _)
  rw [dec_cast]; exact h.cast_of_mul_W hc

theorem intoRepr_fromRepr (h : P.WF) {x a : ℕ} (hx : fromRepr P x = some a) :
    intoRepr P a = x := by
  obtain ⟨_, h2, _, h4⟩ := fromRepr_spec h hx
  rw [(intoRepr_spec h h2).2.2, h4]

theorem fromRepr_intoRepr (h : P.WF) {a : ℕ} (ha : a < P.p) :
    fromRepr P (intoRepr P a) = some a := by
  obtain ⟨h1, h2, _⟩ := intoRepr_spec h ha
  rw [fromRepr_of_lt h h1, h2]

/-- `into_repr` is injective on reduced values (so `Eq`/`Ord` on `into_repr()` are `Eq`/`Ord`
    on decoded integers) -/
theorem intoRepr_inj (h : P.WF) {a b : ℕ} (ha : a < P.p) (hb : b < P.p)
    (hab : intoRepr P a = intoRepr P b) : a = b := by
  rw [(intoRepr_spec h ha).2.2, (intoRepr_spec h hb).2.2] at hab
  exact dec_inj h ha hb hab

/-! ### exponentiation -/

theorem powLoop_spec (h : P.WF) {a : ℕ} (ha : a < P.p) :
    ∀ (bs : List Bool) (res : ℕ) (found : Bool) (e : ℕ),
      res < P.p → (found = false → e = 0) →
      (res : ZMod P.p) = (dec P a : ZMod P.p) ^ e * P.W →
      (powLoop P a bs (res, found)).1 < P.p ∧
        ((powLoop P a bs (res, found)).1 : ZMod P.p)
          = (dec P a : ZMod P.p) ^ (bitsVal e bs) * P.W := by
  intro bs
  induction bs with
  | nil => intro res found e hr _ hc; exact ⟨hr, by simpa [powLoop, bitsVal] using hc⟩
  | cons i bs ih =>
    intro res found e hr hf hc
    -- the squaring step
    have hsq : (if found then square P res else res) < P.p ∧
        (((if found then square P res else res : ℕ)) : ZMod P.p)
          = (dec P a : ZMod P.p) ^ (2 * e) * P.W := by
      cases found with
      | false =>
        have := hf rfl; subst this
        simpa using And.intro hr hc
      | true =>
        simp only [if_true]
        refine ⟨(square_spec h hr).1, ?_⟩
        have hm := mul_cast h hr hr
        rw [square_eq_mul, h.cast_of_mul_W hm, hc]
        calc (dec P a : ZMod P.p) ^ e * P.W * ((dec P a : ZMod P.p) ^ e * P.W) * Winv P
            = (dec P a : ZMod P.p) ^ (2 * e) * P.W * (P.W * Winv P) := by ring
          _ = _ := by rw [h.Wz, mul_one]
    obtain ⟨hs1, hs2⟩ := hsq
    set res1 := (if found then square P res else res) with hres1
    have hmu : (if i then mul P res1 a else res1) < P.p ∧
        (((if i then mul P res1 a else res1 : ℕ)) : ZMod P.p)
          = (dec P a : ZMod P.p) ^ (2 * e + i.toNat) * P.W := by
      cases i with
      | false => simpa using And.intro hs1 hs2
      | true =>
        simp only [if_true, Bool.toNat_true]
        refine ⟨(mul_spec h hs1 ha).1, ?_⟩
        have hm := mul_cast h hs1 ha
        rw [h.cast_of_mul_W hm, hs2, dec_cast]; ring
    obtain ⟨hm1, hm2⟩ := hmu
    have hf' : (if found then found else i) = false → 2 * e + i.toNat = 0 := by
      cases found with
      | false => intro hi; simp only [Bool.false_eq_true, if_false] at hi; subst hi; simp [hf rfl]
      | true => intro hi; simp at hi
    have := ih _ _ _ hm1 hf' hm2
    simpa [powLoop, bitsVal, List.foldl_cons] using this

/-- `pow` by an exponent given as ANY list of 64-bit limbs -/
theorem pow_spec (h : P.WF) {a : ℕ} (ha : a < P.p) (ls : List ℕ) (hok : ∀ l ∈ ls, l < 2 ^ 64) :
    pow P a ls < P.p ∧ dec P (pow P a ls) = (dec P a) ^ (limbsToNat ls) % P.p := by
  have h0 : (P.R : ZMod P.p) = (dec P a : ZMod P.p) ^ 0 * P.W := by rw [h.R_cast]; ring
  obtain ⟨h1, h2⟩ := powLoop_spec h ha (bitsMSB ls) P.R false 0 h.R_lt (fun _ => rfl) h0
  rw [bitsVal_bitsMSB_ok ls hok] at h2
  refine ⟨h1, ?_⟩
  apply eq_mod_of_cast_eq (dec_lt h _)
  rw [dec_cast]; unfold pow; rw [h2]; push_cast
  rw [mul_assoc, h.Wz, mul_one]

end generic

end PP.Mont
