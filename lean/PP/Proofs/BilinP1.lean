/-
Bilinearity of the pairing in its first argument, the algebra: RECIPROCITY OF TWO LINES on
`y² = x³ + b` (any field), elementary (Vieta), no divisors.

A non-vertical line `l : Y = λ X + ν` through `A`, `B` (`A = B`: tangent) meets the curve in `A`, `B` and
`-(A + B)`; the abscissae are the roots of `c_l(X) = X³ + b - (λX + ν)² = (X - x_A)(X - x_B)(X - x₃)`,
`x₃ = λ² - x_A - x_B`.  `LineZeros b λ A B` records `B ∈ l` and the two non-trivial Vieta relations.
For two such lines `l`, `m` (zeros `A, B, -C` resp. `A', B', -C'`):

    l(A') · l(B') · l(-C') = - m(A) · m(B) · m(-C)                    (`line_reciprocity`)

(both sides are `∏ (a xᵢ + δ)` over the roots of `c_m` resp. `c_l`, `a = μ - λ`, `δ = ν' - ν`, and the
two products agree by Vieta).  This is Weil reciprocity for the two functions `l`, `m`, with the
contributions of the point at infinity made explicit (the sign).
-/
import PP.Proofs.NegPair

namespace PP.BilinP

open Ate NegPair

section generic
variable {K : Type} [Field K]

/-- the line of slope `l` through `A` passes through `B`, and its three intersections with
    `y² = x³ + b` have abscissae `x_A`, `x_B`, `l² - x_A - x_B` (Vieta) -/
structure LineZeros (b l : K) (A B : K × K) : Prop where
  onB : B.2 = A.2 + l * (B.1 - A.1)
  e2 : A.1 * B.1 + A.1 * (l ^ 2 - A.1 - B.1) + B.1 * (l ^ 2 - A.1 - B.1) =
    -2 * l * (A.2 - l * A.1)
  e3 : A.1 * B.1 * (l ^ 2 - A.1 - B.1) = (A.2 - l * A.1) ^ 2 - b

/-- the tangent at a point with `y ≠ 0` -/
theorem lineZeros_tangent {b : K} {A : K × K} (h2 : (2 : K) ≠ 0) (hA : A.2 ^ 2 = A.1 ^ 3 + b)
    (hy : A.2 ≠ 0) : LineZeros b (tangentSlope A) A A := by
  have hl : tangentSlope A * (2 * A.2) = 3 * A.1 ^ 2 := by
    simp only [tangentSlope]; field_simp
  generalize tangentSlope A = l at hl
  have e2 : A.1 * A.1 + A.1 * (l ^ 2 - A.1 - A.1) + A.1 * (l ^ 2 - A.1 - A.1) =
      -2 * l * (A.2 - l * A.1) := by linear_combination hl
  exact ⟨by ring, e2, by linear_combination -hA + A.1 * e2⟩

/-- the chord through two points with different abscissae -/
theorem lineZeros_chord {b : K} {A B : K × K} (hA : A.2 ^ 2 = A.1 ^ 3 + b)
    (hB : B.2 ^ 2 = B.1 ^ 3 + b) (hx : A.1 ≠ B.1) : LineZeros b (chordSlope A B) A B := by
  have hd : B.1 - A.1 ≠ 0 := sub_ne_zero.mpr (Ne.symm hx)
  have hl : chordSlope A B * (B.1 - A.1) = B.2 - A.2 := by
    simp only [chordSlope]; field_simp
  generalize chordSlope A B = l at hl
  have e2 : A.1 * B.1 + A.1 * (l ^ 2 - A.1 - B.1) + B.1 * (l ^ 2 - A.1 - B.1) =
      -2 * l * (A.2 - l * A.1) := by
    apply mul_left_cancel₀ hd
    linear_combination -hA + hB + (A.2 + B.2 + l * (B.1 - A.1)) * hl
  exact ⟨by linear_combination -hl, e2, by linear_combination -hA + A.1 * e2⟩

/-- `A + B` (the reflected third point) is on the curve -/
theorem LineZeros.sum_onCurve {b l : K} {A B : K × K} (h : LineZeros b l A B) :
    (sumOfSlope l A B).2 ^ 2 = (sumOfSlope l A B).1 ^ 3 + b := by
  simp only [sumOfSlope]
  linear_combination (l ^ 2 - A.1 - B.1) * h.e2 - h.e3

/-- the value of the line `(l, A)` at a point of the line `(m, A')` with abscissa `x` -/
theorem lineAt_on_line (l m : K) (A A' : K × K) (x : K) :
    lineAt l A (x, A'.2 + m * (x - A'.1)) =
      (m - l) * x + ((A'.2 - m * A'.1) - (A.2 - l * A.1)) := by
  simp only [lineAt]; ring

/-- **reciprocity of two lines**: `l(A') l(B') l(-C') = - m(A) m(B) m(-C)` -/
theorem line_reciprocity {b l m : K} {A B A' B' : K × K} (h : LineZeros b l A B)
    (h' : LineZeros b m A' B') :
    lineAt l A A' * lineAt l A B' * lineAt l A (ngp (sumOfSlope m A' B')) =
      -(lineAt m A' A * lineAt m A' B * lineAt m A' (ngp (sumOfSlope l A B))) := by
  have hB := h.onB
  have hB' := h'.onB
  obtain ⟨a1, a2⟩ := A
  obtain ⟨b1, b2⟩ := B
  obtain ⟨a1', a2'⟩ := A'
  obtain ⟨b1', b2'⟩ := B'
  simp only at hB hB'
  subst hB hB'
  have e2 := h.e2
  have e3 := h.e3
  have e2' := h'.e2
  have e3' := h'.e3
  simp only at e2 e3 e2' e3'
  simp only [lineAt, sumOfSlope, ngp]
  linear_combination (m - l) ^ 3 * (e3' - e3)
    + (m - l) ^ 2 * ((a2' - m * a1') - (a2 - l * a1)) * (e2' - e2)

end generic

end PP.BilinP
