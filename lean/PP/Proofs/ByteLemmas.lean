/-
Byte-level lemmas for the encodings (C04, C05, C19): big-endian strings (`beBytes`, `beToNat`) are
mutually inverse on fixed-length strings, coincide with the spec's `I2OSP`/`OS2IP`; UInt8 flag-bit
facts (by exhaustion over the 256 byte values, `decide +kernel`); `maskFirst`/`orFirst`; `Fq`/`Fr`
(de)serialisation is a bijection between reduced elements and canonical 48/32-byte strings.
-/
import Mathlib.Tactic.Ring
import Mathlib.Tactic.Linarith
import PP.Spec.ZCash

namespace PP

/-! ## bytes -/

theorem UInt8.forall_iff (P : UInt8 → Prop) : (∀ b, P b) ↔ ∀ n, n < 256 → P (UInt8.ofNat n) := by
  constructor
  · intro h n _; exact h _
  · intro h b
    have := h b.toNat (by have := b.toNat_lt; omega)
    rwa [UInt8.ofNat_toNat] at this

/-- proof by exhaustion over the 256 byte values -/
theorem UInt8.forall_of (P : UInt8 → Prop) [DecidablePred P]
    (h : (List.range 256).all (fun n => decide (P (UInt8.ofNat n))) = true) : ∀ b, P b := by
  rw [UInt8.forall_iff]
  intro n hn
  rw [List.all_eq_true] at h
  have := h n (List.mem_range.mpr hn)
  simpa using this


theorem beToNat_foldl (bs : Bytes) (acc : Nat) :
    bs.foldl (fun acc b => acc * 256 + b.toNat) acc = acc * 256 ^ bs.length + beToNat bs := by
  induction bs generalizing acc with
  | nil => simp [beToNat]
  | cons b bs ih =>
    simp only [List.foldl_cons, List.length_cons, beToNat]
    rw [ih, ih (0 * 256 + b.toNat)]
    ring

theorem beToNat_nil : beToNat [] = 0 := rfl

theorem beToNat_cons (b : UInt8) (bs : Bytes) :
    beToNat (b :: bs) = b.toNat * 256 ^ bs.length + beToNat bs := by
  show List.foldl _ _ _ = _
  rw [List.foldl_cons, beToNat_foldl]; simp

theorem beToNat_lt (bs : Bytes) : beToNat bs < 256 ^ bs.length := by
  induction bs with
  | nil => simp [beToNat]
  | cons b bs ih =>
    rw [beToNat_cons, List.length_cons, pow_succ]
    have := b.toNat_lt
    nlinarith

theorem beToNat_append (as bs : Bytes) :
    beToNat (as ++ bs) = beToNat as * 256 ^ bs.length + beToNat bs := by
  show List.foldl _ _ _ = _
  rw [List.foldl_append, beToNat_foldl]; rfl

@[simp] theorem beBytes_length (len n : Nat) : (beBytes len n).length = len := by
  induction len with
  | zero => rfl
  | succ k ih => simp [beBytes, ih]

theorem beToNat_beBytes (len n : Nat) : beToNat (beBytes len n) = n % 256 ^ len := by
  induction len with
  | zero => simp [beBytes, beToNat, Nat.mod_one]
  | succ k ih =>
    rw [beBytes, beToNat_cons, ih, beBytes_length, UInt8.toNat_ofNat', Nat.shiftRight_eq_div_pow]
    rw [show (256:Nat) ^ (k + 1) = 256 ^ k * 256 from pow_succ _ _, Nat.mod_mul (a := 256 ^ k) (b := 256)]
    have : (2:Nat) ^ (8 * k) = 256 ^ k := by rw [pow_mul]; norm_num
    rw [this]
    have h2 : n / 256 ^ k % 256 % 2 ^ 8 = n / 256 ^ k % 256 := Nat.mod_eq_of_lt (by omega)
    rw [h2]; ring

theorem beBytes_add_mul (len a m : Nat) : beBytes len (a * 256 ^ len + m) = beBytes len m := by
  induction len generalizing a with
  | zero => rfl
  | succ k ih =>
    rw [beBytes, beBytes]
    have hp : (2:Nat) ^ (8 * k) = 256 ^ k := by rw [pow_mul]; norm_num
    congr 1
    · congr 1
      rw [Nat.shiftRight_eq_div_pow, Nat.shiftRight_eq_div_pow, hp]
      have : a * 256 ^ (k + 1) + m = m + 256 ^ k * (a * 256) := by ring
      rw [this, Nat.add_mul_div_left _ _ (by positivity), Nat.add_mul_mod_self_right]
    · have : a * 256 ^ (k + 1) + m = (a * 256) * 256 ^ k + m := by ring
      rw [this, ih]

theorem beBytes_beToNat (bs : Bytes) : beBytes bs.length (beToNat bs) = bs := by
  induction bs with
  | nil => rfl
  | cons b bs ih =>
    rw [List.length_cons, beBytes, beToNat_cons, beBytes_add_mul, ih]
    congr 1
    have hp : (2:Nat) ^ (8 * bs.length) = 256 ^ bs.length := by rw [pow_mul]; norm_num
    rw [Nat.shiftRight_eq_div_pow, hp]
    have h1 : (b.toNat * 256 ^ bs.length + beToNat bs) / 256 ^ bs.length = b.toNat := by
      rw [Nat.add_comm, Nat.add_mul_div_right _ _ (by positivity), Nat.div_eq_of_lt (beToNat_lt bs)]; simp
    rw [h1, Nat.mod_eq_of_lt b.toNat_lt, UInt8.ofNat_toNat]


/-! ## the spec's `I2OSP`/`OS2IP` are the model's `beBytes`/`beToNat` -/

theorem beBytes_succ_snoc (len n : Nat) :
    beBytes (len + 1) n = beBytes len (n / 256) ++ [UInt8.ofNat (n % 256)] := by
  induction len with
  | zero => simp [beBytes]
  | succ k ih =>
    rw [beBytes, ih, show beBytes (k + 1) (n / 256) = UInt8.ofNat (((n / 256) >>> (8 * k)) % 256) :: beBytes k (n / 256) from rfl]
    simp only [List.cons_append]
    congr 2
    rw [Nat.shiftRight_eq_div_pow, Nat.shiftRight_eq_div_pow, Nat.div_div_eq_div_mul]
    congr 2
    rw [show 8 * (k + 1) = 8 + 8 * k by ring, pow_add]; norm_num

theorem I2OSP_eq_beBytes (x len : Nat) : ZCash.I2OSP x len = beBytes len x := by
  induction len generalizing x with
  | zero => rfl
  | succ k ih => rw [ZCash.I2OSP, ih, beBytes_succ_snoc]

theorem OS2IP_eq_beToNat (bs : Bytes) : ZCash.OS2IP bs = beToNat bs := by
  induction bs with
  | nil => rfl
  | cons b bs ih => rw [ZCash.OS2IP, ih, beToNat_cons]

theorem zcash_q_eq : ZCash.q = Gen.q := by decide +kernel


/-! ## flag bits -/

theorem byte_top_clear_of_lt (m : Nat) (h : m < 32) : UInt8.ofNat m &&& 0xe0 = 0 := by
  have : ∀ m, m < 32 → UInt8.ofNat m &&& 0xe0 = 0 := by decide +kernel
  exact this m h

/-- the top byte of a 48-byte big-endian integer below `2^381` has its three top bits clear -/
theorem beBytes48_top (n : Nat) (h : n < 2 ^ 381) : (beBytes 48 n).headD 0 &&& 0xe0 = 0 := by
  show UInt8.ofNat ((n >>> (8 * 47)) % 256) &&& 0xe0 = 0
  apply byte_top_clear_of_lt
  rw [Nat.shiftRight_eq_div_pow]
  have : n / 2 ^ (8 * 47) < 32 := by
    rw [Nat.div_lt_iff_lt_mul (by positivity)]
    calc n < 2 ^ 381 := h
      _ = 32 * 2 ^ (8 * 47) := by decide +kernel
  omega

theorem q_lt_2_381 : Gen.q < 2 ^ 381 := by decide +kernel
theorem q_lt_256_48 : Gen.q < 256 ^ 48 := by decide +kernel
theorem r_lt_2_255 : Gen.r < 2 ^ 255 := by decide +kernel
theorem r_lt_256_32 : Gen.r < 256 ^ 32 := by decide +kernel

/-- `bit 7` is the `0x80` mask etc. -/
theorem bit7_eq (b : UInt8) : ZCash.bit b 7 = decide (b &&& 0x80 ≠ 0) :=
  UInt8.forall_of (fun b => ZCash.bit b 7 = decide (b &&& 0x80 ≠ 0)) (by decide +kernel) b
theorem bit6_eq (b : UInt8) : ZCash.bit b 6 = decide (b &&& 0x40 ≠ 0) :=
  UInt8.forall_of (fun b => ZCash.bit b 6 = decide (b &&& 0x40 ≠ 0)) (by decide +kernel) b
theorem bit5_eq (b : UInt8) : ZCash.bit b 5 = decide (b &&& 0x20 ≠ 0) :=
  UInt8.forall_of (fun b => ZCash.bit b 5 = decide (b &&& 0x20 ≠ 0)) (by decide +kernel) b

/-- a byte with clear top bits: its flags, and masking is the identity -/
theorem byte_clear_facts (h : UInt8) (hh : h &&& 0xe0 = 0) :
    h &&& 0x80 = 0 ∧ h &&& 0x40 = 0 ∧ h &&& 0x20 = 0 ∧ h &&& 0x1f = h :=
  UInt8.forall_of (fun h => h &&& 0xe0 = 0 → h &&& 0x80 = 0 ∧ h &&& 0x40 = 0 ∧ h &&& 0x20 = 0 ∧ h &&& 0x1f = h)
    (by decide +kernel) h hh

theorem byte_or80_facts (h : UInt8) (hh : h &&& 0xe0 = 0) :
    (h ||| 0x80) &&& 0x80 ≠ 0 ∧ (h ||| 0x80) &&& 0x40 = 0 ∧ (h ||| 0x80) &&& 0x20 = 0 ∧
      (h ||| 0x80) &&& 0x1f = h :=
  UInt8.forall_of (fun h => h &&& 0xe0 = 0 → (h ||| 0x80) &&& 0x80 ≠ 0 ∧ (h ||| 0x80) &&& 0x40 = 0 ∧
    (h ||| 0x80) &&& 0x20 = 0 ∧ (h ||| 0x80) &&& 0x1f = h) (by decide +kernel) h hh

theorem byte_ora0_facts (h : UInt8) (hh : h &&& 0xe0 = 0) :
    ((h ||| 0x20) ||| 0x80) &&& 0x80 ≠ 0 ∧ ((h ||| 0x20) ||| 0x80) &&& 0x40 = 0 ∧
      ((h ||| 0x20) ||| 0x80) &&& 0x20 ≠ 0 ∧ ((h ||| 0x20) ||| 0x80) &&& 0x1f = h :=
  UInt8.forall_of (fun h => h &&& 0xe0 = 0 → ((h ||| 0x20) ||| 0x80) &&& 0x80 ≠ 0 ∧
    ((h ||| 0x20) ||| 0x80) &&& 0x40 = 0 ∧ ((h ||| 0x20) ||| 0x80) &&& 0x20 ≠ 0 ∧
    ((h ||| 0x20) ||| 0x80) &&& 0x1f = h) (by decide +kernel) h hh

/-- masking never leaves a flag bit -/
theorem byte_mask1f_top (b : UInt8) : (b &&& 0x1f) &&& 0xe0 = 0 :=
  UInt8.forall_of (fun b => (b &&& 0x1f) &&& 0xe0 = 0) (by decide +kernel) b

/-- no flag set: masking is the identity -/
theorem byte_mask1f_of_clear (b : UInt8) (h7 : b &&& 0x80 = 0) (h6 : b &&& 0x40 = 0) (h5 : b &&& 0x20 = 0) :
    b &&& 0x1f = b :=
  UInt8.forall_of (fun b => b &&& 0x80 = 0 → b &&& 0x40 = 0 → b &&& 0x20 = 0 → b &&& 0x1f = b)
    (by decide +kernel) b h7 h6 h5

/-- a byte is its low five bits or-ed with its flags (compressed finite case) -/
theorem byte_rebuild_c (b : UInt8) (h7 : b &&& 0x80 ≠ 0) (h6 : b &&& 0x40 = 0) :
    (if b &&& 0x20 ≠ 0 then ((b &&& 0x1f) ||| 0x20) ||| 0x80 else (b &&& 0x1f) ||| 0x80) = b :=
  UInt8.forall_of (fun b => b &&& 0x80 ≠ 0 → b &&& 0x40 = 0 →
    (if b &&& 0x20 ≠ 0 then ((b &&& 0x1f) ||| 0x20) ||| 0x80 else (b &&& 0x1f) ||| 0x80) = b)
    (by decide +kernel) b h7 h6

/-- identity flag byte, uncompressed -/
theorem byte_identity_u (b : UInt8) (h7 : b &&& 0x80 = 0) (h6 : b &&& 0x40 ≠ 0) :
    b &&& 0x3f = 0 ↔ b = 0x40 :=
  UInt8.forall_of (fun b => b &&& 0x80 = 0 → b &&& 0x40 ≠ 0 → (b &&& 0x3f = 0 ↔ b = 0x40))
    (by decide +kernel) b h7 h6

/-- identity flag byte, compressed -/
theorem byte_identity_c (b : UInt8) (h7 : b &&& 0x80 ≠ 0) (h6 : b &&& 0x40 ≠ 0) :
    b &&& 0x3f = 0 ↔ b = 0xc0 :=
  UInt8.forall_of (fun b => b &&& 0x80 ≠ 0 → b &&& 0x40 ≠ 0 → (b &&& 0x3f = 0 ↔ b = 0xc0))
    (by decide +kernel) b h7 h6

/-! ## `maskFirst`, `orFirst` -/

@[simp] theorem maskFirst_cons (b : UInt8) (r : Bytes) (m : UInt8) : maskFirst (b :: r) m = (b &&& m) :: r := rfl
@[simp] theorem orFirst_cons (b : UInt8) (r : Bytes) (m : UInt8) : orFirst (b :: r) m = (b ||| m) :: r := rfl
@[simp] theorem maskFirst_length (bs : Bytes) (m : UInt8) : (maskFirst bs m).length = bs.length := by
  cases bs <;> rfl
@[simp] theorem orFirst_length (bs : Bytes) (m : UInt8) : (orFirst bs m).length = bs.length := by
  cases bs <;> rfl

/-- effect of masking on the integer value: the masked top byte replaces the top byte -/
theorem beToNat_maskFirst (b : UInt8) (r : Bytes) (m : UInt8) :
    beToNat (maskFirst (b :: r) m) = (b &&& m).toNat * 256 ^ r.length + beToNat r := by
  rw [maskFirst_cons, beToNat_cons]

/-- clearing the three flag bits reduces the value modulo `2^(8·len − 3)` -/
theorem beToNat_maskFirst_1f (b : UInt8) (r : Bytes) :
    beToNat (maskFirst (b :: r) 0x1f) = beToNat (b :: r) % (32 * 256 ^ r.length) := by
  rw [beToNat_maskFirst, beToNat_cons]
  have hb : (b &&& 0x1f).toNat = b.toNat % 32 :=
    UInt8.forall_of (fun b => (b &&& 0x1f).toNat = b.toNat % 32) (by decide +kernel) b
  rw [hb, Nat.mul_comm 32, Nat.mod_mul (a := 256 ^ r.length) (b := 32)]
  have h1 : (b.toNat * 256 ^ r.length + beToNat r) % 256 ^ r.length = beToNat r := by
    rw [Nat.add_comm, Nat.add_mul_mod_self_right, Nat.mod_eq_of_lt (beToNat_lt r)]
  have h2 : (b.toNat * 256 ^ r.length + beToNat r) / 256 ^ r.length = b.toNat := by
    rw [Nat.add_comm, Nat.add_mul_div_right _ _ (by positivity), Nat.div_eq_of_lt (beToNat_lt r)]; simp
  rw [h1, h2]; ring

/-- or-ing flags into a top byte whose flag bits are clear adds `flag · 256^(len−1)` -/
theorem beToNat_orFirst (b : UInt8) (r : Bytes) (m : UInt8) :
    beToNat (orFirst (b :: r) m) = (b ||| m).toNat * 256 ^ r.length + beToNat r := by
  rw [orFirst_cons, beToNat_cons]

/-- or-ing the flag byte into a top byte whose three flag bits are clear ADDS `flags · 256^(len−1)` to
the big-endian value: the flags occupy the top three bits and nothing else changes -/
theorem byte_or_flags_toNat (f : ZCash.Flags) : ∀ b : UInt8, b &&& 0xe0 = 0 →
    (b ||| f.toByte).toNat = b.toNat + f.toByte.toNat := by
  obtain ⟨c, i, s⟩ := f
  cases c <;> cases i <;> cases s <;> exact UInt8.forall_of _ (by decide +kernel)

theorem beToNat_setFlags (f : ZCash.Flags) (b : UInt8) (r : Bytes) (hb : b &&& 0xe0 = 0) :
    beToNat (ZCash.setFlags f (b :: r)) = beToNat (b :: r) + f.toByte.toNat * 256 ^ r.length := by
  show beToNat ((b ||| f.toByte) :: r) = _
  rw [beToNat_cons, beToNat_cons, byte_or_flags_toNat f b hb]; ring

/-- … and clearing them recovers the value -/
theorem clearFlags_setFlags (f : ZCash.Flags) (b : UInt8) (r : Bytes) (hb : b &&& 0xe0 = 0) :
    ZCash.clearFlags (ZCash.setFlags f (b :: r)) = b :: r := by
  show ((b ||| f.toByte) &&& 0x1f) :: r = _
  have : ∀ (f : ZCash.Flags) (b : UInt8), b &&& 0xe0 = 0 → (b ||| f.toByte) &&& 0x1f = b := by
    intro f
    obtain ⟨c, i, s⟩ := f
    cases c <;> cases i <;> cases s <;> exact UInt8.forall_of _ (by decide +kernel)
  rw [this f b hb]

theorem all_zero_iff (r : Bytes) : r.all (· == 0) = true ↔ r = List.replicate r.length 0 := by
  induction r with
  | nil => simp
  | cons b r ih =>
    simp only [List.all_cons, Bool.and_eq_true, beq_iff_eq, List.length_cons, List.replicate_succ,
      List.cons.injEq, ih]

/-! ## `Fq`, `Fr` as 48 / 32 big-endian bytes -/

@[simp] theorem Fq.toBytes_length (a : Fq) : (Fq.toBytes a).length = 48 := beBytes_length _ _
@[simp] theorem Fr.toBytes_length (a : Fr) : (Fr.toBytes a).length = 32 := beBytes_length _ _

theorem Fq.beToNat_toBytes (a : Fq) : beToNat (Fq.toBytes a) = a.v := by
  rw [Fq.toBytes, beToNat_beBytes, Nat.mod_eq_of_lt (lt_trans a.h q_lt_256_48)]

theorem Fr.beToNat_toBytes (a : Fr) : beToNat (Fr.toBytes a) = a.v := by
  rw [Fr.toBytes, beToNat_beBytes, Nat.mod_eq_of_lt (lt_trans a.h r_lt_256_32)]

theorem Fq.fromBytes_eq_some_iff (bs : Bytes) (a : Fq) : Fq.fromBytes bs = some a ↔ beToNat bs = a.v := by
  unfold Fq.fromBytes
  simp only
  split
  · rw [Option.some.injEq]
    constructor
    · intro h; rw [← h]
    · intro h; cases a; simp_all
  · next h =>
    constructor
    · intro h'; cases h'
    · intro h'; exact absurd (h' ▸ a.h) h

theorem Fq.fromBytes_eq_none_iff (bs : Bytes) : Fq.fromBytes bs = none ↔ ¬ beToNat bs < Gen.q := by
  unfold Fq.fromBytes
  simp only
  split <;> simp_all

theorem Fq.fromBytes_of_lt (bs : Bytes) (h : beToNat bs < Gen.q) : Fq.fromBytes bs = some ⟨beToNat bs, h⟩ := by
  unfold Fq.fromBytes; simp [h]

theorem Fr.fromBytes_eq_some_iff (bs : Bytes) (a : Fr) : Fr.fromBytes bs = some a ↔ beToNat bs = a.v := by
  unfold Fr.fromBytes
  simp only
  split
  · rw [Option.some.injEq]
    constructor
    · intro h; rw [← h]
    · intro h; cases a; simp_all
  · next h =>
    constructor
    · intro h'; cases h'
    · intro h'; exact absurd (h' ▸ a.h) h

theorem Fr.fromBytes_eq_none_iff (bs : Bytes) : Fr.fromBytes bs = none ↔ ¬ beToNat bs < Gen.r := by
  unfold Fr.fromBytes
  simp only
  split <;> simp_all

theorem Fq.fromBytes_toBytes (a : Fq) : Fq.fromBytes (Fq.toBytes a) = some a :=
  (Fq.fromBytes_eq_some_iff _ _).mpr (Fq.beToNat_toBytes a)

theorem Fq.toBytes_of_fromBytes (bs : Bytes) (a : Fq) (h : Fq.fromBytes bs = some a) (hl : bs.length = 48) :
    Fq.toBytes a = bs := by
  rw [Fq.toBytes, ← (Fq.fromBytes_eq_some_iff _ _).mp h, ← hl, beBytes_beToNat]

theorem Fr.fromBytes_toBytes (a : Fr) : Fr.fromBytes (Fr.toBytes a) = some a :=
  (Fr.fromBytes_eq_some_iff _ _).mpr (Fr.beToNat_toBytes a)

theorem Fr.toBytes_of_fromBytes (bs : Bytes) (a : Fr) (h : Fr.fromBytes bs = some a) (hl : bs.length = 32) :
    Fr.toBytes a = bs := by
  rw [Fr.toBytes, ← (Fr.fromBytes_eq_some_iff _ _).mp h, ← hl, beBytes_beToNat]

/-- the top byte of an encoded `Fq` has its three flag bits clear (`q < 2^381`) -/
theorem Fq.toBytes_top (a : Fq) : (Fq.toBytes a).headD 0 &&& 0xe0 = 0 :=
  beBytes48_top _ (lt_trans a.h q_lt_2_381)

/-- the top byte of an encoded `Fr` has its top bit clear (`r < 2^255`) -/
theorem Fr.toBytes_top (a : Fr) : (Fr.toBytes a).headD 0 &&& 0x80 = 0 := by
  show UInt8.ofNat ((a.v >>> (8 * 31)) % 256) &&& 0x80 = 0
  have hm : ∀ m, m < 128 → UInt8.ofNat m &&& 0x80 = 0 := by decide +kernel
  apply hm
  rw [Nat.shiftRight_eq_div_pow]
  have : a.v / 2 ^ (8 * 31) < 128 := by
    rw [Nat.div_lt_iff_lt_mul (by positivity)]
    calc a.v < 2 ^ 255 := lt_trans a.h r_lt_2_255
      _ = 128 * 2 ^ (8 * 31) := by decide +kernel
  omega

end PP
