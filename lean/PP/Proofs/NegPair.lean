/-
Negation and the textbook reduced ate pairing (`PP/Spec/Ate.lean`): for ALL finite inputs, with no
bilinearity assumption,

* `reducedAte (-P) Q · reducedAte P Q = 1`   (`reducedAte_neg_left`, `y_P ≠ 0`),
* `reducedAte P (-Q) = reducedAte (-P) Q`    (`reducedAte_neg_right`, no hypothesis).

Idea.  `σ = Fq12.conjugate` is the automorphism of `Fq12 = Fq6[w]` fixing `Fq6` with `σ w = -w`.  The
untwisted point `ψ(T) = (x_T / w², y_T / w³)` has `σ`-even abscissa and `σ`-odd ordinate, the slope
`ι l / w` of a tangent or chord through untwisted points is odd, and `P ∈ E(Fq)` is fixed.  Hence for the
line `l_T(P) = (y_P - y_ψT) - λ (x_P - x_ψT)`:

    σ (l_T(P)) = (y_P + y_ψT) + λ (x_P - x_ψT) = - l_T(-P)          (`conj_lineAt`)
    l_{-T}(P)  = (y_P + y_ψT) + λ (x_P - x_ψT) = - l_T(-P)          (`lineAt_ngp_untwist`)

and the accumulator of `-Q` is the negative of the accumulator of `Q`.  By induction over the loop
(`left_loop`, `right_loop`) the three Miller values `f = f_Q(P)`, `g = f_Q(-P)`, `h = f_{-Q}(P)` satisfy
`g = ± σ f` and `h = ± g`.  The sign `-1` lies in `Fq` and is killed by the final exponent `E`
(`neg_one_pow_fe`), and `f · σ f` is the relative norm, a non-zero element of `Fq6`, killed as well:
`reducedAte(-P,Q) · reducedAte(P,Q) = (σ g)^E (σ f)^E = (f · σ f)^E = 1`.
-/
import PP.Proofs.Lines4

namespace PP
namespace NegPair

open Ate Miller Lines

/-- `(x, y) ↦ (x, -y)`: the negative of a finite affine point -/
def ngp {F : Type} [Neg F] (A : F × F) : F × F := (A.1, -A.2)

@[simp] theorem ngp_fst {F : Type} [Neg F] (A : F × F) : (ngp A).1 = A.1 := rfl
@[simp] theorem ngp_snd {F : Type} [Neg F] (A : F × F) : (ngp A).2 = -A.2 := rfl

/-! ## the affine formulas and negation, in any field -/

section generic
variable {K : Type} [Field K]

theorem tangentSlope_ngp (A : K × K) : tangentSlope (ngp A) = -tangentSlope A := by
  simp only [tangentSlope, ngp, mul_neg, div_neg]

theorem chordSlope_ngp (A B : K × K) : chordSlope (ngp A) (ngp B) = -chordSlope A B := by
  simp only [chordSlope, ngp]
  rw [← neg_div]; congr 1; ring

theorem sumOfSlope_ngp (l : K) (A B : K × K) :
    sumOfSlope (-l) (ngp A) (ngp B) = ngp (sumOfSlope l A B) := by
  simp only [sumOfSlope, ngp, Prod.mk.injEq]
  constructor <;> ring

/-- `2(-A) = -(2A)` -/
theorem affDouble_ngp (A : K × K) : affDouble (ngp A) = ngp (affDouble A) := by
  simp only [affDouble, tangentSlope_ngp, sumOfSlope_ngp]

/-- `(-A) + (-B) = -(A + B)` -/
theorem affAdd_ngp (A B : K × K) : affAdd (ngp A) (ngp B) = ngp (affAdd A B) := by
  simp only [affAdd, chordSlope_ngp, sumOfSlope_ngp]

end generic

/-! ## conjugation on the ingredients of a line -/

theorem conj_eq (x : Fq12) : Fq12.conjugate x = Fq12.conjugateEquiv x := rfl

theorem conjE_ι (a : Fq2) : Fq12.conjugateEquiv (ι a) = ι a := Fq12.conjugate_ofFq6 _
theorem conjE_κ (a : Fq) : Fq12.conjugateEquiv (κ a) = κ a := Fq12.conjugate_ofFq6 _
theorem conjE_w : Fq12.conjugateEquiv Fq12.w = -Fq12.w := Fq12.conjugate_w

theorem conj_neg (x : Fq12) : Fq12.conjugate (-x) = -Fq12.conjugate x :=
  map_neg Fq12.conjugateEquiv x

theorem conj_pow (x : Fq12) (n : ℕ) : Fq12.conjugate (x ^ n) = Fq12.conjugate x ^ n :=
  map_pow Fq12.conjugateEquiv x n

theorem conj_ne_zero {x : Fq12} (h : x ≠ 0) : Fq12.conjugate x ≠ 0 := fun h0 =>
  h (by rw [← Fq12.conjugate_conjugate x, h0, Fq12.conjugate_zero])

theorem untwist_ngp (T : Fq2 × Fq2) : untwist (ngp T) = ngp (untwist T) := by
  simp only [untwist, ngp, map_neg, neg_div]

theorem embed_ngp (P : Fq × Fq) : embed (ngp P) = ngp (embed P) := by
  simp only [embed, ngp, map_neg]

/-- **`σ(l_T(P)) = -l_T(-P)`** for a line through `ψ(T)` with slope `ι l / w` -/
theorem conj_lineAt (l : Fq2) (T : Fq2 × Fq2) (P : Fq × Fq) :
    Fq12.conjugate (lineAt (ι l / Fq12.w) (untwist T) (embed P)) =
      -lineAt (ι l / Fq12.w) (untwist T) (embed (ngp P)) := by
  have hw := w_ne_zero
  rw [conj_eq]
  simp only [lineAt, untwist, embed, ngp, map_sub, map_mul, map_div₀, map_pow, map_neg, conjE_ι,
    conjE_κ, conjE_w]
  field_simp
  ring

/-- **`l_{-T}(P) = -l_T(-P)`** (the slope at `-T` is the negative of the slope at `T`) -/
theorem lineAt_ngp_untwist (l : Fq2) (T : Fq2 × Fq2) (P : Fq × Fq) :
    lineAt (ι (-l) / Fq12.w) (untwist (ngp T)) (embed P) =
      -lineAt (ι l / Fq12.w) (untwist T) (embed (ngp P)) := by
  have hw := w_ne_zero
  simp only [lineAt, untwist, embed, ngp, map_neg]
  field_simp
  ring

theorem conj_tangentAt (T : Fq2 × Fq2) (P : Fq × Fq) :
    Fq12.conjugate (tangentAt (untwist T) (embed P)) = -tangentAt (untwist T) (embed (ngp P)) := by
  simp only [tangentAt, tangentSlope_untwist]; exact conj_lineAt _ T P

theorem conj_chordAt (T Q : Fq2 × Fq2) (P : Fq × Fq) :
    Fq12.conjugate (chordAt (untwist T) (untwist Q) (embed P)) =
      -chordAt (untwist T) (untwist Q) (embed (ngp P)) := by
  simp only [chordAt, chordSlope_untwist]; exact conj_lineAt _ T P

theorem tangentAt_ngp (T : Fq2 × Fq2) (P : Fq × Fq) :
    tangentAt (untwist (ngp T)) (embed P) = -tangentAt (untwist T) (embed (ngp P)) := by
  simp only [tangentAt, tangentSlope_untwist, tangentSlope_ngp]; exact lineAt_ngp_untwist _ T P

theorem chordAt_ngp (T Q : Fq2 × Fq2) (P : Fq × Fq) :
    chordAt (untwist (ngp T)) (untwist (ngp Q)) (embed P) =
      -chordAt (untwist T) (untwist Q) (embed (ngp P)) := by
  simp only [chordAt, chordSlope_untwist, chordSlope_ngp]; exact lineAt_ngp_untwist _ T P

/-! ## equality up to sign -/

/-- `a = ± b` -/
def Sgn (a b : Fq12) : Prop := a = b ∨ a = -b

theorem Sgn.refl (a : Fq12) : Sgn a a := Or.inl rfl

theorem Sgn.step {a b : Fq12} (h : Sgn a b) (t : Fq12) : Sgn (a ^ 2 * -t) (b ^ 2 * t) := by
  rcases h with rfl | rfl
  · right; ring
  · right; ring

theorem Sgn.mul_neg {a b : Fq12} (h : Sgn a b) (c : Fq12) : Sgn (a * -c) (b * c) := by
  rcases h with rfl | rfl
  · right; ring
  · left; ring

theorem Sgn.conj {a b : Fq12} (h : Sgn a b) : Sgn (Fq12.conjugate a) (Fq12.conjugate b) := by
  rcases h with rfl | rfl
  · exact Or.inl rfl
  · exact Or.inr (conj_neg _)

/-- `-1 ∈ Fq` is killed by the final exponent (which is even) -/
theorem neg_one_pow_fe : (-1 : Fq12) ^ finalExponent = 1 := by
  have hd : InFq6 (-1 : Fq12) := ⟨-1, neg_ne_zero.mpr one_ne_zero, by rw [map_neg, map_one]⟩
  exact Option.some.inj ((FinalExp.fe_spec hd.ne_zero).symm.trans hd.fe)

theorem Sgn.pow_fe {a b : Fq12} (h : Sgn a b) : a ^ finalExponent = b ^ finalExponent := by
  rcases h with rfl | rfl
  · rfl
  · rw [neg_pow, neg_one_pow_fe, one_mul]

/-- the relative norm `f · σ f` of a non-zero `f` is killed by the final exponent -/
theorem norm_pow_fe {f : Fq12} (hf : f ≠ 0) : (f * Fq12.conjugate f) ^ finalExponent = 1 := by
  have hne : f * Fq12.conjugate f ≠ 0 := mul_ne_zero hf (conj_ne_zero hf)
  have hd : InFq6 (f * Fq12.conjugate f) := by
    refine ⟨_, ?_, Fq12.mul_conjugate f⟩
    intro h0
    apply hne
    rw [Fq12.mul_conjugate, h0, map_zero]
  exact Option.some.inj ((FinalExp.fe_spec hd.ne_zero).symm.trans hd.fe)

/-! ## the loops -/

/-- **`P ↦ -P`**: the textbook loops at `P` and at `-P` have the same accumulator `T`, and the value at
    `-P` is, up to sign, the conjugate of the value at `P` -/
theorem left_loop (P : Fq × Fq) (Q : Fq2 × Fq2) (bs : List Bool) (F G : Fq12) (T : Fq2 × Fq2)
    (h : Sgn (Fq12.conjugate F) G) :
    (bs.foldl (millerStep (ngp P) Q) (G, T)).2 = (bs.foldl (millerStep P Q) (F, T)).2 ∧
      Sgn (Fq12.conjugate (bs.foldl (millerStep P Q) (F, T)).1)
        (bs.foldl (millerStep (ngp P) Q) (G, T)).1 := by
  induction bs generalizing F G T with
  | nil => simp only [List.foldl_nil]; exact ⟨trivial, h⟩
  | cons b bs ih =>
    have h1 : Sgn (Fq12.conjugate (F ^ 2 * tangentAt (untwist T) (embed P)))
        (G ^ 2 * tangentAt (untwist T) (embed (ngp P))) := by
      rw [Fq12.conjugate_mul, conj_pow, conj_tangentAt]; exact h.step _
    cases b with
    | false =>
      simp only [List.foldl_cons, millerStep, Bool.false_eq_true, if_false]
      exact ih _ _ _ h1
    | true =>
      simp only [List.foldl_cons, millerStep, if_true]
      refine ih _ _ _ ?_
      rw [Fq12.conjugate_mul, conj_chordAt]; exact h1.mul_neg _

/-- **`Q ↦ -Q`**: the accumulator of `-Q` is the negative of the accumulator of `Q`, and the value at
    `(P, -Q)` is, up to sign, the value at `(-P, Q)` -/
theorem right_loop (P : Fq × Fq) (Q : Fq2 × Fq2) (bs : List Bool) (H G : Fq12) (T : Fq2 × Fq2)
    (h : Sgn H G) :
    (bs.foldl (millerStep P (ngp Q)) (H, ngp T)).2 =
        ngp (bs.foldl (millerStep (ngp P) Q) (G, T)).2 ∧
      Sgn (bs.foldl (millerStep P (ngp Q)) (H, ngp T)).1
        (bs.foldl (millerStep (ngp P) Q) (G, T)).1 := by
  induction bs generalizing H G T with
  | nil => simp only [List.foldl_nil]; exact ⟨trivial, h⟩
  | cons b bs ih =>
    have h1 : Sgn (H ^ 2 * tangentAt (untwist (ngp T)) (embed P))
        (G ^ 2 * tangentAt (untwist T) (embed (ngp P))) := by
      rw [tangentAt_ngp]; exact h.step _
    cases b with
    | false =>
      simp only [List.foldl_cons, millerStep, Bool.false_eq_true, if_false, affDouble_ngp]
      exact ih _ _ _ h1
    | true =>
      simp only [List.foldl_cons, millerStep, if_true, affDouble_ngp, affAdd_ngp]
      refine ih _ _ _ ?_
      rw [chordAt_ngp]; exact h1.mul_neg _

/-- `f_Q(-P) = ± σ(f_Q(P))` -/
theorem textbookMiller_neg_left (P : Fq × Fq) (Q : Fq2 × Fq2) :
    Sgn (Fq12.conjugate (textbookMiller P Q)) (textbookMiller (ngp P) Q) :=
  (left_loop P Q (bitsBelowTop Gen.BLS_X) 1 1 Q (by rw [Fq12.conjugate_one]; exact Sgn.refl 1)).2

/-- `f_{-Q}(P) = ± f_Q(-P)` -/
theorem textbookMiller_neg_right (P : Fq × Fq) (Q : Fq2 × Fq2) :
    Sgn (textbookMiller P (ngp Q)) (textbookMiller (ngp P) Q) :=
  (right_loop P Q (bitsBelowTop Gen.BLS_X) 1 1 Q (Sgn.refl 1)).2

/-! ## the reduced pairing -/

/-- `reducedAte (-P) Q = f_Q(P) ^ E` (without the conjugation) -/
theorem reducedAte_neg_left_eq (P : Fq × Fq) (Q : Fq2 × Fq2) :
    reducedAte (ngp P) Q = textbookMiller P Q ^ finalExponent := by
  have h := (textbookMiller_neg_left P Q).conj
  rw [Fq12.conjugate_conjugate] at h
  unfold reducedAte
  exact h.pow_fe.symm

/-- **`e(-P, Q) · e(P, Q) = 1`** for the textbook pairing, all `Q`, all `P` with `y_P ≠ 0` -/
theorem reducedAte_neg_left_mul (P : Fq × Fq) (Q : Fq2 × Fq2) (hy : P.2 ≠ 0) :
    reducedAte (ngp P) Q * reducedAte P Q = 1 := by
  rw [reducedAte_neg_left_eq, reducedAte, ← mul_pow]
  exact norm_pow_fe (textbookMiller_ne_zero P Q hy)

theorem reducedAte_neg_left (P : Fq × Fq) (Q : Fq2 × Fq2) (hy : P.2 ≠ 0) :
    reducedAte (ngp P) Q = (reducedAte P Q)⁻¹ :=
  eq_inv_of_mul_eq_one_left (reducedAte_neg_left_mul P Q hy)

/-- **`e(P, -Q) = e(-P, Q)`** for the textbook pairing, all `P`, `Q` -/
theorem reducedAte_neg_right (P : Fq × Fq) (Q : Fq2 × Fq2) :
    reducedAte P (ngp Q) = reducedAte (ngp P) Q := by
  unfold reducedAte
  exact (textbookMiller_neg_right P Q).conj.pow_fe

theorem reducedAte_ne_zero (P : Fq × Fq) (Q : Fq2 × Fq2) (hy : P.2 ≠ 0) : reducedAte P Q ≠ 0 :=
  pow_ne_zero _ (conj_ne_zero (textbookMiller_ne_zero P Q hy))

end NegPair
end PP
