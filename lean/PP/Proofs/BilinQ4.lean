/-
Linearity of the textbook reduced ate pairing in its second argument:

    reducedAte P (Q₁ + Q₂) = reducedAte P Q₁ · reducedAte P Q₂

for finite `P ∈ E(Fq)` and finite `Q₁, Q₂, Q₁ + Q₂ ∈ G2`.

1. `BilinQIdeal.miller_additive` at the untwisted points: with `f_i = f_{n,ψQ_i}(P)` the textbook Miller
   values (numerators; the denominators `d_i` are products of verticals),
       f₃ · l(P)^n · v_n(P) · d₁ d₂ · c = d₃ · f₁ f₂ · v(P)^n · l_n(P),   c⁴ = 1.
2. the verticals and the `d_i` are non-zero elements of `Fq6`, `c⁴ = 1`, `4 ∣ 3(q¹²-1)/r`: all killed by
   the final exponent.
3. Frobenius: `[n]Q_i = -Φ(Q_i)` on `G2` (`BilinPFrob`), so the line `l_n` through `[n]ψQ₁, [n]ψQ₂` at the
   rational point `P` is `(conj l(P))^q` (`line_frob`); `fe(conj x) = fe(x)⁻¹`, `fe(x)^r = 1`,
   `r ∣ n + q`: `fe(l_n(P)) = fe(l(P))^n`.
-/
import PP.Proofs.BilinQ3
import PP.Proofs.TowerFrob

set_option linter.unusedSectionVars false

namespace PP
namespace BilinQ

open WeierstrassCurve.Affine Ate Lines NegPair BilinP

local notation "b₂" => g2Codec.b

/-! ## Frobenius on a line through untwisted points, at a rational point -/

/-- `x ↦ x^q` on `Fq12` -/
noncomputable def frob12 : Fq12 →+* Fq12 := frobenius Fq12 Gen.q

theorem frob12_apply (x : Fq12) : frob12 x = x ^ Gen.q := rfl

theorem frob12_ι (a : Fq2) : frob12 (ι a) = ι (Fq2.conj a) := by
  rw [frob12_apply, ← map_pow, ← Fq2.conj_eq_pow_q]

theorem frob12_κ (a : Fq) : frob12 (κ a) = κ a := by
  rw [frob12_apply, ← map_pow, Fq.pow_q]

theorem frob12_w : frob12 Fq12.w = ι gamma * Fq12.w := by
  rw [frob12_apply, Fq12.w_pow_q]; rfl

theorem ι_gamma_dInv : ι gamma * ι dInv = 1 := by
  rw [← map_mul, gamma_mul_dInv, map_one]

/-- `-Φ`: `(x, y) ↦ (d² conj x, -d³ conj y)` -/
def negFrob (A : Fq2 × Fq2) : Fq2 × Fq2 := gmap conjHom (dInv ^ 2) (-(dInv ^ 3)) A

/-- **the line through `-Φ(A), -Φ(B)` at a rational point is `(conj l_{A,B}(P))^q`** -/
theorem line_frob (l : Fq2) (A : Fq2 × Fq2) (P : Fq × Fq) :
    lineAt (ι (-(dInv ^ 3) / dInv ^ 2 * conjHom l) / Fq12.w) (untwist (negFrob A)) (embed P) =
      Fq12.conjugate (lineAt (ι l / Fq12.w) (untwist A) (embed P)) ^ Gen.q := by
  rw [← frob12_apply, conj_eq]
  have hw := w_ne_zero
  have hd : ι dInv ≠ 0 := ι_ne_zero dInv_ne_zero
  have hg : ι gamma = (ι dInv)⁻¹ := eq_inv_of_mul_eq_one_left ι_gamma_dInv
  simp only [lineAt, untwist, embed, negFrob, gmap, conjHom_apply, map_sub, map_mul, map_div₀,
    map_pow, map_neg, conjE_ι, conjE_κ, conjE_w, frob12_ι, frob12_κ, frob12_w, hg]
  generalize ι dInv = D at *
  generalize Fq12.w = w at *
  field_simp

theorem negFrob_rel : (-(dInv ^ 3) : Fq2) ^ 2 = (dInv ^ 2) ^ 3 := by
  generalize dInv = d
  ring

theorem d2_ne : (dInv ^ 2 : Fq2) ≠ 0 := pow_ne_zero _ dInv_ne_zero
theorem d3_ne : (-(dInv ^ 3) : Fq2) ≠ 0 := neg_ne_zero.mpr (pow_ne_zero _ dInv_ne_zero)

/-- `[n]Q = -Φ(Q)` in coordinates, for `Q ∈ G2` finite -/
theorem repr_negFrob {q : Aff Fq2} (hq : Aff.InSub b₂ q) (hqi : q.infinity = false) :
    Repr (negFrob (pair q)) (Gen.BLS_X • Aff.abs b₂ q) := by
  rw [frobA_eq_neg_nsmul hq]
  have hB := (frobA_spec hq.1).1
  have hi2 : (frobA q).infinity = false := by simp only [frobA]; exact hqi
  have h := repr_neg (repr_aff hB hi2)
  have e : ngp (pair (frobA q)) = negFrob (pair q) := by
    simp only [ngp, pair, frobA, negFrob, gmap, conjHom_apply, neg_mul]
  rwa [e] at h

/-! ## the final exponent -/

local notation "E" => finalExponent

theorem pow_fe_r {x : Fq12} (hx : x ≠ 0) : (x ^ E) ^ Gen.r = 1 :=
  FinalExp.fe_pow_r (FinalExp.fe_spec hx)

theorem inFq6_pow_fe {d : Fq12} (hd : InFq6 d) : d ^ E = 1 :=
  Option.some.inj ((FinalExp.fe_spec hd.ne_zero).symm.trans hd.fe)

theorem four_dvd_fe : 4 ∣ E := by decide +kernel

theorem root4_pow_fe {c : Fq12} (hc : c ^ 4 = 1) : c ^ E = 1 := by
  obtain ⟨m, hm⟩ := four_dvd_fe
  rw [hm, pow_mul, hc, one_pow]

theorem r_dvd_n_add_q : Gen.r ∣ Gen.BLS_X + Gen.q := by decide +kernel

/-- `fe(conj x) = fe(x)⁻¹` -/
theorem conj_pow_fe {x : Fq12} (hx : x ≠ 0) : Fq12.conjugate x ^ E = (x ^ E)⁻¹ := by
  have h := norm_pow_fe hx
  rw [mul_pow] at h
  exact eq_inv_of_mul_eq_one_right h

/-- `fe((conj x)^q) = fe(x)^n` (`r ∣ n + q`) -/
theorem frob_conj_pow_fe {x : Fq12} (hx : x ≠ 0) :
    (Fq12.conjugate x ^ Gen.q) ^ E = (x ^ E) ^ Gen.BLS_X := by
  obtain ⟨m, hm⟩ := r_dvd_n_add_q
  have hy0 : x ^ E ≠ 0 := pow_ne_zero _ hx
  have h1 : (x ^ E) ^ Gen.BLS_X * (x ^ E) ^ Gen.q = 1 := by
    rw [← pow_add, hm, pow_mul, pow_fe_r hx, one_pow]
  rw [← pow_mul, mul_comm, pow_mul, conj_pow_fe hx, inv_pow]
  exact (eq_inv_of_mul_eq_one_left h1).symm

/-- `reducedAte = fe(f)⁻¹` -/
theorem reducedAte_eq_inv (P : Fq × Fq) (Q : Fq2 × Fq2) (hy : P.2 ≠ 0) :
    reducedAte P Q = (textbookMiller P Q ^ E)⁻¹ :=
  conj_pow_fe (textbookMiller_ne_zero P Q hy)

/-! ## the chain for one point of `G2` -/

/-- the state of the chain of `BilinQIdeal` for `ψ(Q)` over the bits of `|x|` -/
noncomputable def mst (Q : Fq2 × Fq2) : St (4 : Fq12) :=
  (bitsBelowTop Gen.BLS_X).foldl (stepR 4 (untwist Q)) (1, 1, untwist Q)

theorem ev_fold {P : Fq × Fq} (h : On (4 : Fq12) (embed P)) (Q : Fq2 × Fq2) (bs : List Bool)
    (hx : XNZ Q bs Q) :
    ev h (St.N (bs.foldl (stepR 4 (untwist Q)) (1, 1, untwist Q))) =
        (bs.foldl (millerStep P Q) (1, Q)).1 ∧
      InFq6 (ev h (St.D (bs.foldl (stepR 4 (untwist Q)) (1, 1, untwist Q)))) := by
  have hst : evSt h ((1, 1, untwist Q) : St (4 : Fq12)) = (1, 1, untwist Q) := by
    simp only [evSt, St.N, St.D, St.T, map_one]
  have hev := evSt_fold h (untwist Q) bs (1, 1, untwist Q)
  rw [hst] at hev
  generalize bs.foldl (stepR 4 (untwist Q)) (1, 1, untwist Q) = s at *
  have hN : ev h s.N = (bs.foldl (stepV (embed P) (untwist Q)) (1, 1, untwist Q)).1 :=
    congrArg Prod.fst hev
  have hD : ev h s.D = (bs.foldl (stepV (embed P) (untwist Q)) (1, 1, untwist Q)).2.1 :=
    congrArg (fun s => s.2.1) hev
  constructor
  · rw [hN, chain_val]
  · rw [hD]
    exact chain_den P _ _ _ _ _ InFq6.one hx

/-- everything about the chain of a finite `Q ∈ G2` -/
theorem chain_facts {q : Aff Fq2} (hq : Aff.InSub b₂ q) (hqi : q.infinity = false) :
    Inv (4 : Fq12) (untwist (pair q)) Gen.BLS_X (mst (pair q)) ∧
      (mst (pair q)).T = untwist (negFrob (pair q)) ∧
      ∀ (P : Fq × Fq) (h : On (4 : Fq12) (embed P)),
        ev h (mst (pair q)).N = textbookMiller P (pair q) ∧ InFq6 (ev h (mst (pair q)).D) := by
  have hQ := repr_aff hq.1 hqi
  have h0 : Aff.abs b₂ q ≠ 0 := repr_ne_zero hQ
  obtain ⟨hreg, hrep⟩ := regular_of_multiples (pair q) _ hQ (bitsBelowTop Gen.BLS_X) 1 (pair q)
    (le_refl _) (by rw [one_smul]; exact hQ)
    (by rw [val_bitsBelowTop]; exact multiples_ne_zero_of_order_r h0 hq.2)
  rw [val_bitsBelowTop] at hrep
  have hxnz := xnz_of_regular (pair q) _ hQ hq.2 (bitsBelowTop Gen.BLS_X) 1 (pair q)
    (by rw [one_smul]; exact hQ) hreg
  have hon := on_untwist (on_of_repr hQ)
  have hb : bval 1 (bitsBelowTop Gen.BLS_X) = Gen.BLS_X := val_bitsBelowTop
  have hinv := Inv.fold hon (bitsBelowTop Gen.BLS_X) (Inv.start hon) (reg_untwist _ _ _ hreg)
  rw [hb] at hinv
  have hT := chain_T (pair q) (bitsBelowTop Gen.BLS_X) 1 1 (pair q)
  rw [repr_unique hrep (repr_negFrob hq hqi)] at hT
  have hev := fun (P : Fq × Fq) (h : On (4 : Fq12) (embed P)) =>
    ev_fold h (pair q) (bitsBelowTop Gen.BLS_X) hxnz
  unfold mst textbookMiller millerBits
  generalize bitsBelowTop Gen.BLS_X = bs at *
  exact ⟨hinv, hT, hev⟩

end BilinQ
end PP
