/-
PP.Proofs.HashLen2 — output lengths of the truncated SHA-2 members of `PP/Spec/Hash2.lean`:

  * `sha224_length` : `(sha224 m).length = 28`  for every input
  * `sha384_length` : `(sha384 m).length = 48`  for every input

Core Lean only.  Method as in `PP/Proofs/HashLen.lean`: the untruncated serialisation of the chaining
value (`sha224_full_size`, `sha384_full_size`: 8 words of 4 / 8 bytes = 32 / 64 bytes, whatever the
initial value, because the compression function always returns 8 words) and then
`List.length_take` with `min 28 32 = 28`, `min 48 64 = 48`.
-/
import PP.Spec.Hash2
import PP.Proofs.HashLen

namespace PP.Hash

/-- the SHA-256 compression loop keeps 8 words, from any 8-word initial value -/
theorem sha256Loop_size (IV : Array UInt32) (hIV : IV.size = 8) (m : ByteArray) (l : List Nat) :
    (List.foldl (fun b a => sha256Block b m (64 * a)) IV l).size = 8 :=
  foldl_inv (fun H : Array UInt32 => H.size = 8) _ (fun _ _ _ => sha256Block_size _ _ _) _ _ hIV

theorem sha512Loop_size (IV : Array UInt64) (hIV : IV.size = 8) (m : ByteArray) (l : List Nat) :
    (List.foldl (fun b a => sha512Block b m (128 * a)) IV l).size = 8 :=
  foldl_inv (fun H : Array UInt64 => H.size = 8) _ (fun _ _ _ => sha512Block_size _ _ _) _ _ hIV

/-- serialising an 8-word state, 4 bytes per word, gives 32 bytes -/
theorem ser32_size (H : Array UInt32) (hH : H.size = 8) (b : ByteArray) :
    (Array.foldl (fun b x => pushBE b x.toNat 4) b H).size = b.size + 32 := by
  rw [← Array.foldl_toList, foldl_size_add _ 4 (fun _ _ => pushBE_size _ _ _),
    Array.length_toList, hH]

/-- serialising an 8-word state, 8 bytes per word, gives 64 bytes -/
theorem ser64_size (H : Array UInt64) (hH : H.size = 8) (b : ByteArray) :
    (Array.foldl (fun b x => pushBE b x.toNat 8) b H).size = b.size + 64 := by
  rw [← Array.foldl_toList, foldl_size_add _ 8 (fun _ _ => pushBE_size _ _ _),
    Array.length_toList, hH]

theorem sha224_length (m : List UInt8) : (sha224 m).length = 28 := by
  unfold sha224
  simp
  rw [byteArray_toList_length, ser32_size _ (sha256Loop_size _ (by decide) _ _)]
  rfl

theorem sha384_length (m : List UInt8) : (sha384 m).length = 48 := by
  unfold sha384
  simp
  rw [byteArray_toList_length, ser64_size _ (sha512Loop_size _ (by decide) _ _)]
  rfl

end PP.Hash
