/-
C13 lemmas: the model of `hash_to_field.rs` (`PP/Model/Map.lean`) against the RFC 9380 transcription
in `PP/Spec/Rfc9380.lean`.

* `expandXmd_eq`: the model of `ExpandMsgXmd::expand_message` equals `Rfc.expand_message_xmd`
  (both the bytes and the abort), for every hash;  `xmdBlocks_eq` is the loop invariant.
* `expandXof_eq`, `foldl_eq_OS2IP`/`beToNat_eq_OS2IP`, `OS2IP_split`, `fromOkm_fq`, `fromOkm_fr`,
  `fromRo_fq2`, `splitBlocks_eq`, `hashToField_*_rfc`.
-/
import PP.Model.Map
import PP.Spec.Rfc9380
import PP.Proofs.ZpField

namespace PP
namespace Expand
open Rfc (I2OSP OS2IP strxor substr ceilDiv xmd_b)

/-! ### bytes -/

theorem u8_eq (n : Nat) : u8 n = UInt8.ofNat n := by
  unfold u8
  apply UInt8.toNat_inj.mp
  simp

theorem I2OSP_one (n : Nat) : I2OSP n 1 = [u8 n] := by
  simp [I2OSP, u8]

theorem I2OSP_two (n : Nat) : I2OSP n 2 = [u8 (n >>> 8), u8 n] := by
  simp [I2OSP, u8, Nat.shiftRight_eq_div_pow]

theorem I2OSP_zero (k : Nat) : I2OSP 0 k = List.replicate k (0 : UInt8) := by
  induction k with
  | zero => rfl
  | succ k ih => rw [I2OSP, ih, List.replicate_succ']; rfl

theorem ceilDiv_eq (a b : Nat) (hb : 0 < b) : ceilDiv a b = (a + b - 1) / b := by
  unfold ceilDiv
  have h1 := Nat.div_add_mod a b
  have h2 := Nat.mod_lt a hb
  generalize a / b = q at *
  generalize a % b = r at *
  symm
  split
  · next h =>
    subst h
    rw [Nat.div_eq_iff hb, Nat.mul_comm q b]
    omega
  · next h =>
    rw [Nat.div_eq_iff hb, Nat.add_mul, Nat.mul_comm q b]
    omega

/-! ### expand_message_xmd -/

theorem xorBytes_eq (a b : Bytes) : xorBytes a b = strxor a b := rfl

/-- the model's block loop produces `b_(idx+1) || … || b_(idx+n)` -/
theorem xmdBlocks_eq (H : XmdHash) (msgP dstP : Bytes) :
    ∀ (n idx : Nat) (acc : Bytes), 1 ≤ idx →
      xmdBlocks H (xmd_b H.hash msgP dstP 0) dstP n idx (xmd_b H.hash msgP dstP idx) acc
        = acc ++ ((List.range n).map fun k => xmd_b H.hash msgP dstP (idx + 1 + k)).flatten := by
  intro n
  induction n with
  | zero => intro idx acc _; simp [xmdBlocks]
  | succ n ih =>
    intro idx acc hidx
    obtain ⟨i, rfl⟩ : ∃ i, idx = i + 1 := ⟨idx - 1, by omega⟩
    have hb : H.hash (xorBytes (xmd_b H.hash msgP dstP 0) (xmd_b H.hash msgP dstP (i + 1))
        ++ [u8 (i + 1 + 1)] ++ dstP) = xmd_b H.hash msgP dstP (i + 1 + 1) := by
      rw [xorBytes_eq, ← I2OSP_one]; rfl
    rw [xmdBlocks]
    simp only [hb]
    rw [ih (i + 1 + 1) _ (by omega), List.range_succ_eq_map]
    simp only [List.map_cons, List.map_map, List.flatten_cons, List.append_assoc]
    congr 2
    apply congrArg
    apply List.map_congr_left
    intro k _
    simp only [Function.comp]
    congr 1
    omega

theorem expandXmd_eq (H : XmdHash) (msg dst : Bytes) (len : Nat)
    (hout : 0 < H.outSize) (hdst : dst.length ≤ 255) (hlen : len ≤ 65535) :
    expandMessageXmd H msg dst len
      = Rfc.expand_message_xmd H.hash H.outSize H.blockSize msg dst len := by
  unfold expandMessageXmd Rfc.expand_message_xmd
  simp only [ceilDiv_eq _ _ hout]
  by_cases hell : (len + H.outSize - 1) / H.outSize > 255
  · simp [hell]
  · have hcond : ¬ ((len + H.outSize - 1) / H.outSize > 255 ∨ len > 65535 ∨ dst.length > 255) := by
      omega
    rw [if_neg hell, if_neg hcond]
    simp only [I2OSP_zero, I2OSP_one, I2OSP_two]
    congr 1
    generalize hmp : List.replicate H.blockSize (0 : UInt8) ++ msg ++ [u8 (len >>> 8), u8 len]
      ++ [u8 0] ++ (dst ++ [u8 dst.length]) = msgP
    have hmp' : List.replicate H.blockSize (0 : UInt8) ++ msg ++ [u8 (len >>> 8), u8 len, 0]
      ++ (dst ++ [u8 dst.length]) = msgP := by
      rw [← hmp]; simp [u8]
    rw [hmp']
    generalize dst ++ [u8 dst.length] = dstP
    have h0 : H.hash msgP = xmd_b H.hash msgP dstP 0 := rfl
    have h1 : H.hash (H.hash msgP ++ [1] ++ dstP) = xmd_b H.hash msgP dstP 1 := by
      show _ = H.hash (H.hash msgP ++ I2OSP 1 1 ++ dstP)
      rw [I2OSP_one]; rfl
    rw [h1, h0, xmdBlocks_eq H msgP dstP _ 1 _ (le_refl 1)]
    unfold substr
    rw [List.drop_zero]
    rcases Nat.eq_zero_or_pos ((len + H.outSize - 1) / H.outSize) with hz | hpos
    · have : len = 0 := by
        rcases Nat.eq_zero_or_pos len with h | h
        · exact h
        · exfalso
          have : H.outSize ≤ len + H.outSize - 1 := by omega
          have := Nat.div_pos this hout
          omega
      subst this
      simp
    · obtain ⟨e, he⟩ : ∃ e, (len + H.outSize - 1) / H.outSize = e + 1 := ⟨_, (Nat.succ_pred_eq_of_pos hpos).symm⟩
      rw [he, Nat.add_sub_cancel, List.range_succ_eq_map]
      simp only [List.map_cons, List.map_map, List.flatten_cons]
      congr 3
      apply List.map_congr_left
      intro k _
      simp only [Function.comp]
      congr 1
      omega

theorem expandXmd_none_iff (H : XmdHash) (msg dst : Bytes) (len : Nat) :
    expandMessageXmd H msg dst len = none ↔ (len + H.outSize - 1) / H.outSize > 255 := by
  unfold expandMessageXmd
  by_cases hell : (len + H.outSize - 1) / H.outSize > 255 <;> simp [hell]

theorem flatten_length_const {α : Type} (f : Nat → List α) (c : Nat) (hf : ∀ k, (f k).length = c) (n : Nat) :
    ((List.range n).map f).flatten.length = n * c := by
  induction n with
  | zero => simp
  | succ n ih =>
    rw [List.range_succ, List.map_append, List.flatten_append, List.length_append, ih]
    simp [hf, Nat.succ_mul]

theorem xmd_b_length (H : Bytes → Bytes) (c : Nat) (hH : ∀ x, (H x).length = c) (msgP dstP : Bytes) (i : Nat) :
    (xmd_b H msgP dstP i).length = c := by
  match i with
  | 0 => exact hH _
  | 1 => exact hH _
  | i + 2 => exact hH _

/-- a successful RFC expansion has exactly the requested length (for a hash with `b_in_bytes`-byte output) -/
theorem rfc_xmd_length (H : Bytes → Bytes) (b s : Nat) (hb : 0 < b) (hH : ∀ x, (H x).length = b)
    (msg dst : Bytes) (len : Nat) (bytes : Bytes)
    (h : Rfc.expand_message_xmd H b s msg dst len = some bytes) : bytes.length = len := by
  unfold Rfc.expand_message_xmd at h
  simp only at h
  split at h
  · cases h
  · injection h with h
    subst h
    unfold substr
    rw [List.drop_zero, List.length_take,
      flatten_length_const _ b (fun k => xmd_b_length H b hH _ _ (k + 1)), ceilDiv_eq _ _ hb]
    apply Nat.min_eq_left
    have := Nat.lt_div_mul_add (a := len + b - 1) hb
    omega

/-! ### expand_message_xof -/

theorem expandXof_eq (xof : Bytes → Nat → Bytes) (msg dst : Bytes) (len : Nat)
    (hdst : dst.length ≤ 255) (hlen : len ≤ 65535) :
    Rfc.expand_message_xof xof msg dst len = some (expandMessageXof xof msg dst len) := by
  unfold Rfc.expand_message_xof expandMessageXof
  have hcond : ¬ (len > 65535 ∨ dst.length > 255) := by omega
  rw [if_neg hcond]
  simp only [I2OSP_one, I2OSP_two, List.append_assoc]

/-! ### OS2IP -/

theorem foldl_eq_OS2IP (bs : Bytes) : ∀ acc : Nat,
    bs.foldl (fun acc b => acc * 256 + b.toNat) acc = acc * 256 ^ bs.length + OS2IP bs := by
  induction bs with
  | nil => intro acc; simp [OS2IP]
  | cons b bs ih =>
    intro acc
    rw [List.foldl_cons, ih, OS2IP, List.length_cons, pow_succ]
    ring

theorem beToNat_eq_OS2IP (bs : Bytes) : beToNat bs = OS2IP bs := by
  unfold beToNat; rw [foldl_eq_OS2IP]; simp

theorem OS2IP_append (a b : Bytes) : OS2IP (a ++ b) = OS2IP a * 256 ^ b.length + OS2IP b := by
  induction a with
  | nil => simp [OS2IP]
  | cons x a ih =>
    rw [List.cons_append, OS2IP, ih, OS2IP, List.length_append, pow_add]
    ring

theorem OS2IP_lt (bs : Bytes) : OS2IP bs < 256 ^ bs.length := by
  induction bs with
  | nil => simp [OS2IP]
  | cons b bs ih =>
    rw [OS2IP, List.length_cons, pow_succ]
    have := b.toNat_lt
    nlinarith

theorem OS2IP_replicate_zero (k : Nat) : OS2IP (List.replicate k (0 : UInt8)) = 0 := by
  induction k with
  | zero => rfl
  | succ k ih => rw [List.replicate_succ, OS2IP, ih]; simp

theorem OS2IP_zero_extend (k : Nat) (bs : Bytes) :
    OS2IP (List.replicate k (0 : UInt8) ++ bs) = OS2IP bs := by
  rw [OS2IP_append, OS2IP_replicate_zero]; simp

/-- splitting a string at `k` bytes from the front -/
theorem OS2IP_split (bs : Bytes) (k : Nat) :
    OS2IP bs = OS2IP (bs.take k) * 256 ^ (bs.length - k) + OS2IP (bs.drop k) := by
  conv_lhs => rw [← List.take_append_drop k bs]
  rw [OS2IP_append, List.length_drop]

/-! ### from_okm -/

theorem Zp.mk_eq_ofNat {p : Nat} [PosNat p] (n : Nat) (h : n < p) : (⟨n, h⟩ : Zp p) = Zp.ofNat n := by
  unfold Zp.ofNat; congr; exact (Nat.mod_eq_of_lt h).symm

theorem Zp.ofNat_mul_add {p : Nat} [PosNat p] (a b c : Nat) :
    (Zp.ofNat a * Zp.ofNat b + Zp.ofNat c : Zp p) = Zp.ofNat (a * b + c) := by
  apply Zp.toZ_injective
  rw [Zp.toZ_add, Zp.toZ_mul]
  simp

theorem Fq.fromBytes_of_lt (bs : Bytes) (h : OS2IP bs < Gen.q) : Fq.fromBytes bs = some (Zp.ofNat (OS2IP bs)) := by
  unfold Fq.fromBytes
  simp only [beToNat_eq_OS2IP, dif_pos h, Zp.mk_eq_ofNat]

theorem Fr.fromBytes_of_lt (bs : Bytes) (h : OS2IP bs < Gen.r) : Fr.fromBytes bs = some (Zp.ofNat (OS2IP bs)) := by
  unfold Fr.fromBytes
  simp only [beToNat_eq_OS2IP, dif_pos h, Zp.mk_eq_ofNat]

/-- the extracted Montgomery literal `F_2_256` of `Fq::from_okm` decodes to `2^256 mod q` -/
theorem fqF2_256_eq : fqF2_256 = Zp.ofNat (2 ^ 256) := by decide +kernel

/-- the extracted Montgomery literal `F_2_192` of `Fr::from_okm` decodes to `2^192 mod r` -/
theorem frF2_192_eq : frF2_192 = Zp.ofNat (2 ^ 192) := by decide +kernel

theorem q_gt : 2 ^ 256 < Gen.q := by decide +kernel
theorem r_gt : 2 ^ 192 < Gen.r := by decide +kernel

theorem fromOkm_fq (okm : Bytes) (h : okm.length = 64) :
    Fq.fromOkm okm = some (Zp.ofNat (OS2IP okm)) := by
  have h1 : OS2IP (List.replicate 16 (0 : UInt8) ++ okm.take 32) < Gen.q := by
    rw [OS2IP_zero_extend]
    have := OS2IP_lt (okm.take 32)
    rw [List.length_take, h] at this
    exact lt_trans this q_gt
  have h2 : OS2IP (List.replicate 16 (0 : UInt8) ++ (okm.drop 32).take 32) < Gen.q := by
    rw [OS2IP_zero_extend]
    have := OS2IP_lt ((okm.drop 32).take 32)
    rw [List.length_take, List.length_drop, h] at this
    exact lt_trans this q_gt
  have h3 : (okm.drop 32).take 32 = okm.drop 32 := List.take_of_length_le (by simp [h])
  unfold Fq.fromOkm
  rw [Fq.fromBytes_of_lt _ h1, Fq.fromBytes_of_lt _ h2]
  simp only [Option.bind_eq_bind, Option.bind_some, Option.pure_def, OS2IP_zero_extend]
  rw [fqF2_256_eq, Zp.ofNat_mul_add, h3, OS2IP_split okm 32, h,
    show (256 : Nat) ^ (64 - 32) = 2 ^ 256 by norm_num]

theorem fromOkm_fr (okm : Bytes) (h : okm.length = 48) :
    Fr.fromOkm okm = some (Zp.ofNat (OS2IP okm)) := by
  have h1 : OS2IP (List.replicate 8 (0 : UInt8) ++ okm.take 24) < Gen.r := by
    rw [OS2IP_zero_extend]
    have := OS2IP_lt (okm.take 24)
    rw [List.length_take, h] at this
    exact lt_trans this r_gt
  have h2 : OS2IP (List.replicate 8 (0 : UInt8) ++ (okm.drop 24).take 24) < Gen.r := by
    rw [OS2IP_zero_extend]
    have := OS2IP_lt ((okm.drop 24).take 24)
    rw [List.length_take, List.length_drop, h] at this
    exact lt_trans this r_gt
  have h3 : (okm.drop 24).take 24 = okm.drop 24 := List.take_of_length_le (by simp [h])
  unfold Fr.fromOkm
  rw [Fr.fromBytes_of_lt _ h1, Fr.fromBytes_of_lt _ h2]
  simp only [Option.bind_eq_bind, Option.bind_some, Option.pure_def, OS2IP_zero_extend]
  rw [frF2_192_eq, Zp.ofNat_mul_add, h3, OS2IP_split okm 24, h,
    show (256 : Nat) ^ (48 - 24) = 2 ^ 192 by norm_num]

theorem fromRo_fq2 (okm : Bytes) (h : okm.length = 128) :
    Fq2.fromRo okm = some ⟨Zp.ofNat (OS2IP (okm.take 64)), Zp.ofNat (OS2IP (okm.drop 64))⟩ := by
  have h3 : (okm.drop 64).take 64 = okm.drop 64 := List.take_of_length_le (by simp [h])
  unfold Fq2.fromRo
  rw [fromOkm_fq (okm.take 64) (by simp [h]), h3, fromOkm_fq (okm.drop 64) (by simp [h])]
  rfl

/-! ### hash_to_field -/

theorem splitBlocks_eq {T : Type} (L : Nat) (fromRo : Bytes → Option T) (g : Bytes → T)
    (hg : ∀ blk : Bytes, blk.length = L → fromRo blk = some (g blk)) (bytes : Bytes) :
    ∀ n idx : Nat, (idx + n) * L ≤ bytes.length →
      splitBlocks L fromRo bytes n idx
        = some ((List.range n).map fun k => g (substr bytes ((idx + k) * L) L)) := by
  intro n
  induction n with
  | zero => intro idx _; simp [splitBlocks]
  | succ n ih =>
    intro idx hlen
    have hblk : ((bytes.drop (idx * L)).take L).length = L := by
      rw [List.length_take, List.length_drop]
      have : (idx + (n + 1)) * L = idx * L + L + n * L := by ring
      omega
    rw [splitBlocks]
    simp only [Option.bind_eq_bind, Option.pure_def, ne_eq, hblk, not_true_eq_false, if_false]
    rw [hg _ hblk, ih (idx + 1) (by rw [show idx + 1 + n = idx + (n + 1) by omega]; exact hlen)]
    simp only [Option.bind_some, List.range_succ_eq_map, List.map_cons, List.map_map]
    congr 2
    apply List.map_congr_left
    intro k _
    simp only [Function.comp]
    congr 2
    rw [Nat.succ_eq_add_one]
    ring

theorem hashToField_eq {T : Type} (expand : Bytes → Bytes → Nat → Option Bytes) (L : Nat)
    (fromRo : Bytes → Option T) (g : Bytes → T)
    (hg : ∀ blk : Bytes, blk.length = L → fromRo blk = some (g blk))
    (msg dst : Bytes) (count : Nat) (bytes : Bytes)
    (h : expand msg dst (count * L) = some bytes) (hl : count * L ≤ bytes.length) :
    hashToField expand L fromRo msg dst count
      = some ((List.range count).map fun i => g (substr bytes (i * L) L)) := by
  unfold hashToField
  rw [h]
  simp only [Option.bind_eq_bind, Option.bind_some]
  rw [splitBlocks_eq L fromRo g hg bytes count 0 (by simpa using hl)]
  simp

theorem hashToField_none {T : Type} (expand : Bytes → Bytes → Nat → Option Bytes) (L : Nat)
    (fromRo : Bytes → Option T) (msg dst : Bytes) (count : Nat)
    (h : expand msg dst (count * L) = none) :
    hashToField expand L fromRo msg dst count = none := by
  unfold hashToField; rw [h]; rfl

/-- the canonical integers of a prime-field element, as the one-element vector `(e_0)` -/
def Zp.coords {p : Nat} (x : Zp p) : List Nat := [x.v]
/-- `(e_0, e_1)`: real part first -/
def Fq2.coords (x : Fq2) : List Nat := [x.c0.v, x.c1.v]

theorem hashToField_fq_rfc (expand : Bytes → Bytes → Nat → Option Bytes) (msg dst : Bytes) (count : Nat)
    (hl : ∀ bytes, expand msg dst (count * 64) = some bytes → count * 64 ≤ bytes.length) :
    (hashToField expand 64 Fq.fromOkm msg dst count).map (List.map Zp.coords)
      = Rfc.hash_to_field expand Gen.q 1 64 msg dst count := by
  unfold Rfc.hash_to_field
  simp only [Nat.mul_one]
  cases h : expand msg dst (count * 64) with
  | none => rw [hashToField_none _ _ _ _ _ _ h]; rfl
  | some bytes =>
    rw [hashToField_eq expand 64 Fq.fromOkm _ fromOkm_fq msg dst count bytes h (hl _ h)]
    simp only [Option.map_some, List.map_map]
    congr 1
    apply List.map_congr_left
    intro i _
    simp [Zp.coords, Nat.mul_comm]

theorem hashToField_fr_rfc (expand : Bytes → Bytes → Nat → Option Bytes) (msg dst : Bytes) (count : Nat)
    (hl : ∀ bytes, expand msg dst (count * 48) = some bytes → count * 48 ≤ bytes.length) :
    (hashToField expand 48 Fr.fromOkm msg dst count).map (List.map Zp.coords)
      = Rfc.hash_to_field expand Gen.r 1 48 msg dst count := by
  unfold Rfc.hash_to_field
  simp only [Nat.mul_one]
  cases h : expand msg dst (count * 48) with
  | none => rw [hashToField_none _ _ _ _ _ _ h]; rfl
  | some bytes =>
    rw [hashToField_eq expand 48 Fr.fromOkm _ fromOkm_fr msg dst count bytes h (hl _ h)]
    simp only [Option.map_some, List.map_map]
    congr 1
    apply List.map_congr_left
    intro i _
    simp [Zp.coords, Nat.mul_comm]

theorem substr_take (bytes : Bytes) (a : Nat) : (substr bytes a 128).take 64 = substr bytes a 64 := by
  unfold substr; rw [List.take_take]; rfl

theorem substr_drop (bytes : Bytes) (a : Nat) : (substr bytes a 128).drop 64 = substr bytes (a + 64) 64 := by
  unfold substr; rw [List.drop_take, List.drop_drop]

theorem hashToField_fq2_rfc (expand : Bytes → Bytes → Nat → Option Bytes) (msg dst : Bytes) (count : Nat)
    (hl : ∀ bytes, expand msg dst (count * 128) = some bytes → count * 128 ≤ bytes.length) :
    (hashToField expand 128 Fq2.fromRo msg dst count).map (List.map Fq2.coords)
      = Rfc.hash_to_field expand Gen.q 2 64 msg dst count := by
  unfold Rfc.hash_to_field
  simp only [Nat.mul_assoc, show 2 * 64 = 128 from rfl]
  cases h : expand msg dst (count * 128) with
  | none => rw [hashToField_none _ _ _ _ _ _ h]; rfl
  | some bytes =>
    rw [hashToField_eq expand 128 Fq2.fromRo _ fromRo_fq2 msg dst count bytes h (hl _ h)]
    simp only [Option.map_some, List.map_map]
    congr 1
    apply List.map_congr_left
    intro i _
    simp only [Function.comp, Fq2.coords, substr_take, substr_drop, Zp.ofNat_v,
      show List.range 2 = [0, 1] from rfl, List.map_cons, List.map_nil]
    rw [show 64 * (0 + i * 2) = i * 128 by omega, show 64 * (1 + i * 2) = i * 128 + 64 by omega]

/-! ### hash_to_field on top of the two expanders -/

theorem rfc_hash_to_field_congr (e1 e2 : Bytes → Bytes → Nat → Option Bytes) (p m L : Nat)
    (msg dst : Bytes) (count : Nat) (h : e1 msg dst (count * m * L) = e2 msg dst (count * m * L)) :
    Rfc.hash_to_field e1 p m L msg dst count = Rfc.hash_to_field e2 p m L msg dst count := by
  unfold Rfc.hash_to_field; simp only [h]

theorem xmd_len_ok (H : XmdHash) (hout : 0 < H.outSize) (hH : ∀ x, (H.hash x).length = H.outSize)
    (msg dst : Bytes) (n : Nat) (hdst : dst.length ≤ 255) (hn : n ≤ 65535) :
    ∀ bytes, expandMessageXmd H msg dst n = some bytes → n ≤ bytes.length := by
  intro bytes h
  rw [expandXmd_eq H msg dst n hout hdst hn] at h
  exact le_of_eq (rfc_xmd_length H.hash H.outSize H.blockSize hout hH msg dst n bytes h).symm

/-- the XOF model as an `expand` argument of `hashToField` (it never aborts) -/
def xofExpand (xof : Bytes → Nat → Bytes) : Bytes → Bytes → Nat → Option Bytes :=
  fun msg dst len => some (expandMessageXof xof msg dst len)

theorem xof_len_ok (xof : Bytes → Nat → Bytes) (hX : ∀ m n, (xof m n).length = n)
    (msg dst : Bytes) (n : Nat) :
    ∀ bytes, xofExpand xof msg dst n = some bytes → n ≤ bytes.length := by
  intro bytes h
  injection h with h
  subst h
  exact le_of_eq (hX _ _).symm

end Expand
end PP
