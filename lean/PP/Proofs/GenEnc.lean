/-
The definitions REGENERATED from the Rust source by /verif/extract/extract_enc.py (`PP/Gen/Enc.lean`,
namespace `PP.Gen.E`: the point encodings of src/bls12_381/ec/g1.rs, g2.rs and the stream
(de)serialization of src/serdes.rs, one line per Rust statement, flag bits and masks translated
literally) are equal to the hand-written model (`PP/Model/Enc.lean`).

Shape of the statements.  The Rust code is duplicated per group; the model is generic in a `Codec`, so
every G1 / G2 definition is compared with the model function at `g1Codec` / `g2Codec`.  A function that can
PANIC is `Option`-valued in the generated code (`none` = panic): the theorems say `= some (model ..)`,
i.e. also that the Rust code does not panic, under the hypothesis `bs.length = N` that expresses the Rust
type `[u8; N]` of the encoded point (the model checks the length itself and answers `badLength`, which is
outside the Rust domain).  `io::Write` sinks are byte lists the function appends to: `serialize a w c =
.ok (w ++ model a c)`.

Proof method.  Purely syntactic: `unfold` of the generated definition and of the model function, the
head byte made explicit (`bs = b0 :: r` from the length hypothesis), case split on the flag tests in
the order of the source, `readExact` / `SliceWriter.write` resolved with the length facts, `cases` on the
results of `Fq::from_repr`, `get_point_from_x`, the curve checks (all kept OPAQUE: field values are
generalised, nothing evaluates `Fq` arithmetic).  Calls of Arith.lean definitions are rewritten into the
model's with the equalities of `PP.Proofs.GenArith`; for G2 the generated `Fq2` instance bundles are
first rewritten into the model's instances (`lowerInst2`).

Core Lean only (imports `PP.Proofs.GenArith`); axioms: `propext`, `Quot.sound`, `Classical.choice` at most.
-/
import PP.Gen.Enc
import PP.Proofs.GenArith

set_option linter.unusedSimpArgs false

namespace PP.GenEncLemmas
open PP PP.Gen PP.GenArithLemmas

/-! ## bytes, readers, writers -/

theorem shl7 : (1 : UInt8) <<< 7 = 0x80 := by decide
theorem shl6 : (1 : UInt8) <<< 6 = 0x40 := by decide
theorem shl5 : (1 : UInt8) <<< 5 = 0x20 := by decide

theorem cons_of_length {n : Nat} (bs : Bytes) (h : bs.length = n + 1) : ∃ b r, bs = b :: r ∧ r.length = n := by
  cases bs with
  | nil => cases h
  | cons b r => exact ⟨b, r, rfl, Nat.succ.inj h⟩

theorem g1Codec_read (name : String) (bs : Bytes) : g1Codec.read name bs =
    match E.Fq.fromRepr (beToNat bs) with
    | some a => .ok a
    | none => .error (name ++ " coordinate") := rfl

theorem all_decide (l : Bytes) : l.all (fun b => decide (b = 0)) = l.all (· == 0) := rfl
theorem maskFirst_cons (b : UInt8) (r : Bytes) (m : UInt8) : maskFirst (b :: r) m = (b &&& m) :: r := rfl
theorem set0_or (l : Bytes) (m : UInt8) : l.set 0 (l.getD 0 0 ||| m) = orFirst l m := by cases l <;> rfl

theorem readExact_ok (n : Nat) (rd : Bytes) (h : n ≤ rd.length) : readExact n rd = .ok (rd.take n, rd.drop n) := by
  unfold readExact
  rw [if_neg (Nat.not_lt.mpr h)]

theorem reprReadBe_ok (n : Nat) (rd : Bytes) (h : n ≤ rd.length) :
    E.reprReadBe n rd = .ok (beToNat (rd.take n), rd.drop n) := by
  unfold E.reprReadBe
  rw [readExact_ok n rd h]

theorem beBytes_length (len n : Nat) : (beBytes len n).length = len := by
  induction len with
  | zero => rfl
  | succ k ih => simp only [beBytes, List.length_cons, ih]

theorem sliceWrite_ok (d rest bs : Bytes) (h : bs.length ≤ rest.length) :
    E.SliceWriter.write ⟨d, rest⟩ bs = some ⟨d ++ bs, rest.drop bs.length⟩ := by
  unfold E.SliceWriter.write
  rw [if_neg (Nat.not_lt.mpr h)]

/-! ## G1 (src/bls12_381/ec/g1.rs) -/

theorem G1Affine_getCoeffB_eq : E.G1Affine.getCoeffB = g1Codec.b := rfl

theorem G1Uncompressed_intoAffineUnchecked_eq (bs : Bytes) (h : bs.length = 96) :
    E.G1Uncompressed.intoAffineUnchecked bs = some (decodeUncompressedUnchecked g1Codec bs) := by
  obtain ⟨b0, r, rfl, hr⟩ := cons_of_length bs h
  unfold E.G1Uncompressed.intoAffineUnchecked decodeUncompressedUnchecked
  have hsz : g1Codec.size = 48 := rfl
  rw [if_neg (show ¬ ((b0 :: r).length ≠ 2 * g1Codec.size) by rw [h, hsz]; decide)]
  simp only []
  rw [show (b0 :: r).getD 0 0 = b0 from rfl, show (b0 :: r).headD 0 = b0 from rfl]
  simp only [List.set_cons_zero, maskFirst_cons, shl7, shl6, shl5, hsz, all_decide]
  by_cases h7 : b0 &&& 0x80 ≠ 0
  · rw [if_pos h7, if_pos h7]
  rw [if_neg h7, if_neg h7]
  by_cases h6 : b0 &&& 0x40 ≠ 0
  · rw [if_pos h6, if_pos h6]
    exact (apply_ite some _ _ _).symm
  rw [if_neg h6, if_neg h6]
  by_cases h5 : b0 &&& 0x20 ≠ 0
  · rw [if_pos h5, if_pos h5]
  rw [if_neg h5, if_neg h5]
  have hl : ((b0 &&& 0x1f) :: r).length = 96 := by simpa using hr
  rw [reprReadBe_ok 48 _ (by rw [hl]; decide)]
  simp only []
  rw [reprReadBe_ok 48 _ (by rw [List.length_drop, hl]; decide)]
  simp only [g1Codec_read]
  cases E.Fq.fromRepr (beToNat (List.take 48 ((b0 &&& 0x1f) :: r))) with
  | none => rfl
  | some x =>
    simp only []
    cases E.Fq.fromRepr (beToNat (List.take 48 (List.drop 48 ((b0 &&& 0x1f) :: r)))) with
    | none => rfl
    | some y => rfl

theorem G1Compressed_intoAffineUnchecked_eq (bs : Bytes) (h : bs.length = 48) :
    E.G1Compressed.intoAffineUnchecked bs = some (decodeCompressedUnchecked g1Codec bs) := by
  obtain ⟨b0, r, rfl, hr⟩ := cons_of_length bs h
  unfold E.G1Compressed.intoAffineUnchecked decodeCompressedUnchecked
  have hsz : g1Codec.size = 48 := rfl
  rw [if_neg (show ¬ ((b0 :: r).length ≠ g1Codec.size) by rw [h, hsz]; decide)]
  simp only []
  rw [show (b0 :: r).getD 0 0 = b0 from rfl, show (b0 :: r).headD 0 = b0 from rfl]
  simp only [List.set_cons_zero, maskFirst_cons, shl7, shl6, shl5, hsz, all_decide]
  by_cases h7 : b0 &&& 0x80 = 0
  · rw [if_pos h7, if_pos h7]
  rw [if_neg h7, if_neg h7]
  by_cases h6 : b0 &&& 0x40 ≠ 0
  · rw [if_pos h6, if_pos h6]
    exact (apply_ite some _ _ _).symm
  rw [if_neg h6, if_neg h6]
  have hl : ((b0 &&& 0x1f) :: r).length = 48 := by simpa using hr
  rw [reprReadBe_ok 48 _ (by rw [hl]; decide), List.take_of_length_le (by rw [hl]; decide)]
  simp only [g1Codec_read, G1Affine_getCoeffB_eq, Aff_getPointFromX_eq]
  cases E.Fq.fromRepr (beToNat ((b0 &&& 0x1f) :: r)) with
  | none => rfl
  | some x =>
    simp only []
    cases PP.Aff.getPointFromX g1Codec.b x (decide (b0 &&& 32 ≠ 0)) <;> rfl

theorem G1Uncompressed_fromAffine_eq (a : Aff Fq) :
    E.G1Uncompressed.fromAffine a = some (encodeUncompressed g1Codec a) := by
  unfold E.G1Uncompressed.fromAffine encodeUncompressed E.G1Uncompressed.empty
  rw [Aff_isZero_eq]
  simp only [set0_or, shl6]
  cases a.infinity with
  | true => rfl
  | false =>
    simp only [Bool.false_eq_true, if_false]
    unfold E.SliceWriter.new
    rw [sliceWrite_ok _ _ _ (by rw [beBytes_length, List.length_replicate]; decide)]
    simp only []
    rw [sliceWrite_ok _ _ _ (by rw [beBytes_length, List.length_drop, beBytes_length, List.length_replicate]; decide)]
    simp only [E.SliceWriter.finish, beBytes_length, List.drop_drop, List.drop_replicate, List.nil_append]
    rfl

theorem G1Uncompressed_intoAffine_eq (bs : Bytes) (h : bs.length = 96) :
    E.G1Uncompressed.intoAffine bs = some (decodeUncompressed g1Codec bs) := by
  unfold E.G1Uncompressed.intoAffine decodeUncompressed
  rw [G1Uncompressed_intoAffineUnchecked_eq bs h]
  simp only [G1Affine_getCoeffB_eq, Aff_isOnCurve_eq, G1Affine_inSubgroup_eq]
  cases decodeUncompressedUnchecked g1Codec bs with
  | error e => rfl
  | ok a =>
    simp only []
    generalize PP.Aff.isOnCurve g1Codec.b a = c1
    generalize PP.Aff.inSubgroup g1Codec.b a = c2
    cases c1 <;> cases c2 <;> rfl

theorem G1Compressed_intoAffine_eq (bs : Bytes) (h : bs.length = 48) :
    E.G1Compressed.intoAffine bs = some (decodeCompressed g1Codec bs) := by
  unfold E.G1Compressed.intoAffine decodeCompressed
  rw [G1Compressed_intoAffineUnchecked_eq bs h]
  simp only [G1Affine_getCoeffB_eq, G1Affine_inSubgroup_eq]
  cases decodeCompressedUnchecked g1Codec bs with
  | error e => rfl
  | ok a =>
    simp only []
    generalize PP.Aff.inSubgroup g1Codec.b a = c2
    cases c2 <;> rfl

theorem lt_fq (a b : Fq) : SqrtOps.lt a b = decide (a.v < b.v) := rfl

theorem G1Compressed_fromAffine_eq (a : Aff Fq) :
    E.G1Compressed.fromAffine a = some (encodeCompressed g1Codec a) := by
  unfold E.G1Compressed.fromAffine encodeCompressed E.G1Compressed.empty
  rw [Aff_isZero_eq]
  simp only [set0_or, shl5, shl6, shl7]
  cases a.infinity with
  | true => rfl
  | false =>
    simp only [Bool.false_eq_true, if_false]
    unfold E.SliceWriter.new
    rw [sliceWrite_ok _ _ _ (by rw [beBytes_length, List.length_replicate]; decide)]
    simp only [E.SliceWriter.finish, beBytes_length, List.drop_replicate, List.nil_append]
    generalize -a.y = negy
    rw [lt_fq]
    rw [show g1Codec.write a.x = beBytes 48 a.x.v from rfl,
      show beBytes 48 a.x.v ++ List.replicate (48 - 48) (0 : UInt8) = beBytes 48 a.x.v from List.append_nil _]
    by_cases hlt : negy.v < a.y.v
    · rw [if_pos (Nat.compare_eq_gt.mpr hlt), if_pos (decide_eq_true hlt)]
    · rw [if_neg (fun hc => hlt (Nat.compare_eq_gt.mp hc)), if_neg (fun hc => hlt (of_decide_eq_true hc))]

/-! ## G2 -/

theorem g2Codec_read (name : String) (bs : Bytes) : g2Codec.read name bs =
    match E.Fq.fromRepr (beToNat ((bs.drop 48).take 48)) with
    | none => .error (name ++ " coordinate (c0)")
    | some c0 =>
      match E.Fq.fromRepr (beToNat (bs.take 48)) with
      | none => .error (name ++ " coordinate (c1)")
      | some c1 => .ok ⟨c0, c1⟩ := rfl

theorem G2Affine_getCoeffB_eq : E.G2Affine.getCoeffB = g2Codec.b := rfl

/-- the generated `Fq2` operation bundles (local instances of the generic code applied at `Fq2`) are
    the model's instances -/
local macro "lowerInst2" : tactic => `(tactic| (
  (try rewrite [Fq2_instAdd_eq']); (try rewrite [Fq2_instSub_eq']); (try rewrite [Fq2_instMul_eq'])
  (try rewrite [Fq2_instNeg_eq']); (try rewrite [Fq2_instZero_eq']); (try rewrite [Fq2_instOne_eq'])
  (try rewrite [Fq2_instFieldOps_eq'])))

theorem G2Uncompressed_intoAffineUnchecked_eq (bs : Bytes) (h : bs.length = 192) :
    E.G2Uncompressed.intoAffineUnchecked bs = some (decodeUncompressedUnchecked g2Codec bs) := by
  obtain ⟨b0, r, rfl, hr⟩ := cons_of_length bs h
  unfold E.G2Uncompressed.intoAffineUnchecked decodeUncompressedUnchecked
  lowerInst2
  have hsz : g2Codec.size = 96 := rfl
  rw [if_neg (show ¬ ((b0 :: r).length ≠ 2 * g2Codec.size) by rw [h, hsz]; decide)]
  simp only []
  rw [show (b0 :: r).getD 0 0 = b0 from rfl, show (b0 :: r).headD 0 = b0 from rfl]
  simp only [List.set_cons_zero, maskFirst_cons, shl7, shl6, shl5, hsz, all_decide]
  by_cases h7 : b0 &&& 0x80 ≠ 0
  · rw [if_pos h7, if_pos h7]
  rw [if_neg h7, if_neg h7]
  by_cases h6 : b0 &&& 0x40 ≠ 0
  · rw [if_pos h6, if_pos h6]
    exact (apply_ite some _ _ _).symm
  rw [if_neg h6, if_neg h6]
  by_cases h5 : b0 &&& 0x20 ≠ 0
  · rw [if_pos h5, if_pos h5]
  rw [if_neg h5, if_neg h5]
  generalize hc : (b0 &&& 0x1f) :: r = copy
  have hl : copy.length = 192 := by rw [← hc]; simpa using hr
  rw [reprReadBe_ok 48 _ (by rw [hl]; decide)]
  simp only []
  rw [reprReadBe_ok 48 _ (by rw [List.length_drop, hl]; decide)]
  simp only []
  rw [reprReadBe_ok 48 _ (by rw [List.length_drop, List.length_drop, hl]; decide)]
  simp only []
  rw [reprReadBe_ok 48 _ (by rw [List.length_drop, List.length_drop, List.length_drop, hl]; decide)]
  simp only [g2Codec_read, List.take_take, List.drop_take, List.drop_drop, Nat.reduceSub, Nat.reduceAdd, show min 48 48 = 48 from rfl, show min 48 96 = 48 from rfl]
  cases E.Fq.fromRepr (beToNat (List.take 48 (List.drop 48 copy))) with
  | none => rfl
  | some xc0 =>
    simp only []
    cases E.Fq.fromRepr (beToNat (List.take 48 copy)) with
    | none => rfl
    | some xc1 =>
      simp only []
      cases E.Fq.fromRepr (beToNat (List.take 48 (List.drop 144 copy))) with
      | none => rfl
      | some yc0 =>
        simp only []
        cases E.Fq.fromRepr (beToNat (List.take 48 (List.drop 96 copy))) with
        | none => rfl
        | some yc1 => rfl

theorem G2Compressed_intoAffineUnchecked_eq (bs : Bytes) (h : bs.length = 96) :
    E.G2Compressed.intoAffineUnchecked bs = some (decodeCompressedUnchecked g2Codec bs) := by
  obtain ⟨b0, r, rfl, hr⟩ := cons_of_length bs h
  unfold E.G2Compressed.intoAffineUnchecked decodeCompressedUnchecked
  lowerInst2
  have hsz : g2Codec.size = 96 := rfl
  rw [if_neg (show ¬ ((b0 :: r).length ≠ g2Codec.size) by rw [h, hsz]; decide)]
  simp only []
  rw [show (b0 :: r).getD 0 0 = b0 from rfl, show (b0 :: r).headD 0 = b0 from rfl]
  simp only [List.set_cons_zero, maskFirst_cons, shl7, shl6, shl5, hsz, all_decide]
  by_cases h7 : b0 &&& 0x80 = 0
  · rw [if_pos h7, if_pos h7]
  rw [if_neg h7, if_neg h7]
  by_cases h6 : b0 &&& 0x40 ≠ 0
  · rw [if_pos h6, if_pos h6]
    exact (apply_ite some _ _ _).symm
  rw [if_neg h6, if_neg h6]
  generalize hc : (b0 &&& 0x1f) :: r = copy
  have hl : copy.length = 96 := by rw [← hc]; simpa using hr
  rw [reprReadBe_ok 48 _ (by rw [hl]; decide)]
  simp only []
  rw [reprReadBe_ok 48 _ (by rw [List.length_drop, hl]; decide)]
  simp only [g2Codec_read, G2Affine_getCoeffB_eq, Aff_getPointFromX_eq]
  cases E.Fq.fromRepr (beToNat (List.take 48 (List.drop 48 copy))) with
  | none => rfl
  | some xc0 =>
    simp only []
    cases E.Fq.fromRepr (beToNat (List.take 48 copy)) with
    | none => rfl
    | some xc1 =>
      simp only []
      cases PP.Aff.getPointFromX g2Codec.b ⟨xc0, xc1⟩ (decide (b0 &&& 32 ≠ 0)) <;> rfl

theorem G2Uncompressed_intoAffine_eq (bs : Bytes) (h : bs.length = 192) :
    E.G2Uncompressed.intoAffine bs = some (decodeUncompressed g2Codec bs) := by
  unfold E.G2Uncompressed.intoAffine decodeUncompressed
  lowerInst2
  rw [G2Uncompressed_intoAffineUnchecked_eq bs h]
  simp only [G2Affine_getCoeffB_eq, Aff_isOnCurve_eq, G2Affine_inSubgroup_eq]
  cases decodeUncompressedUnchecked g2Codec bs with
  | error e => rfl
  | ok a =>
    simp only []
    generalize PP.Aff.isOnCurve g2Codec.b a = c1
    generalize PP.Aff.inSubgroup g2Codec.b a = c2
    cases c1 <;> cases c2 <;> rfl

theorem G2Compressed_intoAffine_eq (bs : Bytes) (h : bs.length = 96) :
    E.G2Compressed.intoAffine bs = some (decodeCompressed g2Codec bs) := by
  unfold E.G2Compressed.intoAffine decodeCompressed
  rw [G2Compressed_intoAffineUnchecked_eq bs h]
  simp only [G2Affine_getCoeffB_eq, G2Affine_inSubgroup_eq]
  cases decodeCompressedUnchecked g2Codec bs with
  | error e => rfl
  | ok a =>
    simp only []
    generalize PP.Aff.inSubgroup g2Codec.b a = c2
    cases c2 <;> rfl

theorem G2Uncompressed_fromAffine_eq (a : Aff Fq2) :
    E.G2Uncompressed.fromAffine a = some (encodeUncompressed g2Codec a) := by
  unfold E.G2Uncompressed.fromAffine encodeUncompressed E.G2Uncompressed.empty
  rw [Aff_isZero_eq]
  simp only [set0_or, shl6]
  cases a.infinity with
  | true => rfl
  | false =>
    simp only [Bool.false_eq_true, if_false]
    unfold E.SliceWriter.new
    rw [sliceWrite_ok _ _ _ (by rw [beBytes_length, List.length_replicate]; decide)]
    simp only []
    rw [sliceWrite_ok _ _ _ (by simp only [beBytes_length, List.length_drop, List.length_replicate]; decide)]
    simp only []
    rw [sliceWrite_ok _ _ _ (by simp only [beBytes_length, List.length_drop, List.length_replicate]; decide)]
    simp only []
    rw [sliceWrite_ok _ _ _ (by simp only [beBytes_length, List.length_drop, List.length_replicate]; decide)]
    simp only [E.SliceWriter.finish, beBytes_length, List.drop_drop, List.drop_replicate, List.nil_append,
      List.append_assoc]
    rw [show g2Codec.write a.x = beBytes 48 a.x.c1.v ++ beBytes 48 a.x.c0.v from rfl,
      show g2Codec.write a.y = beBytes 48 a.y.c1.v ++ beBytes 48 a.y.c0.v from rfl]
    simp only [List.append_assoc]
    rfl

theorem lt_fq2 (a b : Fq2) : SqrtOps.lt a b = PP.Fq2.lt a b := rfl

theorem Fq2_cmp_gt_iff (a b : Fq2) : A.Fq2.cmp a b = Ordering.gt ↔ A.Fq2.cmp b a = Ordering.lt := by
  unfold A.Fq2.cmp
  rcases Nat.lt_trichotomy a.c1.v b.c1.v with h | h | h
  · rw [Nat.compare_eq_lt.mpr h, Nat.compare_eq_gt.mpr h]; simp
  · rw [Nat.compare_eq_eq.mpr h, Nat.compare_eq_eq.mpr h.symm]
    simp only []
    rw [Nat.compare_eq_gt, Nat.compare_eq_lt]
  · rw [Nat.compare_eq_gt.mpr h, Nat.compare_eq_lt.mpr h]; simp

theorem G2Compressed_fromAffine_eq (a : Aff Fq2) :
    E.G2Compressed.fromAffine a = some (encodeCompressed g2Codec a) := by
  unfold E.G2Compressed.fromAffine encodeCompressed E.G2Compressed.empty
  rw [Aff_isZero_eq]
  simp only [set0_or, shl5, shl6, shl7]
  cases a.infinity with
  | true => rfl
  | false =>
    simp only [Bool.false_eq_true, if_false]
    unfold E.SliceWriter.new
    rw [sliceWrite_ok _ _ _ (by rw [beBytes_length, List.length_replicate]; decide)]
    simp only []
    rw [sliceWrite_ok _ _ _ (by simp only [beBytes_length, List.length_drop, List.length_replicate]; decide)]
    simp only [E.SliceWriter.finish, beBytes_length, List.drop_drop, List.drop_replicate, List.nil_append]
    rw [Fq2_neg_eq, show (-a.y : Fq2) = PP.Fq2.neg a.y from rfl]
    generalize PP.Fq2.neg a.y = negy
    rw [lt_fq2, Fq2_cmp_lt,
      show g2Codec.write a.x = beBytes 48 a.x.c1.v ++ beBytes 48 a.x.c0.v from rfl,
      show beBytes 48 a.x.c1.v ++ beBytes 48 a.x.c0.v ++ List.replicate (96 - (48 + 48)) (0 : UInt8)
        = beBytes 48 a.x.c1.v ++ beBytes 48 a.x.c0.v from List.append_nil _]
    by_cases hlt : A.Fq2.cmp negy a.y = Ordering.lt
    · rw [if_pos ((Fq2_cmp_gt_iff _ _).mpr hlt), if_pos (decide_eq_true hlt)]
    · rw [if_neg (fun hc => hlt ((Fq2_cmp_gt_iff _ _).mp hc)), if_neg (fun hc => hlt (of_decide_eq_true hc))]

/-! ## src/serdes.rs -/

theorem Fr_serialize_eq (a : Fr) (w : Bytes) (c : Bool) : E.Fr.serialize a w c = .ok (w ++ serFr a) := rfl

theorem Fr_deserialize_eq (rd : Bytes) (c : Bool) : E.Fr.deserialize rd c = deserFr rd := by
  unfold E.Fr.deserialize deserFr E.reprReadBe
  cases readExact 32 rd with
  | error e => rfl
  | ok p =>
    obtain ⟨bs, rest⟩ := p
    simp only []
    rw [show E.Fr.fromRepr (beToNat bs) = Fr.fromBytes bs from rfl]
    cases Fr.fromBytes bs <;> rfl

theorem Fq12_serialize_eq (a : Fq12) (w : Bytes) (c : Bool) :
    E.Fq12.serialize a w c = .ok (w ++ serFq12 a) := by
  unfold E.Fq12.serialize serFq12 Fq12.coeffs
  simp only [E.vecWrite, Fq.toBytes, List.map_cons, List.map_nil, List.flatten_cons, List.flatten_nil,
    List.append_assoc, List.nil_append, List.append_nil]

set_option hygiene false in
/-- one `q.read_be(&mut reader)?; let c = match Fq::from_repr(q) {..}` of `Fq12::deserialize` against one
    unfolding of the model's `readFqs` -/
local macro "fq12_step" rd:term : tactic => `(tactic| (
  rcases readExact 48 $rd with _ | ⟨bs, rest⟩
  · rfl
  simp only []
  rw [show E.Fq.fromRepr (beToNat bs) = Fq.fromBytes bs from rfl]
  rcases Fq.fromBytes bs with _ | a
  · rfl
  simp only []))

theorem Fq12_deserialize_eq (rd : Bytes) (c : Bool) : E.Fq12.deserialize rd c = deserFq12 rd := by
  unfold E.Fq12.deserialize deserFq12
  simp only [readFqs, E.reprReadBe]
  fq12_step rd
  fq12_step rest; fq12_step rest; fq12_step rest; fq12_step rest; fq12_step rest; fq12_step rest
  fq12_step rest; fq12_step rest; fq12_step rest; fq12_step rest; fq12_step rest

theorem G1Affine_serialize_eq (a : Aff Fq) (w : Bytes) (c : Bool) :
    E.G1Affine.serialize a w c = .ok (w ++ serAffine g1Codec a c) := by
  unfold E.G1Affine.serialize serAffine
  rw [G1Compressed_fromAffine_eq, G1Uncompressed_fromAffine_eq]
  cases c <;> rfl

theorem G2Affine_serialize_eq (a : Aff Fq2) (w : Bytes) (c : Bool) :
    E.G2Affine.serialize a w c = .ok (w ++ serAffine g2Codec a c) := by
  unfold E.G2Affine.serialize serAffine
  rw [G2Compressed_fromAffine_eq, G2Uncompressed_fromAffine_eq]
  cases c <;> rfl

theorem G1_serialize_eq (p : Jac Fq) (w : Bytes) (c : Bool) :
    E.G1.serialize p w c = match serJac g1Codec p c with
      | none => .error SerErr.panic
      | some bs => .ok (w ++ bs) := by
  unfold E.G1.serialize serJac serAffine
  rw [Jac_toAffine_eq]
  cases PP.Jac.toAffine p with
  | none => rfl
  | some t =>
    simp only [Option.map_some]
    rw [G1Compressed_fromAffine_eq, G1Uncompressed_fromAffine_eq]
    cases c <;> rfl

theorem G2_serialize_eq (p : Jac Fq2) (w : Bytes) (c : Bool) :
    E.G2.serialize p w c = match serJac g2Codec p c with
      | none => .error SerErr.panic
      | some bs => .ok (w ++ bs) := by
  unfold E.G2.serialize serJac serAffine
  lowerInst2
  rw [Jac_toAffine_eq]
  cases PP.Jac.toAffine p with
  | none => rfl
  | some t =>
    simp only [Option.map_some]
    rw [G2Compressed_fromAffine_eq, G2Uncompressed_fromAffine_eq]
    cases c <;> rfl

theorem take_cons_of_le {n : Nat} (rd : Bytes) (h : n + 1 ≤ rd.length) :
    ∃ b r, rd.take (n + 1) = b :: r ∧ r.length = n := by
  apply cons_of_length
  rw [List.length_take]
  exact Nat.min_eq_left h

theorem G1Affine_deserialize_eq (rd : Bytes) (c : Bool) :
    E.G1Affine.deserialize rd c = deserAffine g1Codec rd c := by
  unfold E.G1Affine.deserialize deserAffine
  simp only [E.G1Compressed.size, E.G1Uncompressed.size, E.G1Compressed.empty, E.G1Uncompressed.empty,
    List.length_replicate, show g1Codec.size = 48 from rfl]
  by_cases hlen : rd.length < 48
  · unfold readExact; rw [if_pos hlen]
  rw [readExact_ok 48 rd (Nat.le_of_not_lt hlen)]
  simp only []
  obtain ⟨b, r, hb, hr⟩ := take_cons_of_le (n := 47) rd (Nat.le_of_not_lt hlen)
  rw [hb]
  generalize rd.drop 48 = rest
  rw [show (b :: r)[0]? = some b from rfl, show (b :: r).headD 0 = b from rfl]
  simp only []
  rw [show ((b &&& 0x80) == 0x80) = decide (b &&& 0x80 = 0x80) from rfl]
  have hbl : (b :: r).length = 48 := by rw [List.length_cons, hr]
  by_cases hc : (decide (b &&& 0x80 = 0x80) != c) = true
  · rw [if_pos hc, if_pos hc]
  rw [if_neg hc, if_neg hc]
  cases c with
  | true =>
    simp only [if_true]
    rw [if_neg (show ¬ (48 ≠ (b :: r).length) by rw [hbl]; decide), G1Compressed_intoAffine_eq _ hbl]
    simp only []
    cases decodeCompressed g1Codec (b :: r) <;> rfl
  | false =>
    simp only [Bool.false_eq_true, if_false]
    rw [if_neg (show ¬ (96 < 48) by decide)]
    simp only [show 96 - 48 = 48 from rfl]
    by_cases hlen2 : rest.length < 48
    · unfold readExact; rw [if_pos hlen2]
    rw [readExact_ok 48 rest (Nat.le_of_not_lt hlen2)]
    simp only []
    have hl2 : ((b :: r) ++ rest.take 48).length = 96 := by
      rw [List.length_append, hbl, List.length_take, Nat.min_eq_left (Nat.le_of_not_lt hlen2)]
    rw [if_neg (show ¬ (96 ≠ ((b :: r) ++ rest.take 48).length) by rw [hl2]; decide),
      G1Uncompressed_intoAffine_eq _ hl2]
    simp only []
    cases decodeUncompressed g1Codec ((b :: r) ++ rest.take 48) <;> rfl

theorem G2Affine_deserialize_eq (rd : Bytes) (c : Bool) :
    E.G2Affine.deserialize rd c = deserAffine g2Codec rd c := by
  unfold E.G2Affine.deserialize deserAffine
  simp only [E.G2Compressed.size, E.G2Uncompressed.size, E.G2Compressed.empty, E.G2Uncompressed.empty,
    List.length_replicate, show g2Codec.size = 96 from rfl]
  by_cases hlen : rd.length < 96
  · unfold readExact; rw [if_pos hlen]
  rw [readExact_ok 96 rd (Nat.le_of_not_lt hlen)]
  simp only []
  obtain ⟨b, r, hb, hr⟩ := take_cons_of_le (n := 95) rd (Nat.le_of_not_lt hlen)
  rw [hb]
  generalize rd.drop 96 = rest
  rw [show (b :: r)[0]? = some b from rfl, show (b :: r).headD 0 = b from rfl]
  simp only []
  rw [show ((b &&& 0x80) == 0x80) = decide (b &&& 0x80 = 0x80) from rfl]
  have hbl : (b :: r).length = 96 := by rw [List.length_cons, hr]
  by_cases hc : (decide (b &&& 0x80 = 0x80) != c) = true
  · rw [if_pos hc, if_pos hc]
  rw [if_neg hc, if_neg hc]
  cases c with
  | true =>
    simp only [if_true]
    rw [if_neg (show ¬ (96 ≠ (b :: r).length) by rw [hbl]; decide), G2Compressed_intoAffine_eq _ hbl]
    simp only []
    cases decodeCompressed g2Codec (b :: r) <;> rfl
  | false =>
    simp only [Bool.false_eq_true, if_false]
    rw [if_neg (show ¬ (192 < 96) by decide)]
    simp only [show 192 - 96 = 96 from rfl]
    by_cases hlen2 : rest.length < 96
    · unfold readExact; rw [if_pos hlen2]
    rw [readExact_ok 96 rest (Nat.le_of_not_lt hlen2)]
    simp only []
    have hl2 : ((b :: r) ++ rest.take 96).length = 192 := by
      rw [List.length_append, hbl, List.length_take, Nat.min_eq_left (Nat.le_of_not_lt hlen2)]
    rw [if_neg (show ¬ (192 ≠ ((b :: r) ++ rest.take 96).length) by rw [hl2]; decide),
      G2Uncompressed_intoAffine_eq _ hl2]
    simp only []
    cases decodeUncompressed g2Codec ((b :: r) ++ rest.take 96) <;> rfl

theorem G1_deserialize_eq (rd : Bytes) (c : Bool) :
    E.G1.deserialize rd c = deserJac g1Codec rd c := by
  unfold E.G1.deserialize deserJac deserAffine
  simp only [Aff_toJac_eq]
  simp only [E.G1Compressed.size, E.G1Uncompressed.size, E.G1Compressed.empty, E.G1Uncompressed.empty,
    List.length_replicate, show g1Codec.size = 48 from rfl]
  by_cases hlen : rd.length < 48
  · unfold readExact; rw [if_pos hlen]
  rw [readExact_ok 48 rd (Nat.le_of_not_lt hlen)]
  simp only []
  obtain ⟨b, r, hb, hr⟩ := take_cons_of_le (n := 47) rd (Nat.le_of_not_lt hlen)
  rw [hb]
  generalize rd.drop 48 = rest
  rw [show (b :: r)[0]? = some b from rfl, show (b :: r).headD 0 = b from rfl]
  simp only []
  rw [show ((b &&& 0x80) == 0x80) = decide (b &&& 0x80 = 0x80) from rfl]
  have hbl : (b :: r).length = 48 := by rw [List.length_cons, hr]
  by_cases hc : (decide (b &&& 0x80 = 0x80) != c) = true
  · rw [if_pos hc, if_pos hc]
  rw [if_neg hc, if_neg hc]
  cases c with
  | true =>
    simp only [if_true]
    rw [if_neg (show ¬ (48 ≠ (b :: r).length) by rw [hbl]; decide), G1Compressed_intoAffine_eq _ hbl]
    simp only []
    cases decodeCompressed g1Codec (b :: r) <;> rfl
  | false =>
    simp only [Bool.false_eq_true, if_false]
    rw [if_neg (show ¬ (96 < 48) by decide)]
    simp only [show 96 - 48 = 48 from rfl]
    by_cases hlen2 : rest.length < 48
    · unfold readExact; rw [if_pos hlen2]
    rw [readExact_ok 48 rest (Nat.le_of_not_lt hlen2)]
    simp only []
    have hl2 : ((b :: r) ++ rest.take 48).length = 96 := by
      rw [List.length_append, hbl, List.length_take, Nat.min_eq_left (Nat.le_of_not_lt hlen2)]
    rw [if_neg (show ¬ (96 ≠ ((b :: r) ++ rest.take 48).length) by rw [hl2]; decide),
      G1Uncompressed_intoAffine_eq _ hl2]
    simp only []
    cases decodeUncompressed g1Codec ((b :: r) ++ rest.take 48) <;> rfl

theorem G2_deserialize_eq (rd : Bytes) (c : Bool) :
    E.G2.deserialize rd c = deserJac g2Codec rd c := by
  unfold E.G2.deserialize deserJac deserAffine
  lowerInst2
  simp only [Aff_toJac_eq]
  simp only [E.G2Compressed.size, E.G2Uncompressed.size, E.G2Compressed.empty, E.G2Uncompressed.empty,
    List.length_replicate, show g2Codec.size = 96 from rfl]
  by_cases hlen : rd.length < 96
  · unfold readExact; rw [if_pos hlen]
  rw [readExact_ok 96 rd (Nat.le_of_not_lt hlen)]
  simp only []
  obtain ⟨b, r, hb, hr⟩ := take_cons_of_le (n := 95) rd (Nat.le_of_not_lt hlen)
  rw [hb]
  generalize rd.drop 96 = rest
  rw [show (b :: r)[0]? = some b from rfl, show (b :: r).headD 0 = b from rfl]
  simp only []
  rw [show ((b &&& 0x80) == 0x80) = decide (b &&& 0x80 = 0x80) from rfl]
  have hbl : (b :: r).length = 96 := by rw [List.length_cons, hr]
  by_cases hc : (decide (b &&& 0x80 = 0x80) != c) = true
  · rw [if_pos hc, if_pos hc]
  rw [if_neg hc, if_neg hc]
  cases c with
  | true =>
    simp only [if_true]
    rw [if_neg (show ¬ (96 ≠ (b :: r).length) by rw [hbl]; decide), G2Compressed_intoAffine_eq _ hbl]
    simp only []
    cases decodeCompressed g2Codec (b :: r) <;> rfl
  | false =>
    simp only [Bool.false_eq_true, if_false]
    rw [if_neg (show ¬ (192 < 96) by decide)]
    simp only [show 192 - 96 = 96 from rfl]
    by_cases hlen2 : rest.length < 96
    · unfold readExact; rw [if_pos hlen2]
    rw [readExact_ok 96 rest (Nat.le_of_not_lt hlen2)]
    simp only []
    have hl2 : ((b :: r) ++ rest.take 96).length = 192 := by
      rw [List.length_append, hbl, List.length_take, Nat.min_eq_left (Nat.le_of_not_lt hlen2)]
    rw [if_neg (show ¬ (192 ≠ ((b :: r) ++ rest.take 96).length) by rw [hl2]; decide),
      G2Uncompressed_intoAffine_eq _ hl2]
    simp only []
    cases decodeUncompressed g2Codec ((b :: r) ++ rest.take 96) <;> rfl


/-! ## constants of the encodings -/

theorem G1Uncompressed_size_eq : E.G1Uncompressed.size = 2 * g1Codec.size := rfl
theorem G1Compressed_size_eq : E.G1Compressed.size = g1Codec.size := rfl
theorem G2Uncompressed_size_eq : E.G2Uncompressed.size = 2 * g2Codec.size := rfl
theorem G2Compressed_size_eq : E.G2Compressed.size = g2Codec.size := rfl
theorem G1Uncompressed_empty_eq : E.G1Uncompressed.empty = List.replicate (2 * g1Codec.size) 0 := rfl
theorem G1Compressed_empty_eq : E.G1Compressed.empty = List.replicate g1Codec.size 0 := rfl
theorem G2Uncompressed_empty_eq : E.G2Uncompressed.empty = List.replicate (2 * g2Codec.size) 0 := rfl
theorem G2Compressed_empty_eq : E.G2Compressed.empty = List.replicate g2Codec.size 0 := rfl

end PP.GenEncLemmas
