/-
C08, Montgomery level, part 2: `inverse` (binary extended Euclid with fuel).
Soundness AND fuel adequacy: for a reduced nonzero `a` coprime to `p` (in particular for prime `p`)
the loop terminates within the model's fuel and returns the Montgomery form of the inverse.
-/
import Mathlib.Data.Nat.Prime.Basic
import PP.Proofs.Mont

namespace PP.Mont

section inverse
variable {P : Params}

/-- `2` is invertible modulo the odd `p` -/
theorem Params.WF.isUnit_two (h : P.WF) : IsUnit (2 : ZMod P.p) := by
  have h2 : 2 * ((P.p + 1) / 2) = P.p + 1 := by have := h.p_odd; omega
  have : (2 : ZMod P.p) * (((P.p + 1) / 2 : ℕ) : ZMod P.p) = 1 := by
    have h3 := congrArg (fun n : ℕ => (n : ZMod P.p)) h2
    simp only [Nat.cast_mul, Nat.cast_add, Nat.cast_one, ZMod.natCast_self, zero_add] at h3
    exact_mod_cast h3
  exact IsUnit.of_mul_eq_one _ this

theorem halveMod_spec (h : P.WF) {b : ℕ} (hb : b < P.p) :
    halveMod P b < P.p ∧ 2 * (halveMod P b : ZMod P.p) = b := by
  have hW := h.p_lt
  have hodd := h.p_odd
  unfold halveMod
  split
  · next he =>
    refine ⟨by omega, ?_⟩
    have : 2 * (b / 2) = b := by omega
    exact_mod_cast congrArg (fun n : ℕ => (n : ZMod P.p)) this
  · next ho =>
    rw [Nat.mod_eq_of_lt (by omega : b + P.p < P.W)]
    refine ⟨by omega, ?_⟩
    have : 2 * ((b + P.p) / 2) = b + P.p := by omega
    have h3 := congrArg (fun n : ℕ => (n : ZMod P.p)) this
    simp only [Nat.cast_mul, Nat.cast_add, ZMod.natCast_self, add_zero] at h3
    exact_mod_cast h3

/-- stripping the factors of two from `u` while halving `b` modulo `p` keeps `b·a₀ = u·R2` -/
theorem stripEven_spec (h : P.WF) (a0 : ℕ) : ∀ (fuel u b : ℕ), b < P.p → 0 < u → u < 2 ^ fuel →
    (b : ZMod P.p) * a0 = (u : ZMod P.p) * P.R2 →
    (stripEven P fuel (u, b)).1 % 2 = 1 ∧ (stripEven P fuel (u, b)).1 ≤ u ∧
      (u % 2 = 0 → 2 * (stripEven P fuel (u, b)).1 ≤ u) ∧ (stripEven P fuel (u, b)).1 ∣ u ∧
      (u % 2 = 1 → (stripEven P fuel (u, b)).1 = u) ∧
      (stripEven P fuel (u, b)).2 < P.p ∧
      ((stripEven P fuel (u, b)).2 : ZMod P.p) * a0
        = ((stripEven P fuel (u, b)).1 : ZMod P.p) * P.R2 := by
  intro fuel
  induction fuel with
  | zero => intro u b _ hu hlt; simp at hlt; omega
  | succ fuel ih =>
    intro u b hb hu hlt hinv
    by_cases he : u % 2 = 0
    · have hstep : stripEven P (fuel + 1) (u, b) = stripEven P fuel (u / 2, halveMod P b) := by
        simp [stripEven, he]
      rw [hstep]
      obtain ⟨hh1, hh2⟩ := halveMod_spec h hb
      have hu2 : 2 * (u / 2) = u := by omega
      have hinv' : (halveMod P b : ZMod P.p) * a0 = ((u / 2 : ℕ) : ZMod P.p) * P.R2 := by
        apply h.isUnit_two.mul_left_cancel
        have hu2c : (2 : ZMod P.p) * ((u / 2 : ℕ) : ZMod P.p) = u := by
          exact_mod_cast congrArg (fun n : ℕ => (n : ZMod P.p)) hu2
        calc (2 : ZMod P.p) * ((halveMod P b : ZMod P.p) * a0)
            = (2 * (halveMod P b : ZMod P.p)) * a0 := by ring
          _ = (u : ZMod P.p) * P.R2 := by rw [hh2, hinv]
          _ = 2 * (((u / 2 : ℕ) : ZMod P.p) * P.R2) := by rw [← hu2c]; ring
      have hlt' : u / 2 < 2 ^ fuel := by rw [pow_succ] at hlt; omega
      obtain ⟨i1, i2, _, i4, _, i6, i7⟩ := ih (u / 2) (halveMod P b) hh1 (by omega) hlt' hinv'
      refine ⟨i1, by omega, fun _ => by omega, ?_, fun ho => by omega, i6, i7⟩
      exact dvd_trans i4 ⟨2, by omega⟩
    · have hstep : stripEven P (fuel + 1) (u, b) = (u, b) := by
        simp [stripEven, he]
      rw [hstep]
      exact ⟨by omega, le_refl _, fun h0 => absurd h0 he, dvd_refl _, fun _ => rfl, hb, hinv⟩

/-- loop invariant of `inverse` -/
structure InvInv (P : Params) (a0 u v b c : ℕ) : Prop where
  cop : Nat.Coprime u v
  u_le : u ≤ P.p
  v_le : v ≤ P.p
  b_lt : b < P.p
  c_lt : c < P.p
  hb : (b : ZMod P.p) * a0 = (u : ZMod P.p) * P.R2
  hc : (c : ZMod P.p) * a0 = (v : ZMod P.p) * P.R2

/-- what a successful run returns -/
def InvGood (P : Params) (a0 r : ℕ) : Prop := r < P.p ∧ (r : ZMod P.p) * a0 = P.R2

theorem invLoop_step (P : Params) (f u v b c : ℕ) (hu : u ≠ 1) (hv : v ≠ 1) :
    invLoop P (f + 1) u v b c =
      if (stripEven P (64 * P.limbs) (v, c)).1 < (stripEven P (64 * P.limbs) (u, b)).1 then
        invLoop P f ((stripEven P (64 * P.limbs) (u, b)).1 - (stripEven P (64 * P.limbs) (v, c)).1)
          (stripEven P (64 * P.limbs) (v, c)).1
          (sub P (stripEven P (64 * P.limbs) (u, b)).2 (stripEven P (64 * P.limbs) (v, c)).2)
          (stripEven P (64 * P.limbs) (v, c)).2
      else
        invLoop P f (stripEven P (64 * P.limbs) (u, b)).1
          ((stripEven P (64 * P.limbs) (v, c)).1 - (stripEven P (64 * P.limbs) (u, b)).1)
          (stripEven P (64 * P.limbs) (u, b)).2
          (sub P (stripEven P (64 * P.limbs) (v, c)).2 (stripEven P (64 * P.limbs) (u, b)).2) := by
  simp only [invLoop, hu, hv, if_false]

/-- one iteration of the loop body: the invariant is kept, the new pair has an even component,
    the product `u·v` does not grow, halves when one of `u`, `v` was even, and strictly decreases
    otherwise -/
theorem invLoop_body (h : P.WF) {a0 u v b c : ℕ} (I : InvInv P a0 u v b c) (hu : u ≠ 1)
    (hv : v ≠ 1) (f : ℕ) :
    ∃ u' v' b' c', invLoop P (f + 1) u v b c = invLoop P f u' v' b' c' ∧ InvInv P a0 u' v' b' c' ∧
      (u' % 2 = 0 ∨ v' % 2 = 0) ∧ u' * v' < u * v ∧
      ((u % 2 = 0 ∨ v % 2 = 0) → 2 * (u' * v') ≤ u * v) := by
  have hW : P.W = 2 ^ (64 * P.limbs) := rfl
  have hpW := h.p_lt_W
  have hu0 : 0 < u := by
    rcases Nat.eq_zero_or_pos u with h0 | h0
    · have := I.cop; rw [h0, Nat.coprime_zero_left] at this; exact absurd this hv
    · exact h0
  have hv0 : 0 < v := by
    rcases Nat.eq_zero_or_pos v with h0 | h0
    · have := I.cop; rw [h0, Nat.coprime_zero_right] at this; exact absurd this hu
    · exact h0
  obtain ⟨s1, s2, s3, s4, s5, s6, s7⟩ := stripEven_spec h a0 (64 * P.limbs) u b I.b_lt hu0
    (by rw [← hW]; have := I.u_le; omega) I.hb
  obtain ⟨t1, t2, t3, t4, t5, t6, t7⟩ := stripEven_spec h a0 (64 * P.limbs) v c I.c_lt hv0
    (by rw [← hW]; have := I.v_le; omega) I.hc
  rw [invLoop_step P f u v b c hu hv]
  set u1 := (stripEven P (64 * P.limbs) (u, b)).1
  set b1 := (stripEven P (64 * P.limbs) (u, b)).2
  set v1 := (stripEven P (64 * P.limbs) (v, c)).1
  set c1 := (stripEven P (64 * P.limbs) (v, c)).2
  have hcop1 : Nat.Coprime u1 v1 :=
    Nat.Coprime.coprime_dvd_left s4 (Nat.Coprime.coprime_dvd_right t4 I.cop)
  have hu1 : 0 < u1 := by omega
  have hv1 : 0 < v1 := by omega
  have hprod : u1 * v1 ≤ u * v := Nat.mul_le_mul s2 t2
  have hprod2 : (u % 2 = 0 ∨ v % 2 = 0) → 2 * (u1 * v1) ≤ u * v := by
    rintro (he | he)
    · calc 2 * (u1 * v1) = (2 * u1) * v1 := by ring
        _ ≤ u * v := Nat.mul_le_mul (s3 he) t2
    · calc 2 * (u1 * v1) = u1 * (2 * v1) := by ring
        _ ≤ u * v := Nat.mul_le_mul s2 (t3 he)
  by_cases hlt : v1 < u1
  · simp only [hlt, if_true]
    refine ⟨u1 - v1, v1, sub P b1 c1, c1, rfl, ?_, Or.inl (by omega), ?_, ?_⟩
    · refine ⟨(Nat.coprime_sub_self_left hlt.le).mpr hcop1, by have := I.u_le; omega,
        by have := I.v_le; omega, (sub_spec h s6 t6).1, t6, ?_, t7⟩
      rw [sub_cast h s6 t6, Nat.cast_sub hlt.le, sub_mul, sub_mul, s7, t7]
    · have : (u1 - v1) * v1 < u1 * v1 := Nat.mul_lt_mul_of_pos_right (by omega) hv1
      omega
    · intro he
      have : (u1 - v1) * v1 ≤ u1 * v1 := Nat.mul_le_mul_right _ (by omega)
      have := hprod2 he
      omega
  · simp only [hlt, if_false]
    have hle : u1 ≤ v1 := by omega
    refine ⟨u1, v1 - u1, b1, sub P c1 b1, rfl, ?_, Or.inr (by omega), ?_, ?_⟩
    · refine ⟨(Nat.coprime_sub_self_right hle).mpr hcop1, by have := I.u_le; omega,
        by have := I.v_le; omega, s6, (sub_spec h t6 s6).1, s7, ?_⟩
      rw [sub_cast h t6 s6, Nat.cast_sub hle, sub_mul, sub_mul, s7, t7]
    · have : u1 * (v1 - u1) < u1 * v1 := Nat.mul_lt_mul_of_pos_left (by omega) hu1
      omega
    · intro he
      have : u1 * (v1 - u1) ≤ u1 * v1 := Nat.mul_le_mul_left _ (by omega)
      have := hprod2 he
      omega

theorem invLoop_exit (P : Params) {a0 u v b c : ℕ} (I : InvInv P a0 u v b c) (f : ℕ)
    (huv : u = 1 ∨ v = 1) : ∃ r, invLoop P (f + 1) u v b c = some r ∧ InvGood P a0 r := by
  by_cases hu : u = 1
  · refine ⟨b, by simp [invLoop, hu], I.b_lt, ?_⟩
    have := I.hb; rw [hu] at this; simpa using this
  · have hv : v = 1 := by tauto
    refine ⟨c, by simp [invLoop, hu, hv], I.c_lt, ?_⟩
    have := I.hc; rw [hv] at this; simpa using this

/-- termination when one of `u`, `v` is even: `u·v ≤ 2^(f+1)` is enough for fuel `f+1` -/
theorem invLoop_even (h : P.WF) (a0 : ℕ) : ∀ (f u v b c : ℕ), InvInv P a0 u v b c →
    (u % 2 = 0 ∨ v % 2 = 0) → u * v ≤ 2 ^ (f + 1) →
    ∃ r, invLoop P (f + 1) u v b c = some r ∧ InvGood P a0 r := by
  intro f
  induction f with
  | zero =>
    intro u v b c I _ hprod
    by_cases huv : u = 1 ∨ v = 1
    · exact invLoop_exit P I 0 huv
    · exfalso
      push Not at huv
      have hu0 : u ≠ 0 := by
        rintro rfl; have := I.cop; rw [Nat.coprime_zero_left] at this; exact huv.2 this
      have hv0 : v ≠ 0 := by
        rintro rfl; have := I.cop; rw [Nat.coprime_zero_right] at this; exact huv.1 this
      have : 2 * 2 ≤ u * v := Nat.mul_le_mul (by omega) (by omega)
      simp at hprod; omega
  | succ f ih =>
    intro u v b c I hev hprod
    by_cases huv : u = 1 ∨ v = 1
    · exact invLoop_exit P I _ huv
    · push Not at huv
      obtain ⟨u', v', b', c', e1, I', hev', _, hhalf⟩ := invLoop_body h I huv.1 huv.2 (f + 1)
      rw [e1]
      apply ih u' v' b' c' I' hev'
      have := hhalf hev
      rw [pow_succ] at hprod
      omega

/-- termination in general: one extra iteration for the case that both `u`, `v` start odd -/
theorem invLoop_any (h : P.WF) (a0 : ℕ) (f u v b c : ℕ) (I : InvInv P a0 u v b c)
    (hprod : u * v ≤ 2 ^ (f + 1)) :
    ∃ r, invLoop P (f + 2) u v b c = some r ∧ InvGood P a0 r := by
  by_cases huv : u = 1 ∨ v = 1
  · exact invLoop_exit P I _ huv
  · push Not at huv
    by_cases hev : u % 2 = 0 ∨ v % 2 = 0
    · apply invLoop_even h a0 (f + 1) u v b c I hev
      rw [pow_succ]; omega
    · obtain ⟨u', v', b', c', e1, I', hev', hlt, _⟩ := invLoop_body h I huv.1 huv.2 (f + 1)
      rw [e1]
      exact invLoop_even h a0 f u' v' b' c' I' hev' (by omega)

theorem inverse_eq_some_none_iff (P : Params) (a : ℕ) : inverse P a = some none ↔ a = 0 := by
  unfold inverse
  split
  · next h0 => simp [h0]
  · next h0 =>
    simp only [h0, iff_false]
    cases invLoop P (2 * 64 * P.limbs + 2) a P.p P.R2 0 <;> simp

/-- `inverse` for a reduced nonzero `a` coprime to `p`: the fuel suffices and the result is the
    Montgomery form of the modular inverse -/
theorem inverse_spec_coprime (h : P.WF) {a : ℕ} (ha : a < P.p) (ha0 : a ≠ 0)
    (hcop : Nat.Coprime a P.p) :
    ∃ b, inverse P a = some (some b) ∧ b < P.p ∧ dec P a * dec P b % P.p = 1 := by
  have I : InvInv P a a P.p P.R2 0 :=
    ⟨hcop, ha.le, le_refl _, h.R2_lt, h.p_pos, by ring, by simp⟩
  have hprod : a * P.p ≤ 2 ^ (2 * 64 * P.limbs + 1) := by
    have hpW := h.p_lt_W
    have hW : P.W = 2 ^ (64 * P.limbs) := rfl
    calc a * P.p ≤ P.W * P.W := Nat.mul_le_mul (by omega) (by omega)
      _ = 2 ^ (2 * 64 * P.limbs) := by rw [hW, ← pow_add]; ring_nf
      _ ≤ 2 ^ (2 * 64 * P.limbs + 1) := Nat.pow_le_pow_right (by norm_num) (by omega)
  obtain ⟨r, hr1, hr2, hr3⟩ := invLoop_any h a (2 * 64 * P.limbs) a P.p P.R2 0 I hprod
  refine ⟨r, by simp [inverse, ha0, hr1], hr2, ?_⟩
  have hc : ((dec P a * dec P r % P.p : ℕ) : ZMod P.p) = ((1 : ℕ) : ZMod P.p) := by
    rw [ZMod.natCast_mod]; push_cast; rw [dec_cast, dec_cast]
    calc (a : ZMod P.p) * Winv P * (r * Winv P) = (r * a) * (Winv P * Winv P) := by ring
      _ = (P.W * Winv P) * (P.W * Winv P) := by rw [hr3, h.R2_cast]; ring
      _ = 1 := by rw [h.Wz, mul_one]
  exact eq_of_cast_eq (Nat.mod_lt _ h.p_pos) h.p_gt hc

/-- `inverse` over a prime modulus -/
theorem inverse_spec (h : P.WF) (hp : Nat.Prime P.p) {a : ℕ} (ha : a < P.p) (ha0 : a ≠ 0) :
    ∃ b, inverse P a = some (some b) ∧ b < P.p ∧ dec P a * dec P b % P.p = 1 :=
  inverse_spec_coprime h ha ha0 (Nat.coprime_of_lt_prime ha0 ha hp).symm

end inverse

end PP.Mont
