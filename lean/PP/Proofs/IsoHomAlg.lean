/-
C16, homomorphism law of the 3-isogeny, layer 0: the rational-function identities.

Everything is written with the abscissa shifted by the kernel abscissa: `ξ = x − 6s`.  For a
parameter `s` of a field `F` (characteristic not 2, 3) consider

    E'_s : y² = x³ − 120 s² x + 506 s³      i.e.   y² = fS(ξ),  fS(ξ) = ξ³ + 18sξ² − 12s²ξ + 2s³
    E_s  : y² = x³ + 2 s³

and the map (Vélu's 3-isogeny with kernel `{O, (6s, ±√(2s³))}` followed by `(x, y) ↦ (x/9, −y/27)`)

    φ(x, y) = ( nS(ξ) / (9 ξ²),  −y · mS(ξ) / (27 ξ³) ).

(For `F = Fq2`, `s = −1 + u` these are the curves `E₂'`, `E₂` and the map `iso_map` of RFC 9380
appendix E.3; that is checked in `PP/Proofs/IsoHomInst.lean`.)

This file proves, by `ring` / `linear_combination` on SMALL expressions only (the chord identity has
total degree 23 when expanded; it is split so that no step expands more than degree 15 in three
variables):

* `phi_onCurve`    : `φ` sends `E'_s` to `E_s`;
* `phiX_sub`       : `X(ξ₁) − X(ξ₂) = (ξ₁ − ξ₂)·G(ξ₁,ξ₂) / (9ξ₁²ξ₂²)`;
* `sum_mul_diff`   : `ξ(P₁+P₂) · ξ(P₁−P₂) · (ξ₁−ξ₂)² = G(ξ₁,ξ₂)` — so `G` vanishes only if `P₁ ± P₂` is a
                     kernel point;
* `add_x`          : the abscissa of `φ(P₁ + P₂)` is the abscissa of `φ(P₁) + φ(P₂)` (chord case);
* `dbl_shift`, `dbl_x` : same for the tangent case, and `ξ(2P) = ξ·mS(ξ)/(4y²)`.
-/
import Mathlib.Tactic.LinearCombination
import Mathlib.Tactic.FieldSimp
import Mathlib.Tactic.Ring
import Mathlib.Tactic.NormNum
import Mathlib.Algebra.Field.Basic

namespace PP
namespace IsoHom

variable {F : Type} [Field F]

/-- right-hand side of `E'_s` in the shifted abscissa `ξ = x − 6s` -/
def fS (s ξ : F) : F := ξ^3 + 18*s*ξ^2 - 12*s^2*ξ + 2*s^3
/-- numerator of the `x`-map (shifted abscissa); the denominator is `9ξ²` -/
def nS (s ξ : F) : F := ξ^3 + 6*s*ξ^2 - 24*s^2*ξ + 8*s^3
/-- numerator of the `y`-map (shifted abscissa), up to the sign; the denominator is `27ξ³` -/
def mS (s ξ : F) : F := ξ^3 + 24*s^2*ξ - 16*s^3
/-- `(N(ξ₁)ξ₂² − N(ξ₂)ξ₁²) / (ξ₁ − ξ₂)` -/
def gS (s ξ₁ ξ₂ : F) : F := ξ₁^2*ξ₂^2 + 24*s^2*ξ₁*ξ₂ - 8*s^3*(ξ₁+ξ₂)

/-- the isogeny, `x`-coordinate, as a function of the shifted abscissa -/
def phiX (s ξ : F) : F := nS s ξ / (9 * ξ^2)
/-- the isogeny: the factor of `y` in the `y`-coordinate -/
def phiY (s ξ : F) : F := -(mS s ξ) / (27 * ξ^3)

theorem nine_ne (h3 : (3:F) ≠ 0) : (9:F) ≠ 0 := by
  have : (9:F) = 3*3 := by norm_num
  rw [this]; exact mul_ne_zero h3 h3

theorem twentyseven_ne (h3 : (3:F) ≠ 0) : (27:F) ≠ 0 := by
  have : (27:F) = 3*3*3 := by norm_num
  rw [this]; exact mul_ne_zero (mul_ne_zero h3 h3) h3

theorem four_ne (h2 : (2:F) ≠ 0) : (4:F) ≠ 0 := by
  have : (4:F) = 2*2 := by norm_num
  rw [this]; exact mul_ne_zero h2 h2

/-- the isogeny identity `f·M² = N³ + 1458 s³ ξ⁶` -/
theorem onCurve_id (s ξ : F) : fS s ξ * (mS s ξ)^2 = (nS s ξ)^3 + 1458*s^3*ξ^6 := by
  unfold fS mS nS; ring

/-- `φ` maps `E'_s` to `E_s` -/
theorem phi_onCurve (s ξ y : F) (h3 : (3:F) ≠ 0) (hξ : ξ ≠ 0) (h : y^2 = fS s ξ) :
    (y * phiY s ξ)^2 = (phiX s ξ)^3 + 2*s^3 := by
  have h9 := nine_ne h3
  have h27 := twentyseven_ne h3
  have hid := onCurve_id s ξ
  unfold phiX phiY
  generalize fS s ξ = f at *
  generalize mS s ξ = m at *
  generalize nS s ξ = n at *
  field_simp
  linear_combination (729 * m^2) * h + 729 * hid

theorem phiX_sub (s ξ₁ ξ₂ : F) (h1 : ξ₁ ≠ 0) (h2 : ξ₂ ≠ 0) (h3 : (3:F) ≠ 0) :
    phiX s ξ₁ - phiX s ξ₂ = (ξ₁ - ξ₂) * gS s ξ₁ ξ₂ / (9 * ξ₁^2 * ξ₂^2) := by
  have h9 := nine_ne h3
  unfold phiX nS gS
  field_simp
  ring

/-- `X(ξ)` in terms of `w = 1/ξ` -/
theorem phiX_inv (s ξ w : F) (h3 : (3:F) ≠ 0) (h : ξ * w = 1) :
    phiX s ξ = (ξ + 6*s - 24*s^2*w + 8*s^3*w^2) / 9 := by
  have hξ : ξ ≠ 0 := left_ne_zero_of_mul_eq_one h
  have h9 := nine_ne h3
  unfold phiX nS
  rw [div_eq_div_iff (mul_ne_zero h9 (pow_ne_zero 2 hξ)) h9]
  linear_combination (9 * (24*s^2*ξ - 8*s^3*(ξ*w + 1))) * h

/-! ### the chord case -/

/-- the chord identity with `p = y₁y₂`, denominators cleared -/
theorem core_x (s ξ₁ ξ₂ p : F) (hp : p^2 = fS s ξ₁ * fS s ξ₂) :
    ξ₁^2*ξ₂^2*(gS s ξ₁ ξ₂)^2*((fS s ξ₁ + fS s ξ₂ - (ξ₁ + ξ₂ + 18*s) * (ξ₁ - ξ₂)^2) - 2*p)
      + 6*s*ξ₁^2*ξ₂^2*(ξ₁ - ξ₂)^2*(gS s ξ₁ ξ₂)^2
      - 24*s^2*ξ₁^2*ξ₂^2*(ξ₁ - ξ₂)^2*(gS s ξ₁ ξ₂)
          *((fS s ξ₁ + fS s ξ₂ - (ξ₁ + ξ₂ + 18*s) * (ξ₁ - ξ₂)^2) + 2*p)
      + 8*s^3*ξ₁^2*ξ₂^2*(ξ₁ - ξ₂)^2
          *((fS s ξ₁ + fS s ξ₂ - (ξ₁ + ξ₂ + 18*s) * (ξ₁ - ξ₂)^2) + 2*p)^2
      + (nS s ξ₁*ξ₂^2 + nS s ξ₂*ξ₁^2)*(ξ₁ - ξ₂)^2*(gS s ξ₁ ξ₂)^2
    = fS s ξ₁*(mS s ξ₁)^2*ξ₂^6 + fS s ξ₂*(mS s ξ₂)^2*ξ₁^6 - 2*p*mS s ξ₁*mS s ξ₂*ξ₁^3*ξ₂^3 := by
  simp only [fS, nS, mS, gS] at hp ⊢
  linear_combination (32*s^3*ξ₁^2*ξ₂^2*(ξ₁-ξ₂)^2) * hp

/-- `(a − 2p)(a + 2p) = G·(ξ₁−ξ₂)²`: the numerators of `ξ(P₁+P₂)` and `ξ(P₁−P₂)` -/
theorem uu' (s ξ₁ ξ₂ p : F) (hp : p^2 = fS s ξ₁ * fS s ξ₂) :
    ((fS s ξ₁ + fS s ξ₂ - (ξ₁ + ξ₂ + 18*s) * (ξ₁ - ξ₂)^2) - 2*p) *
      ((fS s ξ₁ + fS s ξ₂ - (ξ₁ + ξ₂ + 18*s) * (ξ₁ - ξ₂)^2) + 2*p)
      = gS s ξ₁ ξ₂ * (ξ₁ - ξ₂)^2 := by
  simp only [fS, gS] at hp ⊢
  linear_combination (-4) * hp

/-- shifted abscissa of `P₁ + P₂` (chord) -/
def xiAdd (s ξ₁ ξ₂ y₁ y₂ : F) : F := ((y₁ - y₂) / (ξ₁ - ξ₂))^2 - ξ₁ - ξ₂ - 18*s

theorem xiAdd_eq (s ξ₁ ξ₂ y₁ y₂ : F) (hδ : ξ₁ ≠ ξ₂) (h₁ : y₁^2 = fS s ξ₁) (h₂ : y₂^2 = fS s ξ₂) :
    xiAdd s ξ₁ ξ₂ y₁ y₂ =
      ((fS s ξ₁ + fS s ξ₂ - (ξ₁ + ξ₂ + 18*s) * (ξ₁ - ξ₂)^2) - 2*(y₁*y₂)) / (ξ₁ - ξ₂)^2 := by
  have hδ' : ξ₁ - ξ₂ ≠ 0 := sub_ne_zero.mpr hδ
  unfold xiAdd
  rw [← h₁, ← h₂]
  field_simp
  ring

/-- `ξ(P₁+P₂)·ξ(P₁−P₂)·(ξ₁−ξ₂)² = G(ξ₁, ξ₂)` -/
theorem sum_mul_diff (s ξ₁ ξ₂ y₁ y₂ : F) (hδ : ξ₁ ≠ ξ₂) (h₁ : y₁^2 = fS s ξ₁)
    (h₂ : y₂^2 = fS s ξ₂) :
    xiAdd s ξ₁ ξ₂ y₁ y₂ * xiAdd s ξ₁ ξ₂ y₁ (-y₂) * (ξ₁ - ξ₂)^2 = gS s ξ₁ ξ₂ := by
  have hδ' : ξ₁ - ξ₂ ≠ 0 := sub_ne_zero.mpr hδ
  have h₂' : (-y₂)^2 = fS s ξ₂ := by rw [neg_sq]; exact h₂
  have hp : (y₁*y₂)^2 = fS s ξ₁ * fS s ξ₂ := by rw [mul_pow, h₁, h₂]
  have huu := uu' s ξ₁ ξ₂ (y₁*y₂) hp
  rw [xiAdd_eq s ξ₁ ξ₂ y₁ y₂ hδ h₁ h₂, xiAdd_eq s ξ₁ ξ₂ y₁ (-y₂) hδ h₁ h₂']
  generalize fS s ξ₁ + fS s ξ₂ - (ξ₁ + ξ₂ + 18*s) * (ξ₁ - ξ₂)^2 = a at *
  generalize gS s ξ₁ ξ₂ = G at *
  field_simp
  linear_combination huu

/-- the slope of the chord through the two image points -/
theorem slope_img (s ξ₁ ξ₂ y₁ y₂ : F) (h3 : (3:F) ≠ 0) (h1 : ξ₁ ≠ 0) (h2 : ξ₂ ≠ 0) (hδ : ξ₁ ≠ ξ₂)
    (hG : gS s ξ₁ ξ₂ ≠ 0) :
    (y₁ * phiY s ξ₁ - y₂ * phiY s ξ₂) / (phiX s ξ₁ - phiX s ξ₂) =
      -(y₁ * mS s ξ₁ * ξ₂^3 - y₂ * mS s ξ₂ * ξ₁^3) / (3 * ξ₁ * ξ₂ * (ξ₁ - ξ₂) * gS s ξ₁ ξ₂) := by
  have hδ' : ξ₁ - ξ₂ ≠ 0 := sub_ne_zero.mpr hδ
  have h9 := nine_ne h3
  have h27 := twentyseven_ne h3
  rw [phiX_sub s ξ₁ ξ₂ h1 h2 h3]
  unfold phiY
  generalize gS s ξ₁ ξ₂ = G at *
  generalize mS s ξ₁ = M₁
  generalize mS s ξ₂ = M₂
  field_simp
  ring

/-- **chord case**: the abscissa of `φ(P₁ + P₂)` is that of `φ(P₁) + φ(P₂)` -/
theorem add_x (s ξ₁ ξ₂ y₁ y₂ : F) (h3 : (3:F) ≠ 0) (h1 : ξ₁ ≠ 0) (h2 : ξ₂ ≠ 0) (hδ : ξ₁ ≠ ξ₂)
    (hG : gS s ξ₁ ξ₂ ≠ 0) (h₁ : y₁^2 = fS s ξ₁) (h₂ : y₂^2 = fS s ξ₂) :
    phiX s (xiAdd s ξ₁ ξ₂ y₁ y₂) =
      ((y₁ * phiY s ξ₁ - y₂ * phiY s ξ₂) / (phiX s ξ₁ - phiX s ξ₂))^2
        - phiX s ξ₁ - phiX s ξ₂ := by
  have hδ' : ξ₁ - ξ₂ ≠ 0 := sub_ne_zero.mpr hδ
  have h9 := nine_ne h3
  have hp : (y₁*y₂)^2 = fS s ξ₁ * fS s ξ₂ := by rw [mul_pow, h₁, h₂]
  have huu := uu' s ξ₁ ξ₂ (y₁*y₂) hp
  have core := core_x s ξ₁ ξ₂ (y₁*y₂) hp
  have hS : (y₁ * mS s ξ₁ * ξ₂^3 - y₂ * mS s ξ₂ * ξ₁^3)^2 =
      fS s ξ₁*(mS s ξ₁)^2*ξ₂^6 + fS s ξ₂*(mS s ξ₂)^2*ξ₁^6
        - 2*(y₁*y₂)*mS s ξ₁*mS s ξ₂*ξ₁^3*ξ₂^3 := by
    linear_combination ((mS s ξ₁)^2*ξ₂^6) * h₁ + ((mS s ξ₂)^2*ξ₁^6) * h₂
  rw [slope_img s ξ₁ ξ₂ y₁ y₂ h3 h1 h2 hδ hG, neg_div, neg_sq, div_pow, hS]
  have hu := xiAdd_eq s ξ₁ ξ₂ y₁ y₂ hδ h₁ h₂
  have hw : xiAdd s ξ₁ ξ₂ y₁ y₂ *
      (((fS s ξ₁ + fS s ξ₂ - (ξ₁ + ξ₂ + 18*s) * (ξ₁ - ξ₂)^2) + 2*(y₁*y₂)) / gS s ξ₁ ξ₂) = 1 := by
    rw [hu]
    generalize fS s ξ₁ + fS s ξ₂ - (ξ₁ + ξ₂ + 18*s) * (ξ₁ - ξ₂)^2 = a at *
    generalize gS s ξ₁ ξ₂ = G at *
    field_simp
    linear_combination huu
  rw [phiX_inv s _ _ h3 hw, hu]
  unfold phiX
  generalize fS s ξ₁ + fS s ξ₂ - (ξ₁ + ξ₂ + 18*s) * (ξ₁ - ξ₂)^2 = a at *
  generalize gS s ξ₁ ξ₂ = G at *
  generalize y₁ * y₂ = p at *
  generalize fS s ξ₁ = F₁ at *
  generalize fS s ξ₂ = F₂ at *
  generalize mS s ξ₁ = M₁ at *
  generalize mS s ξ₂ = M₂ at *
  generalize nS s ξ₁ = N₁ at *
  generalize nS s ξ₂ = N₂ at *
  field_simp
  linear_combination 9 * core

/-! ### the tangent case -/

/-- shifted abscissa of `2P` (tangent); `3ξ² + 36sξ − 12s²` is `3x² − 120s²` at `x = ξ + 6s` -/
def xiDbl (s ξ y : F) : F := ((3*ξ^2 + 36*s*ξ - 12*s^2) / (2*y))^2 - 2*ξ - 18*s

/-- `ξ(2P) = ξ·M(ξ) / (4y²)` -/
theorem dbl_shift (s ξ y : F) (h2 : (2:F) ≠ 0) (hy : y ≠ 0) (h : y^2 = fS s ξ) :
    xiDbl s ξ y = ξ * mS s ξ / (4 * y^2) := by
  have h4 := four_ne h2
  unfold xiDbl
  rw [div_pow, mul_pow, h]
  have hf : fS s ξ ≠ 0 := by rw [← h]; exact pow_ne_zero 2 hy
  field_simp
  unfold fS mS
  ring

/-- **tangent case**: the abscissa of `φ(2P)` is that of `2φ(P)` -/
theorem dbl_x (s ξ y : F) (h2 : (2:F) ≠ 0) (h3 : (3:F) ≠ 0) (hξ : ξ ≠ 0) (hy : y ≠ 0)
    (hm : mS s ξ ≠ 0) (h : y^2 = fS s ξ) :
    phiX s (xiDbl s ξ y) =
      (3 * (phiX s ξ)^2 / (2 * (y * phiY s ξ)))^2 - 2 * phiX s ξ := by
  have h4 := four_ne h2
  have h9 := nine_ne h3
  have h27 := twentyseven_ne h3
  have hf : fS s ξ ≠ 0 := by rw [← h]; exact pow_ne_zero 2 hy
  have hR : (3 * (phiX s ξ)^2 / (2 * (y * phiY s ξ)))^2 =
      9 * (phiX s ξ)^4 / (4 * (fS s ξ * (phiY s ξ)^2)) := by
    rw [div_pow, mul_pow, mul_pow, mul_pow, h]; ring
  rw [dbl_shift s ξ y h2 hy h, hR, h]
  unfold phiX phiY nS
  field_simp
  unfold fS mS
  ring

end IsoHom
end PP
