/-
C16, homomorphism law of the 11-isogeny: the identities as terms of the expression language of
`PP/Proofs/IsoHom11Eval.lean`.

Notation: `E₁' : y² = f(x) = x³ + A'x + B'`; `K` the kernel polynomial (`XD = K²`, `YD = K³`), `XN`, `YN`
the numerators; `hev cs n d = d^deg · cs(n/d)` (homogeneous evaluation).  All identities are written
with denominators cleared.

* `chordE`  (radicand `f(x₁)f(x₂)`, `p = y₁y₂`): with `x₃ = n/d` the abscissa of `P₁ + P₂`,
      `XNh(n,d) · Den = d · XDh(n,d) · Num`,   `Num/Den` the abscissa of `φP₁ + φP₂`;
* `normE`   : `Kh(n₊,d) · Kh(n₋,d) · (x₁−x₂) = 121 · (x₁−x₂)^10 · (XN₁K₂² − XN₂K₁²)`, `n±/d` the abscissae
      of `P₁ ± P₂`;
* `tanE`    : the same as `chordE` for the tangent, `n/d` the abscissa of `2P`;
* `isoE`    : `f·YN² = XN³ + 4K⁶`;
* `kerE`    : `K = Π (x − tₖ)`;
* `tixE t s`, `tiyE t s` (radicand `f(x)`, `p = y`): the two coordinates of `φ(P + T) = φ(P)` for the
      kernel point `T = (t, s)`.
-/
import PP.Proofs.IsoHom11Eval
import PP.Proofs.IsoHom11Consts

namespace PP
namespace IsoHom11

def x1 : Ex := .var 0
def x2 : Ex := .var 1

/-- shared univariate expressions `f, K, XN, YN` (`var (2+2i)` at `x₁`, `var (3+2i)` at `x₂`) -/
def defs : List Ex :=
  [.pol [bN, aN, 0, 1] (.var 0), .pol kerN (.var 0), .pol xnN (.var 0), .pol ynN (.var 0)]

def f1 : Ex := .var 2
def f2 : Ex := .var 3
def k1 : Ex := .var 4
def k2 : Ex := .var 5
def xn1 : Ex := .var 6
def xn2 : Ex := .var 7
def yn1 : Ex := .var 8
def yn2 : Ex := .var 9

/-! ### chord -/

/-- radicand for `p = y₁y₂` -/
def chordD : Ex := .mul f1 f2
/-- `(x₁+x₂)(x₁x₂+A') + 2B'` -/
def chordS : Ex := .add (.mul (.add x1 x2) (.add (.mul x1 x2) (.c aN))) (.c (2 * bN))
/-- numerator of the abscissa of `P₁ + P₂` -/
def chordN : Ex := .sub chordS (.mul (.c 2) .p)
/-- numerator of the abscissa of `P₁ − P₂` -/
def chordN' : Ex := .add chordS (.mul (.c 2) .p)
/-- their denominator `(x₁ − x₂)²` -/
def chordDd : Ex := .pow (.sub x1 x2) 2
/-- `XN₁K₂² − XN₂K₁²` -/
def gt : Ex := .sub (.mul xn1 (.pow k2 2)) (.mul xn2 (.pow k1 2))
def chordDen : Ex := .mul (.mul (.pow k1 2) (.pow k2 2)) (.pow gt 2)
def chordNum : Ex :=
  .sub (.sub (.add (.mul (.mul f1 (.pow yn1 2)) (.pow k2 6))
                   (.mul (.mul f2 (.pow yn2 2)) (.pow k1 6)))
             (.mul (.mul (.c 2) .p) (.mul (.mul yn1 yn2) (.mul (.pow k1 3) (.pow k2 3)))))
       (.mul (.add (.mul xn1 (.pow k2 2)) (.mul xn2 (.pow k1 2))) (.pow gt 2))
def chordE : Ex :=
  .sub (.mul (.hev xnN chordN chordDd) chordDen)
       (.mul (.mul chordDd (.hev xdN chordN chordDd)) chordNum)

def normE : Ex :=
  .sub (.mul (.mul (.hev kerN chordN chordDd) (.hev kerN chordN' chordDd)) (.sub x1 x2))
       (.mul (.mul (.c 121) (.pow (.sub x1 x2) 10)) gt)

/-! ### tangent and the univariate identities (`x = x₁`, no `p`) -/

/-- numerator of the abscissa of `2P`: `(3x²+A')² − 8x·f` -/
def tanN : Ex := .sub (.pow (.add (.mul (.c 3) (.pow x1 2)) (.c aN)) 2) (.mul (.mul (.c 8) x1) f1)
/-- its denominator `4f` -/
def tanD : Ex := .mul (.c 4) f1
def tanE : Ex :=
  .sub (.mul (.hev xnN tanN tanD) (.mul (.pow yn1 2) (.pow k1 2)))
       (.mul (.hev xdN tanN tanD)
         (.sub (.mul (.c 9) (.pow xn1 4)) (.mul (.mul (.mul (.c 8) f1) (.pow yn1 2)) xn1)))

def isoE : Ex := .sub (.mul f1 (.pow yn1 2)) (.add (.pow xn1 3) (.mul (.c 4) (.pow k1 6)))

def kerE : Ex :=
  .sub k1 (.mul (.mul (.mul (.mul (.sub x1 (.c (tN 1))) (.sub x1 (.c (tN 2)))) (.sub x1 (.c (tN 3))))
    (.sub x1 (.c (tN 4)))) (.sub x1 (.c (tN 5))))

/-! ### translation by a kernel point `T = (t, s)`; `p = y`, radicand `f(x)` -/

/-- numerator of the abscissa of `P + T` -/
def tiN (t s : Nat) : Ex :=
  .sub (.add (.mul (.add x1 (.c t)) (.add (.mul x1 (.c t)) (.c aN))) (.c (2 * bN)))
       (.mul (.c (2 * s)) .p)
/-- its denominator `(x − t)²` -/
def tiD (t : Nat) : Ex := .pow (.sub x1 (.c t)) 2

def tixE (t s : Nat) : Ex :=
  .sub (.mul (.hev xnN (tiN t s) (tiD t)) (.pow k1 2))
       (.mul (.mul (tiD t) (.hev xdN (tiN t s) (tiD t))) xn1)

/-- `(x−t)³ ·` ordinate of `P + T`: `−(y − s)(n − x·d) − y(x−t)³` -/
def tiM (t s : Nat) : Ex :=
  .sub (.sub (.c 0) (.mul (.sub .p (.c s)) (.sub (tiN t s) (.mul x1 (tiD t)))))
       (.mul .p (.pow (.sub x1 (.c t)) 3))

def tiyE (t s : Nat) : Ex :=
  .sub (.mul (.mul (tiM t s) (.hev ynN (tiN t s) (tiD t))) (.pow k1 3))
       (.mul (.mul (.pow (.sub x1 (.c t)) 3) (.hev ydN (tiN t s) (tiD t))) (.mul .p yn1))

end IsoHom11
end PP
