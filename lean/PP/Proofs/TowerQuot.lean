/-
C09, "equals arithmetic in those quotient rings", in the strongest form: ring isomorphisms between
Mathlib's quotient rings `AdjoinRoot (X² + 1)`, `AdjoinRoot (X³ - ξ)`, `AdjoinRoot (X² - v)` and the
model types with the model's own operations, sending the adjoined root to `u`, `v`, `w` and
constants to constants.
-/
import Mathlib.RingTheory.AdjoinRoot
import Mathlib.FieldTheory.KummerPolynomial
import PP.Proofs.TowerField

set_option linter.unusedSectionVars false

open Polynomial

namespace PP

/-- a commutative ring generated over a field `K` by a root `r` of an irreducible `g` is `K[X]/(g)` -/
noncomputable def adjoinRootEquiv {K S : Type} [Field K] [CommRing S] [Nontrivial S]
    (ι : K →+* S) (r : S) (g : K[X]) [Fact (Irreducible g)] (hr : g.eval₂ ι r = 0)
    (hsurj : ∀ s : S, ∃ p : K[X], p.eval₂ ι r = s) : AdjoinRoot g ≃+* S :=
  RingEquiv.ofBijective (AdjoinRoot.lift ι r hr)
    ⟨RingHom.injective _, fun s => by
      obtain ⟨p, hp⟩ := hsurj s
      exact ⟨AdjoinRoot.mk g p, by rw [AdjoinRoot.lift_mk, hp]⟩⟩

theorem adjoinRootEquiv_root {K S : Type} [Field K] [CommRing S] [Nontrivial S]
    (ι : K →+* S) (r : S) (g : K[X]) [Fact (Irreducible g)] (hr : g.eval₂ ι r = 0)
    (hsurj : ∀ s : S, ∃ p : K[X], p.eval₂ ι r = s) :
    adjoinRootEquiv ι r g hr hsurj (AdjoinRoot.root g) = r := by
  show AdjoinRoot.lift ι r hr (AdjoinRoot.root g) = r
  rw [AdjoinRoot.lift_root]

theorem adjoinRootEquiv_of {K S : Type} [Field K] [CommRing S] [Nontrivial S]
    (ι : K →+* S) (r : S) (g : K[X]) [Fact (Irreducible g)] (hr : g.eval₂ ι r = 0)
    (hsurj : ∀ s : S, ∃ p : K[X], p.eval₂ ι r = s) (c : K) :
    adjoinRootEquiv ι r g hr hsurj (AdjoinRoot.of g c) = ι c := by
  show AdjoinRoot.lift ι r hr (AdjoinRoot.of g c) = ι c
  rw [AdjoinRoot.lift_of]

section Prime
variable [hq : Fact (Nat.Prime Gen.q)]

/-! ### `Fq2 ≃ Fq[X]/(X² + 1)` -/

namespace Fq2

theorem irreducible_X_sq_add_one : Irreducible (X ^ 2 + 1 : Fq[X]) := by
  have h : (X ^ 2 + 1 : Fq[X]) = X ^ 2 - C (-1) := by simp
  rw [h]
  refine X_pow_sub_C_irreducible_of_prime Nat.prime_two fun b hb => ?_
  exact Fq.sq_ne_neg_one b (by rw [← pow_two]; exact hb)

instance : Fact (Irreducible (X ^ 2 + 1 : Fq[X])) := ⟨irreducible_X_sq_add_one⟩

theorem eval₂_u : (X ^ 2 + 1 : Fq[X]).eval₂ ofFq u = 0 := by
  rw [eval₂_add, eval₂_pow, eval₂_X, eval₂_one, pow_two, u_mul_u]; ring

theorem exists_poly (a : Fq2) : ∃ p : Fq[X], p.eval₂ ofFq u = a :=
  ⟨C a.c0 + C a.c1 * X, by
    rw [eval₂_add, eval₂_mul, eval₂_C, eval₂_C, eval₂_X]; exact (eq_add_mul_u a).symm⟩

/-- **`Fq2` is the quotient ring `Fq[X]/(X² + 1)`**, `X ↦ u` -/
noncomputable def quotEquiv : AdjoinRoot (X ^ 2 + 1 : Fq[X]) ≃+* Fq2 :=
  adjoinRootEquiv ofFq u _ eval₂_u exists_poly

theorem quotEquiv_root : quotEquiv (AdjoinRoot.root _) = u := adjoinRootEquiv_root ..
theorem quotEquiv_of (c : Fq) : quotEquiv (AdjoinRoot.of _ c) = ofFq c := adjoinRootEquiv_of ..

end Fq2

/-! ### `Fq6 ≃ Fq2[X]/(X³ - ξ)` -/

namespace Fq6
open Fq2 (xi)

theorem irreducible_X_cube_sub_xi : Irreducible (X ^ 3 - C xi : Fq2[X]) :=
  X_pow_sub_C_irreducible_of_prime Nat.prime_three Fq2.xi_not_cube

instance : Fact (Irreducible (X ^ 3 - C xi : Fq2[X])) := ⟨irreducible_X_cube_sub_xi⟩

theorem eval₂_v : (X ^ 3 - C xi : Fq2[X]).eval₂ ofFq2 v = 0 := by
  rw [eval₂_sub, eval₂_pow, eval₂_X, eval₂_C, v_pow_three, sub_self]

theorem exists_poly (a : Fq6) : ∃ p : Fq2[X], p.eval₂ ofFq2 v = a :=
  ⟨C a.c0 + C a.c1 * X + C a.c2 * (X * X), by
    rw [eval₂_add, eval₂_add, eval₂_mul, eval₂_mul, eval₂_mul, eval₂_C, eval₂_C, eval₂_C, eval₂_X]
    exact (eq_add_mul_v a).symm⟩

/-- **`Fq6` is the quotient ring `Fq2[X]/(X³ - ξ)`**, `X ↦ v` -/
noncomputable def quotEquiv : AdjoinRoot (X ^ 3 - C xi : Fq2[X]) ≃+* Fq6 :=
  adjoinRootEquiv ofFq2 v _ eval₂_v exists_poly

theorem quotEquiv_root : quotEquiv (AdjoinRoot.root _) = v := adjoinRootEquiv_root ..
theorem quotEquiv_of (c : Fq2) : quotEquiv (AdjoinRoot.of _ c) = ofFq2 c := adjoinRootEquiv_of ..

end Fq6

/-! ### `Fq12 ≃ Fq6[X]/(X² - v)` -/

namespace Fq12
open Fq6 (v)

theorem irreducible_X_sq_sub_v : Irreducible (X ^ 2 - C v : Fq6[X]) :=
  X_pow_sub_C_irreducible_of_prime Nat.prime_two Fq6.v_not_square

instance : Fact (Irreducible (X ^ 2 - C v : Fq6[X])) := ⟨irreducible_X_sq_sub_v⟩

theorem eval₂_w : (X ^ 2 - C v : Fq6[X]).eval₂ ofFq6 w = 0 := by
  rw [eval₂_sub, eval₂_pow, eval₂_X, eval₂_C, w_pow_two, sub_self]

theorem exists_poly (a : Fq12) : ∃ p : Fq6[X], p.eval₂ ofFq6 w = a :=
  ⟨C a.c0 + C a.c1 * X, by
    rw [eval₂_add, eval₂_mul, eval₂_C, eval₂_C, eval₂_X]; exact (eq_add_mul_w a).symm⟩

/-- **`Fq12` is the quotient ring `Fq6[X]/(X² - v)`**, `X ↦ w` -/
noncomputable def quotEquiv : AdjoinRoot (X ^ 2 - C v : Fq6[X]) ≃+* Fq12 :=
  adjoinRootEquiv ofFq6 w _ eval₂_w exists_poly

theorem quotEquiv_root : quotEquiv (AdjoinRoot.root _) = w := adjoinRootEquiv_root ..
theorem quotEquiv_of (c : Fq6) : quotEquiv (AdjoinRoot.of _ c) = ofFq6 c := adjoinRootEquiv_of ..

end Fq12

end Prime
end PP
