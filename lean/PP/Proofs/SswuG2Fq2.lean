/-
C15, layer 3 (G2): instantiation of `PP.Proofs.SswuG2` at the model field `Fq2`
(`Field Fq2` from `PP.Proofs.Tower2`, built on the model's own `+ - * neg`), with the extracted
constants `G2_ELLP_A`, `G2_ELLP_B`, `G2_XI`, `G2_ROOTS_OF_UNITY`, `G2_ETAS`.

Still hypotheses here (discharged elsewhere): `hcard : ∀ x ≠ 0, x^(q²−1) = 1` and
`hchain2 : chainP2m9div16 a = a^((q²−9)/16)`.
-/
import PP.Proofs.SswuG2
import PP.Proofs.SswuG1
import PP.Proofs.SswuUnfold
import PP.Proofs.SswuCubic
import PP.Proofs.Tower2
import PP.Proofs.Primes

set_option linter.unusedSectionVars false
set_option linter.unusedVariables false

namespace PP
namespace Sswu
open PP.Spec

/-! ### the model function is the abstract map at `F = Fq2` -/

theorem osswuG2Find_eq_findG (c d n : Fq2) :
    ∀ ms : List Fq2, osswuG2Find c d n ms = findG c d n ms := by
  intro ms
  induction ms with
  | nil => rfl
  | cons m ms ih =>
    unfold osswuG2Find findG
    rw [ih]

theorem osswuG2_eq_g2Map (u : Fq2) :
    osswuG2 u =
      g2Map chainP2m9div16 Fq2.sgn0 g2Xi g2EllpA g2EllpB g2RootsOfUnity g2Etas u := by
  refine (osswuG2_unfold u).trans ?_
  unfold g2Map
  generalize osswuHelp u g2Xi g2EllpA g2EllpB = h
  generalize chainP2m9div16 _ = c
  generalize g2RootsOfUnity = roots
  generalize g2Etas = etas
  as_aux_lemma =>
    simp only [osswuG2Find_eq_findG]
    unfold osswuG2Core
    generalize findG _ h.gx0_den h.gx0_num roots = o1
    cases o1 with
    | some y0 => rfl
    | none =>
      dsimp only
      generalize findG _ h.gx0_den _ etas = o2
      cases o2 <;> rfl

/-! ### `sgn0` on `Fq2` flips under negation -/

theorem Fq2.sgn0_neg (y : Fq2) (hy : y ≠ 0) : Fq2.sgn0 (-y) ≠ Fq2.sgn0 y := by
  unfold Fq2.sgn0
  by_cases h0 : y.c0 = 0
  · have h1 : y.c1 ≠ 0 := fun h1 => hy (Fq2.ext h0 h1)
    have h0' : (-y).c0 = 0 := by rw [Fq2.neg_c0, h0, neg_zero]
    rw [if_pos ((Zp.isZero_iff _).mpr h0'), if_pos ((Zp.isZero_iff _).mpr h0), Fq2.neg_c1]
    exact Fq.sgn0_neg _ h1
  · have h0' : (-y).c0 ≠ 0 := by rw [Fq2.neg_c0]; exact neg_ne_zero.mpr h0
    rw [if_neg (fun h => h0' ((Zp.isZero_iff _).mp h)), if_neg (fun h => h0 ((Zp.isZero_iff _).mp h)),
      Fq2.neg_c0]
    exact Fq.sgn0_neg _ h0

/-! ### the extracted constants -/

theorem g2EllpA_ne : g2EllpA ≠ 0 := by decide +kernel
theorem g2EllpB_ne : g2EllpB ≠ 0 := by decide +kernel
theorem g2Xi_ne : g2Xi ≠ 0 := by decide +kernel
/-- `A' = 240·I` -/
theorem g2EllpA_eq : g2EllpA = ⟨0, Zp.ofNat 240⟩ := by decide +kernel
/-- `B' = 1012·(1 + I)` -/
theorem g2EllpB_eq : g2EllpB = ⟨Zp.ofNat 1012, Zp.ofNat 1012⟩ := by decide +kernel
/-- `Z = −(2 + I)` -/
theorem g2Xi_eq : g2Xi = -⟨Zp.ofNat 2, Zp.ofNat 1⟩ := by decide +kernel

theorem q_sq_mod_16 : Gen.q ^ 2 % 16 = 9 := by decide +kernel

/-- a square root of `g(B'/(ZA'))` -/
def g2ExcRoot : Fq2 :=
  ⟨Zp.ofNat 0x1776b5d3dd70bb2ac6e46be0849209c9c47853350da878bdc14a5042102f1f01cbc75043b8d13d709dd5ca27f92cb390,
   Zp.ofNat 0x2c094c100c4f8a157767045bc04279dd04f207fbddc4de6675911b512cddacc0061215698453b5b11125516029e4d21⟩

theorem g2Exc_eq :
    sswuG g2EllpA g2EllpB (g2EllpB / (g2Xi * g2EllpA)) = g2ExcRoot * g2ExcRoot := by decide +kernel

/-- `g(B'/(ZA'))` is a square -/
theorem g2Exc_isSquare : IsSquare (sswuG g2EllpA g2EllpB (g2EllpB / (g2Xi * g2EllpA))) :=
  ⟨g2ExcRoot, g2Exc_eq⟩

/-! ### the four `ROOTS_OF_UNITY` cover the 4th roots of unity -/

theorem g2_roots_one : ∃ ρ ∈ g2RootsOfUnity, ρ * ρ * (1 : Fq2) = 1 := by decide +kernel
theorem g2_roots_neg_one : ∃ ρ ∈ g2RootsOfUnity, ρ * ρ * (-1 : Fq2) = 1 := by decide +kernel
theorem g2_roots_u : ∃ ρ ∈ g2RootsOfUnity, ρ * ρ * Fq2.u = 1 := by decide +kernel
theorem g2_roots_neg_u : ∃ ρ ∈ g2RootsOfUnity, ρ * ρ * (-Fq2.u) = 1 := by decide +kernel

theorem g2_hroots (ζ : Fq2) (h : ζ ^ 4 = 1) : ∃ ρ ∈ g2RootsOfUnity, ρ ^ 2 * ζ = 1 := by
  have hI : Fq2.u * Fq2.u = -1 := Fq2.u_mul_u
  have hprod : (ζ - 1) * (ζ + 1) * ((ζ - Fq2.u) * (ζ + Fq2.u)) = 0 := by
    linear_combination h - (ζ ^ 2 - 1) * hI
  simp only [pow_two]
  rcases mul_eq_zero.mp hprod with h1 | h1
  · rcases mul_eq_zero.mp h1 with h2 | h2
    · rw [sub_eq_zero.mp h2]; exact g2_roots_one
    · rw [eq_neg_of_add_eq_zero_left h2]; exact g2_roots_neg_one
  · rcases mul_eq_zero.mp h1 with h2 | h2
    · rw [sub_eq_zero.mp h2]; exact g2_roots_u
    · rw [eq_neg_of_add_eq_zero_left h2]; exact g2_roots_neg_u

/-! ### the four `ETAS` cover the primitive 8th roots of unity -/

/-- `ROOTS_OF_UNITY[2]`, `ROOTS_OF_UNITY[3]`: square roots of `−I` and `I` -/
def g2Om2 : Fq2 := g2RootsOfUnity.getD 2 0
def g2Om3 : Fq2 := g2RootsOfUnity.getD 3 0

theorem g2Om2_sq : g2Om2 * g2Om2 = -Fq2.u := by decide +kernel
theorem g2Om3_sq : g2Om3 * g2Om3 = Fq2.u := by decide +kernel

theorem g2_etas_om2 : ∃ η ∈ g2Etas, η * η * g2Om2 = g2Xi * g2Xi * g2Xi := by decide +kernel
theorem g2_etas_neg_om2 : ∃ η ∈ g2Etas, η * η * (-g2Om2) = g2Xi * g2Xi * g2Xi := by decide +kernel
theorem g2_etas_om3 : ∃ η ∈ g2Etas, η * η * g2Om3 = g2Xi * g2Xi * g2Xi := by decide +kernel
theorem g2_etas_neg_om3 : ∃ η ∈ g2Etas, η * η * (-g2Om3) = g2Xi * g2Xi * g2Xi := by decide +kernel

theorem g2_hetas (ζ : Fq2) (h : ζ ^ 4 = -1) : ∃ η ∈ g2Etas, η ^ 2 * ζ = g2Xi ^ 3 := by
  have hI : Fq2.u * Fq2.u = -1 := Fq2.u_mul_u
  have hprod : (ζ - g2Om3) * (ζ + g2Om3) * ((ζ - g2Om2) * (ζ + g2Om2)) = 0 := by
    linear_combination h - hI + (ζ ^ 2 + Fq2.u) * (-g2Om3_sq) + (ζ ^ 2 - g2Om3 * g2Om3) * (-g2Om2_sq)
  have e3 : g2Xi ^ 3 = g2Xi * g2Xi * g2Xi := by ring
  simp only [pow_two, e3]
  rcases mul_eq_zero.mp hprod with h1 | h1
  · rcases mul_eq_zero.mp h1 with h2 | h2
    · rw [sub_eq_zero.mp h2]; exact g2_etas_om3
    · rw [eq_neg_of_add_eq_zero_left h2]; exact g2_etas_neg_om3
  · rcases mul_eq_zero.mp h1 with h2 | h2
    · rw [sub_eq_zero.mp h2]; exact g2_etas_om2
    · rw [eq_neg_of_add_eq_zero_left h2]; exact g2_etas_neg_om2

/-! ### `x³ + A'x + B'` has no root in `Fq2` (so the output `y` is never `0`) -/

/-- `x^(q²) mod (x³ + A'x + B')` -/
def g2R : Fq2 × Fq2 × Fq2 :=
  (⟨Zp.ofNat 0x18c3f2df22319b0ff336363c98f4073a7f117412442611de4f2b8aefb6dd4555e6a5daaaaaaa67ff9c0, Zp.ofNat 0x1a0111ea397fe50e0bedb593299aada4011381f5b3116ace4fefae5e9593113165fd0490dcfea1955c545555597fb0eb⟩,
   ⟨Zp.ofNat 0x1f5408fe1a9d78a241be2d91c69b188109b384c011168eec6bd48583b7f6a0ab627d5355555500ff81, Zp.ofNat 0x0⟩,
   ⟨Zp.ofNat 0x1a0111ea397fe697d11cf7cc7188f80bdf0b78a8db1df34c4bd86a66f2e25fe900b7b4d2ce66aa9bdc9c5555555baab5, Zp.ofNat 0x1a0111ea397fe697d11cf7cc7188f80bdf0b78a8db1df34c4bd86a66f2e25fe900b7b4d2ce66aa9bdc9c5555555baab5⟩)

theorem g2_xPow : Cubic.xPow g2EllpA g2EllpB (Gen.q ^ 2) = g2R := by decide +kernel

/-- Bézout cofactors `S·(x^(q²) − x mod g) + T·g = 1` -/
def g2S0 : Fq2 := ⟨Zp.ofNat 0x5c759507e8e3340620545362904660ce10d0f220d7ec3cc9af0744a723f4584c573c055db22aab44b251c71c717ee1c, Zp.ofNat 0x5c759507e8e3340620545362904660ce10d0f220d7ec3cc9af0744a723f4584c573c055db22aab44b251c71c717ee1c⟩
def g2S1 : Fq2 := ⟨Zp.ofNat 0x0, Zp.ofNat 0x1439b899baf1b35b8fc02d1bfb73bf5231b21e4af64b0e94de7b4e7d31a614c6c285c71b6d7a38e357c655555555130d⟩
def g2S2 : Fq2 := ⟨Zp.ofNat 0x9077b8dc5be3012061110fff35bed1a25791cf8eeeadd822a7700d19c6b9071ff832a1c427d4e38d2ffae38e38e17b6, Zp.ofNat 0x10f9965c73c1b688450a96b64fefbfbd3efe2e8c049a353d3cb9d1cf5a4565b21f28d5e26ed6b1c6e6ff51c71c7192f5⟩
def g2T0 : Fq2 := ⟨Zp.ofNat 0x5c759507e8e2c5da28f46700e8c62d9b1ed3ba0dec63633e8778da76abee7d143c730c23ed0237c8909425ee31c7ad, Zp.ofNat 0x19a49c55319703d470f2b34f4262e6a9c95877cae598af5c28a959c6800507a70a6f8cf28d66fdc7f16e6bda11cde2fe⟩
def g2T1 : Fq2 := ⟨Zp.ofNat 0x15ab8eedda954033f260a7ad804420a94fa8f5a5f603ec5b1614abfca92cf2587f42a495912b84f076b2c25ed07fffdd, Zp.ofNat 0x0⟩

section
variable (hcard : ∀ x : Fq2, x ≠ 0 → x ^ (Gen.q ^ 2 - 1) = 1)
include hcard

/-- the isogenous curve `E₂'` has no point of order 2 over `Fq2` -/
theorem g2_no_root (x : Fq2) : sswuG g2EllpA g2EllpB x ≠ 0 := by
  unfold sswuG
  exact Cubic.no_root g2R g2_xPow g2S0 g2S1 g2S2 g2T0 g2T1
    (by decide +kernel) (by decide +kernel) (by decide +kernel) (by decide +kernel)
    (by decide +kernel) x (pow_card_of_pow_card_sub_one (by decide +kernel) hcard x)

/-! ### C15 for `osswuG2` -/

variable (hchain2 : ∀ a : Fq2, chainP2m9div16 a = a ^ ((Gen.q ^ 2 - 9) / 16))
include hchain2

theorem osswuG2_sswuOut (t : Fq2) :
    ∃ P, osswuG2 t = some P ∧ SswuOut Fq2.sgn0 g2Xi g2EllpA g2EllpB t P := by
  rw [osswuG2_eq_g2Map]
  exact g2Map_spec q_sq_mod_16 hcard g2EllpA_ne g2Xi_ne g2Exc_isSquare Fq2.sgn0 Fq2.sgn0_neg
    chainP2m9div16 hchain2 g2RootsOfUnity g2Etas g2_hroots g2_hetas t

end

end Sswu
end PP
