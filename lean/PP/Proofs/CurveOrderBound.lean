/-
Curve orders, the trivial bound: over a finite field `F` the curve `y² = x³ + b` has at most
`2·#F + 1` points (every `x` carries at most two `y`).  No Hasse bound is needed for BLS12-381:
the traces of Frobenius of `E(Fq)` and `E'(Fq2)` are negative, so the announced orders exceed `#F + 1`.

The injection `code : (W b).Point → Option (F × Bool)` sends the identity to `none` and `(x, y)` to
`(x, [y is the designated root of x³ + b])`.
-/
import Mathlib.SetTheory.Cardinal.NatCard
import PP.Proofs.CurveSpec

set_option linter.unusedSectionVars false

namespace PP.CurveOrder

open WeierstrassCurve.Affine

variable {F : Type} [Field F] (b : F)

open Classical in
/-- a designated square root of `x³ + b` (junk `0` when there is none) -/
noncomputable def root (x : F) : F :=
  if h : ∃ y : F, y ^ 2 = x ^ 3 + b then Classical.choose h else 0

theorem root_sq {x y : F} (h : y ^ 2 = x ^ 3 + b) : root b x ^ 2 = x ^ 3 + b := by
  have hex : ∃ y : F, y ^ 2 = x ^ 3 + b := ⟨y, h⟩
  unfold root
  rw [dif_pos hex]
  exact Classical.choose_spec hex

open Classical in
/-- the encoding of a point -/
noncomputable def code : (W b).Point → Option (F × Bool)
  | .zero => none
  | .some x y _ => some (x, decide (y = root b x))

theorem code_injective [ShortW b] : Function.Injective (code b) := by
  classical
  rintro (_ | ⟨x, y, h⟩) (_ | ⟨x', y', h'⟩) e
  · rfl
  · simp [code] at e
  · simp [code] at e
  · simp only [code, Option.some.injEq, Prod.mk.injEq] at e
    obtain ⟨rfl, e2⟩ := e
    have hy : y ^ 2 = x ^ 3 + b := (W_nonsingular_iff b x y).mp h
    have hy' : y' ^ 2 = x ^ 3 + b := (W_nonsingular_iff b x y').mp h'
    have hr := root_sq b hy
    have hyy : y = y' := by
      have h1 : (y - y') * (y + y') = 0 := by linear_combination hy - hy'
      rcases mul_eq_zero.mp h1 with h1 | h1
      · exact sub_eq_zero.mp h1
      · have hneg : y = -y' := eq_neg_of_add_eq_zero_left h1
        by_cases hyr : y = root b x
        · have : y' = root b x := by
            have : decide (y' = root b x) = true := by rw [← e2]; exact decide_eq_true hyr
            exact of_decide_eq_true this
          rw [hyr, this]
        · have hyr' : y' ≠ root b x := by
            intro hc
            have : decide (y = root b x) = true := by rw [e2]; exact decide_eq_true hc
            exact hyr (of_decide_eq_true this)
          exfalso
          have h2 : (root b x - y) * (root b x + y) = 0 := by linear_combination hr - hy
          rcases mul_eq_zero.mp h2 with h2 | h2
          · exact hyr (sub_eq_zero.mp h2).symm
          · apply hyr'
            rw [eq_neg_of_add_eq_zero_left h2, hneg, neg_neg]
    subst hyy
    rfl

variable [Finite F] [ShortW b]

instance instFinitePoint : Finite (W b).Point := Finite.of_injective _ (code_injective b)

/-- **the trivial bound** `#E(F) ≤ 2·#F + 1` -/
theorem card_point_le : Nat.card (W b).Point ≤ 2 * Nat.card F + 1 := by
  have h := Nat.card_le_card_of_injective _ (code_injective b)
  rw [Finite.card_option, Nat.card_prod, Nat.card_eq_fintype_card (α := Bool),
    Fintype.card_bool] at h
  omega

end PP.CurveOrder
