/-
C16, homomorphism law of the 11-isogeny: the chord identity `chordE` on the rows 42 … 55 of the
56 × 56 grid (kernel computation, see `PP/Proofs/IsoHom11Eval.lean`).
-/
import PP.Proofs.IsoHom11Ast

namespace PP
namespace IsoHom11

theorem chord_rows_42_7 : rowsCheck defs chordE chordD 42 7 56 = true := by decide +kernel

theorem chord_rows_49_7 : rowsCheck defs chordE chordD 49 7 56 = true := by decide +kernel

theorem chord_rows_42_14 : rowsCheck defs chordE chordD 42 14 56 = true :=
  rowsCheck_add defs chordE chordD 42 7 7 56 chord_rows_42_7 chord_rows_49_7

end IsoHom11
end PP
