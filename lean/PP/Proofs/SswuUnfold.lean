/-
C15, plumbing: kernel-friendly unfolding lemmas for `osswuG1`, `osswuG2`.

The bodies of `osswuG1`/`osswuG2` are `match`es whose discriminants are `if`s over the *concrete*
fields (`Fq`, `Fq2`, decidable equality by computation).  The auto-generated equation lemmas
(`unfold`, `simp [osswuG1]`, `delta`) make the kernel compare `osswuG1 u` with a term headed by the
(reducible) matcher; the kernel unfolds the matcher first and then *evaluates* the discriminant
on the symbolic input, which does not terminate in practice.  The command below instead proves
`osswuG1 = fun u => body` by `Eq.refl` at the level of the constant (the kernel unfolds `osswuG1`
and finds the two λ-bodies syntactically equal after substituting the head `let`s) and derives the
pointwise equation with `congrFun`.  The proof term is checked by the kernel like any other; no
axioms are involved.
-/
import Lean
import PP.Model.Map

open Lean Elab Command Meta

namespace PP.Sswu

/-- substitute the `let`/`have` binders at the head of `e` (what the kernel's `whnf_core` does) -/
def headZeta : Nat → Expr → Expr
  | 0, e => e
  | n + 1, .letE _ _ v b _ => headZeta n (b.instantiate1 v)
  | n + 1, .mdata _ e => headZeta n e
  | _, e => e

/-- `derive_unfold f as f_unfold` (for `f : α → β` defined by `fun x => body`) adds the theorem
`f_unfold : ∀ x, f x = body'` where `body'` is `body` with its head `let`s substituted. -/
elab "derive_unfold " c:ident " as " n:ident : command => do
  let cn ← liftCoreM <| realizeGlobalConstNoOverloadWithInfo c
  let info ← getConstInfo cn
  let some val := info.value? | throwError "not a definition"
  let lvls := info.levelParams.map mkLevelParam
  let .lam bn bt body bi := val | throwError "not a function"
  let .forallE _ _ codom _ := info.type | throwError "not a function type"
  if codom.hasLooseBVars then throwError "dependent type"
  let z := headZeta 1000 body
  let fnZ := Expr.lam bn bt z bi
  let fconst := mkConst cn lvls
  let (u, ul, vl) ← liftTermElabM do
    pure (← getLevel info.type, ← getLevel bt, ← getLevel codom)
  -- `h : f = fun x => body' := Eq.refl f`
  let eqFn := mkApp3 (mkConst ``Eq [u]) info.type fconst fnZ
  let hfn := mkApp2 (mkConst ``id [Level.zero]) eqFn (mkApp2 (mkConst ``Eq.refl [u]) info.type fconst)
  -- `fun x => (congrFun h x : f x = body')`
  let x := Expr.bvar 0
  let eqPt := mkApp3 (mkConst ``Eq [vl]) codom (mkApp fconst x) z
  let cf := mkApp6 (mkConst ``congrFun [ul, vl]) bt (Expr.lam `x bt codom .default) fconst fnZ hfn x
  let pf := Expr.lam bn bt (mkApp2 (mkConst ``id [Level.zero]) eqPt cf) bi
  let ty := Expr.forallE bn bt eqPt bi
  liftCoreM <| addDecl <| Declaration.thmDecl
    { name := (← getCurrNamespace) ++ n.getId, levelParams := info.levelParams, type := ty, value := pf }

derive_unfold osswuG1 as osswuG1_unfold
derive_unfold osswuG2 as osswuG2_unfold

end PP.Sswu
