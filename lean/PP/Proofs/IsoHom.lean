/-
C16, homomorphism law of the 3-isogeny, layer 1: the point map is additive.

For a field `F`, `s : F` and the hypotheses `Hyp s` (characteristic not 2, 3; `2s³` is not a square,
i.e. the kernel points `(6s, ±√(2s³))` are not rational; the target curve has no rational point of
order 2) the map

    φ : E'_s(F) → E_s(F),   O ↦ O,   (x, y) ↦ (N(ξ)/(9ξ²), −y·M(ξ)/(27ξ³)),   ξ = x − 6s

between Mathlib's groups of points of `E'_s : y² = x³ − 120s²x + 506s³` (`Wab (−120s²) (506s³)`) and
`E_s : y² = x³ + 2s³` (`W (2s³)`) is a group homomorphism (`phiPt_add`, `phiHom`).

Proof.  Chord case: `ξ(P₁+P₂)·ξ(P₁−P₂)·(ξ₁−ξ₂)² = G(ξ₁,ξ₂)`, and `P₁ ± P₂` are rational points, hence not
kernel points, so `G ≠ 0` and the images have different abscissae (`phiX_sub`); then the abscissa of
`φ(P₁+P₂)` is that of `φ(P₁)+φ(P₂)` (`IsoHom.add_x`).  Tangent case: `IsoHom.dbl_x`.  So
`φ(P+Q) = ±(φ(P)+φ(Q))` for all `P, Q` (`phiPt_add_weak`), `φ(−P) = −φ(P)`, and on a group without
2-torsion this forces additivity (`additive_of_weak`).
-/
import PP.Proofs.CurveSpec
import PP.Proofs.IsoHomAlg

set_option linter.unusedSectionVars false

namespace PP
namespace IsoHom

open WeierstrassCurve.Affine

/-! ## additivity up to sign implies additivity (no 2-torsion in the target) -/

theorem additive_of_weak {G H : Type} [AddCommGroup G] [AddCommGroup H] (φ : G → H)
    (h2 : ∀ h : H, h + h = 0 → h = 0) (hneg : ∀ a, φ (-a) = -φ a)
    (hw : ∀ a b, φ (a + b) = φ a + φ b ∨ φ (a + b) = -(φ a + φ b)) (a b : G) :
    φ (a + b) = φ a + φ b := by
  rcases hw a b with h | h
  · exact h
  -- `φ(a+b) = −(φa + φb)`; decompose `a = (a+b) + (−b)` and `b = (a+b) + (−a)`
  have ha := hw (a + b) (-b)
  have hb := hw (a + b) (-a)
  rw [add_neg_cancel_right, hneg, h] at ha
  rw [add_comm a b, add_neg_cancel_right, hneg, add_comm b a, h] at hb
  -- in each case `φa + φb = 0` or `φa = 0` / `φb = 0`
  generalize φ a = α at *
  generalize φ b = β at *
  have key : α + β = 0 := by
    rcases ha with ha | ha
    · -- `α = −(α+β) − β`  ⇒  `2(α + β) = 0`
      apply h2
      calc α + β + (α + β) = α - (-(α + β) + -β) := by abel
        _ = α - α := by rw [← ha]
        _ = 0 := sub_self _
    · -- `α = α + 2β`  ⇒  `β = 0`
      have hb0 : β = 0 := by
        apply h2
        calc β + β = -(-(α + β) + -β) - α := by abel
          _ = α - α := by rw [← ha]
          _ = 0 := sub_self _
      rcases hb with hb | hb
      · apply h2
        calc α + β + (α + β) = β - (-(α + β) + -α) := by abel
          _ = β - β := by rw [← hb]
          _ = 0 := sub_self _
      · have ha0 : α = 0 := by
          apply h2
          calc α + α = -(-(α + β) + -α) - β := by abel
            _ = β - β := by rw [← hb]
            _ = 0 := sub_self _
        rw [ha0, hb0, add_zero]
  rw [h, key, neg_zero]

variable {F : Type} [Field F]

/-! ## the curves -/

/-- the short Weierstrass curve `y² = x³ + A x + B` -/
def Wab (A B : F) : WeierstrassCurve.Affine F := ⟨0, 0, 0, A, B⟩

@[simp] theorem Wab_a₁ (A B : F) : (Wab A B).a₁ = 0 := rfl
@[simp] theorem Wab_a₂ (A B : F) : (Wab A B).a₂ = 0 := rfl
@[simp] theorem Wab_a₃ (A B : F) : (Wab A B).a₃ = 0 := rfl
@[simp] theorem Wab_a₄ (A B : F) : (Wab A B).a₄ = A := rfl
@[simp] theorem Wab_a₆ (A B : F) : (Wab A B).a₆ = B := rfl

theorem Wab_equation_iff (A B x y : F) : (Wab A B).Equation x y ↔ y ^ 2 = x ^ 3 + A * x + B := by
  rw [equation_iff]; simp

theorem Wab_negY (A B x y : F) : (Wab A B).negY x y = -y := by simp [negY]

theorem Wab_addX (A B x₁ x₂ ℓ : F) : (Wab A B).addX x₁ x₂ ℓ = ℓ ^ 2 - x₁ - x₂ := by simp [addX]

/-- hypotheses on the parameter `s` -/
structure Hyp (s : F) : Prop where
  two_ne : (2 : F) ≠ 0
  three_ne : (3 : F) ≠ 0
  /-- `2s³ = f'(6s)` is not a square: the kernel points of the isogeny are not rational -/
  nonsq : ∀ y : F, y ^ 2 ≠ 2 * s ^ 3
  /-- the target curve has no rational point of order two -/
  no2 : ∀ x : F, x ^ 3 + 2 * s ^ 3 ≠ 0

variable {s : F}

theorem Hyp.b_ne (H : Hyp s) : 2 * s ^ 3 ≠ 0 := by
  have := H.nonsq 0
  intro h
  apply this
  rw [h]; ring

theorem Hyp.shortW (H : Hyp s) : ShortW (2 * s ^ 3) := ⟨H.two_ne, H.three_ne, H.b_ne⟩

/-- the source curve `E'_s` -/
abbrev Wsrc (s : F) : WeierstrassCurve.Affine F := Wab (-120 * s ^ 2) (506 * s ^ 3)

/-- the equation of `E'_s` in the shifted abscissa -/
theorem src_eq {x y : F} (h : (Wsrc s).Nonsingular x y) : y ^ 2 = fS s (x - 6 * s) := by
  have := (Wab_equation_iff _ _ x y).mp h.1
  unfold fS
  linear_combination this

/-- a rational point of `E'_s` is not a kernel point -/
theorem no_ker (H : Hyp s) {x y : F} (h : (Wsrc s).Nonsingular x y) : x - 6 * s ≠ 0 := by
  intro h0
  have e := src_eq h
  rw [h0] at e
  apply H.nonsq y
  rw [e]; unfold fS; ring

/-- the image of an affine point is an affine point of `E_s` -/
theorem phi_nonsingular (H : Hyp s) {x y : F} (h : (Wsrc s).Nonsingular x y) :
    (W (2 * s ^ 3)).Nonsingular (phiX s (x - 6 * s)) (y * phiY s (x - 6 * s)) :=
  @W_nonsingular F _ (2 * s ^ 3) H.shortW _ _
    (phi_onCurve s (x - 6 * s) y H.three_ne (no_ker H h) (src_eq h))

/-- **the isogeny on points** -/
def phiPt (H : Hyp s) : (Wsrc s).Point → (W (2 * s ^ 3)).Point
  | .zero => .zero
  | .some _ _ h => .some _ _ (phi_nonsingular H h)

theorem phiPt_zero (H : Hyp s) : phiPt H (0 : (Wsrc s).Point) = 0 := rfl

theorem phiPt_some (H : Hyp s) {x y : F} (h : (Wsrc s).Nonsingular x y) :
    phiPt H (Point.some x y h) = Point.some _ _ (phi_nonsingular H h) := rfl

theorem phiPt_neg (H : Hyp s) (P : (Wsrc s).Point) : phiPt H (-P) = -phiPt H P := by
  rcases P with _ | ⟨x, y, h⟩
  · rfl
  · rw [Point.neg_some, phiPt_some, phiPt_some, Point.neg_some, PP.Point.some_eq_some]
    refine ⟨rfl, ?_⟩
    rw [Wab_negY, W_negY]; ring

/-- the image of an affine point has a nonzero ordinate (no 2-torsion on the target) -/
theorem phi_y_ne (H : Hyp s) {x y : F} (h : (Wsrc s).Nonsingular x y) :
    y * phiY s (x - 6 * s) ≠ 0 := by
  intro h0
  have e := phi_onCurve s (x - 6 * s) y H.three_ne (no_ker H h) (src_eq h)
  rw [h0] at e
  apply H.no2 (phiX s (x - 6 * s))
  linear_combination -e

variable [DecidableEq F]

/-- the target group has no element of order two -/
theorem target_no2 (H : Hyp s) (Q : (W (2 * s ^ 3)).Point) (h : Q + Q = 0) : Q = 0 := by
  have := H.shortW
  rcases Q with _ | ⟨x, y, hq⟩
  · rfl
  · exfalso
    have e : y ^ 2 = x ^ 3 + 2 * s ^ 3 := (W_nonsingular_iff _ x y).mp hq
    by_cases hy : y = (W (2 * s ^ 3)).negY x y
    · rw [W_negY] at hy
      have h2y : 2 * y = 0 := by linear_combination hy
      have y0 : y = 0 := (mul_eq_zero.mp h2y).resolve_left H.two_ne
      rw [y0] at e
      apply H.no2 x
      linear_combination -e
    · rw [Point.add_self_of_Y_ne hy] at h
      exact Point.some_ne_zero _ h

/-- additivity up to sign -/
theorem phiPt_add_weak (H : Hyp s) (P Q : (Wsrc s).Point) :
    phiPt H (P + Q) = phiPt H P + phiPt H Q ∨ phiPt H (P + Q) = -(phiPt H P + phiPt H Q) := by
  have h2 := H.two_ne
  have h3 := H.three_ne
  rcases P with _ | ⟨x₁, y₁, h₁⟩
  · left
    change phiPt H (0 + Q) = 0 + phiPt H Q
    rw [zero_add, zero_add]
  rcases Q with _ | ⟨x₂, y₂, h₂⟩
  · left
    change phiPt H (_ + 0) = _ + 0
    rw [add_zero, add_zero]
  have e₁ := src_eq h₁
  have e₂ := src_eq h₂
  have k₁ := no_ker H h₁
  have k₂ := no_ker H h₂
  by_cases hx : x₁ = x₂
  · subst hx
    by_cases hy : y₁ = (Wsrc s).negY x₁ y₂
    · -- opposite points
      left
      rw [Point.add_of_Y_eq rfl hy, phiPt_some, phiPt_some]
      symm
      apply Point.add_of_Y_eq rfl
      rw [Wab_negY] at hy
      rw [W_negY, hy]; ring
    · -- doubling
      have hyy : y₁ = y₂ := by
        rw [Wab_negY] at hy
        have h1 : (y₁ - y₂) * (y₁ + y₂) = 0 := by linear_combination e₁ - e₂
        rcases mul_eq_zero.mp h1 with h1 | h1
        · exact sub_eq_zero.mp h1
        · exact absurd (eq_neg_of_add_eq_zero_left h1) hy
      subst hyy
      have hy0 : y₁ ≠ 0 := by
        rintro rfl
        apply hy; rw [Wab_negY]; simp
      have hY := phi_y_ne H h₁
      have hm : mS s (x₁ - 6 * s) ≠ 0 := by
        intro h0
        apply hY
        unfold phiY
        rw [h0]; simp
      have hY' : y₁ * phiY s (x₁ - 6 * s) ≠
          (W (2 * s ^ 3)).negY (phiX s (x₁ - 6 * s)) (y₁ * phiY s (x₁ - 6 * s)) := by
        rw [W_negY]
        intro hc
        apply hY
        have : 2 * (y₁ * phiY s (x₁ - 6 * s)) = 0 := by linear_combination hc
        exact (mul_eq_zero.mp this).resolve_left h2
      rw [Point.add_self_of_Y_ne hy, phiPt_some, phiPt_some, Point.add_self_of_Y_ne hY']
      apply Point.X_eq_iff.mp
      -- abscissae
      have hsl : (Wsrc s).slope x₁ x₁ y₁ y₁ =
          (3 * (x₁ - 6 * s) ^ 2 + 36 * s * (x₁ - 6 * s) - 12 * s ^ 2) / (2 * y₁) := by
        rw [slope_of_Y_ne rfl hy, Wab_negY]
        simp only [Wab_a₁, Wab_a₂, Wab_a₄]
        congr 1 <;> ring
      have hsl' : (W (2 * s ^ 3)).slope (phiX s (x₁ - 6 * s)) (phiX s (x₁ - 6 * s))
          (y₁ * phiY s (x₁ - 6 * s)) (y₁ * phiY s (x₁ - 6 * s)) =
          3 * (phiX s (x₁ - 6 * s)) ^ 2 / (2 * (y₁ * phiY s (x₁ - 6 * s))) := by
        rw [slope_of_Y_ne rfl hY', W_negY]
        simp only [W_a₁, W_a₂, W_a₄]
        congr 1 <;> ring
      have hxi : (Wsrc s).addX x₁ x₁ ((Wsrc s).slope x₁ x₁ y₁ y₁) - 6 * s =
          xiDbl s (x₁ - 6 * s) y₁ := by
        rw [Wab_addX, hsl]; unfold xiDbl; ring
      rw [hxi, dbl_x s (x₁ - 6 * s) y₁ h2 h3 k₁ hy0 hm e₁, hsl']
      simp [addX]
      ring
  · -- chord
    have hxy : ¬(x₁ = x₂ ∧ y₁ = (Wsrc s).negY x₂ y₂) := fun h => hx h.1
    have hxy' : ¬(x₁ = x₂ ∧ y₁ = (Wsrc s).negY x₂ ((Wsrc s).negY x₂ y₂)) := fun h => hx h.1
    have hδ : x₁ - 6 * s ≠ x₂ - 6 * s := fun h => hx (by linear_combination h)
    -- `P₁ + P₂` and `P₁ − P₂` are rational points, hence not kernel points
    have nP := nonsingular_add h₁ h₂ hxy
    have nM := nonsingular_add h₁ ((nonsingular_neg ..).mpr h₂) hxy'
    have hxiP : (Wsrc s).addX x₁ x₂ ((Wsrc s).slope x₁ x₂ y₁ y₂) - 6 * s =
        xiAdd s (x₁ - 6 * s) (x₂ - 6 * s) y₁ y₂ := by
      rw [Wab_addX, slope_of_X_ne hx]; unfold xiAdd; ring
    have hxiM : (Wsrc s).addX x₁ x₂ ((Wsrc s).slope x₁ x₂ y₁ ((Wsrc s).negY x₂ y₂)) - 6 * s =
        xiAdd s (x₁ - 6 * s) (x₂ - 6 * s) y₁ (-y₂) := by
      rw [Wab_addX, slope_of_X_ne hx, Wab_negY]; unfold xiAdd; ring
    have kP := no_ker H nP
    have kM := no_ker H nM
    rw [hxiP] at kP
    rw [hxiM] at kM
    have hG : gS s (x₁ - 6 * s) (x₂ - 6 * s) ≠ 0 := by
      rw [← sum_mul_diff s _ _ y₁ y₂ hδ e₁ e₂]
      exact mul_ne_zero (mul_ne_zero kP kM) (pow_ne_zero 2 (sub_ne_zero.mpr hδ))
    have hX : phiX s (x₁ - 6 * s) ≠ phiX s (x₂ - 6 * s) := by
      intro hc
      have := phiX_sub s (x₁ - 6 * s) (x₂ - 6 * s) k₁ k₂ h3
      rw [hc, sub_self] at this
      have h9 := nine_ne h3
      have hne : (x₁ - 6 * s - (x₂ - 6 * s)) * gS s (x₁ - 6 * s) (x₂ - 6 * s) /
          (9 * (x₁ - 6 * s) ^ 2 * (x₂ - 6 * s) ^ 2) ≠ 0 :=
        div_ne_zero (mul_ne_zero (sub_ne_zero.mpr hδ) hG)
          (mul_ne_zero (mul_ne_zero h9 (pow_ne_zero 2 k₁)) (pow_ne_zero 2 k₂))
      exact hne this.symm
    rw [Point.add_of_X_ne hx, phiPt_some, phiPt_some, phiPt_some, Point.add_of_X_ne hX]
    apply Point.X_eq_iff.mp
    rw [hxiP, add_x s _ _ y₁ y₂ h3 k₁ k₂ hδ hG e₁ e₂, slope_of_X_ne hX]
    simp [addX]

/-- **the homomorphism law** -/
theorem phiPt_add (H : Hyp s) (P Q : (Wsrc s).Point) :
    phiPt H (P + Q) = phiPt H P + phiPt H Q :=
  additive_of_weak (phiPt H) (target_no2 H) (phiPt_neg H) (phiPt_add_weak H) P Q

/-- the isogeny as a homomorphism of the groups of points -/
def phiHom (H : Hyp s) : (Wsrc s).Point →+ (W (2 * s ^ 3)).Point :=
  AddMonoidHom.mk' (phiPt H) (phiPt_add H)

/-- the kernel is trivial on rational points (the kernel points are not rational) -/
theorem phiPt_eq_zero_iff (H : Hyp s) (P : (Wsrc s).Point) : phiPt H P = 0 ↔ P = 0 := by
  rcases P with _ | ⟨x, y, h⟩
  · exact ⟨fun _ => rfl, fun _ => rfl⟩
  · constructor
    · intro e
      rw [phiPt_some] at e
      exact absurd e (Point.some_ne_zero _)
    · intro e
      exact absurd e (Point.some_ne_zero _)

/-! ## transport to a curve given by other names of the same coefficients -/

/-- a map `ψ : E'(F) → E(F)` between `y² = x³ + Ax + B` and `y² = x³ + b` that is given by the formulas
    of `φ`, where `A = −120s²`, `B = 506s³`, `b = 2s³`, is additive, odd, and has trivial kernel -/
theorem hom_of_eq_phi {A B b : F} (H : Hyp s) (hA : A = -120 * s ^ 2) (hB : B = 506 * s ^ 3)
    (hb : b = 2 * s ^ 3) (ψ : (Wab A B).Point → (W b).Point) (h0 : ψ 0 = 0)
    (hsome : ∀ (x y : F) (h : (Wab A B).Nonsingular x y),
      ∃ h' : (W b).Nonsingular (phiX s (x - 6 * s)) (y * phiY s (x - 6 * s)),
        ψ (Point.some x y h) = Point.some _ _ h') :
    (∀ P Q, ψ (P + Q) = ψ P + ψ Q) ∧ (∀ P, ψ (-P) = -ψ P) ∧ (∀ P, ψ P = 0 ↔ P = 0) := by
  subst hA hB hb
  have e : ψ = phiPt H := by
    funext P
    rcases P with _ | ⟨x, y, h⟩
    · exact h0
    · obtain ⟨h', e⟩ := hsome x y h
      rw [e, phiPt_some]
  rw [e]
  exact ⟨phiPt_add H, phiPt_neg H, phiPt_eq_zero_iff H⟩

end IsoHom
end PP
