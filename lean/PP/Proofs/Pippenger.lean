/-
C10: multi-scalar multiplication by the bucket method (`sum_of_products_pippinger`,
`sum_of_products`, `find_pippinger_window`) of `PP.Model.Mul`.

Everything about points is relative to an arbitrary `M : GroupModel F G` (PP.Proofs.Interfaces);
nothing here depends on the proofs of the Jacobian formulas.  Self-contained: the few bit lemmas
needed live here, in namespace `PP.Pip`.

Main results
* `getD_limbsOf`, `testBit_limb`
* `pipDigit_spec`, `pipDigit_eq`, `pipDigit_lt`, `pipAssertFails_iff`
* `doubleN_spec`
* `pipAccumulate_spec`, `pipAccumulate_eq_none_iff`
* `pipReduceLoop_spec`, `pipReduce_spec`
* `pipLoop_spec`, `pippinger_correct`, `pippinger_panics_iff`
* `findPippingerWindow_range`, `sumOfProducts_correct`, `sumOfProducts_panics_iff`
* `digits_cover`
-/
import PP.Proofs.Interfaces
import PP.Model.Mul
import Mathlib.Data.Nat.Bitwise
import Mathlib.Algebra.BigOperators.Group.Finset.Basic
import Mathlib.Tactic.Ring
import Mathlib.Tactic.Module
open PP
namespace PP.Pip

theorem getD_limbsOf_aux : ∀ (n k j : Nat), j < n → (limbsOf n k).getD j 0 = (k >>> (64 * j)) % 2 ^ 64
  | 0, _, _, h => absurd h (Nat.not_lt_zero _)
  | n + 1, k, 0, _ => by simp [limbsOf]
  | n + 1, k, j + 1, h => by
    have := getD_limbsOf_aux n (k / 2 ^ 64) j (Nat.lt_of_succ_lt_succ h)
    simp only [limbsOf, List.getD_cons_succ, this]
    rw [Nat.mul_succ, Nat.add_comm (64 * j) 64, Nat.shiftRight_add, Nat.shiftRight_eq_div_pow k 64]

theorem getD_limbsOf {k j : Nat} (h : j < 4) : (limbsOf 4 k).getD j 0 = limb k j :=
  getD_limbsOf_aux 4 k j h

theorem testBit_limb (k j i : Nat) :
    (limb k j).testBit i = (decide (i < 64) && k.testBit (64 * j + i)) := by
  unfold limb; rw [Nat.testBit_mod_two_pow, Nat.testBit_shiftRight]

theorem shiftRight_six (n : Nat) : n >>> 6 = n / 64 := by
  rw [Nat.shiftRight_eq_div_pow]

theorem and_63 (n : Nat) : n &&& 63 = n % 64 :=
  Nat.and_two_pow_sub_one_eq_mod n 6

/-- lowest bit of the window whose top bit is `bsi` -/
def winLo (bsi w : Nat) : Nat := bsi + 1 - w
/-- number of bits of the window whose top bit is `bsi` -/
def winWidth (bsi w : Nat) : Nat := bsi + 1 - winLo bsi w
/-- the digit of `k` in the window whose top bit is `bsi` -/
def digit (k bsi w : Nat) : Nat := (k >>> winLo bsi w) % 2 ^ winWidth bsi w

theorem testBit_digit (k bsi w i : Nat) :
    (digit k bsi w).testBit i = (decide (i < winWidth bsi w) && k.testBit (winLo bsi w + i)) := by
  simp [digit, Nat.testBit_mod_two_pow, Nat.testBit_shiftRight]

theorem pipDigit_spec {k bsi w : Nat} (hw1 : 1 ≤ w) (hw : w ≤ 20) (hb : bsi < 256) :
    pipDigit (limbsOf 4 k) bsi w = digit k bsi w := by
  have hwi : bsi / 64 < 4 := by omega
  have hwi' : bsi / 64 - 1 < 4 := by omega
  unfold pipDigit
  simp only [shiftRight_six, and_63, Nat.one_shiftLeft, Nat.and_two_pow_sub_one_eq_mod,
    getD_limbsOf hwi, getD_limbsOf hwi']
  apply Nat.eq_of_testBit_eq
  intro i
  rw [testBit_digit]
  unfold winWidth winLo
  split_ifs with h1 h2
  · -- bottom of word 0
    rw [h2]
    simp only [Nat.testBit_mod_two_pow, testBit_limb]
    have e1 : bsi % 64 = bsi := by omega
    have e2 : bsi + 1 - w = 0 := by omega
    rw [e1, e2]
    by_cases hi : i < bsi + 1
    · have : i < 64 := by omega
      simp [hi, this]
    · simp [hi]
  · -- straddling
    simp only [Nat.testBit_or, Nat.testBit_mod_two_pow, Nat.testBit_shiftLeft,
      Nat.testBit_shiftRight, testBit_limb]
    by_cases hi : i < bsi + 1 - (bsi + 1 - w)
    · by_cases hi2 : i ≥ w - 1 - bsi % 64
      · have a1 : i < 64 := by omega
        have a2 : i - (w - 1 - bsi % 64) < bsi % 64 + 1 := by omega
        have a3 : i - (w - 1 - bsi % 64) < 64 := by omega
        have a4 : ¬ i < w - 1 - bsi % 64 := by omega
        have a5 : 64 * (bsi / 64) + (i - (w - 1 - bsi % 64)) = bsi + 1 - w + i := by omega
        simp [hi, hi2, a1, a2, a3, a4, a5]
      · have a4 : i < w - 1 - bsi % 64 := by omega
        have a1 : 64 - (w - 1 - bsi % 64) + i < 64 := by omega
        have a5 : 64 * (bsi / 64 - 1) + (64 - (w - 1 - bsi % 64) + i) = bsi + 1 - w + i := by omega
        simp [hi, hi2, a1, a4, a5]
    · have a4 : ¬ i < w - 1 - bsi % 64 := by omega
      have a2 : ¬ i - (w - 1 - bsi % 64) < bsi % 64 + 1 := by omega
      simp [hi, a4, a2]
  · -- inside one word
    simp only [Nat.testBit_mod_two_pow, Nat.testBit_shiftRight, testBit_limb]
    have e : bsi + 1 - (bsi + 1 - w) = w := by omega
    rw [e]
    by_cases hi : i < w
    · have a1 : bsi % 64 - (w - 1) + i < 64 := by omega
      have a5 : 64 * (bsi / 64) + (bsi % 64 - (w - 1) + i) = bsi + 1 - w + i := by omega
      simp [hi, a1, a5]
    · simp [hi]

/-- (b) in explicit form: the bucket index is bits `lo..bsi` of `k`, `lo = max 0 (bsi+1-w)` -/
theorem pipDigit_eq {k bsi w : Nat} (hw1 : 1 ≤ w) (hw : w ≤ 20) (hb : bsi < 256) :
    pipDigit (limbsOf 4 k) bsi w = (k >>> (bsi + 1 - w)) % 2 ^ (bsi + 1 - (bsi + 1 - w)) :=
  pipDigit_spec hw1 hw hb

theorem digit_lt (k bsi w : Nat) : digit k bsi w < 2 ^ w := by
  unfold digit
  refine Nat.lt_of_lt_of_le (Nat.mod_lt _ (by positivity)) (Nat.pow_le_pow_right (by decide) ?_)
  unfold winWidth winLo; omega

theorem pipDigit_lt {k bsi w : Nat} (hw1 : 1 ≤ w) (hw : w ≤ 20) (hb : bsi < 256) :
    pipDigit (limbsOf 4 k) bsi w < 2 ^ w := by
  rw [pipDigit_spec hw1 hw hb]; exact digit_lt k bsi w

theorem pipAssertFails_iff_testBit {k bsi w : Nat} (hw1 : 1 ≤ w) (hw : w ≤ 20) :
    pipAssertFails (limbsOf 4 k) bsi w = true ↔ (bsi = 255 ∧ k.testBit 255 = true) := by
  unfold pipAssertFails
  simp only [and_63, getD_limbsOf (show 3 < 4 by decide)]
  have hbit : (limb k 3 >>> 63 != 0) = k.testBit 255 := by
    have h1 : limb k 3 >>> 63 = (k >>> 255) % 2 := by
      apply Nat.eq_of_testBit_eq
      intro i
      rw [Nat.testBit_shiftRight, testBit_limb, show (2:Nat) = 2 ^ 1 by rfl,
        Nat.testBit_mod_two_pow, Nat.testBit_shiftRight]
      by_cases hi : i < 1
      · have : i = 0 := by omega
        subst this; simp
      · have : ¬ 63 + i < 64 := by omega
        simp [hi, this]
    rw [h1, Nat.testBit, Nat.one_and_eq_mod_two]
  split_ifs with h
  · constructor
    · intro h'; exact absurd h' (by simp)
    · rintro ⟨rfl, _⟩; omega
  · rw [hbit]; simp

theorem testBit_255_iff {k : Nat} (hk : k < 2 ^ 256) : k.testBit 255 = true ↔ 2 ^ 255 ≤ k := by
  constructor
  · intro h; exact Nat.ge_two_pow_of_testBit h
  · intro h
    have : k / 2 ^ 255 = 1 := by omega
    rw [Nat.testBit_eq_decide_div_mod_eq, this]; rfl

theorem pipAssertFails_iff {k bsi w : Nat} (hw1 : 1 ≤ w) (hw : w ≤ 20) (hk : k < 2 ^ 256) :
    pipAssertFails (limbsOf 4 k) bsi w = true ↔ (bsi = 255 ∧ 2 ^ 255 ≤ k) := by
  rw [pipAssertFails_iff_testBit hw1 hw, testBit_255_iff hk]

section arr
variable {α : Type}
theorem getD_set! (B : Array α) (i d : Nat) (v z : α) :
    (B.set! i v).getD d z = if i = d ∧ i < B.size then v else B.getD d z := by
  simp only [Array.set!_eq_setIfInBounds, Array.getD_eq_getD_getElem?, Array.getElem?_setIfInBounds]
  by_cases h1 : i = d
  · by_cases h2 : i < B.size
    · subst h1; simp [h2]
    · subst h1
      simp [h2]
  · simp [h1]

theorem getElem?_eq_some_getD (B : Array α) {i : Nat} (z : α) (h : i < B.size) :
    B[i]? = some (B.getD i z) := by
  simp [Array.getD_eq_getD_getElem?, h]

theorem size_set! (B : Array α) (i : Nat) (v : α) : (B.set! i v).size = B.size := by
  simp

theorem getD_replicate (n d : Nat) (z : α) : (Array.replicate n z).getD d z = z := by
  simp only [Array.getD_eq_getD_getElem?, Array.getElem?_replicate]
  split_ifs <;> rfl
end arr

variable {F : Type} [Field F] [DecidableEq F] [FieldOps F] {G : Type} [AddCommGroup G]
  (M : GroupModel F G)

theorem doubleN_spec (n : Nat) : ∀ (P : Jac F), M.ValidJ P →
    M.ValidJ (P.doubleN n) ∧ M.absJ (P.doubleN n) = 2 ^ n • M.absJ P := by
  induction n with
  | zero => intro P hP; simp [Jac.doubleN, hP]
  | succ n ih =>
    intro P hP
    obtain ⟨h1, h2⟩ := ih P.double (M.double_valid P hP)
    refine ⟨h1, ?_⟩
    show M.absJ (P.double.doubleN n) = _
    rw [h2, M.double_abs P hP, ← two_nsmul, ← mul_nsmul, pow_succ']

def absB (B : Array (Jac F)) (d : Nat) : G := M.absJ (B.getD d Jac.zero)
def AllValid (B : Array (Jac F)) : Prop := ∀ d, M.ValidJ (B.getD d Jac.zero)
def wsum (B : Array (Jac F)) : G := ∑ d ∈ Finset.range B.size, d • absB M B d

theorem absB_set! (B : Array (Jac F)) (i d : Nat) (v : Jac F) :
    absB M (B.set! i v) d = if i = d ∧ i < B.size then M.absJ v else absB M B d := by
  unfold absB; rw [getD_set!]; split_ifs <;> rfl

theorem AllValid_set! {B : Array (Jac F)} (hB : AllValid M B) (i : Nat) {v : Jac F} (hv : M.ValidJ v) :
    AllValid M (B.set! i v) := by
  intro d; rw [getD_set!]; split_ifs
  · exact hv
  · exact hB d


theorem wsum_set! (B : Array (Jac F)) {i : Nat} (v : Jac F) (hi : i < B.size) :
    wsum M (B.set! i v) = wsum M B + i • (M.absJ v - absB M B i) := by
  unfold wsum
  rw [size_set!]
  have : ∀ d ∈ Finset.range B.size, d • absB M (B.set! i v) d
      = d • absB M B d + (if i = d then d • (M.absJ v - absB M B d) else 0) := by
    intro d _
    rw [absB_set!]
    by_cases h : i = d
    · subst h; simp [hi, nsmul_sub]
    · simp [h]
  rw [Finset.sum_congr rfl this, Finset.sum_add_distrib, Finset.sum_ite_eq]
  simp [hi]



def pairsOf (l : List (Aff F × Nat)) : List (Aff F × List Nat) :=
  l.map (fun pk => (pk.1, limbsOf 4 pk.2))

/-- the `assert!` does not fire for any scalar of `l` in the window with top bit `bsi` -/
def AssertOk (bsi : Nat) (l : List (Aff F × Nat)) : Prop :=
  ∀ pk ∈ l, ¬ (bsi = 255 ∧ pk.2.testBit 255 = true)

theorem pipAccumulate_cons (bsi w : Nat) (P : Aff F) (k : Nat) (l : List (Aff F × Nat))
    (B : Array (Jac F)) (m0 : Nat) :
    pipAccumulate bsi w (pairsOf ((P, k) :: l)) (B, m0) =
      if pipAssertFails (limbsOf 4 k) bsi w then none
      else if pipDigit (limbsOf 4 k) bsi w > 0 then
        match B[pipDigit (limbsOf 4 k) bsi w]? with
        | none => none
        | some b => pipAccumulate bsi w (pairsOf l)
            (B.set! (pipDigit (limbsOf 4 k) bsi w) (b.addMixed P), max m0 (pipDigit (limbsOf 4 k) bsi w))
      else pipAccumulate bsi w (pairsOf l) (B, m0) := by
  simp only [pairsOf, List.map_cons, pipAccumulate]
  rfl

theorem pipAccumulate_spec {w bsi : Nat} (hw1 : 1 ≤ w) (hw : w ≤ 20) (hb : bsi < 256) :
    ∀ (l : List (Aff F × Nat)) (B : Array (Jac F)) (m0 : Nat),
      B.size = 2 ^ w → AllValid M B → (∀ pk ∈ l, M.ValidA pk.1) → AssertOk bsi l → m0 < 2 ^ w →
      ∃ B' m', pipAccumulate bsi w (pairsOf l) (B, m0) = some (B', m') ∧ B'.size = 2 ^ w ∧
        AllValid M B' ∧
        wsum M B' = wsum M B + (l.map (fun pk => digit pk.2 bsi w • M.absA pk.1)).sum ∧
        absB M B' 0 = absB M B 0 ∧ m' < 2 ^ w ∧
        ((∀ d, m0 < d → absB M B d = 0) → ∀ d, m' < d → absB M B' d = 0) := by
  intro l
  induction l with
  | nil =>
    intro B m0 hs hv _ _ hm
    exact ⟨B, m0, by simp [pairsOf, pipAccumulate], hs, hv, by simp, rfl, hm, fun h => h⟩
  | cons pk l ih =>
    obtain ⟨P, k⟩ := pk
    intro B m0 hs hv hP hA hm
    have hnf : pipAssertFails (limbsOf 4 k) bsi w = false := by
      rw [Bool.eq_false_iff, Ne, pipAssertFails_iff_testBit hw1 hw]
      exact hA (P, k) (List.mem_cons_self ..)
    have hP' : ∀ pk ∈ l, M.ValidA pk.1 := fun pk h => hP pk (List.mem_cons_of_mem _ h)
    have hA' : AssertOk bsi l := fun pk h => hA pk (List.mem_cons_of_mem _ h)
    have hPv : M.ValidA P := hP (P, k) (List.mem_cons_self ..)
    rw [pipAccumulate_cons, hnf, pipDigit_spec hw1 hw hb]
    simp only [Bool.false_eq_true, if_false, List.map_cons, List.sum_cons]
    have hdl := digit_lt k bsi w
    generalize digit k bsi w = idx at hdl ⊢
    by_cases hpos : idx > 0
    · rw [if_pos hpos, getElem?_eq_some_getD B Jac.zero (by omega : idx < B.size)]
      simp only
      have hbv : M.ValidJ ((B.getD idx Jac.zero).addMixed P) := M.addMixed_valid _ _ (hv idx) hPv
      obtain ⟨B', m', h1, h2, h3, h4, h5, h6, h7⟩ :=
        ih (B.set! idx ((B.getD idx Jac.zero).addMixed P)) (max m0 idx)
          (by rw [size_set!, hs]) (AllValid_set! M hv idx hbv) hP' hA' (by omega)
      refine ⟨B', m', h1, h2, h3, ?_, ?_, h6, ?_⟩
      · rw [h4, wsum_set! M B _ (by omega), M.addMixed_abs _ _ (hv idx) hPv]
        unfold absB
        rw [add_sub_cancel_left, add_assoc]
      · rw [h5, absB_set!, if_neg (by omega)]
      · intro hz
        apply h7
        intro d hd
        rw [absB_set!, if_neg (by omega)]
        exact hz d (by omega)
    · rw [if_neg hpos]
      have : idx = 0 := by omega
      subst this
      obtain ⟨B', m', h1, h2, h3, h4, h5, h6, h7⟩ := ih B m0 hs hv hP' hA' hm
      exact ⟨B', m', h1, h2, h3, by rw [h4, zero_nsmul, zero_add], h5, h6, h7⟩

theorem pipAccumulate_eq_none_iff {w bsi : Nat} (hw1 : 1 ≤ w) (hw : w ≤ 20) (hb : bsi < 256) :
    ∀ (l : List (Aff F × Nat)) (B : Array (Jac F)) (m0 : Nat), B.size = 2 ^ w →
      (pipAccumulate bsi w (pairsOf l) (B, m0) = none ↔
        ∃ pk ∈ l, pipAssertFails (limbsOf 4 pk.2) bsi w = true) := by
  intro l
  induction l with
  | nil => intro B m0 _; simp [pairsOf, pipAccumulate]
  | cons pk l ih =>
    obtain ⟨P, k⟩ := pk
    intro B m0 hs
    rw [pipAccumulate_cons]
    by_cases hf : pipAssertFails (limbsOf 4 k) bsi w = true
    · simp [hf]
    · have hdl := pipDigit_lt (k := k) hw1 hw hb
      have hf' : pipAssertFails (limbsOf 4 k) bsi w = false := by simpa using hf
      simp only [hf', Bool.false_eq_true, if_false, List.mem_cons, exists_eq_or_imp, false_or]
      generalize pipDigit (limbsOf 4 k) bsi w = idx at hdl ⊢
      by_cases hpos : idx > 0
      · rw [if_pos hpos, getElem?_eq_some_getD B Jac.zero (by omega : idx < B.size)]
        exact ih _ _ (by rw [size_set!, hs])
      · rw [if_neg hpos]; exact ih _ _ hs



theorem pipReduceLoop_spec : ∀ (i : Nat) (B : Array (Jac F)) (res : Jac F),
    AllValid M B → M.ValidJ res → i + 1 < B.size → (∀ d, i + 1 < d → absB M B d = 0) →
    ∃ B' res', pipReduceLoop i (B, res) = some (B', res') ∧ B'.size = B.size ∧ AllValid M B' ∧
      M.ValidJ res' ∧
      M.absJ res' = M.absJ res + i • absB M B (i + 1) + ∑ d ∈ Finset.range (i + 1), d • absB M B d ∧
      (∀ d, 2 ≤ d → absB M B' d = 0) ∧ absB M B' 0 = absB M B 0 := by
  intro i
  induction i with
  | zero =>
    intro B res hv hr _ hz
    exact ⟨B, res, by simp [pipReduceLoop], rfl, hv, hr, by simp, fun d hd => hz d (by omega), rfl⟩
  | succ i ih =>
    intro B res hv hr hs hz
    rw [pipReduceLoop, getElem?_eq_some_getD B Jac.zero hs,
      getElem?_eq_some_getD B Jac.zero (by omega : i + 1 < B.size)]
    simp only
    have hbv : M.ValidJ ((B.getD (i + 1) Jac.zero).add (B.getD (i + 1 + 1) Jac.zero)) :=
      M.add_valid _ _ (hv _) (hv _)
    have hba : M.absJ ((B.getD (i + 1) Jac.zero).add (B.getD (i + 1 + 1) Jac.zero))
        = absB M B (i + 1) + absB M B (i + 1 + 1) := M.add_abs _ _ (hv _) (hv _)
    generalize (B.getD (i + 1) Jac.zero).add (B.getD (i + 1 + 1) Jac.zero) = bi' at hbv hba ⊢
    have hB1 : ∀ d, absB M ((B.set! (i + 1) bi').set! (i + 1 + 1) Jac.zero) d
        = if i + 1 + 1 = d then 0 else if i + 1 = d then M.absJ bi' else absB M B d := by
      intro d
      rw [absB_set!, absB_set!, size_set!, M.zero_abs]
      by_cases h1 : i + 1 + 1 = d
      · subst h1; simp [hs]
      · by_cases h2 : i + 1 = d
        · have : i + 1 < B.size := by omega
          subst h2; simp [this]
        · simp [h1, h2]
    obtain ⟨B', res', h1, h2, h3, h4, h5, h6, h7⟩ :=
      ih ((B.set! (i + 1) bi').set! (i + 1 + 1) Jac.zero) (res.add bi')
        (AllValid_set! M (AllValid_set! M hv _ hbv) _ M.zero_valid) (M.add_valid _ _ hr hbv)
        (by rw [size_set!, size_set!]; omega)
        (by
          intro d hd
          rw [hB1]
          by_cases h1 : i + 1 + 1 = d
          · simp [h1]
          · rw [if_neg h1, if_neg (by omega)]; exact hz d (by omega))
    refine ⟨B', res', h1, by rw [h2, size_set!, size_set!], h3, h4, ?_, h6, ?_⟩
    · rw [h5, M.add_abs _ _ hr hbv, hba, hB1, if_neg (by omega), if_pos rfl, hba,
        Finset.sum_range_succ _ (i + 1)]
      have : ∀ d ∈ Finset.range (i + 1),
          d • absB M ((B.set! (i + 1) bi').set! (i + 1 + 1) Jac.zero) d = d • absB M B d := by
        intro d hd
        rw [Finset.mem_range] at hd
        rw [hB1, if_neg (by omega), if_neg (by omega)]
      rw [Finset.sum_congr rfl this]
      module
    · rw [h7, hB1, if_neg (by omega), if_neg (by omega)]



theorem wsum_eq_of_zero_above {B : Array (Jac F)} {m : Nat} (hm : m < B.size)
    (hz : ∀ d, m < d → absB M B d = 0) :
    wsum M B = ∑ d ∈ Finset.range (m + 1), d • absB M B d := by
  unfold wsum
  symm
  apply Finset.sum_subset
  · intro d; simp only [Finset.mem_range]; omega
  · intro d _ hd
    simp only [Finset.mem_range] at hd
    rw [hz d (by omega), nsmul_zero]

theorem pipReduce_spec (B : Array (Jac F)) (res : Jac F) (maxB : Nat)
    (hv : AllValid M B) (hr : M.ValidJ res) (hs2 : 2 ≤ B.size) (hm : maxB < B.size)
    (hz : ∀ d, maxB < d → absB M B d = 0) (h0 : absB M B 0 = 0) :
    ∃ B' res', pipReduce B res maxB = some (B', res') ∧ B'.size = B.size ∧ AllValid M B' ∧
      M.ValidJ res' ∧ M.absJ res' = M.absJ res + wsum M B ∧ ∀ d, absB M B' d = 0 := by
  unfold pipReduce
  rw [getElem?_eq_some_getD B Jac.zero hm]
  simp only [Option.bind_eq_bind, Option.bind_some]
  have hrv := M.add_valid _ _ hr (hv maxB)
  have hra : M.absJ (res.add (B.getD maxB Jac.zero)) = M.absJ res + absB M B maxB :=
    M.add_abs _ _ hr (hv maxB)
  obtain ⟨B', res', h1, h2, h3, h4, h5, h6, h7⟩ :=
    pipReduceLoop_spec M (maxB - 1) B (res.add (B.getD maxB Jac.zero)) hv hrv (by omega)
      (fun d hd => hz d (by omega))
  rw [h1]
  simp only [Option.bind_some, Option.pure_def]
  rw [if_neg (by omega)]
  refine ⟨_, _, rfl, by rw [size_set!, h2], AllValid_set! M h3 _ M.zero_valid, h4, ?_, ?_⟩
  · rw [h5, hra, wsum_eq_of_zero_above M hm hz]
    rcases Nat.eq_zero_or_pos maxB with h | h
    · subst h
      simp [h0]
    · obtain ⟨j, rfl⟩ : ∃ j, maxB = j + 1 := ⟨maxB - 1, by omega⟩
      rw [Finset.sum_range_succ _ (j + 1)]
      simp only [Nat.add_sub_cancel]
      module
  · intro d
    rw [absB_set!, M.zero_abs]
    split_ifs with h
    · rfl
    · by_cases hd : d = 0
      · subst hd; rw [h7, h0]
      · exact h6 d (by omega)



theorem shift_split (k bsi w : Nat) :
    k >>> winLo bsi w = 2 ^ winWidth bsi w * (k >>> (bsi + 1)) + digit k bsi w := by
  have e : bsi + 1 = winLo bsi w + winWidth bsi w := by unfold winWidth winLo; omega
  unfold digit
  rw [e, Nat.shiftRight_add, Nat.shiftRight_eq_div_pow (k >>> winLo bsi w)]
  exact (Nat.div_add_mod _ _).symm

/-- `Σ (k_i >>> n) • P_i` -/
def shiftSum (l : List (Aff F × Nat)) (n : Nat) : G :=
  (l.map (fun pk => (pk.2 >>> n) • M.absA pk.1)).sum

theorem shiftSum_split (l : List (Aff F × Nat)) (bsi w : Nat) :
    2 ^ winWidth bsi w • shiftSum M l (bsi + 1)
        + (l.map (fun pk => digit pk.2 bsi w • M.absA pk.1)).sum
      = shiftSum M l (winLo bsi w) := by
  unfold shiftSum
  induction l with
  | nil => simp
  | cons pk l ih =>
    simp only [List.map_cons, List.sum_cons]
    rw [← ih, shift_split pk.2 bsi w]
    module

theorem shiftSum_zero (l : List (Aff F × Nat)) :
    shiftSum M l 0 = (l.map (fun pk => pk.2 • M.absA pk.1)).sum := by
  simp [shiftSum]

theorem shiftSum_256 (l : List (Aff F × Nat)) (hk : ∀ pk ∈ l, pk.2 < 2 ^ 256) :
    shiftSum M l 256 = 0 := by
  unfold shiftSum
  induction l with
  | nil => simp
  | cons pk l ih =>
    simp only [List.map_cons, List.sum_cons]
    rw [ih (fun pk h => hk pk (List.mem_cons_of_mem _ h)), Nat.shiftRight_eq_div_pow,
      Nat.div_eq_of_lt (hk pk (List.mem_cons_self ..)), zero_nsmul, zero_add]

theorem pipLoop_spec {w : Nat} (hw1 : 1 ≤ w) (hw : w ≤ 20) (l : List (Aff F × Nat))
    (hP : ∀ pk ∈ l, M.ValidA pk.1) (hk : ∀ pk ∈ l, pk.2.testBit 255 = false) :
    ∀ (fuel bsi nd : Nat) (B : Array (Jac F)) (res : Jac F),
      bsi < 256 → bsi < fuel * w → B.size = 2 ^ w → AllValid M B → (∀ d, absB M B d = 0) →
      M.ValidJ res →
      M.absJ (res.doubleN nd) = 2 ^ winWidth bsi w • shiftSum M l (bsi + 1) →
      ∃ R, pipLoop (pairsOf l) w fuel bsi nd B res = some R ∧ M.ValidJ R ∧
        M.absJ R = shiftSum M l 0 := by
  intro fuel
  induction fuel with
  | zero => intro bsi nd B res _ h; omega
  | succ fuel ih =>
    intro bsi nd B res hb hf hs hv hz hr hres
    have hpow : 2 ≤ 2 ^ w := by
      calc 2 = 2 ^ 1 := rfl
        _ ≤ 2 ^ w := Nat.pow_le_pow_right (by decide) hw1
    have hA : AssertOk bsi l := by
      intro pk hpk ⟨_, h⟩
      rw [hk pk hpk] at h; exact absurd h (by decide)
    obtain ⟨B1, m, a1, a2, a3, a4, a5, a6, a7⟩ :=
      pipAccumulate_spec M hw1 hw hb l B 0 hs hv hP hA (by omega)
    have a7' := a7 (fun d _ => hz d)
    obtain ⟨hrv, _⟩ := doubleN_spec M nd res hr
    obtain ⟨B2, res2, r1, r2, r3, r4, r5, r6⟩ :=
      pipReduce_spec M B1 (res.doubleN nd) m a3 hrv (by omega) (by omega) a7' (by rw [a5, hz 0])
    have hw0 : wsum M B = 0 := by
      unfold wsum; apply Finset.sum_eq_zero; intro d _; rw [hz d, nsmul_zero]
    have hres2 : M.absJ res2 = shiftSum M l (winLo bsi w) := by
      rw [r5, hres, a4, hw0, zero_add, shiftSum_split]
    rw [pipLoop]
    simp only [Option.bind_eq_bind, a1, Option.bind_some, r1, Option.pure_def]
    by_cases hlt : bsi < w
    · rw [if_pos hlt]
      refine ⟨res2, rfl, r4, ?_⟩
      rw [hres2]
      have : winLo bsi w = 0 := by unfold winLo; omega
      rw [this]
    · rw [if_neg hlt]
      have hnd : (if bsi - w < w - 1 then bsi - w + 1 else w) = winWidth (bsi - w) w := by
        unfold winWidth winLo; split_ifs <;> omega
      have hlo : winLo bsi w = bsi - w + 1 := by unfold winLo; omega
      rw [hnd]
      apply ih (bsi - w) _ B2 res2 (by omega) _ (by rw [r2, a2]) r3 r6 r4
      · rw [(doubleN_spec M _ res2 r4).2, hres2, hlo]
      · have : (fuel + 1) * w = fuel * w + w := by ring
        omega

theorem pipLoop_main {w : Nat} (hw1 : 1 ≤ w) (hw : w ≤ 20) (l : List (Aff F × Nat))
    (hP : ∀ pk ∈ l, M.ValidA pk.1) (hk : ∀ pk ∈ l, pk.2 < 2 ^ 255) :
    ∃ R, pipLoop (pairsOf l) w 257 255 0 (Array.replicate (2 ^ w) Jac.zero) Jac.zero = some R ∧
      M.ValidJ R ∧ M.absJ R = (l.map (fun pk => pk.2 • M.absA pk.1)).sum := by
  rw [← shiftSum_zero]
  apply pipLoop_spec M hw1 hw l hP
  · intro pk hpk; exact Nat.testBit_lt_two_pow (hk pk hpk)
  · decide
  · omega
  · simp
  · intro d; rw [getD_replicate]; exact M.zero_valid
  · intro d; unfold absB; rw [getD_replicate]; exact M.zero_abs
  · exact M.zero_valid
  · rw [shiftSum_256 M l (fun pk h => Nat.lt_trans (hk pk h) (by decide)), nsmul_zero]
    exact M.zero_abs

omit [Field F] [DecidableEq F] [FieldOps F] in
theorem pairsOf_zip (points : List (Aff F)) (ks : List Nat) :
    List.zip points (ks.map (limbsOf 4)) = pairsOf (List.zip points ks) := by
  rw [List.zip_map_right]; rfl

theorem pippinger_correct_zip {w : Nat} (hw1 : 1 ≤ w) (hw : w ≤ 20) (points : List (Aff F))
    (ks : List Nat) (hk : ∀ pk ∈ List.zip points ks, pk.2 < 2 ^ 255)
    (hP : ∀ pk ∈ List.zip points ks, M.ValidA pk.1) :
    ∃ R, sumOfProductsPippinger points ks w = some R ∧ M.ValidJ R ∧
      M.absJ R = ((List.zip points ks).map (fun pk => pk.2 • M.absA pk.1)).sum := by
  unfold sumOfProductsPippinger
  rw [if_neg (by omega)]
  simp only [pairsOf_zip]
  exact pipLoop_main M hw1 hw _ hP hk

theorem pippinger_correct {w : Nat} (hw1 : 1 ≤ w) (hw : w ≤ 20) (points : List (Aff F))
    (ks : List Nat) (hk : ∀ k ∈ ks, k < 2 ^ 255) (hP : ∀ P ∈ points, M.ValidA P) :
    ∃ R, sumOfProductsPippinger points ks w = some R ∧ M.ValidJ R ∧
      M.absJ R = ((List.zip points ks).map (fun pk => pk.2 • M.absA pk.1)).sum :=
  pippinger_correct_zip M hw1 hw points ks
    (fun pk h => hk _ (List.of_mem_zip (a := pk.1) (b := pk.2) h).2)
    (fun pk h => hP _ (List.of_mem_zip (a := pk.1) (b := pk.2) h).1)

theorem pippinger_panics_iff {w : Nat} (hw1 : 1 ≤ w) (hw : w ≤ 20) (points : List (Aff F))
    (ks : List Nat) (hk : ∀ k ∈ ks, k < 2 ^ 256) (hP : ∀ P ∈ points, M.ValidA P) :
    sumOfProductsPippinger points ks w = none ↔ ∃ pk ∈ List.zip points ks, 2 ^ 255 ≤ pk.2 := by
  constructor
  · intro hnone
    by_contra hne
    obtain ⟨R, hR, _⟩ := pippinger_correct_zip M hw1 hw points ks
      (fun pk h => Nat.lt_of_not_le (fun hh => hne ⟨pk, h, hh⟩))
      (fun pk h => hP _ (List.of_mem_zip (a := pk.1) (b := pk.2) h).1)
    rw [hnone] at hR; exact absurd hR (by simp)
  · rintro ⟨pk, hpk, hge⟩
    unfold sumOfProductsPippinger
    rw [if_neg (by omega)]
    simp only [pairsOf_zip]
    rw [pipLoop]
    have : pipAccumulate 255 w (pairsOf (List.zip points ks))
        (Array.replicate (2 ^ w) Jac.zero, 0) = none := by
      rw [pipAccumulate_eq_none_iff hw1 hw (by decide) _ _ _ (by simp)]
      refine ⟨pk, hpk, ?_⟩
      rw [pipAssertFails_iff hw1 hw (hk _ (List.of_mem_zip (a := pk.1) (b := pk.2) hpk).2)]
      exact ⟨rfl, hge⟩
    simp only [Option.bind_eq_bind, this, Option.bind_none]



/-! ### the window heuristic -/

theorem findPippingerWindowAux_pred (p : Nat → Prop) (n : Nat) :
    ∀ (l : List (Nat × Nat)) (prev : Nat), p prev → (∀ x ∈ l, p x.2) →
      p (findPippingerWindowAux n l prev) := by
  intro l
  induction l with
  | nil => intro prev h _; exact h
  | cons x l ih =>
    obtain ⟨b, w⟩ := x
    intro prev h hl
    unfold findPippingerWindowAux
    split_ifs
    · exact h
    · exact ih w (hl (b, w) (List.mem_cons_self ..)) (fun x hx => hl x (List.mem_cons_of_mem _ hx))

theorem findPippingerWindowAux_mem (n : Nat) (l : List (Nat × Nat)) (prev : Nat) :
    findPippingerWindowAux n l prev ∈ prev :: l.map Prod.snd :=
  findPippingerWindowAux_pred (fun r => r ∈ prev :: l.map Prod.snd) n l prev
    (List.mem_cons_self ..)
    (fun _ hx => List.mem_cons_of_mem _ (List.mem_map_of_mem hx))

theorem findPippingerWindow_range (n : Nat) :
    1 ≤ findPippingerWindow n ∧ findPippingerWindow n ≤ 16 := by
  unfold findPippingerWindow
  unfold Gen.PIPPINGER_BOUNDARIES
  simp only []
  apply findPippingerWindowAux_pred (fun r => 1 ≤ r ∧ r ≤ 16)
  · decide
  · decide

theorem sumOfProducts_correct (points : List (Aff F)) (ks : List Nat)
    (hk : ∀ k ∈ ks, k < 2 ^ 255) (hP : ∀ P ∈ points, M.ValidA P) :
    ∃ R, sumOfProducts points ks = some R ∧ M.ValidJ R ∧
      M.absJ R = ((List.zip points ks).map (fun pk => pk.2 • M.absA pk.1)).sum := by
  unfold sumOfProducts
  obtain ⟨h1, h2⟩ := findPippingerWindow_range (min points.length ks.length)
  exact pippinger_correct M h1 (by omega) points ks hk hP

theorem sumOfProducts_panics_iff (points : List (Aff F)) (ks : List Nat)
    (hk : ∀ k ∈ ks, k < 2 ^ 256) (hP : ∀ P ∈ points, M.ValidA P) :
    sumOfProducts points ks = none ↔ ∃ pk ∈ List.zip points ks, 2 ^ 255 ≤ pk.2 := by
  unfold sumOfProducts
  obtain ⟨h1, h2⟩ := findPippingerWindow_range (min points.length ks.length)
  exact pippinger_panics_iff M h1 (by omega) points ks hk hP

/-! ### the windows visited by the loop tile the scalar -/

/-- `Σ digit · 2^lo` over the windows visited by `pipLoop` started at top bit `bsi` -/
def windowsVal (k w : Nat) : Nat → Nat → Nat
  | 0, _ => 0
  | fuel + 1, bsi =>
    digit k bsi w * 2 ^ winLo bsi w + if bsi < w then 0 else windowsVal k w fuel (bsi - w)

theorem windowsVal_eq (k : Nat) {w : Nat} (hw1 : 1 ≤ w) :
    ∀ (fuel bsi : Nat), bsi < fuel * w → windowsVal k w fuel bsi = k % 2 ^ (bsi + 1) := by
  intro fuel
  induction fuel with
  | zero => intro bsi h; omega
  | succ fuel ih =>
    intro bsi hf
    have e : bsi + 1 = winLo bsi w + winWidth bsi w := by unfold winWidth winLo; omega
    have hsplit : k % 2 ^ (bsi + 1) = digit k bsi w * 2 ^ winLo bsi w + k % 2 ^ winLo bsi w := by
      rw [e, pow_add, Nat.mod_mul, digit, Nat.shiftRight_eq_div_pow]
      ring
    unfold windowsVal
    rw [hsplit]
    congr 1
    split_ifs with hlt
    · have : winLo bsi w = 0 := by unfold winLo; omega
      rw [this]; simp [Nat.mod_one]
    · have hlo : winLo bsi w = bsi - w + 1 := by unfold winLo; omega
      rw [hlo]
      apply ih
      have : (fuel + 1) * w = fuel * w + w := by ring
      omega

theorem digits_cover {k w : Nat} (hw1 : 1 ≤ w) (hk : k < 2 ^ 256) : windowsVal k w 257 255 = k := by
  rw [windowsVal_eq k hw1 257 255 (by omega)]
  exact Nat.mod_eq_of_lt hk

end PP.Pip
