/-
C09, layer 3: the model type `Fq12` with the model's own `+ - * neg 0 1` is the commutative ring
`Fq6[w]/(w² - v)`.  (Field structure: `PP.Proofs.TowerField`.)
-/
import PP.Proofs.Tower6

set_option linter.unusedSectionVars false

namespace PP
namespace Fq12

open Fq6 (v)

@[ext] theorem ext {a b : Fq12} (h0 : a.c0 = b.c0) (h1 : a.c1 = b.c1) : a = b := by
  cases a; cases b; simp_all

@[simp] theorem zero_c0 : (0 : Fq12).c0 = 0 := rfl
@[simp] theorem zero_c1 : (0 : Fq12).c1 = 0 := rfl
@[simp] theorem one_c0 : (1 : Fq12).c0 = 1 := rfl
@[simp] theorem one_c1 : (1 : Fq12).c1 = 0 := rfl
@[simp] theorem add_c0 (a b : Fq12) : (a + b).c0 = a.c0 + b.c0 := rfl
@[simp] theorem add_c1 (a b : Fq12) : (a + b).c1 = a.c1 + b.c1 := rfl
@[simp] theorem sub_c0 (a b : Fq12) : (a - b).c0 = a.c0 - b.c0 := rfl
@[simp] theorem sub_c1 (a b : Fq12) : (a - b).c1 = a.c1 - b.c1 := rfl
@[simp] theorem neg_c0 (a : Fq12) : (-a).c0 = -a.c0 := rfl
@[simp] theorem neg_c1 (a : Fq12) : (-a).c1 = -a.c1 := rfl

/-! ### the Karatsuba product is the schoolbook product modulo `w² = v` -/

theorem mul_c0 (a b : Fq12) : (a * b).c0 = a.c0 * b.c0 + v * (a.c1 * b.c1) := by
  show (a.c1 * b.c1).mulByNonresidue + a.c0 * b.c0 = _
  rw [Fq6.mulByNonresidue_eq]; ring

theorem mul_c1 (a b : Fq12) : (a * b).c1 = a.c0 * b.c1 + a.c1 * b.c0 := by
  show (a.c1 + a.c0) * (b.c0 + b.c1) - a.c0 * b.c0 - a.c1 * b.c1 = _
  ring

theorem mul_spec (a b : Fq12) :
    (a * b).c0 = a.c0 * b.c0 + v * (a.c1 * b.c1) ∧ (a * b).c1 = a.c0 * b.c1 + a.c1 * b.c0 :=
  ⟨mul_c0 a b, mul_c1 a b⟩

/-! ### the ring structure on the model's operations -/

instance : NatCast Fq12 := ⟨fun n => ⟨(n : Fq6), 0⟩⟩
instance : IntCast Fq12 := ⟨fun z => ⟨(z : Fq6), 0⟩⟩
instance : SMul ℕ Fq12 := ⟨fun n a => ⟨n • a.c0, n • a.c1⟩⟩
instance : SMul ℤ Fq12 := ⟨fun z a => ⟨z • a.c0, z • a.c1⟩⟩

@[simp] theorem natCast_c0 (n : ℕ) : ((n : Fq12)).c0 = (n : Fq6) := rfl
@[simp] theorem natCast_c1 (n : ℕ) : ((n : Fq12)).c1 = 0 := rfl
@[simp] theorem intCast_c0 (n : ℤ) : ((n : Fq12)).c0 = (n : Fq6) := rfl
@[simp] theorem intCast_c1 (n : ℤ) : ((n : Fq12)).c1 = 0 := rfl
@[simp] theorem nsmul_c0 (n : ℕ) (a : Fq12) : (n • a).c0 = n • a.c0 := rfl
@[simp] theorem nsmul_c1 (n : ℕ) (a : Fq12) : (n • a).c1 = n • a.c1 := rfl
@[simp] theorem zsmul_c0 (n : ℤ) (a : Fq12) : (n • a).c0 = n • a.c0 := rfl
@[simp] theorem zsmul_c1 (n : ℤ) (a : Fq12) : (n • a).c1 = n • a.c1 := rfl

instance instCommRing : CommRing Fq12 where
  add := (· + ·)
  mul := (· * ·)
  neg := Neg.neg
  sub := (· - ·)
  zero := 0
  one := 1
  add_assoc a b c := by ext1 <;> simp [add_assoc]
  zero_add a := by ext1 <;> simp
  add_zero a := by ext1 <;> simp
  add_comm a b := by ext1 <;> simp [add_comm]
  neg_add_cancel a := by ext1 <;> simp
  sub_eq_add_neg a b := by ext1 <;> simp [sub_eq_add_neg]
  mul_assoc a b c := by ext1 <;> simp only [mul_c0, mul_c1] <;> ring
  one_mul a := by ext1 <;> simp [mul_c0, mul_c1]
  mul_one a := by ext1 <;> simp [mul_c0, mul_c1]
  left_distrib a b c := by ext1 <;> simp only [mul_c0, mul_c1, add_c0, add_c1] <;> ring
  right_distrib a b c := by ext1 <;> simp only [mul_c0, mul_c1, add_c0, add_c1] <;> ring
  mul_comm a b := by ext1 <;> simp only [mul_c0, mul_c1] <;> ring
  zero_mul a := by ext1 <;> simp [mul_c0, mul_c1]
  mul_zero a := by ext1 <;> simp [mul_c0, mul_c1]
  nsmul := (· • ·)
  nsmul_zero a := by ext1 <;> simp
  nsmul_succ n a := by ext1 <;> simp [add_smul]
  zsmul := (· • ·)
  zsmul_zero' a := by ext1 <;> simp
  zsmul_succ' n a := by ext1 <;> simp [add_smul]
  zsmul_neg' n a := by ext1 <;> simp [add_smul] <;> ring
  natCast := Nat.cast
  natCast_zero := by ext1 <;> simp
  natCast_succ n := by ext1 <;> simp
  intCast := Int.cast
  intCast_ofNat n := by ext1 <;> simp
  intCast_negSucc n := by ext1 <;> simp

/-! ### distinguished elements, embedding of `Fq6` -/

/-- the generator `w` (`w² = v`) -/
def w : Fq12 := ⟨0, 1⟩

/-- `Fq6 → Fq12`, `c ↦ c + 0·w` -/
def ofFq6 : Fq6 →+* Fq12 where
  toFun c := ⟨c, 0⟩
  map_one' := rfl
  map_zero' := rfl
  map_mul' a b := by ext1 <;> simp [mul_c0, mul_c1]
  map_add' a b := by ext1 <;> simp

@[simp] theorem ofFq6_c0 (c : Fq6) : (ofFq6 c).c0 = c := rfl
@[simp] theorem ofFq6_c1 (c : Fq6) : (ofFq6 c).c1 = 0 := rfl

theorem ofFq6_injective : Function.Injective ofFq6 := fun a b h => by
  simpa using congrArg Fq12.c0 h

theorem w_mul_w : w * w = ofFq6 v := by ext1 <;> simp [mul_c0, mul_c1, w]
theorem w_pow_two : w ^ 2 = ofFq6 v := by rw [pow_two, w_mul_w]

/-- every element is `c0 + c1·w` -/
theorem eq_add_mul_w (a : Fq12) : a = ofFq6 a.c0 + ofFq6 a.c1 * w := by
  ext1 <;> simp [mul_c0, mul_c1, w]

theorem mul_ofFq6 (a : Fq12) (c : Fq6) : a * ofFq6 c = ⟨a.c0 * c, a.c1 * c⟩ := by
  ext1 <;> simp [mul_c0, mul_c1]

/-! ### the remaining model operations against the ring operations -/

theorem add_eq (a b : Fq12) : Fq12.add a b = a + b := rfl
theorem sub_eq (a b : Fq12) : Fq12.sub a b = a - b := rfl
theorem neg_eq (a : Fq12) : Fq12.neg a = -a := rfl
theorem mul_eq (a b : Fq12) : Fq12.mul a b = a * b := rfl

theorem double_eq (a : Fq12) : double a = a + a := rfl
theorem dbl_eq (a : Fq12) : dbl a = a + a := rfl

theorem square_eq (a : Fq12) : square a = a * a := by
  ext1
  · rw [mul_c0]
    show (a.c1.mulByNonresidue + a.c0) * (a.c0 + a.c1) - a.c0 * a.c1
      - (a.c0 * a.c1).mulByNonresidue = _
    simp only [Fq6.mulByNonresidue_eq]; ring
  · rw [mul_c1]
    show a.c0 * a.c1 + a.c0 * a.c1 = _
    ring

theorem sq_eq (a : Fq12) : sq a = a * a := square_eq a

/-! ### conjugation is the ring automorphism `c0 + c1 w ↦ c0 - c1 w` -/

theorem conjugate_c0 (a : Fq12) : (conjugate a).c0 = a.c0 := rfl
theorem conjugate_c1 (a : Fq12) : (conjugate a).c1 = -a.c1 := rfl

theorem conjugate_mul (a b : Fq12) : conjugate (a * b) = conjugate a * conjugate b := by
  ext1 <;> simp only [mul_c0, mul_c1, conjugate_c0, conjugate_c1] <;> ring
theorem conjugate_add (a b : Fq12) : conjugate (a + b) = conjugate a + conjugate b := by
  ext1 <;> simp only [add_c0, add_c1, conjugate_c0, conjugate_c1]; ring
theorem conjugate_one : conjugate 1 = 1 := by ext1 <;> simp [conjugate_c0, conjugate_c1]
theorem conjugate_zero : conjugate 0 = 0 := by ext1 <;> simp [conjugate_c0, conjugate_c1]
theorem conjugate_conjugate (a : Fq12) : conjugate (conjugate a) = a := by
  ext1 <;> simp [conjugate_c0, conjugate_c1]
theorem conjugate_ofFq6 (c : Fq6) : conjugate (ofFq6 c) = ofFq6 c := by
  ext1 <;> simp [conjugate_c0, conjugate_c1]
theorem conjugate_w : conjugate w = -w := by ext1 <;> simp [conjugate_c0, conjugate_c1, w]

/-- `conjugate` as a ring automorphism (an involution fixing `Fq6`, sending `w ↦ -w`) -/
def conjugateEquiv : Fq12 ≃+* Fq12 where
  toFun := conjugate
  invFun := conjugate
  left_inv := conjugate_conjugate
  right_inv := conjugate_conjugate
  map_mul' := conjugate_mul
  map_add' := conjugate_add

/-- the relative norm `Fq12 → Fq6`: `a · conj a = c0² - v c1²` -/
theorem mul_conjugate (a : Fq12) :
    a * conjugate a = ofFq6 (a.c0 * a.c0 - v * (a.c1 * a.c1)) := by
  ext1
  · rw [mul_c0, conjugate_c0, conjugate_c1, ofFq6_c0]; ring
  · rw [mul_c1, conjugate_c0, conjugate_c1, ofFq6_c1]; ring

/-- sparse product `mul_by_014` = dense product with `(c0 + c1 v) + (c4 v) w` -/
theorem mulBy014_eq (a : Fq12) (c0 c1 c4 : Fq2) :
    mulBy014 a c0 c1 c4 = a * ⟨⟨c0, c1, 0⟩, ⟨0, c4, 0⟩⟩ := by
  have hsplit : (⟨c0, c1 + c4, 0⟩ : Fq6) = ⟨c0, c1, 0⟩ + ⟨0, c4, 0⟩ := by
    ext1 <;> simp
  ext1
  · rw [mul_c0]
    show (a.c1.mulBy1 c4).mulByNonresidue + a.c0.mulBy01 c0 c1 = _
    rw [Fq6.mulByNonresidue_eq, Fq6.mulBy1_eq, Fq6.mulBy01_eq]; ring
  · rw [mul_c1]
    show (a.c1 + a.c0).mulBy01 c0 (c1 + c4) - a.c0.mulBy01 c0 c1 - a.c1.mulBy1 c4 = _
    rw [Fq6.mulBy1_eq, Fq6.mulBy01_eq, Fq6.mulBy01_eq, hsplit]; ring

theorem isZero_iff (a : Fq12) : isZero a = true ↔ a = 0 := by
  unfold isZero
  rw [Bool.and_eq_true, Fq6.isZero_iff, Fq6.isZero_iff]
  constructor
  · rintro ⟨h0, h1⟩; ext1 <;> simp [h0, h1]
  · rintro rfl; exact ⟨rfl, rfl⟩

end Fq12
end PP
