/-
C09, layer 1: the model type `Fq2` with the model's own `+ - * neg 0 1` is the commutative ring
`Fq[u]/(u²+1)`; for prime `q` it is a field, `inverse` is the field inverse and fails exactly on zero.
-/
import Mathlib.Tactic.Ring
import Mathlib.Tactic.LinearCombination
import Mathlib.NumberTheory.SumTwoSquares
import PP.Model.Tower
import PP.Proofs.Lawful

set_option linter.unusedSectionVars false

namespace PP
namespace Fq2

@[ext] theorem ext {a b : Fq2} (h0 : a.c0 = b.c0) (h1 : a.c1 = b.c1) : a = b := by
  cases a; cases b; simp_all

/-! ### projections of the model operations (all `rfl`) -/

@[simp] theorem zero_c0 : (0 : Fq2).c0 = 0 := rfl
@[simp] theorem zero_c1 : (0 : Fq2).c1 = 0 := rfl
@[simp] theorem one_c0 : (1 : Fq2).c0 = 1 := rfl
@[simp] theorem one_c1 : (1 : Fq2).c1 = 0 := rfl
@[simp] theorem add_c0 (a b : Fq2) : (a + b).c0 = a.c0 + b.c0 := rfl
@[simp] theorem add_c1 (a b : Fq2) : (a + b).c1 = a.c1 + b.c1 := rfl
@[simp] theorem sub_c0 (a b : Fq2) : (a - b).c0 = a.c0 - b.c0 := rfl
@[simp] theorem sub_c1 (a b : Fq2) : (a - b).c1 = a.c1 - b.c1 := rfl
@[simp] theorem neg_c0 (a : Fq2) : (-a).c0 = -a.c0 := rfl
@[simp] theorem neg_c1 (a : Fq2) : (-a).c1 = -a.c1 := rfl

/-- Karatsuba product = schoolbook product modulo `u² = -1` -/
theorem mul_c0 (a b : Fq2) : (a * b).c0 = a.c0 * b.c0 - a.c1 * b.c1 := rfl
theorem mul_c1 (a b : Fq2) : (a * b).c1 = a.c0 * b.c1 + a.c1 * b.c0 := by
  show (a.c1 + a.c0) * (b.c0 + b.c1) - a.c0 * b.c0 - a.c1 * b.c1 = _
  ring

theorem mul_spec (a b : Fq2) :
    (a * b).c0 = a.c0 * b.c0 - a.c1 * b.c1 ∧ (a * b).c1 = a.c0 * b.c1 + a.c1 * b.c0 :=
  ⟨mul_c0 a b, mul_c1 a b⟩

/-! ### the ring structure on the model's operations -/

instance : NatCast Fq2 := ⟨fun n => ⟨(n : Fq), 0⟩⟩
instance : IntCast Fq2 := ⟨fun z => ⟨(z : Fq), 0⟩⟩
instance : SMul ℕ Fq2 := ⟨fun n a => ⟨n • a.c0, n • a.c1⟩⟩
instance : SMul ℤ Fq2 := ⟨fun z a => ⟨z • a.c0, z • a.c1⟩⟩

@[simp] theorem natCast_c0 (n : ℕ) : ((n : Fq2)).c0 = (n : Fq) := rfl
@[simp] theorem natCast_c1 (n : ℕ) : ((n : Fq2)).c1 = 0 := rfl
@[simp] theorem intCast_c0 (n : ℤ) : ((n : Fq2)).c0 = (n : Fq) := rfl
@[simp] theorem intCast_c1 (n : ℤ) : ((n : Fq2)).c1 = 0 := rfl
@[simp] theorem nsmul_c0 (n : ℕ) (a : Fq2) : (n • a).c0 = n • a.c0 := rfl
@[simp] theorem nsmul_c1 (n : ℕ) (a : Fq2) : (n • a).c1 = n • a.c1 := rfl
@[simp] theorem zsmul_c0 (n : ℤ) (a : Fq2) : (n • a).c0 = n • a.c0 := rfl
@[simp] theorem zsmul_c1 (n : ℤ) (a : Fq2) : (n • a).c1 = n • a.c1 := rfl

instance instCommRing : CommRing Fq2 where
  add := (· + ·)
  mul := (· * ·)
  neg := Neg.neg
  sub := (· - ·)
  zero := 0
  one := 1
  add_assoc a b c := by ext <;> simp [add_assoc]
  zero_add a := by ext <;> simp
  add_zero a := by ext <;> simp
  add_comm a b := by ext <;> simp [add_comm]
  neg_add_cancel a := by ext <;> simp
  sub_eq_add_neg a b := by ext <;> simp [sub_eq_add_neg]
  mul_assoc a b c := by ext <;> simp only [mul_c0, mul_c1] <;> ring
  one_mul a := by ext <;> simp [mul_c0, mul_c1]
  mul_one a := by ext <;> simp [mul_c0, mul_c1]
  left_distrib a b c := by ext <;> simp only [mul_c0, mul_c1, add_c0, add_c1] <;> ring
  right_distrib a b c := by ext <;> simp only [mul_c0, mul_c1, add_c0, add_c1] <;> ring
  mul_comm a b := by ext <;> simp only [mul_c0, mul_c1] <;> ring
  zero_mul a := by ext <;> simp [mul_c0, mul_c1]
  mul_zero a := by ext <;> simp [mul_c0, mul_c1]
  nsmul := (· • ·)
  nsmul_zero a := by ext <;> simp
  nsmul_succ n a := by ext <;> simp [add_smul]
  zsmul := (· • ·)
  zsmul_zero' a := by ext <;> simp
  zsmul_succ' n a := by ext <;> simp [add_smul]
  zsmul_neg' n a := by ext <;> simp [add_smul] <;> ring
  natCast := Nat.cast
  natCast_zero := by ext <;> simp
  natCast_succ n := by ext <;> simp
  intCast := Int.cast
  intCast_ofNat n := by ext <;> simp
  intCast_negSucc n := by ext <;> simp


/-! ### distinguished elements and the embedding of `Fq` -/

/-- the generator `u` (`u² = -1`) -/
def u : Fq2 := ⟨0, 1⟩
/-- the cubic/quadratic non-residue `ξ = 1 + u` used to build `Fq6` -/
def xi : Fq2 := ⟨1, 1⟩

theorem u_mul_u : u * u = -1 := by ext <;> simp [mul_c0, mul_c1, u]
theorem xi_eq : xi = 1 + u := by ext <;> simp [xi, u]

/-- `Fq → Fq2`, `c ↦ c + 0·u` -/
def ofFq : Fq →+* Fq2 where
  toFun c := ⟨c, 0⟩
  map_one' := rfl
  map_zero' := rfl
  map_mul' a b := by ext <;> simp [mul_c0, mul_c1]
  map_add' a b := by ext <;> simp

@[simp] theorem ofFq_c0 (c : Fq) : (ofFq c).c0 = c := rfl
@[simp] theorem ofFq_c1 (c : Fq) : (ofFq c).c1 = 0 := rfl

theorem ofFq_injective : Function.Injective ofFq := fun a b h => by
  simpa using congrArg Fq2.c0 h

/-- every element is `c0 + c1·u` -/
theorem eq_add_mul_u (a : Fq2) : a = ofFq a.c0 + ofFq a.c1 * u := by
  ext <;> simp [mul_c0, mul_c1, u]

/-- conjugation `c0 + c1 u ↦ c0 - c1 u` (not a model function; `frobeniusMap · 1` computes it) -/
def conj (a : Fq2) : Fq2 := ⟨a.c0, -a.c1⟩

@[simp] theorem conj_c0 (a : Fq2) : (conj a).c0 = a.c0 := rfl
@[simp] theorem conj_c1 (a : Fq2) : (conj a).c1 = -a.c1 := rfl

theorem conj_mul (a b : Fq2) : conj (a * b) = conj a * conj b := by
  ext <;> simp only [mul_c0, mul_c1, conj_c0, conj_c1] <;> ring
theorem conj_add (a b : Fq2) : conj (a + b) = conj a + conj b := by
  ext <;> simp only [add_c0, add_c1, conj_c0, conj_c1]; ring
theorem conj_one : conj 1 = 1 := by ext <;> simp
theorem conj_zero : conj 0 = 0 := by ext <;> simp
theorem conj_conj (a : Fq2) : conj (conj a) = a := by ext <;> simp

/-! ### the remaining model operations against the ring operations -/

theorem square_eq (a : Fq2) : square a = a * a := by
  ext
  · rw [mul_c0]; show (-a.c1 + a.c0) * (a.c0 + a.c1) - a.c0 * a.c1 + a.c0 * a.c1 = _; ring
  · rw [mul_c1]; show a.c0 * a.c1 + a.c0 * a.c1 = _; ring

theorem double_eq (a : Fq2) : double a = a + a := rfl

theorem sq_eq (a : Fq2) : sq a = a * a := square_eq a
theorem dbl_eq (a : Fq2) : dbl a = a + a := rfl

theorem sub_eq (a b : Fq2) : Fq2.sub a b = a - b := rfl
theorem add_eq (a b : Fq2) : Fq2.add a b = a + b := rfl
theorem neg_eq (a : Fq2) : Fq2.neg a = -a := rfl
theorem mul_eq (a b : Fq2) : Fq2.mul a b = a * b := rfl

theorem mulByNonresidue_eq (a : Fq2) : mulByNonresidue a = a * xi := by
  ext
  · rw [mul_c0]; show a.c0 - a.c1 = _; simp [xi]
  · rw [mul_c1]; show a.c1 + a.c0 = _; simp [xi]; ring

theorem norm_eq (a : Fq2) : norm a = a.c0 * a.c0 + a.c1 * a.c1 := by
  show a.c1 * a.c1 + a.c0 * a.c0 = _; ring

theorem mul_conj (a : Fq2) : a * conj a = ofFq (norm a) := by
  ext
  · rw [mul_c0, norm_eq]; show a.c0 * a.c0 - a.c1 * -a.c1 = a.c0 * a.c0 + a.c1 * a.c1; ring
  · rw [mul_c1]; show a.c0 * -a.c1 + a.c1 * a.c0 = 0; ring

theorem norm_mul (a b : Fq2) : norm (a * b) = norm a * norm b := by
  simp only [norm_eq, mul_c0, mul_c1]; ring

theorem norm_one : norm 1 = 1 := by simp [norm_eq]
theorem norm_zero : norm 0 = 0 := by simp [norm_eq]

theorem isZero_iff (a : Fq2) : isZero a = true ↔ a = 0 := by
  unfold isZero
  rw [Bool.and_eq_true, Zp.isZero_iff, Zp.isZero_iff]
  constructor
  · rintro ⟨h0, h1⟩; ext <;> simp [h0, h1]
  · rintro rfl; exact ⟨rfl, rfl⟩

/-! ### `Fq2` is a field (needs `q` prime; `q ≡ 3 mod 4` makes `-1` a non-square) -/

section Prime
variable [hq : Fact (Nat.Prime Gen.q)]

theorem q_mod_four : Gen.q % 4 = 3 := by decide

/-- `-1` is not a square in `Fq` -/
theorem Fq.sq_ne_neg_one (x : Fq) : x * x ≠ -1 := by
  intro h
  have h2 : (Zp.toZ x) ^ 2 = -1 := by
    rw [pow_two, ← Zp.toZ_mul, h, Zp.toZ_neg, Zp.toZ_one]
  exact ZMod.mod_four_ne_three_of_sq_eq_neg_one h2 q_mod_four

theorem Fq.sum_sq_eq_zero {x y : Fq} (h : x * x + y * y = 0) : x = 0 ∧ y = 0 := by
  by_cases hy : y = 0
  · subst hy
    have : x * x = 0 := by simpa using h
    exact ⟨by simpa using this, rfl⟩
  · exfalso
    apply Fq.sq_ne_neg_one (x / y)
    field_simp
    linear_combination h

theorem norm_eq_zero_iff (a : Fq2) : norm a = 0 ↔ a = 0 := by
  constructor
  · intro h
    rw [norm_eq] at h
    obtain ⟨h0, h1⟩ := Fq.sum_sq_eq_zero h
    ext <;> simp [h0, h1]
  · rintro rfl; exact norm_zero

/-- the model's `inverse` in terms of the field inverse of the norm -/
theorem inverse_of_ne (a : Fq2) (h : a ≠ 0) :
    inverse a = some ⟨a.c0 * (norm a)⁻¹, -(a.c1 * (norm a)⁻¹)⟩ := by
  have hn : norm a ≠ 0 := fun h0 => h ((norm_eq_zero_iff a).mp h0)
  have hn' : a.c0 * a.c0 + a.c1 * a.c1 ≠ 0 := by rwa [norm_eq] at hn
  have e : FieldOps.inv (a.c0 * a.c0 + a.c1 * a.c1) = some (a.c0 * a.c0 + a.c1 * a.c1)⁻¹ :=
    Zp.inv_eq_some _ hn'
  show (match FieldOps.inv (a.c0 * a.c0 + a.c1 * a.c1) with
    | none => none
    | some t => some (⟨a.c0 * t, -(a.c1 * t)⟩ : Fq2)) = _
  rw [e, norm_eq]

theorem inverse_zero : inverse (0 : Fq2) = none := by
  have e : FieldOps.inv ((0 : Fq) * 0 + 0 * 0) = none := by
    have : ((0 : Fq) * 0 + 0 * 0) = 0 := by ring
    rw [this]; exact (Zp.inv_eq_none_iff 0).mpr rfl
  show (match FieldOps.inv ((0 : Fq) * 0 + 0 * 0) with
    | none => none
    | some t => some (⟨(0 : Fq) * t, -((0 : Fq) * t)⟩ : Fq2)) = _
  rw [e]

/-- inversion fails exactly for zero -/
theorem inverse_eq_none_iff (a : Fq2) : inverse a = none ↔ a = 0 := by
  constructor
  · intro h
    by_contra h0
    rw [inverse_of_ne a h0] at h
    cases h
  · rintro rfl; exact inverse_zero

/-- whenever inversion succeeds the result is the inverse -/
theorem inverse_some_mul {a b : Fq2} (h : inverse a = some b) : a * b = 1 := by
  have h0 : a ≠ 0 := fun h0 => by rw [(inverse_eq_none_iff a).mpr h0] at h; cases h
  have hn : norm a ≠ 0 := fun hz => h0 ((norm_eq_zero_iff a).mp hz)
  rw [inverse_of_ne a h0] at h
  obtain rfl := Option.some.inj h
  rw [norm_eq] at hn ⊢
  ext
  · rw [mul_c0]
    show a.c0 * (a.c0 * (a.c0 * a.c0 + a.c1 * a.c1)⁻¹)
      - a.c1 * -(a.c1 * (a.c0 * a.c0 + a.c1 * a.c1)⁻¹) = 1
    linear_combination mul_inv_cancel₀ hn
  · rw [mul_c1]
    show a.c0 * -(a.c1 * (a.c0 * a.c0 + a.c1 * a.c1)⁻¹)
      + a.c1 * (a.c0 * (a.c0 * a.c0 + a.c1 * a.c1)⁻¹) = 0
    ring

instance instField : Field Fq2 where
  __ := instCommRing
  inv a := (inverse a).getD 0
  exists_pair_ne := ⟨0, 1, fun h => by
    have : (0 : Fq) = 1 := congrArg Fq2.c0 h
    exact zero_ne_one this⟩
  mul_inv_cancel a h := by
    show a * (inverse a).getD 0 = 1
    have := inverse_of_ne a h
    exact inverse_some_mul (by rw [this]; rfl)
  inv_zero := by show (inverse 0).getD 0 = 0; rw [inverse_zero]; rfl
  nnqsmul := _
  nnqsmul_def := fun _ _ => rfl
  qsmul := _
  qsmul_def := fun _ _ => rfl

theorem inv_def (a : Fq2) : a⁻¹ = (inverse a).getD 0 := rfl

theorem inverse_eq_some (a : Fq2) (h : a ≠ 0) : inverse a = some a⁻¹ := by
  rw [inv_def, inverse_of_ne a h]; rfl

instance : LawfulFieldOps Fq2 where
  sq_eq := sq_eq
  dbl_eq := dbl_eq
  inv_zero := inverse_zero
  inv_ne := inverse_eq_some
  isZero_iff := isZero_iff

end Prime

end Fq2
end PP
