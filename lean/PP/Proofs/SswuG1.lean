/-
C15, layer 2 (G1): the model's `osswuG1` (square-root candidate through the addition chain for
`(q−3)/4`, one test, second candidate with `√(−ξ³)`, sign fix, Jacobian output) computes
`map_to_curve_simple_swu` of RFC 9380.

Everything is proved for an abstract field `F` with `∀ x ≠ 0, x^(N−1) = 1`, `N ≡ 3 (mod 4)`, an
abstract chain function with `chain a = a^((N−3)/4)`, an abstract sign function that flips under
negation, and a constant `κ` with `κ² = −ξ³`; the instantiation at `F = Fq` is the last section.
-/
import PP.Proofs.Sswu
import PP.Proofs.SswuUnfold
import PP.Proofs.Primes
import PP.Proofs.SswuCubic

set_option linter.unusedSectionVars false
set_option linter.unusedVariables false

namespace PP
namespace Sswu
open PP.Spec

variable {F : Type} [Field F] [DecidableEq F] [FieldOps F] [LawfulFieldOps F]

/-! ### the square-root candidate for `q ≡ 3 (mod 4)` -/

/-- `(w v³)^k · w v`, in the shape computed by the model (`k = (q−3)/4`) -/
def cand1 (k : ℕ) (w v : F) : F := (v * v * (w * v)) ^ k * (w * v)

section Cand1
variable {N : ℕ} (hN : N % 4 = 3) (hcard : ∀ x : F, x ≠ 0 → x ^ (N - 1) = 1)
include hN

theorem cand1_sq (w v : F) :
    cand1 ((N - 3) / 4) w v ^ 2 * v = w * (w * v ^ 3) ^ ((N - 1) / 2) := by
  have hk : (N - 1) / 2 = 2 * ((N - 3) / 4) + 1 := by omega
  rw [hk]
  unfold cand1
  ring

include hcard

/-- the test `cand²·v = w` succeeds when `w/v` is a square -/
theorem cand1_pass_of_isSquare {w v : F} (hv : v ≠ 0) (h : IsSquare (w / v)) :
    cand1 ((N - 3) / 4) w v ^ 2 * v = w := by
  by_cases hw : w = 0
  · subst hw; unfold cand1; ring
  obtain ⟨r, hr⟩ := h
  have hw' : w = r * r * v := by field_simp at hr; linear_combination hr
  have hr0 : r ≠ 0 := by rintro rfl; apply hw; rw [hw']; ring
  rw [cand1_sq hN]
  have hs : w * v ^ 3 = (r * v ^ 2) ^ 2 := by rw [hw']; ring
  have h2 : (N - 1) / 2 * 2 = N - 1 := by omega
  rw [hs, ← pow_mul, Nat.mul_comm, h2, hcard _ (mul_ne_zero hr0 (pow_ne_zero _ hv)), mul_one]

/-- otherwise `cand²·v = −w` -/
theorem cand1_dichotomy {w v : F} (hv : v ≠ 0) :
    cand1 ((N - 3) / 4) w v ^ 2 * v = w ∨ cand1 ((N - 3) / 4) w v ^ 2 * v = -w := by
  by_cases hw : w = 0
  · subst hw; left; unfold cand1; ring
  rw [cand1_sq hN]
  have hs : w * v ^ 3 ≠ 0 := mul_ne_zero hw (pow_ne_zero _ hv)
  have h2 : (N - 1) / 2 * 2 = N - 1 := by omega
  have : ((w * v ^ 3) ^ ((N - 1) / 2)) ^ 2 = 1 := by rw [← pow_mul, h2, hcard _ hs]
  rw [pow_two] at this
  rcases mul_self_eq_one_iff.mp this with h | h
  · left; rw [h, mul_one]
  · right; rw [h]; ring

end Cand1

/-! ### the model's control flow, with the helper record and the candidate as parameters -/

/-- `OSSWUMap for G1` after `osswu_help` and the chain: test, second candidate, sign fix, output -/
def osswuG1Core (sgn0 : F → Sgn0) (h : OsswuHelp F) (cand κ u : F) : Jac F :=
  let testCand := sq cand * h.gx0_den
  let (xNum, y) :=
    if testCand = h.gx0_num then (h.x0_num, cand)
    else (h.x0_num * h.xi_usq, ((h.usq * u) * cand) * κ)
  let y := negateIf y ((sgn0 y).xor (sgn0 u))
  ⟨xNum * h.x0_den, y * h.gx0_den, h.x0_den⟩

/-- the whole map over an abstract field -/
def g1Map (chain : F → F) (sgn0 : F → Sgn0) (ξ A B κ u : F) : Jac F :=
  osswuG1Core sgn0 (osswuHelp u ξ A B)
    (chain (sq (osswuHelp u ξ A B).gx0_den *
        ((osswuHelp u ξ A B).gx0_num * (osswuHelp u ξ A B).gx0_den)) *
      ((osswuHelp u ξ A B).gx0_num * (osswuHelp u ξ A B).gx0_den)) κ u

/-- `g1Map` in closed form -/
theorem g1Map_eq (chain : F → F) (k : ℕ) (hchain : ∀ a, chain a = a ^ k) (sgn0 : F → Sgn0)
    (ξ A B κ u : F) :
    g1Map chain sgn0 ξ A B κ u =
      if cand1 k (gx0num ξ A B u) (x0den ξ A u ^ 3) ^ 2 * x0den ξ A u ^ 3 = gx0num ξ A B u then
        outJ ξ A u (x0num ξ B u) (negateIf (cand1 k (gx0num ξ A B u) (x0den ξ A u ^ 3))
          ((sgn0 (cand1 k (gx0num ξ A B u) (x0den ξ A u ^ 3))).xor (sgn0 u)))
      else
        outJ ξ A u (x0num ξ B u * (ξ * u ^ 2))
          (negateIf (u ^ 3 * cand1 k (gx0num ξ A B u) (x0den ξ A u ^ 3) * κ)
            ((sgn0 (u ^ 3 * cand1 k (gx0num ξ A B u) (x0den ξ A u ^ 3) * κ)).xor (sgn0 u))) := by
  unfold g1Map osswuG1Core
  rw [help_eq]
  simp only [hchain, LawfulFieldOps.sq_eq]
  have e1 : (x0den ξ A u ^ 3 * x0den ξ A u ^ 3 * (gx0num ξ A B u * x0den ξ A u ^ 3)) ^ k *
      (gx0num ξ A B u * x0den ξ A u ^ 3) = cand1 k (gx0num ξ A B u) (x0den ξ A u ^ 3) := rfl
  rw [e1]
  generalize cand1 k (gx0num ξ A B u) (x0den ξ A u ^ 3) = c
  have e2 : c * c = c ^ 2 := by ring
  have e3 : u ^ 2 * u * c * κ = u ^ 3 * c * κ := by ring
  rw [e2, e3]
  split <;> rfl

/-! ### the map is the RFC's -/

section Main
variable {N : ℕ} (hN : N % 4 = 3) (hcard : ∀ x : F, x ≠ 0 → x ^ (N - 1) = 1)
variable {ξ A B κ : F} (hA : A ≠ 0) (hξ : ξ ≠ 0) (hκ : κ ^ 2 = -(ξ ^ 3))
variable (hexc : IsSquare (sswuG A B (B / (ξ * A))))
variable (sgn0 : F → Sgn0) (hflip : ∀ y : F, y ≠ 0 → sgn0 (-y) ≠ sgn0 y)
variable (chain : F → F) (hchain : ∀ a, chain a = a ^ ((N - 3) / 4))
include hN hcard hA hξ hκ hexc hflip hchain

/-- **C15 for the G1-shaped map over an abstract field.** -/
theorem g1Map_spec (u : F) : SswuOut sgn0 ξ A B u (g1Map chain sgn0 ξ A B κ u) := by
  rw [g1Map_eq chain _ hchain]
  have hd := x0den_ne_zero hA hξ u
  have hv : x0den ξ A u ^ 3 ≠ 0 := pow_ne_zero _ hd
  set c := cand1 ((N - 3) / 4) (gx0num ξ A B u) (x0den ξ A u ^ 3) with hc
  split
  · next hpass =>
    exact sswuOut_branch1 hA hξ sgn0 hflip u c hpass
  · next hfail =>
    have hneg : c ^ 2 * x0den ξ A u ^ 3 = -gx0num ξ A B u := by
      rcases cand1_dichotomy hN hcard (w := gx0num ξ A B u) hv with h | h
      · exact absurd h hfail
      · exact h
    have hns : ¬ IsSquare (sswuG A B (x0 ξ A B u)) := by
      intro hs
      rw [← gx0_eq hA hξ u B] at hs
      exact hfail (cand1_pass_of_isSquare hN hcard hv hs)
    refine sswuOut_branch2 hA hξ hexc sgn0 hflip u _ hns ?_
    calc (u ^ 3 * c * κ) ^ 2 * x0den ξ A u ^ 3
        = u ^ 6 * κ ^ 2 * (c ^ 2 * x0den ξ A u ^ 3) := by ring
      _ = ξ ^ 3 * u ^ 6 * gx0num ξ A B u := by rw [hκ, hneg]; ring

/-- which branch: the first candidate is used exactly when `g(x1)` is a square (this is the content
of `x_of_sq`/`x_of_nsq`; stated separately for the exceptional inputs) -/
theorem g1Map_exceptional (u : F) (hu : ξ ^ 2 * u ^ 4 + ξ * u ^ 2 = 0) :
    affX (g1Map chain sgn0 ξ A B κ u) = B / (ξ * A) := by
  have h := g1Map_spec hN hcard hA hξ hκ hexc sgn0 hflip chain hchain u
  have hx1 : sswuX1 A B ξ u = B / (ξ * A) := sswuX1_exceptional hA hξ u B hu
  rw [h.x_of_sq (by rw [hx1]; exact hexc), hx1]

end Main

/-! ### instantiation at `Fq` -/

theorem Fq.pow_card_sub_one (x : Fq) (hx : x ≠ 0) : x ^ (Gen.q - 1) = 1 := by
  apply Zp.toZ_injective
  rw [Zp.toZ_pow, Zp.toZ_one]
  apply ZMod.pow_card_sub_one_eq_one
  intro h0
  apply hx
  apply Zp.toZ_injective
  rw [h0, Zp.toZ_zero]

theorem pow_card_of_pow_card_sub_one {N : ℕ} (hN : 0 < N)
    (hcard : ∀ x : F, x ≠ 0 → x ^ (N - 1) = 1) (x : F) : x ^ N = x := by
  have h := pow_succ x (N - 1)
  rw [Nat.sub_add_cancel hN] at h
  by_cases hx : x = 0
  · subst hx; exact zero_pow (by omega)
  · rw [h, hcard x hx, one_mul]

theorem Fq.pow_card (x : Fq) : x ^ Gen.q = x :=
  pow_card_of_pow_card_sub_one (by decide +kernel) Fq.pow_card_sub_one x

/-- `sgn0` flips under negation of non-zero elements (`q` is odd) -/
theorem Fq.sgn0_neg (y : Fq) (hy : y ≠ 0) : Zp.sgn0 (-y) ≠ Zp.sgn0 y := by
  have hv : y.v ≠ 0 := fun h => hy ((Zp.eq_zero_iff y).mpr h)
  have hlt := y.h
  have hq : Gen.q % 2 = 1 := by decide +kernel
  have hneg : (-y).v = Gen.q - y.v := by
    show (Zp.ofNat (Gen.q - y.v) : Fq).v = _
    rw [Zp.ofNat_v]; apply Nat.mod_eq_of_lt; omega
  unfold Zp.sgn0
  rw [hneg]
  by_cases h : y.v % 2 = 1
  · have : (Gen.q - y.v) % 2 ≠ 1 := by omega
    simp [h, this]
  · have : (Gen.q - y.v) % 2 = 1 := by omega
    simp [h, this]

/-- the model function is the abstract map at `F = Fq` (see `PP.Proofs.SswuUnfold` for why this is
proved through `osswuG1_unfold` and an auxiliary lemma over variables) -/
theorem osswuG1_eq_g1Map (u : Fq) :
    osswuG1 u = g1Map chainPm3div4 Zp.sgn0 g1Xi g1EllpA g1EllpB g1SqrtMXiCubed u := by
  refine (osswuG1_unfold u).trans ?_
  unfold g1Map
  generalize osswuHelp u g1Xi g1EllpA g1EllpB = h
  generalize chainPm3div4 _ = c
  generalize g1SqrtMXiCubed = κ
  as_aux_lemma => rfl

/-! #### the extracted constants -/

theorem g1EllpA_ne : g1EllpA ≠ 0 := by decide +kernel
theorem g1EllpB_ne : g1EllpB ≠ 0 := by decide +kernel
theorem g1Xi_ne : g1Xi ≠ 0 := by decide +kernel
/-- `Z = 11` -/
theorem g1Xi_eq : g1Xi = Zp.ofNat 11 := by decide +kernel
/-- `A'` of RFC 9380 §8.8.1 -/
theorem g1EllpA_v : g1EllpA.v =
    0x144698a3b8e9433d693a02c96d4982b0ea985383ee66a8d8e8981aefd881ac98936f8da0e0f97f5cf428082d584c1d := by
  decide +kernel
/-- `B'` of RFC 9380 §8.8.1 -/
theorem g1EllpB_v : g1EllpB.v =
    0x12e2908d11688030018b12e8753eee3b2016c1f0f24f4070a0b9c14fcef35ef55a23215a316ceaa5d1cc48e98e172be0 := by
  decide +kernel
/-- `SQRT_M_XI_CUBED² = −ξ³` -/
theorem g1Kappa_sq : g1SqrtMXiCubed ^ 2 = -(g1Xi ^ 3) := by decide +kernel

/-- a square root of `g(B'/(ZA'))` -/
def g1ExcRoot : Fq := Zp.ofNat
  0x5be3446f07e910e291153e84f1dabd3dfe5c2b1080d8b6a640425c3826f2a429373f9bab7e8308f6dd10ffa11124dbc

theorem g1Exc_eq :
    sswuG g1EllpA g1EllpB (g1EllpB / (g1Xi * g1EllpA)) = g1ExcRoot * g1ExcRoot := by decide +kernel

/-- `g(B'/(ZA'))` is a square: the exceptional inputs take the first candidate -/
theorem g1Exc_isSquare : IsSquare (sswuG g1EllpA g1EllpB (g1EllpB / (g1Xi * g1EllpA))) :=
  ⟨g1ExcRoot, g1Exc_eq⟩

/-! #### `x³ + A'x + B'` has no root in `Fq` (so the output `y` is never `0`) -/

/-- `x^q mod (x³ + A'x + B')` -/
def g1R : Fq × Fq × Fq :=
  (Zp.ofNat 0x167a4573db76f12e5e1d684bd1953a61fb9184f44b906a43556a626aca81138ea935377baa265004737982fdf3e8c3c0,
   Zp.ofNat 0x109451496bd2ce199464fd146e48fdd506517d9a20f4a4ac90d3043a590cdfd583178f940f8148d73e1107a770c806f,
   Zp.ofNat 0xdec653dab78d16b197ab8fb9b05f8b71c2419ab9acd4682d9e7e61379dc9d178a0be1b5a8dd1b16c760e4993b41501)

theorem g1_xPow : Cubic.xPow g1EllpA g1EllpB Gen.q = g1R := by decide +kernel

/-- Bézout cofactors `S·(x^q − x mod g) + T·g = 1` -/
def g1S0 : Fq := Zp.ofNat 0x17448748eeb644c01bd8057d96d58bf3f56dedb39ad2b8245ba9a28c10776e080b744052c94b6390529b9660a03a1986
def g1S1 : Fq := Zp.ofNat 0x18187c126f186c0a9f6f0d1f8272d486eb52eafc397301284c33978f6725beed58618a096f407589d87a79f85692431c
def g1S2 : Fq := Zp.ofNat 0x2025e63d1547326558ac99b4d2bc7467f029caf4cfdf46c95bd68e5dd6cce7df8b66358a41bc8255fb51cd887a4d803
def g1T0 : Fq := Zp.ofNat 0xe9369a98e9f651cd5ccb2860b43a71df91aef922acd54ba1dcf4979dc0df090f6f65cebee48d808cad573f8ae76bf86
def g1T1 : Fq := Zp.ofNat 0x8b7a7b69a9ff08ac60bcb3596e10d108b65ff23150c980f2ace058103b3d9ebd528c53cc28771d2e5eee3abfa72369

/-- the isogenous curve `E₁'` has no point of order 2 over `Fq` -/
theorem g1_no_root (x : Fq) : sswuG g1EllpA g1EllpB x ≠ 0 := by
  unfold sswuG
  exact Cubic.no_root g1R g1_xPow g1S0 g1S1 g1S2 g1T0 g1T1
    (by decide +kernel) (by decide +kernel) (by decide +kernel) (by decide +kernel)
    (by decide +kernel) x (Fq.pow_card x)

/-! #### C15 for `osswuG1` -/

section
variable (hchain1 : ∀ a : Fq, chainPm3div4 a = a ^ ((Gen.q - 3) / 4))
include hchain1

theorem osswuG1_sswuOut (t : Fq) : SswuOut Zp.sgn0 g1Xi g1EllpA g1EllpB t (osswuG1 t) := by
  rw [osswuG1_eq_g1Map]
  exact g1Map_spec Primes.q_mod_four Fq.pow_card_sub_one g1EllpA_ne g1Xi_ne g1Kappa_sq
    g1Exc_isSquare Zp.sgn0 Fq.sgn0_neg chainPm3div4 hchain1 t

end

end Sswu
end PP
