/-
PP.Proofs.HashLen — output lengths of the executable hash functions of `PP/Spec/Hash.lean`:

  * `sha256_length`   : `(sha256 m).length = 32`     for every input
  * `sha512_length`   : `(sha512 m).length = 64`     for every input
  * `shake128_length` : `(shake128 m n).length = n`  for every input and every requested length
  * `shake256_length` : `(shake256 m n).length = n`

Core Lean only.  Method: `simp` turns the `for … in [a:b]` loops of the `Id.run do` blocks into
`List.foldl` over `List.range'`; sizes are then tracked through the folds by two small invariants
(`foldl_size_add`: every step appends `c` bytes; `foldl_inv`: a predicate preserved by every step).
SHA-2: the chaining value always has 8 words (the compression function returns an 8-element array
literal) and each word contributes `pushBE … 4` / `pushBE … 8` bytes.  SHAKE: every squeeze round
appends `8 * (rate / 8)` bytes whatever the state, there are `ceil(outLen / rate)` rounds, and the
final `extract 0 outLen` cuts to `outLen`.
-/
import PP.Spec.Hash

namespace PP.Hash

/-! ## generic helpers -/

/-- `ByteArray.toList` (defined by an accumulator loop in core) has `size` elements. -/
theorem byteArray_toList_loop_length (bs : ByteArray) (i : Nat) (r : List UInt8) :
    (ByteArray.toList.loop bs i r).length = r.length + (bs.size - i) := by
  induction i, r using ByteArray.toList.loop.induct bs with
  | case1 i r h ih =>
    rw [ByteArray.toList.loop.eq_def]; simp only [h, if_true]; rw [ih]
    simp only [List.length_cons]; omega
  | case2 i r h =>
    rw [ByteArray.toList.loop.eq_def]; simp only [h, if_false]
    simp only [List.length_reverse]; omega

theorem byteArray_toList_length (bs : ByteArray) : bs.toList.length = bs.size := by
  simp [ByteArray.toList, byteArray_toList_loop_length]

/-- a fold whose every step appends exactly `c` bytes -/
theorem foldl_size_add {α} (f : ByteArray → α → ByteArray) (c : Nat)
    (hf : ∀ b a, (f b a).size = b.size + c) (l : List α) (b : ByteArray) :
    (l.foldl f b).size = b.size + c * l.length := by
  induction l generalizing b with
  | nil => simp
  | cons a l ih => simp only [List.foldl_cons, ih, hf, List.length_cons, Nat.mul_add]; omega

/-- a predicate preserved by every step of a fold -/
theorem foldl_inv {α β} (P : β → Prop) (f : β → α → β) (hf : ∀ b a, P b → P (f b a))
    (l : List α) (b : β) (hb : P b) : P (l.foldl f b) := by
  induction l generalizing b with
  | nil => simpa
  | cons a l ih => exact ih _ (hf _ _ hb)

/-- a `for` loop (in `Id`) over a list with state `(σ, ByteArray)` whose body always continues and
always appends exactly `c` bytes to the second component -/
theorem forIn_yield_size {α σ} (c : Nat)
    (f : α → σ × ByteArray → Id (ForInStep (σ × ByteArray)))
    (hf : ∀ a s, ∃ s', f a s = pure (ForInStep.yield s') ∧ s'.2.size = s.2.size + c)
    (l : List α) (init : σ × ByteArray) :
    (forIn l init f).run.2.size = init.2.size + c * l.length := by
  induction l generalizing init with
  | nil => simp
  | cons a l ih =>
    obtain ⟨s', h1, h2⟩ := hf a init
    rw [List.forIn_cons, h1]
    simp only [pure_bind]
    rw [ih, h2, List.length_cons, Nat.mul_add]; omega

/-! ## the shared byte-pushing helpers -/

theorem pushZeros_size (b : ByteArray) (k : Nat) : (pushZeros b k).size = b.size + k := by
  unfold pushZeros
  simp
  rw [foldl_size_add _ 1 (by simp)]; simp

theorem pushBE_size (b : ByteArray) (n k : Nat) : (pushBE b n k).size = b.size + k := by
  unfold pushBE
  simp
  rw [foldl_size_add _ 1 (by simp)]; simp

/-! ## SHA-256 / SHA-512 -/

/-- the compression function returns 8 words, whatever its inputs -/
theorem sha256Block_size (H : Array UInt32) (m : ByteArray) (off : Nat) :
    (sha256Block H m off).size = 8 := by
  unfold sha256Block
  simp

theorem sha512Block_size (H : Array UInt64) (m : ByteArray) (off : Nat) :
    (sha512Block H m off).size = 8 := by
  unfold sha512Block
  simp

theorem sha256_length (m : List UInt8) : (sha256 m).length = 32 := by
  unfold sha256
  simp
  have hH : (List.foldl (fun b a => sha256Block b (mdPad m.toByteArray 64 8) (64 * a)) H256
      (List.range' 0 ((mdPad m.toByteArray 64 8).size / 64))).size = 8 :=
    foldl_inv (fun H : Array UInt32 => H.size = 8) _ (fun _ _ _ => sha256Block_size _ _ _) _ _
      (by decide)
  rw [byteArray_toList_length, ← Array.foldl_toList,
    foldl_size_add _ 4 (fun _ _ => pushBE_size _ _ _), Array.length_toList, hH]
  rfl

theorem sha512_length (m : List UInt8) : (sha512 m).length = 64 := by
  unfold sha512
  simp
  have hH : (List.foldl (fun b a => sha512Block b (mdPad m.toByteArray 128 16) (128 * a)) H512
      (List.range' 0 ((mdPad m.toByteArray 128 16).size / 128))).size = 8 :=
    foldl_inv (fun H : Array UInt64 => H.size = 8) _ (fun _ _ _ => sha512Block_size _ _ _) _ _
      (by decide)
  rw [byteArray_toList_length, ← Array.foldl_toList,
    foldl_size_add _ 8 (fun _ _ => pushBE_size _ _ _), Array.length_toList, hH]
  rfl

/-! ## the Keccak sponge, SHAKE128 / SHAKE256 -/

/-- one squeeze round appends `8 * r` bytes (`r = rate / 8` lanes, 8 bytes each) -/
theorem squeeze_size (A : Array UInt64) (out : ByteArray) (r : Nat) :
    (List.foldl (fun b a =>
        List.foldl (fun b a_1 => b.push (A[a]! >>> (8 * UInt64.ofNat a_1)).toUInt8) b
          (List.range' 0 8)) out (List.range' 0 r)).size = out.size + 8 * r := by
  rw [foldl_size_add _ 8]
  · simp
  · intro b a
    rw [foldl_size_add _ 1 (by simp)]; simp

/-- The sponge returns exactly `outLen` bytes, for every message, suffix byte and output length,
as soon as the byte rate is a positive multiple of 8 (no upper bound on `rate` is needed for the
length). -/
theorem keccakSponge_length (rate : Nat) (suffix : UInt8) (msg : List UInt8) (outLen : Nat)
    (hr : 8 ∣ rate) (h0 : 0 < rate) : (keccakSponge rate suffix msg outLen).length = outLen := by
  unfold keccakSponge
  simp
  simp only [byteArray_toList_length, ByteArray.size_extract]
  rw [forIn_yield_size (8 * (rate / 8))]
  · simp
    rw [Nat.mul_div_cancel' hr]
    have := Nat.div_add_mod (outLen + rate - 1) rate
    have := Nat.mod_lt (outLen + rate - 1) h0
    omega
  · intro a s
    split
    · exact ⟨_, rfl, squeeze_size _ _ _⟩
    · exact ⟨_, rfl, squeeze_size _ _ _⟩

theorem shake128_length (m : List UInt8) (n : Nat) : (shake128 m n).length = n :=
  keccakSponge_length 168 0x1F m n (by decide) (by decide)

theorem shake256_length (m : List UInt8) (n : Nat) : (shake256 m n).length = n :=
  keccakSponge_length 136 0x1F m n (by decide) (by decide)

end PP.Hash
