/-
C16, homomorphism law of the 11-isogeny, layer 2: THE POINT MAP IS ADDITIVE.

`E1' = Wab g1EllpA g1EllpB` is the isogenous curve `E₁' : y² = x³ + A'x + B'` over `Fq` as a Mathlib
curve, `iso11Pt : E1'.Point → (W b₁).Point` the RFC's `iso_map` (`isoMapPoint` on the tables of
`isogeny/g1.rs`, `O ↦ O`).  Unlike the 3-isogeny of G2, the kernel is RATIONAL: the ten points
`(tₖ, ±sₖ)` (`K(tₖ) = 0`) and `O`.  From the identities of `PP/Proofs/IsoHom11Ids.lean`:

* `dbl_weak`   : `φ(2P) = ±2φ(P)` for every `P` (tangent identity; for `P` in the kernel it shows that
                 `2P` is in the kernel);
* `ti`         : **translation invariance** `φ(P + T) = φ(P)` for every `P` and every kernel point `T`
                 (both coordinates, identities `tix_id`, `tiy_id`);
* `chord_weak` : `φ(P₁ + P₂) = ±(φP₁ + φP₂)` when `x₁ ≠ x₂`, `P₁, P₂ ∉ ker`, `X(x₁) ≠ X(x₂)` (chord identity);
* `ker_of_gt`  : if `x₁ ≠ x₂`, `P₁, P₂ ∉ ker`, `X(x₁) = X(x₂)` then `P₁ + P₂` or `P₁ − P₂` is in the kernel
                 (`norm_id`), and this case follows from `ti` and `dbl_weak`;
* `weak`       : hence `φ(P + Q) = ±(φP + φQ)` for ALL `P, Q`; `φ` is odd and `E₁(Fq)` has no point of
                 order two, so `φ` is additive (`IsoHom.additive_of_weak`): `iso11Pt_add`.
-/
import PP.Proofs.IsoHom11Ids
import PP.Proofs.IsoHom
import PP.Proofs.Assembly
import PP.Proofs.Encoding

set_option linter.unusedSectionVars false
set_option linter.unusedVariables false

namespace PP
namespace IsoHom11

open WeierstrassCurve.Affine IsoPoly Iso
open IsoHom (Wab Wab_negY Wab_addX Wab_equation_iff Wab_a₁ Wab_a₂ Wab_a₃ Wab_a₄ Wab_a₆ additive_of_weak)

local notation "b₁" => g1Codec.b
local notation "Kp" => evalP iso11Ker
local notation "XN" => evalP iso11XNum
local notation "XD" => evalP iso11XDen
local notation "YN" => evalP iso11YNum
local notation "YD" => evalP iso11YDen

/-! ## the curve `E₁'` -/

/-- `E₁' : y² = x³ + A'x + B'` as a Mathlib curve -/
abbrev E1' : WeierstrassCurve.Affine Fq := Wab g1EllpA g1EllpB

theorem E1'_eq {x y : Fq} (h : E1'.Nonsingular x y) : y ^ 2 = fq x := by
  have := (Wab_equation_iff _ _ x y).mp h.1
  unfold fq; linear_combination this

/-- `E₁'` has no rational point of order two -/
theorem fq_ne (x : Fq) : fq x ≠ 0 := Sswu.g1_no_root x

theorem E1'_y_ne {x y : Fq} (h : E1'.Nonsingular x y) : y ≠ 0 := by
  rintro rfl
  apply fq_ne x
  rw [← E1'_eq h]; ring

theorem two_ne : (2 : Fq) ≠ 0 := by decide +kernel
theorem four_ne : (4 : Fq) ≠ 0 := by decide +kernel

theorem E1'_nonsingular {x y : Fq} (h : y ^ 2 = fq x) : E1'.Nonsingular x y := by
  rw [nonsingular_iff', Wab_equation_iff]
  refine ⟨by unfold fq at h; linear_combination h, Or.inr ?_⟩
  simp only [Wab_a₁, Wab_a₃, zero_mul, add_zero]
  have hy : y ≠ 0 := by
    rintro rfl
    apply fq_ne x
    rw [← h]; ring
  exact mul_ne_zero two_ne hy

theorem E1'_y_ne_negY {x y : Fq} (h : E1'.Nonsingular x y) : y ≠ E1'.negY x y := by
  rw [Wab_negY]
  intro hc
  have : 2 * y = 0 := by linear_combination hc
  exact E1'_y_ne h ((mul_eq_zero.mp this).resolve_left two_ne)

/-- two points with the same abscissa are equal or opposite -/
theorem y_eq_or {x y y' : Fq} (h : y ^ 2 = fq x) (h' : y' ^ 2 = fq x) : y = y' ∨ y = -y' := by
  have : (y - y') * (y + y') = 0 := by linear_combination h - h'
  rcases mul_eq_zero.mp this with e | e
  · exact Or.inl (sub_eq_zero.mp e)
  · exact Or.inr (eq_neg_of_add_eq_zero_left e)

/-! ## the tables: `XD = K²`, `YD = K³`, homogeneous evaluation -/

theorem xden_eq (x : Fq) : XD x = Kp x ^ 2 := by rw [iso11_xden_ker, evalP_sqP]
theorem yden_eq (x : Fq) : YD x = Kp x ^ 3 := by rw [iso11_yden_ker, evalP_cubeP]

theorem hEval_xnum (n d : Fq) (hd : d ≠ 0) : hEval iso11XNum n d = d ^ 11 * XN (n / d) := by
  rw [hEval_eq_evalP _ _ hd, iso11_lengths.1]
theorem hEval_xden (n d : Fq) (hd : d ≠ 0) : hEval iso11XDen n d = d ^ 10 * XD (n / d) := by
  rw [hEval_eq_evalP _ _ hd, iso11_lengths.2.1]
theorem hEval_ynum (n d : Fq) (hd : d ≠ 0) : hEval iso11YNum n d = d ^ 15 * YN (n / d) := by
  rw [hEval_eq_evalP _ _ hd, iso11_lengths.2.2.1]
theorem hEval_yden (n d : Fq) (hd : d ≠ 0) : hEval iso11YDen n d = d ^ 15 * YD (n / d) := by
  rw [hEval_eq_evalP _ _ hd, iso11_lengths.2.2.2]
theorem hEval_ker (n d : Fq) (hd : d ≠ 0) : hEval iso11Ker n d = d ^ 5 * Kp (n / d) := by
  rw [hEval_eq_evalP _ _ hd]; rfl

/-- the zeros of `K` are the five `tₖ` -/
theorem ker_root {x : Fq} (h : Kp x = 0) : ∃ k, (1 ≤ k ∧ k ≤ 5) ∧ x = tq k := by
  rw [ker_factor] at h
  rcases mul_eq_zero.mp h with h | h
  · rcases mul_eq_zero.mp h with h | h
    · rcases mul_eq_zero.mp h with h | h
      · rcases mul_eq_zero.mp h with h | h
        · exact ⟨1, by decide, sub_eq_zero.mp h⟩
        · exact ⟨2, by decide, sub_eq_zero.mp h⟩
      · exact ⟨3, by decide, sub_eq_zero.mp h⟩
    · exact ⟨4, by decide, sub_eq_zero.mp h⟩
  · exact ⟨5, by decide, sub_eq_zero.mp h⟩

theorem ker_tq (k : Nat) (hk : 1 ≤ k ∧ k ≤ 5) : Kp (tq k) = 0 := by
  rw [ker_factor]
  obtain ⟨h1, h5⟩ := hk
  interval_cases k <;> simp

/-- `XN` and `K` have no common zero -/
theorem xnum_ne_of_ker {x : Fq} (h : Kp x = 0) : XN x ≠ 0 := by
  obtain ⟨k, hk, rfl⟩ := ker_root h
  exact xnum_tq_ne k hk

theorem g1_b4 : b₁ = 4 := C16.g1_b

/-! ## the map on points -/

/-- the RFC's `iso_map` on the group of points of `E₁'` -/
noncomputable def iso11Pt : E1'.Point → (W b₁).Point
  | .zero => 0
  | .some x y _ => isoMapPoint b₁ iso11XNum iso11XDen iso11YNum iso11YDen x y

theorem iso11Pt_zero : iso11Pt 0 = 0 := rfl

theorem iso11Pt_some {x y : Fq} (h : E1'.Nonsingular x y) :
    iso11Pt (Point.some x y h) = isoMapPoint b₁ iso11XNum iso11XDen iso11YNum iso11YDen x y := rfl

/-- the image of a point outside the kernel is on `E₁` -/
theorem img_eq {x y : Fq} (h : y ^ 2 = fq x) (hk : Kp x ≠ 0) :
    (y * YN x / YD x) ^ 2 = (XN x / XD x) ^ 3 + b₁ := by
  have hid := iso_id x
  rw [xden_eq, yden_eq, g1_b4, div_pow, div_pow, mul_pow, h]
  generalize XN x = n at *
  generalize YN x = m at *
  generalize Kp x = k at *
  generalize fq x = f at *
  field_simp
  linear_combination hid

theorem img_nonsingular {x y : Fq} (h : y ^ 2 = fq x) (hk : Kp x ≠ 0) :
    (W b₁).Nonsingular (XN x / XD x) (y * YN x / YD x) :=
  W_nonsingular b₁ (img_eq h hk)

/-- kernel points go to `O` -/
theorem iso11Pt_of_ker {x y : Fq} (h : E1'.Nonsingular x y) (hk : Kp x = 0) :
    iso11Pt (Point.some x y h) = 0 := by
  rw [iso11Pt_some]
  unfold isoMapPoint
  rw [dif_neg]
  intro hc
  apply hc.1
  rw [xden_eq, hk]; ring

/-- the other points go to the affine point `(XN/XD, y·YN/YD)` -/
theorem iso11Pt_of_not_ker {x y : Fq} (h : E1'.Nonsingular x y) (hk : Kp x ≠ 0) :
    iso11Pt (Point.some x y h) = Point.some _ _ (img_nonsingular (E1'_eq h) hk) := by
  rw [iso11Pt_some]
  unfold isoMapPoint
  rw [dif_pos ⟨by rw [xden_eq]; exact pow_ne_zero 2 hk, by rw [yden_eq]; exact pow_ne_zero 3 hk,
    img_nonsingular (E1'_eq h) hk⟩]

theorem iso11Pt_some_eq_zero_iff {x y : Fq} (h : E1'.Nonsingular x y) :
    iso11Pt (Point.some x y h) = 0 ↔ Kp x = 0 := by
  constructor
  · intro e
    by_contra hk
    rw [iso11Pt_of_not_ker h hk] at e
    exact Point.some_ne_zero _ e
  · exact iso11Pt_of_ker h

theorem iso11Pt_neg (P : E1'.Point) : iso11Pt (-P) = -iso11Pt P := by
  rcases P with _ | ⟨x, y, h⟩
  · rfl
  · rw [Point.neg_some]
    by_cases hk : Kp x = 0
    · rw [iso11Pt_of_ker _ hk, iso11Pt_of_ker _ hk]; rfl
    · rw [iso11Pt_of_not_ker _ hk, iso11Pt_of_not_ker _ hk, Point.neg_some, PP.Point.some_eq_some]
      refine ⟨rfl, ?_⟩
      rw [Wab_negY, W_negY]; ring

/-- the image of a point outside the kernel has a nonzero ordinate (`E₁` has no 2-torsion) -/
theorem img_y_ne {x y : Fq} (h : y ^ 2 = fq x) (hk : Kp x ≠ 0) : y * YN x / YD x ≠ 0 := by
  intro h0
  have e := img_eq h hk
  rw [h0] at e
  apply g1_no_two_torsion (XN x / XD x)
  linear_combination -e

theorem ynum_ne {x y : Fq} (h : y ^ 2 = fq x) (hk : Kp x ≠ 0) : YN x ≠ 0 := by
  intro h0
  apply img_y_ne h hk
  rw [h0]; simp

/-- `E₁(Fq)` has no element of order two -/
theorem target_no2 (Q : (W b₁).Point) (h : Q + Q = 0) : Q = 0 := by
  rcases Q with _ | ⟨x, y, hq⟩
  · rfl
  · exfalso
    have e : y ^ 2 = x ^ 3 + b₁ := (W_nonsingular_iff _ x y).mp hq
    by_cases hy : y = (W b₁).negY x y
    · rw [W_negY] at hy
      have h2y : 2 * y = 0 := by linear_combination hy
      have y0 : y = 0 := (mul_eq_zero.mp h2y).resolve_left two_ne
      rw [y0] at e
      apply g1_no_two_torsion x
      linear_combination -e
    · rw [Point.add_self_of_Y_ne hy] at h
      exact Point.some_ne_zero _ h

/-! ## doubling -/

theorem W_slope_self {F : Type} [Field F] [DecidableEq F] (b X Y : F)
    (hY : Y ≠ (W b).negY X Y) : (W b).slope X X Y Y = 3 * X ^ 2 / (2 * Y) := by
  rw [slope_of_Y_ne rfl hY, W_negY]
  simp only [W_a₁, W_a₂, W_a₄]
  have e1 : Y - -Y = 2 * Y := by ring
  have e2 : 3 * X ^ 2 + 2 * 0 * X + 0 - 0 * Y = 3 * X ^ 2 := by ring
  rw [e1, e2]

/-- abscissa of `2P` -/
theorem dbl_addX {x y : Fq} (h : E1'.Nonsingular x y) :
    E1'.addX x x (E1'.slope x x y y) = dblN x / (4 * fq x) := by
  have e := E1'_eq h
  have hy := E1'_y_ne h
  have h2 := two_ne
  have h4 := four_ne
  rw [Wab_addX, slope_of_Y_ne rfl (E1'_y_ne_negY h), Wab_negY]
  simp only [Wab_a₁, Wab_a₂, Wab_a₄]
  unfold dblN
  rw [← e]
  have : y - -y = 2 * y := by ring
  rw [this]
  field_simp
  ring

/-- the tangent identity at a point of the curve, `x₃ = x(2P)` -/
theorem dbl_key (x : Fq) :
    4 * fq x * XN (dblN x / (4 * fq x)) * (YN x ^ 2 * Kp x ^ 2) =
      Kp (dblN x / (4 * fq x)) ^ 2 * (9 * XN x ^ 4 - 8 * fq x * YN x ^ 2 * XN x) := by
  have hw : 4 * fq x ≠ 0 := mul_ne_zero four_ne (fq_ne x)
  have ht := tan_id x
  rw [hEval_xnum _ _ hw, hEval_xden _ _ hw, xden_eq] at ht
  apply mul_left_cancel₀ (pow_ne_zero 10 hw)
  linear_combination ht

theorem dbl_alg {F : Type} [Field F] (a m k y : F) (hm : m ≠ 0) (hk : k ≠ 0) (hy : y ≠ 0)
    (h2 : (2 : F) ≠ 0) :
    (3 * (a / k ^ 2) ^ 2 / (2 * (y * m / k ^ 3))) ^ 2 - a / k ^ 2 - a / k ^ 2 =
      (9 * a ^ 4 - 8 * y ^ 2 * m ^ 2 * a) / (4 * y ^ 2 * (m ^ 2 * k ^ 2)) := by
  have h4 : (4 : F) ≠ 0 := by
    have : (4 : F) = 2 * 2 := by norm_num
    rw [this]; exact mul_ne_zero h2 h2
  field_simp
  ring

/-- `φ(2P) = ±2φ(P)`; if `P` is a kernel point, so is `2P` -/
theorem dbl_weak {x y : Fq} (h : E1'.Nonsingular x y) :
    iso11Pt (Point.some x y h + Point.some x y h) =
        iso11Pt (Point.some x y h) + iso11Pt (Point.some x y h) ∨
      iso11Pt (Point.some x y h + Point.some x y h) =
        -(iso11Pt (Point.some x y h) + iso11Pt (Point.some x y h)) := by
  have e := E1'_eq h
  have hy0 := E1'_y_ne h
  have key := dbl_key x
  have hX3 := dbl_addX h
  have hw : 4 * fq x ≠ 0 := mul_ne_zero four_ne (fq_ne x)
  rw [Point.add_self_of_Y_ne (E1'_y_ne_negY h)]
  by_cases hk : Kp x = 0
  · left
    have hk3 : Kp (E1'.addX x x (E1'.slope x x y y)) = 0 := by
      rw [hX3]
      have hid := iso_id x
      rw [hk] at key hid
      have hxn := xnum_ne_of_ker hk
      have h0 : Kp (dblN x / (4 * fq x)) ^ 2 * XN x ^ 4 = 0 := by
        linear_combination (-1 : Fq) * key + (8 * XN x * Kp (dblN x / (4 * fq x)) ^ 2) * hid
      rcases mul_eq_zero.mp h0 with h0 | h0
      · exact pow_eq_zero_iff (by norm_num) |>.mp h0
      · exact absurd (pow_eq_zero_iff (by norm_num) |>.mp h0) hxn
    rw [iso11Pt_of_ker _ hk3, iso11Pt_of_ker h hk, add_zero]
  · have hyn := ynum_ne e hk
    have hk3 : Kp (E1'.addX x x (E1'.slope x x y y)) ≠ 0 := by
      rw [hX3]
      intro h0
      rw [h0] at key
      have hxn := xnum_ne_of_ker h0
      have : 4 * fq x * XN (dblN x / (4 * fq x)) * (YN x ^ 2 * Kp x ^ 2) ≠ 0 :=
        mul_ne_zero (mul_ne_zero hw hxn) (mul_ne_zero (pow_ne_zero 2 hyn) (pow_ne_zero 2 hk))
      apply this
      rw [key]; ring
    have hY := img_y_ne e hk
    have hY' : y * YN x / YD x ≠ (W b₁).negY (XN x / XD x) (y * YN x / YD x) := by
      rw [W_negY]
      intro hc
      apply hY
      have : 2 * (y * YN x / YD x) = 0 := by linear_combination hc
      exact (mul_eq_zero.mp this).resolve_left two_ne
    rw [iso11Pt_of_not_ker _ hk3, iso11Pt_of_not_ker h hk, Point.add_self_of_Y_ne hY']
    apply Point.X_eq_iff.mp
    have hsl' := W_slope_self b₁ (XN x / XD x) (y * YN x / YD x) hY'
    have hL : XN (dblN x / (4 * fq x)) / XD (dblN x / (4 * fq x)) =
        (9 * XN x ^ 4 - 8 * y ^ 2 * YN x ^ 2 * XN x) / (4 * y ^ 2 * (YN x ^ 2 * Kp x ^ 2)) := by
      rw [hX3] at hk3
      rw [xden_eq, e, div_eq_div_iff (pow_ne_zero 2 hk3)
        (mul_ne_zero hw (mul_ne_zero (pow_ne_zero 2 hyn) (pow_ne_zero 2 hk)))]
      linear_combination key
    rw [hsl', hX3, hL, xden_eq, yden_eq]
    simp only [addX, W_a₁, W_a₂]
    rw [← dbl_alg (XN x) (YN x) (Kp x) y hyn hk hy0 two_ne]
    ring

/-! ## translation by a kernel point -/

theorem Tk_nonsingular (k : Nat) (hk : 1 ≤ k ∧ k ≤ 5) : E1'.Nonsingular (tq k) (sq' k) :=
  E1'_nonsingular (by rw [pow_two]; exact sq_tq k hk)

/-- abscissa of a sum of two points with different abscissae -/
theorem chord_addX {x₁ y₁ x₂ y₂ : Fq} (e₁ : y₁ ^ 2 = fq x₁) (e₂ : y₂ ^ 2 = fq x₂) (hx : x₁ ≠ x₂) :
    E1'.addX x₁ x₂ (E1'.slope x₁ x₂ y₁ y₂) = (addS x₁ x₂ - 2 * (y₁ * y₂)) / (x₁ - x₂) ^ 2 := by
  have hd : x₁ - x₂ ≠ 0 := sub_ne_zero.mpr hx
  rw [Wab_addX, slope_of_X_ne hx]
  unfold addS
  unfold fq at e₁ e₂
  field_simp
  linear_combination e₁ + e₂

theorem tiNF_eq (k : Nat) (x y : Fq) : tiNF k x y = addS x (tq k) - 2 * (y * sq' k) := by
  unfold tiNF addS; ring

/-- `(x − t)³ ·` the ordinate of a sum -/
theorem chord_addY {x₁ y₁ x₂ y₂ : Fq} (hx : x₁ ≠ x₂) :
    E1'.addY x₁ x₂ y₁ (E1'.slope x₁ x₂ y₁ y₂) * (x₁ - x₂) ^ 3 =
      -((y₁ - y₂) * (E1'.addX x₁ x₂ (E1'.slope x₁ x₂ y₁ y₂) * (x₁ - x₂) ^ 2 - x₁ * (x₁ - x₂) ^ 2))
        - y₁ * (x₁ - x₂) ^ 3 := by
  have hd : x₁ - x₂ ≠ 0 := sub_ne_zero.mpr hx
  unfold addY negAddY
  rw [Wab_negY, slope_of_X_ne hx]
  generalize E1'.addX x₁ x₂ ((y₁ - y₂) / (x₁ - x₂)) = X
  field_simp
  ring

/-- `φ(P + k·T) = φ(P)` for the kernel point `k·T = (tₖ, sₖ)` -/
theorem ti_core (k : Nat) (hk : 1 ≤ k ∧ k ≤ 5) (P : E1'.Point) :
    iso11Pt (P + Point.some (tq k) (sq' k) (Tk_nonsingular k hk)) = iso11Pt P := by
  have hT := Tk_nonsingular k hk
  have hkT : Kp (tq k) = 0 := ker_tq k hk
  have es : sq' k ^ 2 = fq (tq k) := E1'_eq hT
  rcases P with _ | ⟨x, y, h⟩
  · show iso11Pt (0 + _) = iso11Pt 0
    rw [zero_add, iso11Pt_of_ker hT hkT]; rfl
  have e := E1'_eq h
  by_cases hx : x = tq k
  · subst hx
    rw [iso11Pt_of_ker h hkT]
    rcases y_eq_or e es with rfl | rfl
    · -- `P = k·T`: `2P` is in the kernel
      rcases dbl_weak h with hw | hw
      · rw [hw, iso11Pt_of_ker h hkT, add_zero]
      · rw [hw, iso11Pt_of_ker h hkT, add_zero, neg_zero]
    · -- `P = −k·T`
      rw [Point.add_of_Y_eq rfl (by rw [Wab_negY])]; rfl
  · have hd : x - tq k ≠ 0 := sub_ne_zero.mpr hx
    have hX' := chord_addX e es hx
    have hY' := chord_addY (y₁ := y) (y₂ := sq' k) hx
    rw [← tiNF_eq] at hX'
    have hyy : y * y = fq x := by rw [← pow_two]; exact e
    -- abscissa identity
    have kx : XN (tiNF k x y / (x - tq k) ^ 2) * Kp x ^ 2 =
        Kp (tiNF k x y / (x - tq k) ^ 2) ^ 2 * XN x := by
      have ht := tix_id k hk x y hyy
      rw [hEval_xnum _ _ (pow_ne_zero 2 hd), hEval_xden _ _ (pow_ne_zero 2 hd), xden_eq] at ht
      apply mul_left_cancel₀ (pow_ne_zero 11 (pow_ne_zero 2 hd))
      linear_combination ht
    rw [Point.add_of_X_ne hx]
    by_cases hkx : Kp x = 0
    · have hk' : Kp (E1'.addX x (tq k) (E1'.slope x (tq k) y (sq' k))) = 0 := by
        rw [hX']
        rw [hkx] at kx
        have hxn := xnum_ne_of_ker hkx
        have h0 : Kp (tiNF k x y / (x - tq k) ^ 2) ^ 2 * XN x = 0 := by rw [← kx]; ring
        exact pow_eq_zero_iff (by norm_num) |>.mp ((mul_eq_zero.mp h0).resolve_right hxn)
      rw [iso11Pt_of_ker _ hk', iso11Pt_of_ker h hkx]
    · have hk' : Kp (E1'.addX x (tq k) (E1'.slope x (tq k) y (sq' k))) ≠ 0 := by
        rw [hX']
        intro h0
        rw [h0] at kx
        have hxn := xnum_ne_of_ker h0
        have : XN (tiNF k x y / (x - tq k) ^ 2) * Kp x ^ 2 ≠ 0 := mul_ne_zero hxn (pow_ne_zero 2 hkx)
        apply this
        rw [kx]; ring
      rw [iso11Pt_of_not_ker _ hk', iso11Pt_of_not_ker h hkx, PP.Point.some_eq_some]
      have hk'' := hk'
      rw [hX'] at hk''
      -- ordinate identity
      have hM : E1'.addY x (tq k) y (E1'.slope x (tq k) y (sq' k)) * (x - tq k) ^ 3 = tiMF k x y := by
        rw [hY', hX']
        unfold tiMF
        field_simp
      have ky : E1'.addY x (tq k) y (E1'.slope x (tq k) y (sq' k)) *
          YN (tiNF k x y / (x - tq k) ^ 2) * Kp x ^ 3 =
          Kp (tiNF k x y / (x - tq k) ^ 2) ^ 3 * (y * YN x) := by
        have ht := tiy_id k hk x y hyy
        rw [hEval_ynum _ _ (pow_ne_zero 2 hd), hEval_yden _ _ (pow_ne_zero 2 hd), yden_eq, ← hM] at ht
        apply mul_left_cancel₀ (mul_ne_zero (pow_ne_zero 3 hd) (pow_ne_zero 15 (pow_ne_zero 2 hd)))
        linear_combination ht
      constructor
      · rw [hX', xden_eq, xden_eq, div_eq_div_iff (pow_ne_zero 2 hk'') (pow_ne_zero 2 hkx)]
        linear_combination kx
      · rw [hX', yden_eq, yden_eq, div_eq_div_iff (pow_ne_zero 3 hk'') (pow_ne_zero 3 hkx)]
        linear_combination ky

/-- **translation invariance**: `φ(P + T) = φ(P)` for every kernel point `T` -/
theorem ti (T P : E1'.Point) (hT : iso11Pt T = 0) : iso11Pt (P + T) = iso11Pt P := by
  rcases T with _ | ⟨t, s, hT'⟩
  · show iso11Pt (P + 0) = _
    rw [add_zero]
  · have hk0 := (iso11Pt_some_eq_zero_iff hT').mp hT
    obtain ⟨k, hk, rfl⟩ := ker_root hk0
    have es := E1'_eq hT'
    rcases y_eq_or es (E1'_eq (Tk_nonsingular k hk)) with rfl | rfl
    · exact ti_core k hk P
    · have hneg : Point.some (tq k) (-sq' k) hT' =
          -Point.some (tq k) (sq' k) (Tk_nonsingular k hk) := by
        rw [Point.neg_some, PP.Point.some_eq_some]
        exact ⟨rfl, by rw [Wab_negY]⟩
      rw [hneg]
      have h1 := ti_core k hk (-P)
      have : P + -Point.some (tq k) (sq' k) (Tk_nonsingular k hk) =
          -(-P + Point.some (tq k) (sq' k) (Tk_nonsingular k hk)) := by abel
      rw [this, iso11Pt_neg, h1, iso11Pt_neg, neg_neg]

/-! ## the chord -/

theorem chord_alg {F : Type} [Field F] (a₁ a₂ m₁ m₂ k₁ k₂ y₁ y₂ : F) (hk₁ : k₁ ≠ 0) (hk₂ : k₂ ≠ 0)
    (hg : a₁ * k₂ ^ 2 - a₂ * k₁ ^ 2 ≠ 0) :
    ((y₁ * m₁ / k₁ ^ 3 - y₂ * m₂ / k₂ ^ 3) / (a₁ / k₁ ^ 2 - a₂ / k₂ ^ 2)) ^ 2 - a₁ / k₁ ^ 2 - a₂ / k₂ ^ 2 =
      (y₁ ^ 2 * m₁ ^ 2 * k₂ ^ 6 + y₂ ^ 2 * m₂ ^ 2 * k₁ ^ 6
          - 2 * (y₁ * y₂) * (m₁ * m₂ * (k₁ ^ 3 * k₂ ^ 3))
          - (a₁ * k₂ ^ 2 + a₂ * k₁ ^ 2) * (a₁ * k₂ ^ 2 - a₂ * k₁ ^ 2) ^ 2) /
        (k₁ ^ 2 * k₂ ^ 2 * (a₁ * k₂ ^ 2 - a₂ * k₁ ^ 2) ^ 2) := by
  have hs : a₁ / k₁ ^ 2 - a₂ / k₂ ^ 2 = (a₁ * k₂ ^ 2 - a₂ * k₁ ^ 2) / (k₁ ^ 2 * k₂ ^ 2) := by
    field_simp
  rw [hs]
  generalize a₁ * k₂ ^ 2 - a₂ * k₁ ^ 2 = g at *
  field_simp
  ring

/-- `φ(P₁ + P₂) = ±(φP₁ + φP₂)`: different abscissae, no kernel point, different image abscissae -/
theorem chord_weak {x₁ y₁ x₂ y₂ : Fq} (h₁ : E1'.Nonsingular x₁ y₁) (h₂ : E1'.Nonsingular x₂ y₂)
    (hx : x₁ ≠ x₂) (k₁ : Kp x₁ ≠ 0) (k₂ : Kp x₂ ≠ 0) (hg : gtF x₁ x₂ ≠ 0) :
    iso11Pt (Point.some x₁ y₁ h₁ + Point.some x₂ y₂ h₂) =
        iso11Pt (Point.some x₁ y₁ h₁) + iso11Pt (Point.some x₂ y₂ h₂) ∨
      iso11Pt (Point.some x₁ y₁ h₁ + Point.some x₂ y₂ h₂) =
        -(iso11Pt (Point.some x₁ y₁ h₁) + iso11Pt (Point.some x₂ y₂ h₂)) := by
  have e₁ := E1'_eq h₁
  have e₂ := E1'_eq h₂
  have hd : x₁ - x₂ ≠ 0 := sub_ne_zero.mpr hx
  have hp : y₁ * y₂ * (y₁ * y₂) = fq x₁ * fq x₂ := by rw [← e₁, ← e₂]; ring
  have hX3 := chord_addX e₁ e₂ hx
  have hden : chordDenF x₁ x₂ ≠ 0 := by
    unfold chordDenF
    exact mul_ne_zero (mul_ne_zero (pow_ne_zero 2 k₁) (pow_ne_zero 2 k₂)) (pow_ne_zero 2 hg)
  have ckey : XN ((addS x₁ x₂ - 2 * (y₁ * y₂)) / (x₁ - x₂) ^ 2) * chordDenF x₁ x₂ =
      Kp ((addS x₁ x₂ - 2 * (y₁ * y₂)) / (x₁ - x₂) ^ 2) ^ 2 * chordNumF x₁ x₂ (y₁ * y₂) := by
    have hc := chord_id x₁ x₂ (y₁ * y₂) hp
    rw [hEval_xnum _ _ (pow_ne_zero 2 hd), hEval_xden _ _ (pow_ne_zero 2 hd), xden_eq] at hc
    apply mul_left_cancel₀ (pow_ne_zero 11 (pow_ne_zero 2 hd))
    linear_combination hc
  have hk3 : Kp ((addS x₁ x₂ - 2 * (y₁ * y₂)) / (x₁ - x₂) ^ 2) ≠ 0 := by
    intro h0
    rw [h0] at ckey
    have hxn := xnum_ne_of_ker h0
    apply mul_ne_zero hxn hden
    rw [ckey]; ring
  have hk3' : Kp (E1'.addX x₁ x₂ (E1'.slope x₁ x₂ y₁ y₂)) ≠ 0 := by rw [hX3]; exact hk3
  have hX : XN x₁ / XD x₁ ≠ XN x₂ / XD x₂ := by
    intro hc
    apply hg
    rw [xden_eq, xden_eq, div_eq_div_iff (pow_ne_zero 2 k₁) (pow_ne_zero 2 k₂)] at hc
    unfold gtF
    linear_combination hc
  rw [Point.add_of_X_ne hx, iso11Pt_of_not_ker _ hk3', iso11Pt_of_not_ker h₁ k₁,
    iso11Pt_of_not_ker h₂ k₂, Point.add_of_X_ne hX]
  apply Point.X_eq_iff.mp
  have hL : XN ((addS x₁ x₂ - 2 * (y₁ * y₂)) / (x₁ - x₂) ^ 2) /
      XD ((addS x₁ x₂ - 2 * (y₁ * y₂)) / (x₁ - x₂) ^ 2) =
        chordNumF x₁ x₂ (y₁ * y₂) / chordDenF x₁ x₂ := by
    rw [xden_eq, div_eq_div_iff (pow_ne_zero 2 hk3) hden]
    linear_combination ckey
  rw [slope_of_X_ne hX, hX3, hL]
  simp only [addX, W_a₁, W_a₂]
  have hg' : XN x₁ * Kp x₂ ^ 2 - XN x₂ * Kp x₁ ^ 2 ≠ 0 := hg
  have := chord_alg (XN x₁) (XN x₂) (YN x₁) (YN x₂) (Kp x₁) (Kp x₂) y₁ y₂ k₁ k₂ hg'
  rw [xden_eq, xden_eq, yden_eq, yden_eq]
  unfold chordNumF chordDenF gtF
  rw [← e₁, ← e₂]
  linear_combination -this

/-- if the images of two points with different abscissae have the same abscissa, then the sum or
    the difference of the two points is in the kernel -/
theorem ker_of_gt {x₁ y₁ x₂ y₂ : Fq} (e₁ : y₁ ^ 2 = fq x₁) (e₂ : y₂ ^ 2 = fq x₂) (hx : x₁ ≠ x₂)
    (hg : gtF x₁ x₂ = 0) :
    Kp (E1'.addX x₁ x₂ (E1'.slope x₁ x₂ y₁ y₂)) = 0 ∨
      Kp (E1'.addX x₁ x₂ (E1'.slope x₁ x₂ y₁ (-y₂))) = 0 := by
  have hd : x₁ - x₂ ≠ 0 := sub_ne_zero.mpr hx
  have hp : y₁ * y₂ * (y₁ * y₂) = fq x₁ * fq x₂ := by rw [← e₁, ← e₂]; ring
  have e₂' : (-y₂) ^ 2 = fq x₂ := by rw [neg_sq]; exact e₂
  rw [chord_addX e₁ e₂ hx, chord_addX e₁ e₂' hx]
  have hn := norm_id x₁ x₂ (y₁ * y₂) hp
  rw [hg, hEval_ker _ _ (pow_ne_zero 2 hd), hEval_ker _ _ (pow_ne_zero 2 hd)] at hn
  have h5 : ((x₁ - x₂) ^ 2) ^ 5 ≠ 0 := pow_ne_zero 5 (pow_ne_zero 2 hd)
  have h0 : Kp ((addS x₁ x₂ - 2 * (y₁ * y₂)) / (x₁ - x₂) ^ 2) *
      Kp ((addS x₁ x₂ + 2 * (y₁ * y₂)) / (x₁ - x₂) ^ 2) = 0 := by
    apply mul_left_cancel₀ (mul_ne_zero (mul_ne_zero h5 h5) hd)
    linear_combination hn
  have e : addS x₁ x₂ - 2 * (y₁ * -y₂) = addS x₁ x₂ + 2 * (y₁ * y₂) := by ring
  rw [e]
  exact mul_eq_zero.mp h0

/-! ## additivity -/

/-- the exceptional case: `P + Q` or `P − Q` is a kernel point -/
theorem weak_of_ker (P Q : E1'.Point) (h : iso11Pt (P + Q) = 0 ∨ iso11Pt (P + -Q) = 0)
    (hdbl : iso11Pt (Q + Q) = iso11Pt Q + iso11Pt Q ∨ iso11Pt (Q + Q) = -(iso11Pt Q + iso11Pt Q)) :
    iso11Pt (P + Q) = iso11Pt P + iso11Pt Q ∨ iso11Pt (P + Q) = -(iso11Pt P + iso11Pt Q) := by
  rcases h with h | h
  · left
    have e := ti (P + Q) (-P) h
    rw [neg_add_cancel_left] at e
    rw [h, e, iso11Pt_neg, add_neg_cancel]
  · have e1 := ti (P + -Q) Q h
    have a1 : Q + (P + -Q) = P := by abel
    rw [a1] at e1
    have e2 := ti (P + -Q) (Q + Q) h
    have a2 : Q + Q + (P + -Q) = P + Q := by abel
    rw [a2] at e2
    rw [e2, e1]
    exact hdbl

/-- additivity up to sign, all cases -/
theorem weak (P Q : E1'.Point) :
    iso11Pt (P + Q) = iso11Pt P + iso11Pt Q ∨ iso11Pt (P + Q) = -(iso11Pt P + iso11Pt Q) := by
  by_cases hP : iso11Pt P = 0
  · left
    rw [add_comm P Q, ti P Q hP, hP, zero_add]
  by_cases hQ : iso11Pt Q = 0
  · left
    rw [ti Q P hQ, hQ, add_zero]
  rcases P with _ | ⟨x₁, y₁, h₁⟩
  · exact absurd rfl hP
  rcases Q with _ | ⟨x₂, y₂, h₂⟩
  · exact absurd rfl hQ
  have k₁ : Kp x₁ ≠ 0 := fun h => hP (iso11Pt_of_ker h₁ h)
  have k₂ : Kp x₂ ≠ 0 := fun h => hQ (iso11Pt_of_ker h₂ h)
  have e₁ := E1'_eq h₁
  have e₂ := E1'_eq h₂
  by_cases hx : x₁ = x₂
  · subst hx
    rcases y_eq_or e₁ e₂ with rfl | rfl
    · exact dbl_weak h₁
    · -- opposite points
      left
      have hneg : Point.some x₁ (-y₂) h₁ = -Point.some x₁ y₂ h₂ := by
        rw [Point.neg_some, PP.Point.some_eq_some]
        exact ⟨rfl, by rw [Wab_negY]⟩
      rw [hneg, neg_add_cancel, iso11Pt_neg, neg_add_cancel]; rfl
  · by_cases hg : gtF x₁ x₂ = 0
    · -- the exceptional case: `P ± Q` is a kernel point
      have h₂' : E1'.Nonsingular x₂ (-y₂) := E1'_nonsingular (by rw [neg_sq]; exact e₂)
      have hneg : -Point.some x₂ y₂ h₂ = Point.some x₂ (-y₂) h₂' := by
        rw [Point.neg_some, PP.Point.some_eq_some]
        exact ⟨rfl, by rw [Wab_negY]⟩
      apply weak_of_ker _ _ _ (dbl_weak h₂)
      rcases ker_of_gt e₁ e₂ hx hg with hk | hk
      · left
        rw [Point.add_of_X_ne hx]
        exact iso11Pt_of_ker _ hk
      · right
        rw [hneg, Point.add_of_X_ne hx]
        exact iso11Pt_of_ker _ hk
    · exact chord_weak h₁ h₂ hx k₁ k₂ hg

/-- **the homomorphism law of the 11-isogeny `E₁' → E₁`** -/
theorem iso11Pt_add (P Q : E1'.Point) : iso11Pt (P + Q) = iso11Pt P + iso11Pt Q :=
  additive_of_weak iso11Pt target_no2 iso11Pt_neg weak P Q

/-- the isogeny as a homomorphism of Mathlib's groups of points -/
noncomputable def iso11Hom : E1'.Point →+ (W b₁).Point := AddMonoidHom.mk' iso11Pt iso11Pt_add

/-- the kernel: `O` and the affine points whose abscissa is a zero of `K` -/
theorem iso11Pt_eq_zero_iff (P : E1'.Point) :
    iso11Pt P = 0 ↔ P = 0 ∨ ∃ x y h, P = Point.some x y h ∧ Kp x = 0 := by
  rcases P with _ | ⟨x, y, h⟩
  · exact ⟨fun _ => Or.inl rfl, fun _ => rfl⟩
  · rw [iso11Pt_some_eq_zero_iff]
    constructor
    · intro hk
      exact Or.inr ⟨x, y, h, rfl, hk⟩
    · rintro (h0 | ⟨x', y', h', e, hk⟩)
      · exact absurd h0 (Point.some_ne_zero _)
      · obtain ⟨rfl, rfl⟩ := PP.Point.some_eq_some.mp e
        exact hk

end IsoHom11
end PP
