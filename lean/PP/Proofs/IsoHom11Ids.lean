/-
C16, homomorphism law of the 11-isogeny, layer 1: THE RATIONAL-FUNCTION IDENTITIES over `Fq`, with
denominators cleared, as statements about `IsoPoly.evalP` / `IsoPoly.hEval` of the coefficient tables
of `isogeny/g1.rs`.  Each is obtained from `IsoHom11.master` (evaluation on a grid, run by the kernel
on canonical representatives; degree bounds computed on the same term) applied to the terms of
`PP/Proofs/IsoHom11Ast.lean`; the chord identity (56 × 56 grid) is split over the four modules
`IsoHom11ChordA … D`.

Notation: `fq x = x³ + A'x + B'`, `K = iso11Ker`, `XN, XD, YN, YD` the four tables, `hEval cs n d =
d^deg · cs(n/d)`, `tq k, sq k` the coordinates of the kernel points `k·T` (`k = 1..5`).

* `ker_factor` : `K(x) = Π (x − tₖ)`;                `iso_id` : `f·YN² = XN³ + 4K⁶`;
* `tan_id`     : abscissa of `φ(2P)` vs `2φ(P)`;      `chord_id` : abscissa of `φ(P₁+P₂)` vs `φP₁+φP₂`;
* `norm_id`    : `Kh(x(P₁+P₂))·Kh(x(P₁−P₂))·(x₁−x₂) = 121 (x₁−x₂)^10 (XN₁K₂² − XN₂K₁²)`;
* `tix_id k`, `tiy_id k` : the two coordinates of `φ(P + k·T) = φ(P)`.
-/
import PP.Proofs.IsoHom11ChordA
import PP.Proofs.IsoHom11ChordB
import PP.Proofs.IsoHom11ChordC
import PP.Proofs.IsoHom11ChordD

namespace PP
namespace IsoHom11

open IsoPoly Iso

/-! ## unfolding the `Fq` semantics of a term -/

theorem fqOps_add (a b : Fq) : fqOps.add a b = a + b := rfl
theorem fqOps_sub (a b : Fq) : fqOps.sub a b = a - b := rfl
theorem fqOps_mul (a b : Fq) : fqOps.mul a b = a * b := rfl
theorem fqOps_ofNat (k : Nat) : fqOps.ofNat k = Zp.ofNat k := rfl

theorem ofNat_cast (n : Nat) : (Zp.ofNat n : Fq) = (n : Fq) := rfl
theorem ofNat_mul (a b : Nat) : (Zp.ofNat (a * b) : Fq) = Zp.ofNat a * Zp.ofNat b := by
  simp only [ofNat_cast]; exact Nat.cast_mul a b
theorem ofNat_lit (n : Nat) [n.AtLeastTwo] : (Zp.ofNat n : Fq) = OfNat.ofNat n := by
  rw [ofNat_cast]; exact Nat.cast_ofNat
theorem ofNat_zero : (Zp.ofNat 0 : Fq) = 0 := rfl
theorem ofNat_one : (Zp.ofNat 1 : Fq) = 1 := rfl

/-- right-hand side of `E₁'` -/
def fq (x : Fq) : Fq := x ^ 3 + g1EllpA * x + g1EllpB

theorem evalP_f (x : Fq) : evalP ([bN, aN, 0, 1].map Zp.ofNat) x = fq x := by
  unfold fq
  rw [aN_eq, bN_eq]
  simp only [List.map_cons, List.map_nil, evalP_cons, evalP_nil]
  rw [ofNat_zero, ofNat_one]; ring

theorem env0 (x₁ x₂ : Fq) : envFq defs x₁ x₂ 0 = x₁ := rfl
theorem env1 (x₁ x₂ : Fq) : envFq defs x₁ x₂ 1 = x₂ := rfl
theorem env2 (x₁ x₂ : Fq) : envFq defs x₁ x₂ 2 = fq x₁ := by
  show polG fqOps x₁ [bN, aN, 0, 1] = _
  rw [polG_fq, evalP_f]
theorem env3 (x₁ x₂ : Fq) : envFq defs x₁ x₂ 3 = fq x₂ := by
  show polG fqOps x₂ [bN, aN, 0, 1] = _
  rw [polG_fq, evalP_f]
theorem env4 (x₁ x₂ : Fq) : envFq defs x₁ x₂ 4 = evalP iso11Ker x₁ := by
  show polG fqOps x₁ kerN = _
  rw [polG_fq, kerN_eq]
theorem env5 (x₁ x₂ : Fq) : envFq defs x₁ x₂ 5 = evalP iso11Ker x₂ := by
  show polG fqOps x₂ kerN = _
  rw [polG_fq, kerN_eq]
theorem env6 (x₁ x₂ : Fq) : envFq defs x₁ x₂ 6 = evalP iso11XNum x₁ := by
  show polG fqOps x₁ xnN = _
  rw [polG_fq, xnN_eq]
theorem env7 (x₁ x₂ : Fq) : envFq defs x₁ x₂ 7 = evalP iso11XNum x₂ := by
  show polG fqOps x₂ xnN = _
  rw [polG_fq, xnN_eq]
theorem env8 (x₁ x₂ : Fq) : envFq defs x₁ x₂ 8 = evalP iso11YNum x₁ := by
  show polG fqOps x₁ ynN = _
  rw [polG_fq, ynN_eq]
theorem env9 (x₁ x₂ : Fq) : envFq defs x₁ x₂ 9 = evalP iso11YNum x₂ := by
  show polG fqOps x₂ ynN = _
  rw [polG_fq, ynN_eq]

/-- coordinates of the kernel points `k·T` -/
def tq (k : Nat) : Fq := Zp.ofNat (tN k)
def sq' (k : Nat) : Fq := Zp.ofNat (sN k)

set_option linter.unusedSimpArgs false

/-- unfold `eval fqOps (envFq defs x₁ x₂) p e` for the terms of `IsoHom11Ast` -/
macro "iso11_unfold" " at " h:ident : tactic => `(tactic|
  simp only [chordE, chordNum, chordDen, normE, chordN, chordN', chordS, chordDd, chordD, gt, tanE, tanN,
    tanD, isoE, kerE, tixE, tiyE, tiM, tiN, tiD, x1, x2, f1, f2, k1, k2, xn1, xn2, yn1, yn2,
    eval, env0, env1, env2, env3, env4, env5, env6, env7, env8, env9, powG_fq, hevAux_fq,
    fqOps_add, fqOps_sub, fqOps_mul, fqOps_ofNat, ← kerN_eq, ← xnN_eq, ← xdN_eq, ← ynN_eq, ← ydN_eq,
    ← aN_eq, ← bN_eq, ofNat_mul, ofNat_lit, ofNat_zero, ofNat_one] at $h:ident)

theorem q_ge (n : Nat) (h : n ≤ 100 := by decide) : n ≤ Gen.q :=
  h.trans (by decide)

/-! ## the small identities -/

theorem ker_grid : rowsCheck defs kerE (.c 0) 0 6 1 = true := by decide +kernel

/-- `K(x) = Π (x − tₖ)` -/
theorem ker_factor (x : Fq) :
    evalP iso11Ker x = (x - tq 1) * (x - tq 2) * (x - tq 3) * (x - tq 4) * (x - tq 5) := by
  have h := master defs kerE (.c 0) 6 1 (q_ge 6) (q_ge 1) (by decide +kernel)
    (gridCheck_of_rows _ _ _ _ _ ker_grid) x 0 0 (by show (0 : Fq) * 0 = Zp.ofNat 0; rw [ofNat_zero]; ring)
  iso11_unfold at h
  unfold tq
  linear_combination h

theorem iso_grid : rowsCheck defs isoE (.c 0) 0 34 1 = true := by decide +kernel

/-- the isogeny identity with `XD = K²`, `YD = K³` divided out: `f·YN² = XN³ + 4K⁶` -/
theorem iso_id (x : Fq) :
    fq x * evalP iso11YNum x ^ 2 = evalP iso11XNum x ^ 3 + 4 * evalP iso11Ker x ^ 6 := by
  have h := master defs isoE (.c 0) 34 1 (q_ge 34) (q_ge 1) (by decide +kernel)
    (gridCheck_of_rows _ _ _ _ _ iso_grid) x 0 0 (by show (0 : Fq) * 0 = Zp.ofNat 0; rw [ofNat_zero]; ring)
  iso11_unfold at h
  linear_combination h

theorem tan_grid : rowsCheck defs tanE (.c 0) 0 85 1 = true := by decide +kernel

/-- numerator of the abscissa of `2P` (denominator `4f`) -/
def dblN (x : Fq) : Fq := (3 * x ^ 2 + g1EllpA) ^ 2 - 8 * x * fq x

/-- **tangent identity** -/
theorem tan_id (x : Fq) :
    hEval iso11XNum (dblN x) (4 * fq x) * (evalP iso11YNum x ^ 2 * evalP iso11Ker x ^ 2) =
      hEval iso11XDen (dblN x) (4 * fq x) *
        (9 * evalP iso11XNum x ^ 4 - 8 * fq x * evalP iso11YNum x ^ 2 * evalP iso11XNum x) := by
  have h := master defs tanE (.c 0) 85 1 (q_ge 85) (q_ge 1) (by decide +kernel)
    (gridCheck_of_rows _ _ _ _ _ tan_grid) x 0 0 (by show (0 : Fq) * 0 = Zp.ofNat 0; rw [ofNat_zero]; ring)
  iso11_unfold at h
  unfold dblN
  linear_combination h

/-! ## the two bivariate identities -/

/-- `(x₁+x₂)(x₁x₂+A') + 2B'`: half the sum of the numerators of `x(P₁ ± P₂)` -/
def addS (x₁ x₂ : Fq) : Fq := (x₁ + x₂) * (x₁ * x₂ + g1EllpA) + 2 * g1EllpB

/-- `XN₁K₂² − XN₂K₁²`: the numerator of `X(x₁) − X(x₂)` -/
def gtF (x₁ x₂ : Fq) : Fq :=
  evalP iso11XNum x₁ * evalP iso11Ker x₂ ^ 2 - evalP iso11XNum x₂ * evalP iso11Ker x₁ ^ 2

theorem norm_grid : rowsCheck defs normE chordD 0 22 22 = true := by decide +kernel

/-- the kernel polynomial at the abscissae of `P₁ + P₂` and `P₁ − P₂` (`p = y₁y₂`) -/
theorem norm_id (x₁ x₂ p : Fq) (hp : p * p = fq x₁ * fq x₂) :
    hEval iso11Ker (addS x₁ x₂ - 2 * p) ((x₁ - x₂) ^ 2) *
        hEval iso11Ker (addS x₁ x₂ + 2 * p) ((x₁ - x₂) ^ 2) * (x₁ - x₂) =
      121 * (x₁ - x₂) ^ 10 * gtF x₁ x₂ := by
  have h := master defs normE chordD 22 22 (q_ge 22) (q_ge 22) (by decide +kernel)
    (gridCheck_of_rows _ _ _ _ _ norm_grid) x₁ x₂ p
    (by rw [hp]; show _ = envFq defs x₁ x₂ 2 * envFq defs x₁ x₂ 3; rw [env2, env3])
  iso11_unfold at h
  unfold addS gtF
  linear_combination h

theorem chord_grid : rowsCheck defs chordE chordD 0 56 56 = true :=
  rowsCheck_add defs chordE chordD 0 28 28 56
    (rowsCheck_add defs chordE chordD 0 14 14 56 chord_rows_0_14 chord_rows_14_14)
    (rowsCheck_add defs chordE chordD 28 14 14 56 chord_rows_28_14 chord_rows_42_14)

/-- the denominator of the abscissa of `φP₁ + φP₂` -/
def chordDenF (x₁ x₂ : Fq) : Fq := evalP iso11Ker x₁ ^ 2 * evalP iso11Ker x₂ ^ 2 * gtF x₁ x₂ ^ 2

/-- its numerator (`p = y₁y₂`) -/
def chordNumF (x₁ x₂ p : Fq) : Fq :=
  fq x₁ * evalP iso11YNum x₁ ^ 2 * evalP iso11Ker x₂ ^ 6
    + fq x₂ * evalP iso11YNum x₂ ^ 2 * evalP iso11Ker x₁ ^ 6
    - 2 * p * (evalP iso11YNum x₁ * evalP iso11YNum x₂ * (evalP iso11Ker x₁ ^ 3 * evalP iso11Ker x₂ ^ 3))
    - (evalP iso11XNum x₁ * evalP iso11Ker x₂ ^ 2 + evalP iso11XNum x₂ * evalP iso11Ker x₁ ^ 2)
        * gtF x₁ x₂ ^ 2

/-- **chord identity** (`p = y₁y₂`) -/
theorem chord_id (x₁ x₂ p : Fq) (hp : p * p = fq x₁ * fq x₂) :
    hEval iso11XNum (addS x₁ x₂ - 2 * p) ((x₁ - x₂) ^ 2) * chordDenF x₁ x₂ =
      (x₁ - x₂) ^ 2 * hEval iso11XDen (addS x₁ x₂ - 2 * p) ((x₁ - x₂) ^ 2) * chordNumF x₁ x₂ p := by
  have h := master defs chordE chordD 56 56 (q_ge 56) (q_ge 56) (by decide +kernel)
    (gridCheck_of_rows _ _ _ _ _ chord_grid) x₁ x₂ p
    (by rw [hp]; show _ = envFq defs x₁ x₂ 2 * envFq defs x₁ x₂ 3; rw [env2, env3])
  iso11_unfold at h
  unfold addS chordDenF chordNumF gtF
  linear_combination h

/-! ## translation by the kernel points -/

/-- numerator of the abscissa of `P + k·T` (denominator `(x − tₖ)²`) -/
def tiNF (k : Nat) (x y : Fq) : Fq :=
  (x + tq k) * (x * tq k + g1EllpA) + 2 * g1EllpB - 2 * sq' k * y

theorem tix_grid1 : rowsCheck defs (tixE (tN 1) (sN 1)) f1 0 34 1 = true := by decide +kernel
theorem tix_grid2 : rowsCheck defs (tixE (tN 2) (sN 2)) f1 0 34 1 = true := by decide +kernel
theorem tix_grid3 : rowsCheck defs (tixE (tN 3) (sN 3)) f1 0 34 1 = true := by decide +kernel
theorem tix_grid4 : rowsCheck defs (tixE (tN 4) (sN 4)) f1 0 34 1 = true := by decide +kernel
theorem tix_grid5 : rowsCheck defs (tixE (tN 5) (sN 5)) f1 0 34 1 = true := by decide +kernel

theorem tix_grid (k : Nat) (hk : 1 ≤ k ∧ k ≤ 5) :
    rowsCheck defs (tixE (tN k) (sN k)) f1 0 34 1 = true := by
  obtain ⟨h1, h5⟩ := hk
  interval_cases k
  exacts [tix_grid1, tix_grid2, tix_grid3, tix_grid4, tix_grid5]

theorem tix_deg (k : Nat) (hk : 1 ≤ k ∧ k ≤ 5) :
    degCheck defs (tixE (tN k) (sN k)) f1 34 1 = true := by
  obtain ⟨h1, h5⟩ := hk
  interval_cases k <;> decide +kernel

/-- **translation, abscissa** -/
theorem tix_id (k : Nat) (hk : 1 ≤ k ∧ k ≤ 5) (x y : Fq) (hy : y * y = fq x) :
    hEval iso11XNum (tiNF k x y) ((x - tq k) ^ 2) * evalP iso11Ker x ^ 2 =
      (x - tq k) ^ 2 * hEval iso11XDen (tiNF k x y) ((x - tq k) ^ 2) * evalP iso11XNum x := by
  have h := master defs (tixE (tN k) (sN k)) f1 34 1 (q_ge 34) (q_ge 1) (tix_deg k hk)
    (gridCheck_of_rows _ _ _ _ _ (tix_grid k hk)) x 0 y
    (by rw [hy]; show _ = envFq defs x 0 2; rw [env2])
  iso11_unfold at h
  unfold tiNF tq sq'
  linear_combination h

theorem tiy_grid1 : rowsCheck defs (tiyE (tN 1) (sN 1)) f1 0 50 1 = true := by decide +kernel
theorem tiy_grid2 : rowsCheck defs (tiyE (tN 2) (sN 2)) f1 0 50 1 = true := by decide +kernel
theorem tiy_grid3 : rowsCheck defs (tiyE (tN 3) (sN 3)) f1 0 50 1 = true := by decide +kernel
theorem tiy_grid4 : rowsCheck defs (tiyE (tN 4) (sN 4)) f1 0 50 1 = true := by decide +kernel
theorem tiy_grid5 : rowsCheck defs (tiyE (tN 5) (sN 5)) f1 0 50 1 = true := by decide +kernel

theorem tiy_grid (k : Nat) (hk : 1 ≤ k ∧ k ≤ 5) :
    rowsCheck defs (tiyE (tN k) (sN k)) f1 0 50 1 = true := by
  obtain ⟨h1, h5⟩ := hk
  interval_cases k
  exacts [tiy_grid1, tiy_grid2, tiy_grid3, tiy_grid4, tiy_grid5]

theorem tiy_deg (k : Nat) (hk : 1 ≤ k ∧ k ≤ 5) :
    degCheck defs (tiyE (tN k) (sN k)) f1 50 1 = true := by
  obtain ⟨h1, h5⟩ := hk
  interval_cases k <;> decide +kernel

/-- `(x − tₖ)³ ·` the ordinate of `P + k·T` -/
def tiMF (k : Nat) (x y : Fq) : Fq :=
  -((y - sq' k) * (tiNF k x y - x * (x - tq k) ^ 2)) - y * (x - tq k) ^ 3

/-- **translation, ordinate** -/
theorem tiy_id (k : Nat) (hk : 1 ≤ k ∧ k ≤ 5) (x y : Fq) (hy : y * y = fq x) :
    tiMF k x y * hEval iso11YNum (tiNF k x y) ((x - tq k) ^ 2) * evalP iso11Ker x ^ 3 =
      (x - tq k) ^ 3 * hEval iso11YDen (tiNF k x y) ((x - tq k) ^ 2) * (y * evalP iso11YNum x) := by
  have h := master defs (tiyE (tN k) (sN k)) f1 50 1 (q_ge 50) (q_ge 1) (tiy_deg k hk)
    (gridCheck_of_rows _ _ _ _ _ (tiy_grid k hk)) x 0 y
    (by rw [hy]; show _ = envFq defs x 0 2; rw [env2])
  iso11_unfold at h
  unfold tiMF tiNF tq sq'
  linear_combination h

/-! ## the kernel points -/

/-- the `tₖ` are not zeros of `XN` -/
theorem xnum_tq_ne (k : Nat) (hk : 1 ≤ k ∧ k ≤ 5) : evalP iso11XNum (tq k) ≠ 0 := by
  obtain ⟨h1, h5⟩ := hk
  interval_cases k <;> decide +kernel

/-- `(tₖ, sₖ)` is on `E₁'` -/
theorem sq_tq (k : Nat) (hk : 1 ≤ k ∧ k ≤ 5) : sq' k * sq' k = fq (tq k) := by
  obtain ⟨h1, h5⟩ := hk
  interval_cases k <;> decide +kernel

end IsoHom11
end PP
