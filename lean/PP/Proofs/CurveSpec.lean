/-
C01, the abstraction: the curve `y² = x³ + b` as a Mathlib `WeierstrassCurve.Affine`, its group of
(nonsingular) points `(W b).Point` with Mathlib's chord-and-tangent `AddCommGroup`, and the maps
sending a model point (`Jac F`, `Aff F`) to the abstract point it denotes.

`Jac.abs b P` is total (off-curve triples are sent to `0`), so that it can be mapped over register
files; every theorem about it carries the explicit hypothesis `Jac.OnCurve b P`.  A dependently typed
version `Jac.absOf b P h` is also given and shown equal.
-/
import Mathlib.AlgebraicGeometry.EllipticCurve.Affine.Point
import Mathlib.Tactic.FieldSimp
import Mathlib.Tactic.Ring
import Mathlib.Tactic.LinearCombination
import PP.Model.Curve
import PP.Proofs.Lawful

set_option linter.unusedSectionVars false

namespace PP

open WeierstrassCurve.Affine

/-- Hypotheses on the coefficient field and on `b` under which `y² = x³ + b` is an elliptic curve
    (discriminant `-432 b²`). -/
class ShortW {F : Type} [Field F] (b : F) : Prop where
  two_ne : (2 : F) ≠ 0
  three_ne : (3 : F) ≠ 0
  b_ne : b ≠ 0

variable {F : Type} [Field F]

/-- The curve `y² = x³ + b`. -/
def W (b : F) : WeierstrassCurve.Affine F := ⟨0, 0, 0, 0, b⟩

@[simp] theorem W_a₁ (b : F) : (W b).a₁ = 0 := rfl
@[simp] theorem W_a₂ (b : F) : (W b).a₂ = 0 := rfl
@[simp] theorem W_a₃ (b : F) : (W b).a₃ = 0 := rfl
@[simp] theorem W_a₄ (b : F) : (W b).a₄ = 0 := rfl
@[simp] theorem W_a₆ (b : F) : (W b).a₆ = b := rfl

theorem W_equation_iff (b x y : F) : (W b).Equation x y ↔ y ^ 2 = x ^ 3 + b := by
  rw [equation_iff]; simp

theorem W_negY (b x y : F) : (W b).negY x y = -y := by simp [negY]

/-- Every affine point of `y² = x³ + b` is nonsingular (`b ≠ 0`, characteristic not 2 or 3). -/
theorem W_nonsingular_iff (b : F) [ShortW b] (x y : F) :
    (W b).Nonsingular x y ↔ y ^ 2 = x ^ 3 + b := by
  rw [nonsingular_iff', W_equation_iff]
  refine ⟨fun h => h.1, fun h => ⟨h, ?_⟩⟩
  simp only [W_a₁, W_a₂, W_a₃, W_a₄, zero_mul, mul_zero, add_zero, zero_sub]
  by_cases hy : y = 0
  · left
    subst hy
    have hx : x ≠ 0 := by
      rintro rfl
      have : b = 0 := by linear_combination -h
      exact ShortW.b_ne this
    simpa using ⟨ShortW.three_ne (b := b), hx⟩
  · right
    simpa using ⟨ShortW.two_ne (b := b), hy⟩

theorem W_nonsingular (b : F) [ShortW b] {x y : F} (h : y ^ 2 = x ^ 3 + b) :
    (W b).Nonsingular x y := (W_nonsingular_iff b x y).mpr h

/-- equality of affine points is equality of coordinates -/
theorem Point.some_eq_some {W' : WeierstrassCurve.Affine F} {x y x' y' : F}
    {h : W'.Nonsingular x y} {h' : W'.Nonsingular x' y'} :
    Point.some x y h = Point.some x' y' h' ↔ x = x' ∧ y = y' := by
  constructor
  · intro e; injection e with e1 e2; exact ⟨e1, e2⟩
  · rintro ⟨rfl, rfl⟩; rfl

/-! ## which triples / pairs denote curve points -/

/-- A Jacobian triple denotes a point of `y² = x³ + b`: any triple with `z = 0` is the identity
    (exactly the Rust `is_zero`), otherwise `(x/z², y/z³)` satisfies the equation. -/
def Jac.OnCurve (b : F) (P : Jac F) : Prop :=
  P.z = 0 ∨ P.y ^ 2 = P.x ^ 3 + b * P.z ^ 6

/-- An affine pair denotes a point: the `infinity` flag, or the equation. -/
def Aff.OnCurve (b : F) (A : Aff F) : Prop :=
  A.infinity = true ∨ A.y ^ 2 = A.x ^ 3 + b

theorem Jac.affine_eq_of_onCurve {b : F} {P : Jac F} (h : Jac.OnCurve b P) (hz : P.z ≠ 0) :
    (P.y / P.z ^ 3) ^ 2 = (P.x / P.z ^ 2) ^ 3 + b := by
  rcases h with h | h
  · exact absurd h hz
  · field_simp
    linear_combination h

theorem Jac.onCurve_of_affine_eq {b : F} {P : Jac F} (hz : P.z ≠ 0)
    (h : (P.y / P.z ^ 3) ^ 2 = (P.x / P.z ^ 2) ^ 3 + b) : Jac.OnCurve b P := by
  right
  field_simp at h
  linear_combination h

open Classical in
/-- The abstract point denoted by a Jacobian triple (`0` for `z = 0`, and for off-curve triples). -/
noncomputable def Jac.abs (b : F) (P : Jac F) : (W b).Point :=
  if h : P.z ≠ 0 ∧ (W b).Nonsingular (P.x / P.z ^ 2) (P.y / P.z ^ 3) then
    Point.some _ _ h.2
  else 0

open Classical in
/-- The abstract point denoted by an affine pair. -/
noncomputable def Aff.abs (b : F) (A : Aff F) : (W b).Point :=
  if h : A.infinity = false ∧ (W b).Nonsingular A.x A.y then Point.some _ _ h.2 else 0

/-- Dependently typed version of `Jac.abs`. -/
noncomputable def Jac.absOf (b : F) [ShortW b] [DecidableEq F] (P : Jac F) (h : Jac.OnCurve b P) :
    (W b).Point :=
  if hz : P.z = 0 then 0
  else Point.some (P.x / P.z ^ 2) (P.y / P.z ^ 3) (W_nonsingular b (Jac.affine_eq_of_onCurve h hz))

/-- Dependently typed version of `Aff.abs`. -/
noncomputable def Aff.absOf (b : F) [ShortW b] (A : Aff F) (h : Aff.OnCurve b A) : (W b).Point :=
  if hi : A.infinity = true then 0
  else Point.some A.x A.y (W_nonsingular b (h.resolve_left hi))

section basic
variable {b : F} [ShortW b]

theorem Jac.abs_of_z_eq_zero {P : Jac F} (hz : P.z = 0) : Jac.abs b P = 0 := by
  unfold Jac.abs; rw [dif_neg]; exact fun h => h.1 hz

theorem Jac.abs_of_z_ne_zero {P : Jac F} (h : Jac.OnCurve b P) (hz : P.z ≠ 0) :
    Jac.abs b P = Point.some (P.x / P.z ^ 2) (P.y / P.z ^ 3)
      (W_nonsingular b (Jac.affine_eq_of_onCurve h hz)) := by
  unfold Jac.abs
  rw [dif_pos ⟨hz, W_nonsingular b (Jac.affine_eq_of_onCurve h hz)⟩]

theorem Jac.abs_eq_absOf [DecidableEq F] {P : Jac F} (h : Jac.OnCurve b P) :
    Jac.abs b P = Jac.absOf b P h := by
  unfold Jac.absOf
  split
  · next hz => exact Jac.abs_of_z_eq_zero hz
  · next hz => exact Jac.abs_of_z_ne_zero h hz

theorem Jac.abs_eq_zero_iff {P : Jac F} (h : Jac.OnCurve b P) : Jac.abs b P = 0 ↔ P.z = 0 := by
  constructor
  · intro e
    by_contra hz
    rw [Jac.abs_of_z_ne_zero h hz] at e
    exact Point.some_ne_zero _ e
  · exact Jac.abs_of_z_eq_zero

/-- The workhorse: a triple with `z ≠ 0` whose affine coordinates are those of a curve point is on
    the curve and denotes that point. -/
theorem Jac.abs_eq_some {P : Jac F} (hz : P.z ≠ 0) {x y : F} (hx : P.x / P.z ^ 2 = x)
    (hy : P.y / P.z ^ 3 = y) (h : (W b).Nonsingular x y) :
    Jac.OnCurve b P ∧ Jac.abs b P = Point.some x y h := by
  subst hx hy
  have hoc : Jac.OnCurve b P := Jac.onCurve_of_affine_eq hz ((W_nonsingular_iff b _ _).mp h)
  exact ⟨hoc, Jac.abs_of_z_ne_zero hoc hz⟩

theorem Aff.abs_of_infinity {A : Aff F} (hi : A.infinity = true) : Aff.abs b A = 0 := by
  unfold Aff.abs; rw [dif_neg]; simp [hi]

theorem Aff.abs_of_not_infinity {A : Aff F} (h : Aff.OnCurve b A) (hi : A.infinity = false) :
    Aff.abs b A = Point.some A.x A.y (W_nonsingular b (h.resolve_left (by simp [hi]))) := by
  unfold Aff.abs
  rw [dif_pos ⟨hi, W_nonsingular b (h.resolve_left (by simp [hi]))⟩]

theorem Aff.abs_eq_absOf {A : Aff F} (h : Aff.OnCurve b A) : Aff.abs b A = Aff.absOf b A h := by
  unfold Aff.absOf
  split
  · next hi => exact Aff.abs_of_infinity hi
  · next hi => exact Aff.abs_of_not_infinity h (by simpa using hi)

theorem Aff.abs_eq_zero_iff {A : Aff F} (h : Aff.OnCurve b A) :
    Aff.abs b A = 0 ↔ A.infinity = true := by
  constructor
  · intro e
    by_contra hi
    rw [Aff.abs_of_not_infinity h (by simpa using hi)] at e
    exact Point.some_ne_zero _ e
  · exact Aff.abs_of_infinity

end basic

end PP
