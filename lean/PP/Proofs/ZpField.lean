/-
F2: the model type `Zp p` is the ring `ZMod p`; for prime `p` it is a field, and the model's
`inv`, `sq`, `dbl`, `isZero` are the field's.  The `CommRing`/`Field` instances are built ON the
model's own `+ - * neg 0 1` (via `Function.Injective.commRing`), so theorems proved for an abstract
field apply to the executable model without any transfer step.
-/
import Mathlib.Data.ZMod.Basic
import Mathlib.Algebra.Field.ZMod
import Mathlib.FieldTheory.Finite.Basic
import PP.Model.Field

set_option linter.unusedSectionVars false

namespace PP
namespace Zp
variable {p : Nat} [PosNat p]

instance : NeZero p := ⟨Nat.pos_iff_ne_zero.mp PosNat.pos⟩

/-- the canonical map into Mathlib's `ZMod p` -/
def toZ (a : Zp p) : ZMod p := (a.v : ZMod p)

theorem toZ_injective : Function.Injective (toZ : Zp p → ZMod p) := by
  intro a b h
  have := (ZMod.natCast_eq_natCast_iff' a.v b.v p).mp h
  rw [Nat.mod_eq_of_lt a.h, Nat.mod_eq_of_lt b.h] at this
  cases a; cases b; simp_all

@[simp] theorem ofNat_v (n : Nat) : (ofNat n : Zp p).v = n % p := rfl

@[simp] theorem toZ_ofNat (n : Nat) : toZ (ofNat n : Zp p) = (n : ZMod p) := by
  simp [toZ, ofNat]

theorem toZ_zero : toZ (0 : Zp p) = 0 := by
  show toZ (ofNat 0) = 0; simp
theorem toZ_one : toZ (1 : Zp p) = 1 := by
  show toZ (ofNat 1) = 1; simp
theorem toZ_add (a b : Zp p) : toZ (a + b) = toZ a + toZ b := by
  show toZ (ofNat (a.v + b.v)) = _; simp [toZ]
theorem toZ_mul (a b : Zp p) : toZ (a * b) = toZ a * toZ b := by
  show toZ (ofNat (a.v * b.v)) = _; simp [toZ]
theorem toZ_neg (a : Zp p) : toZ (-a) = -toZ a := by
  show toZ (ofNat (p - a.v)) = _
  rw [toZ_ofNat, Nat.cast_sub (le_of_lt a.h)]; simp [toZ]
theorem toZ_sub (a b : Zp p) : toZ (a - b) = toZ a - toZ b := by
  show toZ (ofNat (a.v + (p - b.v))) = _
  rw [toZ_ofNat, Nat.cast_add, Nat.cast_sub (le_of_lt b.h)]; simp [toZ]; ring

instance : NatCast (Zp p) := ⟨fun n => ofNat n⟩
instance : IntCast (Zp p) := ⟨fun z => ofNat (z % (p : Int)).toNat⟩
instance : SMul ℕ (Zp p) := ⟨fun n a => ofNat (n * a.v)⟩
instance : SMul ℤ (Zp p) := ⟨fun z a => ofNat ((z % (p : Int)).toNat * a.v)⟩
instance : Pow (Zp p) ℕ := ⟨fun a n => ofNat (a.v ^ n)⟩

theorem toZ_natCast (n : ℕ) : toZ ((n : Zp p)) = (n : ZMod p) := by
  show toZ (ofNat n) = _; simp
theorem toZ_intCast (z : ℤ) : toZ ((z : Zp p)) = (z : ZMod p) := by
  show toZ (ofNat (z % (p : Int)).toNat) = _
  rw [toZ_ofNat]
  have hp : (0 : ℤ) < p := by exact_mod_cast PosNat.pos (p := p)
  have h0 : 0 ≤ z % (p : ℤ) := Int.emod_nonneg _ (ne_of_gt hp)
  have h1 : ((z % (p : ℤ)).toNat : ℤ) = z % p := Int.toNat_of_nonneg h0
  calc (((z % (p : ℤ)).toNat : ℕ) : ZMod p) = (((z % (p : ℤ)).toNat : ℤ) : ZMod p) :=
        (Int.cast_natCast _).symm
    _ = ((z % p : ℤ) : ZMod p) := by rw [h1]
    _ = z := ZMod.intCast_mod z p
theorem toZ_nsmul (n : ℕ) (a : Zp p) : toZ (n • a) = n • toZ a := by
  show toZ (ofNat (n * a.v)) = _; simp [toZ]
theorem toZ_zsmul (z : ℤ) (a : Zp p) : toZ (z • a) = z • toZ a := by
  show toZ (ofNat ((z % (p : Int)).toNat * a.v)) = _
  rw [toZ_ofNat, Nat.cast_mul]
  have h2 : (((z % (p : ℤ)).toNat : ℕ) : ZMod p) = (z : ZMod p) := by
    have := toZ_intCast (p := p) z
    rwa [show ((z : Zp p)) = ofNat (z % (p : Int)).toNat from rfl, toZ_ofNat] at this
  rw [h2, zsmul_eq_mul]; rfl
theorem toZ_pow (a : Zp p) (n : ℕ) : toZ (a ^ n) = toZ a ^ n := by
  show toZ (ofNat (a.v ^ n)) = _; simp [toZ]

instance instCommRing : CommRing (Zp p) :=
  toZ_injective.commRing toZ toZ_zero toZ_one toZ_add toZ_mul toZ_neg toZ_sub
    toZ_nsmul toZ_zsmul toZ_pow toZ_natCast toZ_intCast

/-- `toZ` as a ring isomorphism onto `ZMod p` -/
theorem toZ_surjective : Function.Surjective (toZ : Zp p → ZMod p) := by
  intro z
  refine ⟨ofNat z.val, ?_⟩
  simp

def toZRingHom : Zp p →+* ZMod p where
  toFun := toZ
  map_one' := toZ_one
  map_mul' := toZ_mul
  map_zero' := toZ_zero
  map_add' := toZ_add

theorem v_eq_val (a : Zp p) : a.v = (toZ a).val := by
  simp [toZ, ZMod.val_natCast, Nat.mod_eq_of_lt a.h]

theorem eq_zero_iff (a : Zp p) : a = 0 ↔ a.v = 0 := by
  constructor
  · intro h; subst h; show (ofNat 0 : Zp p).v = 0; simp
  · intro h
    apply toZ_injective
    rw [toZ_zero]; simp [toZ, h]

theorem isZero_iff (a : Zp p) : a.isZero = true ↔ a = 0 := by
  rw [eq_zero_iff]; simp [isZero]

theorem sq_eq (a : Zp p) : sq a = a * a := rfl
theorem dbl_eq (a : Zp p) : dbl a = a + a := rfl

/-! ### exponentiation by squaring -/

theorem powModAux_eq (m : Nat) (hm : 0 < m) : ∀ (fuel b e acc : Nat), e < 2 ^ fuel → acc < m →
    powModAux m fuel b e acc = acc * b ^ e % m := by
  intro fuel
  induction fuel with
  | zero =>
    intro b e acc he hacc
    have : e = 0 := by omega
    subst this; simp [powModAux, Nat.mod_eq_of_lt hacc]
  | succ n ih =>
    intro b e acc he hacc
    unfold powModAux
    split
    · next h => subst h; simp [Nat.mod_eq_of_lt hacc]
    · next h =>
      have he2 : e / 2 < 2 ^ n := by
        rw [Nat.div_lt_iff_lt_mul (by norm_num)]; rw [pow_succ] at he; omega
      split
      · next hodd =>
        rw [ih _ _ _ he2 (Nat.mod_lt _ hm)]
        have hdec : e = 2 * (e / 2) + 1 := by omega
        conv_rhs => rw [hdec]
        rw [pow_succ, pow_mul, Nat.mul_mod, Nat.mod_mod, Nat.pow_mod (b * b % m), Nat.mod_mod,
          ← Nat.pow_mod, ← Nat.mul_mod]
        rw [show b ^ 2 = b * b from by ring]
        ring_nf
      · next heven =>
        rw [ih _ _ _ he2 hacc]
        have hdec : e = 2 * (e / 2) := by omega
        conv_rhs => rw [hdec]
        rw [pow_mul, Nat.mul_mod, Nat.pow_mod (b * b % m), Nat.mod_mod, ← Nat.pow_mod, ← Nat.mul_mod]
        rw [show b ^ 2 = b * b from by ring]

theorem powMod_eq (b e m : Nat) (hm : 1 < m) : powMod b e m = b ^ e % m := by
  unfold powMod
  rw [powModAux_eq m (by omega) _ _ _ _ (Nat.lt_log2_self) (Nat.mod_lt _ (by omega))]
  rw [Nat.mod_eq_of_lt hm, one_mul, Nat.pow_mod, Nat.mod_mod, ← Nat.pow_mod]

/-! ### the field structure for prime `p` -/

variable [hp : Fact p.Prime]

theorem toZ_inv_some (a : Zp p) (h : a.v ≠ 0) :
    toZ (ofNat (powMod a.v (p - 2) p) : Zp p) = (toZ a)⁻¹ := by
  have hp1 : 1 < p := hp.out.one_lt
  rw [toZ_ofNat, powMod_eq _ _ _ hp1]
  have hz : (toZ a) ≠ 0 := by
    intro h0
    apply h
    rw [v_eq_val, h0]; simp
  rw [ZMod.natCast_mod, Nat.cast_pow]
  show (toZ a) ^ (p - 2) = _
  have hfermat : (toZ a) ^ (p - 1) = 1 := ZMod.pow_card_sub_one_eq_one hz
  have : (toZ a) ^ (p - 2) * toZ a = 1 := by
    rw [← pow_succ]
    have : p - 2 + 1 = p - 1 := by have := hp.out.two_le; omega
    rw [this]; exact hfermat
  exact eq_inv_of_mul_eq_one_left this

instance : Inv (Zp p) := ⟨fun a => (Zp.inv a).getD 0⟩
instance : Div (Zp p) := ⟨fun a b => a * b⁻¹⟩
instance : Pow (Zp p) ℤ := ⟨fun a z => match z with
  | Int.ofNat n => a ^ n
  | Int.negSucc n => (a ^ (n + 1))⁻¹⟩
instance : SMul ℚ≥0 (Zp p) := ⟨fun q a => ((q.num : Zp p) / (q.den : Zp p)) * a⟩
instance : SMul ℚ (Zp p) := ⟨fun q a => ((q.num : Zp p) / (q.den : Zp p)) * a⟩
instance : NNRatCast (Zp p) := ⟨fun q => (q.num : Zp p) / (q.den : Zp p)⟩
instance : RatCast (Zp p) := ⟨fun q => (q.num : Zp p) / (q.den : Zp p)⟩

theorem toZ_inv (a : Zp p) : toZ (a⁻¹) = (toZ a)⁻¹ := by
  show toZ ((Zp.inv a).getD 0) = _
  unfold Zp.inv
  split
  · next h =>
    have : a = 0 := (eq_zero_iff a).mpr h
    subst this
    simp [toZ_zero]
  · next h => simpa using toZ_inv_some a h

theorem toZ_div (a b : Zp p) : toZ (a / b) = toZ a / toZ b := by
  show toZ (a * b⁻¹) = _
  rw [toZ_mul, toZ_inv, div_eq_mul_inv]

theorem toZ_zpow (a : Zp p) (z : ℤ) : toZ (a ^ z) = toZ a ^ z := by
  cases z with
  | ofNat n => show toZ (a ^ n) = _; rw [toZ_pow]; simp
  | negSucc n => show toZ ((a ^ (n + 1))⁻¹) = _; rw [toZ_inv, toZ_pow]; simp [zpow_negSucc]

instance instField : Field (Zp p) :=
  toZ_injective.field toZ toZ_zero toZ_one toZ_add toZ_mul toZ_neg toZ_sub toZ_inv toZ_div
    toZ_nsmul toZ_zsmul
    (fun q a => by
      show toZ (((q.num : Zp p) / (q.den : Zp p)) * a) = _
      rw [toZ_mul, toZ_div, toZ_natCast, toZ_natCast, NNRat.smul_def, NNRat.cast_def])
    (fun q a => by
      show toZ (((q.num : Zp p) / (q.den : Zp p)) * a) = _
      rw [toZ_mul, toZ_div, toZ_intCast, toZ_natCast, Rat.smul_def, Rat.cast_def])
    toZ_pow toZ_zpow toZ_natCast toZ_intCast
    (fun q => by
      show toZ ((q.num : Zp p) / (q.den : Zp p)) = _
      rw [toZ_div, toZ_natCast, toZ_natCast, NNRat.cast_def])
    (fun q => by
      show toZ ((q.num : Zp p) / (q.den : Zp p)) = _
      rw [toZ_div, toZ_intCast, toZ_natCast, Rat.cast_def])

/-- the model's `inverse` is the field inverse, and fails exactly on zero -/
theorem inv_eq_none_iff (a : Zp p) : Zp.inv a = none ↔ a = 0 := by
  unfold Zp.inv; rw [eq_zero_iff]; split <;> simp_all

theorem inv_eq_some (a : Zp p) (h : a ≠ 0) : Zp.inv a = some a⁻¹ := by
  have hv : a.v ≠ 0 := fun h0 => h ((eq_zero_iff a).mpr h0)
  show Zp.inv a = some ((Zp.inv a).getD 0)
  unfold Zp.inv; simp [hv]

theorem card_eq : Fintype.card (ZMod p) = p := ZMod.card p

end Zp
end PP
