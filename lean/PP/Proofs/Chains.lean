/-
F6: exponent tracking for the straight-line addition chains of `PP.Model.Map`.

The chain interpreter `runChain0`/`runChain` is generic in the carrier `M` and its three operations.
We run THE SAME interpreter a second time over a carrier of exponents

* `Option ℕ` with `sq e = 2e`, `mul = +`, `div = ⊥`, `none` = "unknown/uninitialised register"
  (field chains: registers start at `default = 0 : F`, which is not a power of the input, so a
  register that is read before being written must poison the result), and
* `ℤ` with `sq e = 2e`, `mul = +`, `div = −`  (point chains: registers start at `Jac.zero`, which
  abstracts to `0 = 0 • g`, so no initialisation condition is needed),

and prove one simulation theorem (`runChain0_sim`, `runChain_sim`): any relation between two carriers
that is respected by the three operations and by `default` is respected by the whole run, register
by register (both runs use the same indices, so out-of-range reads/writes behave identically).

Consequences:
* `fieldChain_pow`  : `natExpO prog = some e → chainFn0 fieldChainOps prog a = a ^ e`
* `pointChain0_smul`, `pointChain_smul` : relative to a `GroupModel`, a point chain maps a valid point
  `P` to a valid point abstracting to `(intExp …) • absJ P`.
* the exponents of the four EXTRACTED chains, evaluated by the kernel (`decide +kernel`).
-/
import Mathlib.Algebra.Group.Basic
import Mathlib.Algebra.Group.Defs
import Mathlib.Algebra.Field.Defs
import PP.Proofs.Interfaces
import PP.Proofs.Primes
import PP.Model.Map
import PP.Gen.Curve

namespace PP
namespace Chains

/-! ## register files related pointwise -/

theorem get!_eq {α : Type} [Inhabited α] (xs : Array α) (i : Nat) :
    xs[i]! = xs[i]?.getD default := by
  rw [getElem!_def]; cases xs[i]? <;> rfl

/-- Two register files of the same size whose registers are pointwise related (reads outside the
file return `default` on both sides). -/
def ArrRel {M N : Type} [Inhabited M] [Inhabited N] (R : M → N → Prop)
    (rm : Array M) (rn : Array N) : Prop :=
  rm.size = rn.size ∧ ∀ i : Nat, R rm[i]! rn[i]!

section sim
variable {M N : Type} [Inhabited M] [Inhabited N] {R : M → N → Prop}

theorem ArrRel.get {rm : Array M} {rn : Array N} (h : ArrRel R rm rn) (i : Nat) :
    R rm[i]! rn[i]! := h.2 i

theorem ArrRel.set {rm : Array M} {rn : Array N} (h : ArrRel R rm rn) (d : Nat) {a : M} {b : N}
    (hab : R a b) : ArrRel R (rm.set! d a) (rn.set! d b) := by
  refine ⟨by simp [Array.set!_eq_setIfInBounds, h.1], fun i => ?_⟩
  rw [get!_eq, get!_eq, Array.set!_eq_setIfInBounds, Array.set!_eq_setIfInBounds,
    Array.getElem?_setIfInBounds, Array.getElem?_setIfInBounds, ← h.1]
  by_cases hdi : d = i
  · subst hdi
    by_cases hlt : d < rm.size
    · simpa [hlt] using hab
    · have := h.2 d
      rw [get!_eq, get!_eq] at this
      have hm : rm[d]? = none := by
        rw [Array.getElem?_eq_none_iff]; omega
      have hn : rn[d]? = none := by
        rw [Array.getElem?_eq_none_iff]; rw [← h.1]; omega
      rw [hm, hn] at this
      simpa [hlt] using this
  · have := h.2 i
    rw [get!_eq, get!_eq] at this
    simpa [hdi] using this

theorem ArrRel.replicate (hdef : R default default) (n : Nat) :
    ArrRel R (Array.replicate n (default : M)) (Array.replicate n (default : N)) := by
  refine ⟨by simp, fun i => ?_⟩
  rw [get!_eq, get!_eq, Array.getElem?_replicate, Array.getElem?_replicate]
  by_cases h : i < n <;> simpa [h] using hdef

omit [Inhabited M] [Inhabited N] in
theorem sqTimes_sim {f : M → M} {g : N → N} (hfg : ∀ a b, R a b → R (f a) (g b)) :
    ∀ (n : Nat) (a : M) (b : N), R a b → R (sqTimes f n a) (sqTimes g n b)
  | 0, _, _, h => h
  | n + 1, a, b, h => sqTimes_sim hfg n (f a) (g b) (hfg a b h)

/-- The three operations of two carriers respect a relation. -/
structure OpsRel (R : M → N → Prop) (opsM : ChainOps M) (opsN : ChainOps N) : Prop where
  dflt : R default default
  sq : ∀ a b, R a b → R (opsM.sq a) (opsN.sq b)
  mul : ∀ a b c d, R a b → R c d → R (opsM.mul a c) (opsN.mul b d)
  div : ∀ a b c d, R a b → R c d → R (opsM.div a c) (opsN.div b d)

variable {opsM : ChainOps M} {opsN : ChainOps N}

/-- Simulation theorem for call-free chains. -/
theorem runChain0_sim (H : OpsRel R opsM opsN) :
    ∀ (prog : Prog) (rm : Array M) (rn : Array N), ArrRel R rm rn →
      ArrRel R (runChain0 opsM prog rm) (runChain0 opsN prog rn)
  | [], _, _, h => h
  | (op, d, x) :: rest, rm, rn, h => by
    unfold runChain0
    apply runChain0_sim H rest
    match op with
    | 0 => exact h.set d (h.get x)
    | 1 => exact h.set d (sqTimes_sim H.sq x _ _ (h.get d))
    | 2 => exact h.set d (H.mul _ _ _ _ (h.get d) (h.get x))
    | 3 => exact h.set d (H.div _ _ _ _ (h.get d) (h.get x))
    | _ + 4 => exact h

theorem chainFn0_sim (H : OpsRel R opsM opsN) (prog : Prog) {a : M} {b : N} (hab : R a b) :
    R (chainFn0 opsM prog a) (chainFn0 opsN prog b) := by
  unfold chainFn0
  exact (runChain0_sim H prog _ _ ((ArrRel.replicate H.dflt 32).set 0 hab)).get 1

/-- Simulation theorem for chains calling a call-free chain. -/
theorem runChain_sim (H : OpsRel R opsM opsN) (callee : Prog) :
    ∀ (prog : Prog) (rm : Array M) (rn : Array N), ArrRel R rm rn →
      ArrRel R (runChain opsM callee prog rm) (runChain opsN callee prog rn)
  | [], _, _, h => h
  | (op, d, x) :: rest, rm, rn, h => by
    unfold runChain
    apply runChain_sim H callee rest
    match op with
    | 0 => exact h.set d (h.get x)
    | 1 => exact h.set d (sqTimes_sim H.sq x _ _ (h.get d))
    | 2 => exact h.set d (H.mul _ _ _ _ (h.get d) (h.get x))
    | 3 => exact h.set d (H.div _ _ _ _ (h.get d) (h.get x))
    | 4 => exact h.set d (chainFn0_sim H callee (h.get x))
    | _ + 5 => exact h

theorem chainFn_sim (H : OpsRel R opsM opsN) (callee prog : Prog) {a : M} {b : N} (hab : R a b) :
    R (chainFn opsM callee prog a) (chainFn opsN callee prog b) := by
  unfold chainFn
  exact (runChain_sim H callee prog _ _ ((ArrRel.replicate H.dflt 32).set 0 hab)).get 1

end sim

/-! ## exponent carriers -/

/-- Exponents of a multiplicative chain whose registers start out with an unusable value:
`none` = "not (known to be) a power of the input".  Division is not tracked (`none`). -/
def optOps : ChainOps (Option Nat) :=
  ⟨fun a => a.map (2 * ·), fun a b => a.bind fun x => b.map (x + ·), fun _ _ => none⟩

/-- The exponent computed by a call-free multiplicative chain, `none` if the output depends on a
register that was read before it was written (or on an untracked operation). -/
def natExpO (prog : Prog) : Option Nat := chainFn0 optOps prog (some 1)

/-- The exponent as a number (`0` when `natExpO` is `none`; every theorem below that uses `natExp`
carries the hypothesis that it is not). -/
def natExp (prog : Prog) : Nat := (natExpO prog).getD 0

/-- Exponents of an additive chain over an abelian group. -/
def intOps : ChainOps Int := ⟨(2 * ·), (· + ·), (· - ·)⟩

/-- The integer multiplier computed by a call-free chain. -/
def intExp0 (prog : Prog) : Int := chainFn0 intOps prog 1

/-- The integer multiplier computed by a chain `prog` calling the call-free chain `callee`. -/
def intExp (callee prog : Prog) : Int := chainFn intOps callee prog 1

/-! ## field chains -/

section monoid
variable {M : Type} [Monoid M] [Inhabited M]

/-- register `a` holds the power `x ^ e`, or anything if the exponent is unknown -/
def PowRel (x : M) (a : M) : Option Nat → Prop
  | none => True
  | some e => a = x ^ e

theorem powOpsRel (ops : ChainOps M) (hsq : ∀ a, ops.sq a = a * a) (hmul : ∀ a b, ops.mul a b = a * b)
    (x : M) : OpsRel (PowRel x) ops optOps where
  dflt := trivial
  sq a b h := by
    cases b with
    | none => trivial
    | some e =>
      change ops.sq a = x ^ (2 * e)
      rw [hsq, show a = x ^ e from h, two_mul, pow_add]
  mul a b c d h h' := by
    cases b with
    | none => trivial
    | some e =>
      cases d with
      | none => trivial
      | some e' =>
        change ops.mul a c = x ^ (e + e')
        rw [hmul, show a = x ^ e from h, show c = x ^ e' from h', pow_add]
  div _ _ _ _ _ _ := trivial

/-- A call-free chain over any monoid whose `sq`/`mul` are the monoid's computes the power
`natExpO prog`, whenever the exponent run succeeds (no read of an unwritten register, no
division on the data path to the output).  The `default` element of `M` is arbitrary. -/
theorem monoidChain_pow (ops : ChainOps M) (hsq : ∀ a, ops.sq a = a * a)
    (hmul : ∀ a b, ops.mul a b = a * b) (prog : Prog) (e : Nat) (he : natExpO prog = some e) (x : M) :
    chainFn0 ops prog x = x ^ e := by
  have h := chainFn0_sim (powOpsRel ops hsq hmul x) prog (a := x) (b := some 1)
    (show x = x ^ 1 from (pow_one x).symm)
  rw [show chainFn0 optOps prog (some 1) = some e from he] at h
  exact h

end monoid

/-- **Field chains compute powers.**  For every lawful field model and every program whose exponent
run succeeds, the chain over `fieldChainOps` is `a ↦ a ^ e`. -/
theorem fieldChain_pow {F : Type} [Field F] [FieldOps F] [LawfulFieldOps F] [Inhabited F]
    (prog : Prog) (e : Nat) (he : natExpO prog = some e) (a : F) :
    chainFn0 fieldChainOps prog a = a ^ e :=
  monoidChain_pow fieldChainOps (fun a => LawfulFieldOps.sq_eq a) (fun _ _ => rfl) prog e he a

theorem fieldChain_pow_natExp {F : Type} [Field F] [FieldOps F] [LawfulFieldOps F] [Inhabited F]
    (prog : Prog) (he : (natExpO prog).isSome = true) (a : F) :
    chainFn0 fieldChainOps prog a = a ^ natExp prog := by
  obtain ⟨e, he'⟩ := Option.isSome_iff_exists.mp he
  rw [fieldChain_pow prog e he' a, natExp, he']; rfl

/-! ## point chains -/

section point
variable {F : Type} [Field F] [DecidableEq F] [FieldOps F] {G : Type} [AddCommGroup G]

/-- `P` is a valid point abstracting to `e • g` -/
def SmulRel (M : GroupModel F G) (g : G) (P : Jac F) (e : Int) : Prop :=
  M.ValidJ P ∧ M.absJ P = e • g

theorem smulOpsRel (M : GroupModel F G) (g : G) :
    OpsRel (SmulRel M g) (pointChainOps (F := F)) intOps where
  dflt := ⟨M.zero_valid, by rw [show (default : Int) = 0 from rfl, zero_zsmul]; exact M.zero_abs⟩
  sq P e h := ⟨M.double_valid P h.1, by
    change M.absJ P.double = (2 * e) • g
    rw [M.double_abs P h.1, h.2, two_mul, add_zsmul]⟩
  mul P e Q e' h h' := ⟨M.add_valid P Q h.1 h'.1, by
    change M.absJ (P.add Q) = (e + e') • g
    rw [M.add_abs P Q h.1 h'.1, h.2, h'.2, add_zsmul]⟩
  div P e Q e' h h' := ⟨M.add_valid P Q.neg h.1 (M.neg_valid Q h'.1), by
    change M.absJ (P.add Q.neg) = (e - e') • g
    rw [M.add_abs P Q.neg h.1 (M.neg_valid Q h'.1), M.neg_abs Q h'.1, h.2, h'.2,
      sub_zsmul]⟩

/-- **Call-free point chains are scalar multiplications** by `intExp0 prog`, on EVERY valid point. -/
theorem pointChain0_smul (M : GroupModel F G) (prog : Prog) (P : Jac F) (hP : M.ValidJ P) :
    M.ValidJ (chainFn0 pointChainOps prog P) ∧
      M.absJ (chainFn0 pointChainOps prog P) = intExp0 prog • M.absJ P := by
  have h := chainFn0_sim (smulOpsRel M (M.absJ P)) prog (a := P) (b := (1 : Int))
    ⟨hP, (one_zsmul _).symm⟩
  exact h

/-- **Point chains with calls are scalar multiplications** by `intExp callee prog`. -/
theorem pointChain_smul (M : GroupModel F G) (callee prog : Prog) (P : Jac F) (hP : M.ValidJ P) :
    M.ValidJ (chainFn pointChainOps callee prog P) ∧
      M.absJ (chainFn pointChainOps callee prog P) = intExp callee prog • M.absJ P := by
  have h := chainFn_sim (smulOpsRel M (M.absJ P)) callee prog (a := P) (b := (1 : Int))
    ⟨hP, (one_zsmul _).symm⟩
  exact h

end point

/-! ## the exponents of the extracted chains (kernel evaluation) -/

/-- RFC 9380 §8.8.2 `h_eff` for G2 (636 bits), as spelled in the header of
`src/bls12_381/cofactor.rs`. -/
def H_EFF_G2 : Nat :=
  0xbc69f08f2ee75b3584c6a0ea91b352888e2a8e9145ad7689986ff031508ffe1329c2f178731db956d82bf015d1212b02ec0ec69d7477c1ae954cbc06689f6a359894c0adebbf6b4e8020005aaa95551

/-- `h_eff` for G1: `1 - x = 1 + |x|`. -/
def H_EFF_G1 : Nat := 0xd201000000010001

theorem natExpO_pm3div4 : natExpO Gen.CHAIN_PM3DIV4 = some ((Gen.q - 3) / 4) := by decide +kernel

theorem natExp_pm3div4 : natExp Gen.CHAIN_PM3DIV4 = (Gen.q - 3) / 4 := by decide +kernel

theorem natExpO_p2m9div16 : natExpO Gen.CHAIN_P2M9DIV16 = some ((Gen.q ^ 2 - 9) / 16) := by
  decide +kernel

theorem natExp_p2m9div16 : natExp Gen.CHAIN_P2M9DIV16 = (Gen.q ^ 2 - 9) / 16 := by decide +kernel

/-- the divisions are exact -/
theorem pm3div4_exact : 4 * ((Gen.q - 3) / 4) + 3 = Gen.q := by decide +kernel
theorem p2m9div16_exact : 16 * ((Gen.q ^ 2 - 9) / 16) + 9 = Gen.q ^ 2 := by decide +kernel

theorem intExp0_z : intExp0 Gen.CHAIN_Z = 0xd201000000010000 := by decide +kernel

theorem intExp0_z_eq_x : intExp0 Gen.CHAIN_Z = (Gen.BLS_X : Int) := by decide +kernel

theorem intExp_z : intExp [] Gen.CHAIN_Z = 0xd201000000010000 := by decide +kernel

theorem intExp_z_eq_x : intExp [] Gen.CHAIN_Z = (Gen.BLS_X : Int) := by decide +kernel

theorem intExp_h2eff : intExp Gen.CHAIN_Z Gen.CHAIN_H2_EFF = (H_EFF_G2 : Int) := by decide +kernel

theorem intExp_h2eff_lit : intExp Gen.CHAIN_Z Gen.CHAIN_H2_EFF =
    0xbc69f08f2ee75b3584c6a0ea91b352888e2a8e9145ad7689986ff031508ffe1329c2f178731db956d82bf015d1212b02ec0ec69d7477c1ae954cbc06689f6a359894c0adebbf6b4e8020005aaa95551 := by
  decide +kernel

/-- `h_eff = 3 (x² − 1) h₂` -/
theorem h_eff_g2_eq : H_EFF_G2 = 3 * (Gen.BLS_X ^ 2 - 1) * Gen.G2_COFACTOR := by decide +kernel

theorem intExp_h2eff_formula : intExp Gen.CHAIN_Z Gen.CHAIN_H2_EFF =
    3 * ((Gen.BLS_X : Int) ^ 2 - 1) * (Gen.G2_COFACTOR : Int) := by decide +kernel

theorem h_eff_g1_eq : H_EFF_G1 = Gen.BLS_X + 1 := by decide +kernel

/-! ## corollaries for the model's named chains -/

/-- `chain_pm3div4` computes `a ^ ((q − 3) / 4)` on all of `Fq`. -/
theorem chainPm3div4_eq (a : Fq) : chainPm3div4 a = a ^ ((Gen.q - 3) / 4) :=
  fieldChain_pow Gen.CHAIN_PM3DIV4 _ natExpO_pm3div4 a

/-- `chain_p2m9div16` computes `a ^ ((q² − 9) / 16)` over any lawful field model (in particular over
`Fq2` once its `Field`/`LawfulFieldOps` instances are available: `chainP2m9div16` unfolds to the
left-hand side at `F := Fq2`). -/
theorem chainP2m9div16_generic {F : Type} [Field F] [FieldOps F] [LawfulFieldOps F] [Inhabited F]
    (a : F) : chainFn0 fieldChainOps Gen.CHAIN_P2M9DIV16 a = a ^ ((Gen.q ^ 2 - 9) / 16) :=
  fieldChain_pow Gen.CHAIN_P2M9DIV16 _ natExpO_p2m9div16 a

section point
variable {F : Type} [Field F] [DecidableEq F] [FieldOps F] {G : Type} [AddCommGroup G]

/-- `chain_z` is multiplication by `|x| = 0xd201000000010000` on every valid point. -/
theorem chainZ_smul (M : GroupModel F G) (P : Jac F) (hP : M.ValidJ P) :
    M.ValidJ (chainZ P) ∧ M.absJ (chainZ P) = (0xd201000000010000 : ℕ) • M.absJ P := by
  have h := pointChain0_smul M Gen.CHAIN_Z P hP
  refine ⟨h.1, ?_⟩
  rw [show chainZ P = chainFn0 pointChainOps Gen.CHAIN_Z P from rfl, h.2, intExp0_z,
    ← natCast_zsmul]
  rfl

/-- `chain_h2_eff` is multiplication by `h_eff` on every valid point. -/
theorem chainH2Eff_smul (M : GroupModel F G) (P : Jac F) (hP : M.ValidJ P) :
    M.ValidJ (chainH2Eff P) ∧ M.absJ (chainH2Eff P) = H_EFF_G2 • M.absJ P := by
  have h := pointChain_smul M Gen.CHAIN_Z Gen.CHAIN_H2_EFF P hP
  refine ⟨h.1, ?_⟩
  rw [show chainH2Eff P = chainFn pointChainOps Gen.CHAIN_Z Gen.CHAIN_H2_EFF P from rfl, h.2,
    intExp_h2eff, natCast_zsmul]

end point

/-! ## non-vacuity -/

example : natExpO [(0, 1, 0), (1, 1, 3), (2, 1, 0)] = some 9 := by decide
example : natExp [(0, 1, 0), (1, 1, 3), (2, 1, 0)] = 9 := by decide
/-- reading the never-written register 5 poisons the exponent -/
example : natExpO [(0, 1, 0), (2, 1, 5)] = none := by decide
example : intExp0 [(0, 1, 0), (1, 1, 3), (3, 1, 0)] = 7 := by decide
example : intExp [(0, 1, 0), (1, 1, 1)] [(4, 2, 0), (4, 1, 2), (3, 1, 0)] = 3 := by decide

end Chains
end PP
