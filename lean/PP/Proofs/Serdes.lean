/-
C19 lemmas: stream (de)serialisation (`PP.Model.Enc`, section serdes.rs) over the byte-list reader.
Round trips with exact consumption for any trailing data, lengths, characterisation of success
(`…_ok_iff`: a value is returned exactly for canonical input accepted by the checked decoders, and
exactly the encoded bytes are consumed), every error class (`eof` at every truncation point including
the second read of the uncompressed form, `compressness`, `notInField`, `decode e`), and
unreachability of the model's `panic` outcome.
-/
import PP.Proofs.Encoding

set_option linter.unusedSectionVars false
set_option linter.unusedSimpArgs false

namespace PP

/-! ## `read_exact` -/

theorem readExact_append (n : Nat) (bs tail : Bytes) (h : bs.length = n) :
    readExact n (bs ++ tail) = .ok (bs, tail) := by
  unfold readExact
  rw [if_neg (by simp [h]), List.take_left' h, List.drop_left' h]

theorem readExact_eof (n : Nat) (rd : Bytes) (h : rd.length < n) : readExact n rd = .error .eof := by
  unfold readExact; rw [if_pos h]

theorem readExact_ok (n : Nat) (rd : Bytes) (h : n ≤ rd.length) :
    readExact n rd = .ok (rd.take n, rd.drop n) := by
  unfold readExact; rw [if_neg (by omega)]

/-! ## `Fr` -/

theorem serFr_length (a : Fr) : (serFr a).length = 32 := Fr.toBytes_length a

theorem deserFr_serFr (a : Fr) (tail : Bytes) : deserFr (serFr a ++ tail) = .ok (a, tail) := by
  unfold deserFr
  rw [readExact_append 32 _ _ (serFr_length a)]
  simp only [serFr, Fr.fromBytes_toBytes]

theorem deserFr_eof (rd : Bytes) (h : rd.length < 32) : deserFr rd = .error .eof := by
  unfold deserFr; rw [readExact_eof _ _ h]

theorem deserFr_notInField (rd : Bytes) (h : 32 ≤ rd.length) (hr : ¬ beToNat (rd.take 32) < Gen.r) :
    deserFr rd = .error .notInField := by
  unfold deserFr
  rw [readExact_ok _ _ h]
  simp only [(Fr.fromBytes_eq_none_iff _).mpr hr]

/-- a value is returned only for a canonical 32-byte prefix, and exactly 32 bytes are consumed -/
theorem deserFr_ok_iff (rd : Bytes) (a : Fr) (rest : Bytes) :
    deserFr rd = .ok (a, rest) ↔ rd = serFr a ++ rest := by
  constructor
  · intro h
    unfold deserFr at h
    by_cases hl : rd.length < 32
    · rw [readExact_eof _ _ hl] at h; cases h
    · rw [readExact_ok _ _ (by omega)] at h
      simp only at h
      cases hf : Fr.fromBytes (rd.take 32) with
      | none => rw [hf] at h; cases h
      | some a' =>
        rw [hf] at h
        simp only [Except.ok.injEq, Prod.mk.injEq] at h
        obtain ⟨rfl, rfl⟩ := h
        have := Fr.toBytes_of_fromBytes _ _ hf (by rw [List.length_take]; omega)
        rw [serFr, this, List.take_append_drop]
  · rintro rfl; exact deserFr_serFr a rest

theorem deserFr_ne_panic (rd : Bytes) : deserFr rd ≠ .error .panic := by
  unfold deserFr readExact
  split
  · next h => split at h <;> cases h; simp
  · split <;> simp

/-! ## `Fq12` -/

theorem readFqs_append (as : List Fq) (tail : Bytes) :
    readFqs as.length ((as.map Fq.toBytes).flatten ++ tail) = .ok (as, tail) := by
  induction as with
  | nil => rfl
  | cons a as ih =>
    simp only [List.length_cons, List.map_cons, List.flatten_cons, List.append_assoc]
    unfold readFqs
    rw [readExact_append 48 _ _ (Fq.toBytes_length a)]
    simp only [Fq.fromBytes_toBytes, ih]

theorem readFqs_ok (n : Nat) (rd : Bytes) (as : List Fq) (rest : Bytes) (h : readFqs n rd = .ok (as, rest)) :
    as.length = n ∧ rd = (as.map Fq.toBytes).flatten ++ rest := by
  induction n generalizing rd as rest with
  | zero =>
    unfold readFqs at h
    simp only [Except.ok.injEq, Prod.mk.injEq] at h
    obtain ⟨rfl, rfl⟩ := h
    simp
  | succ n ih =>
    unfold readFqs at h
    by_cases hl : rd.length < 48
    · rw [readExact_eof _ _ hl] at h; cases h
    · rw [readExact_ok _ _ (by omega)] at h
      simp only at h
      cases hf : Fq.fromBytes (rd.take 48) with
      | none => rw [hf] at h; cases h
      | some a =>
        rw [hf] at h
        simp only at h
        cases hr : readFqs n (rd.drop 48) with
        | error e => rw [hr] at h; cases h
        | ok p =>
          obtain ⟨as', rest'⟩ := p
          rw [hr] at h
          simp only [Except.ok.injEq, Prod.mk.injEq] at h
          obtain ⟨rfl, rfl⟩ := h
          obtain ⟨h1, h2⟩ := ih _ _ _ hr
          have := Fq.toBytes_of_fromBytes _ _ hf (by rw [List.length_take]; omega)
          refine ⟨by simp [h1], ?_⟩
          simp only [List.map_cons, List.flatten_cons, List.append_assoc]
          rw [this, ← h2, List.take_append_drop]

theorem readFqs_ok_iff (n : Nat) (rd : Bytes) (as : List Fq) (rest : Bytes) :
    readFqs n rd = .ok (as, rest) ↔ as.length = n ∧ rd = (as.map Fq.toBytes).flatten ++ rest := by
  constructor
  · exact readFqs_ok n rd as rest
  · rintro ⟨rfl, rfl⟩; exact readFqs_append as rest

theorem readFqs_error (n : Nat) (rd : Bytes) (e : SerErr) (h : readFqs n rd = .error e) :
    e = .eof ∨ e = .notInField := by
  induction n generalizing rd with
  | zero => unfold readFqs at h; cases h
  | succ n ih =>
    unfold readFqs at h
    by_cases hl : rd.length < 48
    · rw [readExact_eof _ _ hl] at h; cases h; left; rfl
    · rw [readExact_ok _ _ (by omega)] at h
      simp only at h
      cases hf : Fq.fromBytes (rd.take 48) with
      | none => rw [hf] at h; cases h; right; rfl
      | some a =>
        rw [hf] at h
        simp only at h
        cases hr : readFqs n (rd.drop 48) with
        | error e' => rw [hr] at h; cases h; exact ih _ hr
        | ok p => rw [hr] at h; cases h

theorem flatten_toBytes_length (as : List Fq) : ((as.map Fq.toBytes).flatten).length = 48 * as.length := by
  induction as with
  | nil => rfl
  | cons a as ih => simp [ih]; omega

/-- truncation of a valid stream at any prefix length is reported as `eof` -/
theorem readFqs_truncated (as : List Fq) (k : Nat) (hk : k < 48 * as.length) :
    readFqs as.length (((as.map Fq.toBytes).flatten).take k) = .error .eof := by
  induction as generalizing k with
  | nil => simp at hk
  | cons a as ih =>
    simp only [List.length_cons, List.map_cons, List.flatten_cons]
    unfold readFqs
    by_cases h48 : k < 48
    · rw [readExact_eof]
      rw [List.length_take, List.length_append, Fq.toBytes_length]; omega
    · rw [List.take_append, List.take_of_length_le (by rw [Fq.toBytes_length]; omega), Fq.toBytes_length,
        readExact_append 48 _ _ (Fq.toBytes_length a)]
      simp only [Fq.fromBytes_toBytes]
      rw [ih (k - 48) (by simp only [List.length_cons] at hk; omega)]


theorem list12 {α : Type} (as : List α) (h : as.length = 12) :
    ∃ a b c d e f g h' i j k l, as = [a, b, c, d, e, f, g, h', i, j, k, l] := by
  match as, h with
  | [a, b, c, d, e, f, g, h', i, j, k, l], _ => exact ⟨a, b, c, d, e, f, g, h', i, j, k, l, rfl⟩

theorem Fq12.coeffs_length (a : Fq12) : a.coeffs.length = 12 := rfl

theorem serFq12_length (a : Fq12) : (serFq12 a).length = 576 := by
  unfold serFq12; rw [flatten_toBytes_length, Fq12.coeffs_length]

theorem deserFq12_serFq12 (a : Fq12) (tail : Bytes) : deserFq12 (serFq12 a ++ tail) = .ok (a, tail) := by
  unfold deserFq12 serFq12
  have := readFqs_append a.coeffs tail
  rw [Fq12.coeffs_length] at this
  rw [this]
  rfl

/-- a value is returned only for twelve canonical 48-byte coefficients, and exactly 576 bytes are consumed -/
theorem deserFq12_ok_iff (rd : Bytes) (a : Fq12) (rest : Bytes) :
    deserFq12 rd = .ok (a, rest) ↔ rd = serFq12 a ++ rest := by
  constructor
  · intro h
    unfold deserFq12 at h
    cases hr : readFqs 12 rd with
    | error e => rw [hr] at h; cases h
    | ok p =>
      obtain ⟨as, rest'⟩ := p
      obtain ⟨hlen, hrd⟩ := readFqs_ok _ _ _ _ hr
      obtain ⟨a0, a1, a2, a3, a4, a5, a6, a7, a8, a9, a10, a11, rfl⟩ := list12 as hlen
      rw [hr] at h
      simp only [Except.ok.injEq, Prod.mk.injEq] at h
      obtain ⟨rfl, rfl⟩ := h
      rw [hrd]; rfl
  · rintro rfl; exact deserFq12_serFq12 a rest

theorem deserFq12_error (rd : Bytes) (e : SerErr) (h : deserFq12 rd = .error e) : e = .eof ∨ e = .notInField := by
  unfold deserFq12 at h
  cases hr : readFqs 12 rd with
  | error e' => rw [hr] at h; cases h; exact readFqs_error _ _ _ hr
  | ok p =>
    obtain ⟨as, rest'⟩ := p
    obtain ⟨hlen, _⟩ := readFqs_ok _ _ _ _ hr
    obtain ⟨a0, a1, a2, a3, a4, a5, a6, a7, a8, a9, a10, a11, rfl⟩ := list12 as hlen
    rw [hr] at h; cases h

/-- the `panic` outcome of the model (the catch-all arm of the 12-element pattern) is unreachable -/
theorem deserFq12_ne_panic (rd : Bytes) : deserFq12 rd ≠ .error .panic := by
  intro h; rcases deserFq12_error _ _ h with h' | h' <;> cases h'

/-- short input: never a value -/
theorem deserFq12_short (rd : Bytes) (h : rd.length < 576) :
    deserFq12 rd = .error .eof ∨ deserFq12 rd = .error .notInField := by
  cases hd : deserFq12 rd with
  | error e => rcases deserFq12_error _ _ hd with rfl | rfl <;> simp
  | ok p =>
    obtain ⟨a, rest⟩ := p
    have := (deserFq12_ok_iff _ _ _).mp hd
    rw [this, List.length_append, serFq12_length] at h; omega

/-- truncation of a valid stream at every prefix length is reported as `eof` -/
theorem deserFq12_truncated (a : Fq12) (k : Nat) (hk : k < 576) :
    deserFq12 ((serFq12 a).take k) = .error .eof := by
  unfold deserFq12 serFq12
  have := readFqs_truncated a.coeffs k (by rw [Fq12.coeffs_length]; omega)
  rw [Fq12.coeffs_length] at this
  rw [this]

/-- a non-reduced coefficient after `as.length < 12` valid ones is reported as `notInField` -/
theorem readFqs_notInField (n : Nat) (as : List Fq) (bad tail : Bytes) (hn : as.length < n)
    (hb : bad.length = 48) (hbad : ¬ beToNat bad < Gen.q) :
    readFqs n ((as.map Fq.toBytes).flatten ++ (bad ++ tail)) = .error .notInField := by
  induction as generalizing n with
  | nil =>
    obtain ⟨m, rfl⟩ : ∃ m, n = m + 1 := ⟨n - 1, by simp at hn; omega⟩
    simp only [List.map_nil, List.flatten_nil, List.nil_append]
    unfold readFqs
    rw [readExact_append 48 _ _ hb]
    simp only [(Fq.fromBytes_eq_none_iff _).mpr hbad]
  | cons a as ih =>
    obtain ⟨m, rfl⟩ : ∃ m, n = m + 1 := ⟨n - 1, by simp at hn; omega⟩
    simp only [List.map_cons, List.flatten_cons, List.append_assoc]
    unfold readFqs
    rw [readExact_append 48 _ _ (Fq.toBytes_length a)]
    simp only [Fq.fromBytes_toBytes]
    rw [ih m (by simp at hn; omega)]

theorem deserFq12_notInField (as : List Fq) (bad tail : Bytes) (hn : as.length < 12)
    (hb : bad.length = 48) (hbad : ¬ beToNat bad < Gen.q) :
    deserFq12 ((as.map Fq.toBytes).flatten ++ (bad ++ tail)) = .error .notInField := by
  unfold deserFq12
  rw [readFqs_notInField 12 as bad tail hn hb hbad]


/-! ## points -/

theorem byte_bit7 (b : UInt8) : ((b &&& 0x80) == 0x80) = decide (b &&& 0x80 ≠ 0) :=
  UInt8.forall_of (fun b => ((b &&& 0x80) == 0x80) = decide (b &&& 0x80 ≠ 0)) (by decide +kernel) b

section points
variable {F : Type} [Field F] [DecidableEq F] [FieldOps F] [LawfulFieldOps F] [SqrtOps F] [LawfulSqrtOps F]
variable {cc : Codec F} {C : ZCash.Coord F}

theorem serAffine_true (A : Aff F) : serAffine cc A true = encodeCompressed cc A := rfl
theorem serAffine_false (A : Aff F) : serAffine cc A false = encodeUncompressed cc A := rfl

theorem serAffine_length (L : cc.Lawful C) (A : Aff F) (c : Bool) :
    (serAffine cc A c).length = if c then cc.size else 2 * cc.size := by
  cases c
  · exact encodeUncompressed_length L A
  · exact encodeCompressed_length L A

/-- projective points are serialised through `into_affine` -/
theorem serJac_eq (p : Jac F) (c : Bool) : serJac cc p c = p.toAffine.map (fun a => serAffine cc a c) := rfl

/-- projective deserialisation is affine deserialisation followed by `into_projective` -/
theorem deserJac_eq (rd : Bytes) (c : Bool) :
    deserJac cc rd c = (deserAffine cc rd c).map (fun p => (p.1.toJac, p.2)) := by
  unfold deserJac
  cases deserAffine cc rd c with
  | error e => rfl
  | ok p => rfl

/-- the form flag of a successfully decoded compressed string is set -/
theorem decodeCompressedUnchecked_flag (bs : Bytes) (A : Aff F) (h : decodeCompressedUnchecked cc bs = .ok A) :
    bs.headD 0 &&& 0x80 ≠ 0 := by
  intro h7
  have hl := decodeCompressedUnchecked_length bs A h
  unfold decodeCompressedUnchecked at h
  rw [if_neg (not_not.mpr hl)] at h
  simp only [] at h
  rw [if_pos h7] at h; cases h

theorem decodeUncompressedUnchecked_flag (bs : Bytes) (A : Aff F) (h : decodeUncompressedUnchecked cc bs = .ok A) :
    bs.headD 0 &&& 0x80 = 0 := by
  by_contra h7
  have hl := decodeUncompressedUnchecked_length bs A h
  unfold decodeUncompressedUnchecked at h
  rw [if_neg (not_not.mpr hl)] at h
  simp only [] at h
  rw [if_pos h7] at h; cases h

theorem headD_take (rd : Bytes) (n : Nat) (hn : 0 < n) : (rd.take n).headD 0 = rd.headD 0 := by
  cases rd with
  | nil => simp
  | cons b r =>
    obtain ⟨m, rfl⟩ : ∃ m, n = m + 1 := ⟨n - 1, by omega⟩
    rfl

/-- the model's compressed branch, as an equation -/
theorem deserAffine_compressed (L : cc.Lawful C) (rd : Bytes) (h : cc.size ≤ rd.length) :
    deserAffine cc rd true =
      if (rd.headD 0 &&& 0x80) = 0 then .error .compressness
      else match decodeCompressed cc (rd.take cc.size) with
        | .error e => .error (.decode e)
        | .ok a => .ok (a, rd.drop cc.size) := by
  unfold deserAffine
  rw [readExact_ok _ _ h]
  simp only [headD_take rd cc.size L.size_pos, byte_bit7]
  by_cases h7 : rd.headD 0 &&& 0x80 = 0
  · simp only [h7, ne_eq, not_true_eq_false, decide_false, if_true]; rfl
  · simp only [h7, ne_eq, not_false_eq_true, decide_true, if_false, bne_self_eq_false, Bool.false_eq_true,
      if_true]
    rfl

/-- the model's uncompressed branch (two-stage read), as an equation -/
theorem deserAffine_uncompressed (L : cc.Lawful C) (rd : Bytes) (h : cc.size ≤ rd.length) :
    deserAffine cc rd false =
      if (rd.headD 0 &&& 0x80) ≠ 0 then .error .compressness
      else if rd.length < 2 * cc.size then .error .eof
      else match decodeUncompressed cc (rd.take (2 * cc.size)) with
        | .error e => .error (.decode e)
        | .ok a => .ok (a, rd.drop (2 * cc.size)) := by
  unfold deserAffine
  rw [readExact_ok _ _ h]
  simp only [headD_take rd cc.size L.size_pos, byte_bit7]
  by_cases h7 : rd.headD 0 &&& 0x80 = 0
  · simp only [h7, ne_eq, not_true_eq_false, decide_false, Bool.false_eq_true, if_false]
    by_cases h2 : rd.length < 2 * cc.size
    · rw [readExact_eof _ _ (by rw [List.length_drop]; omega), if_pos h2]; rfl
    · rw [readExact_ok _ _ (by rw [List.length_drop]; omega), if_neg h2]
      simp only [bne_self_eq_false, Bool.false_eq_true, if_false]
      rw [← List.take_add, List.drop_drop, show cc.size + cc.size = 2 * cc.size by omega]
      rfl
  · simp only [h7, ne_eq, not_false_eq_true, decide_true, if_true]; rfl

theorem deserAffine_eof (rd : Bytes) (c : Bool) (h : rd.length < cc.size) :
    deserAffine cc rd c = .error .eof := by
  unfold deserAffine; rw [readExact_eof _ _ h]

/-- truncated uncompressed input (second read) -/
theorem deserAffine_eof2 (L : cc.Lawful C) (rd : Bytes) (h1 : cc.size ≤ rd.length) (h2 : rd.length < 2 * cc.size)
    (h7 : rd.headD 0 &&& 0x80 = 0) : deserAffine cc rd false = .error .eof := by
  rw [deserAffine_uncompressed L rd h1, if_neg (not_not.mpr h7), if_pos h2]

/-- a compression flag that contradicts the data -/
theorem deserAffine_compressness (L : cc.Lawful C) (rd : Bytes) (c : Bool) (h : cc.size ≤ rd.length)
    (hflag : decide (rd.headD 0 &&& 0x80 ≠ 0) ≠ c) : deserAffine cc rd c = .error .compressness := by
  cases c
  · rw [deserAffine_uncompressed L rd h, if_pos (by simpa using hflag)]
  · rw [deserAffine_compressed L rd h, if_pos (by simpa using hflag)]

/-- every string the checked compressed decoder rejects is rejected, with that reason -/
theorem deserAffine_decode_error_c (L : cc.Lawful C) (rd : Bytes) (h : cc.size ≤ rd.length)
    (h7 : rd.headD 0 &&& 0x80 ≠ 0) (e : DecodeErr) (he : decodeCompressed cc (rd.take cc.size) = .error e) :
    deserAffine cc rd true = .error (.decode e) := by
  rw [deserAffine_compressed L rd h, if_neg h7, he]

theorem deserAffine_decode_error_u (L : cc.Lawful C) (rd : Bytes) (h : 2 * cc.size ≤ rd.length)
    (h7 : rd.headD 0 &&& 0x80 = 0) (e : DecodeErr) (he : decodeUncompressed cc (rd.take (2 * cc.size)) = .error e) :
    deserAffine cc rd false = .error (.decode e) := by
  rw [deserAffine_uncompressed L rd (by omega), if_neg (not_not.mpr h7), if_neg (by omega), he]

/-- a value is returned exactly when the checked decoder accepts the `size`-byte prefix; that prefix
is consumed and nothing more -/
theorem deserAffine_ok_iff_c (L : cc.Lawful C) (rd : Bytes) (A : Aff F) (rest : Bytes) :
    deserAffine cc rd true = .ok (A, rest) ↔
      cc.size ≤ rd.length ∧ decodeCompressed cc (rd.take cc.size) = .ok A ∧ rest = rd.drop cc.size := by
  by_cases h : cc.size ≤ rd.length
  · rw [deserAffine_compressed L rd h]
    constructor
    · intro hd
      split at hd
      · cases hd
      · cases hdec : decodeCompressed cc (rd.take cc.size) with
        | error e => rw [hdec] at hd; cases hd
        | ok a =>
          rw [hdec] at hd
          simp only [Except.ok.injEq, Prod.mk.injEq] at hd
          exact ⟨h, by rw [hd.1], hd.2.symm⟩
    · rintro ⟨_, hdec, rfl⟩
      have hflag := decodeCompressedUnchecked_flag _ _ ((decodeCompressed_ok_iff _ _).mp hdec).1
      rw [headD_take rd cc.size L.size_pos] at hflag
      rw [if_neg hflag, hdec]
  · rw [deserAffine_eof rd true (by omega)]
    constructor
    · intro hd; cases hd
    · rintro ⟨h', _⟩; exact absurd h' h

theorem deserAffine_ok_iff_u (L : cc.Lawful C) (rd : Bytes) (A : Aff F) (rest : Bytes) :
    deserAffine cc rd false = .ok (A, rest) ↔
      2 * cc.size ≤ rd.length ∧ decodeUncompressed cc (rd.take (2 * cc.size)) = .ok A ∧
        rest = rd.drop (2 * cc.size) := by
  have hp := L.size_pos
  by_cases h : cc.size ≤ rd.length
  · rw [deserAffine_uncompressed L rd h]
    constructor
    · intro hd
      split at hd
      · cases hd
      · split at hd
        · cases hd
        · next h2 =>
          cases hdec : decodeUncompressed cc (rd.take (2 * cc.size)) with
          | error e => rw [hdec] at hd; cases hd
          | ok a =>
            rw [hdec] at hd
            simp only [Except.ok.injEq, Prod.mk.injEq] at hd
            exact ⟨by omega, by rw [hd.1], hd.2.symm⟩
    · rintro ⟨h2, hdec, rfl⟩
      have hflag := decodeUncompressedUnchecked_flag _ _ ((decodeUncompressed_ok_iff _ _).mp hdec).1
      rw [headD_take rd (2 * cc.size) (by omega)] at hflag
      rw [if_neg (not_not.mpr hflag), if_neg (by omega), hdec]
  · rw [deserAffine_eof rd false (by omega)]
    constructor
    · intro hd; cases hd
    · rintro ⟨h', _⟩; omega

/-- C19 round trip with exact consumption, any trailing data -/
theorem deserAffine_serAffine (L : cc.Lawful C) (A : Aff F) (c : Bool) (tail : Bytes)
    (hinf : A.infinity = true → A = Aff.zero)
    (hs : Aff.inSubgroup cc.b A = true) :
    deserAffine cc (serAffine cc A c ++ tail) c = .ok (A, tail) := by
  have hc := Aff.isOnCurve_of_inSubgroup _ _ hs
  cases c
  · rw [deserAffine_ok_iff_u L]
    have hl := encodeUncompressed_length L A
    rw [serAffine_false, List.take_left' hl, List.drop_left' hl, List.length_append, hl]
    exact ⟨by omega, decodeUncompressed_encode L A hinf hc hs, rfl⟩
  · rw [deserAffine_ok_iff_c L]
    have hl := encodeCompressed_length L A
    rw [serAffine_true, List.take_left' hl, List.drop_left' hl, List.length_append, hl]
    exact ⟨by omega, decodeCompressed_encode L A hinf hs, rfl⟩

/-- the only errors are `eof`, `compressness` and the decoders' rejections: `panic` is unreachable -/
theorem deserAffine_error (L : cc.Lawful C) (rd : Bytes) (c : Bool) (e : SerErr)
    (h : deserAffine cc rd c = .error e) : e = .eof ∨ e = .compressness ∨ ∃ d, e = .decode d := by
  by_cases hl : cc.size ≤ rd.length
  · cases c
    · rw [deserAffine_uncompressed L rd hl] at h
      split at h
      · cases h; simp
      · split at h
        · cases h; simp
        · split at h
          · next d _ => cases h; exact Or.inr (Or.inr ⟨d, rfl⟩)
          · cases h
    · rw [deserAffine_compressed L rd hl] at h
      split at h
      · cases h; simp
      · split at h
        · next d _ => cases h; exact Or.inr (Or.inr ⟨d, rfl⟩)
        · cases h
  · rw [deserAffine_eof rd c (by omega)] at h; cases h; simp

theorem deserAffine_ne_panic (L : cc.Lawful C) (rd : Bytes) (c : Bool) : deserAffine cc rd c ≠ .error .panic := by
  intro h
  rcases deserAffine_error L rd c _ h with h' | h' | ⟨d, h'⟩ <;> cases h'

theorem deserJac_ne_panic (L : cc.Lawful C) (rd : Bytes) (c : Bool) : deserJac cc rd c ≠ .error .panic := by
  rw [deserJac_eq]
  cases h : deserAffine cc rd c with
  | error e => intro h'; cases h'; exact deserAffine_ne_panic L rd c h
  | ok p => intro h'; cases h'

theorem deserJac_error_iff (rd : Bytes) (c : Bool) (e : SerErr) :
    deserJac cc rd c = .error e ↔ deserAffine cc rd c = .error e := by
  rw [deserJac_eq]
  cases deserAffine cc rd c with
  | error e' => constructor <;> (intro h; cases h; rfl)
  | ok p => constructor <;> (intro h; cases h)

theorem deserJac_ok_iff (rd : Bytes) (c : Bool) (P : Jac F) (rest : Bytes) :
    deserJac cc rd c = .ok (P, rest) ↔ ∃ A, deserAffine cc rd c = .ok (A, rest) ∧ P = A.toJac := by
  unfold deserJac
  cases deserAffine cc rd c with
  | error e' => simp
  | ok p =>
    obtain ⟨a, r⟩ := p
    simp only [Except.ok.injEq, Prod.mk.injEq]
    constructor
    · rintro ⟨rfl, rfl⟩; exact ⟨a, ⟨rfl, rfl⟩, rfl⟩
    · rintro ⟨A, ⟨rfl, rfl⟩, rfl⟩; exact ⟨rfl, rfl⟩

/-- what `into_affine` returns is either `Aff.zero` or a finite record -/
theorem Jac.toAffine_infinity (P : Jac F) (A : Aff F) (h : P.toAffine = some A) (hi : A.infinity = true) :
    A = Aff.zero := by
  unfold Jac.toAffine at h
  split at h
  · cases h; rfl
  · split at h
    · cases h; cases hi
    · split at h
      · cases h
      · cases h; cases hi

/-- C19 round trip for projective points: the bytes are those of the affine form, reading back
consumes them exactly and returns `into_projective` of that affine form -/
theorem deserJac_serJac (L : cc.Lawful C) (P : Jac F) (A : Aff F) (c : Bool) (tail : Bytes)
    (hA : P.toAffine = some A) (hs : Aff.inSubgroup cc.b A = true) :
    serJac cc P c = some (serAffine cc A c) ∧
      deserJac cc (serAffine cc A c ++ tail) c = .ok (A.toJac, tail) := by
  refine ⟨by rw [serJac_eq, hA]; rfl, ?_⟩
  rw [deserJac_ok_iff]
  exact ⟨A, deserAffine_serAffine L A c tail (Jac.toAffine_infinity P A hA) hs, rfl⟩

/-- … and, through the group abstraction of C01, the value read back IS the original group element -/
theorem deserJac_serJac_abs {G : Type} [AddCommGroup G] (GM : GroupModel F G) (L : cc.Lawful C)
    (P : Jac F) (c : Bool) (tail : Bytes) (hP : GM.ValidJ P)
    (hs : ∀ A, P.toAffine = some A → Aff.inSubgroup cc.b A = true) :
    ∃ bytes Q, serJac cc P c = some bytes ∧ deserJac cc (bytes ++ tail) c = .ok (Q, tail) ∧
      GM.ValidJ Q ∧ GM.absJ Q = GM.absJ P := by
  obtain ⟨A, hA, hvA, habs⟩ := GM.toAffine_ok P hP
  obtain ⟨h1, h2⟩ := deserJac_serJac L P A c tail hA (hs A hA)
  exact ⟨_, _, h1, h2, GM.toJac_valid A hvA, by rw [GM.toJac_abs A hvA, habs]⟩

end points
end PP
