/-
Tactics for PP/Proofs/GenArith.lean: prove `generated definition = model definition` ROBUSTLY, i.e.
also after a semantics-preserving ALGEBRAIC rewrite of the Rust source (commuted operands, `double`
for `x + x`, squaring by `mul_assign(&self)`, another association, a product distributed, a common
subexpression computed twice, ...).  Non-algebraic rewrites (reordered independent statements,
temporaries introduced or removed) never needed more than unfolding `let`s, which the first,
syntactic, alternative does; it is always tried FIRST, so the unchanged tree costs what it did.

  gen_eq G M by lo        proves `G = M`   (`G` generated constant, `M` model constant, `lo` the tactic
                          rewriting the generated lower-layer functions called by `G` into the model's)
    first | (unfold G M; lo; all_goals with_reducible_and_instances rfl)
          | (unfold G M; lo; gen_opaque; gen_funext; first | (gen_fold2; gen_finish) | (gen_unfold; gen_finish))

Second alternative: extensionality over the arguments; first an attempt over the ring `Fq2` (`gen_fold2`:
the named `Fq2` operations as ring operations; enough, and much cheaper, for code over `Fq2` values);
else the model's tower operations are UNFOLDED down to the operations of the base field (`gen_unfold`: `Fq12` -> `Fq6` -> `Fq2` -> `Fq`, all by the
defining equations; generic code: `sq a = a * a`, `dbl a = a + a`); conditions of `if`s and
discriminants of `match`es of the two sides are proved equal and identified (`gen_align`), then `split`;
equalities of structures are reduced to equalities of base-field components (`gen_leaves`), and each
of those is a polynomial identity decided by the core solver `grobner` (`grind`'s commutative-ring
module) over the `Lean.Grind.CommRing` instance for the model's `Zp p` that is built below ON the
model's own `+ * - neg 0 1`, from `Nat` lemmas.

Core Lean only: no Mathlib (PP/Proofs/GenArith.lean is imported by the other `Gen*` proof files, which
are written against the core environment).  The ring instances are `scoped`: they exist only where
`PP.GenArithTactic` is opened.  This file does not depend on PP/Gen/Arith.lean.

Soundness: every step is an ordinary tactic producing a kernel-checked term; a wrong equation makes
`grobner` fail (quickly).  Nothing evaluates concrete field arithmetic: no `decide`, no `rfl` at default
transparency in the second alternative, the inversion functions are generalised to variables first.
-/
import Lean
import PP.Model.Pairing

set_option linter.unusedSectionVars false
set_option linter.unusedSimpArgs false
set_option linter.unusedVariables false

namespace PP.GenArithTactic
open PP
open Lean Elab Tactic Meta

/-! ## `Zp p` is a commutative ring for `grind` (core classes, proofs from `Nat` lemmas) -/

namespace ZpRing
variable {p : Nat} [PosNat p]

theorem ext {a b : Zp p} (h : a.v = b.v) : a = b := by cases a; cases b; simp_all

theorem add_v (a b : Zp p) : (a + b).v = (a.v + b.v) % p := rfl
theorem mul_v (a b : Zp p) : (a * b).v = (a.v * b.v) % p := rfl
theorem neg_v (a : Zp p) : (-a).v = (p - a.v) % p := rfl
theorem sub_v (a b : Zp p) : (a - b).v = (a.v + (p - b.v)) % p := rfl
theorem zero_v : (0 : Zp p).v = 0 := Nat.zero_mod p
theorem one_v : (1 : Zp p).v = 1 % p := rfl
theorem v_mod (a : Zp p) : a.v % p = a.v := Nat.mod_eq_of_lt a.h

theorem add_zero (a : Zp p) : a + 0 = a := ext (by rw [add_v, zero_v, Nat.add_zero, v_mod])
theorem add_comm (a b : Zp p) : a + b = b + a := ext (by rw [add_v, add_v, Nat.add_comm])
theorem add_assoc (a b c : Zp p) : a + b + c = a + (b + c) :=
  ext (by rw [add_v, add_v, add_v, add_v, Nat.mod_add_mod, Nat.add_mod_mod, Nat.add_assoc])
theorem mul_comm (a b : Zp p) : a * b = b * a := ext (by rw [mul_v, mul_v, Nat.mul_comm])
theorem mul_assoc (a b c : Zp p) : a * b * c = a * (b * c) :=
  ext (by rw [mul_v, mul_v, mul_v, mul_v, Nat.mod_mul_mod, Nat.mul_mod_mod, Nat.mul_assoc])
theorem mul_one (a : Zp p) : a * 1 = a := ext (by rw [mul_v, one_v, Nat.mul_mod_mod, Nat.mul_one, v_mod])
theorem left_distrib (a b c : Zp p) : a * (b + c) = a * b + a * c :=
  ext (by rw [mul_v, add_v, add_v, mul_v, mul_v, Nat.mul_mod_mod, ← Nat.add_mod, Nat.mul_add])
theorem zero_mul (a : Zp p) : 0 * a = 0 := ext (by rw [mul_v, zero_v, Nat.zero_mul, Nat.zero_mod])
theorem neg_add_cancel (a : Zp p) : -a + a = 0 :=
  ext (by rw [add_v, neg_v, Nat.mod_add_mod, Nat.sub_add_cancel (Nat.le_of_lt a.h), Nat.mod_self, zero_v])
theorem sub_eq_add_neg (a b : Zp p) : a - b = a + -b := ext (by rw [sub_v, add_v, neg_v, Nat.add_mod_mod])
theorem neg_zero : -(0 : Zp p) = 0 := ext (by rw [neg_v, zero_v, Nat.sub_zero, Nat.mod_self])
theorem neg_neg (a : Zp p) : -(-a) = a := by
  have h : -(-a) + -a = 0 := neg_add_cancel (-a)
  calc -(-a) = -(-a) + 0 := (add_zero _).symm
    _ = -(-a) + (-a + a) := by rw [neg_add_cancel]
    _ = (-(-a) + -a) + a := (add_assoc _ _ _).symm
    _ = 0 + a := by rw [h]
    _ = a := by rw [add_comm, add_zero]

def npow (a : Zp p) : Nat → Zp p
  | 0 => 1
  | n + 1 => npow a n * a
def intCast : Int → Zp p
  | .ofNat n => Zp.ofNat n
  | .negSucc n => -(Zp.ofNat (n + 1))
def zsmul : Int → Zp p → Zp p
  | .ofNat n, a => Zp.ofNat n * a
  | .negSucc n, a => -(Zp.ofNat (n + 1) * a)

theorem intCast_neg (i : Int) : (intCast (-i) : Zp p) = -intCast i := by
  match i with
  | .ofNat 0 => exact neg_zero.symm
  | .ofNat (n + 1) => rfl
  | .negSucc n => exact (neg_neg _).symm
theorem neg_zsmul (i : Int) (a : Zp p) : zsmul (-i) a = -zsmul i a := by
  match i with
  | .ofNat 0 =>
    show Zp.ofNat 0 * a = -(Zp.ofNat 0 * a)
    rw [show (Zp.ofNat 0 : Zp p) = 0 from rfl, zero_mul, neg_zero]
  | .ofNat (n + 1) => rfl
  | .negSucc n => exact (neg_neg _).symm

end ZpRing

open ZpRing in
/-- the model's `Zp p` (`Fq`, `Fr`) with the model's own `+ * - neg 0 1` as a commutative ring for the
    core solver `grind` / `grobner` -/
@[reducible] def zpCommRing {p : Nat} [PosNat p] : Lean.Grind.CommRing (Zp p) where
  natCast := ⟨Zp.ofNat⟩
  ofNat := fun n => ⟨Zp.ofNat n⟩
  nsmul := ⟨fun n a => Zp.ofNat n * a⟩
  npow := ⟨npow⟩
  intCast := ⟨intCast⟩
  zsmul := ⟨zsmul⟩
  add_zero := add_zero
  add_comm := add_comm
  add_assoc := add_assoc
  mul_assoc := mul_assoc
  mul_one := mul_one
  one_mul := fun a => by rw [mul_comm]; exact mul_one a
  left_distrib := left_distrib
  right_distrib := fun a b c => by rw [mul_comm, left_distrib, mul_comm c, mul_comm c]
  zero_mul := zero_mul
  mul_zero := fun a => by rw [mul_comm]; exact zero_mul a
  pow_zero := fun _ => rfl
  pow_succ := fun _ _ => rfl
  ofNat_succ := fun n => ext (by show (n + 1) % p = (n % p + 1 % p) % p; rw [← Nat.add_mod])
  ofNat_eq_natCast := fun _ => rfl
  nsmul_eq_natCast_mul := fun _ _ => rfl
  neg_add_cancel := neg_add_cancel
  sub_eq_add_neg := sub_eq_add_neg
  neg_zsmul := neg_zsmul
  zsmul_natCast_eq_nsmul := fun _ _ => rfl
  intCast_ofNat := fun _ => rfl
  intCast_neg := intCast_neg
  mul_comm := mul_comm

scoped instance instZpCommRing {p : Nat} [PosNat p] : Lean.Grind.CommRing (Zp p) := zpCommRing

/-! ## extensionality of the structures -/

theorem Fq2_ext {a b : Fq2} (h0 : a.c0 = b.c0) (h1 : a.c1 = b.c1) : a = b := by
  cases a; cases b; simp_all
theorem Fq6_ext {a b : Fq6} (h0 : a.c0 = b.c0) (h1 : a.c1 = b.c1) (h2 : a.c2 = b.c2) : a = b := by
  cases a; cases b; simp_all
theorem Fq12_ext {a b : Fq12} (h0 : a.c0 = b.c0) (h1 : a.c1 = b.c1) : a = b := by
  cases a; cases b; simp_all
theorem Jac_ext {F : Type} {p q : Jac F} (hx : p.x = q.x) (hy : p.y = q.y) (hz : p.z = q.z) : p = q := by
  cases p; cases q; simp_all
theorem Aff_ext {F : Type} {p q : Aff F} (hx : p.x = q.x) (hy : p.y = q.y) (hi : p.infinity = q.infinity) :
    p = q := by
  cases p; cases q; simp_all
theorem eq_iff_of_eq {α : Sort _} {a a' b b' : α} (h1 : a = a') (h2 : b = b') : (a = b) ↔ (a' = b') := by
  subst h1; subst h2; exact Iff.rfl
theorem eq_eq_of_eq {α : Sort _} {a a' b b' : α} (h1 : a = a') (h2 : b = b') : (a = b) = (a' = b') := by
  subst h1; subst h2; rfl

/-! ## the tower operations by their defining equations (everything here is `rfl`) -/

theorem Zp_sq {p : Nat} [PosNat p] (a : Zp p) : sq a = a * a := rfl
theorem Zp_dbl {p : Nat} [PosNat p] (a : Zp p) : dbl a = a + a := rfl

theorem Fq2_hadd (a b : Fq2) : a + b = Fq2.add a b := rfl
theorem Fq2_hsub (a b : Fq2) : a - b = Fq2.sub a b := rfl
theorem Fq2_hmul (a b : Fq2) : a * b = Fq2.mul a b := rfl
theorem Fq2_hneg (a : Fq2) : -a = Fq2.neg a := rfl
theorem Fq2_sq (a : Fq2) : sq a = Fq2.square a := rfl
theorem Fq2_dbl (a : Fq2) : dbl a = Fq2.double a := rfl
theorem Fq2_zero : (0 : Fq2) = ⟨0, 0⟩ := rfl
theorem Fq2_one : (1 : Fq2) = ⟨1, 0⟩ := rfl
theorem Fq2_frob (a : Fq2) (n : Nat) : FieldOps.frob a n = Fq2.frobeniusMap a n := rfl

theorem Fq6_hadd (a b : Fq6) : a + b = Fq6.add a b := rfl
theorem Fq6_hsub (a b : Fq6) : a - b = Fq6.sub a b := rfl
theorem Fq6_hmul (a b : Fq6) : a * b = Fq6.mul a b := rfl
theorem Fq6_hneg (a : Fq6) : -a = Fq6.neg a := rfl
theorem Fq6_sq (a : Fq6) : sq a = Fq6.square a := rfl
theorem Fq6_dbl (a : Fq6) : dbl a = Fq6.double a := rfl
theorem Fq6_zero : (0 : Fq6) = ⟨0, 0, 0⟩ := rfl
theorem Fq6_one : (1 : Fq6) = ⟨1, 0, 0⟩ := rfl
theorem Fq6_frob (a : Fq6) (n : Nat) : FieldOps.frob a n = Fq6.frobeniusMap a n := rfl

theorem Fq12_hadd (a b : Fq12) : a + b = Fq12.add a b := rfl
theorem Fq12_hsub (a b : Fq12) : a - b = Fq12.sub a b := rfl
theorem Fq12_hmul (a b : Fq12) : a * b = Fq12.mul a b := rfl
theorem Fq12_hneg (a : Fq12) : -a = Fq12.neg a := rfl
theorem Fq12_sq (a : Fq12) : sq a = Fq12.square a := rfl
theorem Fq12_dbl (a : Fq12) : dbl a = Fq12.double a := rfl
theorem Fq12_zero : (0 : Fq12) = ⟨0, 0⟩ := rfl
theorem Fq12_one : (1 : Fq12) = ⟨1, 0⟩ := rfl
theorem Fq12_frob (a : Fq12) (n : Nat) : FieldOps.frob a n = Fq12.frobeniusMap a n := rfl

/-! ## the tactics -/

/-- `funext` over all arguments, then beta.  (Not `repeat (apply funext ..)`: a FAILING unification of
    `funext` with an equation between non-functions can send `whnf` into the bodies.) -/
elab "gen_funext" : tactic => do
  repeat
    let g ← getMainGoal
    let t ← instantiateMVars (← g.getType)
    match t.eq? with
    | some (ty, _, _) =>
      let ty ← whnfR ty
      if ty.isForall then evalTactic (← `(tactic| (apply funext; intro _)))
      else break
    | none => break
  let g ← getMainGoal
  let t ← instantiateMVars (← g.getType)
  let g' ← g.replaceTargetDefEq (← Core.betaReduce t)
  replaceMainGoal [g']

/-- the inversion functions as opaque variables: a `match` on `Fq6.inverse e` in a proof term makes the
    kernel (and `whnf`) unfold the whole tower below it -/
macro "gen_opaque" : tactic => `(tactic| (
  try rw [show @FieldOps.inv Fq12 _ = PP.Fq12.inverse from rfl]
  try rw [show @FieldOps.inv Fq6 _ = PP.Fq6.inverse from rfl]
  try rw [show @FieldOps.inv Fq2 _ = PP.Fq2.inverse from rfl]
  try generalize PP.Fq12.inverse = inv12
  try generalize PP.Fq6.inverse = inv6
  try generalize PP.Fq2.inverse = inv2
  try generalize (@FieldOps.inv Fq _) = inv0))

/-- `let`s and projections of constructors (a step of its own), then the tower operations down to the
    base field by their defining equations.  The inversions, `is_zero`, square roots, `sgn0` are NOT
    unfolded. -/
macro "gen_unfold" : tactic => `(tactic| (
  (try simp only [])
  (try simp only [
    Fq12_hadd, Fq12_hsub, Fq12_hmul, Fq12_hneg, Fq12_sq, Fq12_dbl, Fq12_zero, Fq12_one, Fq12_frob,
    Fq12.add, Fq12.sub, Fq12.neg, Fq12.double, Fq12.mul, Fq12.square, Fq12.conjugate, Fq12.mulBy014, Fq12.frobeniusMap,
    Fq6_hadd, Fq6_hsub, Fq6_hmul, Fq6_hneg, Fq6_sq, Fq6_dbl, Fq6_zero, Fq6_one, Fq6_frob,
    Fq6.add, Fq6.sub, Fq6.neg, Fq6.double, Fq6.mul, Fq6.square, Fq6.mulByNonresidue, Fq6.mulBy1, Fq6.mulBy01,
    Fq6.frobeniusMap,
    Fq2_hadd, Fq2_hsub, Fq2_hmul, Fq2_hneg, Fq2_sq, Fq2_dbl, Fq2_zero, Fq2_one, Fq2_frob,
    Fq2.add, Fq2.sub, Fq2.neg, Fq2.double, Fq2.mul, Fq2.square, Fq2.mulByNonresidue, Fq2.norm, Fq2.frobeniusMap,
    Zp_sq, Zp_dbl])))

/-- one equation between base-field elements, or structures of them: `grobner` on a field element,
    component-wise on a structure.  Every alternative fails at once when the type of the goal is not the
    one it is for. -/
syntax "gen_close" : tactic
macro_rules | `(tactic| gen_close) => `(tactic| first
  | done
  | (with_reducible rfl)
  | grobner
  | (refine Fq12_ext ?_ ?_ <;> ((try dsimp only []); gen_close))
  | (refine Fq6_ext ?_ ?_ ?_ <;> ((try dsimp only []); gen_close))
  | (refine Fq2_ext ?_ ?_ <;> ((try dsimp only []); gen_close))
  | (refine Jac_ext ?_ ?_ ?_ <;> ((try dsimp only []); gen_close))
  | (refine Aff_ext ?_ ?_ ?_ <;> ((try dsimp only []); gen_close))
  | (refine Prod.ext ?_ ?_ <;> ((try dsimp only []); gen_close))
  | (refine congrArg some ?_; gen_close)
  | (refine decide_eq_decide.mpr (eq_iff_of_eq ?_ ?_) <;> gen_close))

/-- equalities of constructor applications to equalities of the arguments, then `gen_close` -/
macro "gen_leaves" : tactic => `(tactic| (
  try simp only [Fq2.mk.injEq, Fq6.mk.injEq, Fq12.mk.injEq, Jac.mk.injEq, Aff.mk.injEq, Prod.mk.injEq,
    OsswuHelp.mk.injEq, Option.some.injEq, true_and, and_true]
  repeat' apply And.intro
  all_goals gen_close))

/-- conditions / discriminants of the two sides are equal: propositions structurally (`∧`, `¬`, `=`),
    data by `gen_close`, applications of a function (`is_zero e`, `inverse e`) by congruence (at most two
    levels: an unbounded descent into a wrong equation would only exhaust the recursion limit) -/
syntax "gen_side" : tactic
macro_rules | `(tactic| gen_side) => `(tactic| first
  | (with_reducible rfl)
  | (refine congr (congrArg And ?_) ?_ <;> gen_side)
  | (refine congrArg Not ?_; gen_side)
  | (refine eq_eq_of_eq ?_ ?_ <;> gen_side)
  | gen_close
  | (with_reducible congr 1 <;> first | gen_close | (with_reducible congr 1 <;> gen_close)))

/-- the condition of the first `if` / the discriminant of the first `match` (exactly one
    discriminant), outermost first, with no loose bound variables -/
def firstCtrl? (env : Environment) (e : Expr) : Option Expr := do
  let t ← e.find? fun t =>
    !t.hasLooseBVars &&
      ((t.isAppOf ``ite && t.getAppNumArgs ≥ 5) || (t.isAppOf ``dite && t.getAppNumArgs ≥ 5) ||
        (match isMatcherAppCore? env t with
         | some info => info.numDiscrs == 1 && t.getAppNumArgs ≥ info.arity
         | none => false))
  if t.isAppOf ``ite || t.isAppOf ``dite then
    pure (t.getArg! 1)
  else
    let info ← isMatcherAppCore? env t
    pure (t.getArg! info.getFirstDiscrPos)

/-- Goal `L = R`.  Takes the first `if` / `match` of `L` and of `R`, proves their conditions /
    discriminants equal (`gen_side`) and rewrites the one of `L` into the one of `R`.  Fails if one of
    the sides has no control flow, or if the two are not equal. -/
elab "gen_align" : tactic => withMainContext do
  let g ← getMainGoal
  let t ← instantiateMVars (← g.getType)
  let some (_, lhs, rhs) := t.eq? | throwError "gen_align: not an equation"
  let env ← getEnv
  let some d := firstCtrl? env lhs | throwError "gen_align: no control flow on the left"
  let some d' := firstCtrl? env rhs | throwError "gen_align: no control flow on the right"
  if d == d' then return
  unless ← withReducible (isDefEq (← inferType d) (← inferType d')) do
    throwError "gen_align: different kinds of control flow"
  let eqT ← mkEq d d'
  let hd ← mkFreshExprSyntheticOpaqueMVar eqT
  -- in THIS tactic context (no error recovery under `first`): a failure of `gen_side` is an exception
  let saved ← getGoals
  setGoals [hd.mvarId!]
  withoutRecover (evalTactic (← `(tactic| gen_side)))
  unless (← getGoals).isEmpty do throwError "gen_align: the conditions of the two sides differ"
  setGoals saved
  let g1 ← g.assert `gen_hd eqT hd
  let (_, g2) ← g1.intro `gen_hd
  replaceMainGoal [g2]
  let id := mkIdent `gen_hd
  evalTactic (← `(tactic| (simp only [$id:ident] <;> clear $id)))

/-- case analysis on every `if` / `match`, the two sides in step -/
macro "gen_split" : tactic =>
  `(tactic| repeat' (gen_align <;> (split <;> try simp only [*, ↓reduceIte])))

/-- straight-line code: `gen_leaves`; with control flow: `gen_split`, then the leaves -/
macro "gen_finish" : tactic => `(tactic| first
  | done
  | gen_leaves
  | (gen_split;
     all_goals (first
       | done | gen_leaves | contradiction
       | fail "gen_eq: generated definition and model differ (not equal up to commutative-ring identities)")))

/-! ## generic code: a coefficient field with ring laws -/

/-- What the robust comparison needs from the coefficient field of the generic code (`curve_impl!`,
    `osswu_help`): ring laws for the notation classes the code is instantiated with (a core class, so
    that no Mathlib is needed here; Mathlib's `CommRing`/`Field` give it by
    `Mathlib/Algebra/Ring/GrindInstances.lean`), and `square` / `double` being what they say.  No
    inverse, no primality.  Instances below (`scoped`): `Zp p`, `Fq2`. -/
class LawfulSqDbl (F : Type) [Lean.Grind.CommRing F] [FieldOps F] : Prop where
  sq_eq : ∀ a : F, sq a = a * a
  dbl_eq : ∀ a : F, dbl a = a + a

theorem sq_eq {F : Type} [Lean.Grind.CommRing F] [FieldOps F] [LawfulSqDbl F] (a : F) : sq a = a * a :=
  LawfulSqDbl.sq_eq a
theorem dbl_eq {F : Type} [Lean.Grind.CommRing F] [FieldOps F] [LawfulSqDbl F] (a : F) : dbl a = a + a :=
  LawfulSqDbl.dbl_eq a

scoped instance {p : Nat} [PosNat p] : LawfulSqDbl (Zp p) := ⟨fun _ => rfl, fun _ => rfl⟩

/-! ## `Fq2` is a commutative ring for `grind` too (for the generic code instantiated at `Fq2`): each ring
    law is two polynomial identities over `Fq` -/

namespace Fq2Ring

theorem Zp_ofNat_zero {p : Nat} [PosNat p] : (Zp.ofNat 0 : Zp p) = 0 := rfl
theorem Zp_ofNat_one {p : Nat} [PosNat p] : (Zp.ofNat 1 : Zp p) = 1 := rfl

def npow (a : Fq2) : Nat → Fq2
  | 0 => 1
  | n + 1 => npow a n * a
@[reducible] def ofNat (n : Nat) : Fq2 := ⟨Zp.ofNat n, 0⟩
def intCast (i : Int) : Fq2 := ⟨ZpRing.intCast i, 0⟩
def zsmul (i : Int) (a : Fq2) : Fq2 := intCast i * a

macro "fq2_ax" : tactic => `(tactic| (intros; refine Fq2_ext ?_ ?_ <;>
  (gen_unfold; (try simp only [ofNat, Zp_ofNat_zero, Zp_ofNat_one]); first | done | grobner)))

theorem intCast_neg (i : Int) : intCast (-i) = -intCast i := by
  refine Fq2_ext ?_ ?_
  · exact ZpRing.intCast_neg i
  · show (0 : Fq) = -0; exact ZpRing.neg_zero.symm

end Fq2Ring

open Fq2Ring in
@[reducible] def fq2CommRing : Lean.Grind.CommRing Fq2 where
  natCast := ⟨ofNat⟩
  ofNat := fun n => ⟨ofNat n⟩
  nsmul := ⟨fun n a => ofNat n * a⟩
  npow := ⟨npow⟩
  intCast := ⟨intCast⟩
  zsmul := ⟨zsmul⟩
  add_zero := by fq2_ax
  add_comm := by fq2_ax
  add_assoc := by fq2_ax
  mul_assoc := by fq2_ax
  mul_one := by fq2_ax
  one_mul := by fq2_ax
  left_distrib := by fq2_ax
  right_distrib := by fq2_ax
  zero_mul := by fq2_ax
  mul_zero := by fq2_ax
  pow_zero := fun _ => rfl
  pow_succ := fun _ _ => rfl
  ofNat_succ := fun n => Fq2_ext
    (ZpRing.ext (by show (n + 1) % Gen.q = (n % Gen.q + 1 % Gen.q) % Gen.q; rw [← Nat.add_mod]))
    (ZpRing.add_zero 0).symm
  ofNat_eq_natCast := fun _ => rfl
  nsmul_eq_natCast_mul := fun _ _ => rfl
  neg_add_cancel := by fq2_ax
  sub_eq_add_neg := by fq2_ax
  neg_zsmul := fun i a => by
    show intCast (-i) * a = -(intCast i * a)
    rw [intCast_neg]; generalize intCast i = c
    refine Fq2_ext ?_ ?_ <;> (gen_unfold; first | done | grobner)
  zsmul_natCast_eq_nsmul := fun _ _ => rfl
  intCast_ofNat := fun _ => rfl
  intCast_neg := intCast_neg
  mul_comm := by fq2_ax

scoped instance instFq2CommRing : Lean.Grind.CommRing Fq2 := fq2CommRing
open Fq2Ring in
scoped instance : LawfulSqDbl Fq2 := ⟨by fq2_ax, by fq2_ax⟩


/-! ## the comparison at the level of `Fq2` (code over `Fq2` values: `doubling_step`, `addition_step`, the
    `Fq6` functions).  Curve-like formulas have high degree: unfolded to `Fq` their polynomials get big
    (`addition_step`: ~45 s), over the ring `Fq2` they are as small as the source. -/

theorem Fq2_add_fold (a b : Fq2) : Fq2.add a b = a + b := rfl
theorem Fq2_sub_fold (a b : Fq2) : Fq2.sub a b = a - b := rfl
theorem Fq2_mul_fold (a b : Fq2) : Fq2.mul a b = a * b := rfl
theorem Fq2_neg_fold (a : Fq2) : Fq2.neg a = -a := rfl
theorem Fq2_double_fold (a : Fq2) : Fq2.double a = a + a := rfl
theorem Fq2_square_fold (a : Fq2) : Fq2.square a = a * a := (Fq2_sq a).symm.trans (sq_eq a)

/-- the named `Fq2` operations of the model as ring operations of `Fq2` (`mul_by_nonresidue`, Frobenius,
    inversion stay function symbols) -/
macro "gen_fold2" : tactic => `(tactic| (
  (try simp only [])
  (try simp only [Fq2_add_fold, Fq2_sub_fold, Fq2_mul_fold, Fq2_neg_fold, Fq2_double_fold, Fq2_square_fold,
    sq_eq, dbl_eq])))

/-- `gen_eq G M by lo`: see the header -/
macro "gen_eq " g:ident m:ident " by " lo:tactic : tactic => `(tactic| first
  | (unfold $g:ident $m:ident; $lo; all_goals with_reducible_and_instances rfl)
  | (unfold $g:ident $m:ident; $lo; gen_opaque; gen_funext
     first
     | (gen_fold2; gen_finish)
     | (gen_unfold; gen_finish)
     trace "gen_eq: generated code is no longer syntactically the model; proved equal up to commutative-ring identities"))

/-- `gen_eq` for the generic code: `sq`, `dbl` by `LawfulSqDbl` instead of the tower.  (First alternative:
    plain `rfl` as in the theorems over bare notation classes; over an abstract `F` there is no concrete
    arithmetic a failing `rfl` could start to evaluate.) -/
macro "gen_eq_ring " g:ident m:ident " by " lo:tactic : tactic => `(tactic| first
  | (unfold $g:ident; $lo; all_goals rfl)
  | (unfold $g:ident $m:ident; $lo; gen_funext; (try simp only []); (try simp only [sq_eq, dbl_eq]); gen_finish
     trace "gen_eq: generated code is no longer syntactically the model; proved equal up to commutative-ring identities"))

end PP.GenArithTactic
