/-
C08, constants: the derive-generated / hard-coded constants of `Fq`, `Fr` are what they should be.
All by kernel evaluation on the EXTRACTED values (`PP.Gen.*`), plus correctness of `PP.powMod`.
-/
import PP.Proofs.Mont
import PP.Gen.Maps

set_option exponentiation.threshold 2048

namespace PP

/-! ### `powMod` is modular exponentiation -/

theorem powModAux_spec (m : ℕ) (hm : 0 < m) : ∀ (fuel b e acc : ℕ), e < 2 ^ fuel → acc < m →
    powModAux m fuel b e acc < m ∧ powModAux m fuel b e acc = acc * b ^ e % m := by
  intro fuel
  induction fuel with
  | zero =>
    intro b e acc he hacc
    have : e = 0 := by simpa using he
    subst this
    simp [powModAux, hacc, Nat.mod_eq_of_lt hacc]
  | succ fuel ih =>
    intro b e acc he hacc
    by_cases h0 : e = 0
    · subst h0; simp [powModAux, hacc, Nat.mod_eq_of_lt hacc]
    · have hstep : powModAux m (fuel + 1) b e acc
          = powModAux m fuel (b * b % m) (e / 2) (if e % 2 = 1 then acc * b % m else acc) := by
        simp [powModAux, h0]
      rw [hstep]
      have he2 : e / 2 < 2 ^ fuel := by rw [pow_succ] at he; omega
      have hacc' : (if e % 2 = 1 then acc * b % m else acc) < m := by
        split
        · exact Nat.mod_lt _ hm
        · exact hacc
      obtain ⟨i1, i2⟩ := ih (b * b % m) (e / 2) _ he2 hacc'
      refine ⟨i1, ?_⟩
      rw [i2]
      have hbm : (b * b % m) ^ (e / 2) ≡ (b * b) ^ (e / 2) [MOD m] := (Nat.mod_modEq _ _).pow _
      by_cases ho : e % 2 = 1
      · simp only [ho, if_true]
        have hE : b ^ e = b * (b * b) ^ (e / 2) := by
          conv_lhs => rw [show e = 2 * (e / 2) + 1 by omega]
          rw [pow_succ, pow_mul]; ring
        have : acc * b % m * (b * b % m) ^ (e / 2) ≡ acc * b * (b * b) ^ (e / 2) [MOD m] :=
          (Nat.mod_modEq _ _).mul hbm
        rw [hE, ← mul_assoc]; exact this
      · simp only [ho, if_false]
        have hE : b ^ e = (b * b) ^ (e / 2) := by
          conv_lhs => rw [show e = 2 * (e / 2) by omega]
          rw [pow_mul]; ring
        have : acc * (b * b % m) ^ (e / 2) ≡ acc * (b * b) ^ (e / 2) [MOD m] :=
          Nat.ModEq.mul_left _ hbm
        rw [hE]; exact this

theorem powMod_eq_pow_mod (b e m : ℕ) (hm : 0 < m) : powMod b e m = b ^ e % m := by
  unfold powMod
  have he : e < 2 ^ (e.log2 + 1) := Nat.lt_log2_self
  have h1 : 1 % m < m := Nat.mod_lt _ hm
  rw [(powModAux_spec m hm _ _ _ _ he h1).2, Nat.mul_mod, Nat.mod_mod, ← Nat.pow_mod,
    ← Nat.mul_mod, one_mul]

namespace Mont
open Gen

/-! ### the moduli and Montgomery constants -/

theorem fq_MODULUS_eq : fq_MODULUS = q := by decide +kernel
theorem fr_MODULUS_eq : fr_MODULUS = r := by decide +kernel
theorem fqP_p : fqP.p = q := fq_MODULUS_eq
theorem frP_p : frP.p = r := fr_MODULUS_eq
theorem fqP_W : fqP.W = 2 ^ 384 := rfl
theorem frP_W : frP.W = 2 ^ 256 := rfl

theorem q_bits : 2 ^ 380 < q ∧ q < 2 ^ 381 := by decide +kernel
theorem r_bits : 2 ^ 254 < r ∧ r < 2 ^ 255 := by decide +kernel
theorem fq_MODULUS_BITS_eq : fq_MODULUS_BITS = 381 ∧ fq_REPR_SHAVE_BITS = 64 * 6 - 381 := by
  decide
theorem fr_MODULUS_BITS_eq : fr_MODULUS_BITS = 255 ∧ fr_REPR_SHAVE_BITS = 64 * 4 - 255 := by
  decide

theorem fq_R_eq : fq_R = 2 ^ 384 % q := by decide +kernel
theorem fq_R2_eq : fq_R2 = 2 ^ 768 % q := by decide +kernel
theorem fq_INV_eq : (fq_INV * q + 1) % 2 ^ 64 = 0 ∧ fq_INV < 2 ^ 64 := by decide +kernel
theorem fr_R_eq : fr_R = 2 ^ 256 % r := by decide +kernel
theorem fr_R2_eq : fr_R2 = 2 ^ 512 % r := by decide +kernel
theorem fr_INV_eq : (fr_INV * r + 1) % 2 ^ 64 = 0 ∧ fr_INV < 2 ^ 64 := by decide +kernel

/-! ### hard-coded field elements, as Montgomery encodings -/

theorem B_COEFF_eq : B_COEFF = 4 * 2 ^ 384 % q := by decide +kernel
theorem NEGATIVE_ONE_eq : NEGATIVE_ONE = (q - 1) * 2 ^ 384 % q := by decide +kernel
theorem F_2_256_eq : F_2_256 = 2 ^ 256 * 2 ^ 384 % q := by decide +kernel
theorem F_2_192_eq : F_2_192 = 2 ^ 192 * 2 ^ 256 % r := by decide +kernel
theorem fq_GENERATOR_eq : fq_GENERATOR = fqGenerator * 2 ^ 384 % q := by decide +kernel
theorem fr_GENERATOR_eq : fr_GENERATOR = frGenerator * 2 ^ 256 % r := by decide +kernel
theorem fqGenerator_eq : fqGenerator = 2 := rfl
theorem frGenerator_eq : frGenerator = 7 := rfl

/-! ### exponents -/

theorem q_mod_4 : q % 4 = 3 := by decide +kernel
theorem fq_LEGENDRE_EXP_eq : fq_LEGENDRE_EXP = (q - 1) / 2 := by decide +kernel
theorem fq_SQRT_EXP_eq : fq_SQRT_EXP = (q - 3) / 4 := by decide +kernel
theorem FQ2_SQRT_EXP1_eq : FQ2_SQRT_EXP1 = (q - 3) / 4 := by decide +kernel
theorem FQ2_SQRT_EXP2_eq : FQ2_SQRT_EXP2 = (q - 1) / 2 := by decide +kernel
theorem fr_LEGENDRE_EXP_eq : fr_LEGENDRE_EXP = (r - 1) / 2 := by decide +kernel
theorem fq_S_eq : fq_S = 1 := rfl
theorem fr_S_eq : fr_S = 32 := rfl
/-- `q − 1 = 2^1 · t` with `t` odd -/
theorem fq_two_adicity : (q - 1) % 2 ^ fq_S = 0 ∧ (q - 1) / 2 ^ fq_S % 2 = 1 := by decide +kernel
/-- `r − 1 = 2^32 · t` with `t` odd -/
theorem fr_two_adicity : (r - 1) % 2 ^ fr_S = 0 ∧ (r - 1) / 2 ^ fr_S % 2 = 1 := by decide +kernel
theorem fr_SQRT_T_EXP_eq : fr_SQRT_T_EXP = (r - 1) / 2 ^ 32 := by decide +kernel
theorem fr_SQRT_R_EXP_eq : fr_SQRT_R_EXP = ((r - 1) / 2 ^ 32 + 1) / 2 := by decide +kernel

/-! ### roots of unity -/

theorem fq_ROOT_OF_UNITY_eq_SQRT_CMP : fq_ROOT_OF_UNITY = fq_SQRT_CMP := by decide +kernel
theorem fq_ROOT_OF_UNITY_eq_NEGATIVE_ONE : fq_ROOT_OF_UNITY = NEGATIVE_ONE := by decide +kernel
theorem fq_ROOT_OF_UNITY_eq : fq_ROOT_OF_UNITY = (q - 1) * 2 ^ 384 % q := by decide +kernel
/-- `ROOT_OF_UNITY = GENERATOR^t` for `Fq` (`t = (q−1)/2`) -/
theorem fq_ROOT_OF_UNITY_powMod : powMod 2 ((q - 1) / 2) q = q - 1 := by
  decide +kernel

/-- the decoded root of unity of `Fr`: `GENERATOR^t`, `t = (r−1)/2^32` -/
def frOmega : ℕ := powMod 7 ((r - 1) / 2 ^ 32) r

theorem fr_ROOT_OF_UNITY_eq : fr_ROOT_OF_UNITY = frOmega * 2 ^ 256 % r := by decide +kernel

theorem frOmega_order_kernel : powMod frOmega (2 ^ 31) r = r - 1 ∧ powMod frOmega (2 ^ 32) r = 1 := by
  decide +kernel

theorem r_pos : 0 < r := by decide
theorem q_pos : 0 < q := by decide

theorem frOmega_eq : frOmega = 7 ^ ((r - 1) / 2 ^ 32) % r := powMod_eq_pow_mod _ _ _ r_pos

/-- `ROOT_OF_UNITY = GENERATOR^t` for `Fq` (`t = (q−1)/2`): `2^((q−1)/2) ≡ −1` -/
theorem fq_ROOT_OF_UNITY_pow : 2 ^ ((q - 1) / 2) % q = q - 1 := by
  rw [← powMod_eq_pow_mod _ _ _ q_pos]; exact fq_ROOT_OF_UNITY_powMod

/-- `ω = 7^((r−1)/2^32) mod r` has multiplicative order exactly `2^32` modulo `r`:
    `ω^(2^32) ≡ 1` and `ω^(2^31) ≡ −1 ≢ 1`. -/
theorem frOmega_order :
    frOmega ^ 2 ^ 32 % r = 1 ∧ frOmega ^ 2 ^ 31 % r = r - 1 ∧ frOmega ^ 2 ^ 31 % r ≠ 1 := by
  obtain ⟨h1, h2⟩ := frOmega_order_kernel
  rw [powMod_eq_pow_mod _ _ _ r_pos] at h1 h2
  refine ⟨h2, h1, ?_⟩
  rw [h1]; decide +kernel

/-! ### every hard-coded raw element is reduced -/

theorem fq_raw_lt :
    fq_R < q ∧ fq_R2 < q ∧ fq_GENERATOR < q ∧ fq_ROOT_OF_UNITY < q ∧ fq_SQRT_CMP < q ∧
    B_COEFF < q ∧ G1_GENERATOR_X < q ∧ G1_GENERATOR_Y < q ∧
    G2_GENERATOR_X_C0 < q ∧ G2_GENERATOR_X_C1 < q ∧ G2_GENERATOR_Y_C0 < q ∧
    G2_GENERATOR_Y_C1 < q ∧ NEGATIVE_ONE < q ∧ F_2_256 < q := by decide +kernel

theorem fr_raw_lt :
    fr_R < r ∧ fr_R2 < r ∧ fr_GENERATOR < r ∧ fr_ROOT_OF_UNITY < r ∧ F_2_192 < r := by
  decide +kernel

theorem frobenius_raw_lt :
    (∀ x ∈ FROBENIUS_COEFF_FQ2_C1, x < q) ∧
    (∀ x ∈ FROBENIUS_COEFF_FQ6_C1, x.1 < q ∧ x.2 < q) ∧
    (∀ x ∈ FROBENIUS_COEFF_FQ6_C2, x.1 < q ∧ x.2 < q) ∧
    (∀ x ∈ FROBENIUS_COEFF_FQ12_C1, x.1 < q ∧ x.2 < q) := by decide +kernel

theorem maps_raw_lt :
    G1_ELLP_A < q ∧ G1_ELLP_B < q ∧ G1_XI < q ∧ G1_SQRT_M_XI_CUBED < q ∧
    (G2_ELLP_A.1 < q ∧ G2_ELLP_A.2 < q) ∧ (G2_ELLP_B.1 < q ∧ G2_ELLP_B.2 < q) ∧
    (G2_XI.1 < q ∧ G2_XI.2 < q) ∧
    (∀ x ∈ G2_ETAS, x.1 < q ∧ x.2 < q) ∧ (∀ x ∈ G2_ROOTS_OF_UNITY, x.1 < q ∧ x.2 < q) ∧
    (∀ x ∈ ISO11_XNUM, x < q) ∧ (∀ x ∈ ISO11_XDEN, x < q) ∧
    (∀ x ∈ ISO11_YNUM, x < q) ∧ (∀ x ∈ ISO11_YDEN, x < q) ∧
    (∀ x ∈ ISO3_XNUM, x.1 < q ∧ x.2 < q) ∧ (∀ x ∈ ISO3_XDEN, x.1 < q ∧ x.2 < q) ∧
    (∀ x ∈ ISO3_YNUM, x.1 < q ∧ x.2 < q) ∧ (∀ x ∈ ISO3_YDEN, x.1 < q ∧ x.2 < q) := by
  decide +kernel

/-! ### decoded forms -/

/-- a raw literal that equals `x·W mod p` with `x < p` decodes to `x` -/
theorem dec_of_eq_enc {P : Params} (h : P.WF) {raw x : ℕ} (hx : x < P.p)
    (he : raw = x * P.W % P.p) : dec P raw = x := by
  have := dec_enc h x
  unfold enc at this
  rw [he, this, Nat.mod_eq_of_lt hx]

theorem dec_fq_R : dec fqP fq_R = 1 :=
  dec_of_eq_enc fqP_wf (by decide +kernel) (by decide +kernel)
theorem dec_fr_R : dec frP fr_R = 1 :=
  dec_of_eq_enc frP_wf (by decide +kernel) (by decide +kernel)
theorem dec_B_COEFF : dec fqP B_COEFF = 4 :=
  dec_of_eq_enc fqP_wf (by decide +kernel) (by decide +kernel)
theorem dec_NEGATIVE_ONE : dec fqP NEGATIVE_ONE = q - 1 :=
  dec_of_eq_enc fqP_wf (by decide +kernel) (by decide +kernel)
theorem dec_F_2_256 : dec fqP F_2_256 = 2 ^ 256 :=
  dec_of_eq_enc fqP_wf (by decide +kernel) (by decide +kernel)
theorem dec_F_2_192 : dec frP F_2_192 = 2 ^ 192 :=
  dec_of_eq_enc frP_wf (by decide +kernel) (by decide +kernel)
theorem dec_fq_GENERATOR : dec fqP fq_GENERATOR = fqGenerator :=
  dec_of_eq_enc fqP_wf (by decide +kernel) (by decide +kernel)
theorem dec_fr_GENERATOR : dec frP fr_GENERATOR = frGenerator :=
  dec_of_eq_enc frP_wf (by decide +kernel) (by decide +kernel)
theorem dec_fq_ROOT_OF_UNITY : dec fqP fq_ROOT_OF_UNITY = q - 1 :=
  dec_of_eq_enc fqP_wf (by decide +kernel) (by decide +kernel)
theorem dec_fr_ROOT_OF_UNITY : dec frP fr_ROOT_OF_UNITY = frOmega :=
  dec_of_eq_enc frP_wf (by decide +kernel) (by decide +kernel)

/-! ### bridge to the canonical-level model's `ofMont` -/

theorem fqRinv_spec : fqP.W * fqRinv % fqP.p = 1 := by decide +kernel
theorem frRinv_spec : frP.W * frRinv % frP.p = 1 := by decide +kernel

/-- `Fq.ofMont` (used by the canonical-level model to read raw literals) is `dec` -/
theorem Fq_ofMont_v (raw : ℕ) : (Fq.ofMont raw).v = dec fqP raw := by
  have := dec_eq_of_inverse fqP_wf fqRinv_spec raw
  rw [← this]; rfl

theorem Fr_ofMont_v (raw : ℕ) : (Fr.ofMont raw).v = dec frP raw := by
  have := dec_eq_of_inverse frP_wf frRinv_spec raw
  rw [← this]; rfl

end Mont
end PP
