/-
C15, layer 2 (G2): the model's `osswuG2` (square-root candidate through the addition chain for
`(q²−9)/16`, search through the four `ROOTS_OF_UNITY`, then through the four `ETAS` for the second
candidate, terminal `panic!`) is total and computes `map_to_curve_simple_swu` of RFC 9380.

Proved for an abstract field `F` with `∀ x ≠ 0, x^(N−1) = 1`, `N ≡ 9 (mod 16)`, an abstract chain
with `chain a = a^((N−9)/16)`, a sign function that flips under negation, and two lists with
  * `roots`: every 4th root of unity `ζ` has some `ρ ∈ roots` with `ρ²ζ = 1`,
  * `etas` : every `ζ` with `ζ⁴ = −1` has some `η ∈ etas` with `η²ζ = ξ³`;
the instantiation at `F = Fq2` is in `PP.Proofs.SswuG2Fq2`.
-/
import PP.Proofs.Sswu

set_option linter.unusedSectionVars false
set_option linter.unusedVariables false

namespace PP
namespace Sswu
open PP.Spec

variable {F : Type} [Field F] [DecidableEq F] [FieldOps F] [LawfulFieldOps F]

/-! ### the search loop -/

/-- the two `for` loops of `OSSWUMap for G2` over an abstract field (cf. `osswuG2Find`) -/
def findG (cand den num : F) : List F → Option F
  | [] => none
  | m :: ms => if sq (m * cand) * den = num then some (m * cand) else findG cand den num ms

theorem findG_some {cand den num : F} : ∀ {ms : List F} {y : F},
    findG cand den num ms = some y → (∃ m ∈ ms, y = m * cand) ∧ y ^ 2 * den = num := by
  intro ms
  induction ms with
  | nil => intro y h; simp [findG] at h
  | cons m ms ih =>
    intro y h
    unfold findG at h
    split at h
    · next hc =>
      obtain rfl := Option.some.inj h
      refine ⟨⟨m, by simp, rfl⟩, ?_⟩
      rw [← hc, LawfulFieldOps.sq_eq]; ring
    · obtain ⟨⟨m', hm', e⟩, h2⟩ := ih h
      exact ⟨⟨m', List.mem_cons_of_mem _ hm', e⟩, h2⟩

theorem findG_ne_none {cand den num : F} : ∀ {ms : List F} {m : F}, m ∈ ms →
    (m * cand) ^ 2 * den = num → findG cand den num ms ≠ none := by
  intro ms
  induction ms with
  | nil => intro m hm; simp at hm
  | cons m' ms ih =>
    intro m hm hc
    unfold findG
    split
    · simp
    · next hne =>
      rcases List.mem_cons.mp hm with rfl | hm
      · exfalso; apply hne; rw [← hc, LawfulFieldOps.sq_eq]; ring
      · exact ih hm hc

theorem findG_none {cand den num : F} {ms : List F} (h : findG cand den num ms = none) :
    ∀ m ∈ ms, (m * cand) ^ 2 * den ≠ num :=
  fun m hm hc => findG_ne_none hm hc h

/-! ### the model's control flow, with the helper record and the candidate as parameters -/

/-- `OSSWUMap for G2` after `osswu_help` and the chain; `none` = the terminal `panic!` -/
def osswuG2Core (sgn0 : F → Sgn0) (h : OsswuHelp F) (cand : F) (roots etas : List F) (u : F) :
    Option (Jac F) :=
  match findG cand h.gx0_den h.gx0_num roots with
  | some y0 =>
    let y0 := negateIf y0 ((sgn0 y0).xor (sgn0 u))
    some ⟨h.x0_num * h.x0_den, y0 * h.gx0_den, h.x0_den⟩
  | none =>
    let x1_num := h.x0_num * h.xi_usq
    let gx1_num := (h.xi2_u4 * h.xi_usq) * h.gx0_num
    let sqrtCandidate := (cand * h.usq) * u
    match findG sqrtCandidate h.gx0_den gx1_num etas with
    | some y1 =>
      let y1 := negateIf y1 ((sgn0 y1).xor (sgn0 u))
      some ⟨x1_num * h.x0_den, y1 * h.gx0_den, h.x0_den⟩
    | none => none

/-- the whole map over an abstract field -/
def g2Map (chain : F → F) (sgn0 : F → Sgn0) (ξ A B : F) (roots etas : List F) (u : F) :
    Option (Jac F) :=
  osswuG2Core sgn0 (osswuHelp u ξ A B)
    (chain (sq (sq (sq (osswuHelp u ξ A B).gx0_den)) *
        (sq (osswuHelp u ξ A B).gx0_den * sq (sq (osswuHelp u ξ A B).gx0_den) *
            (osswuHelp u ξ A B).gx0_den *
          (osswuHelp u ξ A B).gx0_num)) *
      (sq (osswuHelp u ξ A B).gx0_den * sq (sq (osswuHelp u ξ A B).gx0_den) *
          (osswuHelp u ξ A B).gx0_den *
        (osswuHelp u ξ A B).gx0_num))
    roots etas u

/-! ### the square-root candidate for `q² ≡ 9 (mod 16)` -/

/-- `(w v¹⁵)^k · w v⁷` (`k = (q²−9)/16`) -/
def cand2 (k : ℕ) (w v : F) : F := (w * v ^ 15) ^ k * (w * v ^ 7)

/-- `g2Map` in closed form -/
theorem g2Map_eq (chain : F → F) (k : ℕ) (hchain : ∀ a, chain a = a ^ k) (sgn0 : F → Sgn0)
    (ξ A B : F) (roots etas : List F) (u : F) :
    g2Map chain sgn0 ξ A B roots etas u =
      match findG (cand2 k (gx0num ξ A B u) (x0den ξ A u ^ 3)) (x0den ξ A u ^ 3) (gx0num ξ A B u)
        roots with
      | some y0 =>
        some (outJ ξ A u (x0num ξ B u) (negateIf y0 ((sgn0 y0).xor (sgn0 u))))
      | none =>
        match findG (u ^ 3 * cand2 k (gx0num ξ A B u) (x0den ξ A u ^ 3)) (x0den ξ A u ^ 3)
          (ξ ^ 3 * u ^ 6 * gx0num ξ A B u) etas with
        | some y1 =>
          some (outJ ξ A u (x0num ξ B u * (ξ * u ^ 2)) (negateIf y1 ((sgn0 y1).xor (sgn0 u))))
        | none => none := by
  unfold g2Map osswuG2Core
  rw [help_eq]
  simp only [hchain, LawfulFieldOps.sq_eq]
  have e1 : (x0den ξ A u ^ 3 * x0den ξ A u ^ 3 * (x0den ξ A u ^ 3 * x0den ξ A u ^ 3) *
        (x0den ξ A u ^ 3 * x0den ξ A u ^ 3 * (x0den ξ A u ^ 3 * x0den ξ A u ^ 3)) *
      (x0den ξ A u ^ 3 * x0den ξ A u ^ 3 *
            (x0den ξ A u ^ 3 * x0den ξ A u ^ 3 * (x0den ξ A u ^ 3 * x0den ξ A u ^ 3)) *
          x0den ξ A u ^ 3 * gx0num ξ A B u)) ^ k *
      (x0den ξ A u ^ 3 * x0den ξ A u ^ 3 *
            (x0den ξ A u ^ 3 * x0den ξ A u ^ 3 * (x0den ξ A u ^ 3 * x0den ξ A u ^ 3)) *
          x0den ξ A u ^ 3 * gx0num ξ A B u) = cand2 k (gx0num ξ A B u) (x0den ξ A u ^ 3) := by
    unfold cand2
    generalize x0den ξ A u ^ 3 = v
    generalize gx0num ξ A B u = w
    congr 1 <;> ring
  rw [e1]
  generalize cand2 k (gx0num ξ A B u) (x0den ξ A u ^ 3) = c
  have e2 : c * u ^ 2 * u = u ^ 3 * c := by ring
  have e3 : ξ ^ 2 * u ^ 4 * (ξ * u ^ 2) * gx0num ξ A B u = ξ ^ 3 * u ^ 6 * gx0num ξ A B u := by
    ring
  rw [e2, e3]
  rfl

section Cand2
variable {N : ℕ} (hN : N % 16 = 9) (hcard : ∀ x : F, x ≠ 0 → x ^ (N - 1) = 1)
include hN

theorem cand2_sq (w v : F) :
    cand2 ((N - 9) / 16) w v ^ 2 * v = (w * v ^ 15) ^ ((N - 1) / 8) * w := by
  have hk : (N - 1) / 8 = 2 * ((N - 9) / 16) + 1 := by omega
  rw [hk]
  unfold cand2
  ring

include hcard

/-- `ζ = (w v¹⁵)^((N−1)/8)` is an 8th root of unity -/
theorem zeta_pow8 {w v : F} (hw : w ≠ 0) (hv : v ≠ 0) :
    ((w * v ^ 15) ^ ((N - 1) / 8)) ^ 8 = 1 := by
  have h8 : (N - 1) / 8 * 8 = N - 1 := by omega
  rw [← pow_mul, h8, hcard _ (mul_ne_zero hw (pow_ne_zero _ hv))]

/-- and a 4th root of unity when `w/v` is a square -/
theorem zeta_pow4_of_isSquare {w v : F} (hw : w ≠ 0) (hv : v ≠ 0) (h : IsSquare (w / v)) :
    ((w * v ^ 15) ^ ((N - 1) / 8)) ^ 4 = 1 := by
  obtain ⟨r, hr⟩ := h
  have hw' : w = r * r * v := by field_simp at hr; linear_combination hr
  have hr0 : r ≠ 0 := by rintro rfl; apply hw; rw [hw']; ring
  have hs : w * v ^ 15 = (r * v ^ 8) ^ 2 := by rw [hw']; ring
  have h4 : 2 * ((N - 1) / 8 * 4) = N - 1 := by omega
  rw [← pow_mul, hs, ← pow_mul, h4, hcard _ (mul_ne_zero hr0 (pow_ne_zero _ hv))]

end Cand2

/-! ### the map is the RFC's -/

section Main
variable {N : ℕ} (hN : N % 16 = 9) (hcard : ∀ x : F, x ≠ 0 → x ^ (N - 1) = 1)
variable {ξ A B : F} (hA : A ≠ 0) (hξ : ξ ≠ 0)
variable (hexc : IsSquare (sswuG A B (B / (ξ * A))))
variable (sgn0 : F → Sgn0) (hflip : ∀ y : F, y ≠ 0 → sgn0 (-y) ≠ sgn0 y)
variable (chain : F → F) (hchain : ∀ a, chain a = a ^ ((N - 9) / 16))
variable (roots etas : List F)
variable (hroots : ∀ ζ : F, ζ ^ 4 = 1 → ∃ ρ ∈ roots, ρ ^ 2 * ζ = 1)
variable (hetas : ∀ ζ : F, ζ ^ 4 = -1 → ∃ η ∈ etas, η ^ 2 * ζ = ξ ^ 3)
include hN hcard hA hξ hexc hflip hchain hroots hetas

/-- **C15 for the G2-shaped map over an abstract field**: the map returns (the `panic!` is
unreachable), and what it returns is the RFC's output. -/
theorem g2Map_spec (u : F) :
    ∃ P, g2Map chain sgn0 ξ A B roots etas u = some P ∧ SswuOut sgn0 ξ A B u P := by
  rw [g2Map_eq chain _ hchain]
  have hd := x0den_ne_zero hA hξ u
  have hv : x0den ξ A u ^ 3 ≠ 0 := pow_ne_zero _ hd
  set v := x0den ξ A u ^ 3 with hvdef
  set w := gx0num ξ A B u with hwdef
  set c := cand2 ((N - 9) / 16) w v with hc
  have hcsq : c ^ 2 * v = (w * v ^ 15) ^ ((N - 1) / 8) * w := cand2_sq hN w v
  set ζ := (w * v ^ 15) ^ ((N - 1) / 8) with hζ
  split
  · next y0 h0 =>
    obtain ⟨_, hy⟩ := findG_some h0
    exact ⟨_, rfl, sswuOut_branch1 hA hξ sgn0 hflip u y0 hy⟩
  · next hnone =>
    have hno := findG_none hnone
    -- the list of roots is not empty
    obtain ⟨ρ1, hρ1, _⟩ := hroots 1 (one_pow 4)
    have hw : w ≠ 0 := by
      intro hw0
      apply hno ρ1 hρ1
      rw [mul_pow, mul_assoc, hcsq, hw0]; ring
    have hζ4 : ζ ^ 4 ≠ 1 := by
      intro h4
      obtain ⟨ρ, hρ, e⟩ := hroots ζ h4
      apply hno ρ hρ
      rw [mul_pow, mul_assoc, hcsq, ← mul_assoc, e, one_mul]
    have hζ8 : ζ ^ 8 = 1 := zeta_pow8 hN hcard hw hv
    have hζ4' : ζ ^ 4 = -1 := by
      have : ζ ^ 4 * ζ ^ 4 = 1 := by rw [← pow_add]; exact hζ8
      rcases mul_self_eq_one_iff.mp this with h | h
      · exact absurd h hζ4
      · exact h
    have hns : ¬ IsSquare (sswuG A B (x0 ξ A B u)) := by
      intro hs
      rw [← gx0_eq hA hξ u B] at hs
      exact hζ4 (zeta_pow4_of_isSquare hN hcard hw hv hs)
    obtain ⟨η, hη, e⟩ := hetas ζ hζ4'
    have hfound : findG (u ^ 3 * c) v (ξ ^ 3 * u ^ 6 * w) etas ≠ none := by
      refine findG_ne_none hη ?_
      calc (η * (u ^ 3 * c)) ^ 2 * v = η ^ 2 * u ^ 6 * (c ^ 2 * v) := by ring
        _ = (η ^ 2 * ζ) * u ^ 6 * w := by rw [hcsq]; ring
        _ = ξ ^ 3 * u ^ 6 * w := by rw [e]
    split
    · next y1 h1 =>
      obtain ⟨_, hy⟩ := findG_some h1
      exact ⟨_, rfl, sswuOut_branch2 hA hξ hexc sgn0 hflip u y1 hns hy⟩
    · next h1 => exact absurd h1 hfound

end Main

end Sswu
end PP
